package main

import (
	"fmt"
	"os"
	"strings"

	"verifharness/internal/wire"
)

// probe prints the hand-written regression cases of harness/corpus/C09/issue.*.ops (development
// aid: `c09 probe > ../corpus/C09/issue.witnesses.ops`).
func probe() {
	if len(os.Args) > 2 && os.Args[2] == "authn" {
		probeAuthn()
		return
	}
	pods := []podSpec{{name: "zt", ns: "istio-system", uid: "u1", sa: "ztunnel", node: "n1"}, {name: "p1", ns: "a", uid: "u2", sa: "b", node: "n1"},
		{name: "p2", ns: "c", uid: "u3", sa: "d", node: "n2"}}
	na := []string{"na", wire.EncList([]string{"istio-system/ztunnel"}), "1", "c1", encPods(pods)}
	node := authOutcome{kind: "ok", ids: []string{"spiffe://cluster.local/ns/istio-system/sa/ztunnel"}, kube: kinfo("zt", "istio-system", "u1", "ztunnel")}
	base := func() reqSpec {
		return reqSpec{xdsAuth: true, hasPeer: true, tls: true, outs: []authOutcome{node},
			csr: csrSpec{form: "ok", key: "ec256-a"}, ttl: 600, imp: "-", signer: "-", cluster: "c1"}
	}
	emit := func(f ...string) { fmt.Println(strings.Join(f, " ")) }
	n := 0
	header := func(name string) {
		emit("case", fmt.Sprint(n), "issue", name)
		n++
	}
	// 1. finding: impersonated identity with commas in the trust-domain segment (fixed by 9b70d27)
	header("comma-impersonation")
	emit("ca", "plug", "86400", "86400", "1", "3600", "86400")
	emit(na...)
	for _, imp := range []string{
		"spiffe://evil,victim.example.com,10.0.0.1,x/ns/a/sa/b",
		"spiffe://evil,victim.example.com/ns/a/sa/b",
		"spiffe://cluster.local/ns/a/sa/b",
		"spiffe://cluster.local/ns/c/sa/d",
		"spiffe://other.td/ns/a/sa/b",
		"spiffe://cluster.local/ns/a/sa/b/x",
		"cluster.local/ns/a/sa/b",
	} {
		r := base()
		r.imp = "s:" + wire.Enc(imp)
		emit(r.line()...)
	}
	// every ingredient of the gate, one at a time: stale UID, other service account, unknown pod,
	// untrusted account, other / unknown / ambiguous cluster
	for i := 0; i < 7; i++ {
		r := base()
		r.imp = "s:" + wire.Enc("spiffe://cluster.local/ns/a/sa/b")
		switch i {
		case 0:
			r.outs[0].kube.PodUID = "stale"
		case 1:
			r.outs[0].kube.PodServiceAccount = "d"
		case 2:
			r.outs[0].kube.PodName = "ghost"
		case 3:
			// an untrusted account asking for the identity running on its own node
			r.outs[0].kube = kinfo("p2", "c", "u3", "d")
			r.imp = "s:" + wire.Enc("spiffe://cluster.local/ns/c/sa/d")
		case 4:
			r.cluster = "c2"
		case 5:
			r.cluster = "-"
		case 6:
			r.cluster = "c1,c1"
		}
		emit(r.line()...)
	}
	// 1a. the caller-pod checks of the gate, each as the ONLY thing that refuses: empty UID presented for
	// a valid pod name; the named pod runs as another account than the (trusted) one claimed
	header("caller-pod-uid-and-account")
	emit("ca", "plug", "86400", "86400", "1", "3600", "86400")
	pods1a := append(append([]podSpec{}, pods...), podSpec{name: "ztx", ns: "istio-system", uid: "u9", sa: "other", node: "n1"})
	emit("na", wire.EncList([]string{"istio-system/ztunnel"}), "1", "c1", encPods(pods1a))
	for i := 0; i < 5; i++ {
		r := base()
		r.imp = "s:" + wire.Enc("spiffe://cluster.local/ns/a/sa/b")
		switch i {
		case 4:
			r.outs[0].kube.PodName = "" // no pod name: there is no caller pod to find
		case 0:
			r.outs[0].kube.PodUID = "" // no UID (a TokenReview without the pod-uid extra)
		case 1:
			r.outs[0].kube = kinfo("ztx", "istio-system", "u9", "ztunnel") // pod ztx runs as `other`
		case 2:
			r.outs[0].kube = kinfo("ztx", "istio-system", "u9", "other") // ... and `other` is not trusted
		case 3: // all in place
		}
		emit(r.line()...)
	}
	{
		// the same through the real kube authenticator: the API server reports no pod UID
		rev := reviewSpec{authenticated: true, groups: []string{"system:serviceaccounts", "system:authenticated"},
			username: "system:serviceaccount:istio-system:ztunnel", podName: "=zt", podUID: "-"}
		for _, uid := range []string{"-", "=", "=u1"} {
			rev.podUID = uid
			a := reqaSpec{spec: kubeSpecTokens("cluster.local", "c1", nil, "nil", "c1", "bearer", "node-proxy-token", []string{"istio-ca"}, rev),
				req: reqSpec{csr: csrSpec{form: "ok", key: "ec256-a"}, ttl: 600, imp: "s:" + wire.Enc("spiffe://cluster.local/ns/a/sa/b"), signer: "-", cluster: "c1"}}
			emit(a.line()...)
		}
		rev.podUID, rev.podName = "=u9", "=ztx"
		a := reqaSpec{spec: kubeSpecTokens("cluster.local", "c1", nil, "nil", "c1", "bearer", "node-proxy-token", []string{"istio-ca"}, rev),
			req: reqSpec{csr: csrSpec{form: "ok", key: "ec256-a"}, ttl: 600, imp: "s:" + wire.Enc("spiffe://cluster.local/ns/a/sa/b"), signer: "-", cluster: "c1"}}
		emit(a.line()...)
	}
	// 1a''. the gate must judge exactly the string that is issued: decorated spellings of the on-node identity
	header("decorated-impersonation")
	emit("ca", "plug", "86400", "86400", "1", "3600", "86400")
	emit(na...)
	for _, imp := range []string{"spiffe://cluster.local/ns/a/sa/b ", " spiffe://cluster.local/ns/a/sa/b", "spiffe://cluster.local/ns/a/sa/b/",
		"SPIFFE://cluster.local/ns/a/sa/b", "spiffe://cluster.local/NS/a/sa/b", "spiffe://cluster.local/ns/a/sa/%2E%2E/sa/b", "spiffe://cluster.local/ns/a/sa/b\t",
		"spiffe://cluster.local//ns/a/sa/b", "spiffe://cluster.local/ns/a/sa/b%20", "spiffe://cluster.local/ns/a/sa/b\n", "spiffe://cluster.local/ns/a/sa/b"} {
		r := base()
		r.imp = "s:" + wire.Enc(imp)
		emit(r.line()...)
	}
	// 1a'. a pod world that changes between requests (private world): delete / add / re-create pods,
	// Succeeded and Pending pods (they pass the informer's selector), a cluster update whose new
	// authorizer has not synced (the old one answers), its sync, a second update before the first synced
	// (fail closed), deletion during a pending update (finding, fixed by 789ce3b: no authorizer any more),
	// re-adding the cluster
	header("dynamic-pods-and-clusters")
	emit("ca", "plug", "86400", "86400", "1", "3600", "86400")
	emit("nap", wire.EncList([]string{"istio-system/ztunnel"}), "1", "c1", encPods(pods))
	ask := func(uid, ns, sa string) {
		r := base()
		r.outs[0].kube.PodUID = uid
		r.imp = "s:" + wire.Enc("spiffe://cluster.local/ns/"+ns+"/sa/"+sa)
		emit(r.line()...)
	}
	pf := func(p podSpec) string { return wire.Enc(encFields(p.name, p.ns, p.uid, p.sa, p.node, p.phase)) }
	ask("u1", "a", "b")
	emit("pod", "del", "c1", "a", "p1")
	ask("u1", "a", "b")
	emit("pod", "add", "c1", pf(podSpec{name: "p1", ns: "a", uid: "u20", sa: "b", node: "n1", phase: "S"}))
	ask("u1", "a", "b") // a completed (Succeeded) pod still authorizes: recorded observation
	emit("pod", "add", "c1", pf(podSpec{name: "p5", ns: "e", uid: "u21", sa: "f", node: "n1", phase: "P"}))
	ask("u1", "e", "f")
	emit("pod", "del", "c1", "istio-system", "zt")
	ask("u1", "a", "b")
	emit("pod", "add", "c1", pf(podSpec{name: "zt", ns: "istio-system", uid: "u22", sa: "ztunnel", node: "n1"}))
	ask("u1", "a", "b")  // the UID of the previous incarnation
	ask("u22", "a", "b") // the new one
	ask("", "a", "b")
	newPods := []podSpec{{name: "zt", ns: "istio-system", uid: "u30", sa: "ztunnel", node: "n1"}, {name: "q1", ns: "g", uid: "u31", sa: "h", node: "n1"}}
	emit("cl", "upd", "c1", encPods(newPods), "0")
	ask("u22", "a", "b") // old authorizer still answers
	ask("u30", "g", "h")
	emit("cl", "sync", "c1")
	ask("u22", "a", "b")
	ask("u30", "g", "h")
	emit("cl", "upd", "c1", encPods(pods), "0")
	emit("cl", "run", "c1") // the new component syncs, nothing has finalised the swap yet: pendingSwap.active hands out the new one
	ask("u1", "a", "b")
	ask("u30", "g", "h")
	emit("cl", "upd", "c1", encPods(newPods), "0") // ... and it is the predecessor of the next update
	ask("u1", "a", "b")
	emit("cl", "sync", "c1")
	ask("u30", "g", "h")
	emit("cl", "upd", "c1", encPods(pods), "0")
	emit("cl", "upd", "c1", encPods(newPods), "0")
	ask("u30", "g", "h") // second rotation before the first synced: refused until it syncs
	emit("cl", "sync", "c1")
	ask("u30", "g", "h")
	emit("cl", "upd", "c1", encPods(pods), "0")
	emit("cl", "del", "c1")
	ask("u30", "g", "h") // deleted cluster: no authorizer (before 789ce3b the old one kept answering)
	emit("cl", "add", "c1", encPods(pods))
	ask("u30", "g", "h")
	ask("u1", "a", "b")
	emit("cl", "upd", "c2", encPods(newPods), "0") // update for an ID that was never added
	{
		r := base()
		r.outs[0].kube.PodUID = "u30"
		r.cluster = "c2"
		r.imp = "s:" + wire.Enc("spiffe://cluster.local/ns/g/sa/h")
		emit(r.line()...)
		emit("cl", "sync", "c2")
		emit(r.line()...)
	}
	// 1a3. pod UPDATE events and a namespace outside the discovery selectors
	header("pod-updates-and-hidden-namespace")
	emit("ca", "plug", "86400", "86400", "1", "3600", "86400")
	podsH := append(append([]podSpec{}, pods...), podSpec{name: "late", ns: "e", uid: "u40", sa: "f", node: "", phase: "P"},
		podSpec{name: "hid", ns: "hiddenns", uid: "u41", sa: "h", node: "n1"})
	emit("nap", wire.EncList([]string{"istio-system/ztunnel"}), "1", "c1", encPods(podsH), "hide", wire.EncList([]string{"hiddenns"}))
	ask("u1", "hiddenns", "h") // the pod exists on the node but its namespace is not watched
	ask("u1", "e", "f")        // not scheduled yet
	emit("pod", "upd", "c1", pf(podSpec{name: "late", ns: "e", uid: "u40", sa: "f", node: "n1", phase: ""}))
	ask("u1", "e", "f")
	emit("pod", "upd", "c1", pf(podSpec{name: "late", ns: "e", uid: "u40", sa: "f", node: "n1", phase: "F"}))
	ask("u1", "e", "f") // Running -> Failed: gone from the informer
	emit("pod", "upd", "c1", pf(podSpec{name: "p1", ns: "a", uid: "u2", sa: "b", node: "n2", phase: ""}))
	ask("u1", "a", "b") // moved to another node
	emit("pod", "upd", "c1", pf(podSpec{name: "zt", ns: "istio-system", uid: "u1", sa: "ztunnel", node: "n2", phase: ""}))
	ask("u1", "a", "b")
	// 1b. pods the {service account, node} index must not contain: unscheduled pods (NodeName guard:
	// an unscheduled trusted caller asks for an unscheduled pod's identity), pods without service
	// account, and Failed pods (filtered by the informer's field selector)
	header("unindexed-pods")
	emit("ca", "plug", "86400", "86400", "1", "3600", "86400")
	pods2 := []podSpec{{name: "zt", ns: "istio-system", uid: "u1", sa: "ztunnel", node: ""}, {name: "p1", ns: "a", uid: "u2", sa: "b", node: ""},
		{name: "zt2", ns: "istio-system", uid: "u3", sa: "ztunnel", node: "n2"}, {name: "p2", ns: "c", uid: "u4", sa: "d", node: "n2", phase: "F"},
		{name: "p3", ns: "c", uid: "u5", sa: "", node: "n2"}, {name: "p4", ns: "a", uid: "u6", sa: "ok", node: "n2"}}
	emit("na", wire.EncList([]string{"istio-system/ztunnel"}), "1", "c1", encPods(pods2))
	for i, imp := range []string{"spiffe://cluster.local/ns/a/sa/b", "spiffe://cluster.local/ns/c/sa/d", "spiffe://cluster.local/ns/c/sa/", "spiffe://cluster.local/ns/a/sa/ok"} {
		r := base()
		if i > 0 {
			r.outs[0].kube = kinfo("zt2", "istio-system", "u3", "ztunnel")
		}
		r.imp = "s:" + wire.Enc(imp)
		emit(r.line()...)
	}
	// 1c. known finding: the gate does not look at the trust domain of the impersonated identity
	header("foreign-trust-domain")
	emit("ca", "plug", "86400", "86400", "1", "3600", "86400")
	emit(na...)
	{
		r := base()
		r.imp = "s:" + wire.Enc("spiffe://other.td/ns/a/sa/b")
		emit(r.line()...)
		r.imp = "s:" + wire.Enc("spiffe:///ns/a/sa/b") // an empty trust domain: the same class
		emit(r.line()...)
	}
	// 1d. REAL authenticators inside Server.Authenticators, end to end through CreateCertificate
	header("real-authenticators")
	emit("ca", "plug", "86400", "86400", "1", "3600", "86400")
	emit(na...)
	good := reviewSpec{authenticated: true, groups: []string{"system:serviceaccounts", "system:authenticated"},
		username: "system:serviceaccount:istio-system:ztunnel", podName: "=zt", podUID: "=u1"}
	reqa := func(spec []string, imp, cluster string) {
		a := reqaSpec{spec: spec, req: reqSpec{csr: csrSpec{form: "ok", key: "ec256-a", cn: "evil.example.com", org: "Evil Corp", sans: []string{"evil.example.com"}, ca: true},
			ttl: 600, imp: "-", signer: "-", cluster: cluster}}
		if imp != "" {
			a.req.imp = "s:" + wire.Enc(imp)
		}
		emit(a.line()...)
	}
	kube := func(rev reviewSpec, form string) []string {
		return kubeSpecTokens("cluster.local", "c1", nil, "nil", "c1", form, "node-proxy-token", []string{"istio-ca"}, rev)
	}
	reqa(kube(good, "bearer"), "", "c1")                                 // the proxy's own identity
	reqa(kube(good, "bearer"), "spiffe://cluster.local/ns/a/sa/b", "c1") // ambient flow: workload on its node
	reqa(kube(good, "bearer"), "spiffe://cluster.local/ns/c/sa/d", "c1") // workload of another node
	reqa(kube(good, "basic"), "", "c1")                                  // no bearer token
	reqa(kube(good, "two"), "", "c1")                                    // an invalid bearer token in front of the valid one
	reqa(kube(good, "two2"), "", "c1")                                   // ... and behind it
	reqa(kube(good, "bearer"), "", "unknown")                            // cluster istiod does not know
	bad := good
	bad.authenticated = false
	reqa(kube(bad, "bearer"), "", "c1")
	stale := good
	stale.podUID = "=old-uid"
	reqa(kube(stale, "bearer"), "spiffe://cluster.local/ns/a/sa/b", "c1")
	oidcSpec := func(sub, aud string) []string {
		return []string{"oidc", "grpc", "cluster.local", "istio-ca", "bearer", "ok", wire.Enc(sub), "list", aud, "j"}
	}
	reqa(oidcSpec("system:serviceaccount:ns1:sa1", "istio-ca"), "", "-")
	reqa(oidcSpec("system:serviceaccount:x", "istio-ca"), "", "-") // F5: an error since the fix, not a crash
	reqa(oidcSpec("system:serviceaccount:ns1:sa1", "other"), "", "-")
	reqa(oidcSpec("system:serviceaccount:a,evil.example.com:b", "istio-ca"), "", "-") // comma identity from a signed sub: refused
	hx := `URI=spiffe://cluster.local/ns/b/sa/c;DNS=foo.example.com;Subject="CN=bar,O=x"`
	for _, peer := range []string{"10.1.2.3:555", "11.1.2.3:555", "127.0.0.1:80"} {
		reqa([]string{"xfcc", "grpc", wire.Enc("10.0.0.0/8"), wire.Enc(peer), wire.EncList([]string{hx}), parsedXFCCAll([]string{hx})}, "", "-")
	}
	leaf := wire.Enc("san:" + wire.EncList([]string{"U:spiffe://cluster.local/ns/a/sa/b", "D:foo.example.com"}))
	other := wire.Enc("san:" + wire.EncList([]string{"U:spiffe://cluster.local/ns/kube-system/sa/admin"}))
	reqa([]string{"cert", "grpc", "tls", wire.EncList([]string{leaf + "|" + other, other})}, "", "-")
	reqa([]string{"cert", "grpc", "tls", wire.EncList([]string{wire.Enc("nosan") + "|" + other})}, "", "-")
	reqa([]string{"cert", "grpc", "other", wire.EncList([]string{leaf})}, "", "-")
	// istiod's whole chain in one server: client certificate, Kubernetes JWT, XFCC - the first valid credential wins
	{
		xf := func(peer string) []string {
			return []string{"xfcc", "grpc", wire.Enc("10.0.0.0/8"), wire.Enc(peer), wire.EncList([]string{hx}), parsedXFCCAll([]string{hx})}
		}
		certOK := []string{"cert", "grpc", "tls", wire.EncList([]string{leaf})}
		certNo := []string{"cert", "grpc", "tls", wire.EncList([]string{wire.Enc("nosan")})}
		chain := func(imp string, specs ...[]string) {
			m := reqmSpec{specs: specs, req: reqSpec{csr: csrSpec{form: "ok", key: "ec256-a"}, ttl: 600, imp: "-", signer: "-", cluster: "c1"}}
			if imp != "" {
				m.req.imp = "s:" + wire.Enc(imp)
			}
			emit(m.line()...)
		}
		chain("", certOK, kube(good, "bearer"), xf("10.1.2.3:555"))
		chain("", certNo, kube(good, "bearer"), xf("10.1.2.3:555"))
		chain("", certNo, kube(bad, "bearer"), xf("10.1.2.3:555"))
		chain("", certNo, kube(bad, "bearer"), xf("11.1.2.3:555"))
		chain("spiffe://cluster.local/ns/a/sa/b", certNo, kube(good, "bearer"), xf("10.1.2.3:555")) // ambient flow behind a failing client-cert authenticator
		chain("spiffe://cluster.local/ns/a/sa/b", certOK, kube(good, "bearer"))                     // the client certificate wins: no pod information, refused
		chain("", kube(good, "bearer"), xf("host:80"))                                              // never reached: no crash
	}
	// client certificates over a real TLS handshake: roots are scoped by trust domain
	tlsc := func(issuer, uri string, ints ...string) []string {
		return []string{"tlscert", "grpc", wire.EncList([]string{"td1=R1", "td2=R2"}), leafSpec{issuer: issuer, sans: []string{"U:" + uri, "D:foo.example.com"}, when: "ok", eku: "both"}.tok(),
			wire.EncList(ints)}
	}
	reqa(tlsc("R1", "spiffe://td1/ns/a/sa/b"), "", "-")
	reqa(tlsc("R2", "spiffe://td1/ns/a/sa/b"), "", "-") // td2's CA issuing a td1 identity: handshake refused
	reqa(tlsc("I3", "spiffe://td1/ns/a/sa/b", "I3", "I1"), "", "-")
	reqa(tlsc("R1", "spiffe://td3/ns/a/sa/b"), "", "-")
	// 2. authenticated identity containing a comma
	header("comma-identity")
	emit("ca", "self", fmt.Sprint(farLife), "-", "1", "3600", "86400")
	emit("na", "-")
	for _, ids := range [][]string{{"a,b"}, {"spiffe://cluster.local/ns/a/sa/b,evil.example.com"}, {"spiffe://cluster.local/ns/a/sa/b", "x,10.0.0.1"}} {
		r := base()
		r.outs = []authOutcome{{kind: "ok", ids: ids}}
		emit(r.line()...)
	}
	// 2b. finding (fixed by 197ddc2): an authenticated SPIFFE identity with an upper-case scheme was issued as a DNS SAN
	header("upper-case-scheme")
	emit("ca", "plug", "86400", "86400", "1", "3600", "86400")
	emit("na", "-")
	for _, ids := range [][]string{{"SPIFFE://td1/ns/a/sa/b"}, {"Spiffe://td1/ns/a/sa/b", "spiffe://td1/ns/a/sa/b"}, {"spiffe:/x", "SPIFFE:/"}} {
		r := base()
		r.outs = []authOutcome{{kind: "ok", ids: ids}}
		emit(r.line()...)
	}
	{
		upper := leafSpec{issuer: "R1", sans: []string{"U:SPIFFE://td1/ns/a/sa/b"}, when: "ok", eku: "both"}
		a := reqaSpec{spec: []string{"tlscert", "grpc", wire.EncList([]string{"td1=R1"}), upper.tok(), "-"},
			req: reqSpec{csr: csrSpec{form: "ok", key: "ec256-a"}, ttl: 600, imp: "-", signer: "-", cluster: "-"}}
		emit(a.line()...)
		hx := "URI=SPIFFE://cluster.local/ns/a/sa/b"
		a.spec = []string{"xfcc", "grpc", wire.Enc("10.0.0.0/8"), wire.Enc("10.1.2.3:555"), wire.EncList([]string{hx}), parsedXFCCAll([]string{hx})}
		emit(a.line()...)
	}
	// 3. the CSR asks for everything; the certificate carries only the authenticated identity
	header("adversarial-csr")
	emit("ca", "plug2", "7200", "7200,"+fmt.Sprint(int1Life), "1", "1800", "86400")
	emit("na", "-")
	for _, k := range keyNames {
		r := base()
		r.csr = csrSpec{form: "ok", key: k, cn: "evil.example.com", org: "Evil", sans: []string{"spiffe://cluster.local/ns/kube-system/sa/admin", "10.6.6.6"}, ca: true, extra: true}
		r.junk = 2
		r.signer = "s:" + wire.Enc("x,y")
		emit(r.line()...)
	}
	for _, form := range []string{"oktype", "oktrail", "oklead", "nopem", "empty", "badder", "trunc", "badsig", "emptyblock"} {
		r := base()
		r.csr.form = form
		emit(r.line()...)
	}
	// 4. TTL policy: default, max, clamp to the signer, int64 wrap-around
	header("ttl")
	emit("ca", "plug", "3600", "3600", "1", "1800", "86400")
	emit("na", "-")
	// 20211507185753197 * 1e9 wraps to 512 ns: a positive lifetime below one second, the certificate ends when issued (observation)
	for _, ttl := range []int64{-5, 0, 1, 1800, 3600, 3601, 3630, 3719, 5400, 86400, 86401, (1 << 55) + 600, -(1 << 55) + 600, 1 << 62, 9223372036, 9223372037, -(1 << 63),
		20211507185753197, 40423014371506394} {
		r := base()
		r.ttl = ttl
		emit(r.line()...)
	}
	// 4a. finding (fixed by 7ea8d4d): default TTL configured above the maximum
	header("default-above-max")
	emit("ca", "plug", "2592000", "2592000", "1", "7200", "3600")
	emit("na", "-")
	for _, ttl := range []int64{0, -1, 600, 3600, 3601} {
		r := base()
		r.ttl = ttl
		emit(r.line()...)
	}
	// 4b. default TTL capped by the first chain certificate (minTTL) although the signer lives longer;
	// bundle without a root certificate
	header("capchain")
	emit("ca", "capchain", "2592000", "7200,2592000", "1", "86400", "86400")
	emit("na", "-")
	for _, ttl := range []int64{0, -1, 600, 3600, 86400} {
		r := base()
		r.ttl = ttl
		emit(r.line()...)
	}
	header("noroot")
	emit("ca", "noroot", "86400", "86400", "0", "3600", "86400")
	emit("na", "-")
	emit(base().line()...)
	// 4c. CAs built through the production constructors, an RSA intermediate, a signer that is not valid yet; CSRs from
	// the real util.GenCSR; the signing certificate replaced under the live CA; istiod's own certificate (GenKeyCert)
	for _, k := range []string{"plugfile", "plugfilenotca", "selfk8s", "plugrsa", "future"} {
		header("ca-" + k)
		switch k {
		case "plugfile", "plugfilenotca": // the latter: refused by NewPluggedCertIstioCAOptions, no CA
			emit("ca", k, "7200", "7200", "1", "1800", "86400")
		case "future":
			emit("ca", k, "7200", "-", "1", "1800", "86400")
		case "selfk8s":
			emit("ca", k, fmt.Sprint(farLife), "-", "1", "1800", "86400")
		default:
			emit("ca", k, fmt.Sprint(farLife), fmt.Sprint(farLife), "1", "1800", "86400")
		}
		emit("na", "-")
		for _, ttl := range []int64{0, 600, 86400, 86401} {
			r := base()
			r.ttl = ttl
			r.csr = csrSpec{form: "gen", key: "ec256-a", cn: "x", org: "Evil Corp", sans: []string{"spiffe://cluster.local/ns/kube-system/sa/admin", "evil.example.com"}}
			emit(r.line()...)
		}
	}
	header("bundle-rotation")
	emit("ca", "plug", "86400", "86400", "1", "3600", "86400")
	emit("na", "-")
	{
		r := base()
		r.ttl = 7200
		emit(r.line()...)
		emit("genkeycert", wire.EncList([]string{"istiod.istio-system.svc", "10.0.0.1"}), "600")
		emit("genkeycert", wire.EncList([]string{"istiod.istio-system.svc"}), fmt.Sprint(86400*365)) // no lifetime check, clamped to the signer
		emit("genkeycert", wire.EncList([]string{"a,b"}), "600")
		emit("rot", "3600", "-") // a signer that expires sooner takes over
		emit(r.line()...)        // now clamped
		r.ttl = 0
		emit(r.line()...) // the default TTL computed at construction is kept
		emit("rot", "-3600", "-")
		emit(r.line()...)
		emit("rot", "2592000", "c")
		r.ttl = 7200
		emit(r.line()...)
	}
	// 4d. the self-signed CA as istiod runs it: rootCertFile, root-cert rotator running; the REAL rotator replaces the root
	header("ca-selfrot")
	emit("ca", "selfrot", "7200", "-", "1", "1800", "86400")
	emit("na", "-")
	{
		r := base()
		emit(r.line()...)
		r.ttl = 86400
		emit(r.line()...) // clamped to the root
		emit("rot", "7200", "-")
		emit(r.line()...) // clamped to the new root
		r.ttl = 0
		emit(r.line()...)
	}
	// 4e. a zero maximum TTL: positive requests refused, a defaulted lifetime capped to nothing (NotAfter = now): observation
	header("zero-max")
	emit("ca", "plug", "86400", "86400", "1", "3600", "0")
	emit("na", "-")
	for _, ttl := range []int64{0, -1, 1} {
		r := base()
		r.ttl = ttl
		emit(r.line()...)
	}
	// 4f. CSRs: one corrupted byte at 16 places, a second PEM block, a garbage block in front, RSA-PSS, unknown key type, RSA-1024
	header("csr-corruption")
	emit("ca", "plug", "86400", "86400", "1", "3600", "86400")
	emit("na", "-")
	for i := 0; i < 64; i += 4 {
		r := base()
		r.csr.form = fmt.Sprint("flip", i)
		if i%8 == 0 {
			r.csr.key = "rsa-a"
		}
		emit(r.line()...)
	}
	for _, form := range []string{"multi", "multibad", "pss", "unkkey"} {
		r := base()
		r.csr.form = form
		emit(r.line()...)
	}
	{
		r := base()
		r.csr.key = "rsa1024"
		emit(r.line()...)
	}
	// 4g. ImpersonatedIdentity / CertSigner metadata values that are not strings: number, list, struct, bool, null
	header("metadata-value-kinds")
	emit("ca", "plug", "86400", "86400", "1", "3600", "86400")
	emit(na...)
	for _, k := range []string{"n", "l", "o", "b", "z", "s:~"} {
		r := base()
		r.imp, r.signer = k, k
		emit(r.line()...)
	}
	// 4h. the same pod name in several namespaces of a cluster: the caller's pod is found by namespace AND name (four
	// copies of the world: a lookup by name alone would depend on the informer's iteration order)
	header("pod-name-in-several-namespaces")
	emit("ca", "plug", "86400", "86400", "1", "3600", "86400")
	for copy := 0; copy < 4; copy++ {
		twins := []podSpec{{name: "zt", ns: "a", uid: "u7", sa: "ztunnel", node: "n2"}, {name: "zt", ns: "istio-system", uid: "u1", sa: "ztunnel", node: "n1"},
			{name: "p1", ns: "a", uid: "u2", sa: "b", node: "n1"}, {name: "p1", ns: "c", uid: "u3", sa: "d", node: "n2"}, {name: "zt", ns: "c", uid: "u8", sa: "ztunnel", node: "n2"},
			{name: fmt.Sprint("filler", copy), ns: "a", uid: "u9", sa: "x", node: "n1"}}
		emit("na", wire.EncList([]string{"istio-system/ztunnel"}), "1", "c1", encPods(twins))
		for _, k := range [][5]string{{"zt", "istio-system", "u1", "ztunnel", "a/sa/b"}, {"zt", "a", "u7", "ztunnel", "c/sa/d"}, {"zt", "istio-system", "u7", "ztunnel", "c/sa/d"},
			{"zt", "istio-system", "u8", "ztunnel", "c/sa/d"}, {"zt", "istio-system", "u1", "ztunnel", "c/sa/d"}} {
			r := base()
			r.outs[0].kube = kinfo(k[0], k[1], k[2], k[3])
			r.imp = "s:" + wire.Enc("spiffe://cluster.local/ns/"+k[4])
			emit(r.line()...)
		}
	}
	// 4i. the transport gate of security.Authenticate: an AuthInfo that is not TLS, plaintext with / without XDS_AUTH_PLAINTEXT -
	// with authenticators (scripted and REAL) that accept the caller
	header("transport-gate")
	emit("ca", "plug", "86400", "86400", "1", "3600", "86400")
	emit(na...)
	for _, fl := range [][3]bool{{false, true, false}, {false, true, true}, {false, false, false}, {false, false, true}, {true, false, false}} {
		r := base()
		r.tls, r.other, r.plaintext = fl[0], fl[1], fl[2]
		emit(r.line()...)
	}
	{
		// a context without any incoming metadata: authenticated as usual, but no cluster is named for the gate
		r := base()
		r.noMD = true
		emit(r.line()...)
		r.imp = "s:" + wire.Enc("spiffe://cluster.local/ns/a/sa/b")
		emit(r.line()...)
	}
	{
		good := reviewSpec{authenticated: true, groups: []string{"system:serviceaccounts", "system:authenticated"},
			username: "system:serviceaccount:istio-system:ztunnel", podName: "=zt", podUID: "=u1"}
		kube := kubeSpecTokens("cluster.local", "c1", nil, "nil", "c1", "bearer", "node-proxy-token", []string{"istio-ca"}, good)
		leaf := wire.Enc("san:" + wire.EncList([]string{"U:spiffe://cluster.local/ns/a/sa/b"}))
		cert := []string{"cert", "grpc", "tls", wire.EncList([]string{leaf})}
		for _, mode := range []string{"", "plain", "noauth", "other", "otherplain"} {
			a := reqaSpec{spec: kube, req: reqSpec{csr: csrSpec{form: "ok", key: "ec256-a"}, ttl: 600, imp: "-", signer: "-", cluster: "c1", mode: mode}}
			emit(a.line()...)
			a.req.imp = "s:" + wire.Enc("spiffe://cluster.local/ns/a/sa/b")
			emit(a.line()...)
			a.spec, a.req.imp = cert, "-"
			emit(a.line()...) // a client certificate cannot be presented without TLS
			m := reqmSpec{specs: [][]string{cert, kube}, req: a.req}
			emit(m.line()...)
		}
	}
	// 4j. the mesh config's trust domain changes while authenticators exist: identities follow the mesh config
	header("mesh-trust-domain")
	emit("ca", "plug", "86400", "86400", "1", "3600", "86400")
	emit(na...)
	{
		good := reviewSpec{authenticated: true, groups: []string{"system:serviceaccounts", "system:authenticated"},
			username: "system:serviceaccount:istio-system:ztunnel", podName: "=zt", podUID: "=u1"}
		kube := kubeSpecTokens("cluster.local", "c1", nil, "nil", "c1", "bearer", "node-proxy-token", []string{"istio-ca"}, good)
		oidc := []string{"oidc", "grpc", "cluster.local", "istio-ca", "bearer", "ok", wire.Enc("system:serviceaccount:ns1:sa1"), "list", "istio-ca", "d"}
		both := func() {
			for _, sp := range [][]string{kube, oidc} {
				a := reqaSpec{spec: sp, req: reqSpec{csr: csrSpec{form: "ok", key: "ec256-a"}, ttl: 600, imp: "-", signer: "-", cluster: "c1"}}
				emit(a.line()...)
			}
		}
		both()
		emit("mesh", "new.td")
		both()
		a := reqaSpec{spec: kube, req: reqSpec{csr: csrSpec{form: "ok", key: "ec256-a"}, ttl: 600, imp: "s:" + wire.Enc("spiffe://new.td/ns/a/sa/b"), signer: "-", cluster: "c1"}}
		emit(a.line()...)
		emit("mesh", "cluster.local")
		both()
	}
	// 4l. finding (fixed by cb98066): RunCA's out-of-cluster OIDC authenticator was constructed WITHOUT mesh watcher; a valid
	// token made it dereference nil.  Alone, and as the last member of istiod's chain (client certificate, OIDC of JWT_RULE,
	// Kubernetes JWT, XFCC, RunCA's OIDC) where every token-based authenticator reads the one authorization value
	header("oidc-without-mesh-config-and-istiod-chain")
	emit("ca", "plug", "86400", "86400", "1", "3600", "86400")
	emit(na...)
	{
		good := reviewSpec{authenticated: true, groups: []string{"system:serviceaccounts", "system:authenticated"},
			username: "system:serviceaccount:istio-system:ztunnel", podName: "=zt", podUID: "=u1"}
		kube := kubeSpecTokens("cluster.local", "c1", nil, "nil", "c1", "bearer", "node-proxy-token", []string{"istio-ca"}, good)
		oidc := func(td, expected, kind, aud, ctor string) []string {
			return []string{"oidc", "grpc", td, expected, "bearer", kind, wire.Enc("system:serviceaccount:ns1:sa1"), "list", aud, ctor}
		}
		hx := "URI=spiffe://cluster.local/ns/b/sa/c"
		xf := []string{"xfcc", "grpc", wire.Enc("10.0.0.0/8"), wire.Enc("10.1.2.3:555"), wire.EncList([]string{hx}), parsedXFCCAll([]string{hx})}
		certNo := []string{"cert", "grpc", "tls", wire.EncList([]string{wire.Enc("nosan")})}
		one := func(sp []string) {
			a := reqaSpec{spec: sp, req: reqSpec{csr: csrSpec{form: "ok", key: "ec256-a"}, ttl: 600, imp: "-", signer: "-", cluster: "c1"}}
			emit(a.line()...)
		}
		for _, ctor := range []string{"jn", "dn"} {
			one(oidc("cluster.local", "istio-ca", "ok", "istio-ca", ctor))      // valid token: an error since the fix, a crash before
			one(oidc("cluster.local", "istio-ca", "ok", "other", ctor))         // wrong audience
			one(oidc("cluster.local", "istio-ca", "expired", "istio-ca", ctor)) // rejected by the verifier
		}
		chain := func(imp string, specs ...[]string) {
			m := reqmSpec{specs: specs, req: reqSpec{csr: csrSpec{form: "ok", key: "ec256-a"}, ttl: 600, imp: "-", signer: "-", cluster: "c1"}}
			if imp != "" {
				m.req.imp = "s:" + wire.Enc(imp)
			}
			emit(m.line()...)
		}
		chain("", certNo, oidc("jwt-rule.td", "istio-ca", "ok", "istio-ca", "j"), kube, xf)                                                           // the Kubernetes token is the one presented: no JWT for OIDC, kube wins
		chain("spiffe://cluster.local/ns/a/sa/b", certNo, oidc("jwt-rule.td", "istio-ca", "ok", "istio-ca", "j"), kube, xf)                           // ambient flow through the chain
		chain("", certNo, oidc("jwt-rule.td", "istio-ca", "ok", "istio-ca", "j"), kube, xf, oidc("cluster.local", "istio-ca", "ok", "istio-ca", "d")) // one JWT, two OIDC authenticators accept it: the first one's trust domain
		chain("", certNo, oidc("jwt-rule.td", "some-other-audience", "ok", "istio-ca", "j"), kube, xf, oidc("cluster.local", "istio-ca", "ok", "istio-ca", "d"))
		chain("", certNo, oidc("jwt-rule.td", "some-other-audience", "ok", "istio-ca", "j"), kube, oidc("cluster.local", "istio-ca", "ok", "istio-ca", "dn")) // only the one without mesh config would accept: XFCC absent, nobody
		chain("", certNo, kube, xf, oidc("cluster.local", "istio-ca", "ok", "istio-ca", "dn"))                                                                // ... XFCC still authenticates
		chain("", certNo, kube, oidc("cluster.local", "istio-ca", "expired", "istio-ca", "d"))
	}
	// 4k. a federated trust domain: only the X.509-SVID entries of its SPIFFE bundle are trust roots
	header("federated-trust-domain")
	emit("ca", "plug", "86400", "86400", "1", "3600", "86400")
	emit("na", "-")
	for _, c := range [][2]string{{"td1=@x:R1;j:RX", "R1"}, {"td1=@x:R1;j:RX", "RX"}, {"td1=@j:RX", "RX"}, {"td1=@x:R1+RX", "R1"}, {"td1=@x:R1;x:R2", "R2"},
		{"td1=@!flaky;x:R1;j:RX", "R1"}, {"td1=@!flaky;x:R1;j:RX", "RX"}, {"td1=@!500", "R1"}, {"td1=@!badurl", "R1"}} {
		a := reqaSpec{spec: []string{"tlscert", "grpc", wire.EncList([]string{c[0]}), leafSpec{issuer: c[1], sans: []string{"U:spiffe://td1/ns/a/sa/b"}, when: "ok", eku: "both"}.tok(), "-"},
			req: reqSpec{csr: csrSpec{form: "ok", key: "ec256-a"}, ttl: 600, imp: "-", signer: "-", cluster: "-"}}
		emit(a.line()...)
	}
	// 5. no signer / expired signer / expired chain
	for _, k := range []string{"nosigner", "expired", "expiredchain"} {
		header(k)
		switch k {
		case "nosigner":
			emit("ca", k, "none", "-", "1", "1800", "86400")
		case "expired":
			emit("ca", k, "-3600", "-", "1", "1800", "86400")
		default:
			emit("ca", k, "-3600", "-3600", "1", "1800", "86400")
		}
		emit("na", "-")
		emit(base().line()...)
	}
	// 6. unauthenticated in every way
	header("unauthenticated")
	emit("ca", "self", fmt.Sprint(farLife), "-", "1", "3600", "86400")
	emit("na", "-")
	for i := 0; i < 7; i++ {
		r := base()
		switch i {
		case 0:
			r.outs = nil
		case 1:
			r.outs = []authOutcome{{kind: "err"}, {kind: "nil"}, {kind: "both", ids: []string{"a.b"}}, {kind: "ok"}}
		case 2:
			r.xdsAuth = false
		case 3:
			r.hasPeer = false
		case 4:
			r.tls = false
		case 5:
			r.tls, r.plaintext = false, true // authenticates
		case 6:
			r.outs = []authOutcome{{kind: "err"}, {kind: "ok", ids: []string{"a.b", "::ffff:1.2.3.4"}}, node}
		}
		emit(r.line()...)
	}
}

func probeAuthn() {
	emit := func(f ...string) { fmt.Println(strings.Join(f, " ")) }
	e := wire.Enc
	// finding F5: verified OIDC token whose sub has fewer than four fields (fixed by 90fe2f5)
	emit("case", "0", "authn", "oidc-short-sub")
	ctor := "j"
	oidc := func(tr, td, expected, form, kind, sub, audKind, aud string) {
		emit("authn", "oidc", tr, td, expected, form, kind, sub, audKind, aud, ctor)
	}
	for _, sub := range []string{"system:serviceaccount:x", "system:serviceaccount", "system:serviceaccount:", "system:serviceaccountx",
		"system:serviceaccount:ns1:sa1", "system:serviceaccount:ns1:sa1:extra", "system:serviceaccountfoo:a:b", "bar:foo", ""} {
		oidc("grpc", "cluster.local", "istio-ca", "bearer", "ok", e(sub), "list", "istio-ca")
	}
	oidc("http", "cluster.local", "istio-ca", "bearer", "ok", e("system:serviceaccount:x"), "list", "istio-ca")
	oidc("http", "cluster.local", "istio-ca", "istio", "ok", e("system:serviceaccount:ns1:sa1"), "list", "istio-ca")
	oidc("grpc", "cluster.local", "istio-ca", "istio", "ok", e("system:serviceaccount:ns1:sa1"), "list", "istio-ca")
	for _, form := range []string{"bb", "two", "two2"} {
		// which presented token is validated: Basic + Bearer; an invalid Bearer token before / after the valid one
		oidc("grpc", "cluster.local", "istio-ca", form, "ok", e("system:serviceaccount:ns1:sa1"), "list", "istio-ca")
		oidc("http", "cluster.local", "istio-ca", form, "ok", e("system:serviceaccount:ns1:sa1"), "list", "istio-ca")
	}
	oidc("grpc", "cluster.local", "istio-ca", "bearer", "ok", e("system:serviceaccount:ns1:sa1"), "list", "x")
	oidc("grpc", "cluster.local", "istio-ca", "bearer", "ok", e("system:serviceaccount:x"), "list", "x")
	oidc("grpc", "cluster.local", "istio-ca", "bearer", "otherkey", e("system:serviceaccount:ns1:sa1"), "list", "istio-ca")
	oidc("grpc", "cluster.local", "istio-ca", "bearer", "expired", e("system:serviceaccount:ns1:sa1"), "list", "istio-ca")
	oidc("grpc", "cluster.local", "istio-ca", "bearer", "ok", e("system:serviceaccount:ns1:sa1"), "string", "istio-ca")
	oidc("grpc", "cluster.local", "istio-ca", "bearer", "ok", "absent", "list", "istio-ca")
	oidc("grpc", "cluster.local", "istio-ca", "none", "ok", "~", "list", "-")
	oidc("grpc", e("td@corp"), "-", "bearer", "ok", e("system:serviceaccount:ns1:sa1"), "list", "istio-ca")
	oidc("grpc", "cluster.local", "istio-ca", "nomd", "ok", e("system:serviceaccount:ns1:sa1"), "list", "istio-ca") // no incoming metadata at all
	// the other branch of the constructor: OIDC discovery at the issuer (no jwks_uri) - the same verdicts on every token kind
	ctor = "d"
	for _, kind := range []string{"ok", "expired", "wrongiss", "otherkey", "garbage", "okfloat", "expiredfloat"} {
		oidc("grpc", "cluster.local", "istio-ca", "bearer", kind, e("system:serviceaccount:ns1:sa1"), "list", "istio-ca")
		oidc("http", "cluster.local", "istio-ca", "bearer", kind, e("system:serviceaccount:ns1:sa1"), "list", "istio-ca")
	}
	oidc("grpc", "cluster.local", "istio-ca", "bearer", "ok", e("system:serviceaccount:x"), "list", "istio-ca")
	oidc("grpc", "cluster.local", "istio-ca", "bearer", "ok", e("system:serviceaccount:ns1:sa1"), "list", "x")
	// finding (fixed by cb98066): constructed without mesh watcher (RunCA) - a valid token is an error, not a nil dereference
	for _, c := range []string{"jn", "dn"} {
		ctor = c
		for _, tr := range []string{"grpc", "http"} {
			oidc(tr, "cluster.local", "istio-ca", "bearer", "ok", e("system:serviceaccount:ns1:sa1"), "list", "istio-ca")
		}
		oidc("grpc", "cluster.local", "istio-ca", "bearer", "ok", e("system:serviceaccount:ns1:sa1"), "list", "x")
		oidc("grpc", "cluster.local", "istio-ca", "bearer", "expired", e("system:serviceaccount:ns1:sa1"), "list", "istio-ca")
		oidc("grpc", "cluster.local", "istio-ca", "bearer", "ok", e("system:serviceaccount:x"), "list", "istio-ca")
	}
	ctor = "j"
	// XFCC: trusted / untrusted / loopback peers, both transports
	emit("case", "1", "authn", "xfcc")
	h := `URI=spiffe://cluster.local/ns/b/sa/c;DNS=foo.example.com;Subject="CN=bar,O=x"`
	for _, tr := range []string{"grpc", "http"} {
		for _, p := range []string{"10.1.2.3:555", "11.1.2.3:555", "127.0.0.1:80", "[::1]:80", "[::ffff:10.1.2.3]:1", "10.1.2.3", "[fe80::1%eth0]:1"} {
			emit("authn", "xfcc", tr, e("10.0.0.0/8"), e(p), wire.EncList([]string{h}), parsedXFCCAll([]string{h}))
		}
		emit("authn", "xfcc", tr, e("10.0.0.0/8"), "nopeer", wire.EncList([]string{h}), parsedXFCCAll([]string{h}))
		h2 := "URI=spiffe://cluster.local/ns/kube-system/sa/admin"
		emit("authn", "xfcc", tr, e("10.0.0.0/8"), e("10.1.2.3:555"), wire.EncList([]string{h, h2}), parsedXFCCAll([]string{h, h2}))
		emit("authn", "xfcc", tr, e("10.0.0.0/8"), e("10.1.2.3:555"), wire.EncList([]string{h2, h}), parsedXFCCAll([]string{h2, h}))
		emit("authn", "xfcc", tr, e("10.0.0.0/8"), e("10.1.2.3:555"), "-", "-")
		emit("authn", "xfcc", tr, e("10.0.0.0/8"), e("10.1.2.3:555"), e("garbage"), parsedXFCCAll([]string{"garbage"}))
	}
	// client certificate
	emit("case", "2", "authn", "cert")
	leaf := e("san:" + wire.EncList([]string{"U:spiffe://cluster.local/ns/a/sa/b", "D:foo.example.com", "I:c0a80101"}))
	other := e("san:" + wire.EncList([]string{"U:spiffe://cluster.local/ns/kube-system/sa/admin"}))
	for _, tr := range []string{"grpc", "http"} {
		emit("authn", "cert", tr, "tls", wire.EncList([]string{leaf + "|" + other, other}))
		emit("authn", "cert", tr, "tls", wire.EncList([]string{e("nosan") + "|" + other}))
		emit("authn", "cert", tr, "tls", wire.EncList([]string{e("bad")}))
		emit("authn", "cert", tr, "tls", "-")
		emit("authn", "cert", tr, "tls", "~")
		emit("authn", "cert", tr, "tlspeer", wire.EncList([]string{leaf})) // presented but unverified certificate
		emit("authn", "cert", tr, "other", wire.EncList([]string{leaf}))
		emit("authn", "cert", tr, "noauth", wire.EncList([]string{leaf}))
		emit("authn", "cert", tr, "nopeer", wire.EncList([]string{leaf}))
	}
	// client certificate over a real TLS handshake + the real PeerCertVerifier
	emit("case", "4", "authn", "tlscert")
	pools := wire.EncList([]string{"td1=R1", "td2=R2"})
	lf := func(issuer, when, eku string, sans ...string) string {
		return leafSpec{issuer: issuer, sans: sans, when: when, eku: eku}.tok()
	}
	for _, tr := range []string{"grpc", "http"} {
		emit("authn", "tlscert", tr, pools, lf("R1", "ok", "both", "U:spiffe://td1/ns/a/sa/b"), "-")
		emit("authn", "tlscert", tr, pools, lf("R2", "ok", "both", "U:spiffe://td1/ns/a/sa/b"), "-") // foreign root
		emit("authn", "tlscert", tr, pools, lf("R2", "ok", "both", "U:spiffe://td2/ns/a/sa/b"), "-")
	}
	emit("authn", "tlscert", "grpc", wire.EncList([]string{"td1=R1+R2"}), lf("R2", "ok", "both", "U:spiffe://td1/ns/a/sa/b"), "-")
	emit("authn", "tlscert", "grpc", wire.EncList([]string{"td1=R1", "td1=R2"}), lf("R2", "ok", "both", "U:spiffe://td1/ns/a/sa/b"), "-")
	emit("authn", "tlscert", "grpc", pools, lf("I1", "ok", "both", "U:spiffe://td1/ns/a/sa/b"), "I1")
	emit("authn", "tlscert", "grpc", pools, lf("I1", "ok", "both", "U:spiffe://td1/ns/a/sa/b"), "-")
	emit("authn", "tlscert", "grpc", pools, lf("I1", "ok", "both", "U:spiffe://td2/ns/a/sa/b"), "I1")
	emit("authn", "tlscert", "grpc", pools, lf("I3", "ok", "both", "U:spiffe://td1/ns/a/sa/b"), "I3,I1")
	emit("authn", "tlscert", "grpc", pools, lf("I3", "ok", "both", "U:spiffe://td1/ns/a/sa/b"), "I3")
	emit("authn", "tlscert", "grpc", pools, lf("IE", "ok", "both", "U:spiffe://td1/ns/a/sa/b"), "IE")
	emit("authn", "tlscert", "grpc", pools, lf("INC", "ok", "both", "U:spiffe://td1/ns/a/sa/b"), "INC")
	emit("authn", "tlscert", "grpc", pools, lf("RX", "ok", "both", "U:spiffe://td1/ns/a/sa/b"), "-")
	emit("authn", "tlscert", "grpc", pools, lf("R1", "expired", "both", "U:spiffe://td1/ns/a/sa/b"), "-")
	emit("authn", "tlscert", "grpc", pools, lf("R1", "future", "both", "U:spiffe://td1/ns/a/sa/b"), "-")
	emit("authn", "tlscert", "grpc", pools, lf("R1", "ok", "client", "U:spiffe://td1/ns/a/sa/b"), "-")
	emit("authn", "tlscert", "grpc", pools, lf("R1", "ok", "server", "U:spiffe://td1/ns/a/sa/b"), "-")
	emit("authn", "tlscert", "grpc", pools, lf("R1", "ok", "none", "U:spiffe://td1/ns/a/sa/b"), "-")
	emit("authn", "tlscert", "grpc", pools, lf("R1", "ok", "both", "U:spiffe://td1/ns/a/sa/b", "D:foo.example.com", "I:0a000001"), "-")
	emit("authn", "tlscert", "grpc", pools, lf("R1", "ok", "both", "D:foo.example.com", "U:spiffe://td1/ns/a/sa/b"), "-")
	emit("authn", "tlscert", "grpc", pools, lf("R1", "ok", "both", "U:spiffe://td1/ns/a/sa/b", "U:spiffe://td2/ns/c/sa/d"), "-")
	emit("authn", "tlscert", "grpc", pools, lf("R1", "ok", "both", "D:foo.example.com"), "-")
	emit("authn", "tlscert", "grpc", pools, lf("R1", "ok", "both"), "-")
	emit("authn", "tlscert", "grpc", pools, lf("R1", "ok", "both", "U:spiffe://td1/x"), "-")
	emit("authn", "tlscert", "grpc", pools, lf("R1", "ok", "both", "U:spiffe://td3/ns/a/sa/b"), "-")
	emit("authn", "tlscert", "grpc", pools, lf("R1", "ok", "both", "U:SPIFFE://td1/ns/a/sa/b"), "-") // url.String() lower-cases the scheme
	emit("authn", "tlscert", "grpc", pools, lf("R2", "ok", "both", "U:Spiffe://td1/ns/a/sa/b"), "-")
	emit("authn", "tlscert", "grpc", pools, "nocert", "-")
	emit("authn", "tlscert", "grpc", "-", lf("R1", "ok", "both", "U:spiffe://td1/ns/a/sa/b"), "-")
	// federated trust domains: what a SPIFFE bundle contributes (only x509-svid entries with exactly one certificate)
	emit("case", "6", "authn", "spiffe-bundles")
	for _, b := range tlsBundles {
		for _, iss := range []string{"R1", "RX", "R2"} {
			emit("authn", "tlscert", "grpc", wire.EncList([]string{"td1=" + b}), lf(iss, "ok", "both", "U:spiffe://td1/ns/a/sa/b"), "-")
		}
	}
	emit("authn", "tlscert", "grpc", wire.EncList([]string{"td1=@x:R1", "td2=@j:RX"}), lf("R1", "ok", "both", "U:spiffe://td1/ns/a/sa/b"), "-") // one refused bundle: no server
	// the endpoint is out of order (500 until the retries are given up), is no URL, or recovers on the retry
	for _, b := range []string{"@!500", "@!badurl", "@!flaky;x:R1;j:RX", "@!flaky;j:RX"} {
		emit("authn", "tlscert", "grpc", wire.EncList([]string{"td1=" + b}), lf("R1", "ok", "both", "U:spiffe://td1/ns/a/sa/b"), "-")
	}
	emit("authn", "tlscert", "grpc", wire.EncList([]string{"td1=@x:R1", "td1=R3"}), lf("R3", "ok", "both", "U:spiffe://td1/ns/a/sa/b"), "-")
	emit("authn", "tlscert", "grpc", wire.EncList([]string{"td1=@x:R1", "td2=@x:R2"}), lf("R2", "ok", "both", "U:spiffe://td1/ns/a/sa/b"), "-")
	// the mesh config's trust domain changes after the authenticators were constructed
	emit("case", "7", "authn", "mesh-trust-domain")
	{
		good := reviewSpec{authenticated: true, groups: []string{"system:serviceaccounts", "system:authenticated"},
			username: "system:serviceaccount:istio-system:ztunnel", podName: "=zt", podUID: "=u1"}
		both := func() {
			for _, tr := range []string{"grpc", "http"} {
				oidc(tr, "cluster.local", "istio-ca", "bearer", "ok", e("system:serviceaccount:ns1:sa1"), "list", "istio-ca")
				emit("authn", "kube", tr, "cluster.local", "Kubernetes", "-", "nil", "-", "bearer", e("tok-1"), "istio-ca", good.tok())
			}
		}
		both()
		emit("mesh", "new.td")
		both()
		emit("mesh", e("td@corp"))
		both()
		emit("mesh", "cluster.local")
		both()
	}
	// kube JWT: cluster selection, token and audience binding, review outcomes, both transports
	emit("case", "5", "authn", "kube")
	good := reviewSpec{authenticated: true, groups: []string{"system:serviceaccounts", "system:authenticated"},
		username: "system:serviceaccount:istio-system:ztunnel", podName: "=zt", podUID: "=u1"}
	kube := func(tr, aliases, remotes, hdr, form, tok, aud string, r reviewSpec) {
		emit("authn", "kube", tr, "cluster.local", "Kubernetes", aliases, remotes, hdr, form, e(tok), aud, r.tok())
	}
	kube("grpc", "alias=remote1", "remote1", "-", "bearer", "tok-1", "istio-ca", good)
	kube("grpc", "alias=remote1", "remote1", "alias", "bearer", "tok-2", "istio-ca,other-aud", good)
	kube("grpc", "alias=remote1", "remote1", "unknown", "bearer", "tok-1", "istio-ca", good)
	kube("grpc", "-", "nil", "remote1", "bearer", "tok-1", "istio-ca", good)
	kube("grpc", "-", "nil", "-", "none", "tok-1", "istio-ca", good)
	kube("grpc", "-", "nil", "-", "nomd", "tok-1", "istio-ca", good) // no incoming metadata at all
	kube("http", "-", "nil", "-", "nomd", "tok-1", "istio-ca", good)
	kube("grpc", "-", "nil", "-", "istio", "tok-1", "istio-ca", good)
	for _, form := range []string{"bb", "two", "two2"} {
		kube("grpc", "-", "nil", "-", form, "tok-1", "istio-ca", good)
		kube("http", "-", "nil", "-", form, "tok-1", "istio-ca", good)
	}
	kube("http", "-", "nil", "-", "istio", "tok-1", "custom", good)
	kube("http", "-", "remote1", "remote1,zzz", "bearer", "tok-1", "istio-ca", good)
	kube("grpc", "-", "remote1", "remote1,zzz", "bearer", "tok-1", "istio-ca", good)
	for i := 0; i < 6; i++ {
		r := good
		switch i {
		case 0:
			r.authenticated = false
		case 1:
			r.groups = []string{"system:authenticated"}
		case 2:
			r.username = "system:serviceaccount:istio-system"
		case 3:
			r.username = "system:serviceaccount::ztunnel"
		case 4:
			r.errMsg = "expired"
		case 5:
			r.apiErr = true
		}
		kube("grpc", "-", "nil", "-", "bearer", "tok-1", "istio-ca", r)
	}
}
