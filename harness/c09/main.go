// Harness for C09: drives the REAL Istio CA (ca.NewIstioCA, self-signed and plugged-in with chain,
// short-lived and expired signers) behind the REAL ca server (Server.CreateCertificate) with scripted
// authenticators and adversarial CSRs, parses the returned leaf certificate and prints one canonical
// line per request.  The Lean driver (lean/IstioModel/C09/Driver.lean) predicts the same line.
//
//	c09 gen    <stream> <seed> <ncases> <ops-out>
//	c09 exec   <stream> <ops-in> <impl-out>        (also writes <impl-out>.verdict: the oracle's verdicts on this very execution)
//	c09 oracle <stream> <ops-in> <verdict-out>
//
// Streams: issue (CreateCertificate end to end), authn (authenticator post-processing).
package main

import (
	"fmt"
	"os"
	"strconv"
	"strings"
	"time"

	_ "verifharness/internal/quiet"
	"verifharness/internal/wire"
)

func main() {
	if len(os.Args) < 2 {
		fmt.Fprintln(os.Stderr, "usage: c09 gen|exec|oracle ...")
		os.Exit(2)
	}
	switch os.Args[1] {
	case "gen":
		seed, _ := strconv.ParseUint(os.Args[3], 10, 64)
		n, _ := strconv.Atoi(os.Args[4])
		switch os.Args[2] {
		case "issue":
			genIssue(seed, n, os.Args[5])
		case "authn":
			genAuthn(seed, n, os.Args[5])
		default:
			os.Exit(2)
		}
	case "exec":
		execOps(os.Args[2], os.Args[3], os.Args[4])
	case "oracle":
		switch os.Args[2] {
		case "issue":
			oracleIssue(os.Args[3], os.Args[4])
		case "authn":
			oracleAuthn(os.Args[3], os.Args[4])
		default:
			os.Exit(2)
		}
	case "probe":
		probe()
	default:
		os.Exit(2)
	}
}

func execOps(stream, in, outp string) {
	out := wire.Create(outp)
	defer out.Close()
	// the ops are executed once: the output lines go to <impl-out>, the property verdicts of the same execution
	// (what `oracle` would print) to <impl-out>.verdict
	verdicts := wire.Create(outp + ".verdict")
	defer verdicts.Close()
	verdicts.Line("#ops", in)
	switch stream {
	case "issue":
		j := newIssueJudge(verdicts)
		prof := map[string]time.Duration{}
		for _, f := range wire.ReadLines(in) {
			t0 := time.Now()
			out.Line(j.step(f))
			out.Flush()
			k := f[0]
			if k == "ca" || k == "reqa" {
				k += ":" + strings.SplitN(wire.Dec(f[1]), " ", 2)[0]
			}
			prof[k] += time.Since(t0)
		}
		j.finish()
		if os.Getenv("C09_PROF") != "" {
			for k, d := range prof {
				fmt.Fprintf(os.Stderr, "prof %-22s %v\n", k, d)
			}
		}
	case "authn":
		j := newAuthnJudge(verdicts)
		for _, f := range wire.ReadLines(in) {
			out.Line(j.step(f))
			out.Flush()
		}
		j.finish()
	default:
		os.Exit(2)
	}
}
