// Harness for C09: drives the REAL Istio CA (ca.NewIstioCA, self-signed and plugged-in with chain,
// short-lived and expired signers) behind the REAL ca server (Server.CreateCertificate) with scripted
// authenticators and adversarial CSRs, parses the returned leaf certificate and prints one canonical
// line per request.  The Lean driver (lean/IstioModel/C09/Driver.lean) predicts the same line.
//
//	c09 gen    <stream> <seed> <ncases> <ops-out>
//	c09 exec   <stream> <ops-in> <impl-out>
//	c09 oracle <stream> <ops-in> <verdict-out>
//
// Streams: issue (CreateCertificate end to end), authn (authenticator post-processing).
package main

import (
	"fmt"
	"os"
	"strconv"

	_ "verifharness/internal/quiet"
	"verifharness/internal/wire"
)

func main() {
	if len(os.Args) < 2 {
		fmt.Fprintln(os.Stderr, "usage: c09 gen|exec|oracle ...")
		os.Exit(2)
	}
	switch os.Args[1] {
	case "gen":
		seed, _ := strconv.ParseUint(os.Args[3], 10, 64)
		n, _ := strconv.Atoi(os.Args[4])
		switch os.Args[2] {
		case "issue":
			genIssue(seed, n, os.Args[5])
		case "authn":
			genAuthn(seed, n, os.Args[5])
		default:
			os.Exit(2)
		}
	case "exec":
		execOps(os.Args[2], os.Args[3], os.Args[4])
	case "oracle":
		switch os.Args[2] {
		case "issue":
			oracleIssue(os.Args[3], os.Args[4])
		case "authn":
			oracleAuthn(os.Args[3], os.Args[4])
		default:
			os.Exit(2)
		}
	case "probe":
		probe()
	default:
		os.Exit(2)
	}
}

func execOps(stream, in, outp string) {
	out := wire.Create(outp)
	defer out.Close()
	switch stream {
	case "issue":
		s := newIssueSUT()
		for _, f := range wire.ReadLines(in) {
			out.Line(s.apply(f))
			out.Flush()
		}
	case "authn":
		s := newAuthnSUT()
		for _, f := range wire.ReadLines(in) {
			out.Line(s.apply(f))
			out.Flush()
		}
	default:
		os.Exit(2)
	}
}
