package main

import (
	"encoding/hex"
	"net"
	"net/netip"
	"strconv"
	"strings"

	"istio.io/istio/pkg/security"
	"verifharness/internal/wire"
)

// ---------------------------------------------------------------- generator for stream `authn`

var (
	authnTDs = []string{"cluster.local", "td@corp.example", "t,d", ""}
	oidcAuds = [][]string{{"istio-ca"}, {"a", "b"}, {}}
	oidcSubs = []string{"system:serviceaccount:ns1:sa1", "system:serviceaccount:x", "system:serviceaccount", "system:serviceaccount:",
		"system:serviceaccount::", "system:serviceaccount:a:b:c", "system:serviceaccountfoo:a:b", "system:serviceaccount:a,evil.example.com:b",
		"system:serviceaccount:a/sa/admin:b", "bar:foo", "", "system:serviceaccount:a:", "SYSTEM:serviceaccount:a:b", "system:serviceaccounts:a:b",
		"system:serviceaccountx", "system:serviceaccount:::", "system:serviceaccount:kube-system:default"}
	kubeUsers = []string{"system:serviceaccount:ns1:sa1", "system:serviceaccount:ns1", "system:serviceaccount:ns1:sa1:x", "a:b:c:d",
		"system:serviceaccount::sa1", "system:serviceaccount:ns1:", "", "system:serviceaccount:n,s:sa1", "system:serviceaccount:istio-system:ztunnel", ":::"}
	xfccCIDRs = [][]string{{}, {"10.0.0.0/8"}, {"10.0.0.0/8", "fd00::/8"}, {"10.1.2.3"}, {"bad/8"}, {"10.0.0.0/33"}, {"10.0.0.0/08"},
		{"::ffff:10.0.0.0/104"}, {"0.0.0.0/0"}, {"10.0.0.0/"}, {"fe80::%eth0/10"}, {"::/0"}, {"10.1.2.0/24", "11.0.0.0/+8"}, {"10.1.2.3/32"}, {"10.0.0.0/-1"},
		{"10.128.0.0/9"}, {"fd00::/7"}, {"1.2.3.4/5/8"}, {"/8"}, {"10.0.0.0/8 "}, {"10.0.0.0/129"}, {"::/128"}, {"::1/128"}}
	xfccPeers = []string{"10.1.2.3:555", "11.1.2.3:555", "127.0.0.1:80", "127.9.9.9:1", "[::1]:80", "[fd00::1]:443", "[fe80::1%eth0]:1",
		"[::ffff:10.1.2.3]:1", "[::ffff:127.0.0.1]:1", "10.1.2.3", "nopeer", "", "[::1]", "::1:80", "[10.1.2.3]:80", "10.1.2.3:", "10.200.0.1:9", "[fc00::1]:1",
		"[::1%lo]:1", "[::]:1", "0.0.0.0:1", "[10.1.2.3:80", "10.1.2.3]:80", "[::1]x:80", "[::1]:8:0", "1.2.3.4:5:6"}
	xfccCrashPeers = []string{"host:80", ":80", "[]:80", "localhost:1", "10.1.2:80", "[g::1]:1"}
	xfccHeaders    = []string{
		"By=spiffe://cluster.local/ns/istio-system/sa/gw;URI=spiffe://cluster.local/ns/a/sa/b",
		`URI=spiffe://cluster.local/ns/b/sa/c;DNS=foo.example.com;Subject="CN=bar,O=x"`,
		"URI=spiffe://x/ns/a/sa/b,URI=spiffe://y/ns/c/sa/d",
		"URI=SPIFFE://cluster.local/ns/a/sa/b", `Subject=""`, "garbage", `URI="spiffe://a,b"`, "Hash=abc", `Subject="O=only-org"`, "DNS=a.example.com;DNS=b.example.com", "Foo=bar", "",
		`Subject="CN=with\,comma"`, "URI=;DNS=", `By=x;Hash=y;Cert="z";Chain="w";Subject="CN=n";URI=u;DNS=d`,
	}
	sanEntries = []string{"U:spiffe://cluster.local/ns/a/sa/b", "D:foo.example.com", "I:0a000001", "I:7f000001", "E:admin@example.com", "D:", "U:spiffe://x,y",
		"I:00000000000000000000000000000001", "D:a,b", "U:https://not-spiffe"}
)

func extraTok(r *wire.Rng, vals []string) string {
	switch r.Intn(8) {
	case 0:
		return "-"
	case 1:
		return "="
	case 2:
		return "=" + wire.EncList(append([]string{wire.Pick(r, vals)}, "second"))
	}
	return "=" + wire.EncList([]string{wire.Pick(r, vals)})
}

// genSub returns the wire token of the `sub` claim ("absent": no such claim).
func genSub(r *wire.Rng) string {
	if r.Chance(1, 3) {
		parts := []string{"system", "serviceaccount"}
		n := r.Intn(4)
		for i := 0; i < n; i++ {
			parts = append(parts, wire.Pick(r, []string{"ns1", "sa1", "", "a,b", "x/y", "kube-system"}))
		}
		return wire.Enc(strings.Join(parts, ":"))
	}
	if r.Chance(1, 12) {
		return "absent"
	}
	if r.Chance(1, 2) {
		return wire.Enc("system:serviceaccount:" + wire.Pick(r, []string{"ns1", "kube-system", "istio-system"}) + ":" + wire.Pick(r, []string{"sa1", "default", "ztunnel"}))
	}
	return wire.Enc(wire.Pick(r, oidcSubs))
}

func genTransport(r *wire.Rng) string {
	if r.Chance(1, 4) {
		return "http"
	}
	return "grpc"
}

func genHdrForm(r *wire.Rng) string {
	switch r.Intn(17) {
	case 16:
		return "nomd" // no incoming metadata at all
	case 0:
		return "none"
	case 1:
		return "basic"
	case 2, 3:
		return "istio"
	case 4:
		return "bb"
	case 5:
		return "two" // a second, invalid bearer token in front of the valid one
	case 6:
		return "two2"
	}
	return "bearer"
}

// genAuthSpec returns the tokens of an `authn` line after the word "authn" for the given kind
// (0 oidc, 1 kube, 2 xfcc, 3 cert) and transport.
func genAuthSpec(r *wire.Rng, kind int, tr string, asciiOnly bool) []string {
	switch kind {
	case 4:
		return genTLSCert(r, tr)
	case 0:
		tok := "ok"
		if r.Chance(1, 6) {
			tok = wire.Pick(r, []string{"garbage", "expired", "wrongiss", "otherkey", "okfloat", "expiredfloat"})
		}
		audKind := "list"
		if r.Chance(1, 10) {
			audKind = wire.Pick(r, []string{"string", "absent"})
		}
		sub := genSub(r)
		expected := wire.Pick(r, oidcAuds)
		if r.Chance(1, 2) {
			expected = oidcAuds[0]
		}
		aud := wire.Subset(r, []string{"istio-ca", "a", "x"}, 1, 2)
		if len(expected) > 0 && r.Chance(3, 5) {
			aud = append(aud, wire.Pick(r, expected))
		}
		ctor := wire.Pick(r, []string{"j", "j", "d", "d", "j", "d", "jn", "dn"})
		return []string{"oidc", tr, wire.Enc(wire.Pick(r, authnTDs)), wire.EncList(expected), genHdrForm(r), tok, sub, audKind, wire.EncList(aud), ctor}
	case 1:
		rev := reviewSpec{errMsg: "", authenticated: r.Chance(9, 10), username: wire.Pick(r, kubeUsers)}
		if r.Chance(3, 5) {
			rev.username = "system:serviceaccount:" + wire.Pick(r, []string{"ns1", "kube-system", "istio-system"}) + ":" + wire.Pick(r, []string{"sa1", "default", "ztunnel"})
		}
		if r.Chance(1, 20) {
			rev.apiErr = true
		}
		if r.Chance(1, 16) {
			rev.errMsg = "token expired"
		}
		switch r.Intn(12) {
		case 0:
			rev.groups = []string{"system:authenticated"}
		case 1:
			rev.groups = nil
		case 2:
			rev.groups = []string{"system:serviceaccounts:ns1", "system:serviceaccounts"}
		default:
			rev.groups = []string{"system:serviceaccounts", "system:authenticated"}
		}
		rev.podName = extraTok(r, []string{"pod-1", "ztunnel-abc"})
		rev.podUID = extraTok(r, []string{"uid-1", ""})
		primary := wire.Pick(r, []string{"Kubernetes", "c1", ""})
		aliases := wire.Pick(r, [][]string{{}, {"alias=c1"}, {"alias=remote1"}, {"x=y"}, {"alias=Kubernetes", "other=remote2"}})
		remotes := wire.Pick(r, []string{"nil", "-", "remote1", "remote1,remote2"})
		hdrVals := wire.Pick(r, [][]string{nil, nil, {primary}, {primary}, {"alias"}, {"remote1"}, {"remote1"}, {"remote2"}, {"unknown"}, {"a", "b"}, {""}, {"other"}, {"remote1", "x"}})
		hdr := "-"
		if hdrVals != nil {
			hdr = wire.EncList(hdrVals)
		}
		tokenAud := wire.Pick(r, [][]string{{"istio-ca"}, {"istio-ca"}, {"istio-ca", "other-aud"}, {"custom"}})
		token := wire.Pick(r, []string{"tok-1", "eyJhbGciOi.payload.sig", "t t"})
		return []string{"kube", tr, wire.Enc(wire.Pick(r, authnTDs)), wire.Enc(primary), wire.EncList(aliases), remotes, hdr, genHdrForm(r), wire.Enc(token),
			wire.EncList(tokenAud), rev.tok()}
	case 2:
		peer := wire.Pick(r, xfccPeers)
		if r.Chance(1, 12) {
			peer = wire.Pick(r, xfccCrashPeers)
		}
		if peer != "nopeer" {
			peer = wire.Enc(peer)
		}
		hdrs := "-"
		parsed := "-"
		if r.Chance(9, 10) {
			h := []string{wire.Pick(r, xfccHeaders)}
			if r.Chance(1, 6) {
				h = append(h, wire.Pick(r, xfccHeaders))
			}
			hdrs = wire.EncList(h)
			if h[0] == "" && len(h) == 1 {
				hdrs = "~"
			}
			parsed = parsedXFCCAll(h)
		}
		return []string{"xfcc", tr, wire.EncList(wire.Pick(r, xfccCIDRs)), peer, hdrs, parsed}
	default:
		kind := "tls"
		if r.Chance(1, 6) {
			kind = wire.Pick(r, []string{"nopeer", "noauth", "other", "tlspeer", "tlspeer"})
		}
		entries := sanEntries
		if !asciiOnly {
			entries = append(append([]string{}, sanEntries...), "I:c0a80101", "I:ac100a80", "D:héllo.example")
		}
		genCert := func() string {
			switch r.Intn(8) {
			case 0:
				return "nosan"
			case 1:
				return "bad"
			}
			n := 1 + r.Intn(3)
			if r.Chance(1, 10) {
				n = 0
			}
			var es []string
			for i := 0; i < n; i++ {
				es = append(es, wire.Pick(r, entries))
			}
			return "san:" + wire.EncList(es)
		}
		nch := 1
		switch r.Intn(8) {
		case 0:
			nch = 0
		case 1:
			nch = 2
		}
		var chains []string
		for i := 0; i < nch; i++ {
			nc := 1 + r.Intn(2)
			if r.Chance(1, 10) {
				nc = 0
			}
			var certs []string
			for j := 0; j < nc; j++ {
				certs = append(certs, wire.Enc(genCert()))
			}
			chains = append(chains, strings.Join(certs, "|"))
		}
		tok := wire.EncList(chains)
		if len(chains) == 1 && chains[0] == "" {
			tok = "~"
		}
		return []string{"cert", tr, kind, tok}
	}
}

func genAuthnLine(r *wire.Rng) []string {
	return append([]string{"authn"}, genAuthSpec(r, r.Intn(5), genTransport(r), false)...)
}

var (
	tlsPools = [][]string{{"td1=R1", "td2=R2"}, {"td1=R1"}, {"td1=R1+R2"}, {"td1=R1", "td1=R3", "td2=R2"}, {"td2=R2", "cluster.local=R1+R3"}, {}}
	// federated trust domains: what their SPIFFE bundle endpoint serves (x509-svid / jwt-svid / use-less entries;
	// entries with two certificates or none; RX is a CA that is a root of no trust domain)
	tlsBundles = []string{"@x:R1", "@x:R1;j:RX", "@j:RX;x:R1", "@x:R1;x:R2", "@j:RX", "@x:R1+RX", "@x:R1;x:", "@x:R1;j:", "@x:R1;j:R2+RX", "@n:RX;x:R1", "@x:RX",
		"@", "@j:R1", "@x:R1;j:RX;j:R3", "@n:R1", "@x:;j:RX", "@x:R2;j:R1", "@!flaky;x:R1;j:RX", "@!flaky;j:RX"}
	tlsBundlesSlow = []string{"@!500", "@!badurl"} // the fetch is retried for ~150 ms before it is given up: rare
	tlsURIs        = []string{"spiffe://td1/ns/a/sa/b", "spiffe://td2/ns/a/sa/b", "spiffe://td1/ns/istio-system/sa/ztunnel", "spiffe://cluster.local/ns/a/sa/b",
		"spiffe://td3/ns/a/sa/b", "spiffe://td1/x", "spiffe://td1/ns/a/sa/b/c", "https://td1/ns/a/sa/b", "spiffe://td1,td2/ns/a/sa/b",
		"SPIFFE://td1/ns/a/sa/b", "Spiffe://td2/ns/a/sa/b", "sPiFfE://td1/ns/istio-system/sa/ztunnel", "SPIFFE://td3/ns/a/sa/b", "SPIFFE://td1/x"}
)

// genTLSCert: a client certificate presented in a real TLS handshake (kind 4).
func genTLSCert(r *wire.Rng, tr string) []string {
	pools := wire.Pick(r, tlsPools)
	if r.Chance(1, 4) {
		// td1 (sometimes td2) is a federated trust domain
		pools = []string{"td1=" + wire.Pick(r, tlsBundles)}
		if r.Chance(1, 40) {
			pools = []string{"td1=" + wire.Pick(r, tlsBundlesSlow)}
		}
		switch r.Intn(4) {
		case 0:
			pools = append(pools, "td2=R2")
		case 1:
			pools = append([]string{"td2=" + wire.Pick(r, tlsBundles)}, pools...)
		case 2:
			pools = append(pools, "td1=R3")
		}
		if r.Chance(3, 4) {
			// a client whose certificate comes from one of the CAs the bundle mentions - in whatever role
			var names []string
			_, ks := bundleFetch(strings.TrimPrefix(strings.SplitN(pools[len(pools)-1], "=", 2)[1], "@"))
			for _, k := range ks {
				names = append(names, k.certs...)
			}
			names = append(names, "RX", "R1")
			l := leafSpec{issuer: wire.Pick(r, names), when: "ok", eku: "both", sans: []string{"U:spiffe://" + wire.Pick(r, []string{"td1", "td1", "td2"}) + "/ns/a/sa/b"}}
			return []string{"tlscert", tr, wire.EncList(pools), l.tok(), "-"}
		}
	}
	if r.Chance(1, 12) {
		return []string{"tlscert", tr, wire.EncList(pools), "nocert", "-"}
	}
	l := leafSpec{issuer: wire.Pick(r, []string{"R1", "R1", "R2", "R3", "RX", "I1", "I2", "I3", "IE", "INC"}), when: "ok", eku: "both"}
	if r.Chance(1, 8) {
		l.when = wire.Pick(r, []string{"expired", "future"})
	}
	if r.Chance(1, 6) {
		l.eku = wire.Pick(r, []string{"client", "server", "none"})
	}
	nuri := 1
	switch r.Intn(10) {
	case 0:
		nuri = 0
	case 1:
		nuri = 2
	}
	for i := 0; i < nuri; i++ {
		l.sans = append(l.sans, "U:"+wire.Pick(r, tlsURIs))
	}
	if len(pools) > 0 && nuri >= 1 && !strings.Contains(strings.Join(pools, ","), "@") && r.Chance(2, 3) {
		// mostly a certificate that is in order: a trust domain that has a pool, issued under one of its roots
		td, roots, _ := strings.Cut(wire.Pick(r, pools), "=")
		root := wire.Pick(r, strings.Split(roots, "+"))
		l.issuer = root
		if r.Chance(1, 3) {
			switch root {
			case "R1":
				l.issuer = "I1"
				if r.Chance(1, 2) {
					l.issuer = "I3"
				}
			case "R2":
				l.issuer = "I2"
			}
		}
		l.sans[0] = "U:" + wire.Pick(r, []string{"spiffe", "spiffe", "spiffe", "spiffe", "SPIFFE", "Spiffe"}) + "://" + td + "/ns/" +
			wire.Pick(r, []string{"a", "istio-system"}) + "/sa/" + wire.Pick(r, []string{"b", "ztunnel"})
	}
	if r.Chance(1, 3) {
		l.sans = append(l.sans, wire.Pick(r, []string{"D:foo.example.com", "D:istiod.istio-system.svc", "I:0a000001"}))
	}
	if r.Chance(1, 8) && len(l.sans) > 1 {
		l.sans[0], l.sans[len(l.sans)-1] = l.sans[len(l.sans)-1], l.sans[0]
	}
	// mostly the intermediates the leaf needs, sometimes none / others
	var ints []string
	for iss := l.issuer; ; {
		up, ok := pkiIssuerOf[iss]
		if !ok {
			break
		}
		ints = append(ints, iss)
		iss = up
	}
	switch r.Intn(8) {
	case 0:
		ints = nil
	case 1:
		ints = append(ints, wire.Pick(r, []string{"I1", "I2", "IE", "INC"}))
	case 2:
		if len(ints) > 1 {
			ints = ints[:1]
		}
	}
	return []string{"tlscert", tr, wire.EncList(pools), l.tok(), wire.EncList(ints)}
}

func genAuthn(seed uint64, n int, outp string) {
	out := wire.Create(outp)
	defer out.Close()
	root := wire.NewRng(seed ^ 0xA09)
	for c := 0; c < n; c++ {
		r := root.Fork()
		out.Line("case", strconv.Itoa(c), "authn")
		k := 1 + r.Intn(3)
		for i := 0; i < k; i++ {
			if r.Chance(1, 8) {
				// the mesh config's trust domain changes: authenticators constructed under the old one must follow
				out.Line("mesh", wire.Enc(wire.Pick(r, []string{"new.td", "cluster.local", "td@corp.example", ""})))
				out.Line(append([]string{"authn"}, genAuthSpec(r, r.Intn(2), genTransport(r), false)...)...)
				continue
			}
			out.Line(genAuthnLine(r)...)
		}
	}
}

// ---------------------------------------------------------------- property oracle for stream `authn`
//
// Each authenticator must yield only identities derived from the validated credential, an error for
// everything else, and never crash:
//   oidc: only for a token the verifier accepts, whose audience intersects the configured ones and whose
//         sub is system:serviceaccount:<ns>:<sa>[...]; identity = spiffe://<td>/ns/<ns>/sa/<sa>
//   kube: only for an authenticated TokenReview of a service account; identity from its username
//   xfcc: only from a trusted peer (listed CIDR or loopback); identities are values of the header
//   cert: only from a verified TLS chain; identities are the SAN values of its leaf

func sanitizeTD(td string) string { return strings.ReplaceAll(td, "@", ".") }

// tokenPresented: the credential that counts - the FIRST bearer token presented in the way the transport
// defines (gRPC: first `Bearer ` value; HTTP: the first value, `Bearer ` or `Istio `) - is the line's token
// (the one the verifier / the API server accepts), not the second, invalid one.
func tokenPresented(tr, form string) bool {
	switch form {
	case "bearer", "two2":
		return true
	case "istio":
		return tr == "http"
	case "bb":
		return tr == "grpc"
	}
	return false
}

// credentialClause evaluates the property on one authenticator spec (kind first, as in an `authn` line
// without the leading word) and the caller the real authenticator returned for it; "" = holds.
// `via` is the record of the TokenReview the kube authenticator submitted.
func credentialClause(f []string, caller *security.Caller, via string, mesh *string) string {
	ids := caller.Identities
	// the trust domain of an issued identity is the mesh's AT THE TIME OF THE REQUEST
	tdNow := func(constructed string) string {
		if mesh != nil {
			return *mesh
		}
		return constructed
	}
	switch f[0] {
	case "oidc":
		sub := wire.Dec(f[6])
		parts := strings.Split(sub, ":")
		okTok := tokenPresented(f[1], f[4]) && f[5] == "ok" && f[7] == "list" && f[6] != "absent"
		inter := false
		for _, a := range wire.DecList(f[8]) {
			for _, b := range wire.DecList(f[3]) {
				if a == b {
					inter = true
				}
			}
		}
		if len(f) > 9 && strings.HasSuffix(f[9], "n") {
			return "oidc-identity-without-mesh-config"
		}
		if !okTok || !inter {
			return "oidc-unvalidated-credential"
		} else if len(parts) < 4 || !strings.HasPrefix(sub, "system:serviceaccount") || parts[2] == "" || parts[3] == "" {
			return "oidc-malformed-sub-accepted"
		} else if len(ids) != 1 || ids[0] != "spiffe://"+sanitizeTD(tdNow(wire.Dec(f[2])))+"/ns/"+parts[2]+"/sa/"+parts[3] {
			return "oidc-identity-not-from-sub"
		}
	case "kube":
		rev := parseReview(f[10])
		parts := strings.Split(rev.username, ":")
		inGroup := false
		for _, g := range rev.groups {
			if g == "system:serviceaccounts" {
				inGroup = true
			}
		}
		if !tokenPresented(f[1], f[7]) || rev.apiErr || rev.errMsg != "" || !rev.authenticated || !inGroup {
			return "kube-unvalidated-credential"
		} else if len(parts) != 4 || parts[2] == "" || parts[3] == "" {
			return "kube-malformed-username-accepted"
		} else if len(ids) != 1 || ids[0] != "spiffe://"+sanitizeTD(tdNow(wire.Dec(f[2])))+"/ns/"+parts[2]+"/sa/"+parts[3] ||
			caller.KubernetesInfo.PodNamespace != parts[2] || caller.KubernetesInfo.PodServiceAccount != parts[3] {
			return "kube-identity-not-from-review"
		}
		// the token must have been reviewed for the configured audiences, and it must be the presented token
		var aud, tok string
		for _, w := range strings.Fields(via) {
			if strings.HasPrefix(w, "aud=") {
				aud = w[4:]
			}
			if strings.HasPrefix(w, "tok=") {
				tok = w[4:]
			}
		}
		if aud != f[9] {
			return "kube-review-not-bound-to-audience"
		}
		// ... by the API server of the cluster the caller names (gRPC: exactly one clusterid value;
		// HTTP: the first), the primary one for no name, the primary's name or an alias of it
		claimed := ""
		if c := wire.DecList(f[6]); f[6] != "-" && (len(c) == 1 || (f[1] == "http" && len(c) > 0)) {
			claimed = c[0]
		}
		primary, alias := wire.Dec(f[3]), ""
		for _, al := range wire.DecList(f[4]) {
			if k, v, _ := strings.Cut(al, "="); k == claimed {
				alias = v
			}
		}
		want := "remote:" + claimed
		if claimed == "" || claimed == primary || alias == primary {
			want = "primary"
		} else if f[5] != "nil" {
			direct := false
			for _, r := range wire.DecList(f[5]) {
				if r == claimed {
					direct = true
				}
			}
			if !direct {
				want = "remote:" + alias
			}
		}
		if !strings.Contains(via, " via="+wire.Enc(want)+" ") {
			return "kube-review-at-wrong-cluster"
		}
		if tok != f[8] {
			return "kube-review-of-another-token"
		}
	case "xfcc":
		if !peerTrusted(f[3], wire.DecList(f[2])) {
			return "xfcc-untrusted-peer"
		}
		hs := wire.DecList(f[4])
		if f[4] == "-" || len(hs) == 0 {
			return "xfcc-no-header"
		}
		// exactly the URI, DNS and Subject-CN values of the first header value, element by element
		want, ok := expectedFromCredential(f, "-", mesh)
		if !ok && len(want.ids) == 0 && len(ids) == 0 {
			break // a header without any name: a caller without identities, which the authentication manager discards
		}
		if !ok || strings.Join(want.ids, "\x00") != strings.Join(ids, "\x00") {
			return "xfcc-identity-not-from-header"
		}
	case "tlscert":
		want, ok := tlsCertExpected(f)
		if !ok {
			return "tlscert-unvalidated-certificate"
		}
		if strings.Join(want, "\x00") != strings.Join(ids, "\x00") {
			return "tlscert-identity-not-from-leaf"
		}
	case "cert":
		chains, err := chainsFromTok(f[3])
		if f[2] != "tls" || err != nil || len(chains) == 0 || len(chains[0]) == 0 {
			return "cert-unvalidated-credential"
		}
		spec := wire.Dec(strings.Split(wire.DecList(f[3])[0], "|")[0])
		if !strings.HasPrefix(spec, "san:") {
			return "cert-no-san"
		}
		var want []string
		for _, e := range wire.DecList(spec[4:]) {
			if e[0] == 'I' {
				b, _ := hex.DecodeString(e[2:])
				want = append(want, string(b))
			} else {
				want = append(want, e[2:])
			}
		}
		if strings.Join(want, "\x00") != strings.Join(ids, "\x00") {
			return "cert-identity-not-from-san"
		}
	}
	return ""
}

// authnJudge executes the ops of stream `authn` once: output line for the model comparison, and the property
// (credentialClause) on the raw result.
type authnJudge struct {
	s       *authnSUT
	verdict string
	open    bool
	idx     int
	out     *wire.Out
	stats   map[string]int
}

func newAuthnJudge(verdicts *wire.Out) *authnJudge {
	return &authnJudge{s: newAuthnSUT(), out: verdicts, stats: map[string]int{}}
}

func (j *authnJudge) flush() {
	if j.open && j.out != nil {
		v := j.verdict
		if v == "" {
			v = "OK"
		}
		j.out.Line(v)
		j.out.Flush()
	}
	j.open = false
}

func (j *authnJudge) finish() {
	j.flush()
	if j.s.pki != nil {
		for k, v := range j.s.pki.modes {
			j.stats[k] += v
		}
	}
	if j.out != nil {
		j.out.Line(statsLine(j.stats)...)
		j.out.Flush()
	}
}

func (j *authnJudge) step(f []string) string {
	if f[0] == "case" {
		j.flush()
		j.verdict, j.open, j.idx = "", true, 0
		return j.s.apply(f)
	}
	j.idx++
	if f[0] != "authn" || len(f) < 3 {
		return j.s.apply(f)
	}
	fail := func(clause string, got string) {
		if j.verdict == "" {
			j.verdict = "FAIL " + clause + " op=" + strconv.Itoa(j.idx) + " " + wire.Enc(strings.Join(f, " ")+" => "+got)
		}
	}
	res := j.s.run(f)
	got := res.format()
	if res.fixErr != nil {
		return got
	}
	j.stats["evaluated.errors-not-crashes."+f[1]]++
	if res.crash {
		if f[1] == "xfcc" && !peerIsNetworkAddress(f[4]) {
			return got // not a transport address: outside the property's quantifier (recorded observation)
		}
		fail(f[1]+"-errors-not-crashes", got)
		return got
	}
	if f[1] == "tlscert" && strings.Contains(f[3], "@") {
		// a federated trust domain: bundles the property refuses must be refused, the others accepted
		_, _, bundlesOK := registeredRoots(wire.DecList(f[3]), "")
		j.stats["evaluated.spiffe-bundle-clause"]++
		if bundlesOK && res.bundleErr {
			fail("tlscert-wellformed-bundle-refused", got)
		} else if !bundlesOK && !res.bundleErr {
			fail("tlscert-malformed-bundle-accepted", got)
		}
	}
	if res.err != nil || res.caller == nil || res.rejected {
		return got
	}
	j.stats["evaluated.credential-clause."+f[1]]++
	if j.s.mesh != nil && (f[1] == "oidc" || f[1] == "kube") {
		j.stats["evaluated.trust-domain-after-mesh-change."+f[1]]++
	}
	if clause := credentialClause(f[1:], res.caller, res.via, j.s.mesh); clause != "" {
		fail(clause, got)
	}
	return got
}

func oracleAuthn(in, outp string) {
	out := wire.Create(outp)
	defer out.Close()
	j := newAuthnJudge(out)
	for _, f := range wire.ReadLines(in) {
		j.step(f)
	}
	j.finish()
}

// registeredRoots: the roots registered for trust domain `td` by the pools of a tlscert spec - the listed roots of
// a plain pool, and for a federated pool what its SPIFFE bundle contributes (bundleRoots).  ok=false: some bundle
// is refused (istiod does not come up).
func registeredRoots(pools []string, td string) (roots map[string]bool, has, ok bool) {
	roots = map[string]bool{}
	ok = true
	for _, p := range pools {
		t, rs, _ := strings.Cut(p, "=")
		var names []string
		if spec, fed := strings.CutPrefix(rs, "@"); fed {
			// an endpoint that cannot be fetched (no URL; out of order for longer than the retries last) is refused like
			// a malformed bundle; one that recovers within the retries is as good as a healthy one
			behaviour, keys := bundleFetch(spec)
			var good bool
			if names, good = bundleRoots(keys); !good || behaviour == "500" || behaviour == "badurl" {
				ok = false
				names = nil
			}
		} else {
			names = strings.Split(rs, "+")
		}
		if t == td {
			has = true
			for _, r := range names {
				roots[r] = true
			}
		}
	}
	return roots, has, ok
}

// tlsCertExpected states, on the spec alone, when a client certificate counts as validated: it is within
// its validity period, carries exactly one URI SAN of the form spiffe://<td>/ns/<ns>/sa/<sa>, and its
// issuer chain - following only presented intermediates that are valid CA certificates - ends in a root
// registered for <td> (not merely for some trust domain).  Then the identities are its SAN values.
func tlsCertExpected(f []string) ([]string, bool) {
	l, ok := parseLeafSpec(f[3])
	if !ok || l.when != "ok" {
		return nil, false
	}
	var uris, vals []string
	for _, e := range l.sans {
		v := e[2:]
		if e[0] == 'I' {
			b, _ := hex.DecodeString(e[2:])
			v = string(b)
		}
		vals = append(vals, v)
		if e[0] == 'U' {
			uris = append(uris, v)
		}
	}
	if len(uris) != 1 {
		return nil, false
	}
	// the trust domain of a SPIFFE URI; its scheme is case-insensitive
	norm := uris[0]
	if i := strings.Index(norm, ":"); i > 0 {
		norm = strings.ToLower(norm[:i]) + norm[i:]
	}
	td, _, _, ok := spiffeParts(norm)
	if !ok {
		return nil, false
	}
	roots, _, bundlesOK := registeredRoots(wire.DecList(f[2]), td)
	if !bundlesOK {
		return nil, false
	}
	presented := map[string]bool{}
	for _, i := range wire.DecList(f[4]) {
		presented[i] = true
	}
	iss := l.issuer
	for hops := 0; hops < 6; hops++ {
		if roots[iss] {
			return vals, true
		}
		up, isInt := pkiIssuerOf[iss]
		if !isInt || !presented[iss] || iss == "IE" || iss == "INC" {
			return nil, false
		}
		iss = up
	}
	return nil, false
}

func peerHost(tok string) (string, bool) {
	if tok == "nopeer" {
		return "", false
	}
	h, _, err := net.SplitHostPort(wire.Dec(tok))
	return h, err == nil
}

// peerIsNetworkAddress: the peer address is ip:port, as every TCP peer's is.
func peerIsNetworkAddress(tok string) bool {
	h, ok := peerHost(tok)
	if !ok {
		return true // no host/port form at all: the code must answer with an error
	}
	_, err := netip.ParseAddr(h)
	return err == nil
}

func peerTrusted(tok string, cidrs []string) bool {
	h, ok := peerHost(tok)
	if !ok {
		return false
	}
	ip, err := netip.ParseAddr(h)
	if err != nil {
		return false
	}
	if ip.IsLoopback() {
		return true
	}
	for _, c := range cidrs {
		if p, err := netip.ParsePrefix(c); err == nil && p.Contains(ip) {
			return true
		}
	}
	return false
}
