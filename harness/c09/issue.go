package main

// Stream `issue`: the real Server.CreateCertificate over the real IstioCA.
//
// Op lines (tokens are wire-encoded, see harness/internal/wire):
//
//	case <n> issue
//	ca <kind> <signerLife|none> <chainLives> <root 0|1> <defaultTTL s> <maxTTL s>
//	      kind: self | selfk8s (NewSelfSignedIstioCAOptions) | plug | plugfile (NewPluggedCertIstioCAOptions) | plugrsa | plug2 | noroot | capchain | nosigner | expired | expiredchain | future |
//	            selfrot (self-signed through NewSelfSignedIstioCAOptions with a rootCertFile, root-cert rotator running)   (how the harness builds it)
//	      the remaining tokens are the abstract bundle the Lean model reads
//	na -                                     no CA_TRUSTED_NODE_ACCOUNTS
//	na <trusted ns/sa list> <k> <id1> <pods1> ... <idk> <podsk>
//	      pods: list of name|ns|uid|sa|node
//	req <ctx> <outs> <csr> <ttl> <imp> <signer> <cluster> <junk>
//	      ctx: 4 flags xdsAuth,hasPeer,authInfo (0 none, 1 credentials.TLSInfo, 2 another AuthInfo),authPlaintext; an optional 5th
//	           flag 1: the context carries NO incoming metadata at all (then no clusterid either)
//	      outs: list of authenticator outcomes kind|ids|podName|podNs|podUID|podSA, kind in ok,nil,err,both
//	      csr: form|key|cn|org|sans|ca|extra
//	      ttl: int64 seconds; imp/signer: - | s:<string> | n (number) | l (list) | o (struct) | b (bool) | z (null)
//	      cluster: - | list of "clusterid" metadata values; junk: number of unrelated metadata fields
//	reqa <authspec> <csr> <ttl> <imp> <signer> <cluster> <junk> [t=<mode>]
//	      the same request authenticated by one REAL authenticator in Server.Authenticators;
//	      authspec = the tokens of an `authn` line (stream authn, see authn.go) after the word authn
//	      mode: the connection is not TLS - plain (no AuthInfo, XDS_AUTH_PLAINTEXT on) | noauth (no AuthInfo) |
//	            other (a non-TLS AuthInfo) | otherplain (non-TLS AuthInfo, XDS_AUTH_PLAINTEXT on)
//	reqm <list of authspecs> <csr> <ttl> <imp> <signer> <cluster> <junk> [t=<mode>]
//	      several REAL authenticators in Server.Authenticators, in order, seeing the one request
//	mesh <td>                                the mesh config's trust domain changes (authenticators built earlier or later must follow it)
//	rot <life> <chain -|c>                   the key cert bundle is replaced under the live CA (kind selfrot: by the REAL root-cert rotator)
//	genkeycert <hosts> <ttl>                 IstioCA.GenKeyCert
//
// Output lines: `ok`, `ca-ok`/`ca-err`, `na-ok`, and for a request
//
//	err <Code> | crash | ok san=<..> crit=<SAN extension critical> subj=<attrs> sig=<b> ca=<b> bc=<b> key=<b> ku=<n> eku=<..> xext=<..> life=<secs|clamp> le=<b> chain=<n> mid=<b> root=<b>

import (
	"bytes"
	"context"
	"crypto"
	"crypto/ecdsa"
	"crypto/ed25519"
	"crypto/elliptic"
	"crypto/rand"
	"crypto/rsa"
	"crypto/x509"
	"crypto/x509/pkix"
	"encoding/asn1"
	"encoding/hex"
	"encoding/pem"
	"errors"
	"fmt"
	"math/big"
	"net"
	"os"
	"sort"
	"strconv"
	"strings"
	"time"

	"google.golang.org/grpc/credentials"
	"google.golang.org/grpc/metadata"
	"google.golang.org/grpc/peer"
	"google.golang.org/grpc/status"
	"google.golang.org/protobuf/types/known/structpb"
	v1 "k8s.io/api/core/v1"
	metav1 "k8s.io/apimachinery/pkg/apis/meta/v1"
	"k8s.io/apimachinery/pkg/fields"
	"k8s.io/apimachinery/pkg/runtime"
	"k8s.io/apimachinery/pkg/types"
	k8sfake "k8s.io/client-go/kubernetes/fake"
	kubefake "k8s.io/client-go/kubernetes/fake"
	ktesting "k8s.io/client-go/testing"

	pb "istio.io/api/security/v1alpha1"
	"istio.io/istio/pilot/pkg/features"
	"istio.io/istio/pkg/cluster"
	"istio.io/istio/pkg/kube"
	"istio.io/istio/pkg/kube/kubetypes"
	"istio.io/istio/pkg/kube/multicluster"
	"istio.io/istio/pkg/security"
	"istio.io/istio/pkg/util/sets"
	"istio.io/istio/security/pkg/pki/ca"
	"istio.io/istio/security/pkg/pki/util"
	caserver "istio.io/istio/security/pkg/server/ca"
	"verifharness/internal/quiet"
	"verifharness/internal/wire"
)

// ---------------------------------------------------------------- nested token helpers

// encFields joins wire-encoded fields with '|' (a byte that wire.Enc always escapes).
func encFields(fs ...string) string {
	out := make([]string, len(fs))
	for i, f := range fs {
		out[i] = wire.Enc(f)
	}
	return strings.Join(out, "|")
}

func decFields(s string) []string {
	parts := strings.Split(s, "|")
	for i := range parts {
		parts[i] = wire.Dec(parts[i])
	}
	return parts
}

// ---------------------------------------------------------------- fixtures: CSR keys

type keyring struct {
	keys map[string]crypto.Signer
	// genChecked / genFault: how many CSRs of the real util.GenCSR were examined and the first defect found (oracle clause gencsr-*)
	genChecked int
	genFault   string
}

var keyNames = []string{"rsa-a", "rsa-b", "ec256-a", "ec256-b", "ec384", "ec521", "ed25519", "rsa1024"}

func newKeyring() *keyring {
	k := &keyring{keys: map[string]crypto.Signer{}}
	must := func(err error) {
		if err != nil {
			fmt.Fprintln(os.Stderr, "keygen:", err)
			panic(err)
		}
	}
	var err error
	k.keys["rsa-a"], err = rsa.GenerateKey(rand.Reader, 2048)
	must(err)
	k.keys["rsa-b"], err = rsa.GenerateKey(rand.Reader, 2048)
	must(err)
	k.keys["rsa1024"], err = rsa.GenerateKey(rand.Reader, 1024) // a weak key: the CA has no key-size policy (observation)
	must(err)
	k.keys["ec256-a"], err = ecdsa.GenerateKey(elliptic.P256(), rand.Reader)
	must(err)
	k.keys["ec256-b"], err = ecdsa.GenerateKey(elliptic.P256(), rand.Reader)
	must(err)
	k.keys["ec384"], err = ecdsa.GenerateKey(elliptic.P384(), rand.Reader)
	must(err)
	k.keys["ec521"], err = ecdsa.GenerateKey(elliptic.P521(), rand.Reader)
	must(err)
	_, ed, err := ed25519.GenerateKey(rand.Reader)
	must(err)
	k.keys["ed25519"] = ed
	return k
}

// csrSpec is the adversarial content of one CSR.
type csrSpec struct {
	form string // ok oktype oktrail oklead nopem empty badder trunc badsig emptyblock gen (real util.GenCSR)
	//                multi (a second CSR block behind the first) multibad (garbage block in front) pss (RSA-PSS signature)
	//                unkkey (public key algorithm Go does not know) flip<n> (one corrupted byte at n/64 of the DER)
	key   string   // name in the keyring
	cn    string   // Subject.CommonName
	org   string   // Subject.Organization
	sans  []string // requested SAN extension
	ca    bool     // requested BasicConstraints CA:TRUE (+ keyCertSign)
	extra bool     // an unrelated private extension
}

func parseCSRSpec(tok string) csrSpec {
	f := decFields(tok)
	for len(f) < 7 {
		f = append(f, "")
	}
	return csrSpec{form: f[0], key: f[1], cn: f[2], org: f[3], sans: wire.DecList(f[4]), ca: f[5] == "1", extra: f[6] == "1"}
}

func (c csrSpec) tok() string {
	return wire.Enc(encFields(c.form, c.key, c.cn, c.org, wire.EncList(c.sans), wire.B(c.ca), wire.B(c.extra)))
}

// csrDERShape says which forms carry a DER that x509.ParseCertificateRequest accepts.
func csrFormParses(form string) bool {
	switch form {
	case "ok", "oktype", "oktrail", "oklead", "badsig", "gen", "multi", "pss", "unkkey":
		return true
	}
	return false
}

// csrFormValid: the CSR is well-formed and carries a valid proof of possession.
func csrFormValid(form string) bool {
	return csrFormParses(form) && form != "badsig" && form != "unkkey"
}

var (
	oidBasicConstraints = asn1.ObjectIdentifier{2, 5, 29, 19}
	oidKeyUsage         = asn1.ObjectIdentifier{2, 5, 29, 15}
	oidExtKeyUsage      = asn1.ObjectIdentifier{2, 5, 29, 37}
	oidSAN              = asn1.ObjectIdentifier{2, 5, 29, 17}
	oidAKI              = asn1.ObjectIdentifier{2, 5, 29, 35}
	oidSKI              = asn1.ObjectIdentifier{2, 5, 29, 14}
	oidPrivate          = asn1.ObjectIdentifier{1, 2, 3, 4, 5, 6}
)

// build materialises the CSR text sent in the request and returns the CSR's SubjectPublicKeyInfo
// (nil when the CSR carries none).
func (k *keyring) build(c csrSpec) (string, []byte) {
	switch c.form {
	case "nopem":
		return "dumb CSR", nil
	case "empty":
		return "", nil
	case "badder":
		return string(pem.EncodeToMemory(&pem.Block{Type: "CERTIFICATE REQUEST", Bytes: []byte{0x30, 0x03, 0x02, 0x01, 0x01}})), nil
	case "emptyblock":
		return "-----BEGIN CERTIFICATE REQUEST-----\n-----END CERTIFICATE REQUEST-----\n", nil
	}
	if c.form == "gen" {
		// the CSR an Istio agent sends: the REAL util.GenCSR (fresh key; dual-use CN iff a CN is asked for)
		o := util.CertOptions{Host: strings.Join(c.sans, ","), Org: c.org, IsDualUse: c.cn != "", ECSigAlg: util.EcdsaSigAlg, PKCS8Key: c.extra}
		switch c.key {
		case "ec384":
			o.ECCCurve = util.P384Curve
		case "rsa-a":
			o.ECSigAlg, o.RSAKeySize = "", 2048
		}
		csrPEM, keyPEM, err := util.GenCSR(o)
		if err != nil {
			return "csr-build-failed:" + err.Error(), nil
		}
		parsed, err := util.ParsePemEncodedCSR(csrPEM)
		if err != nil {
			return "csr-build-failed:" + err.Error(), nil
		}
		k.genChecked++
		if fault := genCSRFault(o, c, csrPEM, keyPEM); fault != "" && k.genFault == "" {
			k.genFault = fault
		}
		return string(csrPEM), parsed.RawSubjectPublicKeyInfo
	}
	priv := k.keys[c.key]
	if priv == nil {
		priv = k.keys["ec256-a"]
	}
	if c.form == "pss" {
		priv = k.keys["rsa-a"]
	}
	if c.form == "unkkey" {
		priv = k.keys["ed25519"]
	}
	tmpl := &x509.CertificateRequest{Subject: pkix.Name{CommonName: c.cn}}
	if c.form == "pss" {
		tmpl.SignatureAlgorithm = x509.SHA256WithRSAPSS
	}
	if c.org != "" {
		tmpl.Subject.Organization = []string{c.org}
	}
	if len(c.sans) > 0 {
		if ext, err := util.BuildSubjectAltNameExtension(strings.Join(c.sans, ",")); err == nil {
			tmpl.ExtraExtensions = append(tmpl.ExtraExtensions, *ext)
		}
	}
	if c.ca {
		bc, _ := asn1.Marshal(struct {
			IsCA bool
		}{true})
		tmpl.ExtraExtensions = append(tmpl.ExtraExtensions, pkix.Extension{Id: oidBasicConstraints, Critical: true, Value: bc})
		ku, _ := asn1.Marshal(asn1.BitString{Bytes: []byte{0x04}, BitLength: 6}) // keyCertSign
		tmpl.ExtraExtensions = append(tmpl.ExtraExtensions, pkix.Extension{Id: oidKeyUsage, Critical: true, Value: ku})
	}
	if c.extra {
		v, _ := asn1.Marshal("private-extension")
		tmpl.ExtraExtensions = append(tmpl.ExtraExtensions, pkix.Extension{Id: oidPrivate, Value: v})
	}
	der, err := x509.CreateCertificateRequest(rand.Reader, tmpl, priv)
	if err != nil {
		return "csr-build-failed:" + err.Error(), nil
	}
	parsed, err := x509.ParseCertificateRequest(der)
	if err != nil {
		return "csr-build-failed:" + err.Error(), nil
	}
	spki := parsed.RawSubjectPublicKeyInfo
	typ := "CERTIFICATE REQUEST"
	switch c.form {
	case "oktype":
		typ = "CERTIFICATE"
	case "trunc":
		der = der[:len(der)/2]
		spki = nil
	case "badsig":
		der = append([]byte(nil), der...)
		der[len(der)-3] ^= 0x55
	case "unkkey":
		// the SubjectPublicKeyInfo names Ed448 (1.3.101.113), which crypto/x509 does not implement: no proof of possession can be checked
		der = bytes.Replace(der, []byte{0x06, 0x03, 0x2b, 0x65, 0x70}, []byte{0x06, 0x03, 0x2b, 0x65, 0x71}, 1)
		spki = nil
	}
	if strings.HasPrefix(c.form, "flip") {
		// one corrupted byte somewhere in the signed part (the CertificationRequestInfo, header included): it no longer
		// parses, or the signature no longer verifies.  (Outside it, Go ignores e.g. the parameters of the RSA signature
		// algorithm identifier: a flip there leaves a CSR whose proof of possession still verifies - observation.)
		n, _ := strconv.Atoi(c.form[4:])
		der = append([]byte(nil), der...)
		var outer asn1.RawValue
		start, size := 0, len(der)
		if _, err := asn1.Unmarshal(der, &outer); err == nil {
			var tbs asn1.RawValue
			if _, err := asn1.Unmarshal(outer.Bytes, &tbs); err == nil {
				start, size = len(der)-len(outer.Bytes), len(tbs.FullBytes)
			}
		}
		der[start+(n%64)*size/64] ^= 0x21
		spki = nil
	}
	p := string(pem.EncodeToMemory(&pem.Block{Type: typ, Bytes: der}))
	switch c.form {
	case "oktrail":
		p += "trailing garbage\n-----BEGIN X-----\n"
	case "oklead":
		p = "leading text\n" + p
	case "multi", "multibad":
		// two PEM blocks: only the first one counts
		other, _ := x509.CreateCertificateRequest(rand.Reader, &x509.CertificateRequest{Subject: pkix.Name{CommonName: "second-block"}}, k.keys["ec256-b"])
		second := string(pem.EncodeToMemory(&pem.Block{Type: "CERTIFICATE REQUEST", Bytes: other}))
		if c.form == "multi" {
			p += second
		} else {
			p = string(pem.EncodeToMemory(&pem.Block{Type: "CERTIFICATE REQUEST", Bytes: []byte{0x30, 0x03, 0x02, 0x01, 0x01}})) + p
			spki = nil
		}
	}
	return p, spki
}

// genCSRFault examines what the REAL util.GenCSR returned for the options `o` (oracle clause gencsr-*): a
// well-formed CSR with a valid proof of possession by the returned private key, of the key type asked for, that
// requests exactly the hosts as SAN entries (nothing else: no CA, no key usage), with the dual-use CN iff asked.
func genCSRFault(o util.CertOptions, c csrSpec, csrPEM, keyPEM []byte) string {
	block, _ := pem.Decode(csrPEM)
	if block == nil || block.Type != "CERTIFICATE REQUEST" {
		return "not-pem"
	}
	csr, err := x509.ParseCertificateRequest(block.Bytes)
	if err != nil || csr.CheckSignature() != nil {
		return "no-proof-of-possession"
	}
	key, err := util.ParsePemEncodedKey(keyPEM)
	if err != nil {
		return "key-unparsable"
	}
	signer, ok := key.(crypto.Signer)
	if !ok {
		return "key-unparsable"
	}
	pub, err := x509.MarshalPKIXPublicKey(signer.Public())
	if err != nil || !bytes.Equal(pub, csr.RawSubjectPublicKeyInfo) {
		return "key-mismatch"
	}
	switch pk := signer.Public().(type) {
	case *ecdsa.PublicKey:
		want := elliptic.P256()
		if o.ECCCurve == util.P384Curve {
			want = elliptic.P384()
		}
		if o.ECSigAlg == "" || pk.Curve != want {
			return "key-type"
		}
	case *rsa.PublicKey:
		if o.ECSigAlg != "" || pk.N.BitLen() != o.RSAKeySize {
			return "key-type"
		}
	default:
		return "key-type"
	}
	var sans []string
	for _, e := range csr.Extensions {
		if !e.Id.Equal(oidSAN) {
			return "extra-extension" // nothing but names is requested
		}
		entries, err := rawSANEntries(e.Value)
		if err != nil {
			return "san-unparsable"
		}
		sans = append(sans, entries...)
	}
	var want []string
	for _, h := range c.sans {
		want = append(want, oracleSAN(h))
	}
	if strings.Join(sans, ",") != strings.Join(want, ",") {
		return "san-not-the-hosts"
	}
	cn := ""
	if o.IsDualUse && len(c.sans) > 0 && len(c.sans[0]) <= 64 {
		cn = c.sans[0]
	}
	if csr.Subject.CommonName != cn {
		return "common-name"
	}
	return ""
}

// rawSANEntries decodes the value of a subjectAltName extension entry by entry.
func rawSANEntries(value []byte) ([]string, error) {
	var out []string
	var seq asn1.RawValue
	if _, err := asn1.Unmarshal(value, &seq); err != nil {
		return nil, err
	}
	for b := seq.Bytes; len(b) > 0; {
		var rv asn1.RawValue
		var err error
		if b, err = asn1.Unmarshal(b, &rv); err != nil {
			return nil, err
		}
		switch rv.Tag {
		case 2:
			out = append(out, "D:"+wire.Enc(string(rv.Bytes)))
		case 6:
			out = append(out, "U:"+wire.Enc(string(rv.Bytes)))
		case 7:
			out = append(out, "I:"+hex.EncodeToString(rv.Bytes))
		default:
			out = append(out, fmt.Sprintf("O%d:%s", rv.Tag, hex.EncodeToString(rv.Bytes)))
		}
	}
	return out, nil
}

// ---------------------------------------------------------------- fixtures: CAs

type caFixtures struct {
	genChecked int // outputs of util.GenCertKeyFromOptions / GenRootCertFromExistingKey examined, and the first defect found
	genFault   string
	extraRoot  string              // file handed to NewSelfSignedIstioCAOptions as rootCertFile (kind selfrot): the ECDSA root
	rotStop    chan struct{}       // stops the root-cert rotator of the previous selfrot CA
	k8s        *k8sfake.Clientset  // the API server holding istio-ca-secret (kind selfk8s)
	rsaInt     [][]byte            // cached RSA intermediate: cert PEM, key PEM
	selfBundle *util.KeyCertBundle // RSA self-signed root, built once (real NewSelfSignedDebugIstioCAOptions)
	rootPem    []byte
	rootCert   *x509.Certificate
	rootKey    crypto.PrivateKey
	int1Pem    []byte
	int1Cert   *x509.Certificate
	int1Key    crypto.PrivateKey
}

const farLife = int64(315360000) // 10 years, the only life used for the cached self-signed RSA root

func newCAFixtures() *caFixtures {
	f := &caFixtures{}
	rootPem, rootKeyPem, err := util.GenCertKeyFromOptions(util.CertOptions{
		IsCA: true, IsSelfSigned: true, TTL: 20 * 365 * 24 * time.Hour, Org: "Root CA", ECSigAlg: util.EcdsaSigAlg,
	})
	if err != nil {
		panic(err)
	}
	f.rootPem = rootPem
	f.rootCert, _ = util.ParsePemEncodedCertificate(rootPem)
	f.rootKey, _ = util.ParsePemEncodedKey(rootKeyPem)
	int1Pem, int1KeyPem, err := util.GenCertKeyFromOptions(util.CertOptions{
		IsCA: true, TTL: 20 * 365 * 24 * time.Hour, Org: "Intermediate 1", ECSigAlg: util.EcdsaSigAlg,
		SignerCert: f.rootCert, SignerPriv: f.rootKey,
	})
	if err != nil {
		panic(err)
	}
	f.int1Pem = int1Pem
	f.int1Cert, _ = util.ParsePemEncodedCertificate(int1Pem)
	f.int1Key, _ = util.ParsePemEncodedKey(int1KeyPem)
	return f
}

// cleanup removes what the fixtures left outside the process.
func (f *caFixtures) cleanup() {
	if f.rotStop != nil {
		close(f.rotStop)
		f.rotStop = nil
	}
	if f.extraRoot != "" {
		os.Remove(f.extraRoot)
		f.extraRoot = ""
	}
}

// selfRotating: a self-signed CA as istiod builds it - NewSelfSignedIstioCAOptions against a Kubernetes API that
// already holds istio-ca-secret (root valid for `life` seconds from now, the process' cached RSA key), a
// rootCertFile with a further root (util.AppendRootCerts), the root-cert rotator created by NewIstioCA and
// started by IstioCA.Run (check interval one hour; the harness triggers a check through the verif hook).
func (f *caFixtures) selfRotating(life, def, max int64) (*ca.IstioCA, error) {
	b, err := f.self()
	if err != nil {
		return nil, err
	}
	_, keyPem, _, _ := b.GetAllPem()
	ttl := time.Duration(life) * time.Second
	ropts := util.CertOptions{TTL: ttl, SignerPrivPem: keyPem, Org: "verif.org", IsCA: true, IsSelfSigned: true, RSAKeySize: 2048}
	t0 := time.Now()
	certPem, _, err := util.GenRootCertFromExistingKey(ropts)
	if err != nil {
		return nil, err
	}
	f.genChecked++
	if fault := certGenFault(ropts, certPem, keyPem, t0, time.Now()); fault != "" && f.genFault == "" {
		f.genFault = "root-from-existing-key-" + fault
	}
	if f.extraRoot == "" {
		tmp, err := os.CreateTemp("", "c09-extra-root-*.pem")
		if err != nil {
			return nil, err
		}
		_, _ = tmp.Write(f.rootPem)
		tmp.Close()
		f.extraRoot = tmp.Name()
	}
	client := k8sfake.NewSimpleClientset(&v1.Secret{ObjectMeta: metav1.ObjectMeta{Name: ca.CASecret, Namespace: "istio-system"},
		Data: map[string][]byte{ca.CACertFile: certPem, ca.CAPrivateKeyFile: keyPem}})
	opts, err := ca.NewSelfSignedIstioCAOptions(context.Background(), 100, ttl, time.Hour, time.Duration(def)*time.Second, time.Duration(max)*time.Second,
		"verif.org", false, false, "istio-system", client.CoreV1(), f.extraRoot, false, 2048)
	if err != nil {
		return nil, err
	}
	c, err := ca.NewIstioCA(opts)
	if err != nil {
		return nil, err
	}
	if f.rotStop != nil {
		close(f.rotStop)
	}
	f.rotStop = make(chan struct{})
	c.Run(f.rotStop)
	return c, nil
}

func (f *caFixtures) self() (*util.KeyCertBundle, error) {
	if f.selfBundle == nil {
		opts, err := ca.NewSelfSignedDebugIstioCAOptions("", time.Duration(farLife)*time.Second, time.Hour, time.Hour, "verif.org", 2048)
		if err != nil {
			return nil, err
		}
		f.selfBundle = opts.KeyCertBundle
	}
	return f.selfBundle, nil
}

// checkedGen is util.GenCertKeyFromOptions (genCertTemplateFromOptions + x509.CreateCertificate) with its output
// examined (oracle clause certgen-*): the certificate is what the options ask for - CA or not, signed by the named
// signer (or itself), for the returned private key, valid from NotBefore (default: now) for TTL, naming exactly the
// hosts - and nothing more.
func (f *caFixtures) checkedGen(o util.CertOptions) ([]byte, []byte, error) {
	before := time.Now()
	c, k, err := util.GenCertKeyFromOptions(o)
	if err == nil {
		f.genChecked++
		if fault := certGenFault(o, c, k, before, time.Now()); fault != "" && f.genFault == "" {
			f.genFault = fault
		}
	}
	return c, k, err
}

func certGenFault(o util.CertOptions, certPEM, keyPEM []byte, before, after time.Time) string {
	l, err := parseLeaf(string(certPEM))
	if err != nil || l.parsed == nil {
		return "unparsable"
	}
	if l.isCA != o.IsCA || (o.IsCA && l.keyUsage&(1<<5) == 0) || (!o.IsCA && l.keyUsage&(1<<5) != 0) {
		return "ca-flag"
	}
	key, err := util.ParsePemEncodedKey(keyPEM)
	signer, ok := key.(crypto.Signer)
	if err != nil || !ok {
		return "key-unparsable"
	}
	if pub, err := x509.MarshalPKIXPublicKey(signer.Public()); err != nil || !bytes.Equal(pub, l.spki) {
		return "key-mismatch"
	}
	issuer := l.parsed
	if !o.IsSelfSigned {
		issuer = o.SignerCert
	}
	if alg, ok := sigAlgs[l.sigAlg]; !ok || issuer == nil || issuer.CheckSignature(alg, l.tbs, l.sig) != nil {
		return "not-signed-by-signer"
	}
	start0, start1 := before, after
	if !o.NotBefore.IsZero() {
		start0, start1 = o.NotBefore, o.NotBefore
	}
	if l.notBefore.Before(start0.Add(-time.Second)) || l.notBefore.After(start1) {
		return "not-before"
	}
	if d := l.notAfter.Sub(l.notBefore); d != o.TTL.Truncate(time.Second) && d != o.TTL.Truncate(time.Second)+time.Second {
		return "lifetime"
	}
	var want []string
	if o.Host != "" {
		for _, h := range strings.Split(o.Host, ",") {
			want = append(want, oracleSAN(h))
		}
	}
	if strings.Join(l.sans, ",") != strings.Join(want, ",") {
		return "san-not-the-hosts"
	}
	return ""
}

// signerCert issues a fresh ECDSA intermediate whose NotAfter is `life` seconds from now (negative:
// already expired).
func (f *caFixtures) signerCert(parent *x509.Certificate, parentKey crypto.PrivateKey, life int64) ([]byte, []byte, error) {
	o := util.CertOptions{
		IsCA: true, Org: "Signing CA", ECSigAlg: util.EcdsaSigAlg, SignerCert: parent, SignerPriv: parentKey,
		TTL: time.Duration(life) * time.Second,
	}
	if life <= 0 {
		o.NotBefore = time.Now().Add(time.Duration(life)*time.Second - time.Hour)
		o.TTL = time.Hour
	}
	return f.checkedGen(o)
}

// buildCA constructs the real IstioCA for one `ca` line.
func (f *caFixtures) buildCA(kind string, life, chainLife int64, def, max int64) (*ca.IstioCA, error) {
	var bundle *util.KeyCertBundle
	var err error
	switch kind {
	case "self":
		bundle, err = f.self()
	case "plug":
		var c, k []byte
		if c, k, err = f.signerCert(f.rootCert, f.rootKey, life); err == nil {
			bundle, err = util.NewVerifiedKeyCertBundleFromPem(c, k, c, f.rootPem, nil)
		}
	case "plug2":
		var c, k []byte
		if c, k, err = f.signerCert(f.int1Cert, f.int1Key, life); err == nil {
			chain := append(append([]byte(nil), c...), f.int1Pem...)
			bundle, err = util.NewVerifiedKeyCertBundleFromPem(c, k, chain, f.rootPem, nil)
		}
	case "noroot":
		// signer and chain but no root-cert PEM (unverified bundle)
		var c, k []byte
		if c, k, err = f.signerCert(f.rootCert, f.rootKey, life); err == nil {
			bundle = util.NewKeyCertBundleFromPem(c, k, c, nil, nil)
		}
	case "capchain":
		// the first chain certificate expires (in chainLife seconds) before the signer does: only
		// minTTL's cap on the default TTL, not the signer clamp, bounds a defaulted lifetime
		var c, k, c2 []byte
		if c, k, err = f.signerCert(f.rootCert, f.rootKey, life); err == nil {
			if c2, _, err = f.signerCert(f.rootCert, f.rootKey, chainLife); err == nil {
				bundle = util.NewKeyCertBundleFromPem(c, k, append(append([]byte(nil), c2...), c...), f.rootPem, nil)
			}
		}
	case "plugfile", "plugfilenotca":
		// through the production constructor for a plugged-in CA: files on disk, NewPluggedCertIstioCAOptions;
		// plugfilenotca: the signing certificate is an end-entity certificate (BasicConstraints CA:FALSE)
		var c, k []byte
		if kind == "plugfilenotca" {
			c, k, err = f.checkedGen(util.CertOptions{Host: "spiffe://cluster.local/ns/istio-system/sa/citadel", Org: "Not a CA", ECSigAlg: util.EcdsaSigAlg,
				SignerCert: f.rootCert, SignerPriv: f.rootKey, TTL: time.Duration(life) * time.Second})
		} else {
			c, k, err = f.signerCert(f.rootCert, f.rootKey, life)
		}
		if err != nil {
			break
		}
		dir, derr := os.MkdirTemp("", "c09-ca")
		if derr != nil {
			err = derr
			break
		}
		defer os.RemoveAll(dir)
		files := ca.SigningCAFileBundle{RootCertFile: dir + "/root-cert.pem", CertChainFiles: []string{dir + "/cert-chain.pem"},
			SigningCertFile: dir + "/ca-cert.pem", SigningKeyFile: dir + "/ca-key.pem"}
		for name, data := range map[string][]byte{files.RootCertFile: f.rootPem, files.CertChainFiles[0]: c, files.SigningCertFile: c, files.SigningKeyFile: k} {
			if err = os.WriteFile(name, data, 0o600); err != nil {
				break
			}
		}
		if err != nil {
			break
		}
		opts, oerr := ca.NewPluggedCertIstioCAOptions(files, time.Duration(def)*time.Second, time.Duration(max)*time.Second, 2048)
		if oerr != nil {
			return nil, oerr // a result of the code under test (e.g. the signing certificate is not a CA certificate)
		}
		return ca.NewIstioCA(opts)
	case "selfk8s":
		// through the production constructor for the self-signed CA: NewSelfSignedIstioCAOptions against a
		// (fake) Kubernetes API - the first call generates the root and stores istio-ca-secret, later calls load it
		if f.k8s == nil {
			f.k8s = k8sfake.NewSimpleClientset()
		}
		opts, oerr := ca.NewSelfSignedIstioCAOptions(context.Background(), 20, time.Duration(farLife)*time.Second, time.Hour,
			time.Duration(def)*time.Second, time.Duration(max)*time.Second, "verif.org", false, false, "istio-system", f.k8s.CoreV1(), "", false, 2048)
		if oerr != nil {
			return nil, fmt.Errorf("fixture: %v", oerr)
		}
		return ca.NewIstioCA(opts)
	case "selfrot":
		c, rerr := f.selfRotating(life, def, max)
		if rerr != nil {
			return nil, fmt.Errorf("fixture: %v", rerr)
		}
		return c, nil
	case "plugrsa":
		// an RSA intermediate under the ECDSA root (generated once per process, ten years)
		if f.rsaInt == nil {
			c, k, gerr := util.GenCertKeyFromOptions(util.CertOptions{IsCA: true, Org: "RSA Signing CA", RSAKeySize: 2048, SignerCert: f.rootCert,
				SignerPriv: f.rootKey, TTL: time.Duration(farLife) * time.Second})
			if gerr != nil {
				return nil, fmt.Errorf("fixture: %v", gerr)
			}
			f.rsaInt = [][]byte{c, k}
		}
		bundle, err = util.NewVerifiedKeyCertBundleFromPem(f.rsaInt[0], f.rsaInt[1], f.rsaInt[0], f.rootPem, nil)
	case "nosigner":
		bundle = util.NewKeyCertBundleFromPem(nil, nil, nil, f.rootPem, nil)
	case "expired":
		var c, k []byte
		if c, k, err = f.signerCert(f.rootCert, f.rootKey, life); err == nil {
			bundle = util.NewKeyCertBundleFromPem(c, k, nil, f.rootPem, nil)
		}
	case "future":
		// a signing certificate that is not valid yet (NotBefore one hour ahead): the CA does not look at NotBefore
		var c, k []byte
		c, k, err = f.checkedGen(util.CertOptions{IsCA: true, Org: "Signing CA", ECSigAlg: util.EcdsaSigAlg, SignerCert: f.rootCert,
			SignerPriv: f.rootKey, NotBefore: time.Now().Add(time.Hour), TTL: time.Duration(life)*time.Second - time.Hour})
		if err == nil {
			bundle = util.NewKeyCertBundleFromPem(c, k, nil, f.rootPem, nil)
		}
	case "expiredchain":
		var c, k []byte
		if c, k, err = f.signerCert(f.rootCert, f.rootKey, life); err == nil {
			bundle = util.NewKeyCertBundleFromPem(c, k, c, f.rootPem, nil)
		}
	default:
		err = errors.New("unknown ca kind " + kind)
	}
	if err != nil {
		return nil, fmt.Errorf("fixture: %v", err)
	}
	return ca.NewIstioCA(&ca.IstioCAOptions{
		DefaultCertTTL: time.Duration(def) * time.Second,
		MaxCertTTL:     time.Duration(max) * time.Second,
		KeyCertBundle:  bundle,
	})
}

// caHolder lets one Server (built once per pod world by the real New()) sign with the IstioCA of the
// current case: every method forwards to the real *ca.IstioCA.
type caHolder struct{ cur *ca.IstioCA }

func (h *caHolder) Sign(csrPEM []byte, opts ca.CertOpts) ([]byte, error) {
	return h.cur.Sign(csrPEM, opts)
}

func (h *caHolder) SignWithCertChain(csrPEM []byte, opts ca.CertOpts) ([]string, error) {
	return h.cur.SignWithCertChain(csrPEM, opts)
}

func (h *caHolder) GetCAKeyCertBundle() *util.KeyCertBundle { return h.cur.GetCAKeyCertBundle() }

// ---------------------------------------------------------------- fixtures: pod worlds

type podSpec struct {
	name, ns, uid, sa, node string
	phase                   string // status.phase: "" Running, "P" Pending, "S" Succeeded, "F" Failed
}

func (p podSpec) failed() bool { return p.phase == "F" }

func (p podSpec) object() *v1.Pod {
	po := &v1.Pod{
		ObjectMeta: metav1.ObjectMeta{Name: p.name, Namespace: p.ns, UID: types.UID(p.uid)},
		Spec:       v1.PodSpec{ServiceAccountName: p.sa, NodeName: p.node},
		Status:     v1.PodStatus{Phase: v1.PodRunning},
	}
	switch p.phase {
	case "F":
		po.Status.Phase = v1.PodFailed
	case "S":
		po.Status.Phase = v1.PodSucceeded
	case "P":
		po.Status.Phase = v1.PodPending
	}
	return po
}

func parsePods(tok string) []podSpec {
	var out []podSpec
	for _, p := range wire.DecList(tok) {
		f := decFields(p)
		for len(f) < 6 {
			f = append(f, "")
		}
		out = append(out, podSpec{f[0], f[1], f[2], f[3], f[4], f[5]})
	}
	return out
}

func encPods(ps []podSpec) string {
	var l []string
	for _, p := range ps {
		l = append(l, encFields(p.name, p.ns, p.uid, p.sa, p.node, p.phase))
	}
	return wire.EncList(l)
}

type world struct {
	hidden  []string // namespaces the clients' object filter hides
	server  *caserver.Server
	trusted []string
	ids     []string
	pods    map[string][]podSpec // per cluster: what the ACTIVE node authorizer's informer was given
	// the following are used only by private worlds (`nap`), which receive events
	ctl     *multicluster.Fake
	clients map[string]kube.Client
	pending map[string]*pendingUpdate
	stop    chan struct{}
}

// pendingUpdate is a cluster update whose new component has not been started yet.
type pendingUpdate struct {
	running bool // its client was started (`cl run`), the swap not yet finalised
	client  kube.Client
	pods    []podSpec
	swaps   []multicluster.ComponentConstraint
}

type worlds struct {
	holder *caHolder
	cache  map[string]*world
	stop   chan struct{}
}

func parseNA(f []string) (trusted []string, ids []string, pods map[string][]podSpec) {
	pods = map[string][]podSpec{}
	if len(f) < 3 {
		return nil, nil, pods
	}
	trusted = wire.DecList(f[1])
	n, _ := strconv.Atoi(f[2])
	for i := 0; i < n && 4+2*i < len(f); i++ {
		id := wire.Dec(f[3+2*i])
		ids = append(ids, id)
		pods[id] = parsePods(f[4+2*i])
	}
	return trusted, ids, pods
}

// newPodClient is one cluster's fake API server + client; `hidden` namespaces are filtered out by the
// client's object filter, as the discovery selectors of the mesh config do.
func newPodClient(pods []podSpec, hidden []string) kube.Client {
	var objs []runtime.Object
	for _, p := range pods {
		objs = append(objs, p.object())
	}
	client := kube.NewFakeClient(objs...)
	honourPodFieldSelector(client, objs)
	if len(hidden) > 0 {
		hide := map[string]bool{}
		for _, h := range hidden {
			hide[h] = true
		}
		kube.SetObjectFilter(client, kubetypes.NewStaticObjectFilter(func(obj any) bool {
			switch o := obj.(type) {
			case string:
				return !hide[o]
			case metav1.Object:
				return !hide[o.GetNamespace()]
			}
			return true
		}))
	}
	return client
}

func waitFor(what string, cond func() bool) error {
	deadline := time.Now().Add(20 * time.Second)
	for !cond() {
		if time.Now().After(deadline) {
			return errors.New("timeout waiting for " + what)
		}
		time.Sleep(200 * time.Microsecond)
	}
	return nil
}

// get builds (once per distinct `na` line; afresh for a private `nap` line) a real Server through the
// public constructor New(), with CA_TRUSTED_NODE_ACCOUNTS set as given and one fake kube client per cluster.
func (w *worlds) get(f []string) (*world, error) {
	private := f[0] == "nap"
	key := strings.Join(f, " ")
	if x, ok := w.cache[key]; ok && !private {
		return x, nil
	}
	trusted, ids, pods := parseNA(f)
	var hidden []string
	if len(f) >= 2 && f[len(f)-2] == "hide" {
		hidden = wire.DecList(f[len(f)-1])
	}
	set := sets.New[types.NamespacedName]()
	for _, t := range trusted {
		ns, sa, _ := strings.Cut(t, "/")
		set.Insert(types.NamespacedName{Namespace: ns, Name: sa})
	}
	features.CATrustedNodeAccounts = set
	ctl := multicluster.NewFakeController()
	srv, err := caserver.New(w.holder, time.Hour, nil, ctl)
	if err != nil {
		return nil, err
	}
	x := &world{hidden: hidden, server: srv, trusted: trusted, ids: ids, pods: pods, ctl: ctl, clients: map[string]kube.Client{}, pending: map[string]*pendingUpdate{}, stop: w.stop}
	if private {
		x.stop = make(chan struct{})
	}
	for _, id := range ids {
		client := newPodClient(pods[id], hidden)
		ctl.Add(cluster.ID(id), client, x.stop)
		client.RunAndWait(x.stop)
		x.clients[id] = client
	}
	if err := waitFor("node authorizer sync", srv.VerifNodeAuthorizerSynced); err != nil {
		return nil, err
	}
	quiet.Silence()
	if !private {
		w.cache[key] = x
	}
	return x, nil
}

func (x *world) close() {
	if x != nil && x.stop != nil {
		close(x.stop)
		x.stop = nil
	}
}

func (x *world) isHidden(ns string) bool {
	for _, h := range x.hidden {
		if h == ns {
			return true
		}
	}
	return false
}

func (x *world) removeID(id string) {
	var ids []string
	for _, i := range x.ids {
		if i != id {
			ids = append(ids, i)
		}
	}
	x.ids = ids
	delete(x.pods, id)
}

// event applies one pod / cluster event to a private world and waits until the real node
// authorizer has processed it.
func (x *world) event(f []string) error {
	if x.ctl == nil || x.server == nil {
		return errors.New("no world")
	}
	switch {
	case len(f) == 4 && f[0] == "pod" && f[1] == "add":
		id := wire.Dec(f[2])
		ps := parsePods(wire.EncList([]string{wire.Dec(f[3])}))
		if len(ps) != 1 || x.clients[id] == nil {
			return errors.New("bad pod add")
		}
		p := ps[0]
		if _, err := x.clients[id].Kube().CoreV1().Pods(p.ns).Create(context.Background(), p.object(), metav1.CreateOptions{}); err != nil {
			return err
		}
		x.pods[id] = append(x.pods[id], p)
		if x.server.VerifNodeAuthorizerConfigured() && !x.isHidden(p.ns) {
			return waitFor("pod add", func() bool { uid, ok := x.server.VerifPodUID(id, p.ns, p.name); return ok && uid == p.uid })
		}
		return nil
	case len(f) == 4 && f[0] == "pod" && f[1] == "upd":
		id := wire.Dec(f[2])
		ps := parsePods(wire.EncList([]string{wire.Dec(f[3])}))
		if len(ps) != 1 || x.clients[id] == nil {
			return errors.New("bad pod upd")
		}
		p := ps[0]
		for i, q := range x.pods[id] {
			if q.ns == p.ns && q.name == p.name {
				x.pods[id][i] = p
			}
		}
		api := x.clients[id].Kube().CoreV1().Pods(p.ns)
		if p.failed() {
			// a pod turning Failed stops matching the informer's field selector: the real API server's
			// watch then delivers a DELETE (API-server semantics emulated; the fake ignores selectors)
			if err := api.Delete(context.Background(), p.name, metav1.DeleteOptions{}); err != nil {
				return err
			}
			if x.server.VerifNodeAuthorizerConfigured() {
				return waitFor("pod failed", func() bool { _, ok := x.server.VerifPodUID(id, p.ns, p.name); return !ok })
			}
			return nil
		}
		if _, err := api.Update(context.Background(), p.object(), metav1.UpdateOptions{}); err != nil {
			return err
		}
		if x.server.VerifNodeAuthorizerConfigured() && !x.isHidden(p.ns) {
			return waitFor("pod update", func() bool {
				sa, node, _, ok := x.server.VerifPodSpec(id, p.ns, p.name)
				return ok && sa == p.sa && node == p.node
			})
		}
		return nil
	case len(f) == 5 && f[0] == "pod" && f[1] == "del":
		id, ns, name := wire.Dec(f[2]), wire.Dec(f[3]), wire.Dec(f[4])
		if x.clients[id] == nil {
			return errors.New("bad pod del")
		}
		if err := x.clients[id].Kube().CoreV1().Pods(ns).Delete(context.Background(), name, metav1.DeleteOptions{}); err != nil {
			return err
		}
		var keep []podSpec
		for _, p := range x.pods[id] {
			if !(p.ns == ns && p.name == name) {
				keep = append(keep, p)
			}
		}
		x.pods[id] = keep
		if x.server.VerifNodeAuthorizerConfigured() {
			return waitFor("pod del", func() bool { _, ok := x.server.VerifPodUID(id, ns, name); return !ok })
		}
		return nil
	case len(f) == 5 && f[0] == "cl" && f[1] == "upd":
		id := wire.Dec(f[2])
		pods := parsePods(f[3])
		client := newPodClient(pods, x.hidden)
		swaps := x.ctl.VerifUpdate(cluster.ID(id), client, x.stop)
		x.clients[id] = client
		if f[4] == "1" {
			delete(x.pending, id)
			client.RunAndWait(x.stop)
			if _, had := x.pods[id]; !had {
				x.ids = append(x.ids, id)
			}
			x.pods[id] = pods
			return waitFor("cluster update", func() bool { return allSynced(swaps) })
		}
		if _, had := x.pods[id]; !had {
			// no predecessor: the new, unsynced component answers with an empty informer
			x.ids = append(x.ids, id)
			x.pods[id] = nil
		}
		if pu := x.pending[id]; pu != nil && !pu.running {
			// a second update before the first one synced: the predecessor now is that unsynced component (empty informer)
			x.pods[id] = nil
		}
		x.pending[id] = &pendingUpdate{client: client, pods: pods, swaps: swaps}
		return nil
	case len(f) == 3 && f[0] == "cl" && f[1] == "run":
		// the new component of a pending update syncs, but nothing has asked the pending swap yet whether it has
		// (pendingSwap.HasSynced finalises it): ForCluster goes through pendingSwap.active, which now hands out the NEW one
		id := wire.Dec(f[2])
		pu := x.pending[id]
		if pu == nil || pu.running {
			return nil
		}
		pu.running = true
		pu.client.RunAndWait(x.stop)
		x.pods[id] = pu.pods
		return waitFor("new component sync", x.server.VerifNodeAuthorizerSynced)
	case len(f) == 3 && f[0] == "cl" && f[1] == "sync":
		id := wire.Dec(f[2])
		pu := x.pending[id]
		if pu == nil {
			return nil
		}
		delete(x.pending, id)
		if !pu.running {
			pu.client.RunAndWait(x.stop)
		}
		x.pods[id] = pu.pods
		return waitFor("cluster sync", func() bool { return allSynced(pu.swaps) })
	case len(f) == 3 && f[0] == "cl" && f[1] == "del":
		id := wire.Dec(f[2])
		x.ctl.Delete(cluster.ID(id))
		delete(x.pending, id)
		delete(x.clients, id)
		x.removeID(id)
		return nil
	case len(f) == 4 && f[0] == "cl" && f[1] == "add":
		id := wire.Dec(f[2])
		pods := parsePods(f[3])
		client := newPodClient(pods, x.hidden)
		x.ctl.Add(cluster.ID(id), client, x.stop)
		client.RunAndWait(x.stop)
		x.clients[id] = client
		if _, had := x.pods[id]; !had {
			x.ids = append(x.ids, id)
		}
		x.pods[id] = pods
		return waitFor("cluster add", x.server.VerifNodeAuthorizerSynced)
	}
	return errors.New("unknown event")
}

func allSynced(cs []multicluster.ComponentConstraint) bool {
	for _, c := range cs {
		if c != nil && !c.HasSynced() {
			return false
		}
	}
	return true
}

// honourPodFieldSelector makes the fake API server apply the `status.phase` field selector of a pod
// LIST the way the real one does (the client-go fake ignores field selectors).  API-server semantics
// modelled from its documentation.
func honourPodFieldSelector(client kube.Client, objs []runtime.Object) {
	cs, ok := client.Kube().(*kubefake.Clientset)
	if !ok {
		return
	}
	// inserted just before the default object-tracker reaction, i.e. after istio's own bookkeeping
	// reactors (which count pending informer watches and must see every LIST)
	react := func(action ktesting.Action) (bool, runtime.Object, error) {
		la, ok := action.(ktesting.ListAction)
		if !ok || la.GetListRestrictions().Fields == nil || la.GetListRestrictions().Fields.Empty() {
			return false, nil, nil
		}
		sel := la.GetListRestrictions().Fields
		out := &v1.PodList{}
		for _, o := range objs {
			p := o.(*v1.Pod)
			if la.GetNamespace() != "" && la.GetNamespace() != p.Namespace {
				continue
			}
			if sel.Matches(fields.Set{"status.phase": string(p.Status.Phase), "metadata.name": p.Name, "metadata.namespace": p.Namespace, "spec.nodeName": p.Spec.NodeName}) {
				out.Items = append(out.Items, *p.DeepCopy())
			}
		}
		return true, out, nil
	}
	cs.Lock()
	defer cs.Unlock()
	n := len(cs.ReactionChain)
	chain := append([]ktesting.Reactor{}, cs.ReactionChain[:n-1]...)
	chain = append(chain, &ktesting.SimpleReactor{Verb: "list", Resource: "pods", Reaction: react})
	cs.ReactionChain = append(chain, cs.ReactionChain[n-1])
}

// ---------------------------------------------------------------- scripted authenticators

type authOutcome struct {
	kind string // ok nil err both
	ids  []string
	kube security.KubernetesInfo
}

func parseOutcomes(tok string) []authOutcome {
	var out []authOutcome
	for _, o := range wire.DecList(tok) {
		f := decFields(o)
		for len(f) < 6 {
			f = append(f, "")
		}
		out = append(out, authOutcome{kind: f[0], ids: wire.DecList(f[1]),
			kube: security.KubernetesInfo{PodName: f[2], PodNamespace: f[3], PodUID: f[4], PodServiceAccount: f[5]}})
	}
	return out
}

func encOutcomes(os []authOutcome) string {
	var l []string
	for _, o := range os {
		l = append(l, encFields(o.kind, wire.EncList(o.ids), o.kube.PodName, o.kube.PodNamespace, o.kube.PodUID, o.kube.PodServiceAccount))
	}
	return wire.EncList(l)
}

// scripted is a security.Authenticator that returns a chosen result.
type scripted struct{ o authOutcome }

func (s scripted) AuthenticatorType() string { return "scripted" }

func (s scripted) Authenticate(security.AuthContext) (*security.Caller, error) {
	c := &security.Caller{AuthSource: security.AuthSourceClientCertificate, Identities: s.o.ids, KubernetesInfo: s.o.kube}
	switch s.o.kind {
	case "ok":
		return c, nil
	case "both":
		return c, errors.New("scripted error")
	case "err":
		return nil, errors.New("scripted error")
	}
	return nil, nil
}

// ---------------------------------------------------------------- request

type reqSpec struct {
	xdsAuth, hasPeer, tls, plaintext bool
	noMD                             bool   // no incoming metadata attached to the context
	other                            bool   // the peer's AuthInfo is neither nil nor credentials.TLSInfo
	mode                             string // reqa / reqm: "" (TLS) | plain | noauth | other | otherplain
	outs                             []authOutcome
	csr                              csrSpec
	ttl                              int64
	imp, signer                      string // "-" | "s:<enc>" | "n"
	cluster                          string // "-" | list
	junk                             int
}

func parseReq(f []string) (reqSpec, error) {
	if len(f) != 9 || (len(f[1]) != 4 && len(f[1]) != 5) {
		return reqSpec{}, errors.New("bad req line")
	}
	r := reqSpec{xdsAuth: f[1][0] == '1', hasPeer: f[1][1] == '1', tls: f[1][2] == '1', other: f[1][2] == '2', plaintext: f[1][3] == '1'}
	r.noMD = len(f[1]) == 5 && f[1][4] == '1'
	r.outs = parseOutcomes(f[2])
	r.csr = parseCSRSpec(wire.Dec(f[3]))
	ttl, err := strconv.ParseInt(f[4], 10, 64)
	if err != nil {
		return r, err
	}
	r.ttl = ttl
	r.imp, r.signer, r.cluster = f[5], f[6], f[7]
	r.junk, _ = strconv.Atoi(f[8])
	return r, nil
}

func (r reqSpec) line() []string {
	auth := wire.B(r.tls)
	if r.other {
		auth = "2"
	}
	ctx := wire.B(r.xdsAuth) + wire.B(r.hasPeer) + auth + wire.B(r.plaintext)
	if r.noMD {
		ctx += "1"
	}
	return []string{"req", ctx, encOutcomes(r.outs), r.csr.tok(), strconv.FormatInt(r.ttl, 10), r.imp, r.signer, r.cluster, strconv.Itoa(r.junk)}
}

func metaString(tok string) (string, bool) {
	if strings.HasPrefix(tok, "s:") {
		return wire.Dec(tok[2:]), true
	}
	return "", false
}

func (r reqSpec) build(k *keyring) (context.Context, *pb.IstioCertificateRequest, []byte) {
	ctx := context.Background()
	if r.hasPeer {
		p := &peer.Peer{Addr: &net.IPAddr{IP: net.IPv4(192, 168, 1, 1)}}
		if r.tls {
			p.AuthInfo = credentials.TLSInfo{}
		} else if r.other {
			p.AuthInfo = otherAuthInfo{}
		}
		ctx = peer.NewContext(ctx, p)
	}
	md := metadata.MD{}
	if r.cluster != "-" {
		md["clusterid"] = wire.DecList(r.cluster)
	}
	if !r.noMD {
		ctx = metadata.NewIncomingContext(ctx, md)
	}
	fields := map[string]any{}
	put := func(key, tok string) {
		if s, ok := metaString(tok); ok {
			fields[key] = s
			return
		}
		// values that are not strings: GetStringValue() yields "" for every one of them
		switch tok {
		case "n":
			fields[key] = 42.0
		case "l":
			fields[key] = []any{"spiffe://cluster.local/ns/kube-system/sa/admin"}
		case "o":
			fields[key] = map[string]any{"identity": "spiffe://cluster.local/ns/kube-system/sa/admin"}
		case "b":
			fields[key] = true
		case "z":
			fields[key] = nil
		}
	}
	put(security.ImpersonatedIdentity, r.imp)
	put(security.CertSigner, r.signer)
	for i := 0; i < r.junk; i++ {
		fields[fmt.Sprintf("SubjectAltName%d", i)] = "spiffe://evil/ns/x/sa/y"
		fields["IsCA"] = true
	}
	csrText, spki := k.build(r.csr)
	req := &pb.IstioCertificateRequest{Csr: csrText, ValidityDuration: r.ttl}
	if len(fields) > 0 || r.junk > 0 {
		req.Metadata, _ = structpb.NewStruct(fields)
	}
	return ctx, req, spki
}

// ---------------------------------------------------------------- raw leaf parsing (observer)

// rawCert mirrors the outer structure of an X.509 certificate; it lets the harness read the SAN
// extension byte-exactly (and in order) even when crypto/x509 would reject a name.
type rawCert struct {
	TBS    rawTBS
	SigAlg pkix.AlgorithmIdentifier
	Sig    asn1.BitString
}

type rawTBS struct {
	Raw        asn1.RawContent
	Version    int `asn1:"optional,explicit,default:0,tag:0"`
	Serial     *big.Int
	SigAlg     pkix.AlgorithmIdentifier
	Issuer     asn1.RawValue
	Validity   struct{ NotBefore, NotAfter time.Time }
	Subject    asn1.RawValue
	PublicKey  asn1.RawValue
	UniqueID   asn1.BitString   `asn1:"optional,tag:1"`
	SubjectID  asn1.BitString   `asn1:"optional,tag:2"`
	Extensions []pkix.Extension `asn1:"omitempty,optional,explicit,tag:3"`
}

// leafView is what the property talks about, read off the issued leaf certificate.
type leafView struct {
	sans        []string // in certificate order: U:<uri> D:<dns> I:<hex bytes> O<tag>:<hex>
	sanCount    int      // number of SAN extensions
	sanCritical bool
	cn          string
	subject     []string // every attribute of the raw subject, in order: <oid>=<value>
	parsed      *x509.Certificate
	tbs         []byte // raw TBSCertificate, signature algorithm and signature (verified without crypto/x509's name checks)
	sigAlg      string
	sig         []byte
	isCA        bool
	bcPresent   bool
	spki        []byte
	notBefore   time.Time
	notAfter    time.Time
	keyUsage    int
	eku         []string
	xext        []string // extension OIDs other than KU, EKU, BC, SAN, AKI, SKI
	x509OK      bool
}

func parseLeaf(pemText string) (*leafView, error) {
	block, _ := pem.Decode([]byte(pemText))
	if block == nil {
		return nil, errors.New("leaf is not PEM")
	}
	var rc rawCert
	if rest, err := asn1.Unmarshal(block.Bytes, &rc); err != nil || len(rest) != 0 {
		return nil, fmt.Errorf("leaf is not a certificate: %v", err)
	}
	v := &leafView{spki: rc.TBS.PublicKey.FullBytes, notBefore: rc.TBS.Validity.NotBefore, notAfter: rc.TBS.Validity.NotAfter,
		tbs: rc.TBS.Raw, sigAlg: rc.SigAlg.Algorithm.String(), sig: rc.Sig.RightAlign()}
	var subj pkix.RDNSequence
	if _, err := asn1.Unmarshal(rc.TBS.Subject.FullBytes, &subj); err == nil {
		var n pkix.Name
		n.FillFromRDNSequence(&subj)
		v.cn = n.CommonName
		for _, rdn := range subj {
			for _, atv := range rdn {
				v.subject = append(v.subject, atv.Type.String()+"="+fmt.Sprint(atv.Value))
			}
		}
	}
	for _, e := range rc.TBS.Extensions {
		switch {
		case e.Id.Equal(oidSAN):
			v.sanCount++
			v.sanCritical = e.Critical
			entries, err := rawSANEntries(e.Value)
			if err != nil {
				return nil, err
			}
			v.sans = append(v.sans, entries...)
		case e.Id.Equal(oidBasicConstraints):
			v.bcPresent = true
			var bc struct {
				IsCA       bool `asn1:"optional"`
				MaxPathLen int  `asn1:"optional,default:-1"`
			}
			if _, err := asn1.Unmarshal(e.Value, &bc); err != nil {
				return nil, err
			}
			v.isCA = bc.IsCA
		case e.Id.Equal(oidKeyUsage):
			var bs asn1.BitString
			if _, err := asn1.Unmarshal(e.Value, &bs); err == nil {
				for i := 0; i < 9; i++ {
					if bs.At(i) != 0 {
						v.keyUsage |= 1 << uint(i)
					}
				}
			}
		case e.Id.Equal(oidExtKeyUsage):
			var oids []asn1.ObjectIdentifier
			if _, err := asn1.Unmarshal(e.Value, &oids); err == nil {
				for _, o := range oids {
					v.eku = append(v.eku, o.String())
				}
			}
		case e.Id.Equal(oidAKI), e.Id.Equal(oidSKI):
		default:
			v.xext = append(v.xext, e.Id.String())
		}
	}
	sort.Strings(v.eku)
	sort.Strings(v.xext)
	if c, err := x509.ParseCertificate(block.Bytes); err == nil {
		v.x509OK = true
		v.parsed = c
		// cross-check the observer against crypto/x509 where it accepts the certificate
		if c.IsCA != v.isCA || !c.NotAfter.Equal(v.notAfter) || !c.NotBefore.Equal(v.notBefore) ||
			!bytes.Equal(c.RawSubjectPublicKeyInfo, v.spki) || c.Subject.CommonName != v.cn {
			return nil, errors.New("observer disagrees with crypto/x509")
		}
	}
	return v, nil
}

// ---------------------------------------------------------------- system under test

type issueSUT struct {
	private bool // the current world is a private one (`nap`): it receives events and is closed afterwards
	authn   *authnSUT
	keys    *keyring
	fix     *caFixtures
	holder  *caHolder
	worlds  *worlds
	cur     *world
	caOK    bool
	caKind  string
	maxTTL  int64
	naLine  []string
}

func (s *issueSUT) close() {
	if s.private && s.cur != nil {
		s.cur.close()
	}
	s.fix.cleanup()
}

func newIssueSUT() *issueSUT {
	h := &caHolder{}
	s := &issueSUT{keys: newKeyring(), fix: newCAFixtures(), holder: h}
	s.worlds = &worlds{holder: h, cache: map[string]*world{}, stop: make(chan struct{})}
	// a placeholder CA so that a Server can be constructed before the first `ca` line (requests are
	// answered `no-ca` until a `ca` line succeeds)
	if c, err := s.fix.buildCA("nosigner", 0, 0, 3600, 3600); err == nil {
		h.cur = c
	}
	return s
}

func codeName(err error) string {
	st, _ := status.FromError(err)
	return st.Code().String()
}

// outcome of one request on the real code, before formatting.
type issueResult struct {
	rejected bool // TLS handshake refused: the request never reached CreateCertificate
	crash    bool
	code     string // "" when OK
	resp     *pb.IstioCertificateResponse
	leaf     *leafView
	perr     error
	spki     []byte
	before   time.Time
	after    time.Time
}

func (s *issueSUT) run(r reqSpec) issueResult {
	features.XDSAuth = r.xdsAuth
	security.AuthPlaintext = r.plaintext
	var auths []security.Authenticator
	for _, o := range r.outs {
		auths = append(auths, scripted{o})
	}
	ctx, req, spki := r.build(s.keys)
	return s.runWith(ctx, auths, req, spki)
}

// reqaSpec is a request authenticated by one REAL authenticator placed in Server.Authenticators.
type reqaSpec struct {
	spec []string // authenticator spec: kind first, transport grpc
	req  reqSpec  // csr, ttl, imp, signer, cluster, junk
}

func parseReqA(f []string) (reqaSpec, error) {
	if len(f) != 8 && !(len(f) == 9 && validMode(f[8])) {
		return reqaSpec{}, errors.New("bad reqa line")
	}
	a := reqaSpec{spec: strings.Fields(wire.Dec(f[1]))}
	a.req = reqSpec{xdsAuth: true, hasPeer: true, tls: true, csr: parseCSRSpec(wire.Dec(f[2])), imp: f[4], signer: f[5], cluster: f[6]}
	if len(f) == 9 {
		a.req.mode = f[8][2:]
	}
	ttl, err := strconv.ParseInt(f[3], 10, 64)
	if err != nil {
		return a, err
	}
	a.req.ttl = ttl
	a.req.junk, _ = strconv.Atoi(f[7])
	return a, nil
}

func validMode(tok string) bool {
	switch tok {
	case "t=plain", "t=noauth", "t=other", "t=otherplain":
		return true
	}
	return false
}

// modeTail: the optional trailing transport-mode token of a reqa / reqm line.
func modeTail(l []string, mode string) []string {
	if mode != "" {
		return append(l, "t="+mode)
	}
	return l
}

// applyMode replaces the TLS connection of the prepared request by the non-TLS one the mode names; it returns
// the value of XDS_AUTH_PLAINTEXT to run with.
func applyMode(p *prepared, mode string) (plaintext bool) {
	switch mode {
	case "plain":
		p.authInfo = nil
		return true
	case "noauth":
		p.authInfo = nil
	case "other":
		p.authInfo = otherAuthInfo{}
	case "otherplain":
		p.authInfo = otherAuthInfo{}
		return true
	}
	return false
}

// modeAuthenticates: security.Authenticate gets as far as the authenticators.
func modeAuthenticates(mode string) bool {
	return mode == "" || mode == "plain" || mode == "otherplain"
}

func (a reqaSpec) line() []string {
	return modeTail([]string{"reqa", wire.Enc(strings.Join(a.spec, " ")), a.req.csr.tok(), strconv.FormatInt(a.req.ttl, 10), a.req.imp, a.req.signer, a.req.cluster,
		strconv.Itoa(a.req.junk)}, a.req.mode)
}

// reqmSpec: several REAL authenticators in Server.Authenticators, in the given order (as istiod's chain
// client certificate, Kubernetes JWT / OIDC, XFCC), seeing the one request.
type reqmSpec struct {
	specs [][]string
	req   reqSpec
}

func parseReqM(f []string) (reqmSpec, error) {
	a, err := parseReqA(f)
	if err != nil {
		return reqmSpec{}, err
	}
	m := reqmSpec{req: a.req}
	for _, sp := range wire.DecList(f[1]) {
		m.specs = append(m.specs, strings.Fields(sp))
	}
	return m, nil
}

func (m reqmSpec) line() []string {
	var l []string
	for _, sp := range m.specs {
		l = append(l, strings.Join(sp, " "))
	}
	return modeTail([]string{"reqm", wire.EncList(l), m.req.csr.tok(), strconv.FormatInt(m.req.ttl, 10), m.req.imp, m.req.signer, m.req.cluster,
		strconv.Itoa(m.req.junk)}, m.req.mode)
}

// runM merges the transport-level ingredients of the specs into ONE request context: the metadata of all
// (each kind uses its own keys; at most one of kube / oidc is present), the peer address of the XFCC
// spec, the TLS state of the certificate spec.
func (s *issueSUT) runM(m reqmSpec) (issueResult, error) {
	if s.authn == nil {
		s.authn = newAuthnSUT()
	}
	base := &prepared{md: metadata.MD{}, hasPeer: true, peerAddr: "10.0.0.9:1234", authInfo: credentials.TLSInfo{}}
	var auths []security.Authenticator
	for _, sp := range m.specs {
		p, err := s.authn.prepare(sp)
		if err != nil {
			return issueResult{}, err
		}
		if p.rejected {
			return issueResult{rejected: true}, nil
		}
		for k, v := range p.md {
			base.md[k] = v
		}
		switch sp[0] {
		case "xfcc":
			base.hasPeer, base.peerAddr = p.hasPeer, p.peerAddr
		case "cert", "tlscert":
			base.authInfo = p.authInfo
			if !p.hasPeer {
				base.hasPeer = false
			}
		}
		auths = append(auths, p.auth)
	}
	delete(base.md, "clusterid")
	if m.req.cluster != "-" {
		base.md["clusterid"] = wire.DecList(m.req.cluster)
	}
	features.XDSAuth = true
	security.AuthPlaintext = applyMode(base, m.req.mode)
	_, req, spki := m.req.build(s.keys)
	return s.runWith(base.grpcContext(), auths, req, spki), nil
}

// runA sends the request through the real CreateCertificate with the real authenticator; the
// request's own clusterid metadata is the one the authenticator sees too.
func (s *issueSUT) runA(a reqaSpec) (issueResult, *prepared, error) {
	if s.authn == nil {
		s.authn = newAuthnSUT()
	}
	p, err := s.authn.prepare(a.spec)
	if err != nil {
		return issueResult{}, nil, err
	}
	if p.rejected {
		return issueResult{rejected: true}, p, nil
	}
	p.noMD = false // the request as a whole has metadata (at least its clusterid); `nomd` here is "no authorization value"
	delete(p.md, "clusterid")
	if a.req.cluster != "-" {
		p.md["clusterid"] = wire.DecList(a.req.cluster)
	}
	features.XDSAuth = true
	security.AuthPlaintext = applyMode(p, a.req.mode)
	_, req, spki := a.req.build(s.keys)
	return s.runWith(p.grpcContext(), []security.Authenticator{p.auth}, req, spki), p, nil
}

func (s *issueSUT) runWith(ctx context.Context, auths []security.Authenticator, req *pb.IstioCertificateRequest, spki []byte) (res issueResult) {
	defer func() {
		if rec := recover(); rec != nil {
			res.crash = true
		}
	}()
	s.cur.server.Authenticators = auths
	res.spki = spki
	res.before = time.Now()
	resp, err := s.cur.server.CreateCertificate(ctx, req)
	res.after = time.Now()
	if err != nil {
		res.code = codeName(err)
		return res
	}
	res.resp = resp
	if len(resp.CertChain) == 0 {
		res.perr = errors.New("empty chain")
		return res
	}
	res.leaf, res.perr = parseLeaf(resp.CertChain[0])
	return res
}

func (s *issueSUT) signerCert() *x509.Certificate {
	c, _, _, _ := s.holder.cur.GetCAKeyCertBundle().GetAll()
	return c
}

// signedBySigner: the leaf's signature verifies under the CA's signing certificate.
func (s *issueSUT) signedBySigner(l *leafView) bool {
	signer := s.signerCert()
	alg, ok := sigAlgs[l.sigAlg]
	return signer != nil && ok && signer.CheckSignature(alg, l.tbs, l.sig) == nil
}

var sigAlgs = map[string]x509.SignatureAlgorithm{
	"1.2.840.113549.1.1.11": x509.SHA256WithRSA, "1.2.840.113549.1.1.12": x509.SHA384WithRSA, "1.2.840.113549.1.1.13": x509.SHA512WithRSA,
	"1.2.840.10045.4.3.2": x509.ECDSAWithSHA256, "1.2.840.10045.4.3.3": x509.ECDSAWithSHA384, "1.2.840.10045.4.3.4": x509.ECDSAWithSHA512,
	"1.3.101.112": x509.PureEd25519,
}

// chainHeadNotAfter: NotAfter of the first certificate of the cert-chain PEM (what minTTL reads).
func (s *issueSUT) chainHeadNotAfter() (time.Time, bool) {
	_, _, chainPem, _ := s.holder.cur.GetCAKeyCertBundle().GetAll()
	if len(chainPem) == 0 {
		return time.Time{}, false
	}
	c, err := util.ParsePemEncodedCertificate(chainPem)
	if err != nil {
		return time.Time{}, false
	}
	return c.NotAfter, true
}

func (s *issueSUT) format(res issueResult) string {
	switch {
	case res.rejected:
		return "reject"
	case res.crash:
		return "crash"
	case res.code != "":
		return "err " + res.code
	case res.perr != nil:
		return "unparsable-leaf " + wire.Enc(res.perr.Error())
	}
	l := res.leaf
	signer := s.signerCert()
	life := "clamp"
	if signer == nil || !l.notAfter.Equal(signer.NotAfter) {
		life = strconv.FormatInt(int64(l.notAfter.Sub(l.notBefore)/time.Second)-120, 10)
		// default TTL capped by minTTL to the remaining life of the first chain certificate: the
		// certificate ends where that one ends, plus the seconds elapsed since the CA was built
		if head, ok := s.chainHeadNotAfter(); ok {
			if d := l.notAfter.Sub(head); d >= 0 && d <= 10*time.Second {
				life = "chaincap"
			}
		}
	}
	_, _, chainPem, rootPem := s.holder.cur.GetCAKeyCertBundle().GetAll()
	chainCerts := util.PemCertBytestoString(chainPem)
	got := res.resp.CertChain
	root := len(rootPem) > 0 && got[len(got)-1] == string(rootPem)
	if s.caKind == "selfrot" && !bytes.Contains(rootPem, bytes.TrimSpace(s.fix.rootPem)) {
		root = false // util.AppendRootCerts: the roots of rootCertFile belong to the root bundle, also after a rotation
	}
	mid := true
	for i, c := range chainCerts {
		if 1+i >= len(got) || strings.TrimSpace(got[1+i]) != strings.TrimSpace(c) {
			mid = false
		}
	}
	sans := "-"
	if len(l.sans) > 0 {
		sans = strings.Join(l.sans, ",")
	}
	if l.sanCount != 1 {
		sans = fmt.Sprintf("%dext:%s", l.sanCount, sans)
	}
	le := signer != nil && !l.notAfter.After(signer.NotAfter)
	return fmt.Sprintf("ok san=%s crit=%s subj=%s sig=%s ca=%s bc=%s key=%s ku=%d eku=%s xext=%s life=%s le=%s chain=%d mid=%s root=%s",
		sans, wire.B(l.sanCritical), wire.EncList(l.subject), wire.B(s.signedBySigner(l)), wire.B(l.isCA), wire.B(l.bcPresent), wire.B(res.spki != nil && bytes.Equal(l.spki, res.spki)),
		l.keyUsage, wire.EncList(l.eku), wire.EncList(l.xext), life, wire.B(le), len(got), wire.B(mid), wire.B(root))
}

// keyCertResult: what IstioCA.GenKeyCert (istiod's own serving certificate: signWithCertChain without lifetime
// check) returned.
type keyCertResult struct {
	err    bool
	leaf   *leafView
	perr   error
	keyPEM []byte
	before time.Time
	after  time.Time
}

func (s *issueSUT) genKeyCert(hosts []string, ttl int64) (r keyCertResult) {
	r.before = time.Now()
	certPEM, keyPEM, err := s.holder.cur.GenKeyCert(hosts, time.Duration(ttl)*time.Second, false)
	r.after = time.Now()
	if err != nil {
		r.err = true
		return r
	}
	r.keyPEM = keyPEM
	r.leaf, r.perr = parseLeaf(string(certPEM))
	return r
}

func (s *issueSUT) formatKeyCert(r keyCertResult) string {
	if r.err {
		return "err"
	}
	if r.perr != nil {
		return "unparsable-leaf " + wire.Enc(r.perr.Error())
	}
	l := r.leaf
	sans := "-"
	if len(l.sans) > 0 {
		sans = strings.Join(l.sans, ",")
	}
	signer := s.signerCert()
	life := "clamp"
	if signer == nil || !l.notAfter.Equal(signer.NotAfter) {
		life = strconv.FormatInt(int64(l.notAfter.Sub(l.notBefore)/time.Second)-120, 10)
	}
	return fmt.Sprintf("ok san=%s ca=%s sig=%s life=%s", sans, wire.B(l.isCA), wire.B(s.signedBySigner(l)), life)
}

// apply executes every op that is not a request (those are executed and judged by issueJudge.step).
func (s *issueSUT) apply(f []string) (out string) {
	defer func() {
		if rec := recover(); rec != nil {
			out = "crash"
		}
	}()
	switch f[0] {
	case "case":
		s.caOK = false
		if s.private {
			s.cur.close()
		}
		s.cur, s.private = nil, false
		if s.authn != nil {
			s.authn.mesh = nil
		}
		return "ok"
	case "mesh":
		if len(f) != 2 {
			return "bad-op"
		}
		if s.authn == nil {
			s.authn = newAuthnSUT()
		}
		td := wire.Dec(f[1])
		s.authn.mesh = &td
		return "mesh-ok"
	case "ca":
		if len(f) != 7 {
			return "bad-op"
		}
		life := int64(0)
		if f[2] != "none" {
			life, _ = strconv.ParseInt(f[2], 10, 64)
		}
		def, _ := strconv.ParseInt(f[5], 10, 64)
		max, _ := strconv.ParseInt(f[6], 10, 64)
		chainLife := int64(0)
		if f[3] != "-" {
			chainLife, _ = strconv.ParseInt(strings.Split(f[3], ",")[0], 10, 64)
		}
		c, err := s.fix.buildCA(f[1], life, chainLife, def, max)
		if err != nil {
			if strings.HasPrefix(err.Error(), "fixture:") {
				return "fixture-failed " + wire.Enc(err.Error())
			}
			s.caOK = false
			return "ca-err"
		}
		s.holder.cur = c
		s.caOK = true
		s.caKind = f[1]
		s.maxTTL = max
		return "ca-ok"
	case "rot":
		// the key cert bundle changes under the live CA (what the root-cert rotator / a cacerts reload do):
		// rot <signer life> <chain lives> - a new ECDSA signer under the same root
		if !s.caOK || len(f) != 3 {
			return "bad-op"
		}
		life, _ := strconv.ParseInt(f[1], 10, 64)
		if s.caKind == "selfrot" {
			// the REAL self-signed root-cert rotator: one check (grace period 100 %: the root is always due), which
			// generates a new root from the existing key, updates istio-ca-secret and the live key cert bundle
			old := s.signerCert()
			if !s.holder.cur.VerifCheckAndRotateRootCert() {
				return "fixture-failed no-rotator"
			}
			if now := s.signerCert(); old == nil || now == nil || now.Equal(old) {
				return "rot-err"
			}
			return "rot-ok"
		}
		c, k, err := s.fix.signerCert(s.fix.rootCert, s.fix.rootKey, life)
		if err != nil {
			return "fixture-failed " + wire.Enc(err.Error())
		}
		var chain []byte
		if f[2] != "-" {
			chain = c
		}
		if err := s.holder.cur.GetCAKeyCertBundle().VerifyAndSetAll(c, k, chain, s.fix.rootPem, nil); err != nil {
			return "rot-err"
		}
		return "rot-ok"
	case "pod", "cl":
		if s.cur == nil || !s.private {
			return "bad-op"
		}
		if err := s.cur.event(f); err != nil {
			return "fixture-failed " + wire.Enc(err.Error())
		}
		return "ev-ok"
	case "na", "nap":
		if s.private {
			s.cur.close()
		}
		s.private = f[0] == "nap"
		w, err := s.worlds.get(f)
		if err != nil {
			return "fixture-failed " + wire.Enc(err.Error())
		}
		s.cur = w
		s.naLine = f
		return "na-ok"
	}
	return "bad-op"
}
