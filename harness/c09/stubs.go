package main

import "istio.io/istio/pkg/security"

func kinfo(name, ns, uid, sa string) security.KubernetesInfo {
	return security.KubernetesInfo{PodName: name, PodNamespace: ns, PodUID: uid, PodServiceAccount: sa}
}

func genAuthn(seed uint64, n int, outp string)  {}
func oracleAuthn(in, outp string)               {}

type authnSUT struct{}

func newAuthnSUT() *authnSUT             { return &authnSUT{} }
func (s *authnSUT) apply(f []string) string { return "bad-op" }
