package main

import "istio.io/istio/pkg/security"

func kinfo(name, ns, uid, sa string) security.KubernetesInfo {
	return security.KubernetesInfo{PodName: name, PodNamespace: ns, PodUID: uid, PodServiceAccount: sa}
}
