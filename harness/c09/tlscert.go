package main

// Authenticator kind `tlscert`: the client certificate path end to end.  A REAL TLS handshake (crypto/tls
// over net.Pipe) against a server configured the way istiod's secure gRPC port is (pilot/pkg/bootstrap
// initSecureDiscoveryService: ClientAuth = VerifyClientCertIfGiven, ClientCAs = the REAL
// spiffe.PeerCertVerifier's general pool, VerifyPeerCertificate = its VerifyPeerCert, i.e. roots selected by
// the trust domain of the peer's URI SAN); the resulting ConnectionState (VerifiedChains from the real
// verifier) is then handed to the REAL ClientCertAuthenticator.
//
//	authn tlscert <tr> <pools> <leaf> <presented intermediates>
//	      pools: list of <trust domain>=<root>+<root>..   (roots R1 R2 R3; RX exists but is in no pool)
//	             or <trust domain>=@<key>;<key>..  a FEDERATED trust domain: its roots come from a SPIFFE bundle endpoint that
//	             serves these JWK entries, fetched by the REAL spiffe.RetrieveSpiffeBundleRootCerts;
//	             key = <use>:<cert>+<cert>..  use: x (x509-svid) j (jwt-svid) n (no use); cert: any CA of the fixture
//	             or <trust domain>=@!500 (the endpoint always answers 500) | @!badurl (the configured endpoint is no URL) |
//	             @!flaky;<key>;.. (the endpoint answers 503 once, then serves the keys: the fetch is retried)
//	      leaf:  nocert | <issuer>|<san entries>|<time ok|expired|future>|<eku both|client|server|none>
//	             issuer: R1 R2 R3 RX I1(by R1) I2(by R2) I3(by I1) IE(by R1, expired) INC(by R1, not a CA)
//	      presented intermediates: list of I1 I2 I3 IE INC
//
// Output: reject (handshake refused) | err | ok ids=<SAN values of the leaf> kube=...

import (
	"crypto"
	"crypto/ecdsa"
	"crypto/elliptic"
	"crypto/rand"
	"crypto/tls"
	"crypto/x509"
	"crypto/x509/pkix"
	"encoding/asn1"
	"encoding/hex"
	"encoding/json"
	"encoding/pem"
	"errors"
	"fmt"
	"io"
	"math/big"
	"net"
	"net/http"
	"net/http/httptest"
	"os"
	"strings"
	"time"

	"github.com/go-jose/go-jose/v4"
	"google.golang.org/grpc/credentials"

	"istio.io/istio/pkg/spiffe"
	"istio.io/istio/security/pkg/pki/util"
	"istio.io/istio/security/pkg/server/ca/authenticate"
	"verifharness/internal/wire"
)

type pkiCert struct {
	cert *x509.Certificate
	key  crypto.Signer
}

type pkiFixture struct {
	bundle *httptest.Server    // SPIFFE bundle endpoint: /<root>+<root>.. serves those roots as x509-svid keys
	cas    map[string]*pkiCert // R1 R2 R3 RX I1 I2 I3 IE INC
	flaky  map[string]int      // bundle endpoint: requests seen per flaky path
	modes  map[string]int      // how often the verifier was filled which way (evidence counters)
	server tls.Certificate
	serial int64
}

var (
	pkiIssuerOf = map[string]string{"I1": "R1", "I2": "R2", "I3": "I1", "IE": "R1", "INC": "R1"}
	pkiOrder    = []string{"R1", "R2", "R3", "RX", "I1", "I2", "I3", "IE", "INC"}
)

func newPKIFixture() (*pkiFixture, error) {
	f := &pkiFixture{cas: map[string]*pkiCert{}, serial: 1000, flaky: map[string]int{}, modes: map[string]int{}}
	now := time.Now()
	for _, name := range pkiOrder {
		key, err := ecdsa.GenerateKey(elliptic.P256(), rand.Reader)
		if err != nil {
			return nil, err
		}
		f.serial++
		tmpl := &x509.Certificate{SerialNumber: big.NewInt(f.serial), Subject: pkix.Name{CommonName: name, Organization: []string{"verif"}},
			NotBefore: now.Add(-time.Hour), NotAfter: now.Add(10 * 365 * 24 * time.Hour), IsCA: true, BasicConstraintsValid: true,
			KeyUsage: x509.KeyUsageCertSign | x509.KeyUsageDigitalSignature}
		switch name {
		case "IE":
			tmpl.NotBefore, tmpl.NotAfter = now.Add(-48*time.Hour), now.Add(-24*time.Hour)
		case "INC":
			tmpl.IsCA = false
			tmpl.KeyUsage = x509.KeyUsageDigitalSignature
		}
		parent, pkey := tmpl, crypto.Signer(key)
		if iss, ok := pkiIssuerOf[name]; ok {
			parent, pkey = f.cas[iss].cert, f.cas[iss].key
		}
		der, err := x509.CreateCertificate(rand.Reader, tmpl, parent, key.Public(), pkey)
		if err != nil {
			return nil, err
		}
		c, err := x509.ParseCertificate(der)
		if err != nil {
			return nil, err
		}
		f.cas[name] = &pkiCert{cert: c, key: key}
	}
	// istiod's own serving certificate
	skey, _ := ecdsa.GenerateKey(elliptic.P256(), rand.Reader)
	f.serial++
	stmpl := &x509.Certificate{SerialNumber: big.NewInt(f.serial), Subject: pkix.Name{CommonName: "istiod"}, DNSNames: []string{"istiod.istio-system.svc"},
		NotBefore: now.Add(-time.Hour), NotAfter: now.Add(24 * time.Hour), KeyUsage: x509.KeyUsageDigitalSignature,
		ExtKeyUsage: []x509.ExtKeyUsage{x509.ExtKeyUsageServerAuth}}
	sder, err := x509.CreateCertificate(rand.Reader, stmpl, f.cas["R1"].cert, skey.Public(), f.cas["R1"].key)
	if err != nil {
		return nil, err
	}
	f.server = tls.Certificate{Certificate: [][]byte{sder}, PrivateKey: skey}
	return f, nil
}

func (f *pkiFixture) startBundleServer() error {
	if f.bundle != nil {
		return nil
	}
	f.bundle = httptest.NewTLSServer(http.HandlerFunc(func(w http.ResponseWriter, r *http.Request) {
		doc := jose.JSONWebKeySet{}
		if strings.HasPrefix(r.URL.Path, "/e500/") {
			http.Error(w, "bundle endpoint out of order", http.StatusInternalServerError)
			return
		}
		if rest, ok := strings.CutPrefix(r.URL.Path, "/flaky/"); ok {
			// unavailable on the first request of a fetch, fine on the retry
			f.flaky[rest]++
			if f.flaky[rest]%2 == 1 {
				http.Error(w, "try again", http.StatusServiceUnavailable)
				return
			}
			r.URL.Path = "/k/" + strings.SplitN(rest, "/", 2)[1]
		}
		if spec, ok := strings.CutPrefix(r.URL.Path, "/k/"); ok {
			// an explicit list of JWK entries (hex of the pool's key list)
			raw, _ := hex.DecodeString(spec)
			for _, k := range parseBundleKeys(string(raw)) {
				jwk := jose.JSONWebKey{Key: f.cas["R1"].cert.PublicKey, Use: k.use}
				for i, name := range k.certs {
					if c := f.cas[name]; c != nil {
						if i == 0 {
							jwk.Key = c.cert.PublicKey
						}
						jwk.Certificates = append(jwk.Certificates, c.cert)
					}
				}
				doc.Keys = append(doc.Keys, jwk)
			}
		} else {
			for _, name := range strings.Split(strings.TrimPrefix(r.URL.Path, "/"), "+") {
				if c := f.cas[name]; c != nil {
					doc.Keys = append(doc.Keys, jose.JSONWebKey{Key: c.cert.PublicKey, Certificates: []*x509.Certificate{c.cert}, Use: "x509-svid"})
				}
			}
		}
		w.Header().Set("Content-Type", "application/json")
		_ = json.NewEncoder(w).Encode(doc)
	}))
	return nil
}

// bundleKey is one JWK entry of a SPIFFE bundle document.
type bundleKey struct {
	use   string
	certs []string
}

// parseBundleKeys reads `<use>:<cert>+<cert>;...` (the text after '@' of a federated pool).
func parseBundleKeys(spec string) []bundleKey {
	var out []bundleKey
	if spec == "" {
		return out
	}
	for _, k := range strings.Split(spec, ";") {
		u, cs, _ := strings.Cut(k, ":")
		key := bundleKey{use: map[string]string{"x": "x509-svid", "j": "jwt-svid"}[u]}
		if cs != "" {
			key.certs = strings.Split(cs, "+")
		}
		out = append(out, key)
	}
	return out
}

// bundleFetch: how the endpoint of a federated pool behaves, and the keys it serves (when it does).
func bundleFetch(spec string) (behaviour string, keys []bundleKey) {
	switch {
	case spec == "!500" || spec == "!badurl":
		return spec[1:], nil
	case strings.HasPrefix(spec, "!flaky"):
		return "flaky", parseBundleKeys(strings.TrimPrefix(strings.TrimPrefix(spec, "!flaky"), ";"))
	}
	return "ok", parseBundleKeys(spec)
}

// bundleRoots states what a SPIFFE bundle contributes (independently of the code under test): the one
// certificate of every X.509-SVID entry; a bundle with an X.509-SVID entry that does not carry exactly one
// certificate, or without any X.509-SVID entry, is refused as a whole.  JWT-SVID entries (keys for validating
// JWTs) and entries without a use never are X.509 trust roots.
func bundleRoots(keys []bundleKey) ([]string, bool) {
	var roots []string
	for _, k := range keys {
		if k.use != "x509-svid" {
			continue
		}
		if len(k.certs) != 1 {
			return nil, false
		}
		roots = append(roots, k.certs[0])
	}
	return roots, len(roots) > 0
}

type leafSpec struct {
	issuer string
	sans   []string // U:<uri> D:<dns> I:<hex>
	when   string   // ok expired future
	eku    string   // both client server none
}

func parseLeafSpec(tok string) (leafSpec, bool) {
	if tok == "nocert" {
		return leafSpec{}, false
	}
	f := decFields(wire.Dec(tok))
	for len(f) < 4 {
		f = append(f, "")
	}
	return leafSpec{issuer: f[0], sans: wire.DecList(f[1]), when: f[2], eku: f[3]}, true
}

func (l leafSpec) tok() string {
	return wire.Enc(encFields(l.issuer, wire.EncList(l.sans), l.when, l.eku))
}

// clientCert issues the workload certificate described by the spec (a real signature by the issuer's key).
func (f *pkiFixture) clientCert(l leafSpec, ints []string) (*tls.Certificate, error) {
	iss := f.cas[l.issuer]
	if iss == nil {
		return nil, errors.New("unknown issuer " + l.issuer)
	}
	key, err := ecdsa.GenerateKey(elliptic.P256(), rand.Reader)
	if err != nil {
		return nil, err
	}
	now := time.Now()
	f.serial++
	tmpl := &x509.Certificate{SerialNumber: big.NewInt(f.serial), NotBefore: now.Add(-time.Hour), NotAfter: now.Add(time.Hour),
		KeyUsage: x509.KeyUsageDigitalSignature | x509.KeyUsageKeyEncipherment, BasicConstraintsValid: true}
	switch l.when {
	case "expired":
		tmpl.NotBefore, tmpl.NotAfter = now.Add(-2*time.Hour), now.Add(-time.Hour)
	case "future":
		tmpl.NotBefore, tmpl.NotAfter = now.Add(time.Hour), now.Add(2*time.Hour)
	}
	switch l.eku {
	case "both":
		tmpl.ExtKeyUsage = []x509.ExtKeyUsage{x509.ExtKeyUsageServerAuth, x509.ExtKeyUsageClientAuth}
	case "client":
		tmpl.ExtKeyUsage = []x509.ExtKeyUsage{x509.ExtKeyUsageClientAuth}
	case "server":
		tmpl.ExtKeyUsage = []x509.ExtKeyUsage{x509.ExtKeyUsageServerAuth}
	}
	if len(l.sans) > 0 {
		var raw []asn1.RawValue
		for _, e := range l.sans {
			if len(e) < 2 {
				return nil, errors.New("bad san entry")
			}
			tag, val := 2, []byte(e[2:])
			switch e[0] {
			case 'U':
				tag = 6
			case 'I':
				tag = 7
				if val, err = hex.DecodeString(e[2:]); err != nil {
					return nil, err
				}
			}
			raw = append(raw, asn1.RawValue{Class: asn1.ClassContextSpecific, Tag: tag, Bytes: val})
		}
		v, err := asn1.Marshal(raw)
		if err != nil {
			return nil, err
		}
		tmpl.ExtraExtensions = []pkix.Extension{{Id: util.OidSubjectAlternativeName, Critical: true, Value: v}}
	}
	der, err := x509.CreateCertificate(rand.Reader, tmpl, iss.cert, key.Public(), iss.key)
	if err != nil {
		return nil, err
	}
	out := &tls.Certificate{Certificate: [][]byte{der}, PrivateKey: key}
	for _, i := range ints {
		c := f.cas[i]
		if c == nil {
			return nil, errors.New("unknown intermediate " + i)
		}
		out.Certificate = append(out.Certificate, c.cert.Raw)
	}
	return out, nil
}

// handshake runs a real TLS handshake; it returns the server's connection state, or ok=false when the
// server refused the client; bundleErr: the SPIFFE bundle of a federated trust domain was refused (istiod's
// createPeerCertVerifier fails: no server).
func (f *pkiFixture) handshake(pools []string, client *tls.Certificate) (state tls.ConnectionState, ok, bundleErr bool, err error) {
	verifier := spiffe.NewPeerCertVerifier()
	// the registration paths of the real verifier, chosen by the pools' text: AddMapping, AddMappingFromPEM
	// (what istiod's createPeerCertVerifier uses), AddMappings, and AddMappings of what the real
	// RetrieveSpiffeBundleRootCerts fetched from a SPIFFE bundle endpoint (trust domain federation)
	mode := len(strings.Join(pools, ",")) % 4
	merged := map[string][]*x509.Certificate{}
	endpoints := map[string]string{}
	federated := false
	for _, p := range pools {
		if _, roots, _ := strings.Cut(p, "="); strings.HasPrefix(roots, "@") {
			federated = true
		}
	}
	if federated {
		mode = 0 // the plain pools by AddMapping, the federated ones through the bundle endpoint
		if err := f.startBundleServer(); err != nil {
			return state, false, false, err
		}
	}
	for _, p := range pools {
		td, roots, _ := strings.Cut(p, "=")
		if keys, ok := strings.CutPrefix(roots, "@"); ok {
			if _, dup := endpoints[td]; dup {
				return state, false, false, errors.New("two bundle endpoints for one trust domain")
			}
			base := strings.TrimPrefix(f.bundle.URL, "https://")
			switch behaviour, _ := bundleFetch(keys); behaviour {
			case "500":
				endpoints[td] = base + "/e500/" + td
			case "badurl":
				endpoints[td] = "%zz" + base
			case "flaky":
				f.serial++
				endpoints[td] = fmt.Sprintf("%s/flaky/%d/%s", base, f.serial, hex.EncodeToString([]byte(strings.TrimPrefix(strings.TrimPrefix(keys, "!flaky"), ";"))))
			default:
				endpoints[td] = base + "/k/" + hex.EncodeToString([]byte(keys))
			}
			continue
		}
		var certs []*x509.Certificate
		var pemBytes []byte
		for _, r := range strings.Split(roots, "+") {
			if c := f.cas[r]; c != nil {
				certs = append(certs, c.cert)
				pemBytes = append(pemBytes, pem.EncodeToMemory(&pem.Block{Type: "CERTIFICATE", Bytes: c.cert.Raw})...)
			}
		}
		f.modes[[]string{"registration.AddMapping", "registration.AddMappingFromPEM", "registration.AddMappings", "registration.bundle-endpoint+AddMappings"}[mode]]++
		switch mode {
		case 0:
			verifier.AddMapping(td, certs)
		case 1:
			if err := verifier.AddMappingFromPEM(td, pemBytes); err != nil {
				return state, false, false, err
			}
		default:
			merged[td] = append(merged[td], certs...)
		}
	}
	switch {
	case federated:
		pool := x509.NewCertPool()
		pool.AddCert(f.bundle.Certificate())
		f.modes["registration.bundle-endpoint+AddMappings"]++
		// retried with back-off (50 ms, 100 ms, ...): an endpoint that is out of order for good is given up 120 ms after the
		// first attempt; otherwise the budget is generous (a flaky endpoint answers on the first retry) so that a slow
		// machine cannot turn a retry into a failure
		budget := 30 * time.Second
		for _, p := range pools {
			if strings.HasSuffix(p, "=@!500") {
				budget = 120 * time.Millisecond
			}
		}
		fetched, err := spiffe.RetrieveSpiffeBundleRootCerts(endpoints, pool, budget)
		if err != nil {
			if os.Getenv("C09_DEBUG") != "" {
				fmt.Fprintln(os.Stderr, "bundle:", err)
			}
			return state, false, true, nil
		}
		verifier.AddMappings(fetched)
	case mode == 2:
		verifier.AddMappings(merged)
	case mode == 3:
		if len(merged) > 0 {
			if err := f.startBundleServer(); err != nil {
				return state, false, false, err
			}
			for td, certs := range merged {
				var names []string
				for _, c := range certs {
					names = append(names, c.Subject.CommonName)
				}
				endpoints[td] = strings.TrimPrefix(f.bundle.URL, "https://") + "/" + strings.Join(names, "+")
			}
			pool := x509.NewCertPool()
			pool.AddCert(f.bundle.Certificate())
			fetched, err := spiffe.RetrieveSpiffeBundleRootCerts(endpoints, pool, 2*time.Second)
			if err != nil {
				return state, false, false, err
			}
			verifier.AddMappings(fetched)
		}
	}
	// as in pilot/pkg/bootstrap/server.go initSecureDiscoveryService
	scfg := &tls.Config{
		Certificates: []tls.Certificate{f.server},
		ClientAuth:   tls.VerifyClientCertIfGiven,
		ClientCAs:    verifier.GetGeneralCertPool(),
		VerifyPeerCertificate: func(rawCerts [][]byte, verifiedChains [][]*x509.Certificate) error {
			return verifier.VerifyPeerCert(rawCerts, verifiedChains)
		},
		MinVersion:             tls.VersionTLS12,
		SessionTicketsDisabled: true,
	}
	ccfg := &tls.Config{InsecureSkipVerify: true, MinVersion: tls.VersionTLS12} // nolint: gosec
	if client != nil {
		ccfg.GetClientCertificate = func(*tls.CertificateRequestInfo) (*tls.Certificate, error) { return client, nil }
	}
	cc, sc := net.Pipe()
	deadline := time.Now().Add(10 * time.Second)
	_ = cc.SetDeadline(deadline)
	_ = sc.SetDeadline(deadline)
	cli, srv := tls.Client(cc, ccfg), tls.Server(sc, scfg)
	done := make(chan struct{})
	go func() {
		defer close(done)
		if cli.Handshake() == nil {
			_, _ = io.Copy(io.Discard, cli) // pick up the alert of a server that refuses the certificate
		}
	}()
	err = srv.Handshake()
	state = srv.ConnectionState()
	_ = sc.Close()
	_ = cc.Close()
	<-done
	if err != nil {
		var ne net.Error
		if errors.As(err, &ne) && ne.Timeout() {
			return state, false, false, err
		}
		return state, false, false, nil
	}
	return state, true, false, nil
}

// prepareTLSCert fills `p` for an `authn tlscert` line; rejected=true: the handshake was refused.
func (s *authnSUT) prepareTLSCert(f []string, p *prepared) (rejected bool, err error) {
	if len(f) != 5 {
		return false, errors.New("bad tlscert line")
	}
	if s.pki == nil {
		if s.pki, err = newPKIFixture(); err != nil {
			return false, err
		}
	}
	var client *tls.Certificate
	if l, ok := parseLeafSpec(f[3]); ok {
		if client, err = s.pki.clientCert(l, wire.DecList(f[4])); err != nil {
			return false, err
		}
	}
	state, ok, bundleErr, err := s.pki.handshake(wire.DecList(f[2]), client)
	if err != nil {
		return false, err
	}
	if bundleErr {
		p.bundleErr = true
		return true, nil
	}
	if !ok {
		return true, nil
	}
	p.auth = &authenticate.ClientCertAuthenticator{}
	p.authInfo = credentials.TLSInfo{State: state}
	p.httpTLS = &state
	return false, nil
}
