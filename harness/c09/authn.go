package main

// Stream `authn`: the four real authenticators of the CA server, driven through their public
// Authenticate entry points with locally minted credentials:
//
//	<tr> = grpc | http (security.AuthContext with a gRPC context / with an *http.Request)
//	authn oidc <tr> <td> <expected audiences> <hdrform> <tokkind> <sub> <audkind> <aud> <ctor>
//	      ctor: how NewJwtAuthenticator is called - j (JWT rule with jwks_uri) | d (OIDC discovery at the issuer), each with the mesh
//	      watcher; jn | dn: with a NIL mesh watcher, as pilot/pkg/bootstrap RunCA did for TOKEN_ISSUER outside a cluster (fixed)
//	mesh <td>   the trust domain of the mesh config changes: every later line of the case - whatever trust domain its
//	      authenticator was constructed with - must produce identities of THIS trust domain
//	      real NewJwtAuthenticator against an in-process JWKS endpoint; tokens minted with go-jose.
//	      hdrform: nomd (gRPC: the context carries no incoming metadata at all; HTTP: no header) none bearer istio basic bb (Basic, Bearer tok) two (Bearer other, Bearer tok) two2 (Bearer tok, Bearer other); tokkind: garbage expired wrongiss otherkey ok okfloat expiredfloat (fractional exp); audkind: list string absent
//	authn kube <tr> <td> <primary> <aliases a=b,..> <remotes|nil> <clusterid hdr|-> <hdrform> <token> <TokenAudiences> <review>
//	      real NewKubeJWTAuthenticator over fake clientsets whose TokenReview reactor is scripted and
//	      records the submitted Spec (token, audiences) and the cluster asked.
//	      review: apiErr|error|authenticated|groups|username|podNameExtra|podUIDExtra  (extras: "-" absent, else list)
//	authn xfcc <tr> <cidrs> <peer addr|nopeer> <header values|-> <parsed>
//	      real XfccAuthenticator; `parsed` is what the third-party xfccparser returns for the first
//	      EVERY header value, in order (the model takes the parser as given): list of (err | list of uris|dns|hasSubject|cn)
//	authn cert <tr> <peer nopeer|noauth|other|tls|tlspeer (presented, unverified certificates)> <chains>
//	      real ClientCertAuthenticator; chains: list of chains, chain = certs joined by '|',
//	      cert = nosan | bad | san:<entries>, entry = D:<s> U:<s> I:<hex> E:<s>
//
// Output: crash | nil | err | ok ids=<list> kube=<name|ns|uid|sa>, kube lines followed by
// [via=<client> aud=<Spec.Audiences> tok=<Spec.Token>] when a TokenReview was submitted

import (
	"context"
	"crypto/rand"
	"crypto/rsa"
	"crypto/tls"
	"crypto/x509"
	"crypto/x509/pkix"
	"encoding/asn1"
	"encoding/hex"
	"encoding/json"
	"errors"
	"fmt"
	"net/http"
	"net/http/httptest"
	"strings"
	"time"

	"github.com/alecholmes/xfccparser"
	"github.com/go-jose/go-jose/v4"
	"google.golang.org/grpc/credentials"
	"google.golang.org/grpc/metadata"
	"google.golang.org/grpc/peer"
	k8sauth "k8s.io/api/authentication/v1"
	"k8s.io/apimachinery/pkg/runtime"
	"k8s.io/client-go/kubernetes"
	"k8s.io/client-go/kubernetes/fake"
	ktesting "k8s.io/client-go/testing"

	meshconfig "istio.io/api/mesh/v1alpha1"
	"istio.io/api/security/v1beta1"
	"istio.io/istio/pilot/pkg/features"
	"istio.io/istio/pkg/cluster"
	"istio.io/istio/pkg/config/mesh/meshwatcher"
	"istio.io/istio/pkg/security"
	"istio.io/istio/security/pkg/pki/util"
	"istio.io/istio/security/pkg/server/ca/authenticate"
	"istio.io/istio/security/pkg/server/ca/authenticate/kubeauth"
	"verifharness/internal/wire"
)

// ---------------------------------------------------------------- OIDC fixture

type oidcFixture struct {
	srv      *httptest.Server
	key      jose.JSONWebKey
	otherKey jose.JSONWebKey
	auths    map[string]*oidcAuth // by td + audiences
	tokens   map[string]string    // minted tokens by claim content
}

// oidcAuth: a real JwtAuthenticator and the (real, settable) mesh watcher it was constructed with.
type oidcAuth struct {
	auth    *authenticate.JwtAuthenticator
	watcher meshwatcher.TestWatcher
}

func newOIDCFixture() *oidcFixture {
	f := &oidcFixture{auths: map[string]*oidcAuth{}, tokens: map[string]string{}}
	// go-oidc accepts RS256 only unless configured otherwise
	k1, _ := rsa.GenerateKey(rand.Reader, 2048)
	k2, _ := rsa.GenerateKey(rand.Reader, 2048)
	f.key = jose.JSONWebKey{Algorithm: string(jose.RS256), Key: k1, KeyID: "k1"}
	f.otherKey = jose.JSONWebKey{Algorithm: string(jose.RS256), Key: k2, KeyID: "k1"}
	set := jose.JSONWebKeySet{Keys: []jose.JSONWebKey{f.key.Public()}}
	f.srv = httptest.NewServer(http.HandlerFunc(func(w http.ResponseWriter, r *http.Request) {
		if strings.HasSuffix(r.URL.Path, "/.well-known/openid-configuration") {
			// OIDC discovery document (used when the JWT rule has no jwks_uri)
			w.Header().Set("Content-Type", "application/json")
			_ = json.NewEncoder(w).Encode(map[string]any{
				"issuer": f.srv.URL, "jwks_uri": f.srv.URL + "/jwks", "authorization_endpoint": f.srv.URL + "/auth",
				"token_endpoint": f.srv.URL + "/token", "id_token_signing_alg_values_supported": []string{"RS256"},
				"response_types_supported": []string{"id_token"}, "subject_types_supported": []string{"public"},
			})
			return
		}
		_ = json.NewEncoder(w).Encode(set)
	}))
	return f
}

// authenticator returns the authenticator CONSTRUCTED under trust domain `td`; the mesh config it watches then
// says `now` (the same unless a `mesh` op changed the trust domain since).
func (f *oidcFixture) authenticator(td, now string, auds []string, ctor string) (*authenticate.JwtAuthenticator, error) {
	key := ctor + "\x00" + td + "\x00" + strings.Join(auds, "\x00")
	nilHolder := strings.HasSuffix(ctor, "n")
	if a, ok := f.auths[key]; ok {
		if !nilHolder {
			a.watcher.Set(&meshconfig.MeshConfig{TrustDomain: now})
		}
		return a.auth, nil
	}
	rule := &v1beta1.JWTRule{Issuer: f.srv.URL, JwksUri: f.srv.URL, Audiences: auds}
	if strings.HasPrefix(ctor, "d") {
		rule.JwksUri = "" // the other branch of NewJwtAuthenticator: OIDC discovery at the issuer
	}
	if nilHolder {
		a, err := authenticate.NewJwtAuthenticator(rule, nil)
		if err != nil {
			return nil, err
		}
		f.auths[key] = &oidcAuth{auth: a}
		return a, nil
	}
	w := meshwatcher.NewTestWatcher(&meshconfig.MeshConfig{TrustDomain: td})
	a, err := authenticate.NewJwtAuthenticator(rule, w)
	if err != nil {
		return nil, err
	}
	f.auths[key] = &oidcAuth{auth: a, watcher: w}
	w.Set(&meshconfig.MeshConfig{TrustDomain: now})
	return a, nil
}

func (f *oidcFixture) mint(key *jose.JSONWebKey, claims map[string]any) (string, error) {
	signer, err := jose.NewSigner(jose.SigningKey{Algorithm: jose.SignatureAlgorithm(key.Algorithm), Key: key}, nil)
	if err != nil {
		return "", err
	}
	b, _ := json.Marshal(claims)
	sig, err := signer.Sign(b)
	if err != nil {
		return "", err
	}
	return sig.CompactSerialize()
}

func (f *oidcFixture) token(kind, sub, audKind string, aud []string) (string, error) {
	ck := strings.Join(append([]string{kind, sub, audKind}, aud...), "\x00")
	if t, ok := f.tokens[ck]; ok {
		return t, nil
	}
	t, err := f.token0(kind, sub, audKind, aud)
	if err == nil {
		f.tokens[ck] = t
	}
	return t, err
}

func (f *oidcFixture) token0(kind, sub, audKind string, aud []string) (string, error) {
	claims := map[string]any{"iss": f.srv.URL, "exp": time.Now().Add(time.Hour).Unix()}
	if sub != "\x00absent" {
		claims["sub"] = sub
	}
	switch audKind {
	case "list":
		if aud == nil {
			aud = []string{}
		}
		claims["aud"] = aud
	case "string":
		claims["aud"] = strings.Join(aud, " ")
	}
	key := &f.key
	switch kind {
	case "garbage":
		return "not.a.jwt", nil
	case "expired":
		claims["exp"] = time.Now().Add(-time.Hour).Unix()
	case "okfloat":
		// NumericDate may be a non-integer (RFC 7519): the verifier accepts it
		claims["exp"] = float64(time.Now().Add(time.Hour).Unix()) + 0.5
	case "expiredfloat":
		claims["exp"] = float64(time.Now().Add(-time.Hour).Unix()) + 0.5
	case "wrongiss":
		claims["iss"] = "https://other.example.com"
	case "otherkey":
		key = &f.otherKey
	}
	return f.mint(key, claims)
}

// ---------------------------------------------------------------- kube JWT fixture

// meshHolder is a mesh config whose trust domain can change after an authenticator was constructed with it.
type meshHolder struct{ td string }

func (m *meshHolder) Mesh() *meshconfig.MeshConfig { return &meshconfig.MeshConfig{TrustDomain: m.td} }

type reviewSpec struct {
	apiErr        bool
	errMsg        string
	authenticated bool
	groups        []string
	username      string
	podName       string // "-" absent, else list token
	podUID        string
}

func parseReview(tok string) reviewSpec {
	f := decFields(wire.Dec(tok))
	for len(f) < 7 {
		f = append(f, "")
	}
	return reviewSpec{apiErr: f[0] == "1", errMsg: f[1], authenticated: f[2] == "1", groups: wire.DecList(f[3]), username: f[4], podName: f[5], podUID: f[6]}
}

func (r reviewSpec) tok() string {
	return wire.Enc(encFields(wire.B(r.apiErr), r.errMsg, wire.B(r.authenticated), wire.EncList(r.groups), r.username, r.podName, r.podUID))
}

// extraValues decodes an `extra` token: "-" absent, "=" present and empty, "=<list>".
func extraValues(tok string) ([]string, bool) {
	if !strings.HasPrefix(tok, "=") {
		return nil, false
	}
	if tok == "=" {
		return []string{}, true
	}
	return wire.DecList(tok[1:]), true
}

type remoteGetter struct {
	clients map[cluster.ID]kubernetes.Interface
	order   []cluster.ID
}

func (g *remoteGetter) GetRemoteKubeClient(id cluster.ID) kubernetes.Interface {
	if c, ok := g.clients[id]; ok {
		return c
	}
	return nil
}

func (g *remoteGetter) ListClusters() []cluster.ID { return g.order }

// scriptedClient is a fake API server: it authenticates (with the scripted review) only the expected
// token reviewed for the expected audiences; every other review is answered "not authenticated".
func scriptedClient(name string, r reviewSpec, via *string, expTok string, expAud []string) kubernetes.Interface {
	c := fake.NewSimpleClientset()
	c.PrependReactor("create", "tokenreviews", func(action ktesting.Action) (bool, runtime.Object, error) {
		// record what was submitted: which cluster's API server, which token, which audiences
		*via = " via=" + wire.Enc(name)
		if ca, ok := action.(ktesting.CreateAction); ok {
			if in, ok := ca.GetObject().(*k8sauth.TokenReview); ok {
				*via += " aud=" + wire.EncList(in.Spec.Audiences) + " tok=" + wire.Enc(in.Spec.Token)
			}
		}
		if r.apiErr {
			return true, nil, errors.New("api server unavailable")
		}
		if ca, ok := action.(ktesting.CreateAction); ok {
			if in, ok := ca.GetObject().(*k8sauth.TokenReview); ok {
				if in.Spec.Token != expTok || strings.Join(in.Spec.Audiences, "\x00") != strings.Join(expAud, "\x00") {
					return true, &k8sauth.TokenReview{}, nil
				}
			}
		}
		tr := &k8sauth.TokenReview{}
		tr.Status.Error = r.errMsg
		tr.Status.Authenticated = r.authenticated
		tr.Status.User = k8sauth.UserInfo{Username: r.username, Groups: r.groups, Extra: map[string]k8sauth.ExtraValue{}}
		if v, ok := extraValues(r.podName); ok {
			tr.Status.User.Extra["authentication.kubernetes.io/pod-name"] = v
		}
		if v, ok := extraValues(r.podUID); ok {
			tr.Status.User.Extra["authentication.kubernetes.io/pod-uid"] = v
		}
		return true, tr, nil
	})
	return c
}

// ---------------------------------------------------------------- XFCC / client certificate helpers

type textAddr string

func (a textAddr) Network() string { return "tcp" }
func (a textAddr) String() string  { return string(a) }

type otherAuthInfo struct{}

func (otherAuthInfo) AuthType() string { return "alts" }

// parsedXFCC renders what the third-party parser returns for a header value.
func parsedXFCC(h string) string {
	certs, err := xfccparser.ParseXFCCHeader(h)
	if err != nil {
		return "err"
	}
	var elems []string
	for _, c := range certs {
		subj, cn := "0", ""
		if c.Subject != nil {
			subj, cn = "1", c.Subject.CommonName
		}
		elems = append(elems, encFields(wire.EncList(c.URI), wire.EncList(c.DNS), subj, cn))
	}
	return wire.EncList(elems)
}

func certFromSpec(spec string) (*x509.Certificate, error) {
	c := &x509.Certificate{}
	switch {
	case spec == "nosan":
		c.Extensions = []pkix.Extension{{Id: oidKeyUsage, Value: []byte{3, 2, 5, 160}}}
	case spec == "bad":
		c.Extensions = []pkix.Extension{{Id: oidSAN, Value: []byte{0x30, 0x05, 0x82}}}
	case strings.HasPrefix(spec, "san:"):
		var raw []asn1.RawValue
		for _, e := range wire.DecList(spec[4:]) {
			if len(e) < 2 {
				return nil, errors.New("bad entry")
			}
			tag, val := 2, []byte(e[2:])
			switch e[0] {
			case 'U':
				tag = 6
			case 'E':
				tag = 1
			case 'I':
				tag = 7
				b, err := hex.DecodeString(e[2:])
				if err != nil {
					return nil, err
				}
				val = b
			}
			raw = append(raw, asn1.RawValue{Class: asn1.ClassContextSpecific, Tag: tag, Bytes: val})
		}
		v, err := asn1.Marshal(raw)
		if err != nil {
			return nil, err
		}
		c.Extensions = []pkix.Extension{{Id: oidKeyUsage, Value: []byte{3, 2, 5, 160}}, {Id: util.OidSubjectAlternativeName, Critical: true, Value: v}}
	default:
		return nil, errors.New("bad cert spec")
	}
	return c, nil
}

func chainsFromTok(tok string) ([][]*x509.Certificate, error) {
	chains := [][]*x509.Certificate{}
	for _, ch := range wire.DecList(tok) {
		chain := []*x509.Certificate{}
		if ch != "" {
			for _, cs := range strings.Split(ch, "|") {
				c, err := certFromSpec(wire.Dec(cs))
				if err != nil {
					return nil, err
				}
				chain = append(chain, c)
			}
		}
		chains = append(chains, chain)
	}
	return chains, nil
}

// ---------------------------------------------------------------- SUT

type authnSUT struct {
	oidc *oidcFixture
	pki  *pkiFixture
	mesh *string // the trust domain a `mesh` op of the current case set (nil: none yet)
}

// tdNow: the trust domain of the mesh config at the time of the request.
func (s *authnSUT) tdNow(constructed string) string {
	if s.mesh != nil {
		return *s.mesh
	}
	return constructed
}

func newAuthnSUT() *authnSUT { return &authnSUT{} }

type authnResult struct {
	bundleErr bool // the SPIFFE bundle of a federated trust domain was refused: istiod does not start
	rejected  bool // the TLS handshake was refused: there is no request
	crash     bool
	caller    *security.Caller
	err       error
	via       string
	fixErr    error
}

func (r authnResult) format() string {
	switch {
	case r.fixErr != nil:
		return "fixture-failed " + wire.Enc(r.fixErr.Error())
	case r.bundleErr:
		return "bundle-err"
	case r.rejected:
		return "reject"
	case r.crash:
		return "crash"
	case r.err != nil:
		return "err" + r.via
	case r.caller == nil:
		return "nil"
	}
	k := r.caller.KubernetesInfo
	return fmt.Sprintf("ok ids=%s kube=%s%s", wire.EncList(r.caller.Identities),
		wire.Enc(encFields(k.PodName, k.PodNamespace, k.PodUID, k.PodServiceAccount)), r.via)
}

// prepared is a real authenticator plus the transport-level ingredients of the request it is to see.
type prepared struct {
	bundleErr bool
	rejected  bool
	auth      security.Authenticator
	http      bool
	noMD      bool        // gRPC: no incoming metadata attached to the context
	md        metadata.MD // gRPC metadata / HTTP headers
	hasPeer   bool
	peerAddr  string
	authInfo  credentials.AuthInfo // nil: peer without auth info
	httpTLS   *tls.ConnectionState
	via       *string
}

// authValues: the `authorization` values of a header form; `other` is a second, invalid token.
func authValues(form, tok, other string) []string {
	switch form {
	case "bearer":
		return []string{"Bearer " + tok}
	case "istio":
		return []string{"Istio " + tok}
	case "basic":
		return []string{"Basic dXNlcjpwYXNz"}
	case "bb":
		return []string{"Basic dXNlcjpwYXNz", "Bearer " + tok}
	case "two":
		return []string{"Bearer " + other, "Bearer " + tok}
	case "two2":
		return []string{"Bearer " + tok, "Bearer " + other}
	}
	return nil
}

// parsedXFCCAll renders the third-party parse of every header value, in order.
func parsedXFCCAll(hs []string) string {
	var l []string
	for _, h := range hs {
		l = append(l, parsedXFCC(h))
	}
	return wire.EncList(l)
}

// prepare builds the REAL authenticator described by an `authn` line (f[0] is the kind).
func (s *authnSUT) prepare(f []string) (*prepared, error) {
	if len(f) < 2 {
		return nil, errors.New("short line")
	}
	p := &prepared{http: f[1] == "http", md: metadata.MD{}, hasPeer: true, peerAddr: "10.0.0.9:1234", authInfo: credentials.TLSInfo{}, via: new(string)}
	switch f[0] {
	case "oidc":
		if len(f) != 10 || (f[9] != "j" && f[9] != "d" && f[9] != "jn" && f[9] != "dn") {
			return nil, errors.New("bad oidc line")
		}
		if s.oidc == nil {
			s.oidc = newOIDCFixture()
		}
		a, err := s.oidc.authenticator(wire.Dec(f[2]), s.tdNow(wire.Dec(f[2])), wire.DecList(f[3]), f[9])
		if err != nil {
			return nil, err
		}
		p.auth = a
		sub := wire.Dec(f[6])
		if f[6] == "absent" {
			sub = "\x00absent"
		}
		tok, err := s.oidc.token(f[5], sub, f[7], wire.DecList(f[8]))
		if err != nil {
			return nil, err
		}
		other, err := s.oidc.token("otherkey", "system:serviceaccount:kube-system:admin", "list", wire.DecList(f[3]))
		if err != nil {
			return nil, err
		}
		if v := authValues(f[4], tok, other); v != nil {
			p.md["authorization"] = v
		}
		p.noMD = f[4] == "nomd"
	case "kube":
		if len(f) != 11 {
			return nil, errors.New("bad kube line")
		}
		review := parseReview(f[10])
		aliases := map[string]string{}
		for _, a := range wire.DecList(f[4]) {
			k, v, _ := strings.Cut(a, "=")
			aliases[k] = v
		}
		var getter kubeauth.RemoteKubeClientGetter
		if f[5] != "nil" {
			g := &remoteGetter{clients: map[cluster.ID]kubernetes.Interface{}}
			for _, id := range wire.DecList(f[5]) {
				g.clients[cluster.ID(id)] = scriptedClient("remote:"+id, review, p.via, wire.Dec(f[8]), wire.DecList(f[9]))
				g.order = append(g.order, cluster.ID(id))
			}
			getter = g
		}
		security.TokenAudiences = wire.DecList(f[9])
		holder := &meshHolder{td: wire.Dec(f[2])}
		p.auth = kubeauth.NewKubeJWTAuthenticator(holder, scriptedClient("primary", review, p.via, wire.Dec(f[8]), wire.DecList(f[9])), cluster.ID(wire.Dec(f[3])), aliases, getter)
		holder.td = s.tdNow(holder.td) // the mesh config may have changed since the authenticator was constructed
		if f[6] != "-" {
			p.md["clusterid"] = wire.DecList(f[6])
		}
		if v := authValues(f[7], wire.Dec(f[8]), "other-token"); v != nil {
			p.md["authorization"] = v
		}
		if p.noMD = f[7] == "nomd"; p.noMD {
			delete(p.md, "clusterid")
		}
	case "xfcc":
		if len(f) != 6 {
			return nil, errors.New("bad xfcc line")
		}
		features.TrustedGatewayCIDR = wire.DecList(f[2])
		if features.TrustedGatewayCIDR == nil {
			features.TrustedGatewayCIDR = []string{}
		}
		p.auth = authenticate.XfccAuthenticator{}
		if f[3] == "nopeer" {
			p.hasPeer, p.peerAddr = false, ""
		} else {
			p.peerAddr = wire.Dec(f[3])
		}
		if f[4] != "-" {
			p.md[xfccparser.ForwardedClientCertHeader] = wire.DecList(f[4])
		}
	case "cert":
		if len(f) != 4 {
			return nil, errors.New("bad cert line")
		}
		p.auth = &authenticate.ClientCertAuthenticator{}
		switch f[2] {
		case "nopeer":
			p.hasPeer, p.authInfo = false, nil
		case "noauth":
			p.authInfo = nil
		case "other":
			p.authInfo = otherAuthInfo{}
		case "tls", "tlspeer":
			chains, err := chainsFromTok(f[3])
			if err != nil {
				return nil, err
			}
			st := tls.ConnectionState{VerifiedChains: chains}
			if f[2] == "tlspeer" {
				// certificates were presented but not verified (ClientAuth = RequestClientCert /
				// RequireAnyClientCert): PeerCertificates set, VerifiedChains empty
				st = tls.ConnectionState{}
				if len(chains) > 0 {
					st.PeerCertificates = chains[0]
				}
			}
			p.authInfo = credentials.TLSInfo{State: st}
			p.httpTLS = &st
		}
	case "tlscert":
		rej, err := s.prepareTLSCert(f, p)
		if err != nil {
			return nil, err
		}
		p.rejected = rej || p.bundleErr
	default:
		return nil, errors.New("unknown authenticator " + f[0])
	}
	return p, nil
}

// grpcContext is the request context the gRPC server would hand to CreateCertificate.
func (p *prepared) grpcContext() context.Context {
	ctx := context.Background()
	if p.hasPeer {
		ctx = peer.NewContext(ctx, &peer.Peer{Addr: textAddr(p.peerAddr), AuthInfo: p.authInfo})
	}
	if p.noMD {
		return ctx
	}
	return metadata.NewIncomingContext(ctx, p.md)
}

func (p *prepared) authContext() security.AuthContext {
	if !p.http {
		return security.AuthContext{GrpcContext: p.grpcContext()}
	}
	req := &http.Request{Header: http.Header{}, RemoteAddr: p.peerAddr, TLS: p.httpTLS}
	for k, vs := range p.md {
		for _, v := range vs {
			req.Header.Add(k, v)
		}
	}
	return security.AuthContext{Request: req}
}

func (s *authnSUT) run(f []string) (res authnResult) {
	defer func() {
		if rec := recover(); rec != nil {
			res = authnResult{crash: true}
		}
	}()
	p, err := s.prepare(f[1:])
	if err != nil {
		return authnResult{fixErr: err}
	}
	if p.rejected {
		return authnResult{rejected: true, bundleErr: p.bundleErr}
	}
	c, err := p.auth.Authenticate(p.authContext())
	return authnResult{caller: c, err: err, via: *p.via}
}

func (s *authnSUT) apply(f []string) string {
	switch f[0] {
	case "case":
		s.mesh = nil
		return "ok"
	case "mesh":
		if len(f) != 2 {
			return "bad-op"
		}
		td := wire.Dec(f[1])
		s.mesh = &td
		return "mesh-ok"
	case "authn":
		return s.run(f).format()
	}
	return "bad-op"
}
