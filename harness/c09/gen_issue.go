package main

import (
	"strconv"
	"strings"
	"time"

	"istio.io/istio/pkg/security"
	"verifharness/internal/wire"
)

// ---------------------------------------------------------------- generator for stream `issue`

const int1Life = int64(20 * 365 * 24 * 3600)

var (
	genTDs   = []string{"cluster.local", "td2.example"}
	genNSs   = []string{"a", "c", "istio-system"}
	genSAs   = []string{"b", "d", "ztunnel"}
	genNodes = []string{"n1", "n2"}

	dnsIDs = []string{"foo.example.com", "x", "*.wild.com", "", "UPPER.case", "héllo.com", "a b", "spiffe:/x", "spiffe//y", "SPIFFE://x/ns/a/sa/b"}
	ipIDs  = []string{"10.0.0.1", "1.2.3.4", "255.255.255.255", "0.0.0.0", "::1", "::", "::ffff:1.2.3.4", "fe80::1%eth0", "2001:db8::68",
		"1:2:3:4:5:6:7:8", "1:2:3:4:5:6:7.8.9.10", "::1.2.3.4", "1:2:3:4:5:6:7::", "::2:3:4:5:6:7:8", "ABCD:ef01::", "1::%z"}
	nearIPs = []string{"256.1.1.1", "01.2.3.4", "1.2.3", "1.2.3.4.5", "1..2.3", ":::", "1::2::3", "12345::", "1:2:3:4:5:6:7:8:9", "::%",
		"%eth0", "1.2.3.4%eth0", "g::1", "::ffff:1.2.3.256", "1:2:3:4:5:6:7:8::", "::1:2:3:4:5:6:7:8", "0x1.2.3.4", "1.2.3.4.", ".1.2.3",
		"1:2:3:4:5:6:7", "1:2:3:4:5:6:7:", ":1:2:3:4:5:6:7:8", "1:2:3:4:5.6.7.8", "1:2:3:4:5:6:7:8.9.10.11", "1.2.3.-4", "1:2", "1.2:3", "00.0.0.0", "1.2.3.04",
		"::00001", "::fffff", "1:2:3:4:5:6:1.2.3", "::1.2.3.4.5", "1::2.3.4.5:6"}
	commaIDs = []string{"a,b", "spiffe://cluster.local/ns/a/sa/b,evil.com", ",", "a,", ",10.0.0.1", "spiffe://x,spiffe://y"}
	longID   = "spiffe://cluster.local/ns/a/sa/" + strings.Repeat("s", 64)
	id64     = "spiffe://cluster.local/ns/a/sa/" + strings.Repeat("s", 64-31)
	id65     = "spiffe://cluster.local/ns/a/sa/" + strings.Repeat("s", 65-31)
)

func genSpiffe(r *wire.Rng) string {
	return "spiffe://" + wire.Pick(r, genTDs) + "/ns/" + wire.Pick(r, genNSs) + "/sa/" + wire.Pick(r, genSAs)
}

// random string over an alphabet that makes netip.ParseAddr interesting
func genAddrish(r *wire.Rng) string {
	alpha := []string{"0", "1", "2", "5", "9", "a", "f", "F", "g", ":", ":", ".", ".", "%", "::", "255", "ffff", "1.2.3.4"}
	n := 1 + r.Intn(9)
	var b strings.Builder
	for i := 0; i < n; i++ {
		b.WriteString(wire.Pick(r, alpha))
	}
	return b.String()
}

func genIdentity(r *wire.Rng) string {
	switch r.Intn(20) {
	case 0, 1, 2, 3, 4, 5, 6, 7:
		return genSpiffe(r)
	case 8, 9:
		return wire.Pick(r, dnsIDs)
	case 10, 11:
		return wire.Pick(r, ipIDs)
	case 12, 13:
		return wire.Pick(r, nearIPs)
	case 14, 15, 16:
		return genAddrish(r)
	case 17:
		return wire.Pick(r, commaIDs)
	case 18:
		return wire.Pick(r, []string{longID, id64, id65})
	default:
		return genSpiffe(r) + wire.Pick(r, []string{"/", "/x", "?q=1", "#f", " ", "%"})
	}
}

type genWorld struct {
	line    []string
	trusted []string
	ids     []string
	pods    map[string][]podSpec
}

func genWorlds(r *wire.Rng, n int) []genWorld {
	ws := []genWorld{{line: []string{"na", "-"}}}
	for len(ws) < n {
		var trusted []string
		switch r.Intn(10) {
		case 0:
			trusted = nil // configured but empty: New() installs no authorizer
		case 1:
			trusted = []string{"istio-system/ztunnel", "a/b"}
		default:
			trusted = []string{"istio-system/ztunnel"}
		}
		w := genWorld{trusted: trusted, pods: map[string][]podSpec{}}
		ncl := 1 + r.Intn(2)
		uid := 0
		for c := 0; c < ncl; c++ {
			id := []string{"c1", "c2"}[c]
			w.ids = append(w.ids, id)
			var pods []podSpec
			seen := map[string]bool{}
			add := func(p podSpec) {
				if seen[p.ns+"/"+p.name] {
					return
				}
				seen[p.ns+"/"+p.name] = true
				uid++
				if p.uid == "" {
					p.uid = "u" + strconv.Itoa(uid)
				}
				pods = append(pods, p)
			}
			// node proxies
			for i, node := range genNodes {
				if r.Chance(4, 5) {
					sa := "ztunnel"
					if r.Chance(1, 8) {
						sa = "other"
					}
					n := node
					if r.Chance(1, 10) {
						n = ""
					}
					add(podSpec{name: "zt" + strconv.Itoa(i+1), ns: "istio-system", sa: sa, node: n})
				}
			}
			if r.Chance(1, 2) {
				add(podSpec{name: "ztx", ns: "istio-system", sa: "other", node: wire.Pick(r, genNodes)})
			}
			if r.Chance(1, 3) {
				// a pod with the NAME of a node proxy in another namespace (another account, possibly another node): the
				// caller's pod is found by namespace AND name
				add(podSpec{name: wire.Pick(r, []string{"zt1", "zt2"}), ns: wire.Pick(r, []string{"a", "c"}), sa: wire.Pick(r, []string{"ztunnel", "b"}), node: wire.Pick(r, genNodes)})
			}
			np := 2 + r.Intn(7)
			for i := 0; i < np; i++ {
				p := podSpec{name: "p" + strconv.Itoa(i%5), ns: wire.Pick(r, genNSs), sa: wire.Pick(r, genSAs), node: wire.Pick(r, genNodes)}
				if r.Chance(1, 10) {
					p.sa = ""
				}
				if r.Chance(1, 10) {
					p.node = ""
				}
				switch r.Intn(16) {
				case 0, 1:
					p.phase = "F"
				case 2:
					p.phase = "S" // completed pods still pass the informer's selector (status.phase!=Failed)
				case 3:
					p.phase = "P"
				}
				add(p)
			}
			w.pods[id] = pods
		}
		w.line = []string{"na", wire.EncList(trusted), strconv.Itoa(len(w.ids))}
		for _, id := range w.ids {
			w.line = append(w.line, wire.Enc(id), encPods(w.pods[id]))
		}
		if r.Chance(1, 5) {
			// discovery selectors: a namespace the control plane does not watch
			w.line = append(w.line, "hide", wire.EncList([]string{wire.Pick(r, []string{"a", "c", "istio-system"})}))
		}
		ws = append(ws, w)
	}
	return ws
}

type genCA struct {
	noRoot     bool
	kind       string
	life       int64 // 0 with signer none
	hasSigner  bool
	chain      []int64
	def, max   int64
	expectFail bool
	staleCap   bool // see defaultDeterministic
}

func (c genCA) line() []string {
	signer := "none"
	if c.hasSigner {
		signer = strconv.FormatInt(c.life, 10)
	}
	var ch []string
	for _, l := range c.chain {
		ch = append(ch, strconv.FormatInt(l, 10))
	}
	chain := "-"
	if len(ch) > 0 {
		chain = strings.Join(ch, ",")
	}
	root := "1"
	if c.noRoot {
		root = "0"
	}
	return []string{"ca", c.kind, signer, chain, root, strconv.FormatInt(c.def, 10), strconv.FormatInt(c.max, 10)}
}

func genCAConfig(r *wire.Rng) genCA {
	c := genCA{hasSigner: true}
	switch r.Intn(24) {
	case 19:
		c.kind = "future"
		c.life = wire.Pick(r, []int64{7200, 30 * 86400})
	case 20, 21:
		c.kind = "plugfile"
		if r.Chance(1, 6) {
			c.kind, c.expectFail = "plugfilenotca", true // refused by NewPluggedCertIstioCAOptions: every request is answered no-ca
		}
		c.life = wire.Pick(r, []int64{3600, 7200, 30 * 86400})
		c.chain = []int64{c.life}
	case 22:
		c.kind, c.life = "selfk8s", farLife
		if r.Chance(1, 2) {
			// the self-signed CA as istiod runs it: root-cert rotator started, a rootCertFile with a further root
			c.kind, c.life = "selfrot", wire.Pick(r, []int64{7200, 30 * 86400})
		}
	case 23:
		c.kind, c.life = "plugrsa", farLife
		c.chain = []int64{farLife}
	case 16:
		c.kind, c.noRoot = "noroot", true
		c.life = wire.Pick(r, []int64{7200, 30 * 86400})
		c.chain = []int64{c.life}
	case 17, 18:
		// chain head expires before the signer: minTTL's cap on the default TTL is what bounds a defaulted lifetime
		c.kind = "capchain"
		c.life = 30 * 86400
		c.chain = []int64{wire.Pick(r, []int64{7200, 14400}), c.life}
	case 0, 1, 2, 3:
		c.kind, c.life = "self", farLife
	case 4, 5, 6, 7, 8:
		c.kind = "plug"
		c.life = wire.Pick(r, []int64{3600, 7200, 30 * 86400, farLife})
		c.chain = []int64{c.life}
	case 9, 10, 11:
		c.kind = "plug2"
		c.life = wire.Pick(r, []int64{3600, 7200, 30 * 86400})
		c.chain = []int64{c.life, int1Life}
	case 12:
		c.kind, c.hasSigner = "nosigner", false
	case 13, 14:
		c.kind = "expired"
		c.life = wire.Pick(r, []int64{-3600, -120})
	default:
		c.kind = "expiredchain"
		c.life = -3600
		c.chain = []int64{-3600}
	}
	c.def = wire.Pick(r, []int64{600, 1800, 3600, 86400})
	c.max = wire.Pick(r, []int64{3600, 86400, 90 * 86400})
	if r.Chance(1, 10) {
		c.def = c.max * 2 // misconfiguration: default above max
	}
	if r.Chance(1, 40) {
		c.max = 0 // a zero maximum: every positive request is refused, a defaulted lifetime is capped to nothing
	}
	return c
}

// wrapNs is the Go arithmetic of `time.Duration(v) * time.Second`.
func wrapNs(v int64) int64 { return int64(time.Duration(v) * time.Second) }

// ttlDeterministic rejects requested TTLs whose observable outcome depends on sub-minute timing:
// a lifetime that is not a whole number of seconds, or one that ends within two minutes before the
// signer's expiry.
func ttlDeterministic(v int64, c genCA) bool {
	ns := wrapNs(v)
	if ns <= 0 {
		return defaultDeterministic(c)
	}
	if ns > c.max*int64(time.Second) {
		return true // rejected with a TTL error
	}
	if ns%int64(time.Second) != 0 {
		// a lifetime that is no whole number of seconds: only below one microsecond (reachable through the int64 wrap of
		// ValidityDuration*1e9) is the observable outcome - a certificate of lifetime zero - independent of the clock
		return ns < 1000 && defaultDeterministic(c) && c.max > 0
	}
	s := ns / int64(time.Second)
	return !nearBoundary(s, c)
}

// nearBoundary: a lifetime within two minutes of the signer's (or the chain head's) remaining life.
func nearBoundary(s int64, c genCA) bool {
	if c.hasSigner && c.life > 0 && s > c.life-120 && s < c.life {
		return true
	}
	if c.kind == "capchain" && s > c.chain[0]-120 && s < c.chain[0]+120 {
		return true
	}
	return false
}

func defaultDeterministic(c genCA) bool {
	if c.staleCap {
		// the default TTL was capped at construction to the REMAINING life of a chain head that has been replaced since: a
		// few milliseconds short of a whole number of seconds, which shows once nothing clamps it any more
		return false
	}
	d := c.def
	if d > c.max {
		d = c.max // sign() caps a defaulted lifetime at the maximum
	}
	if c.kind == "capchain" && c.def >= c.chain[0] {
		return true // capped by minTTL: observed as `chaincap`
	}
	return !nearBoundary(d, c)
}

func genTTL(r *wire.Rng, c genCA) int64 {
	for {
		var v int64
		switch r.Intn(24) {
		case 0:
			v = -(1 << 40)
		case 1:
			v = -1
		case 2:
			v = 0
		case 3:
			// just beyond the signer's expiry: always clamped (the certificate must end exactly there)
			v = c.life + wire.Pick(r, []int64{1, 30, 119})
		case 4:
			v = wire.Pick(r, []int64{0, 1})
		case 5:
			v = 60
		case 6:
			v = c.life / 2
		case 7:
			v = c.life - 120
		case 8:
			v = c.life
		case 9:
			v = c.life + 120
		case 10:
			v = c.max - 1
		case 11:
			v = c.max
		case 12:
			v = c.max + 1
		case 13:
			v = 2 * c.max
		case 14:
			v = (1 << 55) + 600
		case 15:
			v = -(1 << 55) + 600
		case 16:
			v = (1 << 55) - 5
		case 17:
			v = 1 << 62
		case 18:
			v = 9223372036
		case 19:
			v = 9223372037
		case 20:
			v = 1<<63 - 1
		case 21:
			v = -(1 << 63)
		case 22:
			v = int64(r.Next())
			if r.Chance(1, 2) {
				// ValidityDuration * 1e9 wraps (mod 2^64) to 512 ns / 1024 ns: a positive lifetime below one second
				v = wire.Pick(r, []int64{20211507185753197, 40423014371506394})
			}
		default:
			v = wire.Pick(r, []int64{300, 600, 1800, 3000})
		}
		if ttlDeterministic(v, c) {
			return v
		}
	}
}

func genCSR(r *wire.Rng) csrSpec {
	c := csrSpec{form: "ok", key: wire.Pick(r, keyNames)}
	if r.Chance(1, 5) {
		c.form = wire.Pick(r, []string{"oktype", "oktrail", "oklead", "oktype", "oktrail", "oklead", "nopem", "empty", "badder", "trunc", "badsig", "emptyblock"})
	}
	if r.Chance(2, 3) {
		c.key = wire.Pick(r, []string{"ec256-a", "ec256-b", "ec384", "ec521", "ed25519"}) // keep RSA signing rare (speed)
	}
	if c.key == "rsa1024" && !r.Chance(1, 3) {
		c.key = "ec256-a"
	}
	c.cn = wire.Pick(r, []string{"", "", "x", "evil.example.com", "spiffe://cluster.local/ns/kube-system/sa/admin", strings.Repeat("c", 64)})
	c.org = wire.Pick(r, []string{"", "Evil Corp"})
	if r.Chance(1, 2) {
		c.sans = []string{wire.Pick(r, []string{"spiffe://cluster.local/ns/kube-system/sa/admin", "evil.example.com", "10.6.6.6"})}
		if r.Chance(1, 3) {
			c.sans = append(c.sans, genSpiffe(r))
		}
	}
	c.ca = r.Chance(1, 3)
	c.extra = r.Chance(1, 4)
	if r.Chance(1, 10) {
		// a corrupted byte anywhere, several PEM blocks, an RSA-PSS proof of possession, a key type Go does not know
		c.form = wire.Pick(r, []string{"flip" + strconv.Itoa(r.Intn(64)), "flip" + strconv.Itoa(r.Intn(64)), "multi", "multibad", "pss", "unkkey"})
		if c.form == "pss" && !r.Chance(1, 4) {
			c.form = "multi" // keep RSA signing rare (speed)
		}
	}
	if c.form == "ok" && r.Chance(1, 6) {
		// what a real agent sends: util.GenCSR
		c.form, c.ca = "gen", false
		if c.key == "rsa-a" || c.key == "rsa-b" {
			c.key = "ec256-a"
			if r.Chance(1, 30) {
				c.key = "rsa-a"
			}
		}
	}
	return c
}

func genOutcomes(r *wire.Rng, w genWorld) []authOutcome {
	n := 1
	if r.Chance(1, 4) {
		n = 2 + r.Intn(2)
	}
	if r.Chance(1, 25) {
		n = 0
	}
	var out []authOutcome
	for i := 0; i < n; i++ {
		o := authOutcome{kind: "ok"}
		switch r.Intn(20) {
		case 0:
			o.kind = "nil"
		case 1, 2:
			o.kind = "err"
		case 3:
			o.kind = "both"
		}
		k := 1
		if r.Chance(1, 4) {
			k = 2 + r.Intn(2)
		}
		if r.Chance(1, 20) {
			k = 0
		}
		for j := 0; j < k; j++ {
			o.ids = append(o.ids, genIdentity(r))
		}
		o.kube = genKube(r, w)
		out = append(out, o)
	}
	return out
}

// genKube picks caller pod information: mostly a real pod of the world, sometimes off by one field.
func genKube(r *wire.Rng, w genWorld) (k security.KubernetesInfo) {
	var all []podSpec
	for _, id := range w.ids {
		all = append(all, w.pods[id]...)
	}
	if len(all) == 0 || r.Chance(1, 10) {
		return kinfo("zt1", "istio-system", "u1", "ztunnel")
	}
	p := wire.Pick(r, all)
	if r.Chance(2, 3) {
		// prefer node proxies
		for _, q := range all {
			if strings.HasPrefix(q.name, "zt") && r.Chance(1, 2) {
				p = q
				break
			}
		}
	}
	k = kinfo(p.name, p.ns, p.uid, p.sa)
	switch r.Intn(15) {
	case 14:
		k.PodUID = "" // e.g. a TokenReview without the pod-uid extra
	case 0:
		k.PodUID = "stale-uid"
	case 1:
		k.PodServiceAccount = "ztunnel" // claims the trusted account
	case 2:
		k.PodName = "ghost"
	case 3:
		k.PodNamespace = "a"
	}
	return k
}

func genImpersonation(r *wire.Rng, w genWorld) string {
	var all []podSpec
	for _, id := range w.ids {
		all = append(all, w.pods[id]...)
	}
	s := func(v string) string { return "s:" + wire.Enc(v) }
	switch r.Intn(16) {
	case 0:
		return wire.Pick(r, []string{"n", "l", "o", "b", "z"}) // number, list, struct, bool, null: not a string, so no impersonation
	case 1:
		return s(wire.Pick(r, []string{"spiffe://cluster.local/ns/a", "spiffe://cluster.local/ns/a/sa/b/extra", "spiffe://cluster.local/xx/a/sa/b",
			"a.b", "spiffe://cluster.local/ns//sa/", "spiffe:/cluster.local/ns/a/sa/b", "cluster.local/ns/a/sa/b", "spiffe://", "spiffe:////"}))
	case 2:
		return s("spiffe://evil," + wire.Pick(r, []string{"victim.example.com", "10.0.0.1", "spiffe://cluster.local/ns/kube-system"}) + ",x/ns/" +
			wire.Pick(r, genNSs) + "/sa/" + wire.Pick(r, genSAs))
	case 3:
		return s("spiffe://" + wire.Pick(r, []string{"other.td", "other.td", ""}) + "/ns/" + wire.Pick(r, genNSs) + "/sa/" + wire.Pick(r, genSAs))
	case 4:
		return s(genIdentity(r))
	}
	if len(all) > 0 && r.Chance(3, 4) {
		p := wire.Pick(r, all)
		return s("spiffe://" + wire.Pick(r, genTDs) + "/ns/" + p.ns + "/sa/" + p.sa)
	}
	return s(genSpiffe(r))
}

// genGoodImpersonation rewrites the request into one that satisfies the whole gate (when the world
// allows it), then perturbs one ingredient with probability 1/3.
func genGoodImpersonation(r *wire.Rng, w genWorld, q *reqSpec) {
	id := wire.Pick(r, w.ids)
	pods := w.pods[id]
	var proxies []podSpec
	for _, p := range pods {
		for _, t := range w.trusted {
			if t == p.ns+"/"+p.sa && p.node != "" {
				proxies = append(proxies, p)
			}
		}
	}
	if len(proxies) == 0 {
		return
	}
	zt := wire.Pick(r, proxies)
	var targets []podSpec
	for _, p := range pods {
		if p.node == zt.node && p.sa != "" {
			targets = append(targets, p)
		}
	}
	tgt := wire.Pick(r, targets)
	o := authOutcome{kind: "ok", ids: []string{"spiffe://cluster.local/ns/" + zt.ns + "/sa/" + zt.sa}, kube: kinfo(zt.name, zt.ns, zt.uid, zt.sa)}
	imp := "spiffe://" + wire.Pick(r, genTDs) + "/ns/" + tgt.ns + "/sa/" + tgt.sa
	if r.Chance(1, 25) {
		imp = "spiffe:///ns/" + tgt.ns + "/sa/" + tgt.sa // an EMPTY trust domain: the gate does not look at it (the known class)
	}
	q.cluster = wire.EncList([]string{id})
	switch r.Intn(23) {
	case 21, 22:
		// a decorated spelling of the on-node identity: the gate must judge exactly the string that is issued
		switch r.Intn(9) {
		case 0:
			imp += " "
		case 1:
			imp = " " + imp
		case 2:
			imp += "/"
		case 3:
			imp = strings.Replace(imp, "spiffe://", "SPIFFE://", 1)
		case 4:
			imp = strings.Replace(imp, "/ns/", "/NS/", 1)
		case 5:
			imp = strings.Replace(imp, "/sa/", "/sa/%2E%2E/sa/", 1)
		case 6:
			imp += "\t"
		case 7:
			imp = strings.Replace(imp, "/ns/", "//ns/", 1)
		case 8:
			imp += "%20"
		}
	case 16, 17:
		// the UID of the pod that has the caller's NAME in another namespace (and runs as the same account), asking for a
		// workload on THAT pod's node: the caller's pod is the one in the caller's namespace, whose UID does not match
		for _, p := range pods {
			if p.name == zt.name && p.ns != zt.ns && p.sa == zt.sa && !p.failed() {
				o.kube.PodUID = p.uid
				for _, t := range pods {
					if t.node == p.node && t.sa != "" && t.node != "" && !t.failed() {
						imp = "spiffe://cluster.local/ns/" + t.ns + "/sa/" + t.sa
					}
				}
				break
			}
		}
	case 18:
		o.kube.PodUID = "" // valid pod name, no UID presented
	case 19, 20:
		// the claimed (trusted) account is not the account the named pod runs as: a pod of the same
		// namespace with another service account, everything else in place (only the SA check refuses)
		for _, p := range pods {
			if p.ns == zt.ns && p.sa != zt.sa && !p.failed() {
				o.kube = kinfo(p.name, p.ns, p.uid, zt.sa)
				for _, t := range pods {
					if t.node == p.node && t.sa != "" && t.node != "" && !t.failed() {
						imp = "spiffe://cluster.local/ns/" + t.ns + "/sa/" + t.sa
					}
				}
				break
			}
		}
	case 0:
		o.kube.PodUID = "stale-uid"
	case 1:
		o.kube.PodName = "ghost"
	case 2:
		o.kube.PodServiceAccount = "d"
	case 3:
		q.cluster = genCluster(r, w)
	case 4:
		imp = "spiffe://cluster.local/ns/" + tgt.ns + "/sa/" + wire.Pick(r, genSAs)
	case 5:
		imp = "spiffe://evil,victim.example.com,10.0.0.1,x/ns/" + tgt.ns + "/sa/" + tgt.sa
	}
	q.imp = "s:" + wire.Enc(imp)
	if len(q.outs) == 0 {
		q.outs = []authOutcome{o}
	} else {
		q.outs[0] = o
	}
}

func genCluster(r *wire.Rng, w genWorld) string {
	switch r.Intn(12) {
	case 0:
		return "-"
	case 1:
		return wire.EncList([]string{"c1", "c2"})
	case 2:
		return wire.EncList([]string{"unknown"})
	case 3:
		return wire.EncList([]string{"c2"})
	}
	return wire.EncList([]string{"c1"})
}

func kubeSpecTokens(td, primary string, aliases []string, remotes, cluster, form, token string, tokenAud []string, rev reviewSpec) []string {
	return []string{"kube", "grpc", wire.Enc(td), wire.Enc(primary), wire.EncList(aliases), remotes, cluster, form, wire.Enc(token), wire.EncList(tokenAud), rev.tok()}
}

// genAmbientKube: the ambient flow through the REAL Kubernetes-JWT authenticator - the spec of a node proxy's
// token (mostly in order, sometimes off by one ingredient); sets the request's cluster and impersonated identity.
// nil: the world has no pods.
func genAmbientKube(r *wire.Rng, w genWorld, req *reqSpec) []string {
	id := wire.Pick(r, w.ids)
	pods := w.pods[id]
	if len(pods) == 0 {
		return nil
	}
	zt := wire.Pick(r, pods)
	var proxies []podSpec
	for _, p := range pods {
		for _, t := range w.trusted {
			if t == p.ns+"/"+p.sa {
				proxies = append(proxies, p)
			}
		}
	}
	if len(proxies) > 0 && r.Chance(5, 6) {
		zt = wire.Pick(r, proxies)
	}
	tgt := wire.Pick(r, pods)
	if r.Chance(2, 3) {
		var same []podSpec
		for _, p := range pods {
			if p.node == zt.node && p.sa != "" {
				same = append(same, p)
			}
		}
		if len(same) > 0 {
			tgt = wire.Pick(r, same)
		}
	}
	rev := reviewSpec{authenticated: true, groups: []string{"system:serviceaccounts", "system:authenticated"},
		username: "system:serviceaccount:" + zt.ns + ":" + zt.sa, podName: "=" + wire.EncList([]string{zt.name}), podUID: "=" + wire.EncList([]string{zt.uid})}
	switch r.Intn(16) {
	case 0:
		rev.podUID = "=" + wire.EncList([]string{"stale"})
	case 1:
		rev.podName = "-"
	case 2:
		rev.authenticated = false
	case 3:
		rev.podUID = "-" // the API server reports no pod UID
	case 4:
		rev.podUID = "=" // ... or an empty list of them
	case 5:
		// the token is the trusted account's, the pod name that of a pod running as another account
		for _, p := range pods {
			if p.ns == zt.ns && p.sa != zt.sa && !p.failed() {
				rev.podName, rev.podUID = "="+wire.EncList([]string{p.name}), "="+wire.EncList([]string{p.uid})
				break
			}
		}
	case 6:
		// the pod of that NAME in another namespace (the token's namespace is the proxy's)
		for _, p := range pods {
			if p.name == zt.name && p.ns != zt.ns {
				rev.podUID = "=" + wire.EncList([]string{p.uid})
				break
			}
		}
	}
	td := wire.Pick(r, genTDs)
	req.cluster = wire.EncList([]string{id})
	if r.Chance(1, 8) {
		req.cluster = genCluster(r, w)
	}
	remotes := "nil"
	primary := id
	if r.Chance(1, 3) {
		primary, remotes = "Kubernetes", wire.EncList(w.ids)
	}
	impTD := td
	if r.Chance(1, 6) {
		impTD = wire.Pick(r, genTDs)
	}
	req.imp = "s:" + wire.Enc("spiffe://"+impTD+"/ns/"+tgt.ns+"/sa/"+tgt.sa)
	if r.Chance(1, 8) {
		req.imp = genImpersonation(r, w)
	}
	return kubeSpecTokens(td, primary, nil, remotes, req.cluster, "bearer", "node-proxy-token", []string{"istio-ca"}, rev)
}

// genReqA: a request authenticated by one REAL authenticator (kind 0 oidc, 1 kube, 2 xfcc, 3 cert over a
// hand-built chain, 4 client certificate over a real TLS handshake with the real PeerCertVerifier).
func genReqA(r *wire.Rng, w genWorld, cfg genCA) reqaSpec {
	kind := r.Intn(5)
	if r.Chance(1, 3) {
		kind = 1
	}
	q := reqaSpec{spec: genAuthSpec(r, kind, "grpc", true),
		req: reqSpec{xdsAuth: true, hasPeer: true, tls: true, csr: genCSR(r), ttl: genTTL(r, cfg), imp: "-", signer: "-", cluster: genCluster(r, w)}}
	if r.Chance(3, 4) {
		// mostly credentials that should authenticate
		for i := 0; i < 6; i++ {
			if kind == 1 {
				q.spec[6] = q.req.cluster
			}
			if _, ok := expectedFromCredential(q.spec, q.req.cluster, nil); ok {
				break
			}
			q.spec = genAuthSpec(r, kind, "grpc", true)
		}
	}
	if r.Chance(1, 5) {
		q.req.junk = 1
	}
	if kind == 1 && len(w.ids) > 0 && r.Chance(2, 3) {
		// the ambient flow: a node proxy authenticates with its Kubernetes token and asks for the
		// identity of a workload on its node
		if sp := genAmbientKube(r, w, &q.req); sp != nil {
			q.spec = sp
		}
	} else if kind == 1 {
		q.spec[6] = q.req.cluster
	} else if r.Chance(1, 6) {
		// impersonation asked by a caller whom a non-Kubernetes authenticator authenticated (no pod information)
		q.req.imp = genImpersonation(r, w)
	}
	if kind != 4 && r.Chance(1, 7) {
		// the same request over a connection that is not TLS: plaintext port with / without XDS_AUTH_PLAINTEXT,
		// a transport security that is not TLS
		q.req.mode = wire.Pick(r, []string{"plain", "plain", "noauth", "other", "other", "otherplain"})
	}
	return q
}

// genDynamicCase: a private pod world (`nap`) that changes between requests - pods are deleted, added,
// re-created under the same name with a new UID; a cluster's credentials rotate (cluster update: the old
// node authorizer answers until the new one has synced), clusters come and go. Each request is the node
// proxy's impersonation request that would pass on SOME version of the world.
func genDynamicCase(r *wire.Rng, cfg genCA, out *wire.Out) {
	uid := 100
	next := func() string { uid++; return "u" + strconv.Itoa(uid) }
	mk := func() []podSpec {
		pods := []podSpec{{name: "zt", ns: "istio-system", uid: next(), sa: "ztunnel", node: "n1"}}
		for i := 0; i < 1+r.Intn(3); i++ {
			pods = append(pods, podSpec{name: "w" + strconv.Itoa(i), ns: wire.Pick(r, genNSs), uid: next(), sa: wire.Pick(r, genSAs), node: wire.Pick(r, []string{"n1", "n1", "n2"}),
				phase: wire.Pick(r, []string{"", "", "", "S", "P", "F"})})
		}
		return pods
	}
	active := map[string][]podSpec{"c1": mk()}
	pending := map[string][]podSpec{}
	knownUIDs := map[string][]string{"zt": {active["c1"][0].uid}}
	out.Line("nap", wire.EncList([]string{"istio-system/ztunnel"}), "1", "c1", encPods(active["c1"]))
	request := func() {
		id := wire.Pick(r, []string{"c1", "c1", "c1", "c2"})
		ztUID := wire.Pick(r, knownUIDs["zt"]) // possibly the UID of an earlier incarnation
		for _, p := range active[id] {
			if p.name == "zt" && r.Chance(3, 4) {
				ztUID = p.uid
			}
		}
		o := authOutcome{kind: "ok", ids: []string{"spiffe://cluster.local/ns/istio-system/sa/ztunnel"}, kube: kinfo("zt", "istio-system", ztUID, "ztunnel")}
		ns, sa := wire.Pick(r, genNSs), wire.Pick(r, genSAs)
		// prefer an identity that some version of the world has on n1
		var cands []podSpec
		for _, l := range []map[string][]podSpec{active, pending} {
			for _, ps := range l {
				for _, p := range ps {
					if p.name != "zt" && p.sa != "" {
						cands = append(cands, p)
					}
				}
			}
		}
		if len(cands) > 0 && r.Chance(5, 6) {
			p := wire.Pick(r, cands)
			ns, sa = p.ns, p.sa
		}
		var onNode []podSpec
		for _, p := range active[id] {
			if p.name != "zt" && p.sa != "" && p.node == "n1" && !p.failed() {
				onNode = append(onNode, p)
			}
		}
		if len(onNode) > 0 && r.Chance(2, 3) {
			p := wire.Pick(r, onNode)
			ns, sa = p.ns, p.sa
		}
		q := reqSpec{xdsAuth: true, hasPeer: true, tls: true, outs: []authOutcome{o}, csr: csrSpec{form: "ok", key: "ec256-a"}, ttl: 600,
			imp: "s:" + wire.Enc("spiffe://cluster.local/ns/"+ns+"/sa/"+sa), signer: "-", cluster: wire.EncList([]string{id})}
		if r.Chance(1, 2) {
			q.csr = genCSR(r)
		}
		if r.Chance(1, 2) {
			q.ttl = genTTL(r, cfg)
		}
		if r.Chance(1, 4) {
			// the node proxy authenticates with its Kubernetes token (the REAL authenticator in the server)
			rev := reviewSpec{authenticated: true, groups: []string{"system:serviceaccounts", "system:authenticated"},
				username: "system:serviceaccount:istio-system:ztunnel", podName: "=zt", podUID: "=" + wire.EncList([]string{ztUID})}
			a := reqaSpec{spec: kubeSpecTokens("cluster.local", "c1", nil, wire.EncList([]string{"c2"}), q.cluster, "bearer", "node-proxy-token", []string{"istio-ca"}, rev), req: q}
			a.req.outs = nil
			out.Line(a.line()...)
			return
		}
		out.Line(q.line()...)
	}
	steps := 4 + r.Intn(8)
	request()
	for i := 0; i < steps; i++ {
		id := "c1"
		_, isPending := pending[id]
		_, exists := active[id]
		switch r.Intn(10) {
		case 9:
			// a pod is created unscheduled and scheduled later
			if exists && !isPending {
				p := podSpec{name: "late" + strconv.Itoa(uid), ns: wire.Pick(r, genNSs), uid: next(), sa: wire.Pick(r, genSAs), node: "", phase: "P"}
				out.Line("pod", "add", id, wire.Enc(encFields(p.name, p.ns, p.uid, p.sa, p.node, p.phase)))
				active[id] = append(active[id], p)
				request()
				p.node, p.phase = "n1", ""
				active[id][len(active[id])-1] = p
				out.Line("pod", "upd", id, wire.Enc(encFields(p.name, p.ns, p.uid, p.sa, p.node, p.phase)))
			}
		case 0, 1:
			if exists && !isPending {
				p := podSpec{name: "n" + strconv.Itoa(uid), ns: wire.Pick(r, genNSs), uid: next(), sa: wire.Pick(r, genSAs), node: wire.Pick(r, []string{"n1", "n1", "n2", ""}),
					phase: wire.Pick(r, []string{"", "", "S", "P"})}
				active[id] = append(active[id], p)
				out.Line("pod", "add", id, wire.Enc(encFields(p.name, p.ns, p.uid, p.sa, p.node, p.phase)))
			}
		case 2, 3:
			if exists && !isPending && len(active[id]) > 0 {
				k := r.Intn(len(active[id]))
				p := active[id][k]
				active[id] = append(append([]podSpec{}, active[id][:k]...), active[id][k+1:]...)
				out.Line("pod", "del", id, wire.Enc(p.ns), wire.Enc(p.name))
				if p.name == "zt" && r.Chance(3, 4) {
					// the node proxy is re-created under the same name with a new UID
					np := p
					np.uid = next()
					np.phase = ""
					knownUIDs["zt"] = append(knownUIDs["zt"], np.uid)
					active[id] = append(active[id], np)
					request()
					out.Line("pod", "add", id, wire.Enc(encFields(np.name, np.ns, np.uid, np.sa, np.node, np.phase)))
				}
			}
		case 8:
			// a pod is UPDATED: scheduled late, turns Failed / Succeeded, changes its node
			if exists && !isPending && len(active[id]) > 0 {
				k := r.Intn(len(active[id]))
				p := active[id][k]
				switch r.Intn(4) {
				case 0:
					p.node = wire.Pick(r, []string{"n1", "n2"})
				case 1:
					p.phase = "F"
				case 2:
					p.phase = wire.Pick(r, []string{"S", ""})
				case 3:
					p.node = ""
				}
				active[id][k] = p
				out.Line("pod", "upd", id, wire.Enc(encFields(p.name, p.ns, p.uid, p.sa, p.node, p.phase)))
				if p.phase == "F" {
					// a Failed pod is gone from the API as far as later events of this case are concerned
					active[id] = append(append([]podSpec{}, active[id][:k]...), active[id][k+1:]...)
				}
			}
		case 4:
			// credentials of the cluster rotate: a new node authorizer is built for the same cluster ID
			pods := mk()
			knownUIDs["zt"] = append(knownUIDs["zt"], pods[0].uid)
			run := r.Chance(1, 2)
			out.Line("cl", "upd", id, encPods(pods), wire.B(run))
			if run {
				active[id] = pods
				delete(pending, id)
			} else {
				pending[id] = pods
				if !exists {
					active[id] = nil
				}
			}
		case 5:
			if isPending && r.Chance(1, 3) {
				// the new component syncs; requests arrive before anything finalises the swap
				out.Line("cl", "run", id)
				active[id] = pending[id]
				request()
				request()
			}
			if isPending {
				out.Line("cl", "sync", id)
				active[id] = pending[id]
				delete(pending, id)
			}
		case 6:
			if exists && r.Chance(1, 2) {
				out.Line("cl", "del", id)
				delete(active, id)
				delete(pending, id)
			}
		case 7:
			if !exists {
				pods := mk()
				knownUIDs["zt"] = append(knownUIDs["zt"], pods[0].uid)
				out.Line("cl", "add", id, encPods(pods))
				active[id] = pods
			}
		}
		request()
	}
}

// genReqM: istiod's authenticator chain - client certificate, Kubernetes JWT or OIDC, XFCC - all REAL, in
// one server, seeing one request.
func genReqM(r *wire.Rng, w genWorld, cfg genCA) reqmSpec {
	m := reqmSpec{req: reqSpec{xdsAuth: true, hasPeer: true, tls: true, csr: genCSR(r), ttl: genTTL(r, cfg), imp: "-", signer: "-", cluster: genCluster(r, w)}}
	certKind := 3
	if r.Chance(1, 2) {
		certKind = 4
	}
	tokenKind := wire.Pick(r, []int{0, 1, 1})
	pick := func(kind int, valid bool) []string {
		sp := genAuthSpec(r, kind, "grpc", true)
		for i := 0; i < 8; i++ {
			if kind == 1 {
				sp[6] = m.req.cluster
			}
			_, ok := expectedFromCredential(sp, m.req.cluster, nil)
			if sp[0] == "xfcc" && sp[3] == "nopeer" {
				ok = !valid // keep a peer
			}
			if sp[0] == "cert" && sp[2] != "tls" && sp[2] != "tlspeer" {
				ok = !valid // keep the TLS auth info
			}
			if ok == valid {
				break
			}
			sp = genAuthSpec(r, kind, "grpc", true)
		}
		if kind == 1 {
			sp[6] = m.req.cluster
		}
		return sp
	}
	if r.Chance(2, 5) {
		// istiod's chain as pilot/pkg/bootstrap builds it (tied to the source by AUTHENTICATOR_ORDER_FACTS): client
		// certificate, OIDC (JWT_RULE), Kubernetes JWT, XFCC (TRUSTED_GATEWAY_CIDR), and RunCA's out-of-cluster OIDC
		// authenticator appended last.  All token-based ones read the one `authorization` metadata, which carries the
		// token of the LAST token-based spec of the line.
		good := r.Intn(6)
		m.specs = append(m.specs, pick(certKind, good == 0))
		withJwtRule, withRunCA := r.Chance(2, 3), r.Chance(1, 2)
		if !withJwtRule && !withRunCA {
			withJwtRule = true
		}
		kubeAt := -1
		if withJwtRule {
			m.specs = append(m.specs, pick(0, good == 1 || good == 5))
		}
		if !withRunCA || r.Chance(2, 3) {
			kubeAt = len(m.specs)
			m.specs = append(m.specs, pick(1, good == 2))
		}
		if r.Chance(1, 2) {
			m.specs = append(m.specs, pick(2, good == 3))
		}
		if withRunCA {
			last := pick(0, good == 4 || good == 5)
			last[9] = wire.Pick(r, []string{"d", "d", "d", "dn"}) // RunCA's rule has no jwks_uri; before fix cb98066 it had no mesh watcher
			m.specs = append(m.specs, last)
			if withJwtRule && r.Chance(1, 2) {
				// the JWT_RULE authenticator accepts the same issuer: it judges the very token RunCA's would - by its own
				// audiences and under its own trust domain - and comes first
				first := append([]string{}, last...)
				first[2], first[9] = wire.Enc(wire.Pick(r, []string{"cluster.local", "jwt-rule.td"})), "j"
				if r.Chance(1, 3) {
					first[3] = wire.EncList([]string{"some-other-audience"})
				}
				m.specs[1] = first
			}
		}
		if kubeAt >= 0 && len(w.ids) > 0 && !withRunCA && r.Chance(1, 2) {
			if sp := genAmbientKube(r, w, &m.req); sp != nil {
				m.specs[kubeAt] = sp
				if r.Chance(3, 4) {
					m.specs[0] = []string{"cert", "grpc", "tls", wire.EncList([]string{wire.Enc("nosan")})}
				}
			}
		}
		return m
	}
	// which of the three (if any) carries a valid credential
	good := r.Intn(5)
	order := []int{certKind, tokenKind, 2}
	if r.Chance(1, 4) {
		order = []int{tokenKind, 2, certKind}
	}
	if r.Chance(1, 3) {
		order = order[:2]
	}
	for i, k := range order {
		m.specs = append(m.specs, pick(k, i == good || (good == 4 && i >= 1)))
	}
	if len(w.ids) > 0 && r.Chance(2, 5) {
		// the ambient flow inside the chain: the Kubernetes-JWT authenticator sees a node proxy's token and the request
		// asks for a workload identity - behind a client-certificate authenticator that fails (the flow goes through)
		// or succeeds (the caller then has no pod information: refused)
		if sp := genAmbientKube(r, w, &m.req); sp != nil {
			for i := range m.specs {
				switch m.specs[i][0] {
				case "kube", "oidc":
					m.specs[i] = sp
				case "cert", "tlscert":
					if r.Chance(3, 4) {
						m.specs[i] = []string{"cert", "grpc", "tls", wire.EncList([]string{wire.Enc("nosan")})}
					}
				}
			}
		}
	} else if r.Chance(1, 8) {
		m.req.imp = genImpersonation(r, w)
	}
	hasTLSCert := false
	for _, sp := range m.specs {
		if sp[0] == "tlscert" {
			hasTLSCert = true
		}
	}
	if !hasTLSCert && r.Chance(1, 7) {
		m.req.mode = wire.Pick(r, []string{"plain", "plain", "noauth", "other", "otherplain"})
	}
	return m
}

func genIssue(seed uint64, n int, outp string) {
	out := wire.Create(outp)
	defer out.Close()
	root := wire.NewRng(seed ^ 0xC09)
	nw := 16
	if n > 3000 {
		nw = 48
	}
	ws := genWorlds(root.Fork(), nw)
	for c := 0; c < n; c++ {
		r := root.Fork()
		out.Line("case", strconv.Itoa(c), "issue")
		cfg := genCAConfig(r)
		out.Line(cfg.line()...)
		if r.Chance(1, 20) {
			genDynamicCase(r, cfg, out)
			continue
		}
		w := ws[0]
		if r.Chance(2, 3) {
			w = wire.Pick(r, ws)
		}
		out.Line(w.line...)
		nreq := 1 + r.Intn(4)
		for i := 0; i < nreq; i++ {
			if i > 0 && (cfg.kind == "plug" || cfg.kind == "plug2" || cfg.kind == "plugfile") && r.Chance(1, 10) {
				// the signing certificate is replaced under the live CA
				life := wire.Pick(r, []int64{3600, 7200, 30 * 86400, -3600})
				chain := "-"
				if r.Chance(1, 2) {
					chain = "c"
				}
				out.Line("rot", strconv.FormatInt(life, 10), chain)
				if life > 0 {
					if len(cfg.chain) > 0 && cfg.def >= cfg.chain[0] {
						cfg.staleCap = true
					}
					cfg.life, cfg.kind = life, "plug" // later TTLs are judged against the new signer
					cfg.chain = nil
				}
			}
			if r.Chance(1, 30) && cfg.hasSigner && cfg.kind != "self" && cfg.kind != "selfk8s" && cfg.kind != "selfrot" && cfg.kind != "plugrsa" {
				hosts := wire.Pick(r, [][]string{{"istiod.istio-system.svc"}, {"istiod.istio-system.svc", "istiod-remote.istio-system.svc"}, {"a,b"}, {"10.0.0.1", "spiffe://cluster.local/ns/istio-system/sa/istiod"}})
				ttl := wire.Pick(r, []int64{600, 86400 * 365})
				if !nearBoundary(ttl, cfg) {
					out.Line("genkeycert", wire.EncList(hosts), strconv.FormatInt(ttl, 10))
				}
			}
			if r.Chance(1, 25) {
				// the trust domain of the mesh config changes; the next request is authenticated by a real Kubernetes-JWT
				// or OIDC authenticator (constructed under its own, older trust domain)
				out.Line("mesh", wire.Enc(wire.Pick(r, []string{"new.td", "cluster.local", "td2.example", "td@corp.example"})))
				q := genReqA(r, w, cfg)
				for i := 0; i < 6 && q.spec[0] != "kube" && q.spec[0] != "oidc"; i++ {
					q = genReqA(r, w, cfg)
				}
				out.Line(q.line()...)
				continue
			}
			if r.Chance(1, 4) {
				out.Line(genReqA(r, w, cfg).line()...)
				continue
			}
			if r.Chance(1, 12) {
				out.Line(genReqM(r, w, cfg).line()...)
				continue
			}
			q := reqSpec{xdsAuth: true, hasPeer: true, tls: true, imp: "-", signer: "-", cluster: "-"}
			switch r.Intn(40) {
			case 0:
				q.xdsAuth = false
			case 1:
				q.hasPeer = false
			case 2:
				q.tls = false
			case 3:
				q.tls, q.plaintext = false, true
			case 4, 5:
				q.tls, q.other = false, true // an AuthInfo that is not credentials.TLSInfo (ALTS, local, ...)
			case 6:
				q.tls, q.other, q.plaintext = false, true, true
			case 7, 8:
				q.noMD = true // a context without incoming metadata: no clusterid (filled in below, then ignored), everything else as usual
			}
			q.outs = genOutcomes(r, w)
			if !q.tls && len(q.outs) > 0 && r.Chance(3, 4) {
				// ... with an authenticator that would accept the caller
				q.outs[0].kind = "ok"
				if len(q.outs[0].ids) == 0 {
					q.outs[0].ids = []string{genSpiffe(r)}
				}
			}
			q.csr = genCSR(r)
			q.ttl = genTTL(r, cfg)
			impP := 1
			if len(w.ids) > 0 {
				impP = 4
			}
			q.cluster = genCluster(r, w)
			if r.Chance(impP, 10) {
				q.imp = genImpersonation(r, w)
				if len(q.outs) > 0 && r.Chance(3, 4) {
					// an authenticated node proxy asking on behalf of a workload
					q.outs[0].kind = "ok"
					if len(q.outs[0].ids) == 0 {
						q.outs[0].ids = []string{"spiffe://cluster.local/ns/istio-system/sa/ztunnel"}
					}
				}
				if len(w.ids) > 0 && r.Chance(2, 3) {
					genGoodImpersonation(r, w, &q)
				}
			}
			if r.Chance(1, 4) {
				q.signer = wire.Pick(r, []string{"s:" + wire.Enc("clusterissuers.istio-system"), "s:" + wire.Enc("x,y"), "n", "s:~"})
			}
			if r.Chance(1, 5) {
				q.junk = 1 + r.Intn(2)
			}
			out.Line(q.line()...)
		}
	}
}
