package main

import (
	"fmt"
	"io"
	"math/big"
	"net/netip"
	"os"
	"strings"

	"verifharness/internal/wire"
)

func os_stderr() io.Writer { return os.Stderr }

var (
	poolIss    = []string{"https://issuer.example.com", "issuer-1", "accounts.google.com", "https://a/b"}
	poolSub    = []string{"user-1", "alice", "svc", "bob"}
	poolAud    = []string{"aud-1", "api.example.com", "aud-2", "bookstore"}
	poolAzp    = []string{"client-1", "web", "client-2"}
	poolClaimK = []string{"[group]", "[groups]", "[realm][role]", "[scope]", "[a][b][c]", "[tenant]", "[org][unit]", "[roles]", "[x-y]", "[email]"}
	// validator-accepted keys that reach the fallbacks / error path of extractNameInNestedBrackets
	oddClaimK  = []string{"[a[b]]", ".x[a]", "[a]b[c]", "[a][b", "x[a][b]", "[a][]", "[][a]"} // the last two: rejected since fix 6119378
	poolClaimV = []string{"admin", "dev", "ops", "read", "write"}
)

func (g *genCtx) requestPrincipal() string {
	r := g.r
	iss, sub := wire.Pick(r, poolIss), wire.Pick(r, poolSub)
	g.note("jwt", iss+"|"+sub)
	full := iss + "/" + sub
	switch x := r.Intn(100); {
	case x < 40:
		return full
	case x < 50:
		return "*"
	case x < 60:
		return iss + "/*"
	case x < 70:
		return "*/" + sub
	case x < 78:
		return "*" + sub[1:]
	case x < 86:
		return iss[:3] + "*"
	case x < 93:
		return "*" + full[4:]
	default:
		return full[:len(iss)+2] + "*"
	}
}

func (g *genCtx) phase3When() (string, func() string) {
	r := g.r
	switch r.Intn(6) {
	case 0:
		return "request.auth.principal", g.requestPrincipal
	case 1:
		return "request.auth.audiences", func() string { b := wire.Pick(r, poolAud); g.note("aud", b); return g.form(b, false) }
	case 2:
		return "request.auth.presenter", func() string { b := wire.Pick(r, poolAzp); g.note("azp", b); return g.form(b, false) }
	case 3, 4:
		k := wire.Pick(r, poolClaimK)
		if r.Chance(1, 6) {
			k = wire.Pick(r, oddClaimK)
		}
		g.note("claimk", k)
		return "request.auth.claims" + k, func() string { b := wire.Pick(r, poolClaimV); g.note("claimv", b); return g.form(b, false) }
	default:
		k := wire.Pick(r, []string{"experimental.envoy.filters.http.a[key]", "experimental.envoy.filters.network.b[k2]",
			"experimental.envoy.filters.http.jwt_authn[sub]", "experimental.envoy.filters.network.mx[peer]", "experimental.envoy.filters.http.lua[x.y]",
			"experimental.envoy.filters.network.b[key]"})
		g.note("expk", k)
		return k, func() string {
			b := wire.Pick(r, poolClaimV)
			g.note("claimv", b)
			if r.Chance(1, 3) {
				return "[" + g.form(b, false) + "]"
			}
			return g.form(b, false)
		}
	}
}

// mutate returns the constant or a near miss of it.
func (g *genCtx) mutate(b string) string {
	r := g.r
	if b == "" {
		return b
	}
	switch x := r.Intn(100); {
	case x < 45:
		return b
	case x < 53: // case flipped
		if r.Chance(1, 2) {
			return strings.ToUpper(b)
		}
		return strings.ToLower(b)
	case x < 61: // one character dropped at the end
		return b[:len(b)-1]
	case x < 69: // one character dropped at the front
		return b[1:]
	case x < 77: // one appended
		return b + wire.Pick(r, []string{"x", "/", "-", ".", "1"})
	case x < 84: // one prepended
		return wire.Pick(r, []string{"x", "/", "-", "."}) + b
	case x < 91: // one replaced
		k := r.Intn(len(b))
		return b[:k] + "x" + b[k+1:]
	case x < 96:
		return ""
	default:
		return b + b
	}
}

func (g *genCtx) pickUsed(kind string, pool []string) string {
	if u := g.used[kind]; len(u) > 0 && g.r.Chance(3, 4) {
		return wire.Pick(g.r, u)
	}
	return wire.Pick(g.r, pool)
}

// ipNear: an address inside / at the edge of / just outside a block used by the policies (token form,
// see ipTok): IPv4 and IPv6.
func (g *genCtx) ipNear() string {
	r := g.r
	if u := g.used["ip"]; len(u) > 0 && r.Chance(2, 3) {
		v := wire.Pick(r, u)
		var pfx netip.Prefix
		var err error
		if strings.Contains(v, "/") {
			pfx, err = netip.ParsePrefix(v)
		} else {
			var a netip.Addr
			a, err = netip.ParseAddr(v)
			if err == nil {
				pfx = netip.PrefixFrom(a, a.BitLen())
			}
		}
		if err == nil {
			width := pfx.Addr().BitLen()
			bytes := pfx.Masked().Addr().AsSlice()
			base := new(big.Int).SetBytes(bytes)
			size := new(big.Int).Lsh(big.NewInt(1), uint(width-pfx.Bits()))
			mod := new(big.Int).Lsh(big.NewInt(1), uint(width))
			var n *big.Int
			switch r.Intn(7) {
			case 0:
				n = base
			case 1:
				n = new(big.Int).Sub(new(big.Int).Add(base, size), big.NewInt(1))
			case 2:
				n = new(big.Int).Add(base, size) // first outside (wraps for /0)
			case 3:
				n = new(big.Int).Sub(base, big.NewInt(1))
			case 4:
				n = new(big.Int).SetBytes(pfx.Addr().AsSlice())
			case 5:
				// the same number in the other family, or the IPv4-mapped IPv6 form of an address inside an IPv4 block
				// (::ffff:a.b.c.d): must never match
				if width == 32 {
					if r.Chance(1, 2) {
						return "6:" + new(big.Int).Add(new(big.Int).Lsh(big.NewInt(0xffff), 32), base).String()
					}
					return "6:" + base.String()
				}
				return new(big.Int).And(base, big.NewInt(0xffffffff)).String()
			default:
				off := big.NewInt(int64(r.Intn(1 << 20)))
				n = new(big.Int).Add(base, off.Mod(off, size))
			}
			n.Mod(n.Add(n, mod), mod)
			if width == 32 {
				return n.String()
			}
			return "6:" + n.String()
		}
	}
	if r.Chance(1, 10) {
		return ipToken(netip.MustParseAddr(wire.Pick(r, reqIPs6)))
	}
	return ipToken(netip.MustParseAddr(wire.Pick(r, reqIPs)))
}

func min64(a, b uint64) uint64 {
	if a < b {
		return a
	}
	return b
}

func (g *genCtx) genReq(http bool) string {
	r := g.r
	var t []string
	t = append(t, "req")
	t = append(t, "sip="+g.ipNear(), "rip="+g.ipNear(), "dip="+g.ipNear())
	// port
	port := uint32(0)
	pv := g.pickUsed("port", poolPort)
	fmt.Sscanf(strings.TrimLeft(pv, "0"), "%d", &port)
	switch r.Intn(6) {
	case 0:
		port++
	case 1:
		port = uint32(r.Intn(65536))
	}
	t = append(t, fmt.Sprintf("dport=%d", port))
	t = append(t, "sni="+wire.Enc(g.mutate(g.pickUsed("sni", poolSNI))))
	// peer
	if r.Chance(1, 8) {
		t = append(t, "peer=-")
	} else {
		td, ns, sa := wire.Pick(r, poolTD), wire.Pick(r, poolNS), wire.Pick(r, poolSA)
		if u := g.used["peer"]; len(u) > 0 && r.Chance(2, 3) {
			p := strings.Split(wire.Pick(r, u), ",")
			td, ns, sa = p[0], p[1], p[2]
		}
		if u := g.used["ns"]; len(u) > 0 && r.Chance(1, 2) {
			ns = wire.Pick(r, u)
		}
		if u := g.used["td"]; len(u) > 0 && r.Chance(1, 2) {
			td = wire.Pick(r, u)
		}
		if r.Chance(1, 40) {
			ns = wire.Pick(r, []string{"ns", "sa"}) // namespaces named like the SPIFFE path keywords
		}
		// near misses: other namespace / sa / trust domain, one char off; never '/' or empty inside an identity
		clean := func(s, dflt string) string {
			s = strings.ReplaceAll(s, "/", "")
			if s == "" {
				return dflt
			}
			return s
		}
		switch r.Intn(8) {
		case 0:
			ns = clean(g.mutate(ns), ns)
		case 1:
			sa = clean(g.mutate(sa), sa)
		case 2:
			td = clean(g.mutate(td), td)
		case 3:
			ns = wire.Pick(r, poolNS)
		case 4:
			sa = wire.Pick(r, poolSA)
		}
		t = append(t, "peer="+wire.EncList([]string{td, ns, sa}))
	}
	if !http {
		t = append(t, "http=0")
		// raw TCP connections carry dynamic metadata too (network filters): experimental.envoy.filters.network.*
		// conditions are expressible on TCP and must be judged with positive matches as well
		if g.phase3 {
			var mf, mp, mt, mv []string
			for _, k := range g.used["expk"] {
				f, key, _ := strings.Cut(strings.TrimSuffix(strings.TrimPrefix(k, "experimental."), "]"), "[")
				if r.Chance(1, 4) || strings.Contains(strings.Join(mf, ","), f) {
					continue
				}
				v := g.mutate(g.pickUsed("claimv", poolClaimV))
				mf, mp = append(mf, f), append(mp, key)
				if r.Chance(1, 2) {
					mt, mv = append(mt, "s"), append(mv, v)
				} else {
					mt, mv = append(mt, "l"), append(mv, strings.Join([]string{wire.Pick(r, poolClaimV), v}, "|"))
				}
			}
			if len(mf) > 0 {
				t = append(t, "mf="+wire.EncList(mf), "mp="+wire.EncList(mp), "mt="+wire.EncList(mt), "mv="+wire.EncList(mv))
			}
		}
		return strings.Join(t, " ")
	}
	t = append(t, "http=1")
	t = append(t, "host="+wire.Enc(g.mutate(g.pickUsed("host", poolHost))))
	m := g.mutate(g.pickUsed("method", poolMethod))
	if m == "" {
		m = "GET"
	}
	t = append(t, "method="+wire.Enc(m))
	p := g.mutate(g.pickUsed("path", poolPath))
	if p == "" {
		p = "/"
	}
	t = append(t, "path="+wire.Enc(p))
	var hn, hv []string
	names := append([]string{}, g.used["hname"]...)
	if len(names) == 0 || r.Chance(1, 4) {
		names = append(names, wire.Pick(r, poolHName))
	}
	seen := map[string]bool{}
	for _, n := range names {
		ln := strings.ToLower(n)
		if seen[ln] || r.Chance(1, 4) {
			continue
		}
		seen[ln] = true
		hn = append(hn, ln)
		v := g.mutate(g.pickUsed("hval", poolHVal))
		if r.Chance(1, 12) {
			v = ""
		}
		hv = append(hv, v)
	}
	t = append(t, "hn="+wire.EncList(hn), "hv="+wire.EncList(hv))
	if g.phase3 {
		var mf, mp, mt, mv []string
		add := func(f, p, ty, v string) {
			// now and then the value is not a string: a number or a bool (no string matcher matches those)
			if r.Chance(1, 25) {
				ty, v = wire.Pick(r, []string{"n", "b"}), wire.Pick(r, []string{"42", "1", "true", "0"})
			}
			mf, mp, mt, mv = append(mf, f), append(mp, p), append(mt, ty), append(mv, v)
		}
		const jwt = "envoy.filters.http.jwt_authn"
		if r.Chance(3, 4) {
			iss, sub := wire.Pick(r, poolIss), wire.Pick(r, poolSub)
			if u := g.used["jwt"]; len(u) > 0 && r.Chance(3, 4) {
				p := strings.Split(wire.Pick(r, u), "|")
				iss, sub = p[0], p[1]
			}
			// JWT claims: issuer and subject are non-empty, the subject carries no '/' (assumptions of the statement)
			if r.Chance(1, 4) {
				if m := g.mutate(iss); m != "" {
					iss = m
				}
			}
			if r.Chance(1, 4) {
				if m := strings.ReplaceAll(g.mutate(sub), "/", ""); m != "" {
					sub = m
				}
			}
			add(jwt, "payload|iss", "s", iss)
			if !r.Chance(1, 10) {
				add(jwt, "payload|sub", "s", sub)
			}
			if r.Chance(2, 3) {
				a := g.mutate(g.pickUsed("aud", poolAud))
				if r.Chance(1, 2) {
					add(jwt, "payload|aud", "s", a)
				} else {
					add(jwt, "payload|aud", "l", strings.Join([]string{wire.Pick(r, poolAud), a}, "|"))
				}
			}
			if r.Chance(1, 2) {
				add(jwt, "payload|azp", "s", g.mutate(g.pickUsed("azp", poolAzp)))
			}
			for _, k := range g.used["claimk"] {
				if r.Chance(1, 3) {
					continue
				}
				segs := strings.Split(strings.Trim(k, "[]"), "][")
				path := "payload|" + strings.Join(segs, "|")
				if strings.Contains(strings.Join(mp, ","), path) {
					continue
				}
				v := g.mutate(g.pickUsed("claimv", poolClaimV))
				if r.Chance(1, 2) {
					add(jwt, path, "s", v)
				} else {
					add(jwt, path, "l", strings.Join([]string{wire.Pick(r, poolClaimV), v}, "|"))
				}
			}
		}
		for _, k := range g.used["expk"] {
			f, key, _ := strings.Cut(strings.TrimSuffix(strings.TrimPrefix(k, "experimental."), "]"), "[")
			if r.Chance(1, 3) || strings.Contains(strings.Join(mf, ","), f) {
				continue
			}
			v := g.mutate(g.pickUsed("claimv", poolClaimV))
			if r.Chance(1, 2) {
				add(f, key, "s", v)
			} else {
				add(f, key, "l", strings.Join([]string{wire.Pick(r, poolClaimV), v}, "|"))
			}
		}
		if len(mf) > 0 {
			t = append(t, "mf="+wire.EncList(mf), "mp="+wire.EncList(mp), "mt="+wire.EncList(mt), "mv="+wire.EncList(mv))
		}
	}
	return strings.Join(t, " ")
}
