package main

// stats: counters over an ops file for the evidence (what the generated input space actually contains):
// proxy type, clause by which each policy attaches (or not), build kinds, value forms, targetRef kinds.

import (
	"fmt"
	"sort"
	"strings"

	"verifharness/internal/wire"
)

func valueForm(k, v string) string {
	switch {
	case k == "ip" || k == "nip" || k == "rip" || k == "nrip" || strings.HasSuffix(k, ".ip"):
		if strings.Contains(v, ":") {
			return "ipv6"
		}
		return "ipv4"
	case strings.Contains(v, "{*}") || strings.Contains(v, "{**}"):
		return "path-template"
	case v == "*":
		return "star"
	case strings.HasPrefix(v, "*") && strings.HasSuffix(v, "*"):
		return "star-both-ends"
	case strings.HasPrefix(v, "*"):
		return "suffix"
	case strings.HasSuffix(v, "*"):
		return "prefix"
	case strings.Contains(v, "*"):
		return "star-inside"
	case v == "":
		return "empty"
	}
	return "exact"
}

func stats(in, outp string) {
	out := wire.Create(outp)
	defer out.Close()
	cnt := map[string]int{}
	var s *sut
	counted := false
	closeCase := func() {
		if s == nil || counted {
			return
		}
		counted = true
		pt := "sidecar"
		switch {
		case s.term:
			pt = "waypoint-termination"
		case string(s.proxyType) == "waypoint":
			pt = "waypoint"
			if s.svc != nil {
				pt = "waypoint-service"
			}
		case s.wlLabels["gateway.networking.k8s.io/gateway-name"] != "":
			pt = "gateway-api"
		case string(s.proxyType) == "router":
			pt = "router"
		}
		cnt["proxy."+pt]++
		if s.rootNS != "istio-system" {
			cnt["root-namespace.other"]++
		} else {
			cnt["root-namespace.istio-system"]++
		}
		if s.noSelectorGW {
			cnt["flag.selector-gateway-policy-off"]++
		}
		if len(s.bundle) > 1 {
			cnt["bundle.with-aliases"]++
		}
		for i := range s.policies {
			p := &s.policies[i]
			cnt["attach."+s.attachBranch(p)]++
			for _, ref := range p.Spec.GetTargetRefs() {
				cnt["targetRef.kind."+ref.GetKind()]++
				if ref.GetNamespace() != "" {
					cnt["targetRef.with-namespace"]++
				}
			}
			if p.Spec.GetTargetRef() != nil {
				cnt["targetRef.legacy"]++
			}
			cnt["action."+p.Spec.GetAction().String()]++
			if isDryRun(p) {
				cnt["dry-run."+p.Spec.GetAction().String()]++
			}
			if p.Spec.GetAction().String() == "CUSTOM" {
				n, class := p.Spec.GetProvider().GetName(), "undefined"
				if _, http, ok := s.providerTarget(n); ok && http {
					class = "defined-http"
				} else if ok {
					class = "defined-grpc"
				} else {
					for i := range s.providers {
						if s.providers[i].name == n {
							class = "defined-with-config-error"
						}
					}
				}
				cnt["provider."+class]++
			}
			// clause 2: what the statement does with each rule of an applying policy on an HTTP and on a TCP chain
			if s.applies(p) {
				for _, rule := range p.Spec.Rules {
					if rule == nil {
						continue
					}
					for _, tcp := range []bool{false, true} {
						specTCP = tcp
						chain := map[bool]string{false: "http", true: "tcp"}[tcp]
						switch {
						case ruleExpressible(rule):
							cnt["clause2."+chain+".expressible"]++
						case p.Spec.GetAction().String() == "ALLOW":
							cnt["clause2."+chain+".allow-rule-dropped"]++
						default:
							cnt["clause2."+chain+".rule-on-remaining-conditions"]++
						}
					}
					specTCP = false
				}
			}
		}
		// CUSTOM providers named by the applying CUSTOM policies of the case: how many distinct ones, all usable or mixed
		{
			names := map[string]bool{}
			for i := range s.policies {
				p := &s.policies[i]
				if s.applies(p) && p.Spec.GetAction().String() == "CUSTOM" {
					names[p.Spec.GetProvider().GetName()] = true
				}
			}
			if len(names) > 0 {
				n, usable := len(names), 0
				for k := range names {
					if _, _, ok := s.providerTarget(k); ok {
						usable++
					}
				}
				if n > 3 {
					n = 3
				}
				class := "mixed"
				if usable == len(names) {
					class = "all-defined"
				} else if usable == 0 {
					class = "none-defined"
				}
				multi := "multi-off"
				if s.multi {
					multi = "multi-on"
				}
				cnt[fmt.Sprintf("custom.providers-per-case.%d.%s.%s", n, class, multi)]++
			}
		}
		if len(s.providers) > 0 && s.multi {
			cnt["flag.multiple-custom-providers"]++
		}
	}
	attrKey := func(k string) string {
		switch {
		case strings.HasPrefix(k, "request.headers["):
			return "request.headers"
		case strings.HasPrefix(k, "request.auth.claims"):
			return "request.auth.claims"
		case strings.HasPrefix(k, "experimental.envoy.filters.http."):
			return "experimental.envoy.filters.http"
		case strings.HasPrefix(k, "experimental.envoy.filters.network."):
			return "experimental.envoy.filters.network"
		}
		return k
	}
	fieldName := map[string]string{"pr": "principals", "npr": "notPrincipals", "rp": "requestPrincipals", "nrp": "notRequestPrincipals",
		"ns": "namespaces", "nns": "notNamespaces", "ip": "ipBlocks", "nip": "notIpBlocks", "rip": "remoteIpBlocks", "nrip": "notRemoteIpBlocks",
		"sa": "serviceAccounts", "nsa": "notServiceAccounts", "td": "trustDomains", "ntd": "notTrustDomains",
		"h": "hosts", "nh": "notHosts", "p": "ports", "np": "notPorts", "m": "methods", "nm": "notMethods", "pa": "paths", "npa": "notPaths"}
	for _, f := range wire.ReadLines(in) {
		switch f[0] {
		case "case":
			closeCase()
			s = newSUT()
			counted = false
			cnt["cases"]++
			continue
		case "build":
			kind := f[1]
			if kind == "http" && len(f) > 3 {
				kind += "-" + f[3]
			}
			cnt["build."+kind]++
			if len(f) > 2 && f[2] == "0" {
				cnt["build.filter-state"]++
			}
			continue
		case "req":
			if strings.Contains(strings.Join(f, " "), " sip=6:") || strings.Contains(strings.Join(f, " "), " rip=6:") {
				cnt["req.ipv6"]++
			}
			cnt["req"]++
			continue
		case "from", "to":
			for _, t := range f[1:] {
				k, v := kv(t)
				if n, ok := fieldName[k]; ok {
					cnt["field."+f[0]+"."+n]++
				}
				l := wire.DecList(v)
				if len(l) > 3 {
					cnt["values.more-than-3"]++
				}
				for _, x := range l {
					cnt["value."+valueForm(k, x)]++
				}
			}
		case "when":
			if len(f) >= 4 {
				key := wire.Dec(f[1])
				cnt["when."+attrKey(key)]++
				if f[2] != "-" {
					cnt["when.with-values"]++
				}
				if f[3] != "-" {
					cnt["when.with-notValues"]++
				}
				for _, x := range append(wire.DecList(f[2]), wire.DecList(f[3])...) {
					cnt["value."+valueForm(key, x)]++
				}
			}
		}
		if s != nil {
			s.apply(f)
		}
	}
	closeCase()
	keys := make([]string, 0, len(cnt))
	for k := range cnt {
		keys = append(keys, k)
	}
	sort.Strings(keys)
	for _, k := range keys {
		out.Line(fmt.Sprintf("%s %d", k, cnt[k]))
	}
}
