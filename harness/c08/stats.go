package main

// stats: counters over an ops file for the evidence (what the generated input space actually contains):
// proxy type, clause by which each policy attaches (or not), build kinds, value forms, targetRef kinds.

import (
	"fmt"
	"sort"
	"strings"

	"verifharness/internal/wire"
)

func valueForm(k, v string) string {
	switch {
	case k == "ip" || k == "nip" || k == "rip" || k == "nrip" || strings.HasSuffix(k, ".ip"):
		if strings.Contains(v, ":") {
			return "ipv6"
		}
		return "ipv4"
	case strings.Contains(v, "{*}") || strings.Contains(v, "{**}"):
		return "path-template"
	case v == "*":
		return "star"
	case strings.HasPrefix(v, "*") && strings.HasSuffix(v, "*"):
		return "star-both-ends"
	case strings.HasPrefix(v, "*"):
		return "suffix"
	case strings.HasSuffix(v, "*"):
		return "prefix"
	case strings.Contains(v, "*"):
		return "star-inside"
	case v == "":
		return "empty"
	}
	return "exact"
}

func stats(in, outp string) {
	out := wire.Create(outp)
	defer out.Close()
	cnt := map[string]int{}
	var s *sut
	counted := false
	closeCase := func() {
		if s == nil || counted {
			return
		}
		counted = true
		pt := "sidecar"
		switch {
		case s.term:
			pt = "waypoint-termination"
		case string(s.proxyType) == "waypoint":
			pt = "waypoint"
			if s.svc != nil {
				pt = "waypoint-service"
			}
		case s.wlLabels["gateway.networking.k8s.io/gateway-name"] != "":
			pt = "gateway-api"
		case string(s.proxyType) == "router":
			pt = "router"
		}
		cnt["proxy."+pt]++
		if s.rootNS != "istio-system" {
			cnt["root-namespace.other"]++
		} else {
			cnt["root-namespace.istio-system"]++
		}
		if s.noSelectorGW {
			cnt["flag.selector-gateway-policy-off"]++
		}
		if len(s.bundle) > 1 {
			cnt["bundle.with-aliases"]++
		}
		for i := range s.policies {
			p := &s.policies[i]
			cnt["attach."+s.attachBranch(p)]++
			for _, ref := range p.Spec.GetTargetRefs() {
				cnt["targetRef.kind."+ref.GetKind()]++
				if ref.GetNamespace() != "" {
					cnt["targetRef.with-namespace"]++
				}
			}
			if p.Spec.GetTargetRef() != nil {
				cnt["targetRef.legacy"]++
			}
			cnt["action."+p.Spec.GetAction().String()]++
		}
	}
	for _, f := range wire.ReadLines(in) {
		switch f[0] {
		case "case":
			closeCase()
			s = newSUT()
			counted = false
			cnt["cases"]++
			continue
		case "build":
			kind := f[1]
			if kind == "http" && len(f) > 3 {
				kind += "-" + f[3]
			}
			cnt["build."+kind]++
			if len(f) > 2 && f[2] == "0" {
				cnt["build.filter-state"]++
			}
			continue
		case "req":
			if strings.Contains(strings.Join(f, " "), " sip=6:") || strings.Contains(strings.Join(f, " "), " rip=6:") {
				cnt["req.ipv6"]++
			}
			cnt["req"]++
			continue
		case "from", "to":
			for _, t := range f[1:] {
				k, v := kv(t)
				for _, x := range wire.DecList(v) {
					cnt["value."+valueForm(k, x)]++
				}
			}
		case "when":
			if len(f) >= 4 {
				key := wire.Dec(f[1])
				for _, x := range append(wire.DecList(f[2]), wire.DecList(f[3])...) {
					cnt["value."+valueForm(key, x)]++
				}
			}
		}
		if s != nil {
			s.apply(f)
		}
	}
	closeCase()
	keys := make([]string, 0, len(cnt))
	for k := range cnt {
		keys = append(keys, k)
	}
	sort.Strings(keys)
	for _, k := range keys {
		out.Line(fmt.Sprintf("%s %d", k, cnt[k]))
	}
}
