// Harness for C08: drives the REAL AuthorizationPolicy -> Envoy RBAC compiler
// (validation.ValidateAuthorizationPolicy, model.AuthorizationPolicies.ListAuthorizationPolicies,
// builder.New(...).BuildHTTP()/BuildTCP()) on policies given one line at a time, prints the
// generated filters canonically (S-expression; `Policies` map sorted by name) and evaluates the real
// generated proto on requests with a reference RBAC interpreter (interp.go, Go regexp = RE2).
//
//	c08 gen    <stream> <seed> <ncases> <ops-out>
//	c08 exec   <stream> <ops-in> <impl-out>
//	c08 oracle <stream> <ops-in> <verdict-out>
//
// Streams: compile (structure of the generated filters, valid and invalid policies),
// requests (HTTP listener: decision of the generated filters and of the policy semantics),
// tcp (TCP listener: same, requests are raw TCP connections).
// The Lean driver (lean/IstioModel/C08/Driver.lean) consumes the same ops file.
package main

import (
	"fmt"
	"os"
	"strconv"
	"strings"

	"time"

	meshconfig "istio.io/api/mesh/v1alpha1"
	authpb "istio.io/api/security/v1beta1"
	typepb "istio.io/api/type/v1beta1"
	"istio.io/istio/pilot/pkg/config/memory"
	"istio.io/istio/pilot/pkg/features"
	"istio.io/istio/pilot/pkg/model"
	"istio.io/istio/pilot/pkg/networking"
	authzplugin "istio.io/istio/pilot/pkg/networking/plugin/authz"
	"istio.io/istio/pkg/config"
	"istio.io/istio/pkg/config/host"
	"istio.io/istio/pkg/config/mesh/meshwatcher"
	"istio.io/istio/pkg/config/schema/collections"
	"istio.io/istio/pkg/config/schema/gvk"
	"istio.io/istio/pkg/config/validation"
	"istio.io/istio/pilot/pkg/serviceregistry/provider"
	_ "verifharness/internal/quiet"
	"verifharness/internal/wire"
)

func main() {
	if len(os.Args) < 2 {
		fmt.Fprintln(os.Stderr, "usage: c08 gen|exec|oracle|stats ...")
		os.Exit(2)
	}
	switch os.Args[1] {
	case "gen":
		seed, _ := strconv.ParseUint(os.Args[3], 10, 64)
		n, _ := strconv.Atoi(os.Args[4])
		gen(os.Args[2], seed, n, os.Args[5])
	case "exec":
		execOps(os.Args[2], os.Args[3], os.Args[4])
	case "oracle":
		oracle(os.Args[2], os.Args[3], os.Args[4])
	case "stats":
		stats(os.Args[3], os.Args[4]) // os.Args[2] = stream (unused)
	default:
		os.Exit(2)
	}
}

// ---------------------------------------------------------------- system under test

type sut struct {
	bundle   []string
	rootNS   string
	wlNS     string
	wlLabels map[string]string
	policies []model.AuthorizationPolicy // in creation order
	forTCP   bool
	shapeTCP bool // the chain is made of network filters (build tcp), not HTTP filters
	// CUSTOM action: extension providers defined in the mesh config, multi-provider feature flag
	providers []provSpec
	multi     bool
	proxyType model.NodeType
	// NewBuilderForService: the service the chain is built for; nil = none
	svc *svcInfo
	// features.EnableSelectorBasedK8sGatewayPolicy switched off
	noSelectorGW bool
	// NewWaypointTerminationBuilder (HBONE termination layer of a waypoint): standard selection, no filter state
	term bool
	// ONE pair of plugin builders (CUSTOM, Local) per case and useFilterState value, reused by every build op
	// of the case exactly as the listener builder reuses them (lazy cache of BuildTCP / BuildHTTP)
	builders map[bool][2]*authzplugin.Builder
	// last build
	built []*builtFilter
}

func newSUT() *sut {
	return &sut{bundle: []string{"cluster.local"}, rootNS: "istio-system", wlNS: "foo", wlLabels: map[string]string{},
		proxyType: model.SidecarProxy, builders: map[bool][2]*authzplugin.Builder{}}
}

func kv(t string) (string, string) {
	i := strings.IndexByte(t, '=')
	if i < 0 {
		return t, ""
	}
	return t[:i], t[i+1:]
}

func (s *sut) lastPolicy() *model.AuthorizationPolicy {
	if len(s.policies) == 0 {
		return nil
	}
	return &s.policies[len(s.policies)-1]
}

func (s *sut) lastRule() *authpb.Rule {
	p := s.lastPolicy()
	if p == nil || len(p.Spec.Rules) == 0 {
		return nil
	}
	return p.Spec.Rules[len(p.Spec.Rules)-1]
}

// provSpec: one extensionProviders entry of the mesh config (envoyExtAuthzGrpc / envoyExtAuthzHttp).
type provSpec struct {
	name, service, status, pathPrefix string
	http, failOpen                    bool
	port                              uint32
}

// parseProv reads one provider token of the `custom` op: name|grpc/http|service|port|failopen|status|prefix,
// or (older corpus files) a bare name, `http:`-prefixed for the HTTP kind, with the default service and port.
func parseProv(t string) provSpec {
	if q := strings.Split(t, "|"); len(q) == 7 {
		port, _ := strconv.ParseUint(q[3], 10, 32)
		return provSpec{name: q[0], http: q[1] == "http", service: q[2], port: uint32(port), failOpen: q[4] == "1", status: q[5], pathPrefix: q[6]}
	}
	return provSpec{name: strings.TrimPrefix(t, "http:"), http: strings.HasPrefix(t, "http:"),
		service: "foo/my-custom-ext-authz.foo.svc.cluster.local", port: 9000}
}

// registry: the service index the harness registers (hostname, namespace).
var registry = [][2]string{
	{"my-custom-ext-authz.foo.svc.cluster.local", "foo"},
	{"authz.foo.svc.cluster.local", "foo"},
	{"authz2.bar.svc.cluster.local", "bar"},
	{"ext.example.com", "foo"}, {"ext.example.com", "bar"},
}

type svcInfo struct {
	name, objectName, ns string // Attributes.Name, Attributes.ObjectName, Attributes.Namespace
	k8s                  bool   // registry Kubernetes (else External)
}

func actionOf(a string) authpb.AuthorizationPolicy_Action {
	switch a {
	case "UNKNOWN":
		return authpb.AuthorizationPolicy_Action(7) // outside the enum: updateAuthorizationPoliciesResult ignores it
	case "DENY":
		return authpb.AuthorizationPolicy_DENY
	case "AUDIT":
		return authpb.AuthorizationPolicy_AUDIT
	case "CUSTOM":
		return authpb.AuthorizationPolicy_CUSTOM
	}
	return authpb.AuthorizationPolicy_ALLOW
}

func setSrc(s *authpb.Source, k string, v []string) {
	switch k {
	case "pr":
		s.Principals = v
	case "npr":
		s.NotPrincipals = v
	case "rp":
		s.RequestPrincipals = v
	case "nrp":
		s.NotRequestPrincipals = v
	case "ns":
		s.Namespaces = v
	case "nns":
		s.NotNamespaces = v
	case "ip":
		s.IpBlocks = v
	case "nip":
		s.NotIpBlocks = v
	case "rip":
		s.RemoteIpBlocks = v
	case "nrip":
		s.NotRemoteIpBlocks = v
	case "sa":
		s.ServiceAccounts = v
	case "nsa":
		s.NotServiceAccounts = v
	case "td":
		s.TrustDomains = v
	case "ntd":
		s.NotTrustDomains = v
	}
}

func setOp(o *authpb.Operation, k string, v []string) {
	switch k {
	case "h":
		o.Hosts = v
	case "nh":
		o.NotHosts = v
	case "p":
		o.Ports = v
	case "np":
		o.NotPorts = v
	case "m":
		o.Methods = v
	case "nm":
		o.NotMethods = v
	case "pa":
		o.Paths = v
	case "npa":
		o.NotPaths = v
	}
}

// valid runs the REAL validator over every policy of the case.
func (s *sut) valid() bool {
	for _, p := range s.policies {
		_, err := validation.ValidateAuthorizationPolicy(config.Config{
			Meta: config.Meta{Name: p.Name, Namespace: p.Namespace, GroupVersionKind: gvk.AuthorizationPolicy, Annotations: p.Annotations},
			Spec: p.Spec,
		})
		if err != nil {
			return false
		}
	}
	return true
}

// newBuilders loads the policies of the case into a memory config store, derives model.AuthorizationPolicies
// with the REAL model.GetAuthorizationPolicies (root namespace from the mesh watcher, creation-time order,
// annotations) and creates the CUSTOM and Local builders through the REAL plugin entry point
// pilot/pkg/networking/plugin/authz.NewBuilder (trust domain bundle from the mesh config,
// PolicyMatcherForProxy + ListAuthorizationPolicies + ShouldAttachPolicy, builder.New).
func (s *sut) newBuilders(useAuth bool) [2]*authzplugin.Builder {
	mesh := &meshconfig.MeshConfig{TrustDomain: s.bundle[0], TrustDomainAliases: s.bundle[1:], RootNamespace: s.rootNS}
	for _, p := range s.providers {
		ep := &meshconfig.MeshConfig_ExtensionProvider{Name: p.name}
		if p.http {
			ep.Provider = &meshconfig.MeshConfig_ExtensionProvider_EnvoyExtAuthzHttp{
				EnvoyExtAuthzHttp: &meshconfig.MeshConfig_ExtensionProvider_EnvoyExternalAuthorizationHttpProvider{
					Service: p.service, Port: p.port, FailOpen: p.failOpen, StatusOnError: p.status, PathPrefix: p.pathPrefix,
				},
			}
		} else {
			ep.Provider = &meshconfig.MeshConfig_ExtensionProvider_EnvoyExtAuthzGrpc{
				EnvoyExtAuthzGrpc: &meshconfig.MeshConfig_ExtensionProvider_EnvoyExternalAuthorizationGrpcProvider{
					Service: p.service, Port: p.port, FailOpen: p.failOpen, StatusOnError: p.status,
				},
			}
		}
		mesh.ExtensionProviders = append(mesh.ExtensionProviders, ep)
	}
	store := memory.NewController(collections.Pilot, true) // validation is the harness's own, separate step (valid())
	t0 := time.Unix(1700000000, 0)
	for i, p := range s.policies {
		if _, err := store.Create(config.Config{
			Meta: config.Meta{GroupVersionKind: gvk.AuthorizationPolicy, Name: p.Name, Namespace: p.Namespace,
				Annotations: p.Annotations, CreationTimestamp: t0.Add(time.Duration(i) * time.Second)},
			Spec: p.Spec,
		}); err != nil {
			panic("store.Create: " + err.Error())
		}
	}
	env := &model.Environment{ConfigStore: store, Watcher: meshwatcher.NewTestWatcher(mesh)}
	push := &model.PushContext{AuthzPolicies: model.GetAuthorizationPolicies(env), Mesh: mesh}
	push.ServiceIndex.HostnameAndNamespace = map[host.Name]map[string]*model.Service{}
	for _, e := range registry {
		h := host.Name(e[0])
		if push.ServiceIndex.HostnameAndNamespace[h] == nil {
			push.ServiceIndex.HostnameAndNamespace[h] = map[string]*model.Service{}
		}
		push.ServiceIndex.HostnameAndNamespace[h][e[1]] = &model.Service{Hostname: h}
	}
	proxy := &model.Proxy{Type: s.proxyType, ConfigNamespace: s.wlNS, Labels: s.wlLabels, Metadata: &model.NodeMetadata{}}
	features.EnableMultipleCustomAuthzProviders = s.multi
	features.EnableSelectorBasedK8sGatewayPolicy = !s.noSelectorGW
	if s.term {
		return [2]*authzplugin.Builder{
			authzplugin.NewWaypointTerminationBuilder(authzplugin.Custom, push, proxy),
			authzplugin.NewWaypointTerminationBuilder(authzplugin.Local, push, proxy),
		}
	}
	if s.svc != nil {
		reg := provider.Kubernetes
		if !s.svc.k8s {
			reg = provider.External
		}
		// a ServiceEntry service: Attributes.Name = the hostname, ObjectName = the ServiceEntry's name
		svc := &model.Service{Hostname: host.Name(s.svc.name + "." + s.svc.ns + ".svc.cluster.local"),
			Attributes: model.ServiceAttributes{Name: s.svc.name, Namespace: s.svc.ns, ServiceRegistry: reg}}
		svc.Attributes.ObjectName = s.svc.objectName
		return [2]*authzplugin.Builder{
			authzplugin.NewBuilderForService(authzplugin.Custom, push, proxy, !useAuth, svc),
			authzplugin.NewBuilderForService(authzplugin.Local, push, proxy, !useAuth, svc),
		}
	}
	return [2]*authzplugin.Builder{
		authzplugin.NewBuilder(authzplugin.Custom, push, proxy, !useAuth),
		authzplugin.NewBuilder(authzplugin.Local, push, proxy, !useAuth),
	}
}

// build: kind = http (listener class = third token: in | gw | out), tcp, tcphttp (BuildTCPRulesAsHTTPFilter).
// The CUSTOM builder's filters come first, as the listener builder orders them.
func (s *sut) build(kind string, useAuth bool, class string) {
	s.forTCP = kind != "http"
	s.shapeTCP = kind == "tcp"
	bs, ok := s.builders[useAuth]
	if !ok {
		bs = s.newBuilders(useAuth)
		s.builders[useAuth] = bs
	}
	features.EnableMultipleCustomAuthzProviders = s.multi
	s.built = nil
	for _, b := range bs {
		switch kind {
		case "tcp":
			for _, f := range b.BuildTCP() {
				s.built = append(s.built, fromTCP(f))
			}
		case "tcphttp":
			for _, f := range b.BuildTCPRulesAsHTTPFilter() {
				s.built = append(s.built, fromHTTP(f))
			}
		default:
			lc := networking.ListenerClassSidecarInbound
			switch class {
			case "gw":
				lc = networking.ListenerClassGateway
			case "out":
				lc = networking.ListenerClassSidecarOutbound
			}
			for _, f := range b.BuildHTTP(lc) {
				s.built = append(s.built, fromHTTP(f))
			}
		}
	}
}

// apply runs one op against the real code; panics are reported as "crash".
func (s *sut) apply(f []string) (out string) {
	defer func() {
		if r := recover(); r != nil {
			out = fmt.Sprintf("crash %s", wire.Enc(fmt.Sprint(r)))
		}
	}()
	switch f[0] {
	case "case":
		*s = *newSUT()
		return "ok"
	case "td":
		s.bundle = wire.DecList(f[1])
		return "ok"
	case "wl":
		s.rootNS, s.wlNS = wire.Dec(f[1]), wire.Dec(f[2])
		s.wlLabels = map[string]string{}
		for _, e := range wire.DecList(f[3]) {
			k, v := kv(e)
			s.wlLabels[k] = v
		}
		if len(f) > 4 && f[4] == "router" {
			s.proxyType = model.Router
		}
		if len(f) > 4 && f[4] == "waypoint" {
			s.proxyType = model.Waypoint
		}
		if len(f) > 6 {
			for _, fl := range wire.DecList(f[6]) {
				switch fl {
				case "term":
					s.term = true
				case "nosel":
					s.noSelectorGW = true
				}
			}
		}
		if len(f) > 5 {
			if q := strings.Split(wire.Dec(f[5]), "|"); len(q) == 4 {
				s.svc = &svcInfo{name: q[0], objectName: q[1], ns: q[2], k8s: q[3] == "k8s"}
			}
		}
		return "ok"
	case "custom":
		s.providers, s.multi = nil, f[2] == "1"
		for _, t := range wire.DecList(f[1]) {
			s.providers = append(s.providers, parseProv(t))
		}
		return "ok"
	case "pol":
		p := model.AuthorizationPolicy{Namespace: wire.Dec(f[2]), Name: wire.Dec(f[3]), Annotations: map[string]string{},
			Spec: &authpb.AuthorizationPolicy{Action: actionOf(f[1])}}
		// "0" = no istio.io/dry-run annotation; anything else is the annotation's value
		if f[4] != "0" {
			p.Annotations["istio.io/dry-run"] = wire.Dec(f[4])
		}
		if prov := wire.Dec(f[5]); prov != "" {
			p.Spec.ActionDetail = &authpb.AuthorizationPolicy_Provider{Provider: &authpb.AuthorizationPolicy_ExtensionProvider{Name: prov}}
		}
		if len(f) > 6 {
			if f[6] == "%7B%7D" {
				p.Spec.Selector = &typepb.WorkloadSelector{} // `selector: {}`: non-nil, no labels (selects everything)
			} else if l := wire.DecList(f[6]); len(l) > 0 {
				p.Spec.Selector = &typepb.WorkloadSelector{MatchLabels: map[string]string{}}
				for _, e := range l {
					k, v := kv(e)
					p.Spec.Selector.MatchLabels[k] = v
				}
			}
		}
		// targetRefs: entries group|kind|name|namespace
		if len(f) > 7 {
			for _, e := range wire.DecList(f[7]) {
				q := strings.Split(e, "|")
				for len(q) < 4 {
					q = append(q, "")
				}
				p.Spec.TargetRefs = append(p.Spec.TargetRefs, &typepb.PolicyTargetReference{Group: q[0], Kind: q[1], Name: q[2], Namespace: q[3]})
			}
			// `legacy`: the first reference is the legacy single spec.targetRef
			if len(f) > 8 && f[8] == "legacy" && len(p.Spec.TargetRefs) > 0 {
				p.Spec.TargetRef, p.Spec.TargetRefs = p.Spec.TargetRefs[0], p.Spec.TargetRefs[1:]
			}
		}
		s.policies = append(s.policies, p)
		return "ok"
	case "rule":
		if s.lastPolicy() == nil {
			return "bad-op"
		}
		sp := s.lastPolicy().Spec
		sp.Rules = append(sp.Rules, &authpb.Rule{})
		return "ok"
	case "from":
		src := &authpb.Source{}
		for _, t := range f[1:] {
			k, v := kv(t)
			setSrc(src, k, wire.DecList(v))
		}
		r := s.lastRule()
		if r == nil {
			return "bad-op"
		}
		r.From = append(r.From, &authpb.Rule_From{Source: src})
		return "ok"
	case "to":
		op := &authpb.Operation{}
		for _, t := range f[1:] {
			k, v := kv(t)
			setOp(op, k, wire.DecList(v))
		}
		r := s.lastRule()
		if r == nil {
			return "bad-op"
		}
		r.To = append(r.To, &authpb.Rule_To{Operation: op})
		return "ok"
	case "when":
		r := s.lastRule()
		if r == nil {
			return "bad-op"
		}
		r.When = append(r.When, &authpb.Condition{Key: wire.Dec(f[1]), Values: wire.DecList(f[2]), NotValues: wire.DecList(f[3])})
		return "ok"
	case "build":
		class := "in"
		if len(f) > 3 {
			class = f[3]
		}
		s.build(f[1], f[2] == "1", class)
		out := canonFilters(s.built)
		// for policies the validator accepts the generated config must be one Envoy accepts (protoc-gen-validate
		// constraints of the RBAC / ext_authz protos); the model has no such mark: a rejected config shows as a
		// difference and the oracle reports it. (Validator-rejected keys such as request.headers[] do give
		// invalid matchers - empty header name - outside the property's quantifier.)
		if envoyRejects(s.built) != "" && s.valid() {
			out += " ENVOY-REJECTS-CONFIG"
		}
		return out
	case "req":
		r := parseReq(f[1:])
		// decision of the generated filters, decision of the statement, ext_authz filters consulted, providers the
		// statement says must be asked
		return decTok(evalFilters(s.built, r)) + " " + decTok(specDecision(s, r)) +
			" ext=" + wire.EncList(extAuthzAsked(s.built, r)) + " ask=" + wire.EncList(customAsks(s, r))
	}
	return "bad-op"
}

func decTok(b bool) string {
	if b {
		return "allow"
	}
	return "deny"
}

func execOps(stream, in, outp string) {
	out := wire.Create(outp)
	defer out.Close()
	s := newSUT()
	for _, f := range wire.ReadLines(in) {
		out.Line(s.apply(f))
		out.Flush()
	}
}
