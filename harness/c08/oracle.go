package main

// oracle: the property statement evaluated on the REAL generated filters, independently of the
// Lean model.  For every `req` line of a case: decision of the generated RBAC (reference
// interpreter over the real proto) vs the policy semantics (spec.go).
// The two decisions must be equal on every chain (HTTP, TCP, TCP rules as HTTP filter): the statement's
// clause 2 (spec.go) fixes the decision for rules that cannot be expressed, so there is no waiver.
// For cases without `req` lines (stream compile) requests are derived from the case's constants.

import (
	"fmt"
	"strings"

	"verifharness/internal/wire"
)

func oracle(stream, in, outp string) {
	out := wire.Create(outp)
	defer out.Close()
	lines := wire.ReadLines(in)
	var cur [][]string
	flush := func() {
		if len(cur) == 0 {
			return
		}
		out.Line(oracleCase(stream, cur))
		out.Flush()
		cur = nil
	}
	for _, f := range lines {
		if f[0] == "case" {
			flush()
		}
		cur = append(cur, f)
	}
	flush()
}

func oracleCase(stream string, ops [][]string) (verdict string) {
	defer func() {
		if r := recover(); r != nil {
			verdict = "FAIL crash " + wire.Enc(fmt.Sprint(r))
		}
	}()
	s := newSUT()
	nreq := 0
	valid := true
	checked := false
	for _, f := range ops {
		switch f[0] {
		case "req":
			nreq++
			if !valid {
				continue
			}
			r := parseReq(f[1:])
			c, sp := evalFilters(s.built, r), specDecision(s, r)
			if v := judge(s, r, c, sp, f, caseReqs(ops)); v != "" {
				return v
			}
			if v := judgeAsks(s, r, f, caseReqs(ops)); v != "" {
				return v
			}
		case "build":
			if !checked {
				valid = s.valid()
				checked = true
			}
			s.apply(f)
			if inv := envoyRejects(s.built); inv != "" && valid {
				kind := "http"
				if s.forTCP {
					kind = "tcp"
				}
				return fmt.Sprintf("FAIL %s:envoy-rejects-config class=other %s %s", kind, strings.Join(f, " "), wire.Enc(inv))
			}
		default:
			s.apply(f)
		}
	}
	if nreq == 0 && valid {
		// derive requests from the constants of the policies (used when a structural difference of the
		// compile stream has to be turned into a failing request)
		return derive(s, ops)
	}
	return "OK"
}

func caseReqs(ops [][]string) []*request {
	var out []*request
	for _, f := range ops {
		if f[0] == "req" {
			out = append(out, parseReq(f[1:]))
		}
	}
	return out
}

func judge(s *sut, r *request, compiled, spec bool, f []string, all []*request) string {
	if compiled == spec {
		return ""
	}
	// no waiver: the statement (incl. its clause for rules that cannot be expressed, spec.go) fixes the
	// decision on every chain
	kind := "http"
	if s.forTCP {
		kind = "tcp"
	}
	clause := "more-permissive"
	if !compiled {
		clause = "more-restrictive"
	}
	return fmt.Sprintf("FAIL %s:%s class=%s compiled=%s spec=%s %s", kind, clause, classify(s, r, all), decTok(compiled), decTok(spec), strings.Join(f, " "))
}

func sameList(a, b []string) bool {
	if len(a) != len(b) {
		return false
	}
	for i := range a {
		if a[i] != b[i] {
			return false
		}
	}
	return true
}

// judgeAsks: the CUSTOM half of the statement - the ext_authz filters the generated chain consults for the
// request are exactly those of the providers that must be asked.
func judgeAsks(s *sut, r *request, f []string, all []*request) string {
	got, want := extAuthzAsked(s.built, r), customAsks(s, r)
	if sameList(got, want) {
		return ""
	}
	kind := "http"
	if s.forTCP {
		kind = "tcp"
	}
	clause := "authorizer-not-asked"
	if len(got) > len(want) {
		clause = "authorizer-asked-needlessly"
	} else if len(got) == len(want) {
		clause = "authorizer-target-differs" // the right number of check requests, sent to another target / with other settings
	}
	class := classify(s, r, all)
	_, gotBy := extAuthzAskedBy(s.built, r)
	_, wantBy := customAsksBy(s, r)
	if class == classNames["xprov"] && !xprovCause(gotBy, wantBy) {
		class = "other"
	}
	return fmt.Sprintf("FAIL %s:%s class=%s consulted=%s must-ask=%s %s", kind, clause, class, wire.EncList(got), wire.EncList(want), strings.Join(f, " "))
}

// xprovCause: the disagreement has exactly the shape of the known ext_authz prefix finding: every provider that
// must be asked IS consulted, and every provider consulted in addition has a name that continues the name of
// a provider that was rightly consulted before it into that provider's policy ids (`x` -> `x-`, `x-n`, `x-ns`).
func xprovCause(got, want []string) bool {
	must := map[string]bool{}
	for _, w := range want {
		must[w] = true
	}
	seen := map[string]bool{}
	for _, g := range got {
		seen[g] = true
	}
	for _, w := range want {
		if !seen[w] {
			return false
		}
	}
	extra := 0
	for i, g := range got {
		if must[g] {
			continue
		}
		extra++
		ok := false
		for _, m := range got[:i] {
			if r := strings.TrimPrefix(g, m); must[m] && r != g && (r == "-" || r == "-n" || r == "-ns") {
				ok = true
			}
		}
		if !ok {
			return false
		}
	}
	return extra > 0
}

// classNames: loose reading (spec.go) -> finding fingerprint.
var classNames = map[string]string{
	"ns":  "namespace-regex-spans-slash",
	"jwt": "request-principal-prefix-inside-issuer",
	"hdr": "header-presence-matches-empty-value",
	"tdp": "principal-prefix-trust-domain-rewritten",
	"xprov": "ext-authz-enabled-by-other-provider-id-prefix",
}

// classify names the input class of a disagreement (used as the finding fingerprint). A known class is
// reported only when reading single policy values the way today's generated matcher behaves makes the
// statement agree with the generated filters on EVERY request of the case: first one value alone; if no
// single value explains the whole case, a minimal set of such values (each one necessary) - the class
// reported is then that of a value the failing request itself needs. Anything else is "other".
func classify(s *sut, r *request, all []*request) string {
	defer func() { loose = map[looseKey]bool{} }()
	explains := func() bool {
		for _, q := range all {
			if specDecision(s, q) != evalFilters(s.built, q) || !sameList(extAuthzAsked(s.built, q), customAsks(s, q)) {
				return false
			}
		}
		return true
	}
	var cands []looseKey
	seen := map[looseKey]bool{}
	add := func(class, v string) {
		k := looseKey{class, v}
		if !seen[k] {
			seen[k] = true
			cands = append(cands, k)
		}
	}
	value := func(key, v string) {
		switch {
		case key == "source.namespace":
			// today's namespace matcher is the unanchored regex `.*/ns/<glob with .*>/.*`
			add("ns", v)
		case key == "request.auth.principal":
			// a `prefix*` value is split at ITS last '/' into an exact issuer and a subject prefix
			if !strings.HasPrefix(v, "*") && strings.HasSuffix(v, "*") && v != "*" {
				add("jwt", v)
			}
		case key == "source.principal":
			// `prefix*` trust-domain part of a five-part principal
			if p := strings.Split(v, "/"); len(p) == 5 && tdPrefixForm(p[0]) {
				add("tdp", v)
			}
		case strings.HasPrefix(key, "request.headers"):
			// "*" compiles to present_match, which an empty header value satisfies
			if v == "*" {
				add("hdr", "*")
			}
		}
	}
	for i := range s.policies {
		// a CUSTOM provider whose name continues into another provider's policy ids (`x` / `x-ns`)
		if n := s.policies[i].Spec.GetProvider().GetName(); n != "" {
			for j := range s.policies {
				if m := s.policies[j].Spec.GetProvider().GetName(); m != "" && m != n && strings.HasPrefix(n, m) {
					if r := n[len(m):]; r == "-" || r == "-n" || r == "-ns" {
						add("xprov", n)
					}
				}
			}
		}
		for _, rule := range s.policies[i].Spec.Rules {
			for _, f := range rule.GetFrom() {
				if src := f.GetSource(); src != nil {
					for _, v := range append(append([]string{}, src.Namespaces...), src.NotNamespaces...) {
						value("source.namespace", v)
					}
					for _, v := range append(append([]string{}, src.RequestPrincipals...), src.NotRequestPrincipals...) {
						value("request.auth.principal", v)
					}
					for _, v := range append(append([]string{}, src.Principals...), src.NotPrincipals...) {
						value("source.principal", v)
					}
				}
			}
			for _, c := range rule.GetWhen() {
				for _, v := range append(append([]string{}, c.Values...), c.NotValues...) {
					value(c.Key, v)
				}
			}
		}
	}
	for _, k := range cands {
		loose = map[looseKey]bool{k: true}
		if explains() {
			return classNames[k.class]
		}
	}
	// several deviating values in one case
	loose = map[looseKey]bool{}
	for _, k := range cands {
		loose[k] = true
	}
	if len(cands) < 2 || !explains() {
		return "other"
	}
	for _, k := range cands {
		delete(loose, k)
		if !explains() {
			loose[k] = true
		}
	}
	for _, k := range cands {
		if !loose[k] {
			continue
		}
		delete(loose, k)
		needed := specDecision(s, r) != evalFilters(s.built, r) || !sameList(extAuthzAsked(s.built, r), customAsks(s, r))
		loose[k] = true
		if needed {
			return classNames[k.class]
		}
	}
	for _, k := range cands {
		if loose[k] {
			return classNames[k.class]
		}
	}
	return "other"
}

// derive builds requests from the policy constants (every combination of a few candidates per
// attribute would explode; a seeded sample is used) and judges them on HTTP and TCP builds.
func derive(s *sut, ops [][]string) string {
	g := &genCtx{r: wire.NewRng(12345), used: map[string][]string{}, phase3: true}
	// harvest constants
	for _, f := range ops {
		switch f[0] {
		case "from", "to":
			for _, t := range f[1:] {
				k, v := kv(t)
				for _, x := range wire.DecList(v) {
					harvest(g, k, x)
				}
			}
		case "when":
			key := wire.Dec(f[1])
			for _, x := range append(wire.DecList(f[2]), wire.DecList(f[3])...) {
				harvestWhen(g, key, x)
			}
		}
	}
	for _, kind := range []string{"http", "tcp", "tcphttp"} {
		tcp := kind != "http"
		for _, auth := range []string{"1"} {
			s.apply([]string{"build", kind, auth})
			if inv := envoyRejects(s.built); inv != "" {
				return fmt.Sprintf("FAIL %s:envoy-rejects-config class=other build %s %s %s", map[bool]string{false: "http", true: "tcp"}[tcp], kind, auth, wire.Enc(inv))
			}
			var lines [][]string
			var reqs []*request
			for i := 0; i < 400; i++ {
				f := strings.Fields(g.genReq(!tcp))
				lines = append(lines, f)
				reqs = append(reqs, parseReq(f[1:]))
			}
			for i, r := range reqs {
				c, sp := evalFilters(s.built, r), specDecision(s, r)
				if v := judge(s, r, c, sp, lines[i], reqs); v != "" {
					return v + " build=" + kind
				}
				if v := judgeAsks(s, r, lines[i], reqs); v != "" {
					return v + " build=" + kind
				}
			}
		}
	}
	return "OK"
}

func stripStars(x string) string { return strings.ReplaceAll(x, "*", "") }

func harvest(g *genCtx, k, x string) {
	switch k {
	case "pr", "npr":
		p := strings.Split(x, "/")
		if len(p) == 5 {
			g.note("peer", stripStarsOr(p[0], "cluster.local")+","+stripStarsOr(p[2], "foo")+","+stripStarsOr(p[4], "a"))
		}
	case "ns", "nns":
		g.note("ns", stripStarsOr(x, "foo"))
	case "sa", "nsa":
		ns, sa, ok := strings.Cut(x, "/")
		if !ok {
			ns, sa = "foo", x
		}
		g.note("peer", "cluster.local,"+stripStarsOr(ns, "foo")+","+stripStarsOr(sa, "a"))
	case "td", "ntd":
		g.note("td", stripStarsOr(x, "td1"))
	case "ip", "nip", "rip", "nrip":
		g.note("ip", x)
	case "h", "nh":
		g.note("host", stripStars(x))
	case "m", "nm":
		g.note("method", stripStars(x))
	case "pa", "npa":
		g.note("path", stripStars(x))
	case "p", "np":
		g.note("port", x)
	case "rp", "nrp":
		if i := strings.LastIndex(x, "/"); i >= 0 {
			g.note("jwt", stripStars(x[:i])+"|"+stripStars(x[i+1:]))
		}
	}
}

func stripStarsOr(x, d string) string {
	x = stripStars(x)
	if x == "" || strings.Contains(x, "/") {
		return d
	}
	return x
}

func harvestWhen(g *genCtx, key, x string) {
	switch {
	case strings.HasPrefix(key, "request.headers"):
		if n, ok := bracketName(strings.TrimPrefix(key, "request.headers")); ok {
			g.note("hname", n)
		}
		g.note("hval", stripStars(x))
	case key == "source.ip" || key == "remote.ip" || key == "destination.ip":
		g.note("ip", x)
	case key == "source.namespace":
		harvest(g, "ns", x)
	case key == "source.principal":
		harvest(g, "pr", x)
	case key == "source.serviceAccount":
		harvest(g, "sa", x)
	case key == "source.trustDomain":
		harvest(g, "td", x)
	case key == "destination.port":
		g.note("port", x)
	case key == "connection.sni":
		g.note("sni", stripStars(x))
	case key == "request.auth.principal":
		harvest(g, "rp", x)
	case key == "request.auth.audiences":
		g.note("aud", stripStars(x))
	case key == "request.auth.presenter":
		g.note("azp", stripStars(x))
	case strings.HasPrefix(key, "request.auth.claims"):
		g.note("claimk", strings.TrimPrefix(key, "request.auth.claims"))
		g.note("claimv", stripStars(x))
	case strings.HasPrefix(key, "experimental.envoy.filters."):
		g.note("expk", key)
		g.note("claimv", strings.Trim(stripStars(x), "[]"))
	}
}
