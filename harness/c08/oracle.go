package main

// oracle: the property statement evaluated on the REAL generated filters, independently of the
// Lean model.  For every `req` line of a case: decision of the generated RBAC (reference
// interpreter over the real proto) vs the policy semantics (spec.go).
//   HTTP listener: the two decisions must be equal.
//   TCP listener : the generated filters must never be more permissive than the policy.
// For cases without `req` lines (stream compile) requests are derived from the case's constants.

import (
	"fmt"
	"strings"

	"verifharness/internal/wire"
)

func oracle(stream, in, outp string) {
	out := wire.Create(outp)
	defer out.Close()
	lines := wire.ReadLines(in)
	var cur [][]string
	flush := func() {
		if len(cur) == 0 {
			return
		}
		out.Line(oracleCase(stream, cur))
		out.Flush()
		cur = nil
	}
	for _, f := range lines {
		if f[0] == "case" {
			flush()
		}
		cur = append(cur, f)
	}
	flush()
}

func oracleCase(stream string, ops [][]string) (verdict string) {
	defer func() {
		if r := recover(); r != nil {
			verdict = "FAIL crash " + wire.Enc(fmt.Sprint(r))
		}
	}()
	s := newSUT()
	nreq := 0
	valid := true
	checked := false
	for _, f := range ops {
		switch f[0] {
		case "req":
			nreq++
			if !valid {
				continue
			}
			r := parseReq(f[1:])
			c, sp := evalFilters(s.built, r), specDecision(s, r)
			if v := judge(s, r, c, sp, f); v != "" {
				return v
			}
		case "build":
			if !checked {
				valid = s.valid()
				checked = true
			}
			s.apply(f)
		default:
			s.apply(f)
		}
	}
	if nreq == 0 && valid {
		// derive requests from the constants of the policies (used when a structural difference of the
		// compile stream has to be turned into a failing request)
		return derive(s, ops)
	}
	return "OK"
}

func judge(s *sut, r *request, compiled, spec bool, f []string) string {
	if compiled == spec {
		return ""
	}
	kind := "http"
	if s.forTCP {
		kind = "tcp"
		if !compiled && spec && s.usesHTTPOnly() {
			return "" // fail-closed: HTTP-only fields on a TCP chain may only make the result less permissive
		}
	}
	clause := "more-permissive"
	if !compiled {
		clause = "more-restrictive"
		if s.untranslatable() {
			return "" // a rule that cannot be expressed may only make the result less permissive
		}
	}
	return fmt.Sprintf("FAIL %s:%s class=%s compiled=%s spec=%s %s", kind, clause, classify(s, r, compiled), decTok(compiled), decTok(spec), strings.Join(f, " "))
}

// classify names the minimal input class of a disagreement (used as the finding fingerprint).
func classify(s *sut, r *request, compiled bool) string {
	// today's namespace matcher is the unanchored regex `.*/ns/<glob with .*>/.*`: if reading
	// namespace values that way explains the generated decision, the disagreement belongs to that class
	looseNamespace = true
	loose := specDecision(s, r)
	looseNamespace = false
	if loose == compiled {
		return "namespace-regex-spans-slash"
	}
	// a `prefix*` requestPrincipals value is split at ITS last '/' into an exact issuer and a subject
	// prefix, so a prefix that ends inside the issuer (e.g. "https://issuer.exa*") matches nothing
	looseJWTPrefix = true
	loose = specDecision(s, r)
	looseJWTPrefix = false
	if loose == compiled {
		return "request-principal-prefix-inside-issuer"
	}
	return "other"
}

// derive builds requests from the policy constants (every combination of a few candidates per
// attribute would explode; a seeded sample is used) and judges them on HTTP and TCP builds.
func derive(s *sut, ops [][]string) string {
	g := &genCtx{r: wire.NewRng(12345), used: map[string][]string{}, phase3: true}
	// harvest constants
	for _, f := range ops {
		switch f[0] {
		case "from", "to":
			for _, t := range f[1:] {
				k, v := kv(t)
				for _, x := range wire.DecList(v) {
					harvest(g, k, x)
				}
			}
		case "when":
			key := wire.Dec(f[1])
			for _, x := range append(wire.DecList(f[2]), wire.DecList(f[3])...) {
				harvestWhen(g, key, x)
			}
		}
	}
	for _, tcp := range []bool{false, true} {
		for _, auth := range []string{"1"} {
			kind := "http"
			if tcp {
				kind = "tcp"
			}
			s.apply([]string{"build", kind, auth})
			for i := 0; i < 400; i++ {
				line := g.genReq(!tcp)
				f := strings.Fields(line)
				r := parseReq(f[1:])
				c, sp := evalFilters(s.built, r), specDecision(s, r)
				if v := judge(s, r, c, sp, f); v != "" {
					return v + " build=" + kind
				}
			}
		}
	}
	return "OK"
}

func stripStars(x string) string { return strings.ReplaceAll(x, "*", "") }

func harvest(g *genCtx, k, x string) {
	switch k {
	case "pr", "npr":
		p := strings.Split(x, "/")
		if len(p) == 5 {
			g.note("peer", stripStarsOr(p[0], "cluster.local")+","+stripStarsOr(p[2], "foo")+","+stripStarsOr(p[4], "a"))
		}
	case "ns", "nns":
		g.note("ns", stripStarsOr(x, "foo"))
	case "sa", "nsa":
		ns, sa, ok := strings.Cut(x, "/")
		if !ok {
			ns, sa = "foo", x
		}
		g.note("peer", "cluster.local,"+stripStarsOr(ns, "foo")+","+stripStarsOr(sa, "a"))
	case "td", "ntd":
		g.note("td", stripStarsOr(x, "td1"))
	case "ip", "nip", "rip", "nrip":
		g.note("ip", x)
	case "h", "nh":
		g.note("host", stripStars(x))
	case "m", "nm":
		g.note("method", stripStars(x))
	case "pa", "npa":
		g.note("path", stripStars(x))
	case "p", "np":
		g.note("port", x)
	case "rp", "nrp":
		if i := strings.LastIndex(x, "/"); i >= 0 {
			g.note("jwt", stripStars(x[:i])+"|"+stripStars(x[i+1:]))
		}
	}
}

func stripStarsOr(x, d string) string {
	x = stripStars(x)
	if x == "" || strings.Contains(x, "/") {
		return d
	}
	return x
}

func harvestWhen(g *genCtx, key, x string) {
	switch {
	case strings.HasPrefix(key, "request.headers"):
		if n, ok := bracketName(strings.TrimPrefix(key, "request.headers")); ok {
			g.note("hname", n)
		}
		g.note("hval", stripStars(x))
	case key == "source.ip" || key == "remote.ip" || key == "destination.ip":
		g.note("ip", x)
	case key == "source.namespace":
		harvest(g, "ns", x)
	case key == "source.principal":
		harvest(g, "pr", x)
	case key == "source.serviceAccount":
		harvest(g, "sa", x)
	case key == "source.trustDomain":
		harvest(g, "td", x)
	case key == "destination.port":
		g.note("port", x)
	case key == "connection.sni":
		g.note("sni", stripStars(x))
	case key == "request.auth.principal":
		harvest(g, "rp", x)
	case key == "request.auth.audiences":
		g.note("aud", stripStars(x))
	case key == "request.auth.presenter":
		g.note("azp", stripStars(x))
	case strings.HasPrefix(key, "request.auth.claims"):
		g.note("claimk", strings.TrimPrefix(key, "request.auth.claims"))
		g.note("claimv", stripStars(x))
	case strings.HasPrefix(key, "experimental.envoy.filters."):
		g.note("expk", key)
		g.note("claimv", strings.Trim(stripStars(x), "[]"))
	}
}
