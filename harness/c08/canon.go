package main

import (
	"fmt"
	"sort"
	"strings"

	corepb "github.com/envoyproxy/go-control-plane/envoy/config/core/v3"
	listener "github.com/envoyproxy/go-control-plane/envoy/config/listener/v3"
	rbacpb "github.com/envoyproxy/go-control-plane/envoy/config/rbac/v3"
	routepb "github.com/envoyproxy/go-control-plane/envoy/config/route/v3"
	extauthzhttp "github.com/envoyproxy/go-control-plane/envoy/extensions/filters/http/ext_authz/v3"
	rbachttp "github.com/envoyproxy/go-control-plane/envoy/extensions/filters/http/rbac/v3"
	extauthztcp "github.com/envoyproxy/go-control-plane/envoy/extensions/filters/network/ext_authz/v3"
	hcm "github.com/envoyproxy/go-control-plane/envoy/extensions/filters/network/http_connection_manager/v3"
	rbactcp "github.com/envoyproxy/go-control-plane/envoy/extensions/filters/network/rbac/v3"
	uritemplate "github.com/envoyproxy/go-control-plane/envoy/extensions/path/match/uri_template/v3"
	matcherpb "github.com/envoyproxy/go-control-plane/envoy/type/matcher/v3"
	typev3 "github.com/envoyproxy/go-control-plane/envoy/type/v3"
	"google.golang.org/protobuf/proto"

	"verifharness/internal/wire"
)

// builtFilter is the decoded typed_config of one generated filter.
type builtFilter struct {
	name         string
	rules        *rbacpb.RBAC
	shadow       *rbacpb.RBAC
	shadowPrefix string
	statPrefix   string
	other        string // anything the canonical form does not cover (must stay empty)
	// protoc-gen-validate verdict on the filter's typed config (ValidateAll): non-empty = Envoy would NACK the
	// listener that carries this filter
	invalid string
	// ext_authz filter of the CUSTOM action: only the metadata matcher that enables it is compared
	extAuthz *matcherpb.MetadataMatcher
	// ... and its target: kind, upstream cluster, authority / URI host, failure mode, status on error, path prefix
	// (everything else of the ext_authz config must have the fixed default the harness never changes)
	target string
	label  string // = target: names the consulted authorizer on `req` lines
}

// extTargetHTTP / extTargetTCP: canonical target of an ext_authz filter.
func extTarget(kind, cluster, hostname string, failOpen bool, status *typev3.HttpStatus, prefix string) string {
	st := "nil"
	if status != nil {
		st = fmt.Sprint(int32(status.GetCode()))
	}
	fo := "0"
	if failOpen {
		fo = "1"
	}
	return fmt.Sprintf("(%s cluster=%s host=%s failopen=%s status=%s prefix=%s)", kind, wire.Enc(cluster), wire.Enc(hostname), fo, st, wire.Enc(prefix))
}

func (b *builtFilter) httpTarget(ea *extauthzhttp.ExtAuthz) {
	rest := proto.Clone(ea).(*extauthzhttp.ExtAuthz)
	switch sv := ea.GetServices().(type) {
	case *extauthzhttp.ExtAuthz_GrpcService:
		eg := sv.GrpcService.GetEnvoyGrpc()
		b.target = extTarget("grpc", eg.GetClusterName(), eg.GetAuthority(), ea.GetFailureModeAllow(), ea.GetStatusOnError(), "")
		b.label = b.target
		if sv.GrpcService.GetTimeout().GetSeconds() != 600 || sv.GrpcService.GetGoogleGrpc() != nil || len(sv.GrpcService.GetInitialMetadata()) != 0 {
			b.other = "ext-authz-grpc-service"
		}
	case *extauthzhttp.ExtAuthz_HttpService:
		hs := sv.HttpService
		b.target = extTarget("http", hs.GetServerUri().GetCluster(), strings.TrimPrefix(hs.GetServerUri().GetUri(), "http://"),
			ea.GetFailureModeAllow(), ea.GetStatusOnError(), hs.GetPathPrefix())
		b.label = b.target
		if hs.GetServerUri().GetTimeout().GetSeconds() != 600 || !strings.HasPrefix(hs.GetServerUri().GetUri(), "http://") ||
			hs.GetAuthorizationRequest() != nil || hs.GetAuthorizationResponse() != nil {
			b.other = "ext-authz-http-service"
		}
	default:
		b.other = "ext-authz-without-service"
	}
	rest.Services, rest.FilterEnabledMetadata, rest.StatusOnError, rest.FailureModeAllow = nil, nil, nil, false
	rest.TransportApiVersion = 0
	if ea.GetTransportApiVersion() != corepb.ApiVersion_V3 || proto.Size(rest) != 0 {
		b.other += "+ext-authz-extra-fields"
	}
}

func (b *builtFilter) tcpTarget(ea *extauthztcp.ExtAuthz) {
	eg := ea.GetGrpcService().GetEnvoyGrpc()
	b.target = extTarget("grpc", eg.GetClusterName(), eg.GetAuthority(), ea.GetFailureModeAllow(), nil, "")
	b.label = b.target
	rest := proto.Clone(ea).(*extauthztcp.ExtAuthz)
	rest.GrpcService, rest.FilterEnabledMetadata, rest.FailureModeAllow, rest.StatPrefix, rest.TransportApiVersion = nil, nil, false, "", 0
	if ea.GetStatPrefix() != "tcp." || ea.GetTransportApiVersion() != corepb.ApiVersion_V3 || ea.GetGrpcService().GetTimeout().GetSeconds() != 600 ||
		proto.Size(rest) != 0 {
		b.other += "+ext-authz-extra-fields"
	}
}

func fromHTTP(f *hcm.HttpFilter) *builtFilter {
	b := &builtFilter{name: f.GetName()}
	cfg := &rbachttp.RBAC{}
	if ea := (&extauthzhttp.ExtAuthz{}); f.GetTypedConfig().UnmarshalTo(ea) == nil {
		b.extAuthz = ea.GetFilterEnabledMetadata()
		b.httpTarget(ea)
		if b.extAuthz == nil {
			b.other = "ext-authz-without-enabling-metadata"
		}
		if err := ea.ValidateAll(); err != nil {
			b.invalid = err.Error()
		}
		return b
	}
	if err := f.GetTypedConfig().UnmarshalTo(cfg); err != nil {
		b.other = "not-http-rbac:" + f.GetTypedConfig().GetTypeUrl()
		return b
	}
	if err := cfg.ValidateAll(); err != nil {
		b.invalid = err.Error()
	}
	b.rules, b.shadow, b.shadowPrefix = cfg.Rules, cfg.ShadowRules, cfg.ShadowRulesStatPrefix
	rest := proto.Clone(cfg).(*rbachttp.RBAC)
	rest.Rules, rest.ShadowRules, rest.ShadowRulesStatPrefix = nil, nil, ""
	if proto.Size(rest) != 0 {
		b.other = "extra-fields"
	}
	if f.GetDisabled() || f.GetIsOptional() {
		b.other += "+flags"
	}
	return b
}

func fromTCP(f *listener.Filter) *builtFilter {
	b := &builtFilter{name: f.GetName()}
	cfg := &rbactcp.RBAC{}
	if ea := (&extauthztcp.ExtAuthz{}); f.GetTypedConfig().UnmarshalTo(ea) == nil {
		b.extAuthz = ea.GetFilterEnabledMetadata()
		b.tcpTarget(ea)
		if b.extAuthz == nil {
			b.other = "ext-authz-without-enabling-metadata"
		}
		if err := ea.ValidateAll(); err != nil {
			b.invalid = err.Error()
		}
		return b
	}
	if err := f.GetTypedConfig().UnmarshalTo(cfg); err != nil {
		b.other = "not-tcp-rbac:" + f.GetTypedConfig().GetTypeUrl()
		return b
	}
	if err := cfg.ValidateAll(); err != nil {
		b.invalid = err.Error()
	}
	b.rules, b.shadow, b.shadowPrefix, b.statPrefix = cfg.Rules, cfg.ShadowRules, cfg.ShadowRulesStatPrefix, cfg.StatPrefix
	rest := proto.Clone(cfg).(*rbactcp.RBAC)
	rest.Rules, rest.ShadowRules, rest.ShadowRulesStatPrefix, rest.StatPrefix = nil, nil, "", ""
	if proto.Size(rest) != 0 {
		b.other = "extra-fields"
	}
	return b
}

// envoyRejects: the first ValidateAll error among the built filters ("" = Envoy accepts the config).
func envoyRejects(fs []*builtFilter) string {
	for _, f := range fs {
		if f.invalid != "" {
			return f.name + ": " + f.invalid
		}
	}
	return ""
}

func canonFilters(fs []*builtFilter) string {
	parts := make([]string, len(fs))
	for i, f := range fs {
		parts[i] = canonFilter(f)
	}
	return "[" + strings.Join(parts, " ") + "]"
}

func canonFilter(f *builtFilter) string {
	if f.extAuthz != nil {
		s := "(extauthz " + wire.Enc(f.name) + " enabled=" + canonMeta(f.extAuthz) + " target=" + f.target
		if f.other != "" {
			s += " UNEXPECTED=" + wire.Enc(f.other)
		}
		return s + ")"
	}
	s := fmt.Sprintf("(filter %s rules=%s shadow=%s sprefix=%s stat=%s", wire.Enc(f.name), canonRBAC(f.rules), canonRBAC(f.shadow),
		wire.Enc(f.shadowPrefix), wire.Enc(f.statPrefix))
	if f.other != "" {
		s += " UNEXPECTED=" + wire.Enc(f.other)
	}
	return s + ")"
}

func canonRBAC(r *rbacpb.RBAC) string {
	if r == nil {
		return "nil"
	}
	var b strings.Builder
	b.WriteString("(")
	b.WriteString(r.GetAction().String())
	names := make([]string, 0, len(r.Policies))
	for n := range r.Policies {
		names = append(names, n)
	}
	sort.Strings(names)
	for _, n := range names {
		p := r.Policies[n]
		b.WriteString(" (" + wire.Enc(n) + " perms=[")
		for i, x := range p.Permissions {
			if i > 0 {
				b.WriteString(" ")
			}
			b.WriteString(canonPerm(x))
		}
		b.WriteString("] prins=[")
		for i, x := range p.Principals {
			if i > 0 {
				b.WriteString(" ")
			}
			b.WriteString(canonPrin(x))
		}
		b.WriteString("]")
		if p.Condition != nil || p.CheckedCondition != nil {
			b.WriteString(" UNEXPECTED=condition")
		}
		b.WriteString(")")
	}
	rest := proto.Clone(r).(*rbacpb.RBAC)
	rest.Action, rest.Policies = 0, nil
	if proto.Size(rest) != 0 {
		b.WriteString(" UNEXPECTED=rbac-fields")
	}
	b.WriteString(")")
	return b.String()
}

func unexpected(m proto.Message) string {
	return "(UNEXPECTED " + wire.Enc(fmt.Sprintf("%T %v", m, m)) + ")"
}

func canonPerm(p *rbacpb.Permission) string {
	switch r := p.GetRule().(type) {
	case *rbacpb.Permission_Any:
		if r.Any {
			return "any"
		}
	case *rbacpb.Permission_AndRules:
		return "(and" + joinPerms(r.AndRules.GetRules()) + ")"
	case *rbacpb.Permission_OrRules:
		return "(or" + joinPerms(r.OrRules.GetRules()) + ")"
	case *rbacpb.Permission_NotRule:
		return "(not " + canonPerm(r.NotRule) + ")"
	case *rbacpb.Permission_DestinationIp:
		return "(dip " + canonCidr(r.DestinationIp) + ")"
	case *rbacpb.Permission_DestinationPort:
		return fmt.Sprintf("(dport %d)", r.DestinationPort)
	case *rbacpb.Permission_RequestedServerName:
		return "(sni " + canonStr(r.RequestedServerName) + ")"
	case *rbacpb.Permission_Header:
		return canonHeader(r.Header)
	case *rbacpb.Permission_UrlPath:
		if pm, ok := r.UrlPath.GetRule().(*matcherpb.PathMatcher_Path); ok {
			return "(path " + canonStr(pm.Path) + ")"
		}
	case *rbacpb.Permission_UriTemplate:
		cfg := &uritemplate.UriTemplateMatchConfig{}
		if r.UriTemplate.GetName() == "uri-template" && r.UriTemplate.GetTypedConfig().UnmarshalTo(cfg) == nil {
			return "(tmpl " + wire.Enc(cfg.PathTemplate) + ")"
		}
	case *rbacpb.Permission_Metadata:
		return canonMeta(r.Metadata)
	}
	return unexpected(p)
}

func joinPerms(l []*rbacpb.Permission) string {
	var b strings.Builder
	for _, x := range l {
		b.WriteString(" " + canonPerm(x))
	}
	return b.String()
}

func canonPrin(p *rbacpb.Principal) string {
	switch r := p.GetIdentifier().(type) {
	case *rbacpb.Principal_Any:
		if r.Any {
			return "any"
		}
	case *rbacpb.Principal_AndIds:
		return "(and" + joinPrins(r.AndIds.GetIds()) + ")"
	case *rbacpb.Principal_OrIds:
		return "(or" + joinPrins(r.OrIds.GetIds()) + ")"
	case *rbacpb.Principal_NotId:
		return "(not " + canonPrin(r.NotId) + ")"
	case *rbacpb.Principal_Authenticated_:
		if r.Authenticated.GetPrincipalName() != nil {
			return "(auth " + canonStr(r.Authenticated.GetPrincipalName()) + ")"
		}
	case *rbacpb.Principal_FilterState:
		if sm, ok := r.FilterState.GetMatcher().(*matcherpb.FilterStateMatcher_StringMatch); ok {
			return "(fstate " + wire.Enc(r.FilterState.GetKey()) + " " + canonStr(sm.StringMatch) + ")"
		}
	case *rbacpb.Principal_DirectRemoteIp:
		return "(drip " + canonCidr(r.DirectRemoteIp) + ")"
	case *rbacpb.Principal_RemoteIp:
		return "(rip " + canonCidr(r.RemoteIp) + ")"
	case *rbacpb.Principal_Header:
		return canonHeader(r.Header)
	case *rbacpb.Principal_Metadata:
		return canonMeta(r.Metadata)
	}
	return unexpected(p)
}

func joinPrins(l []*rbacpb.Principal) string {
	var b strings.Builder
	for _, x := range l {
		b.WriteString(" " + canonPrin(x))
	}
	return b.String()
}

func canonCidr(c *corepb.CidrRange) string {
	if c.GetPrefixLen() == nil {
		return "UNEXPECTED-nolen"
	}
	return fmt.Sprintf("%s/%d", wire.Enc(c.GetAddressPrefix()), c.GetPrefixLen().GetValue())
}

func canonStr(m *matcherpb.StringMatcher) string {
	ic := ""
	if m.GetIgnoreCase() {
		ic = "i"
	}
	switch p := m.GetMatchPattern().(type) {
	case *matcherpb.StringMatcher_Exact:
		return "(" + ic + "exact " + wire.Enc(p.Exact) + ")"
	case *matcherpb.StringMatcher_Prefix:
		return "(" + ic + "prefix " + wire.Enc(p.Prefix) + ")"
	case *matcherpb.StringMatcher_Suffix:
		return "(" + ic + "suffix " + wire.Enc(p.Suffix) + ")"
	case *matcherpb.StringMatcher_SafeRegex:
		if ic == "" && p.SafeRegex.GetEngineType() == nil {
			return "(regex " + wire.Enc(p.SafeRegex.GetRegex()) + ")"
		}
	}
	return unexpected(m)
}

func canonHeader(h *routepb.HeaderMatcher) string {
	if h.GetInvertMatch() || h.GetTreatMissingHeaderAsEmpty() {
		return unexpected(h)
	}
	switch s := h.GetHeaderMatchSpecifier().(type) {
	case *routepb.HeaderMatcher_PresentMatch:
		if s.PresentMatch {
			return "(hdr " + wire.Enc(h.GetName()) + " present)"
		}
	case *routepb.HeaderMatcher_StringMatch:
		return "(hdr " + wire.Enc(h.GetName()) + " " + canonStr(s.StringMatch) + ")"
	}
	return unexpected(h)
}

func canonMeta(m *matcherpb.MetadataMatcher) string {
	if m.GetInvert() {
		return unexpected(m)
	}
	var path []string
	for _, seg := range m.GetPath() {
		k, ok := seg.GetSegment().(*matcherpb.MetadataMatcher_PathSegment_Key)
		if !ok {
			return unexpected(m)
		}
		path = append(path, k.Key)
	}
	return "(meta " + wire.Enc(m.GetFilter()) + " path=" + wire.EncList(path) + " " + canonVal(m.GetValue()) + ")"
}

func canonVal(v *matcherpb.ValueMatcher) string {
	switch p := v.GetMatchPattern().(type) {
	case *matcherpb.ValueMatcher_StringMatch:
		return "(str " + canonStr(p.StringMatch) + ")"
	case *matcherpb.ValueMatcher_OrMatch:
		var b strings.Builder
		b.WriteString("(or")
		for _, x := range p.OrMatch.GetValueMatchers() {
			b.WriteString(" " + canonVal(x))
		}
		b.WriteString(")")
		return b.String()
	case *matcherpb.ValueMatcher_ListMatch:
		if o, ok := p.ListMatch.GetMatchPattern().(*matcherpb.ListMatcher_OneOf); ok {
			return "(list " + canonVal(o.OneOf) + ")"
		}
	}
	return unexpected(v)
}
