package main

// Grammar-directed generator: AuthorizationPolicies over small constant pools (so that requests
// built from the same constants and their near misses hit every branch), plus malformed values.
// Every random choice derives from wire.Rng.

import (
	"fmt"
	"strings"

	"verifharness/internal/wire"
)

var (
	poolTD     = []string{"cluster.local", "td1", "old-td", "cluster.local", "td1"}
	poolNS     = []string{"foo", "bar", "foo-1", "prod", "default", "dev"}
	poolSA     = []string{"a", "sleep", "httpbin", "bar", "admin", "my.sa"}
	poolHost   = []string{"example.com", "Example.com", "a.example.com", "example.com:8080", "test.org", "EXAMPLE.COM"}
	poolMethod = []string{"GET", "POST", "PUT", "get", "G", "DELETE"}
	poolPath   = []string{"/", "/a", "/a/b", "/admin", "/admin/x", "/A", "/a.b", "/x+y", "/info/v1", "/a/b/c"}
	poolHName  = []string{"x-foo", "X-Foo", "User-Agent", "x-b", "authorization", "x-request-id", "Accept", "x-env", "x_under", "X-B"}
	poolHVal   = []string{"a", "abc", "ABC", "curl/8.0", "b.c", "x y"}
	poolPort   = []string{"80", "8080", "443", "0080", "65535", "0"}
	badPort    = []string{"65536", "-1", "abc", "", "80a", "4294967376", "+80"}
	poolIP     = []string{"10.0.0.1", "10.0.0.0/8", "10.1.2.3/16", "192.168.1.0/24", "0.0.0.0/0", "1.2.3.4/32", "10.0.0.2/31", "172.16.0.0/12"}
	poolIP6    = []string{"2001:db8::/32", "2001:db8::1", "2001:DB8:0:0:1::/64", "::ffff:10.0.0.1", "::/0", "fe80::1%eth0", "1:2:3:4:5:6:7::", "::1/128", "2001:db8:0:1:0:0:0:1/127",
		"::ffff:1.2.3.0/120", "1:0:0:2:0:0:0:3", "0:0:1::/48"}
	badIP      = []string{"10.0.0.256", "10.0.0", "10.0.0.1/33", "010.0.0.1", "a.b.c.d", "10.0.0.1/", "10.0.0.1/08", "", "10.0.0.1.2", "10..0.1", "1.2.3.4/+8", "/8",
		"2001:db8::/129", "1::2::3", "2001:db8:::1", "12345::", "fe80::1%eth0/64", "::ffff:1.2.3", "1:2:3:4:5:6:7:8:9", "1:2:3:4:5:6:7:8::", ":1::2", "1:2:3:4:5:6:7", "fe80::1%",
		"1:2:3:4:5:6:1.2.3.4.5", "1::g", "1:2:3:4:5:6:7:1.2.3.4", "::1/-1", "::1/0128", "%eth0", "1.2.3.4%eth0", "1:2.3.4.5::"}
	poolSNI    = []string{"www.example.com", "api.example.com", "test.org"}
	reqIPs6    = []string{"2001:db8::1", "2001:db8:ffff:ffff:ffff:ffff:ffff:ffff", "2001:db9::", "::1", "::", "::ffff:10.0.0.1", "fe80::1", "1:2:3:4:5:6:7:0", "2001:db8:0:1::", "::ffff:1.2.3.4"}
	reqIPs     = []string{"10.0.0.1", "10.0.0.2", "10.0.0.3", "10.1.255.255", "10.2.0.0", "11.0.0.0", "192.168.1.77", "192.168.2.1", "1.2.3.4", "1.2.3.5", "172.31.255.255", "172.32.0.0", "0.0.0.0", "255.255.255.255"}
)

type genCtx struct {
	r      *wire.Rng
	out    *wire.Out
	valid  bool // only values the validator accepts
	phase3 bool // JWT / templates / experimental keys
	// constants used by the policies of the current case, per attribute
	used map[string][]string
	// generating a rule of a CUSTOM policy: validation forbids the peer / JWT identity fields there
	customRule bool
}

func (g *genCtx) note(kind string, vs ...string) { g.used[kind] = append(g.used[kind], vs...) }

// form turns a base constant into one of the value forms.
func (g *genCtx) form(b string, allowWeird bool) string {
	r := g.r
	if b == "" {
		return b
	}
	switch x := r.Intn(100); {
	case x < 40:
		return b
	case x < 60:
		return b[:1+r.Intn(len(b))] + "*"
	case x < 80:
		return "*" + b[r.Intn(len(b)):]
	case x < 88:
		return "*"
	default:
		if !allowWeird || g.valid {
			return b
		}
		switch r.Intn(5) {
		case 0:
			return "**"
		case 1:
			return "*" + b + "*"
		case 2:
			k := 1 + r.Intn(len(b))
			return b[:k] + "*" + b[k:]
		case 3:
			return ""
		default:
			return b + "**"
		}
	}
}

func (g *genCtx) listOf(n int, f func() string) []string {
	var out []string
	for i := 0; i < n; i++ {
		out = append(out, f())
	}
	return out
}

// vals returns (values, notValues) for one field: mostly one of them set, 1-3 entries.
func (g *genCtx) vals(f func() string) ([]string, []string) {
	r := g.r
	n := 1 + r.Intn(3)
	if r.Chance(1, 10) {
		n = 4 + r.Intn(4) // long value lists
	}
	if r.Chance(1, 12) {
		// duplicate values (Go slices keep them; the OR / NOT(OR) semantics must not care)
		l := g.listOf(n, f)
		l = append(l, l[r.Intn(len(l))])
		if r.Chance(1, 2) {
			return l, nil
		}
		return nil, l
	}
	switch r.Intn(10) {
	case 0, 1, 2, 3, 4, 5:
		return g.listOf(n, f), nil
	case 6, 7, 8:
		return nil, g.listOf(n, f)
	default:
		return g.listOf(n, f), g.listOf(1+r.Intn(2), f)
	}
}

func (g *genCtx) principal() string {
	r := g.r
	td, ns, sa := wire.Pick(r, poolTD), wire.Pick(r, poolNS), wire.Pick(r, poolSA)
	full := td + "/ns/" + ns + "/sa/" + sa
	g.note("peer", td+","+ns+","+sa)
	switch x := r.Intn(100); {
	case x < 45:
		return full
	case x < 55:
		return "*/ns/" + ns + "/sa/" + sa
	case x < 65:
		return td + "/ns/" + ns + "/*"
	case x < 72:
		return "*/sa/" + sa
	case x < 78:
		return "*"
	case x < 84:
		return td + "/*"
	case x < 90:
		// cut anywhere, also inside the trust-domain part (`*ocal/ns/foo/sa/a` is a five-part value with a
		// `*suffix` trust domain: alias handling applies to it)
		return g.form(full, true)
	case x < 94:
		// five-part value with a wildcard inside the trust-domain part (validator-accepted)
		k := 1 + r.Intn(len(td)-1)
		return wire.Pick(r, []string{td[:k] + "*", "*" + td[k:], td[:k] + "*", td[:1] + "*" + td[len(td)-1:]}) + "/ns/" + ns + "/sa/" + sa
	default:
		if g.valid {
			return full
		}
		return wire.Pick(r, []string{ns + "/sa/" + sa, "", "*" + full + "*", td + "*/ns/" + ns + "/sa/" + sa, "/ns/" + ns + "/sa/" + sa})
	}
}

func (g *genCtx) namespace() string {
	r := g.r
	ns := wire.Pick(r, poolNS)
	if r.Chance(1, 40) {
		ns = wire.Pick(r, []string{"ns", "sa"}) // legal namespace names that collide with the SPIFFE path keywords
	}
	g.note("ns", ns)
	switch x := r.Intn(100); {
	case x < 50:
		return ns
	case x < 62:
		return ns[:1+r.Intn(len(ns))] + "*"
	case x < 74:
		return "*" + ns[r.Intn(len(ns)):]
	case x < 80:
		return "*"
	case x < 88:
		k := 1 + r.Intn(len(ns))
		return ns[:k] + "*" + ns[k:]
	case x < 91:
		// validator-accepted values with a '/' (no namespace has one: the statement says they match nothing)
		sa := wire.Pick(r, poolSA)
		g.note("peer", "cluster.local,"+ns+","+sa)
		return wire.Pick(r, []string{ns + "/sa", ns + "/sa/" + sa, ns + "/", "ns/" + ns, ns + "/sa/*"})
	default:
		if g.valid {
			return ns
		}
		return wire.Pick(r, []string{"", "**", "*" + ns + "*", ns + ".x", "a+b", "(x)"})
	}
}

func (g *genCtx) serviceAccount() string {
	r := g.r
	ns, sa := wire.Pick(r, poolNS), wire.Pick(r, poolSA)
	g.note("peer", "cluster.local,"+ns+","+sa)
	switch x := r.Intn(100); {
	case x < 45:
		return sa
	case x < 90:
		return ns + "/" + sa
	default:
		if g.valid {
			return sa
		}
		return wire.Pick(r, []string{"", "*", ns + "/" + sa + "/x", "/" + sa, ns + "/", sa + "*", "a.b/" + sa})
	}
}

func (g *genCtx) trustDomain(inWhen bool) string {
	r := g.r
	td := wire.Pick(r, poolTD)
	g.note("td", td)
	switch x := r.Intn(100); {
	case x < 45:
		return td
	case x < 60:
		return td[:1+r.Intn(len(td))] + "*"
	case x < 75:
		return "*" + td[r.Intn(len(td)):]
	case x < 82:
		return "*"
	default:
		if g.valid {
			return td
		}
		// '/' inside a trust domain is rejected by validation in `from` and (since the fix in /repo) in `when`
		k := 1 + r.Intn(len(td)-1)
		return wire.Pick(r, []string{td[:k] + "*" + td[k:], "", "**", td + "/ns", td + "/ns/foo", "*" + td + "*", "t.d"})
	}
}

func (g *genCtx) ipBlock() string {
	if !g.valid && g.r.Chance(1, 6) {
		return wire.Pick(g.r, badIP)
	}
	v := wire.Pick(g.r, poolIP)
	if g.r.Chance(1, 4) {
		v = wire.Pick(g.r, poolIP6)
	}
	g.note("ip", v)
	return v
}

func (g *genCtx) port() string {
	if !g.valid && g.r.Chance(1, 6) {
		return wire.Pick(g.r, badPort)
	}
	v := wire.Pick(g.r, poolPort)
	g.note("port", v)
	return v
}

func (g *genCtx) host() string {
	b := wire.Pick(g.r, poolHost)
	g.note("host", b)
	return g.form(b, true)
}

func (g *genCtx) method() string {
	b := wire.Pick(g.r, poolMethod)
	g.note("method", b)
	return g.form(b, true)
}

func (g *genCtx) path() string {
	b := wire.Pick(g.r, poolPath)
	g.note("path", b)
	if g.phase3 && g.r.Chance(1, 5) {
		return g.pathTemplate()
	}
	return g.form(b, true)
}

// pathTemplate: 1-4 segments, literal or {*}, optionally one {**} (which must be the last operator; literal
// segments may follow it). Other shapes only in invalid mode.
func (g *genCtx) pathTemplate() string {
	r := g.r
	lits := []string{"a", "b", "c", "admin", "info", "v1", "x", "a.b"}
	n := 1 + r.Intn(4)
	var segs []string
	ops := 0
	for i := 0; i < n; i++ {
		if r.Chance(1, 2) {
			segs = append(segs, wire.Pick(r, lits))
		} else {
			segs = append(segs, "{*}")
			ops++
		}
	}
	if r.Chance(1, 2) {
		segs = append(segs, "{**}")
		ops++
		for r.Chance(1, 3) {
			segs = append(segs, wire.Pick(r, lits))
		}
	}
	if ops == 0 {
		segs[r.Intn(len(segs))] = "{*}"
	}
	t := "/" + strings.Join(segs, "/")
	// requests: an instance of the template and near misses of it (empty segment, one segment less / more)
	inst := make([]string, len(segs))
	for i, sg := range segs {
		switch sg {
		case "{*}":
			inst[i] = wire.Pick(r, []string{"k", "a", "zz"})
		case "{**}":
			inst[i] = wire.Pick(r, []string{"m", "m/n", "m/n/o"})
		default:
			inst[i] = sg
		}
	}
	g.note("path", "/"+strings.Join(inst, "/"))
	if len(inst) > 1 {
		g.note("path", "/"+strings.Join(inst[:len(inst)-1], "/"), "/"+strings.Join(inst, "/")+"/q", "/"+strings.Join(inst[1:], "/"))
	}
	if !g.valid && r.Chance(1, 4) {
		t = wire.Pick(r, []string{t + "/{**}", t + "/{*}", "/{**}/{*}", t + "*", "*" + t, "/a{*}", "/{*}b", "/{x}", "/{**}/{**}", t + "/"})
	}
	return t
}

func (g *genCtx) sni() string {
	b := wire.Pick(g.r, poolSNI)
	g.note("sni", b)
	return g.form(b, true)
}

func (g *genCtx) hval() string {
	b := wire.Pick(g.r, poolHVal)
	g.note("hval", b)
	return g.form(b, true)
}

func field(k string, v []string) string { return k + "=" + wire.EncList(v) }

func (g *genCtx) genFrom() string {
	r := g.r
	var fs []string
	add := func(k, nk string, f func() string) {
		v, nv := g.vals(f)
		if len(v) > 0 {
			fs = append(fs, field(k, v))
		}
		if len(nv) > 0 {
			fs = append(fs, field(nk, nv))
		}
	}
	useSA := r.Chance(1, 4)
	n := 0
	if g.customRule && g.valid {
		for n == 0 {
			if r.Chance(1, 2) {
				add("ip", "nip", g.ipBlock)
				n++
			}
			if r.Chance(1, 2) {
				add("rip", "nrip", g.ipBlock)
				n++
			}
		}
		return "from " + strings.Join(fs, " ")
	}
	for n == 0 {
		if !useSA && r.Chance(1, 3) {
			add("pr", "npr", g.principal)
			n++
		}
		if !useSA && r.Chance(1, 3) {
			add("ns", "nns", g.namespace)
			n++
		}
		if useSA {
			add("sa", "nsa", g.serviceAccount)
			n++
		}
		if r.Chance(1, 5) {
			add("td", "ntd", func() string { return g.trustDomain(false) })
			n++
		}
		if r.Chance(1, 4) {
			add("ip", "nip", g.ipBlock)
			n++
		}
		if r.Chance(1, 5) {
			add("rip", "nrip", g.ipBlock)
			n++
		}
		if g.phase3 && r.Chance(1, 5) {
			add("rp", "nrp", g.requestPrincipal)
			n++
		}
	}
	if !g.valid && r.Chance(1, 25) {
		return "from" // nil / empty source
	}
	return "from " + strings.Join(fs, " ")
}

func (g *genCtx) genTo() string {
	r := g.r
	var fs []string
	add := func(k, nk string, f func() string) {
		v, nv := g.vals(f)
		if len(v) > 0 {
			fs = append(fs, field(k, v))
		}
		if len(nv) > 0 {
			fs = append(fs, field(nk, nv))
		}
	}
	n := 0
	for n == 0 {
		if r.Chance(1, 3) {
			add("h", "nh", g.host)
			n++
		}
		if r.Chance(1, 3) {
			add("m", "nm", g.method)
			n++
		}
		if r.Chance(1, 3) {
			add("pa", "npa", g.path)
			n++
		}
		if r.Chance(1, 3) {
			add("p", "np", g.port)
			n++
		}
	}
	if !g.valid && r.Chance(1, 25) {
		return "to"
	}
	return "to " + strings.Join(fs, " ")
}

func (g *genCtx) genWhen() string {
	r := g.r
	var key string
	var f func() string
	x := r.Intn(100)
	if g.phase3 && r.Chance(2, 5) {
		x = 95 // the JWT / metadata keys (six generators) get 40% of the conditions of a phase-3 case
	}
	if g.customRule && g.valid {
		// keys validation accepts for CUSTOM: headers, ips, destination.*, connection.sni
		x = []int{0, 10, 26, 35, 70, 78, 85}[r.Intn(7)]
	}
	switch {
	case x < 25:
		h := wire.Pick(r, poolHName)
		g.note("hname", h)
		key, f = "request.headers["+h+"]", g.hval
	case x < 33:
		key, f = "source.ip", g.ipBlock
	case x < 40:
		key, f = "remote.ip", g.ipBlock
	case x < 48:
		key, f = "source.namespace", g.namespace
	case x < 56:
		key, f = "source.principal", g.principal
	case x < 62:
		key, f = "source.serviceAccount", g.serviceAccount
	case x < 68:
		key, f = "source.trustDomain", func() string { return g.trustDomain(true) }
	case x < 75:
		key, f = "destination.ip", g.ipBlock
	case x < 83:
		key, f = "destination.port", g.port
	case x < 89:
		key, f = "connection.sni", g.sni
	default:
		if g.phase3 {
			key, f = g.phase3When()
		} else if !g.valid {
			key = wire.Pick(r, []string{"request.headersX[x-foo]", "request.headers[x-foo", "unknown.key", "request.headers[]", "request.headers", "source.ipx", "destination.labels[app]"})
			f = g.hval
		} else if r.Chance(1, 3) {
			key = wire.Pick(r, []string{"request.headersX[x-foo]", "request.headers.more[x-foo]"}) // accepted by validation, untranslatable
			f = g.hval
		} else {
			h := wire.Pick(r, poolHName)
			g.note("hname", h)
			key, f = "request.headers["+h+"]", g.hval
		}
	}
	v, nv := g.vals(f)
	return "when " + wire.Enc(key) + " " + wire.EncList(v) + " " + wire.EncList(nv)
}

func (g *genCtx) genRule() []string {
	r := g.r
	lines := []string{"rule"}
	nf, nt, nw := 0, 0, 0
	switch r.Intn(8) {
	case 0:
		nf = 1
	case 1:
		nt = 1
	case 2:
		nw = 1
	case 3:
		nf, nt = 1+r.Intn(2), 1+r.Intn(2)
	case 4:
		nf, nw = 1+r.Intn(2), 1+r.Intn(2)
	case 5:
		nt, nw = 1+r.Intn(2), 1
	case 6:
		nf, nt, nw = 1+r.Intn(3), 1+r.Intn(3), r.Intn(3)
	default:
		// empty rule {} : matches everything
	}
	for i := 0; i < nf; i++ {
		lines = append(lines, g.genFrom())
	}
	for i := 0; i < nt; i++ {
		lines = append(lines, g.genTo())
	}
	for i := 0; i < nw; i++ {
		lines = append(lines, g.genWhen())
	}
	return lines
}

type genOpts struct {
	custom  bool
	valid   bool
	phase3  bool
	aliases bool
	sel     bool
	dryRun  bool
	audit   bool
}

// genPolicies emits the policy definition lines of one case.
func (g *genCtx) genPolicies(o genOpts) []string {
	r := g.r
	var lines []string
	if o.aliases && r.Chance(2, 3) {
		// the mesh's trust domain + 0-3 aliases, drawn from the pool the principals use and a few neighbours
		// (`local` is a suffix of cluster.local, `td` a prefix of td1/td2: they meet the `*suffix` / `prefix*` patterns)
		pool := []string{"cluster.local", "td1", "old-td", "td2", "local", "td", "example.org", "prod.cluster.local"}
		for i := len(pool) - 1; i > 0; i-- {
			j := r.Intn(i + 1)
			pool[i], pool[j] = pool[j], pool[i]
		}
		tds := append([]string{}, pool[:1+r.Intn(4)]...)
		if !g.valid && r.Chance(1, 5) {
			tds = append(tds, wire.Pick(r, []string{"*-td", "td*", "*"})) // rejected by mesh config validation (ValidateTrustDomain)
		}
		lines = append(lines, "td "+wire.EncList(tds))
		// requests come from every trust domain of the bundle (also the alias-only ones) and their neighbours
		for _, t := range tds {
			if !strings.Contains(t, "*") {
				g.note("td", t)
				g.note("peer", t+","+wire.Pick(r, poolNS)+","+wire.Pick(r, poolSA))
			}
		}
	}
	// CUSTOM: the extension providers of the mesh config - one to three entries with DISTINCT targets (kind, service,
	// port, failure mode, status on error, path prefix) - and the multi-provider feature flag
	var provNames []string
	manyProv := false
	if o.custom && r.Chance(3, 4) {
		good := []string{
			"default|grpc|foo/authz.foo.svc.cluster.local|9000|0||",
			"p2|grpc|authz2.bar.svc.cluster.local|9191|1|503|",
			"h1|http|bar/ext.example.com|8080|0|403|/check",
			"p3|grpc|foo/ext.example.com|443|0||",
			"default|http|foo/my-custom-ext-authz.foo.svc.cluster.local|8000|1||",
			"p2|http|foo/authz.foo.svc.cluster.local|9000|0|401|/",
		}
		for i := len(good) - 1; i > 0; i-- {
			j := r.Intn(i + 1)
			good[i], good[j] = good[j], good[i]
		}
		k := 1
		switch x := r.Intn(100); {
		case x < 8:
			k = 0
		case x < 50:
		case x < 82:
			k = 2
		default:
			k = 3
		}
		var specs []string
		seen := map[string]bool{}
		for _, sp := range good {
			n := strings.SplitN(sp, "|", 2)[0]
			if len(specs) < k && !seen[n] {
				seen[n] = true
				specs = append(specs, sp)
				provNames = append(provNames, n)
			}
		}
		multi := r.Chance(1, 4)
		if len(specs) >= 2 {
			multi, manyProv = r.Chance(3, 5), true
		}
		if r.Chance(1, 14) {
			// two providers, one name continuing into the other's policy ids (`default` / `default-ns`), feature on
			specs = []string{"default|grpc|foo/authz.foo.svc.cluster.local|9000|0||", "default-ns|grpc|foo/my-custom-ext-authz.foo.svc.cluster.local|9002|0||"}
			provNames, multi, manyProv = []string{"default", "default-ns"}, true, true
		}
		if !g.valid && r.Chance(1, 3) {
			// entries mesh config validation rejects (processExtensionProvider keeps them with an error: policies naming
			// them are enforced as DENY): bad port / service / status / path prefix / name, a repeated name
			bad := wire.Pick(r, []string{
				"b1|grpc|foo/authz.foo.svc.cluster.local|0|0||", "b1|grpc|foo/authz.foo.svc.cluster.local|70000|0||",
				"b1|grpc|ext.example.com|9000|0||", "b1|grpc|foo/unknown.foo.svc.cluster.local|9000|0||", "b1|grpc||9000|0||",
				"b1|grpc|foo/authz.foo.svc.cluster.local|9000|0|abc|", "b1|http|foo/authz.foo.svc.cluster.local|9000|0|299|/x",
				"b1|http|foo/authz.foo.svc.cluster.local|9000|0||check", "Bad|grpc|foo/authz.foo.svc.cluster.local|9000|0||",
				"-b|grpc|foo/authz.foo.svc.cluster.local|9000|0||", "|grpc|foo/authz.foo.svc.cluster.local|9000|0||",
				"default|grpc|authz2.bar.svc.cluster.local|9191|0||", "b1|grpc|foo/authz.foo.svc.cluster.local|9000|0|+403|",
				"b1|grpc|foo/authz.foo.svc.cluster.local|9000|0|0|", "b1|http|foo/authz.foo.svc.cluster.local|9000|0|-0|/x",
			})
			specs = append(specs, bad)
			provNames = append(provNames, strings.SplitN(bad, "|", 2)[0])
		}
		lines = append(lines, "custom "+wire.EncList(specs)+" "+wire.B(multi))
	}
	// the workload: root namespace, namespace, labels, proxy type, Gateway API name, waypoint service, flags
	w := wlGen{root: "istio-system", ns: "foo", labels: []string{"app=httpbin", "version=v1"}, ptype: "sidecar"}
	if o.sel {
		w = g.genWorkload()
		lines = append(lines, w.line())
	}
	np := 1 + r.Intn(3)
	if r.Chance(1, 6) {
		np = 4 + r.Intn(2)
	}
	if manyProv && np < 2 {
		np = 2 + r.Intn(3) // several CUSTOM policies with distinct providers
	}
	for i := 0; i < np; i++ {
		action := "ALLOW"
		switch x := r.Intn(100); {
		case x < 35:
			action = "DENY"
		case x < 42 && o.audit:
			action = "AUDIT"
		case x < 52 && o.custom:
			action = "CUSTOM"
		}
		if manyProv && r.Chance(3, 5) {
			action = "CUSTOM"
		}
		ns := w.ns
		switch x := r.Intn(100); {
		case x < 22:
			ns = w.root
		case x < 45 && w.svc != nil:
			ns = w.svc.ns
		case x < 55 && o.sel:
			ns = wire.Pick(r, []string{"other", "bar", "istio-system"})
		}
		if !g.valid && r.Chance(1, 40) {
			action = "UNKNOWN" // action value outside the enum: ignored by updateAuthorizationPoliciesResult
		}
		// istio.io/dry-run: "0" = no annotation; the validator accepts ParseBool values on ALLOW/DENY only
		dry := "0"
		if o.dryRun && r.Chance(1, 6) {
			if action == "ALLOW" || action == "DENY" {
				dry = wire.Pick(r, []string{"true", "True", "1", "t", "TRUE", "T", "true", "false", "f", "False"})
				if !g.valid && r.Chance(1, 6) {
					dry = wire.Pick(r, []string{"yes", "tRuE", "on", "~"})
				}
			} else if !g.valid {
				dry = wire.Pick(r, []string{"true", "1", "false"})
			}
		}
		sel := "-"
		if o.sel && r.Chance(1, 3) {
			sel = wire.EncList(g.genSelector(w))
			if r.Chance(1, 12) {
				sel = wire.Enc("{}") // non-nil empty selector (a validation warning, accepted)
			}
		}
		prov := "~"
		if action == "CUSTOM" {
			prov = wire.Pick(r, []string{"default", "default", "default", "p2", "missing"})
			if len(provNames) > 0 && !r.Chance(1, 6) {
				prov = wire.Pick(r, provNames) // mostly a provider the mesh config defines; else `missing` / another name
			}
			if !g.valid && r.Chance(1, 10) {
				prov = "~"
			}
		}
		pname := fmt.Sprintf("p%d", i)
		// targetRefs (never together with a selector: the validator rejects that): ignored for sidecars, decisive
		// for Gateway API gateways and waypoints; `legacy` = the single spec.targetRef
		refs, legacy := "-", ""
		pRefs := 4
		if w.gwName != "" {
			pRefs = 2 // every second policy for a Gateway API workload uses targetRefs
		}
		if o.sel && r.Chance(1, pRefs) && (sel == "-" || !g.valid) {
			l, want := g.genRefs(w, ns)
			refs = wire.EncList(l)
			if want != "" && r.Chance(2, 3) {
				ns = want // the namespace the documentation asks for with this kind of reference
			}
			if r.Chance(1, 6) && (len(l) == 1 || !g.valid) {
				legacy = " legacy"
			}
		}
		lines = append(lines, fmt.Sprintf("pol %s %s %s %s %s %s %s%s", action, ns, pname, dry, prov, sel, refs, legacy))
		g.customRule = action == "CUSTOM"
		nr := 1 + r.Intn(2)
		if action == "ALLOW" && r.Chance(1, 8) {
			nr = 0 // allow-nothing policy
		}
		if action == "CUSTOM" && !g.valid && r.Chance(1, 8) {
			nr = 0
		}
		if r.Chance(1, 10) {
			nr = 3
		}
		for j := 0; j < nr; j++ {
			lines = append(lines, g.genRule()...)
		}
		g.customRule = false
	}
	return lines
}

// wlGen: the workload a case is generated for.
type wlGen struct {
	root, ns string
	labels   []string
	ptype    string   // sidecar | router | waypoint
	gwName   string   // gateway.networking.k8s.io/gateway-name label ("" = not a Gateway API workload)
	svc      *svcInfo // the service a waypoint chain is built for (NewBuilderForService)
	term     bool     // NewWaypointTerminationBuilder
	nosel    bool     // EnableSelectorBasedK8sGatewayPolicy off
}

func (w wlGen) line() string {
	svc := "-"
	if w.svc != nil {
		reg := "ext"
		if w.svc.k8s {
			reg = "k8s"
		}
		svc = wire.Enc(w.svc.name + "|" + w.svc.objectName + "|" + w.svc.ns + "|" + reg)
	}
	var flags []string
	if w.term {
		flags = append(flags, "term")
	}
	if w.nosel {
		flags = append(flags, "nosel")
	}
	return "wl " + w.root + " " + w.ns + " " + wire.EncList(w.labels) + " " + w.ptype + " " + svc + " " + wire.EncList(flags)
}

// policyName: the name targetRefs are compared with (ObjectName if set, else Name).
func (v *svcInfo) policyName() string {
	if v.objectName != "" {
		return v.objectName
	}
	return v.name
}

func (g *genCtx) genWorkload() wlGen {
	r := g.r
	w := wlGen{root: "istio-system", ns: "foo", ptype: "sidecar"}
	if r.Chance(1, 3) {
		w.root = wire.Pick(r, []string{"istio-config", "mesh-root", "foo", "other"})
	}
	switch x := r.Intn(10); {
	case x < 1:
		w.ns = w.root // a workload living in the root namespace
	case x < 3:
		w.ns = wire.Pick(r, []string{"bar", "other"})
	}
	w.labels = []string{"app=" + wire.Pick(r, []string{"httpbin", "httpbin", "reviews"})}
	if r.Chance(2, 3) {
		w.labels = append(w.labels, "version="+wire.Pick(r, []string{"v1", "v1", "v2"}))
	}
	if r.Chance(1, 4) {
		w.labels = append(w.labels, "tier=web")
	}
	switch x := r.Intn(100); {
	case x < 35: // sidecar
	case x < 45:
		w.ptype = "router" // a classic ingress gateway: selector based, like a sidecar
	case x < 65:
		// a Gateway API gateway: policies attach by targetRefs, or by selector while the feature is on
		w.ptype, w.gwName = "router", wire.Pick(r, []string{"gw1", "gw1", "gw2"})
		w.nosel = r.Chance(1, 5)
	default:
		// a waypoint: per-service chains (NewBuilderForService) or the HBONE termination layer
		w.ptype, w.gwName = "waypoint", wire.Pick(r, []string{"wp", "gw1"})
		w.nosel = r.Chance(1, 10)
		if !r.Chance(1, 8) {
			name := wire.Pick(r, []string{"httpbin", "reviews"})
			v := &svcInfo{name: name, ns: w.ns, k8s: r.Chance(3, 5)}
			switch x := r.Intn(10); {
			case x < 3:
				v.ns = wire.Pick(r, []string{"other", "bar"})
			case x < 5:
				v.ns = w.root
			}
			if v.k8s {
				if r.Chance(2, 3) {
					v.objectName = name // a Kubernetes Service: ObjectName = Name
				}
			} else {
				// a ServiceEntry service: Name = the hostname, ObjectName = the ServiceEntry's name
				v.name, v.objectName = name+".example.com", "se-"+name
				if r.Chance(1, 5) {
					v.objectName = ""
				}
			}
			w.svc = v
		}
		w.term = r.Chance(1, 5)
	}
	if w.gwName != "" {
		w.labels = append(w.labels, "gateway.networking.k8s.io/gateway-name="+w.gwName)
	}
	return w
}

// genSelector: a subset of the workload's labels (matches), or a near miss.
func (g *genCtx) genSelector(w wlGen) []string {
	r := g.r
	var own []string
	for _, l := range w.labels {
		if !strings.HasPrefix(l, "gateway.") {
			own = append(own, l)
		}
	}
	switch x := r.Intn(10); {
	case x < 5:
		k := 1 + r.Intn(len(own))
		return append([]string{}, own[:k]...)
	case x < 7:
		return []string{own[len(own)-1]}
	case x < 9:
		return []string{wire.Pick(r, []string{"app=other", "version=v3", "app=reviews", "version=v2", "tier=db"})}
	default:
		return append(append([]string{}, own...), "extra=1")
	}
}

// genRefs: targetRefs relative to the workload: one designating it (by each clause) or a near miss.
func (g *genCtx) genRefs(w wlGen, pns string) ([]string, string) {
	r := g.r
	const gwG, ioG = "gateway.networking.k8s.io", "networking.istio.io"
	ref := func(group, kind, name, ns string) string { return group + "|" + kind + "|" + name + "|" + ns }
	svcName, svcOther := "httpbin", "reviews"
	if w.svc != nil {
		svcName, svcOther = w.svc.policyName(), w.svc.name
	}
	gw := w.gwName
	if gw == "" {
		gw = "gw1"
	}
	want := ""
	svcNS := w.ns
	if w.svc != nil {
		svcNS = w.svc.ns
	}
	// weights: the kind that fits the workload comes more often
	wGW, wSvc, wSE, wGC := 30, 10, 10, 10
	if w.ptype == "waypoint" {
		wGW, wGC = 12, 18
		if w.svc != nil && w.svc.k8s {
			wSvc, wSE = 40, 10
		} else if w.svc != nil {
			wSvc, wSE = 10, 40
		}
	}
	one := func() string {
		x := r.Intn(wGW + wSvc + wSE + wGC + 8)
		near := r.Chance(1, 5) // a near miss of the same kind
		switch {
		case x < wGW:
			want = w.ns
			if near {
				return ref(gwG, "Gateway", wire.Pick(r, []string{"gw2", "wp", "gw1"}), "")
			}
			return ref(gwG, "Gateway", gw, "")
		case x < wGW+wSvc:
			want = svcNS
			if near {
				return ref("", "Service", wire.Pick(r, []string{svcOther, "reviews", "httpbin", "se-httpbin"}), "")
			}
			return ref(wire.Pick(r, []string{"", "", "core"}), "Service", svcName, "")
		case x < wGW+wSvc+wSE:
			want = svcNS
			if near {
				return ref(ioG, "ServiceEntry", wire.Pick(r, []string{svcOther, "se-reviews", "httpbin"}), "")
			}
			return ref(ioG, "ServiceEntry", svcName, "")
		case x < wGW+wSvc+wSE+wGC:
			want = w.root
			if near {
				return ref(gwG, "GatewayClass", wire.Pick(r, []string{"istio", "istio-waypoint2"}), "")
			}
			return ref(gwG, "GatewayClass", "istio-waypoint", "")
		default:
			want = w.ns
			if g.valid {
				return ref(gwG, "Gateway", gw, "")
			}
			// rejected by validation: a targetRef namespace (own / foreign), wrong group for the kind, unknown kind
			return wire.Pick(r, []string{ref(gwG, "Gateway", gw, w.ns), ref(gwG, "Gateway", gw, "other"), ref(gwG, "Gateway", gw, pns),
				ref(ioG, "Service", svcName, ""), ref("", "Gateway", gw, ""), ref("", "ServiceEntry", svcName, ""), ref(gwG, "HTTPRoute", gw, ""),
				ref("", "Service", svcName, "other"), ref(gwG, "GatewayClass", "istio-waypoint", "other")})
		}
	}
	out := []string{one()}
	first := want
	for r.Chance(1, 5) && len(out) < 3 {
		out = append(out, one())
	}
	return out, first
}

func gen(stream string, seed uint64, n int, outp string) {
	out := wire.Create(outp)
	defer out.Close()
	root := wire.NewRng(seed*1000003 + uint64(len(stream))*7919 + uint64(stream[0]))
	rejects := 0
	for c := 0; c < n; c++ {
		r := root.Fork()
		g := &genCtx{r: r, out: out, used: map[string][]string{}}
		o := genOpts{audit: true, dryRun: true, sel: r.Chance(1, 2), custom: r.Chance(1, 2)}
		switch stream {
		case "compile":
			o.valid = r.Chance(1, 2)
			o.aliases = true
			o.phase3 = r.Chance(1, 3)
		case "requests", "tcp":
			o.valid = true
			o.aliases = r.Chance(1, 2)
			o.phase3 = r.Chance(1, 3)
		}
		g.valid, g.phase3 = o.valid, o.phase3
		var lines []string
		for try := 0; ; try++ {
			g.used = map[string][]string{}
			lines = g.genPolicies(o)
			if !o.valid || try > 20 {
				break
			}
			// the REAL validator decides what "valid" means
			s := newSUT()
			for _, l := range lines {
				s.apply(strings.Fields(l))
			}
			if s.valid() {
				break
			}
			rejects++
		}
		s := newSUT()
		for _, l := range lines {
			s.apply(strings.Fields(l))
		}
		out.Line("case", fmt.Sprint(c), stream, "valid="+wire.B(s.valid()))
		for _, l := range lines {
			out.Line(l)
		}
		switch stream {
		case "compile":
			// the listener builder calls BuildTCP, BuildHTTP and BuildTCPRulesAsHTTPFilter on ONE plugin builder
			// (lazy cache); listener classes: sidecar inbound, gateway (same filters), sidecar outbound (none)
			auth := wire.B(!r.Chance(1, 5))
			seqs := [][]string{
				{"tcp", "http in", "tcphttp"}, {"http in", "tcp"}, {"tcp", "http gw", "http in"},
				{"http out", "http in", "tcp", "tcphttp"}, {"tcphttp", "http gw", "tcp", "http out"},
			}
			for _, b := range wire.Pick(r, seqs) {
				kc := strings.Fields(b)
				if len(kc) == 2 {
					out.Line("build " + kc[0] + " " + auth + " " + kc[1])
				} else {
					out.Line("build " + kc[0] + " " + auth)
				}
			}
			if r.Chance(1, 4) {
				other := wire.B(auth == "0")
				out.Line("build http " + other + " in")
				out.Line("build tcphttp " + other)
			}
		case "requests":
			auth := wire.B(!r.Chance(1, 6))
			if r.Chance(1, 3) {
				out.Line("build tcp " + auth) // same builder first used for the TCP chain, as on a real listener
			}
			out.Line("build http " + auth + " " + wire.Pick(r, []string{"in", "in", "gw"}))
			nr := 12 + r.Intn(8)
			for i := 0; i < nr; i++ {
				out.Line(g.genReq(true))
			}
		case "tcp":
			auth := wire.B(!r.Chance(1, 6))
			if r.Chance(1, 3) {
				out.Line("build http " + auth + " in")
			}
			kind := wire.Pick(r, []string{"tcp", "tcp", "tcp", "tcphttp"})
			out.Line("build " + kind + " " + auth)
			nr := 10 + r.Intn(6)
			for i := 0; i < nr; i++ {
				// the TCP rules as an HTTP filter (waypoint) see HTTP requests: the HTTP-only fields stay
				// inexpressible there whatever the request carries
				out.Line(g.genReq(kind == "tcphttp" && r.Chance(1, 2)))
			}
		}
	}
	fmt.Fprintf(os_stderr(), "gen %s: %d cases, validator rejected %d candidate policy sets\n", stream, n, rejects)
}
