package main

// Reference interpreter for the Envoy RBAC messages, written from the Envoy documentation
// (config.rbac.v3, type.matcher.v3, route.v3.HeaderMatcher, core.v3.CidrRange). It evaluates the
// REAL proto produced by the Istio builder. safe_regex is evaluated by Go's regexp (RE2 syntax,
// full match), so the regular-expression texts Istio generates get their real meaning here.

import (
	"math/big"
	"net/netip"
	"regexp"
	"sort"
	"strconv"
	"strings"
	"sync"

	corepb "github.com/envoyproxy/go-control-plane/envoy/config/core/v3"
	rbacpb "github.com/envoyproxy/go-control-plane/envoy/config/rbac/v3"
	routepb "github.com/envoyproxy/go-control-plane/envoy/config/route/v3"
	uritemplate "github.com/envoyproxy/go-control-plane/envoy/extensions/path/match/uri_template/v3"
	matcherpb "github.com/envoyproxy/go-control-plane/envoy/type/matcher/v3"

	"verifharness/internal/wire"
)

type metaVal struct {
	isList bool
	other  bool // number / bool / object: no string matcher matches it
	s      string
	l      []string
}

type metaEntry struct {
	filter string
	path   []string
	val    metaVal
}

type request struct {
	srcIP, remoteIP, dstIP netip.Addr
	dstPort                uint32
	sni                    string
	hasPeer                bool
	td, ns, sa             string
	http                   bool
	host, method, path     string
	hdrNames, hdrVals      []string
	meta                   []metaEntry
}

func (r *request) uriSan() string { return "spiffe://" + r.td + "/ns/" + r.ns + "/sa/" + r.sa }

func parseReq(toks []string) *request {
	r := &request{}
	var mf, mp, mt, mv []string
	for _, t := range toks {
		k, v := kv(t)
		switch k {
		case "sip":
			r.srcIP = ipTok(v)
		case "rip":
			r.remoteIP = ipTok(v)
		case "dip":
			r.dstIP = ipTok(v)
		case "dport":
			r.dstPort = u32(v)
		case "sni":
			r.sni = wire.Dec(v)
		case "peer":
			if v != "-" {
				if l := wire.DecList(v); len(l) == 3 {
					r.hasPeer, r.td, r.ns, r.sa = true, l[0], l[1], l[2]
				}
			}
		case "http":
			r.http = v == "1"
		case "host":
			r.host = wire.Dec(v)
		case "method":
			r.method = wire.Dec(v)
		case "path":
			r.path = wire.Dec(v)
		case "hn":
			r.hdrNames = wire.DecList(v)
		case "hv":
			r.hdrVals = wire.DecList(v)
		case "mf":
			mf = wire.DecList(v)
		case "mp":
			mp = wire.DecList(v)
		case "mt":
			mt = wire.DecList(v)
		case "mv":
			mv = wire.DecList(v)
		}
	}
	for i := range mf {
		if i >= len(mp) || i >= len(mt) || i >= len(mv) {
			break
		}
		e := metaEntry{filter: mf[i]}
		if mp[i] != "" {
			e.path = strings.Split(mp[i], "|")
		}
		if mt[i] == "l" {
			e.val.isList = true
			if mv[i] != "" {
				e.val.l = strings.Split(mv[i], "|")
			}
		} else if mt[i] == "s" {
			e.val.s = mv[i]
		} else {
			e.val.other = true // n = number, b = bool
		}
		r.meta = append(r.meta, e)
	}
	if len(r.hdrVals) < len(r.hdrNames) {
		r.hdrNames = r.hdrNames[:len(r.hdrVals)]
	}
	return r
}

func u32(s string) uint32 {
	n, _ := strconv.ParseUint(s, 10, 32)
	return uint32(n)
}

// ---------------------------------------------------------------- matchers

var (
	reMu    sync.Mutex
	reCache = map[string]*regexp.Regexp{}
)

func fullMatch(re, s string) bool {
	reMu.Lock()
	c, ok := reCache[re]
	if !ok {
		var err error
		c, err = regexp.Compile(`\A(?:` + re + `)\z`)
		if err != nil {
			c = nil
		}
		reCache[re] = c
	}
	reMu.Unlock()
	return c != nil && c.MatchString(s)
}

func asciiLower(s string) string {
	b := []byte(s)
	for i, c := range b {
		if c >= 'A' && c <= 'Z' {
			b[i] = c + 32
		}
	}
	return string(b)
}

func evalStr(m *matcherpb.StringMatcher, x string) bool {
	ic := m.GetIgnoreCase()
	norm := func(s string) string {
		if ic {
			return asciiLower(s)
		}
		return s
	}
	switch p := m.GetMatchPattern().(type) {
	case *matcherpb.StringMatcher_Exact:
		return norm(x) == norm(p.Exact)
	case *matcherpb.StringMatcher_Prefix:
		return strings.HasPrefix(norm(x), norm(p.Prefix))
	case *matcherpb.StringMatcher_Suffix:
		return strings.HasSuffix(norm(x), norm(p.Suffix))
	case *matcherpb.StringMatcher_SafeRegex:
		return fullMatch(p.SafeRegex.GetRegex(), x)
	}
	return false
}

func cidrContains(c *corepb.CidrRange, ip netip.Addr) bool {
	pfx, err := netip.ParsePrefix(c.GetAddressPrefix() + "/" + strconv.Itoa(int(c.GetPrefixLen().GetValue())))
	if err != nil {
		return false
	}
	// netip: an IPv4 address is never inside an IPv6 prefix (nor a 4-in-6 address inside an IPv4 prefix)
	return pfx.Contains(ip)
}

// ipTok reads an address token: a decimal IPv4 number, or `6:<decimal 128-bit number>`.
func ipTok(t string) netip.Addr {
	if rest, ok := strings.CutPrefix(t, "6:"); ok {
		n, _ := new(big.Int).SetString(rest, 10)
		var b [16]byte
		if n != nil {
			n.FillBytes(b[:])
		}
		return netip.AddrFrom16(b)
	}
	ip := u32(t)
	return netip.AddrFrom4([4]byte{byte(ip >> 24), byte(ip >> 16), byte(ip >> 8), byte(ip)})
}

// ipToken is the inverse of ipTok.
func ipToken(a netip.Addr) string {
	if a.Is4() {
		b := a.As4()
		return strconv.FormatUint(uint64(b[0])<<24|uint64(b[1])<<16|uint64(b[2])<<8|uint64(b[3]), 10)
	}
	b := a.As16()
	return "6:" + new(big.Int).SetBytes(b[:]).String()
}

func (r *request) header(name string) (string, bool) {
	if !r.http {
		return "", false
	}
	n := asciiLower(name)
	switch n {
	case ":authority":
		return r.host, true
	case ":method":
		return r.method, true
	}
	for i, h := range r.hdrNames {
		if asciiLower(h) == n {
			return r.hdrVals[i], true
		}
	}
	return "", false
}

func evalHeader(h *routepb.HeaderMatcher, r *request) bool {
	v, ok := r.header(h.GetName())
	if !ok {
		return false
	}
	switch s := h.GetHeaderMatchSpecifier().(type) {
	case *routepb.HeaderMatcher_PresentMatch:
		return s.PresentMatch
	case *routepb.HeaderMatcher_StringMatch:
		return evalStr(s.StringMatch, v)
	}
	return false
}

func sameStrings(a, b []string) bool {
	if len(a) != len(b) {
		return false
	}
	for i := range a {
		if a[i] != b[i] {
			return false
		}
	}
	return true
}

func evalMeta(m *matcherpb.MetadataMatcher, r *request) bool {
	var path []string
	for _, seg := range m.GetPath() {
		path = append(path, seg.GetKey())
	}
	for _, e := range r.meta {
		if e.filter == m.GetFilter() && sameStrings(e.path, path) {
			return evalVal(m.GetValue(), e.val)
		}
	}
	return false
}

func evalVal(v *matcherpb.ValueMatcher, x metaVal) bool {
	switch p := v.GetMatchPattern().(type) {
	case *matcherpb.ValueMatcher_StringMatch:
		return !x.isList && !x.other && evalStr(p.StringMatch, x.s)
	case *matcherpb.ValueMatcher_OrMatch:
		for _, o := range p.OrMatch.GetValueMatchers() {
			if evalVal(o, x) {
				return true
			}
		}
		return false
	case *matcherpb.ValueMatcher_ListMatch:
		if !x.isList || x.other {
			return false
		}
		for _, e := range x.l {
			if evalVal(p.ListMatch.GetOneOf(), metaVal{s: e}) {
				return true
			}
		}
		return false
	}
	return false
}

// templateMatch evaluates a uri_template the way Envoy does, by translation to a regular expression
// (independent of the segment-wise matcher of spec.go and of the Lean model): `*` = one non-empty
// path segment, `**` = one or more segments (possibly empty ones), anything else literally.
func templateMatch(tmpl, path string) bool {
	var parts []string
	for _, seg := range strings.Split(tmpl, "/") {
		switch seg {
		case "*":
			parts = append(parts, `[^/]+`)
		case "**":
			parts = append(parts, `[^/]*(?:/[^/]*)*`)
		default:
			parts = append(parts, regexp.QuoteMeta(seg))
		}
	}
	return fullMatch(strings.Join(parts, "/"), path)
}

func evalPerm(p *rbacpb.Permission, r *request) bool {
	switch x := p.GetRule().(type) {
	case *rbacpb.Permission_Any:
		return x.Any
	case *rbacpb.Permission_AndRules:
		for _, q := range x.AndRules.GetRules() {
			if !evalPerm(q, r) {
				return false
			}
		}
		return true
	case *rbacpb.Permission_OrRules:
		for _, q := range x.OrRules.GetRules() {
			if evalPerm(q, r) {
				return true
			}
		}
		return false
	case *rbacpb.Permission_NotRule:
		return !evalPerm(x.NotRule, r)
	case *rbacpb.Permission_DestinationIp:
		return cidrContains(x.DestinationIp, r.dstIP)
	case *rbacpb.Permission_DestinationPort:
		return r.dstPort == x.DestinationPort
	case *rbacpb.Permission_RequestedServerName:
		return evalStr(x.RequestedServerName, r.sni)
	case *rbacpb.Permission_Header:
		return evalHeader(x.Header, r)
	case *rbacpb.Permission_UrlPath:
		return r.http && evalStr(x.UrlPath.GetPath(), r.path)
	case *rbacpb.Permission_UriTemplate:
		cfg := &uritemplate.UriTemplateMatchConfig{}
		if x.UriTemplate.GetTypedConfig().UnmarshalTo(cfg) != nil {
			return false
		}
		return r.http && templateMatch(cfg.PathTemplate, r.path)
	case *rbacpb.Permission_Metadata:
		return evalMeta(x.Metadata, r)
	}
	return false
}

func evalPrin(p *rbacpb.Principal, r *request) bool {
	switch x := p.GetIdentifier().(type) {
	case *rbacpb.Principal_Any:
		return x.Any
	case *rbacpb.Principal_AndIds:
		for _, q := range x.AndIds.GetIds() {
			if !evalPrin(q, r) {
				return false
			}
		}
		return true
	case *rbacpb.Principal_OrIds:
		for _, q := range x.OrIds.GetIds() {
			if evalPrin(q, r) {
				return true
			}
		}
		return false
	case *rbacpb.Principal_NotId:
		return !evalPrin(x.NotId, r)
	case *rbacpb.Principal_Authenticated_:
		return r.hasPeer && evalStr(x.Authenticated.GetPrincipalName(), r.uriSan())
	case *rbacpb.Principal_FilterState:
		return x.FilterState.GetKey() == "io.istio.peer_principal" && r.hasPeer && evalStr(x.FilterState.GetStringMatch(), r.uriSan())
	case *rbacpb.Principal_DirectRemoteIp:
		return cidrContains(x.DirectRemoteIp, r.srcIP)
	case *rbacpb.Principal_RemoteIp:
		return cidrContains(x.RemoteIp, r.remoteIP)
	case *rbacpb.Principal_Header:
		return evalHeader(x.Header, r)
	case *rbacpb.Principal_Metadata:
		return evalMeta(x.Metadata, r)
	}
	return false
}

func evalPolicy(p *rbacpb.Policy, r *request) bool {
	perm := false
	for _, x := range p.Permissions {
		if evalPerm(x, r) {
			perm = true
			break
		}
	}
	if !perm {
		return false
	}
	for _, x := range p.Principals {
		if evalPrin(x, r) {
			return true
		}
	}
	return false
}

// evalRBAC: true = the request passes.
func evalRBAC(rb *rbacpb.RBAC, r *request) bool {
	matched := false
	for _, p := range rb.Policies {
		if evalPolicy(p, r) {
			matched = true
			break
		}
	}
	switch rb.GetAction() {
	case rbacpb.RBAC_ALLOW:
		return matched
	case rbacpb.RBAC_DENY:
		return !matched
	}
	return true // LOG
}

// extAuthzAsked walks the chain the way Envoy does for the CUSTOM action: an RBAC filter evaluates its shadow
// rules and, when one matches, writes the name of the matching policy (Envoy keeps the policies in a map
// ordered by name: the first in that order) to its dynamic metadata under <shadow prefix>shadow_effective_policy_id;
// an ext_authz filter is consulted when its REAL filter_enabled_metadata matcher holds on what has been
// written so far. Returns the consulted ext_authz filters, named by the provider part of the id prefix they
// look for, in chain order.
func extAuthzAsked(fs []*builtFilter, r *request) []string {
	labels, _ := extAuthzAskedBy(fs, r)
	return labels
}

// extAuthzAskedBy: ... together with the provider part of the id prefix each consulted filter looks for.
func extAuthzAskedBy(fs []*builtFilter, r *request) ([]string, []string) {
	var provs []string
	type key struct{ filter, k string }
	written := map[key]string{}
	var order []key
	var out []string
	for _, f := range fs {
		if f.extAuthz != nil {
			q := *r
			q.meta = nil
			for _, k := range order {
				q.meta = append(q.meta, metaEntry{filter: k.filter, path: []string{k.k}, val: metaVal{s: written[k]}})
			}
			if evalMeta(f.extAuthz, &q) {
				// the consulted authorizer is named by its TARGET (kind and upstream cluster of the filter's config)
				label := f.label
				prov := "?"
				if pm, ok := f.extAuthz.GetValue().GetMatchPattern().(*matcherpb.ValueMatcher_StringMatch); ok {
					prov = strings.TrimPrefix(pm.StringMatch.GetPrefix(), "istio-ext-authz-")
				}
				provs = append(provs, prov)
				out = append(out, label)
			}
			continue
		}
		if f.shadow == nil {
			continue
		}
		names := make([]string, 0, len(f.shadow.Policies))
		for n := range f.shadow.Policies {
			names = append(names, n)
		}
		sort.Strings(names)
		for _, n := range names {
			if evalPolicy(f.shadow.Policies[n], r) {
				k := key{f.name, f.shadowPrefix + "shadow_effective_policy_id"}
				if _, seen := written[k]; !seen {
					order = append(order, k)
				}
				written[k] = n
				break
			}
		}
	}
	return out, provs
}

// evalFilters: ext_authz filters of the CUSTOM action are taken to allow (the external authorizer
// is outside the statement); RBAC filters decide as Envoy does.
func evalFilters(fs []*builtFilter, r *request) bool {
	for _, f := range fs {
		if f.extAuthz != nil {
			continue
		}
		if f.rules != nil && !evalRBAC(f.rules, r) {
			return false
		}
	}
	return true
}
