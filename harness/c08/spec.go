package main

// The property statement, evaluated directly on the AuthorizationPolicy objects (source
// semantics), independently of the Lean model and of the Istio compiler:
//   - a request matching any DENY policy is rejected; otherwise it is admitted iff there is no
//     ALLOW policy or some ALLOW policy matches it (dry-run / AUDIT / CUSTOM do not take part);
//   - a rule matches iff some `from`, some `to` and all `when` hold; values OR, notValues NOT(OR);
//   - value forms exact / prefix* / *suffix / * .

import (
	"fmt"
	"net/netip"
	"sort"
	"strconv"
	"strings"

	authpb "istio.io/api/security/v1beta1"
	typepb "istio.io/api/type/v1beta1"
	"istio.io/istio/pilot/pkg/model"

	"verifharness/internal/wire"
)

func strForm(v, s string) bool {
	switch {
	case v == "*":
		return s != ""
	case strings.HasPrefix(v, "*"):
		return strings.HasSuffix(s, v[1:])
	case strings.HasSuffix(v, "*"):
		return strings.HasPrefix(s, v[:len(v)-1])
	}
	return s == v
}

func hdrForm(ic bool, v, s string) bool {
	if ic {
		v, s = asciiLower(v), asciiLower(s)
	}
	switch {
	case v == "*":
		return true
	case strings.HasPrefix(v, "*"):
		return strings.HasSuffix(s, v[1:])
	case strings.HasSuffix(v, "*"):
		return strings.HasPrefix(s, v[:len(v)-1])
	}
	return s == v
}

// globForm: literal parts separated by '*', each '*' standing for any text.
func globForm(v, s string) bool {
	parts := strings.Split(v, "*")
	if len(parts) == 1 {
		return s == v
	}
	if !strings.HasPrefix(s, parts[0]) {
		return false
	}
	s = s[len(parts[0]):]
	for _, p := range parts[1 : len(parts)-1] {
		i := strings.Index(s, p)
		if i < 0 {
			return false
		}
		s = s[i+len(p):]
	}
	return strings.HasSuffix(s, parts[len(parts)-1])
}

// Loose readings: used ONLY to classify a disagreement (oracle.go classify), never for the verdict. Each
// entry reads ONE policy value of one attribute the way today's generated matcher behaves:
//   ns : namespace value = the unanchored regex `.*/ns/<glob>/.*` over the whole principal (`*` spans '/')
//   hdr: request.headers[..] value "*" = "header present" (present_match), also for an empty value
//   jwt: `prefix*` requestPrincipals value = exact issuer (text before the value's last '/') + subject prefix
//   tdp: five-part principal value with a `prefix*` trust-domain part = rewritten to every mesh trust domain
type looseKey struct{ class, value string }

var loose = map[looseKey]bool{}

func isLoose(class, v string) bool { return len(loose) > 0 && loose[looseKey{class, v}] }

func looseNS(v, san string) bool {
	for i := 0; i+4 <= len(san); i++ {
		if san[i:i+4] != "/ns/" {
			continue
		}
		rest := san[i+4:]
		for j := 0; j < len(rest); j++ {
			if rest[j] == '/' && globForm(v, rest[:j]) {
				return true
			}
		}
	}
	return false
}

func tdForm(v, td string) bool {
	if v == "*" {
		return true
	}
	a, b, ok := strings.Cut(v, "*")
	if !ok {
		return td == v
	}
	return strings.HasPrefix(td, a) && strings.HasSuffix(td[len(a):], b)
}

// cidrHas: the address lies in the block the value denotes: same address family, and the first
// <prefix length> bits agree. Written on the bits, independently of netip.Prefix.Contains.
func cidrHas(v string, ip netip.Addr) bool {
	if v == "" {
		return false
	}
	var pfx netip.Prefix
	var err error
	if strings.Contains(v, "/") {
		pfx, err = netip.ParsePrefix(v)
	} else {
		var a netip.Addr
		a, err = netip.ParseAddr(v)
		if err == nil {
			pfx = netip.PrefixFrom(a, a.BitLen())
		}
	}
	if err != nil {
		return false
	}
	if pfx.Addr().Is4() != ip.Is4() {
		return false
	}
	a, b := pfx.Addr().AsSlice(), ip.AsSlice()
	for i := 0; i < pfx.Bits(); i++ {
		if (a[i/8]>>(7-uint(i%8)))&1 != (b[i/8]>>(7-uint(i%8)))&1 {
			return false
		}
	}
	return true
}

func portIs(v string, p uint32) bool {
	n, err := strconv.ParseUint(v, 10, 32)
	return err == nil && n <= 65535 && uint32(n) == p
}

func (r *request) metaLookup(filter string, path []string) (metaVal, bool) {
	for _, e := range r.meta {
		if e.filter == filter && sameStrings(e.path, path) {
			return e.val, true
		}
	}
	return metaVal{}, false
}

func (r *request) claim(path ...string) (metaVal, bool) {
	return r.metaLookup("envoy.filters.http.jwt_authn", append([]string{"payload"}, path...))
}

func mvalForm(v string, x metaVal, ok bool) bool {
	if !ok || x.other {
		return false // absent, or a number / bool / object: equals no string value
	}
	if x.isList {
		for _, e := range x.l {
			if strForm(v, e) {
				return true
			}
		}
		return false
	}
	return strForm(v, x.s)
}

func bracketName(s string) (string, bool) {
	if !strings.HasPrefix(s, "[") || !strings.HasSuffix(s, "]") {
		return "", false
	}
	return strings.TrimPrefix(strings.TrimSuffix(s, "]"), "["), true
}

// nestedNames parses [a][b][c]; a malformed nesting falls back to one name between the outer brackets.
func nestedNames(s string) ([]string, bool) {
	var out []string
	rest := s
	for rest != "" {
		if rest[0] != '[' {
			n, ok := bracketName(s)
			return []string{n}, ok
		}
		j := strings.IndexAny(rest[1:], "[]")
		if j < 0 || rest[1+j] == '[' {
			n, ok := bracketName(s)
			return []string{n}, ok
		}
		out = append(out, rest[1:1+j])
		rest = rest[j+2:]
	}
	return out, true
}

type attrKind int

const (
	aUnknown attrKind = iota
	aSrcPrincipal
	aSrcNamespace
	aSrcSA
	aSrcTD
	aSrcIP
	aRemoteIP
	aDestIP
	aDestPort
	aSNI
	aHost
	aMethod
	aPath
	aHeader
	aReqPrincipal
	aAudiences
	aPresenter
	aClaim
	aEnvoyFilter
)

func attrOfKey(k string) attrKind {
	switch {
	case k == "destination.ip":
		return aDestIP
	case k == "destination.port":
		return aDestPort
	case k == "connection.sni":
		return aSNI
	case strings.HasPrefix(k, "experimental.envoy.filters."):
		return aEnvoyFilter
	case k == "source.ip":
		return aSrcIP
	case k == "remote.ip":
		return aRemoteIP
	case k == "source.namespace":
		return aSrcNamespace
	case k == "source.trustDomain":
		return aSrcTD
	case k == "source.serviceAccount":
		return aSrcSA
	case k == "source.principal":
		return aSrcPrincipal
	case k == "request.auth.principal":
		return aReqPrincipal
	case k == "request.auth.audiences":
		return aAudiences
	case k == "request.auth.presenter":
		return aPresenter
	case strings.HasPrefix(k, "request.headers"):
		return aHeader
	case strings.HasPrefix(k, "request.auth.claims"):
		return aClaim
	}
	return aUnknown
}

func specAtom(a attrKind, pns, key, v string, r *request) bool {
	switch a {
	case aSrcPrincipal:
		return r.hasPeer && strForm(v, r.td+"/ns/"+r.ns+"/sa/"+r.sa)
	case aSrcNamespace:
		if isLoose("ns", v) {
			return r.hasPeer && looseNS(v, r.uriSan())
		}
		return r.hasPeer && globForm(v, r.ns)
	case aSrcSA:
		ns, sa, ok := strings.Cut(v, "/")
		if !ok {
			ns, sa = pns, v
		}
		return r.hasPeer && r.ns == ns && r.sa == sa
	case aSrcTD:
		return r.hasPeer && tdForm(v, r.td)
	case aSrcIP:
		return cidrHas(v, r.srcIP)
	case aRemoteIP:
		return cidrHas(v, r.remoteIP)
	case aDestIP:
		return cidrHas(v, r.dstIP)
	case aDestPort:
		return portIs(v, r.dstPort)
	case aSNI:
		return strForm(v, r.sni)
	case aHost:
		return r.http && hdrForm(true, v, r.host)
	case aMethod:
		return r.http && hdrForm(false, v, r.method)
	case aPath:
		if !r.http {
			return false
		}
		if strings.Contains(v, "{*}") || strings.Contains(v, "{**}") {
			return templateSegments(strings.Split(strings.NewReplacer("{*}", "*", "{**}", "**").Replace(v), "/"), strings.Split(r.path, "/"))
		}
		return strForm(v, r.path)
	case aHeader:
		name, ok := bracketName(strings.TrimPrefix(key, "request.headers"))
		if !ok {
			return false
		}
		hv, present := r.header(name)
		if v == "*" && !isLoose("hdr", "*") {
			return present && hv != "" // documented: `*` matches when the value is not empty
		}
		return present && hdrForm(false, v, hv)
	case aReqPrincipal:
		iss, ok1 := r.claim("iss")
		sub, ok2 := r.claim("sub")
		if !(ok1 && ok2 && !iss.isList && !sub.isList && !iss.other && !sub.other && iss.s != "" && sub.s != "") {
			return false // request.auth.principal = <iss>/<sub>, defined when both claims are non-empty strings
		}
		if isLoose("jwt", v) && !strings.HasPrefix(v, "*") && strings.HasSuffix(v, "*") && v != "*" {
			if i := strings.LastIndex(v, "/"); i >= 0 {
				return iss.s == v[:i] && strings.HasPrefix(sub.s, strings.TrimSuffix(v[i+1:], "*"))
			}
		}
		return strForm(v, iss.s+"/"+sub.s)
	case aAudiences:
		x, ok := r.claim("aud")
		return mvalForm(v, x, ok)
	case aPresenter:
		x, ok := r.claim("azp")
		return mvalForm(v, x, ok)
	case aClaim:
		path, ok := nestedNames(strings.TrimPrefix(key, "request.auth.claims"))
		if !ok {
			return false
		}
		x, found := r.claim(path...)
		return mvalForm(v, x, found)
	case aEnvoyFilter:
		f, k, ok := strings.Cut(strings.TrimSuffix(strings.TrimPrefix(key, "experimental."), "]"), "[")
		if !ok {
			return false
		}
		x, found := r.metaLookup(f, []string{k})
		if !found || x.other {
			return false
		}
		if strings.HasPrefix(v, "[") && strings.HasSuffix(v, "]") {
			if !x.isList {
				return false
			}
			for _, e := range x.l {
				if strForm(strings.Trim(v, "[]"), e) {
					return true
				}
			}
			return false
		}
		return !x.isList && strForm(v, x.s)
	}
	return false
}

// specBundle: the trust domain bundle of the mesh (local trust domain first) the statement is
// evaluated for. A principal value <td>/ns/<ns>/sa/<sa> whose trust domain is in the bundle (or is the
// conventional cluster.local) denotes that identity in every trust domain of the bundle; a
// trustDomains value that is in the bundle denotes all of them.
var specBundle = []string{"cluster.local"}

func inBundle(td string) bool {
	for _, t := range specBundle {
		if t == td {
			return true
		}
	}
	return false
}

func aliasValues(a attrKind, vs []string) []string {
	if a != aSrcPrincipal && a != aSrcTD {
		return vs
	}
	var out []string
	for _, v := range vs {
		if a == aSrcTD {
			if inBundle(v) {
				out = append(out, specBundle...)
			} else {
				out = append(out, v)
			}
			continue
		}
		p := strings.Split(v, "/")
		if len(p) != 5 || p[0] == "*" {
			out = append(out, v)
			continue
		}
		td, rest := p[0], strings.Join(p[1:], "/")
		sfx := func(t string) bool { return strings.HasPrefix(td, "*") && strings.HasSuffix(t, td[1:]) }
		anySfx := false
		for _, t := range specBundle {
			anySfx = anySfx || sfx(t)
		}
		switch {
		case inBundle(td) || td == "cluster.local":
			for _, t := range specBundle {
				out = append(out, t+"/"+rest)
			}
		case anySfx:
			// `*suffix` trust-domain part covering some of the mesh's trust domains: the value as written,
			// plus the same identity in the trust domains of the bundle it does not cover itself
			for _, t := range specBundle {
				if sfx(t) {
					out = append(out, v)
				} else {
					out = append(out, t+"/"+rest)
				}
			}
		case isLoose("tdp", v) && tdPrefixForm(td) && bundleHasPrefix(strings.TrimSuffix(td, "*")):
			for _, t := range specBundle {
				out = append(out, t+"/"+rest)
			}
		default:
			out = append(out, v)
		}
	}
	return out
}

// tdPrefixForm: a trust-domain part of the form `prefix*` (not `*`, not `*suffix`).
func tdPrefixForm(td string) bool {
	return td != "*" && strings.HasSuffix(td, "*") && !strings.HasPrefix(td, "*")
}

func bundleHasPrefix(p string) bool {
	for _, t := range specBundle {
		if strings.HasPrefix(t, p) {
			return true
		}
	}
	return false
}

// Clause 2 of the statement. A field cannot be expressed on the filter chain when its attribute is
// HTTP-only and the chain is TCP, or when its map-style key cannot be read; a value cannot be
// expressed when it does not parse (CIDR, port).  An ALLOW rule with such a field / value matches
// nothing; a DENY (AUDIT, CUSTOM) rule is enforced on its remaining conditions.
var (
	specTCP       bool // listener kind the statement is evaluated for
	specRemaining bool // reading of the rule being evaluated: remaining conditions (DENY ...) or natural (ALLOW)
)

func httpOnlyAttr(a attrKind) bool {
	switch a {
	case aHost, aMethod, aPath, aHeader, aReqPrincipal, aAudiences, aPresenter, aClaim:
		return true
	}
	return false
}

func attrExpressible(a attrKind, key string) bool {
	if specTCP && httpOnlyAttr(a) {
		return false
	}
	switch a {
	case aHeader:
		_, ok := bracketName(strings.TrimPrefix(key, "request.headers"))
		return ok
	case aClaim:
		_, ok := nestedNames(strings.TrimPrefix(key, "request.auth.claims"))
		return ok
	case aEnvoyFilter:
		_, _, ok := strings.Cut(strings.TrimSuffix(strings.TrimPrefix(key, "experimental."), "]"), "[")
		return ok
	}
	return true
}

func valueParses(a attrKind, v string) bool {
	switch a {
	case aSrcIP, aRemoteIP, aDestIP:
		if v == "" {
			return false
		}
		if strings.Contains(v, "/") {
			_, err := netip.ParsePrefix(v)
			return err == nil
		}
		_, err := netip.ParseAddr(v)
		return err == nil
	case aDestPort:
		n, err := strconv.ParseUint(v, 10, 32)
		return err == nil && n <= 65535
	}
	return true
}

func keepParsing(a attrKind, vs []string) []string {
	var out []string
	for _, v := range vs {
		if valueParses(a, v) {
			out = append(out, v)
		}
	}
	return out
}

// fieldExpressible: the field is absent, or attribute and every value can be expressed.
func fieldExpressible(a attrKind, key string, values, notValues []string) bool {
	if len(values)+len(notValues) == 0 {
		return true
	}
	if !attrExpressible(a, key) {
		return false
	}
	return len(keepParsing(a, values)) == len(values) && len(keepParsing(a, notValues)) == len(notValues)
}

func specField(a attrKind, pns, key string, values, notValues []string, r *request) bool {
	if specRemaining {
		if !attrExpressible(a, key) {
			return true // the condition is removed
		}
		values, notValues = keepParsing(a, values), keepParsing(a, notValues)
	}
	values, notValues = aliasValues(a, values), aliasValues(a, notValues)
	pos := len(values) == 0
	for _, v := range values {
		if specAtom(a, pns, key, v, r) {
			pos = true
			break
		}
	}
	if !pos {
		return false
	}
	for _, v := range notValues {
		if specAtom(a, pns, key, v, r) {
			return false
		}
	}
	return true
}

func srcMatches(pns string, s *authpb.Source, r *request) bool {
	if s == nil {
		return true
	}
	return specField(aSrcPrincipal, pns, "", s.Principals, s.NotPrincipals, r) &&
		specField(aReqPrincipal, pns, "", s.RequestPrincipals, s.NotRequestPrincipals, r) &&
		specField(aSrcSA, pns, "", s.ServiceAccounts, s.NotServiceAccounts, r) &&
		specField(aSrcTD, pns, "", s.TrustDomains, s.NotTrustDomains, r) &&
		specField(aSrcNamespace, pns, "", s.Namespaces, s.NotNamespaces, r) &&
		specField(aRemoteIP, pns, "", s.RemoteIpBlocks, s.NotRemoteIpBlocks, r) &&
		specField(aSrcIP, pns, "", s.IpBlocks, s.NotIpBlocks, r)
}

func opMatches(o *authpb.Operation, r *request) bool {
	if o == nil {
		return true
	}
	return specField(aHost, "", "", o.Hosts, o.NotHosts, r) &&
		specField(aMethod, "", "", o.Methods, o.NotMethods, r) &&
		specField(aPath, "", "", o.Paths, o.NotPaths, r) &&
		specField(aDestPort, "", "", o.Ports, o.NotPorts, r)
}

func ruleMatches(pns string, rule *authpb.Rule, r *request) bool {
	if len(rule.From) > 0 {
		ok := false
		for _, f := range rule.From {
			if srcMatches(pns, f.GetSource(), r) {
				ok = true
				break
			}
		}
		if !ok {
			return false
		}
	}
	if len(rule.To) > 0 {
		ok := false
		for _, t := range rule.To {
			if opMatches(t.GetOperation(), r) {
				ok = true
				break
			}
		}
		if !ok {
			return false
		}
	}
	for _, c := range rule.When {
		a := attrOfKey(c.Key)
		if a == aUnknown || !specField(a, pns, c.Key, c.Values, c.NotValues, r) {
			return false
		}
	}
	return true
}

// ruleExpressible: every field and value of the rule can be expressed on the chain.
func ruleExpressible(rule *authpb.Rule) bool {
	for _, f := range rule.From {
		if s := f.GetSource(); s != nil {
			if !(fieldExpressible(aSrcPrincipal, "", s.Principals, s.NotPrincipals) &&
				fieldExpressible(aReqPrincipal, "", s.RequestPrincipals, s.NotRequestPrincipals) &&
				fieldExpressible(aSrcSA, "", s.ServiceAccounts, s.NotServiceAccounts) &&
				fieldExpressible(aSrcTD, "", s.TrustDomains, s.NotTrustDomains) &&
				fieldExpressible(aSrcNamespace, "", s.Namespaces, s.NotNamespaces) &&
				fieldExpressible(aRemoteIP, "", s.RemoteIpBlocks, s.NotRemoteIpBlocks) &&
				fieldExpressible(aSrcIP, "", s.IpBlocks, s.NotIpBlocks)) {
				return false
			}
		}
	}
	for _, t := range rule.To {
		if o := t.GetOperation(); o != nil {
			if !(fieldExpressible(aHost, "", o.Hosts, o.NotHosts) && fieldExpressible(aMethod, "", o.Methods, o.NotMethods) &&
				fieldExpressible(aPath, "", o.Paths, o.NotPaths) && fieldExpressible(aDestPort, "", o.Ports, o.NotPorts)) {
				return false
			}
		}
	}
	for _, c := range rule.When {
		if a := attrOfKey(c.Key); a != aUnknown && !fieldExpressible(a, c.Key, c.Values, c.NotValues) {
			return false
		}
	}
	return true
}

// policyMatches: ALLOW rules in the natural reading and only when expressible; rules of every other
// action on their remaining conditions.
func policyMatches(p *model.AuthorizationPolicy, r *request) bool {
	allow := p.Spec.Action == authpb.AuthorizationPolicy_ALLOW
	for _, rule := range p.Spec.Rules {
		if rule == nil {
			continue
		}
		if allow {
			specRemaining = false
			if ruleExpressible(rule) && ruleMatches(p.Namespace, rule, r) {
				return true
			}
		} else {
			specRemaining = true
			m := ruleMatches(p.Namespace, rule, r)
			specRemaining = false
			if m {
				return true
			}
		}
	}
	return false
}

// applies (sidecars and gateways, no waypoints): the policy lives in the root namespace or the workload's
// namespace and
//   - workload without the gateway.networking.k8s.io/gateway-name label: no targetRefs, and the selector (if
//     any) is a subset of the workload labels;
//   - workload WITH that label (a Gateway API gateway): without targetRefs the selector decides; with targetRefs
//     some reference must name this Gateway (group gateway.networking.k8s.io, kind Gateway, same namespace).
func (s *sut) applies(p *model.AuthorizationPolicy) bool {
	// (transcription of Spec.lean `applies`, from the API documentation of selector / targetRefs)
	waypoint := s.proxyType == model.Waypoint && !s.term
	svc := s.svc
	if s.term {
		svc = nil
	}
	if p.Namespace != s.rootNS && p.Namespace != s.wlNS && !(svc != nil && p.Namespace == svc.ns) {
		return false
	}
	refs := p.Spec.GetTargetRefs()
	if len(refs) == 0 && p.Spec.GetTargetRef() != nil {
		refs = append(refs, p.Spec.GetTargetRef())
	}
	gw, isGW := s.wlLabels["gateway.networking.k8s.io/gateway-name"]
	if len(refs) == 0 {
		for k, v := range p.Spec.GetSelector().GetMatchLabels() {
			if w, ok := s.wlLabels[k]; !ok || w != v {
				return false
			}
		}
		// Gateway API gateways take selector policies only with the feature on; waypoints never
		return !isGW || (!waypoint && !s.noSelectorGW)
	}
	if !isGW {
		return false
	}
	is := func(ref *typepb.PolicyTargetReference, group, kind string) bool {
		g := ref.GetGroup()
		if g == "" {
			g = "core"
		}
		return g == group && ref.GetKind() == kind
	}
	svcName := ""
	if svc != nil {
		svcName = svc.name
		if svc.objectName != "" {
			svcName = svc.objectName
		}
	}
	for _, ref := range refs {
		switch {
		case is(ref, "gateway.networking.k8s.io", "Gateway"):
			if ref.GetName() == gw && p.Namespace == s.wlNS && (ref.GetNamespace() == "" || ref.GetNamespace() == s.wlNS) {
				return true
			}
		case is(ref, "gateway.networking.k8s.io", "GatewayClass"):
			if waypoint && ref.GetName() == "istio-waypoint" && p.Namespace == s.rootNS {
				return true
			}
		case is(ref, "core", "Service"):
			if waypoint && svc != nil && svc.k8s && svcName == ref.GetName() && svc.ns == p.Namespace {
				return true
			}
		case is(ref, "networking.istio.io", "ServiceEntry"):
			if waypoint && svc != nil && !svc.k8s && svcName == ref.GetName() && svc.ns == p.Namespace {
				return true
			}
		}
	}
	return false
}

// attachBranch names the clause by which a policy applies (evidence counters only).
func (s *sut) attachBranch(p *model.AuthorizationPolicy) string {
	if !s.applies(p) {
		return "none"
	}
	refs := p.Spec.GetTargetRefs()
	if len(refs) == 0 && p.Spec.GetTargetRef() != nil {
		return "legacy-targetRef"
	}
	if len(refs) == 0 {
		if p.Spec.GetSelector() == nil {
			return "namespace-wide"
		}
		return "selector"
	}
	kinds := map[string]bool{}
	for _, r := range refs {
		kinds[r.GetKind()] = true
	}
	for _, k := range []string{"Service", "ServiceEntry", "GatewayClass", "Gateway"} {
		if kinds[k] {
			q := *p
			sp := *p.Spec
			q.Spec = &sp
			q.Spec.TargetRefs = nil
			for _, r := range refs {
				if r.GetKind() == k {
					q.Spec.TargetRefs = append(q.Spec.TargetRefs, r)
				}
			}
			if s.applies(&q) {
				return "targetRef-" + k
			}
		}
	}
	return "targetRef-other"
}

// customDenies: a CUSTOM policy delegates to its extension provider (taken to allow here). It is
// enforced as DENY (documented fail-closed behaviour) when its provider is not defined in the mesh
// config, or when several providers are used for the workload while the multi-provider feature is
// off. Dry-run CUSTOM policies have no effect.
func customDenies(s *sut, r *request) bool {
	provs := map[string]bool{}
	for i := range s.policies {
		p := &s.policies[i]
		if s.applies(p) && p.Spec.Action == authpb.AuthorizationPolicy_CUSTOM {
			provs[p.Spec.GetProvider().GetName()] = true
		}
	}
	known := func(n string) bool {
		_, _, ok := s.providerTarget(n)
		return ok
	}
	for i := range s.policies {
		p := &s.policies[i]
		if !s.applies(p) || p.Spec.Action != authpb.AuthorizationPolicy_CUSTOM || isDryRun(p) {
			continue
		}
		bad := (len(provs) > 1 && !s.multi) || !known(p.Spec.GetProvider().GetName())
		if bad && policyMatches(p, r) {
			return true
		}
	}
	return false
}

// envoyStatus: the codes of envoy.type.v3.StatusCode.
var envoyStatus = map[int64]bool{}

func init() {
	for _, c := range []int64{0, 100, 200, 201, 202, 203, 204, 205, 206, 207, 208, 226, 300, 301, 302, 303, 304, 305, 307, 308,
		400, 401, 402, 403, 404, 405, 406, 407, 408, 409, 410, 411, 412, 413, 414, 415, 416, 417, 421, 422, 423, 424, 426, 428, 429, 431,
		500, 501, 502, 503, 504, 505, 506, 507, 508, 510, 511} {
		envoyStatus[c] = true
	}
}

// providerTarget: where the authorizer of the named provider lives according to the mesh config (label kind:cluster),
// whether it is of the HTTP kind, and whether the provider is usable at all: exactly one entry with that name, a
// DNS-label name, port in [1, 65535], a service the registry resolves (<ns>/<host>, or a host living in ONE
// namespace), a status on error that is an HTTP status Envoy knows, a path prefix (HTTP kind) starting with '/'.
func (s *sut) providerTarget(n string) (label string, http, ok bool) {
	var p *provSpec
	count := 0
	for i := range s.providers {
		if s.providers[i].name == n {
			p = &s.providers[i]
			count++
		}
	}
	if count != 1 || n == "" || len(n) > 63 || strings.HasPrefix(n, "-") || strings.HasSuffix(n, "-") {
		return "", false, false
	}
	for _, c := range n {
		if !(c >= 'a' && c <= 'z' || c >= '0' && c <= '9' || c == '-') {
			return "", false, false
		}
	}
	if p.port < 1 || p.port > 65535 {
		return "", false, false
	}
	hostname := ""
	if q := strings.Split(p.service, "/"); len(q) == 2 {
		for _, e := range registry {
			if e[0] == q[1] && e[1] == q[0] {
				hostname = q[1]
			}
		}
	} else {
		k := 0
		for _, e := range registry {
			if e[0] == p.service {
				k++
			}
		}
		if k == 1 {
			hostname = p.service
		}
	}
	if hostname == "" {
		return "", false, false
	}
	if p.status != "" {
		c, err := strconv.ParseInt(p.status, 10, 32)
		if err != nil || !envoyStatus[c] || c == 0 { // 0 = the enum's Empty placeholder, which Envoy rejects (fix 2aba4fa)
			return "", false, false
		}
	}
	if p.http && p.pathPrefix != "" && !strings.HasPrefix(p.pathPrefix, "/") {
		return "", false, false
	}
	// the target in the canonical form of canon.go: kind, cluster, authority / URI host, failure mode, status on error
	// (HTTP filters only: the network ext_authz filter has none), path prefix (HTTP kind)
	kind, prefix := "grpc", ""
	if p.http {
		kind, prefix = "http", p.pathPrefix
	}
	st, fo := "nil", "0"
	if p.status != "" && !s.shapeTCP {
		c, _ := strconv.ParseInt(p.status, 10, 32)
		st = fmt.Sprint(c)
	}
	if p.failOpen {
		fo = "1"
	}
	return fmt.Sprintf("(%s cluster=%s host=%s failopen=%s status=%s prefix=%s)", kind,
		wire.Enc(fmt.Sprintf("outbound|%d||%s", p.port, hostname)), wire.Enc(hostname), fo, st, wire.Enc(prefix)), p.http, true
}

// customAsks: the extension providers whose authorizer the request has to be sent to (sorted): the CUSTOM
// policies are not in the fail-closed mode, the provider is defined and usable on this kind of chain (an
// HTTP-type provider cannot serve a network filter chain), and an enforced CUSTOM policy naming it matches.
func customAsks(s *sut, r *request) []string {
	labels, _ := customAsksBy(s, r)
	return labels
}

// customAsksBy: ... the targets (labels) and the provider names.
func customAsksBy(s *sut, r *request) ([]string, []string) {
	var outNames []string
	specBundle = s.bundle
	specTCP = s.forTCP
	provs := map[string]bool{}
	for i := range s.policies {
		p := &s.policies[i]
		if s.applies(p) && p.Spec.Action == authpb.AuthorizationPolicy_CUSTOM {
			provs[p.Spec.GetProvider().GetName()] = true
		}
	}
	if len(provs) > 1 && !s.multi {
		return nil, nil
	}
	usable := func(n string) bool {
		_, http, ok := s.providerTarget(n)
		return ok && !(http && s.shapeTCP)
	}
	names := make([]string, 0, len(provs))
	for n := range provs {
		names = append(names, n)
	}
	sort.Strings(names)
	var out []string
	stale := "" // classification only: the id an earlier provider's RBAC filter left behind (see isLoose "xprov")
	for _, n := range names {
		if !usable(n) {
			continue
		}
		own := ""
		for i := range s.policies {
			p := &s.policies[i]
			if !s.applies(p) || p.Spec.Action != authpb.AuthorizationPolicy_CUSTOM || isDryRun(p) || p.Spec.GetProvider().GetName() != n {
				continue
			}
			for j, rule := range p.Spec.Rules {
				if rule == nil {
					continue
				}
				specRemaining = true
				m := ruleMatches(p.Namespace, rule, r)
				specRemaining = false
				if m {
					id := fmt.Sprintf("istio-ext-authz-%s-ns[%s]-policy[%s]-rule[%d]", n, p.Namespace, p.Name, j)
					if own == "" || id < own {
						own = id
					}
				}
			}
		}
		label, _, _ := s.providerTarget(n)
		switch {
		case own != "":
			out = append(out, label)
			outNames = append(outNames, n)
			stale = own
		case isLoose("xprov", n) && strings.HasPrefix(stale, "istio-ext-authz-"+n):
			// today: the enabling matcher is a PREFIX match on the stored policy id, which another provider's
			// policy id satisfies when this provider's name continues into it (`x` / `x-ns`)
			out = append(out, label)
			outNames = append(outNames, n)
		}
	}
	return out, outNames
}

// isDryRun: the policy carries istio.io/dry-run with a value that reads as true (1, t, T, TRUE, true, True).
func isDryRun(p *model.AuthorizationPolicy) bool {
	v, ok := p.Annotations["istio.io/dry-run"]
	if !ok {
		return false
	}
	b, err := strconv.ParseBool(v)
	return err == nil && b
}

func specDecision(s *sut, r *request) bool {
	specBundle = s.bundle
	specTCP = s.forTCP
	if customDenies(s, r) {
		return false
	}
	allowExists, allowMatch := false, false
	for i := range s.policies {
		p := &s.policies[i]
		if !s.applies(p) || isDryRun(p) {
			continue
		}
		switch p.Spec.Action {
		case authpb.AuthorizationPolicy_DENY:
			if policyMatches(p, r) {
				return false
			}
		case authpb.AuthorizationPolicy_ALLOW:
			allowExists = true
			if policyMatches(p, r) {
				allowMatch = true
			}
		}
	}
	return !allowExists || allowMatch
}

// templateSegments: path templates segment by segment: `*` = one non-empty segment, `**` = one or more
// segments, a literal = itself (the Go interpreter evaluates templates differently: by regex).
func templateSegments(ts, segs []string) bool {
	if len(ts) == 0 {
		return len(segs) == 0
	}
	if len(segs) == 0 {
		return false
	}
	t, s := ts[0], segs[0]
	if t == "**" {
		for k := 1; k <= len(segs); k++ {
			if templateSegments(ts[1:], segs[k:]) {
				return true
			}
		}
		return false
	}
	if t == "*" {
		return s != "" && templateSegments(ts[1:], segs[1:])
	}
	return s == t && templateSegments(ts[1:], segs[1:])
}
