//go:build c06ext

package main

// Entry points that need the newer functions of the hook pilot/pkg/xds/zz_verif_c06.go (delta requests/pushes, the
// typed config dump). The check builds the harness with -tags "verif c06ext"; against a tree whose hook file
// lacks them it falls back to the plain build (writers_noext.go) and reports the broken tie.

import (
	corev3 "github.com/envoyproxy/go-control-plane/envoy/config/core/v3"
	discovery "github.com/envoyproxy/go-control-plane/envoy/service/discovery/v3"

	"istio.io/istio/pilot/pkg/model"
	pxds "istio.io/istio/pilot/pkg/xds"
)

const extAvailable = true

func extNewDeltaConn(p *model.Proxy) *pxds.Connection {
	return pxds.VerifC06NewDeltaConnection(p, &sinkDeltaStream{})
}

func extProcessDelta(s *pxds.DiscoveryServer, req *discovery.DeltaDiscoveryRequest, con *pxds.Connection) error {
	return pxds.VerifC06ProcessDeltaRequest(s, req, con)
}

func extPushDelta(s *pxds.DiscoveryServer, con *pxds.Connection, req *model.PushRequest) error {
	return pxds.VerifC06PushConnectionDelta(s, con, req)
}

// extConnect runs the REAL DiscoveryServer.initConnection for the xDS Node of a proxy with these attributes.
func extConnect(s *pxds.DiscoveryServer, node *corev3.Node, delta bool, dsink *sinkDeltaStream) (*pxds.Connection, *model.Proxy, error) {
	return pxds.VerifC06InitConnection(s, node, delta, &sinkStream{}, dsink)
}

func extDumpTypes(s *pxds.DiscoveryServer, con *pxds.Connection, types []string) {
	pxds.VerifC06ConfigDumpTypes(s, con, types)
}
