#!/usr/bin/env python3
"""Enumerate every read of a proxy attribute inside the cached generation paths (CDS, RDS, EDS, SDS).

grep-based extractor: for the source files of the cluster / route / endpoint / secret generators it lists every
selector chain that starts at a *model.Proxy value (node, proxy, cb.proxy, b.proxy, lb.node, opts.proxy, ...), e.g.
`Metadata.DNSCapture`, `Labels`, `GetIPMode()`, `SidecarScope.OutboundTrafficPolicy`, `IsProxylessGrpc()`, plus the builder
fields that were copied from the proxy (cb.locality, b.network, ...). Output: accessor -> files:lines. The
classification (in the key / constant over the cached class / varied by a keys attribute) is in notes/C06.md.

usage: proxyreads.py [repo]      (default /repo)
"""
import collections, os, re, sys
repo = sys.argv[1] if len(sys.argv) > 1 else "/repo"
FILES = {
 "CDS": ["pilot/pkg/networking/core/cluster.go", "pilot/pkg/networking/core/cluster_builder.go", "pilot/pkg/networking/core/cluster_cache.go",
         "pilot/pkg/networking/core/cluster_tls.go", "pilot/pkg/networking/core/cluster_traffic_policy.go",
         "pilot/pkg/networking/core/loadbalancer/loadbalancer.go", "pilot/pkg/networking/core/envoyfilter/cluster_patch.go"],
 "RDS": ["pilot/pkg/networking/core/httproute.go", "pilot/pkg/networking/core/route/route.go", "pilot/pkg/networking/core/route/route_cache.go",
         "pilot/pkg/networking/core/route/retry/retry.go", "pilot/pkg/networking/core/envoyfilter/rc_patch.go", "pilot/pkg/networking/util/util.go"],
 "EDS": ["pilot/pkg/xds/endpoints/endpoint_builder.go", "pilot/pkg/xds/endpoints/ep_filters.go", "pilot/pkg/xds/endpoints/mtls_checker.go",
         "pilot/pkg/xds/eds.go"],
 "SDS": ["pilot/pkg/xds/sds.go"],
}
# expressions that denote the requesting proxy
ROOT = r"(?:\b(?:node|proxy|cb\.proxy|b\.proxy|lb\.node|opts\.proxy|opts\.Node|opts\.node|con\.proxy|eb\.proxy|in\.Node|in\.node)\b)"
CHAIN = re.compile(ROOT + r"((?:\.[A-Za-z_][A-Za-z0-9_]*(?:\([^()]*\))?){1,4})")
SKIP = re.compile(r"^\.(Lock|Unlock|RLock|RUnlock|ID\b)")
out = collections.defaultdict(lambda: collections.defaultdict(list))
for typ, files in FILES.items():
    for f in files:
        p = os.path.join(repo, f)
        if not os.path.exists(p):
            continue
        for n, line in enumerate(open(p), 1):
            code = line.split("//")[0]
            for m in CHAIN.finditer(code):
                acc = m.group(1)
                if SKIP.match(acc):
                    continue
                # normalise: keep up to 3 selectors, drop call arguments
                acc = re.sub(r"\([^()]*\)", "()", acc)
                acc = ".".join(acc.strip(".").split(".")[:3])
                out[typ][acc].append("%s:%d" % (os.path.basename(f), n))
for typ in FILES:
    print("== %s" % typ)
    for acc in sorted(out[typ]):
        locs = out[typ][acc]
        print("  %-55s %s" % (acc, " ".join(locs[:4]) + (" ..." if len(locs) > 4 else "")))
