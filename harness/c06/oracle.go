package main

import (
	"fmt"
	"strconv"
	"strings"
	"time"

	discovery "github.com/envoyproxy/go-control-plane/envoy/service/discovery/v3"

	"istio.io/istio/pilot/pkg/features"
	"istio.io/istio/pilot/pkg/model"
	"istio.io/istio/pkg/util/sets"
	"verifharness/internal/wire"
)

// ---------------------------------------------------------------- oracle for stream `cache`
//
// Evaluates the property on the real cache, independently of the Lean model. The harness keeps its
// own ground truth: every add is a writer whose data is as old as its Start time; every Clear /
// ClearAll is an accepted change of the named configs. Clauses:
//
//	stale     a Get returned a value although a change of one of its dependencies was accepted
//	          after the value was written, or was newer than the writer's Start
//	wrongkey  a Get returned a value that was written under another (type, key)
//	clear     after Clear(cs) a live entry still depends on some c in cs
//	token     after Clear/ClearAll a typed cache's token is older than the clock before the call
//	index     a live entry is missing from the reverse index of one of its dependencies
//	leak      after Flush an index edge has no live entry behind it
//	crash     a panic other than the documented key type assertion

type writeRec struct {
	typ, key string
	deps     []string
	t        uint64
	hasT     bool
	pos      int
}

type invalRec struct {
	pos   int
	L     uint64
	all   bool
	cfgs  map[string]bool
	hasPA bool
}

func (iv invalRec) covers(w writeRec) bool {
	if iv.all || (iv.hasPA && w.typ == model.EDSType) {
		return true
	}
	for _, d := range w.deps {
		if iv.cfgs[d] {
			return true
		}
	}
	return false
}

func oracleCase(lines [][]string, unit uint64) (string, error) {
	var s *sut
	writes := map[string]writeRec{}
	var invals []invalRec
	for pos, f := range lines {
		if f[0] == "case" {
			m, c, r, ok := parseCase(f)
			if !ok {
				m, c, r = 0, true, true
			}
			s = newSUT(m, c, r, unit)
			continue
		}
		if s == nil {
			s = newSUT(0, true, true, unit)
		}
		var t0 uint64
		if f[0] == "clear" || f[0] == "clearall" {
			t0 = 1 // marker; real check below uses the anchor
		}
		res, _, err := s.apply(f)
		if err != nil {
			return "", err
		}
		if res == "bad-op" {
			continue
		}
		fail := func(clause string, more ...string) string {
			return fmt.Sprintf("FAIL %s op=%d %s %s", clause, pos, strings.Join(f, "_"), strings.Join(more, " "))
		}
		switch f[0] {
		case "add":
			if res == "crash" {
				if !expectCrash(f[1], f[2], f[3]) {
					return fail("crash"), nil
				}
				break
			}
			if f[5] != "nil" {
				w := writeRec{typ: f[1], key: f[2], deps: listTok(f[4]), pos: pos}
				if isNat(f[6]) {
					w.t, _ = strconv.ParseUint(f[6], 10, 64)
					w.hasT = true
				}
				if old, ok := writes[f[5]]; !ok || (old.typ == w.typ && old.key == w.key) {
					// (a value name written under two different keys cannot be attributed; the
					// generator never does that)
					writes[f[5]] = w
				}
			}
		case "get":
			if res == "crash" {
				if !expectCrash(f[1], f[2], f[3]) {
					return fail("crash"), nil
				}
				break
			}
			if strings.HasPrefix(res, "hit:") {
				w, ok := writes[res[4:]]
				if !ok || w.typ != f[1] || w.key != f[2] {
					return fail("wrongkey", res), nil
				}
				for _, iv := range invals {
					if iv.covers(w) && (iv.pos > w.pos || (w.hasT && iv.L > w.t)) {
						return fail("stale", res, fmt.Sprintf("written-at-op=%d start=%d invalidated-at-op=%d time=%d", w.pos, w.t, iv.pos, iv.L)), nil
					}
				}
			}
		case "clear", "clearall":
			_ = t0
			L, _ := strconv.ParseUint(f[1], 10, 64)
			iv := invalRec{pos: pos, L: L, all: f[0] == "clearall", cfgs: map[string]bool{}}
			if f[0] == "clear" {
				for _, c := range listTok(f[2]) {
					iv.cfgs[c] = true
					if strings.HasPrefix(c, "PA/") && len(strings.Split(c, "/")) == 3 {
						iv.hasPA = true
					}
				}
			}
			invals = append(invals, iv)
			// token refreshed: the anchor of L knows which typed caches took a token inside the call
			a := s.clk.anchors[s.clk.find(L)]
			for typ := range s.tokens() {
				if _, ok := a.per[typ]; !ok {
					return fail("token", typ), nil
				}
			}
			for _, typ := range typeOrder {
				st := model.VerifC06Snapshot(s.cache, typ)
				for _, e := range st.Store {
					w := writeRec{typ: typ, deps: s.depToks(e.Deps)}
					if iv.covers(w) {
						return fail("clear", typ, keyTok(e.Key)), nil
					}
				}
			}
		}
		// structural invariants of the real state after every op
		for _, typ := range typeOrder {
			st := model.VerifC06Snapshot(s.cache, typ)
			if st.Disabled {
				continue
			}
			live := map[any][]model.ConfigHash{}
			for _, e := range st.Store {
				live[e.Key] = e.Deps
				for _, d := range e.Deps {
					found := false
					for _, k := range st.Index[d] {
						if k == e.Key {
							found = true
						}
					}
					if !found {
						return fail("index", typ, keyTok(e.Key), s.depToks([]model.ConfigHash{d})[0]), nil
					}
				}
			}
			if f[0] == "flush" {
				for h, ks := range st.Index {
					for _, k := range ks {
						ok := false
						for _, d := range live[k] {
							if d == h {
								ok = true
							}
						}
						if !ok {
							return fail("leak", typ, keyTok(k), s.depToks([]model.ConfigHash{h})[0]), nil
						}
					}
				}
			}
		}
	}
	return "OK", nil
}

func expectCrash(typ, key, cacheable string) bool {
	if !(cacheable == "1" || cacheable == "true") {
		return false
	}
	switch typ {
	case model.CDSType, model.EDSType, model.RDSType:
		return strings.HasPrefix(key, "s")
	case model.SDSType:
		return strings.HasPrefix(key, "u")
	}
	return false
}

func oracleCache(opsPath, outPath string) {
	all := wire.ReadLines(opsPath)
	out := wire.Create(outPath)
	defer out.Close()
	for _, c := range splitCases(all) {
		unit := uint64(20000)
		var v string
		var err error
		for try := 0; try < 12; try++ {
			v, err = oracleCase(c, unit)
			if err == nil {
				break
			}
			unit *= 2
		}
		if err != nil {
			v = "OK timing-unresolved"
		}
		out.Line(v)
	}
}

// ---------------------------------------------------------------- interleaving enumeration
//
// case <n> <maxsize> <type> <samekey> <twodeps> <round2> <flusher>
//
// Processes (each step is atomic, as every cache method holds the cache mutex):
//
//	invalidator, 2 rounds x 2 steps: [accept a change of config c_r and Clear({c_r})] [publish the new
//	             snapshot and stamp the push with Start = time.Now()]       (initPushContext; StartPush)
//	writer W1, W2, 3 steps each: [take the published (snapshot, Start) pair] [Get; a hit must not be
//	             older than the writer's own snapshot] [on a miss: generate from the snapshot and Add]
//	flusher (optional), 1 step: Flush
//
// All interleavings are executed on the real cache with the real wall clock. After each schedule a
// reader with the newest published snapshot Gets every key: a hit derived from an older version of
// a dependency than the reader's snapshot is a violation ("no resource derived from the older state
// is handed out for a newer snapshot").

type ilScenario struct {
	maxsize int
	typ     string
	samekey bool
	twodeps bool
	round2  string // "same", "other", "pa", "first-other", "all", "first-all" ("all": a global input changes, ClearAll)
	flusher bool
}

func tick() {
	t := time.Now().UnixNano()
	for time.Now().UnixNano() == t {
	}
}

type ilWorld struct {
	cache    model.XdsCache
	ver      map[string]int
	pub      map[string]int
	pubStart time.Time
}

func (w *ilWorld) publish() {
	w.pub = map[string]int{}
	for k, v := range w.ver {
		w.pub[k] = v
	}
	tick()
	w.pubStart = time.Now()
	tick()
}

type ilWriter struct {
	key   any
	deps  []string
	snap  map[string]int
	start time.Time
	done  bool
}

func ilValue(key any, deps []string, snap map[string]int) string {
	parts := []string{keyTok(key)}
	for _, d := range deps {
		parts = append(parts, fmt.Sprintf("%s=%d", d, snap[d]))
	}
	return strings.Join(parts, "@")
}

// older reports whether the value was derived from an older version of one of deps than snap has.
func ilOlder(val string, key any, deps []string, snap map[string]int) (bool, string) {
	parts := strings.Split(val, "@")
	if parts[0] != keyTok(key) {
		return true, "value-of-another-key"
	}
	for i, d := range deps {
		if i+1 >= len(parts) {
			return true, "malformed"
		}
		kv := strings.SplitN(parts[i+1], "=", 2)
		n, _ := strconv.Atoi(kv[1])
		if kv[0] != d {
			return true, "malformed"
		}
		if n < snap[d] {
			return true, fmt.Sprintf("%s derived from version %d, snapshot has %d", d, n, snap[d])
		}
	}
	return false, ""
}

func runSchedule(sc ilScenario, sched []int) string {
	features.XDSCacheMaxSize = sc.maxsize
	features.EnableCDSCaching, features.EnableRDSCaching = true, true
	w := &ilWorld{cache: model.NewXdsCache(), ver: map[string]int{"SE/ns/a": 0, "DR/ns/b": 0, "PA/ns/a": 0, "GLOBAL": 0}}
	w.publish()
	deps := []string{"SE/ns/a"}
	if sc.twodeps {
		deps = []string{"SE/ns/a", "DR/ns/b"}
	}
	mk := func(i uint64) any {
		if sc.typ == model.SDSType {
			return fmt.Sprintf("k%d", i)
		}
		return i
	}
	ws := []*ilWriter{{key: mk(1), deps: deps}, {key: mk(2), deps: deps}}
	if sc.samekey {
		ws[1].key = mk(1)
	}
	hashes := func(d []string) []model.ConfigHash {
		var out []model.ConfigHash
		for _, t := range d {
			out = append(out, cfgKey(t).HashCode())
		}
		return out
	}
	rounds := []string{"SE/ns/a", "SE/ns/a"}
	switch sc.round2 {
	case "other":
		rounds[1] = "DR/ns/b"
	case "pa":
		rounds[1] = "PA/ns/a"
	case "first-other":
		rounds[0] = "DR/ns/b"
	case "all":
		rounds[1] = "ALL"
	case "first-all":
		rounds[0] = "ALL"
	}
	// what a value is derived from: the declared dependencies, the global input that no entry declares and no key
	// carries (mesh config, networks, ambient addresses: invalidated by ClearAll only), and for EDS the
	// PeerAuthentication that XdsCacheImpl.Clear treats as a dependency of every EDS entry
	derived := func(deps []string) []string {
		d := append(append([]string{}, deps...), "GLOBAL")
		if sc.typ == model.EDSType {
			d = append(d, "PA/ns/a")
		}
		return d
	}
	pc := []int{0, 0, 0, 0} // program counters: W1, W2, invalidator, flusher
	var trace []string
	for _, p := range sched {
		tick()
		switch {
		case p < 2:
			wr := ws[p]
			e := entry{typ: sc.typ, key: wr.key, deps: hashes(wr.deps), cacheable: true}
			switch pc[p] {
			case 0:
				wr.snap, wr.start = w.pub, w.pubStart
				trace = append(trace, fmt.Sprintf("W%d.take", p+1))
			case 1:
				r := w.cache.Get(e)
				trace = append(trace, fmt.Sprintf("W%d.get", p+1))
				if r != nil {
					wr.done = true
					if old, why := ilOlder(ilFull(r.Name), wr.key, derived(wr.deps), wr.snap); old {
						return "FAIL stale-writer-hit " + strings.Join(trace, ",") + " " + why
					}
				}
			case 2:
				trace = append(trace, fmt.Sprintf("W%d.add", p+1))
				if !wr.done {
					w.cache.Add(e, &model.PushRequest{Start: wr.start}, &discovery.Resource{Name: ilValue(wr.key, derived(wr.deps), wr.snap)})
				}
			}
		case p == 2:
			r := pc[2] / 2
			if pc[2]%2 == 0 && rounds[r] == "ALL" {
				w.ver["GLOBAL"]++
				w.cache.ClearAll()
				trace = append(trace, "I.clearall")
			} else if pc[2]%2 == 0 {
				w.ver[rounds[r]]++
				w.cache.Clear(sets.New(cfgKey(rounds[r])))
				trace = append(trace, "I.clear:"+rounds[r])
			} else {
				w.publish()
				trace = append(trace, "I.publish")
			}
		default:
			realFlush(w.cache)
			trace = append(trace, "F.flush")
		}
		pc[p]++
	}
	// final reader with the newest snapshot
	w.publish()
	for _, wr := range ws {
		e := entry{typ: sc.typ, key: wr.key, deps: hashes(wr.deps), cacheable: true}
		if r := w.cache.Get(e); r != nil {
			if old, why := ilOlder(ilFull(r.Name), wr.key, derived(wr.deps), w.pub); old {
				return "FAIL stale " + strings.Join(trace, ",") + " reader-got=" + r.Name + " " + why
			}
		}
	}
	return ""
}

func ilFull(s string) string { return s }

// schedules enumerates all interleavings of processes with the given step counts.
func schedules(counts []int, cur []int, f func([]int) bool) bool {
	done := true
	for p, c := range counts {
		if c > 0 {
			done = false
			counts[p]--
			if !schedules(counts, append(cur, p), f) {
				counts[p]++
				return false
			}
			counts[p]++
		}
	}
	if done {
		return f(cur)
	}
	return true
}

func oracleInterleave(opsPath, outPath string) {
	all := wire.ReadLines(opsPath)
	out := wire.Create(outPath)
	defer out.Close()
	for _, f := range all {
		if f[0] != "case" || len(f) != 8 {
			continue
		}
		ms, _ := strconv.Atoi(f[2])
		sc := ilScenario{maxsize: ms, typ: f[3], samekey: f[4] == "1", twodeps: f[5] == "1", round2: f[6], flusher: f[7] == "1"}
		counts := []int{3, 3, 4, 0}
		if sc.flusher {
			counts[3] = 1
		}
		n := 0
		verdict := ""
		schedules(counts, nil, func(s []int) bool {
			n++
			if v := runSchedule(sc, s); v != "" {
				verdict = v
				return false
			}
			return true
		})
		if verdict == "" {
			out.Line("OK", "schedules="+strconv.Itoa(n))
		} else {
			out.Line(strings.ReplaceAll(verdict, " ", " "))
		}
		out.Flush()
	}
}

func genInterleave(seed uint64, n int, path string) {
	out := wire.Create(path)
	defer out.Close()
	r := wire.NewRng(seed ^ 0x1e06)
	fixed := [][]string{
		{"2", "eds", "1", "0", "same", "0"},
		{"1", "cds", "0", "0", "same", "0"},
		{"2", "eds", "1", "0", "same", "1"},
		{"2", "sds", "0", "1", "other", "0"},
		{"2", "eds", "1", "0", "pa", "0"},
		{"2", "rds", "1", "1", "first-other", "1"},
		{"2", "cds", "1", "0", "all", "0"},
		{"2", "eds", "0", "1", "first-all", "1"},
	}
	for i := 0; i < n; i++ {
		var sc []string
		if i < len(fixed) {
			sc = fixed[i]
		} else {
			sc = []string{strconv.Itoa(1 + r.Intn(3)), wire.Pick(r, []string{"eds", "cds", "rds", "sds"}), wire.B(r.Chance(1, 2)),
				wire.B(r.Chance(1, 2)), wire.Pick(r, []string{"same", "other", "pa", "first-other", "all", "first-all"}), wire.B(r.Chance(1, 3))}
		}
		out.Line(append([]string{"case", strconv.Itoa(i)}, sc...)...)
	}
}
