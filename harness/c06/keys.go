package main

func genKeys(seed uint64, n int, path string) {}
func execKeys(opsPath, outPath string)        {}
func oracleKeys(opsPath, outPath string)      {}
