package main

// Stream `keys`: validation (not proof) of the hypothesis KeyComplete of theorems cache_invisible /
// key_injective_invisible for the REAL key functions (endpoints.EndpointBuilder.WriteHash/Key,
// core clusterCache.Key, route.Cache.Key) as they are used by the real generators.
//
//	case <n> <world> <base>       a fresh FakeDiscoveryServer with mesh variant <world>, base proxy variant <base>
//	pair <attr> <dir>             proxies P (base) and Q (base with exactly <attr> changed); dir=pq|qp
//
// For a pair (first, second): the shared real XdsCache is warmed by generating CDS+EDS+RDS for `first`
// through the server's real generators; then CDS+EDS+RDS are generated for `second` with the warm
// cache, the cache is emptied (ClearAll), and the same is generated again from scratch. If a key
// function omits an attribute that generation reads, `second` is served an entry built for `first`
// and the two outputs differ. The answer is `eq` or `diff:<type>/<resource>`; the Lean driver (the
// spec side) answers `eq` for every pair.

import (
	"fmt"
	"os"
	"sort"
	"strconv"
	"strings"
	"time"

	corev3 "github.com/envoyproxy/go-control-plane/envoy/config/core/v3"
	"google.golang.org/protobuf/proto"
	"google.golang.org/protobuf/types/known/durationpb"
	"google.golang.org/protobuf/types/known/wrapperspb"

	corev1 "k8s.io/api/core/v1"
	metav1 "k8s.io/apimachinery/pkg/apis/meta/v1"
	"k8s.io/apimachinery/pkg/runtime"
	kfake "k8s.io/client-go/kubernetes/fake"

	meshconfig "istio.io/api/mesh/v1alpha1"
	"istio.io/istio/pilot/pkg/bootstrap"
	kubesecrets "istio.io/istio/pilot/pkg/credentials/kube"
	"istio.io/istio/pilot/pkg/features"
	"istio.io/istio/pilot/pkg/model"
	"istio.io/istio/pilot/pkg/networking/core"
	pxds "istio.io/istio/pilot/pkg/xds"
	v3 "istio.io/istio/pilot/pkg/xds/v3"
	txds "istio.io/istio/pilot/test/xds"
	"istio.io/istio/pilot/test/xdstest"
	"istio.io/istio/pkg/cluster"
	"istio.io/istio/pkg/config/mesh"
	"istio.io/istio/pkg/config/schema/kind"
	kubelib "istio.io/istio/pkg/kube"
	"istio.io/istio/pkg/kube/multicluster"
	"istio.io/istio/pkg/network"
	"istio.io/istio/pkg/security"
	"istio.io/istio/pkg/spiffe"
	"istio.io/istio/pkg/util/sets"
	"verifharness/internal/quiet"
	"verifharness/internal/wire"
)

type failer struct{ cleanups []func() }

// fakeFail is what the test.Failer handed to the FakeDiscoveryServer panics with: a failure the TEST INFRASTRUCTURE of
// /repo reports (wall-clock deadlines of its retry helpers on a loaded machine), as opposed to a panic of the code
// under test.
type fakeFail struct{ msg string }

func (f *failer) Fail()                          { panic(fakeFail{"Fail"}) }
func (f *failer) FailNow()                       { panic(fakeFail{"FailNow"}) }
func (f *failer) Fatal(args ...any)              { panic(fakeFail{fmt.Sprint(args...)}) }
func (f *failer) Fatalf(format string, a ...any) { panic(fakeFail{fmt.Sprintf(format, a...)}) }
func (f *failer) Log(args ...any)                {}
func (f *failer) Logf(format string, a ...any)   {}
func (f *failer) TempDir() string                { d, _ := os.MkdirTemp("", "c06"); return d }
func (f *failer) Helper()                        {}
func (f *failer) Cleanup(fn func())              { f.cleanups = append(f.cleanups, fn) }
func (f *failer) Skip(args ...any)               {}
func (f *failer) done() {
	for i := len(f.cleanups) - 1; i >= 0; i-- {
		f.cleanups[i]()
	}
	f.cleanups = nil
}

const keysMesh = `
apiVersion: networking.istio.io/v1
kind: ServiceEntry
metadata: {name: se-a, namespace: default}
spec:
  hosts: [a.example.com]
  ports:
  - {number: 80, name: http, protocol: HTTP}
  - {number: 9000, name: tcp, protocol: TCP}
  resolution: STATIC
  location: MESH_INTERNAL
  endpoints:
  - {address: 10.0.0.1, locality: region1/zone1/sub1, network: net1, labels: {app: a, version: v1, tier: gold}, serviceAccount: sa-a}
  - {address: 10.0.0.2, locality: region1/zone2/sub1, network: net1, labels: {app: a, version: v2, tier: silver}}
  - {address: 10.0.0.3, locality: region1/zone1/sub2, network: net1, labels: {app: a, version: v1, tier: silver}}
  - {address: 10.0.1.1, locality: region2/zone1/sub1, network: net2, labels: {app: a, version: v1, tier: gold}}
  - {address: 10.0.1.2, locality: region2/zone2/sub1, network: net2, labels: {app: a, version: v2, tier: silver}}
---
apiVersion: networking.istio.io/v1
kind: ServiceEntry
metadata: {name: se-b, namespace: ns-b}
spec:
  hosts: [b.example.com]
  ports:
  - {number: 8080, name: http-b, protocol: HTTP}
  resolution: STATIC
  location: MESH_INTERNAL
  endpoints:
  - {address: 10.1.0.1, locality: region1/zone1/sub1, network: net1, labels: {app: b}, serviceAccount: sa-b}
  - {address: 10.1.0.2, locality: region1/zone2/sub1, network: net1, labels: {app: b}}
  - {address: 10.1.0.3, locality: region1/zone1/sub2, network: net1, labels: {app: b}}
  - {address: 10.1.1.1, locality: region2/zone1/sub1, network: net2, labels: {app: b}}
---
apiVersion: networking.istio.io/v1
kind: ServiceEntry
metadata: {name: se-dns, namespace: default}
spec:
  hosts: [dns.example.com]
  ports:
  - {number: 443, name: tls, protocol: TLS}
  - {number: 80, name: http, protocol: HTTP}
  resolution: DNS
  location: MESH_EXTERNAL
  endpoints:
  - {address: one.example.net, locality: region1/zone1/sub1, network: net1}
  - {address: two.example.net, locality: region2/zone1/sub1, network: net2}
---
apiVersion: networking.istio.io/v1
kind: ServiceEntry
metadata: {name: se-c, namespace: default}
spec:
  hosts: [c.example.com]
  exportTo: ["."]
  ports:
  - {number: 80, name: http, protocol: HTTP}
  resolution: STATIC
  endpoints:
  - {address: 10.2.0.1, locality: region1/zone1/sub1, network: net1}
---
apiVersion: networking.istio.io/v1
kind: DestinationRule
metadata: {name: dr-a, namespace: default}
spec:
  host: a.example.com
  trafficPolicy:
    outlierDetection: {consecutive5xxErrors: 3, interval: 10s}
    loadBalancer:
      localityLbSetting:
        enabled: true
        failoverPriority: ["tier", "topology.kubernetes.io/region"]
  subsets:
  - {name: v1, labels: {version: v1}}
  - {name: v2, labels: {version: v2}, trafficPolicy: {connectionPool: {tcp: {maxConnections: 7}}}}
---
apiVersion: networking.istio.io/v1
kind: DestinationRule
metadata: {name: dr-a-sel, namespace: default}
spec:
  host: a.example.com
  workloadSelector: {matchLabels: {sel: a}}
  trafficPolicy:
    outlierDetection: {consecutive5xxErrors: 3, interval: 10s}
    loadBalancer:
      localityLbSetting:
        enabled: true
        failoverPriority: ["tier", "topology.kubernetes.io/region"]
  subsets:
  - {name: v1, labels: {version: v2}}
  - {name: v2, labels: {version: v1}, trafficPolicy: {connectionPool: {tcp: {maxConnections: 7}}}}
---
apiVersion: networking.istio.io/v1
kind: DestinationRule
metadata: {name: dr-a-nsb, namespace: ns-b}
spec:
  host: a.example.com
  exportTo: ["."]
  trafficPolicy:
    connectionPool: {tcp: {maxConnections: 3}}
    tls: {mode: ISTIO_MUTUAL}
  subsets:
  - {name: v1, labels: {version: v1}}
---
apiVersion: networking.istio.io/v1
kind: DestinationRule
metadata: {name: dr-b, namespace: ns-b}
spec:
  host: b.example.com
  trafficPolicy:
    outlierDetection: {consecutive5xxErrors: 3, interval: 10s}
    loadBalancer:
      localityLbSetting:
        enabled: true
---
apiVersion: networking.istio.io/v1
kind: DestinationRule
metadata: {name: dr-b2, namespace: ns-b}
spec:
  host: b.example.com
  subsets:
  - {name: s1, labels: {app: b}, trafficPolicy: {connectionPool: {tcp: {maxConnections: 5}}}}
---
apiVersion: networking.istio.io/v1
kind: ServiceEntry
metadata: {name: se-a-nsb, namespace: ns-b}
spec:
  hosts: [a.example.com]
  exportTo: ["."]
  ports:
  - {number: 80, name: http, protocol: HTTP}
  - {number: 9000, name: tcp, protocol: TCP}
  resolution: STATIC
  location: MESH_INTERNAL
  endpoints:
  - {address: 10.8.0.1, locality: region1/zone1/sub1, network: net1, labels: {app: a, version: v1, tier: gold}}
  - {address: 10.8.1.1, locality: region2/zone1/sub1, network: net2, labels: {app: a, version: v2, tier: silver}}
---
apiVersion: networking.istio.io/v1
kind: DestinationRule
metadata: {name: dr-dns, namespace: default}
spec:
  host: dns.example.com
  trafficPolicy:
    outlierDetection: {consecutive5xxErrors: 3, interval: 10s}
    loadBalancer:
      localityLbSetting: {enabled: true}
---
apiVersion: networking.istio.io/v1
kind: DestinationRule
metadata: {name: dr-hash, namespace: default}
spec:
  host: hb.example.com
  trafficPolicy:
    loadBalancer:
      consistentHash: {httpHeaderName: x-user}
---
apiVersion: networking.istio.io/v1
kind: DestinationRule
metadata: {name: dr-tls, namespace: default}
spec:
  host: tls.example.com
  trafficPolicy:
    portLevelSettings:
    - port: {number: 443}
      tls: {mode: MUTUAL, clientCertificate: /etc/certs/c.pem, privateKey: /etc/certs/k.pem, caCertificates: /etc/certs/ca.pem}
    - port: {number: 8443}
      tls: {mode: MUTUAL, credentialName: tls-a}
---
apiVersion: networking.istio.io/v1
kind: ServiceEntry
metadata: {name: se-tls, namespace: default}
spec:
  hosts: [tls.example.com]
  ports:
  - {number: 443, name: http-tls, protocol: HTTP}
  - {number: 8443, name: http-cred, protocol: HTTP}
  resolution: STATIC
  location: MESH_EXTERNAL
  endpoints:
  - {address: 10.5.0.1, locality: region1/zone1/sub1, network: net1}
---
apiVersion: networking.istio.io/v1
kind: DestinationRule
metadata: {name: dr-sel, namespace: default}
spec:
  host: c.example.com
  workloadSelector: {matchLabels: {app: client}}
  trafficPolicy:
    connectionPool: {tcp: {maxConnections: 11}}
---
apiVersion: networking.istio.io/v1
kind: VirtualService
metadata: {name: vs-a, namespace: default}
spec:
  hosts: [a.example.com]
  http:
  - match: [{headers: {x-v: {exact: "2"}}}]
    route: [{destination: {host: a.example.com, subset: v2}}]
  - route: [{destination: {host: a.example.com, subset: v1}}]
---
apiVersion: networking.istio.io/v1
kind: VirtualService
metadata: {name: vs-b, namespace: ns-b}
spec:
  hosts: [b.example.com]
  exportTo: ["."]
  http:
  - route: [{destination: {host: b.example.com}}]
    timeout: 3s
---
apiVersion: networking.istio.io/v1
kind: Sidecar
metadata: {name: sc-b, namespace: ns-b}
spec:
  egress:
  - hosts: ["default/a.example.com", "ns-b/*"]
---
apiVersion: networking.istio.io/v1
kind: Sidecar
metadata: {name: sc-labelled, namespace: default}
spec:
  workloadSelector: {labels: {scoped: "yes"}}
  egress:
  - hosts: ["./a.example.com"]
---
apiVersion: security.istio.io/v1
kind: PeerAuthentication
metadata: {name: default, namespace: istio-system}
spec:
  mtls: {mode: STRICT}
---
apiVersion: security.istio.io/v1
kind: PeerAuthentication
metadata: {name: nsb, namespace: ns-b}
spec:
  mtls: {mode: PERMISSIVE}
---
apiVersion: networking.istio.io/v1alpha3
kind: EnvoyFilter
metadata: {name: ef-version, namespace: istio-system}
spec:
  configPatches:
  - applyTo: CLUSTER
    match:
      context: SIDECAR_OUTBOUND
      proxy: {proxyVersion: '^1\.2[0-9].*'}
      cluster: {service: a.example.com}
    patch:
      operation: MERGE
      value: {connect_timeout: 7s}
---
apiVersion: networking.istio.io/v1alpha3
kind: EnvoyFilter
metadata: {name: ef-labels, namespace: default}
spec:
  workloadSelector: {labels: {patched: "yes"}}
  configPatches:
  - applyTo: CLUSTER
    match: {context: SIDECAR_OUTBOUND}
    patch:
      operation: MERGE
      value: {connect_timeout: 9s}
  - applyTo: HTTP_ROUTE
    match: {context: SIDECAR_OUTBOUND}
    patch:
      operation: MERGE
      value: {route: {timeout: 11s}}
---
apiVersion: networking.istio.io/v1
kind: VirtualService
metadata: {name: vs-c-src, namespace: default}
spec:
  hosts: [c.example.com]
  exportTo: ["."]
  http:
  - match: [{sourceLabels: {tier: gold}}]
    route: [{destination: {host: a.example.com}}]
    timeout: 2s
  - route: [{destination: {host: c.example.com}}]
---
apiVersion: networking.istio.io/v1
kind: VirtualService
metadata: {name: vs-hb-srcns, namespace: istio-system}
spec:
  hosts: [hb.example.com]
  http:
  - match: [{sourceNamespace: ns-b}]
    route: [{destination: {host: a.example.com}}]
  - route: [{destination: {host: hb.example.com}}]
---
apiVersion: networking.istio.io/v1
kind: VirtualService
metadata: {name: vs-tls-src, namespace: istio-system}
spec:
  hosts: [tls.example.com]
  http:
  - match: [{sourceLabels: {app: client}, headers: {x-c: {exact: "1"}}}]
    route: [{destination: {host: tls.example.com}}]
    timeout: 4s
  - route: [{destination: {host: tls.example.com}}]
---
apiVersion: networking.istio.io/v1
kind: ServiceEntry
metadata: {name: se-hb, namespace: default}
spec:
  hosts: [hb.example.com]
  ports:
  - {number: 8081, name: http-hb, protocol: HTTP}
  resolution: STATIC
  location: MESH_INTERNAL
  endpoints:
  - {address: 10.4.0.1, locality: region1/zone1/sub1, network: net1, labels: {app: hb, networking.istio.io/tunnel: http}}
  - {address: 10.4.0.2, locality: region1/zone1/sub1, network: net1, labels: {app: hb}}
---
apiVersion: networking.istio.io/v1
kind: ServiceEntry
metadata: {name: se-self, namespace: default}
spec:
  hosts: [self.example.com]
  ports:
  - {number: 7070, name: tcp-self, protocol: TCP}
  resolution: STATIC
  location: MESH_INTERNAL
  endpoints:
  - {address: 10.9.8.8, locality: region1/zone1/sub1, network: net1, labels: {app: client, pod-template-hash: h1}}
  - {address: 10.9.8.9, locality: region1/zone1/sub1, network: net1, labels: {app: client, pod-template-hash: h2}}
  - {address: 10.9.8.10, locality: region1/zone2/sub1, network: net1, labels: {app: client, pod-template-hash: h1}}
---
apiVersion: networking.istio.io/v1
kind: Sidecar
metadata: {name: sc-egress, namespace: default}
spec:
  workloadSelector: {labels: {egress: proxy}}
  outboundTrafficPolicy: {mode: ALLOW_ANY, egressProxy: {host: a.example.com, port: {number: 80}}}
  egress:
  - hosts: ["*/*"]
---
apiVersion: networking.istio.io/v1
kind: Sidecar
metadata: {name: sc-any, namespace: default}
spec:
  workloadSelector: {labels: {any: plain}}
  outboundTrafficPolicy: {mode: ALLOW_ANY}
  egress:
  - hosts: ["*/*"]
---
apiVersion: networking.istio.io/v1
kind: Sidecar
metadata: {name: sc-paview, namespace: default}
spec:
  workloadSelector: {labels: {paview: narrow}}
  egress:
  - hosts: ["default/*", "istio-system/*"]
---
apiVersion: networking.istio.io/v1
kind: Sidecar
metadata: {name: sc-reg, namespace: default}
spec:
  workloadSelector: {labels: {reg: only}}
  outboundTrafficPolicy: {mode: REGISTRY_ONLY}
  egress:
  - hosts: ["*/*"]
`

const keysKube = `
apiVersion: v1
kind: Service
metadata: {name: nl, namespace: default}
spec:
  clusterIP: 10.96.0.10
  internalTrafficPolicy: Local
  selector: {app: nl}
  ports: [{name: http, port: 80, targetPort: 8080, protocol: TCP}]
---
apiVersion: v1
kind: Service
metadata: {name: cl, namespace: default}
spec:
  clusterIP: 10.96.0.11
  selector: {app: nl}
  ports: [{name: http, port: 80, targetPort: 8080, protocol: TCP}]
---
apiVersion: v1
kind: Pod
metadata: {name: nl-1, namespace: default, labels: {app: nl}}
spec: {nodeName: node1, containers: [{name: c, image: x}]}
status: {podIP: 10.3.0.1, podIPs: [{ip: 10.3.0.1}], phase: Running, conditions: [{type: Ready, status: "True"}]}
---
apiVersion: v1
kind: Pod
metadata: {name: nl-2, namespace: default, labels: {app: nl}}
spec: {nodeName: node1x, containers: [{name: c, image: x}]}
status: {podIP: 10.3.0.2, podIPs: [{ip: 10.3.0.2}], phase: Running, conditions: [{type: Ready, status: "True"}]}
---
apiVersion: discovery.k8s.io/v1
kind: EndpointSlice
metadata: {name: nl-x, namespace: default, labels: {kubernetes.io/service-name: nl}}
addressType: IPv4
endpoints:
- addresses: [10.3.0.1]
  nodeName: node1
  conditions: {ready: true}
  targetRef: {kind: Pod, name: nl-1, namespace: default}
- addresses: [10.3.0.2]
  nodeName: node1x
  conditions: {ready: true}
  targetRef: {kind: Pod, name: nl-2, namespace: default}
ports: [{name: http, port: 8080, protocol: TCP}]
---
apiVersion: discovery.k8s.io/v1
kind: EndpointSlice
metadata: {name: cl-x, namespace: default, labels: {kubernetes.io/service-name: cl}}
addressType: IPv4
endpoints:
- addresses: [10.3.0.1]
  nodeName: node1
  conditions: {ready: true}
  targetRef: {kind: Pod, name: nl-1, namespace: default}
ports: [{name: http, port: 8080, protocol: TCP}]
`

// the same Services seen from a second cluster (other cluster IPs, no local pods) and its own secrets
const keysKube2 = `
apiVersion: v1
kind: Service
metadata: {name: nl, namespace: default}
spec:
  clusterIP: 10.97.0.10
  internalTrafficPolicy: Local
  selector: {app: nl}
  ports: [{name: http, port: 80, targetPort: 8080, protocol: TCP}]
---
apiVersion: v1
kind: Service
metadata: {name: cl, namespace: default}
spec:
  clusterIP: 10.97.0.11
  selector: {app: nl}
  ports: [{name: http, port: 80, targetPort: 8080, protocol: TCP}]
`

// optional configs a world variant may drop (bit i of the variant number)
var keysOptional = []string{"name: dr-a,", "name: dr-a-nsb,", "name: dr-b,", "name: sc-b,", "name: ef-version,", "name: nsb,", "name: vs-a,", "name: dr-dns,",
	"",                                      // bit 8: mesh-wide default private key provider (see newKeysWorld)
	"name: vs-c-src,", "name: vs-hb-srcns,", // bits 9, 10: OPT-IN (present only when the bit is set, see keysOptIn)
	"name: dr-sel,", "name: sc-reg,",
	"", // bit 13: mesh-wide outboundTrafficPolicy ALLOW_ANY_DYNAMIC_DNS instead of ALLOW_ANY
	"name: sc-egress,", "name: sc-any,",
	"",                  // bit 16: features.EnableDualStack
	"",                  // bit 17: XDSCacheMaxSize = 6
	"name: vs-tls-src,", // bit 18: OPT-IN
	"name: vs-b,",
	"name: se-a-nsb,"} // bit 20: OPT-IN: the hostname a.example.com exists in ns-b too (private to it)

// The VirtualServices with source matches make route "80" (which carries every HTTP virtual service) uncacheable for
// every proxy they are visible to; they are present only in the worlds that ask for them, so that route 80 is served
// from the cache for namespace-default proxies in most worlds.
var keysOptIn = map[int]bool{9: true, 10: true, 18: true, 20: true}

const keysWorldBits = 21

func keysConfig(variant int) string {
	docs := strings.Split(keysMesh, "\n---\n")
	var keep []string
	for _, d := range docs {
		drop := false
		for i, marker := range keysOptional {
			if marker != "" && strings.Contains(d, marker) && (variant&(1<<i) != 0) != keysOptIn[i] {
				drop = true
			}
		}
		if !drop {
			keep = append(keep, d)
		}
	}
	return strings.Join(keep, "\n---\n")
}

// genSet is one set of the real CDS / EDS / RDS / SDS generators.
type genSet struct{ cds, eds, rds, sds model.XdsResourceGenerator }

type keysWorld struct {
	f     *failer
	s     *txds.FakeDiscoveryServer
	gens  genSet // the server's generators, all on the server's shared XdsCache
	twins genSet // the same generator types over a DisabledCache (generation from scratch)

	sdsClients map[cluster.ID]kubelib.Client // the kube clients behind the SDS credentials controllers

	passive bool         // generateWith runs for a passive reader (zero Start)
	rec     *recCache    // recording wrapper around the shared cache (writers.go)
	ambient *ambientStub // the world's ambient index (writers.go)
}

func mkSecret(ns, name string, data map[string]string) *corev1.Secret {
	d := map[string][]byte{}
	for k, v := range data {
		d[k] = []byte(v)
	}
	return &corev1.Secret{ObjectMeta: metav1.ObjectMeta{Name: name, Namespace: ns}, Data: d}
}

// newSDSGen wires the real SecretGen exactly as bootstrap does (credentials controller per cluster, the
// server's XdsCache, the mesh config - the FakeDiscoveryServer passes a nil mesh config instead).
func newSDSGen(f *failer, m *meshconfig.MeshConfig, ds *pxds.DiscoveryServer) (model.XdsResourceGenerator, model.XdsResourceGenerator, map[cluster.ID]kubelib.Client) {
	cache := ds.Cache
	mc := multicluster.NewFakeController()
	creds := kubesecrets.NewMulticluster("Kubernetes", mc)
	// as bootstrap.initSDSServer: a Secret event becomes a ConfigUpdate for that Secret
	creds.AddSecretHandler(func(k kind.Kind, name string, namespace string) {
		ds.ConfigUpdate(&model.PushRequest{
			ConfigsUpdated: sets.New(model.ConfigKey{Kind: k, Name: name, Namespace: namespace}),
			Reason:         model.NewReasonStats(model.SecretTrigger),
		})
	})
	clients := map[cluster.ID]kubelib.Client{}
	stop := make(chan struct{})
	f.Cleanup(func() { close(stop) })
	objs := map[cluster.ID][]runtime.Object{
		"Kubernetes": {
			mkSecret("default", "tls-a", map[string]string{"tls.crt": "cert-default", "tls.key": "key-default", "ca.crt": "ca-default"}),
			mkSecret("ns-b", "tls-a", map[string]string{"tls.crt": "cert-nsb", "tls.key": "key-nsb", "ca.crt": "ca-nsb"}),
			mkSecret("default", "tls-a-cacert", map[string]string{"cacert": "cacert-default"}),
			// a compound secret: `tls-b-cacert` is served from the ca.crt of `tls-b` (no secret of that name exists)
			mkSecret("default", "tls-b", map[string]string{"tls.crt": "cert-b", "tls.key": "key-b", "ca.crt": "ca-b"}),
			&corev1.ConfigMap{ObjectMeta: metav1.ObjectMeta{Name: "ca-cm", Namespace: "default"}, Data: map[string]string{"ca.crt": "ca-from-configmap"}},
		},
		"cluster2": {
			mkSecret("default", "tls-a", map[string]string{"tls.crt": "cert-cluster2", "tls.key": "key-cluster2", "ca.crt": "ca-cluster2"}),
		},
	}
	for _, id := range []cluster.ID{"Kubernetes", "cluster2"} {
		client := kubelib.NewFakeClient(objs[id]...)
		txds.DisableAuthorizationForSecret(client.Kube().(*kfake.Clientset))
		mc.Add(id, client, stop)
		client.RunAndWait(stop)
		clients[id] = client
	}
	return pxds.NewSecretGen(creds, cache, "Kubernetes", m), pxds.NewSecretGen(creds, model.DisabledCache{}, "Kubernetes", m), clients
}

func newKeysWorld(variant int) *keysWorld {
	features.XDSCacheMaxSize = 60000
	if variant&(1<<17) != 0 {
		features.XDSCacheMaxSize = 6 // the real generators meet LRU eviction in every typed cache
	}
	features.EnableCDSCaching, features.EnableRDSCaching = true, true
	features.EnableDualStack = variant&(1<<16) != 0 // ISTIO_DUAL_STACK
	features.EnableIngressWaypointRouting = true    // routers send to the waypoint of a service that asks for it (ambientStub)
	features.EnableIPAutoallocate = false           // ServiceEntries without addresses get 240.240.x.y (DNS capture matters)
	f := &failer{}
	m := mesh.DefaultMeshConfig()
	m.OutboundTrafficPolicy = &meshconfig.MeshConfig_OutboundTrafficPolicy{Mode: meshconfig.MeshConfig_OutboundTrafficPolicy_ALLOW_ANY}
	if variant&(1<<13) != 0 {
		m.OutboundTrafficPolicy.Mode = meshconfig.MeshConfig_OutboundTrafficPolicy_ALLOW_ANY_DYNAMIC_DNS
	}
	m.ServiceSettings = []*meshconfig.MeshConfig_ServiceSettings{{
		Settings: &meshconfig.MeshConfig_ServiceSettings_Settings{ClusterLocal: true},
		Hosts:    []string{"cl.default.svc.cluster.local"},
	}}
	if variant&256 != 0 {
		m.DefaultConfig.PrivateKeyProvider = &meshconfig.PrivateKeyProvider{Provider: &meshconfig.PrivateKeyProvider_Cryptomb{
			Cryptomb: &meshconfig.PrivateKeyProvider_CryptoMb{PollDelay: durationpb.New(7 * time.Millisecond)},
		}}
	}
	ambient := &ambientStub{}
	s := txds.NewFakeDiscoveryServer(f, txds.FakeOptions{
		AmbientIndex: ambient,
		ConfigString: keysConfig(variant),
		KubernetesObjectStringByCluster: map[cluster.ID]string{
			"Kubernetes": keysKube,
			"cluster2":   keysKube2,
		},
		MeshConfig: m,
		Gateways: []model.NetworkGateway{
			{Network: "net1", Cluster: "Kubernetes", Addr: "1.1.1.100", Port: 15443},
			{Network: "net2", Cluster: "cluster2", Addr: "2.2.2.100", Port: 15443},
		},
	})
	// One XdsCache shared by the server, its generators and the endpoint index, as bootstrap wires it (the fake
	// server's generators sit on the cache of a throw-away Environment, which EndpointIndex.clearCacheForService
	// never reaches).
	rec := newRecCache(s.Discovery.Env.Cache)
	s.Discovery.Cache = rec
	bootstrap.InitGenerators(s.Discovery, core.NewConfigGenerator(s.Discovery.Cache), "istio-system", "", nil)
	sdsC, sdsU, sdsClients := newSDSGen(f, m, s.Discovery)
	g := s.Discovery.Generators
	g[v3.SecretType] = sdsC // the server answers SDS requests / pushes / dumps with the production-wired generator
	cg := core.NewConfigGenerator(&model.DisabledCache{})
	w := &keysWorld{f: f, s: s, rec: rec, ambient: ambient,
		gens: genSet{g[v3.ClusterType], g[v3.EndpointType], g[v3.RouteType], sdsC},
		twins: genSet{&pxds.CdsGenerator{ConfigGenerator: cg},
			&pxds.EdsGenerator{Cache: model.DisabledCache{}, EndpointIndex: s.Discovery.Env.EndpointIndex},
			&pxds.RdsGenerator{ConfigGenerator: cg}, sdsU},
		sdsClients: sdsClients}
	quiet.Silence()
	return w
}

func (w *keysWorld) close() { w.f.done() }

// proxy attributes; "base" variants and single-attribute changes
type pattrs struct {
	ns       string
	labels   map[string]string
	network  string
	cluster  string
	locality [3]string
	node     string
	typ      model.NodeType
	version  string
	flags    map[string]bool
	dnsDom   string
	sa       string
	ip       string
}

func basePattrs(variant int) pattrs {
	p := pattrs{ns: "default", labels: map[string]string{"app": "client", "tier": "gold"}, network: "net1", cluster: "Kubernetes",
		locality: [3]string{"region1", "zone1", "sub1"}, node: "node1", typ: model.SidecarProxy, version: "1.24.0", flags: map[string]bool{}}
	switch variant % 4 {
	case 1:
		p.ns, p.network, p.locality = "ns-b", "net2", [3]string{"region2", "zone1", "sub1"}
	case 2:
		p.typ = model.Router
	case 3:
		p.labels = map[string]string{"app": "client", "tier": "silver", "patched": "yes"}
		p.version = "1.19.0"
	}
	if (variant/4)%2 == 1 {
		// an explicit DNS domain shared by all namespaces (otherwise <ns>.svc.cluster.local makes every RDS key of
		// two proxies in different namespaces differ, whatever else the key contains)
		p.dnsDom = "mesh.internal"
	}
	if (variant/8)%2 == 1 {
		// the proxy is itself an endpoint of the service self.example.com (its address is one of the ServiceEntry's
		// endpoints): Proxy.LocalService is set and the EDS name `local_cluster` (self discovery) has endpoints
		p.ip = "10.9.8.8"
		p.labels["pod-template-hash"] = "h1"
	}
	return p
}

const keysBases = 16

var keyAttrs = []string{"namespace", "labels-tier", "labels-patched", "labels-scoped", "labels-app", "network", "cluster", "locality-region", "locality-zone",
	"node", "type", "version", "flag-hbone-off", "flag-http10", "flag-dnscapture", "flag-dnsauto", "flag-certs", "dnsdomain",
	"flag-proxyconfig", "flag-pkp-qat", "flag-pkp-cryptomb",
	"labels-reg", "flag-grpc", "flag-ipv6", "flag-preserve-case", "flag-dnsauto-only",
	"labels-egress", "labels-any",
	"flag-filecred", "flag-credsock", "flag-noattempt", "flag-xfh", "flag-dualstack",
	"labels-sel", "locality-subzone", "namespace-c", "network-3", "cluster-3", "serviceaccount", "flag-netview", "flag-workload", "labels-pth",
	"type-waypoint",
	// the PeerAuthentication version of the proxy's filtered view (SidecarScope.AuthnPolicies: the policies of the root
	// namespace, the proxy's namespace and the namespaces of the services it imports): a Sidecar that imports nothing from
	// ns-b takes the ns-b PeerAuthentication out of the view, everything else of the proxy stays
	"labels-paview"}

// attribute groups that only matter in combination (e.g. DNS auto-allocation is used iff capture AND auto-allocate):
// every world serves each group in sequence from one cache
var keyCombos = []string{"labels-paview,namespace,labels-scoped", "namespace,namespace-c,labels-sel,flag-netview", "network,network-3,cluster,cluster-3,locality-subzone,locality-zone",
	"flag-workload,labels-pth,serviceaccount",
	"labels-reg,labels-egress,labels-any", "flag-dnsauto,flag-dnsauto-only,flag-dnscapture,flag-ipv6", "flag-hbone-off,flag-grpc,labels-tier,labels-app",
	"flag-proxyconfig,flag-pkp-qat,flag-pkp-cryptomb,flag-preserve-case"}

func (p pattrs) with(attr string) pattrs {
	q := p
	q.labels = map[string]string{}
	for k, v := range p.labels {
		q.labels[k] = v
	}
	q.flags = map[string]bool{}
	for k, v := range p.flags {
		q.flags[k] = v
	}
	flipLabel := func(k, a, b string) {
		if q.labels[k] == a {
			q.labels[k] = b
		} else {
			q.labels[k] = a
		}
	}
	switch attr {
	case "namespace":
		if p.ns == "default" {
			q.ns = "ns-b"
		} else {
			q.ns = "default"
		}
	case "labels-tier":
		flipLabel("tier", "gold", "silver")
	case "labels-patched":
		flipLabel("patched", "yes", "no")
	case "labels-scoped":
		flipLabel("scoped", "yes", "no")
	case "labels-app":
		flipLabel("app", "client", "other")
	case "labels-reg":
		flipLabel("reg", "only", "no")
	case "labels-egress":
		flipLabel("egress", "proxy", "no")
	case "labels-any":
		flipLabel("any", "plain", "no")
	case "labels-paview":
		flipLabel("paview", "narrow", "no")
	case "labels-sel":
		flipLabel("sel", "a", "no")
	case "labels-pth":
		flipLabel("pod-template-hash", "h1", "h2")
	case "locality-subzone":
		if p.locality[2] == "sub1" {
			q.locality[2] = "sub2"
		} else {
			q.locality[2] = "sub1"
		}
	case "namespace-c":
		if p.ns == "ns-c" {
			q.ns = "default"
		} else {
			q.ns = "ns-c"
		}
	case "network-3":
		if p.network == "net3" {
			q.network = "net1"
		} else {
			q.network = "net3"
		}
	case "cluster-3":
		if p.cluster == "cluster3" {
			q.cluster = "Kubernetes"
		} else {
			q.cluster = "cluster3"
		}
	case "serviceaccount":
		if p.sa == "" {
			q.sa = "sa-other"
		} else {
			q.sa = ""
		}
	case "type-waypoint":
		if p.typ == model.Waypoint {
			q.typ = model.SidecarProxy
		} else {
			q.typ = model.Waypoint
		}
	case "network":
		if p.network == "net1" {
			q.network = "net2"
		} else {
			q.network = "net1"
		}
	case "cluster":
		if p.cluster == "Kubernetes" {
			q.cluster = "cluster2"
		} else {
			q.cluster = "Kubernetes"
		}
	case "locality-region":
		if p.locality[0] == "region1" {
			q.locality[0] = "region2"
		} else {
			q.locality[0] = "region1"
		}
	case "locality-zone":
		if p.locality[1] == "zone1" {
			q.locality[1] = "zone2"
		} else {
			q.locality[1] = "zone1"
		}
	case "node":
		q.node = p.node + "x"
	case "type":
		if p.typ == model.SidecarProxy {
			q.typ = model.Router
		} else {
			q.typ = model.SidecarProxy
		}
	case "version":
		if p.version == "1.24.0" {
			q.version = "1.19.0"
		} else {
			q.version = "1.24.0"
		}
	case "dnsdomain":
		q.dnsDom = "other.svc.cluster.local"
	default:
		if strings.HasPrefix(attr, "flag-") {
			q.flags[attr] = !p.flags[attr]
		}
	}
	return q
}

func (w *keysWorld) proxy(a pattrs, id string) *model.Proxy {
	md := metadataOf(a)
	p := &model.Proxy{
		ID:               id + "." + a.ns,
		Type:             a.typ,
		ConfigNamespace:  a.ns,
		Labels:           a.labels,
		Metadata:         md,
		IPAddresses:      ipsOf(a),
		Locality:         &corev3.Locality{Region: a.locality[0], Zone: a.locality[1], SubZone: a.locality[2]},
		DNSDomain:        a.dnsDom,
		VerifiedIdentity: identityOf(a),
	}
	return w.s.SetupProxy(p)
}

func identityOf(a pattrs) *spiffe.Identity {
	sa := a.sa
	if sa == "" {
		sa = "sa-client"
	}
	return &spiffe.Identity{TrustDomain: "cluster.local", Namespace: a.ns, ServiceAccount: sa}
}

// nodeOf is the xDS Node a proxy with these attributes sends in its first request (for the real initConnection).
func nodeOf(a pattrs, id string) *corev3.Node {
	dom := a.dnsDom
	if dom == "" {
		dom = a.ns + ".svc.cluster.local"
	}
	return &corev3.Node{
		Id:       string(a.typ) + "~" + ipsOf(a)[0] + "~" + id + "." + a.ns + "~" + dom,
		Metadata: metadataOf(a).ToStruct(),
		Locality: &corev3.Locality{Region: a.locality[0], Zone: a.locality[1], SubZone: a.locality[2]},
	}
}

func metadataOf(a pattrs) *model.NodeMetadata {
	md := &model.NodeMetadata{
		Namespace:    a.ns,
		Network:      network.ID(a.network),
		ClusterID:    cluster.ID(a.cluster),
		IstioVersion: a.version,
		NodeName:     a.node,
		Labels:       a.labels,
	}
	if a.sa != "" {
		md.ServiceAccount = a.sa
	}
	if a.flags["flag-netview"] {
		md.RequestedNetworkView = []string{"net1"}
	}
	if a.ip != "" {
		md.WorkloadName = "se-self-0" // the workload name the ServiceEntry controller gives the first inline endpoint
	}
	if a.flags["flag-workload"] {
		md.WorkloadName = "se-self-2"
	}
	if a.flags["flag-hbone-off"] {
		md.DisableHBONESend = true
	}
	if a.flags["flag-http10"] {
		md.HTTP10 = "1"
	}
	if a.flags["flag-dnscapture"] {
		md.DNSCapture = true
	}
	if a.flags["flag-dnsauto"] {
		md.DNSCapture = true
		md.DNSAutoAllocate = true
	}
	if a.flags["flag-dnsauto-only"] {
		md.DNSAutoAllocate = true
	}
	switch {
	case a.flags["flag-pkp-qat"]:
		md.ProxyConfig = &model.NodeMetaProxyConfig{PrivateKeyProvider: &meshconfig.PrivateKeyProvider{Provider: &meshconfig.PrivateKeyProvider_Qat{
			Qat: &meshconfig.PrivateKeyProvider_QAT{PollDelay: durationpb.New(3 * time.Millisecond)},
		}}}
	case a.flags["flag-pkp-cryptomb"]:
		md.ProxyConfig = &model.NodeMetaProxyConfig{PrivateKeyProvider: &meshconfig.PrivateKeyProvider{Provider: &meshconfig.PrivateKeyProvider_Cryptomb{
			Cryptomb: &meshconfig.PrivateKeyProvider_CryptoMb{PollDelay: durationpb.New(5 * time.Millisecond)},
		}}}
	case a.flags["flag-proxyconfig"]:
		// a ProxyConfig that says nothing about private key providers
		md.ProxyConfig = &model.NodeMetaProxyConfig{Concurrency: nil, StatusPort: 15020}
	}
	if a.flags["flag-filecred"] || a.flags["flag-credsock"] {
		md.Raw = map[string]any{}
		if a.flags["flag-filecred"] {
			md.Raw[security.CredentialFileMetaDataName] = "true"
		}
		if a.flags["flag-credsock"] {
			md.Raw[security.CredentialMetaDataName] = "true"
		}
	}
	if a.flags["flag-noattempt"] || a.flags["flag-xfh"] {
		if md.ProxyConfig == nil {
			md.ProxyConfig = &model.NodeMetaProxyConfig{}
		}
		if md.ProxyConfig.ProxyHeaders == nil {
			md.ProxyConfig.ProxyHeaders = &meshconfig.ProxyConfig_ProxyHeaders{}
		}
		if a.flags["flag-noattempt"] {
			md.ProxyConfig.ProxyHeaders.AttemptCount = &meshconfig.ProxyConfig_ProxyHeaders_AttemptCount{Disabled: wrapperspb.Bool(true)}
		}
		if a.flags["flag-xfh"] {
			md.ProxyConfig.ProxyHeaders.XForwardedHost = &meshconfig.ProxyConfig_ProxyHeaders_XForwardedHost{Enabled: wrapperspb.Bool(true)}
		}
	}
	if a.flags["flag-grpc"] {
		md.Generator = "grpc"
	}
	if a.flags["flag-preserve-case"] {
		if md.ProxyConfig == nil {
			md.ProxyConfig = &model.NodeMetaProxyConfig{}
		}
		if md.ProxyConfig.ProxyHeaders == nil {
			md.ProxyConfig.ProxyHeaders = &meshconfig.ProxyConfig_ProxyHeaders{}
		}
		md.ProxyConfig.ProxyHeaders.PreserveHttp1HeaderCase = wrapperspb.Bool(true)
	}
	if a.flags["flag-certs"] {
		md.TLSClientCertChain, md.TLSClientKey, md.TLSClientRootCert = "/c/chain.pem", "/c/key.pem", "/c/root.pem"
	}
	if len(ipsOf(a)) > 1 {
		md.InstanceIPs = ipsOf(a)
	}
	return md
}

func ipsOf(a pattrs) []string {
	ip := a.ip
	if ip == "" {
		ip = "10.9.9.9"
	}
	if a.flags["flag-ipv6"] {
		return []string{"2001:db8::9"}
	}
	if a.flags["flag-dualstack"] {
		return []string{ip, "2001:db8::9"}
	}
	return []string{ip}
}

// generate runs the server's real CDS, EDS and RDS generators (which use the server's XdsCache).
func (w *keysWorld) generate(p *model.Proxy) map[string]proto.Message {
	return w.generateWith(w.gens, p)
}

// readWith is generateWith for a PASSIVE reader: its PushRequest has a zero Start, so every Add it causes is a no-op in
// the real cache (lruCache.Add returns at once) - it reads what the real writers stored and never stores anything itself.
func (w *keysWorld) readWith(gs genSet, p *model.Proxy) map[string]proto.Message {
	w.passive = true
	defer func() { w.passive = false }()
	return w.generateWith(gs, p)
}

// generateWith runs one set of generators for a proxy with the current global context and Start = now.
func (w *keysWorld) generateWith(gs genSet, p *model.Proxy) map[string]proto.Message {
	out := map[string]proto.Message{}
	req := &model.PushRequest{Forced: true, Push: w.s.PushContext(), Start: time.Now()}
	if w.passive {
		req.Start = time.Time{}
	}
	add := func(prefix string, rs model.Resources) {
		for _, r := range rs {
			m, err := r.Resource.UnmarshalNew()
			if err != nil {
				panic(err)
			}
			out[prefix+"/"+r.Name] = m
		}
	}
	// a proxyless gRPC client is answered by grpcgen for CDS/LDS/RDS (no cache); only its EDS and SDS go
	// through the cached generators (bootstrap.InitGenerators: "grpc/"+EndpointType = EdsGenerator)
	grpc := p.IsProxylessGrpc()
	if !grpc {
		cds, _, err := gs.cds.Generate(p, &model.WatchedResource{TypeUrl: v3.ClusterType}, req)
		if err != nil {
			panic(err)
		}
		add("cds", cds)
	}
	clusters := w.s.Clusters(p) // uncached generator of the test helper: only used to learn the EDS names
	eds, _, err := gs.eds.Generate(p,
		&model.WatchedResource{TypeUrl: v3.EndpointType, ResourceNames: sets.New(append(xdstest.ExtractEdsClusterNames(clusters), edsExtraNames...)...)}, req)
	if err != nil {
		panic(err)
	}
	add("eds", eds)
	if !grpc {
		routes := xdstest.ExtractRoutesFromListeners(w.s.Listeners(p))
		rds, _, err := gs.rds.Generate(p,
			&model.WatchedResource{TypeUrl: v3.RouteType, ResourceNames: sets.New(routes...)}, req)
		if err != nil {
			panic(err)
		}
		add("rds", rds)
	}
	sds, _, err := gs.sds.Generate(p,
		&model.WatchedResource{TypeUrl: v3.SecretType, ResourceNames: sets.New("kubernetes://tls-a", "kubernetes://tls-a-cacert",
			"kubernetes://ns-b/tls-a", "kubernetes://default/tls-a", "kubernetes://missing", "kubernetes://tls-b", "kubernetes://tls-b-cacert",
			"configmap://default/ca-cm-cacert", "kubernetes-gateway://default/tls-a")}, req)
	if err != nil {
		panic(err)
	}
	add("sds", sds)
	return out
}

// EDS names beyond what CDS announces: the self-discovery cluster of the Envoy bootstrap (EndpointBuilder with
// isSelfDiscoveryCluster: endpoints of the proxy's own workload only) and the cluster of a service that does not
// exist (EndpointBuilder.Cacheable() == false).
var edsExtraNames = []string{"local_cluster", "outbound|80||nosuch.example.com"}

func diffOutputs(a, b map[string]proto.Message) string {
	var names []string
	seen := map[string]bool{}
	for k := range a {
		names = append(names, k)
		seen[k] = true
	}
	for k := range b {
		if !seen[k] {
			names = append(names, k)
		}
	}
	sort.Strings(names)
	for _, n := range names {
		x, ok1 := a[n]
		y, ok2 := b[n]
		if !ok1 || !ok2 || !proto.Equal(x, y) {
			return n
		}
	}
	return ""
}

// diffTypes returns the resource types (cds/eds/rds/sds) in which two outputs differ.
func diffTypes(a, b map[string]proto.Message) []string {
	// only resources BOTH proxies get under the same name count: a name only one of them asks for can never be shared
	seen := map[string]bool{}
	for k, x := range a {
		if y, ok := b[k]; ok && !proto.Equal(x, y) {
			seen[k[:3]] = true
		}
	}
	var out []string
	for _, t := range []string{"cds", "eds", "rds", "sds"} {
		if seen[t] {
			out = append(out, t)
		}
	}
	return out
}

var keysEntries, keysShared int

// per namespace of the second proxy: RDS cache entries it creates from scratch, and how many of them were served
// from the first proxy's entries
var keysRDS = map[string][2]int{}

type keysStats struct {
	pairs, sensitive, hits int
	byAttr                 map[string][2]int
}

// runPair returns "eq" or "diff:<resource>"; sens reports whether generation distinguishes the two
// proxies at all (cold outputs differ), i.e. whether the key had to distinguish them.
func (w *keysWorld) runPair(first, second pattrs) (res string, sens []string) {
	cache := w.s.Discovery.Cache
	nkeys := func() int {
		n := 0
		for _, t := range typeOrder {
			n += len(cache.Keys(t))
		}
		return n
	}
	nrds := func() int { return len(cache.Keys(model.RDSType)) }
	cache.ClearAll()
	pf := w.proxy(first, "first")
	ps := w.proxy(second, "second")
	coldFirst := w.generate(pf) // warms the cache with entries built for `first`
	k1, r1 := nkeys(), nrds()
	warm := w.generate(ps)
	k2, r2 := nkeys(), nrds()
	cache.ClearAll()
	cold := w.generate(ps)
	k3, r3 := nkeys(), nrds()
	keysEntries += k3
	keysShared += k3 - (k2 - k1) // entries of `second` that were served from what `first` had stored
	keysRDS[second.ns] = [2]int{keysRDS[second.ns][0] + r3, keysRDS[second.ns][1] + r3 - (r2 - r1)}
	sens = diffTypes(coldFirst, cold)
	if os.Getenv("C06_DEBUG") != "" {
		fmt.Fprintln(os.Stderr, "first-vs-second differs at:", diffOutputs(coldFirst, cold), "entries", k1, k2, k3)
		if os.Getenv("C06_DEBUG") == "local" {
			fmt.Fprintln(os.Stderr, "self first:", coldFirst["eds/outbound|7070||self.example.com"], "labels", pf.Labels, "wl", pf.Metadata.WorkloadName, "loc", pf.Locality)
			fmt.Fprintln(os.Stderr, "local_cluster first:", coldFirst["eds/local_cluster"], "second:", cold["eds/local_cluster"], "localservice", pf.LocalService, ps.LocalService)
		}
	}
	if d := diffOutputs(warm, cold); d != "" {
		if os.Getenv("C06_DEBUG") != "" {
			fmt.Fprintf(os.Stderr, "WARM %v\nCOLD %v\n", warm[d], cold[d])
		}
		return "diff:" + d, sens
	}
	return "eq", sens
}

// runSeq serves several proxies one after the other from ONE shared cache (never cleared in between), first in
// the given order, then in reverse order; every answer must equal what the uncached twin generators yield for that
// proxy. Returns "eq" or "diff:<round>:<position>:<attr>:<resource>".
func (w *keysWorld) runSeq(base pattrs, attrs []string) string {
	w.s.Discovery.Cache.ClearAll()
	ps := []pattrs{base}
	names := []string{"base"}
	for _, a := range attrs {
		ps = append(ps, base.with(a))
		names = append(names, a)
	}
	proxies := make([]*model.Proxy, len(ps))
	for i, a := range ps {
		proxies[i] = w.proxy(a, fmt.Sprintf("seq%d", i))
	}
	order := make([]int, 0, 2*len(ps))
	for i := range ps {
		order = append(order, i)
	}
	for i := len(ps) - 1; i >= 0; i-- {
		order = append(order, i)
	}
	for n, i := range order {
		warm := w.generateWith(w.gens, proxies[i])
		cold := w.generateWith(w.twins, proxies[i])
		if d := diffOutputs(warm, cold); d != "" {
			return fmt.Sprintf("diff:%d:%d:%s:%s", n/len(ps), i, names[i], d)
		}
	}
	return "eq"
}

func genKeys(seed uint64, n int, path string) {
	out := wire.Create(path)
	defer out.Close()
	r := wire.NewRng(seed*31 + 0x6b657973)
	for c := 0; c < n; c++ {
		world := 0
		if c > 0 {
			world = r.Intn(1 << keysWorldBits)
			if r.Chance(2, 3) {
				world &= r.Intn(1 << keysWorldBits) // mostly few configs dropped
			}
			world &^= 256 | 1<<9 | 1<<10 | 1<<13 | 1<<16 | 1<<17 | 1<<18 | 1<<20
			if r.Chance(1, 4) {
				world |= 1 << 20 // one hostname in two namespaces
				if r.Chance(2, 3) {
					world |= 3 // ... and no DestinationRule whose name tells the two services apart in a key
				}
			}
			if r.Chance(1, 6) {
				world |= 1 << 16 // ISTIO_DUAL_STACK
			}
			if r.Chance(1, 6) {
				world |= 1 << 17 // tiny LRU
			}
			if r.Chance(1, 2) {
				world |= 256 // mesh-wide default private key provider
			}
			if r.Chance(1, 3) {
				world |= 1 << 9 // VirtualService with a sourceLabels-only match
			}
			if r.Chance(1, 4) {
				world |= 1 << 10 // VirtualService whose ONLY source match is a sourceNamespace
			}
			if r.Chance(1, 5) {
				world |= 1 << 18 // VirtualService with a sourceLabels match combined with a header match
			}
			if r.Chance(1, 5) {
				world |= 1 << 13 // mesh-wide ALLOW_ANY_DYNAMIC_DNS
			}
		}
		base := c % keysBases
		if c >= keysBases {
			base = r.Intn(keysBases)
		}
		if world&(1<<10) != 0 && r.Chance(2, 3) {
			// the sourceNamespace match decides between two proxies only if they share the rest of the RDS key: no
			// Sidecar that hides the service from ns-b, no VirtualService private to ns-b (the key names every
			// VirtualService of the egress listener), one DNS domain for all namespaces
			world |= 1<<3 | 1<<19
			base |= 4
		}
		out.Line("case", strconv.Itoa(c), strconv.Itoa(world), strconv.Itoa(base))
		for _, a := range keyAttrs {
			out.Line("pair", a, wire.Pick(r, []string{"pq", "qp"}))
		}
		// proxies differing in several attributes at once
		for k := 0; k < 5; k++ {
			var as []string
			for len(as) < 2+r.Intn(3) {
				as = append(as, wire.Pick(r, keyAttrs))
			}
			out.Line("pairm", strings.Join(as, ","), wire.Pick(r, []string{"pq", "qp"}))
		}
		// several proxies served in sequence from one cache
		for _, combo := range keyCombos {
			out.Line("seq", combo)
		}
		for k := 0; k < 3; k++ {
			var as []string
			for len(as) < 3+r.Intn(4) {
				as = append(as, wire.Pick(r, keyAttrs))
			}
			out.Line("seq", strings.Join(as, ","))
		}
	}
}

func execKeys(opsPath, outPath string) {
	all := wire.ReadLines(opsPath)
	out := wire.Create(outPath)
	defer out.Close()
	stats := map[string][2]int{}
	bump := func(k string, sens bool) {
		st := stats[k]
		st[0]++
		if sens {
			st[1]++
		}
		stats[k] = st
	}
	var w *keysWorld
	var base pattrs
	for _, f := range all {
		func() {
			defer func() {
				if r := recover(); r != nil {
					out.Line("crash")
					fmt.Fprintln(os.Stderr, "c06 keys: panic:", r)
				}
			}()
			switch {
			case f[0] == "case" && len(f) == 4:
				if w != nil {
					w.close()
				}
				wv, _ := strconv.Atoi(f[2])
				bv, _ := strconv.Atoi(f[3])
				w = newKeysWorld(wv)
				base = basePattrs(bv)
				out.Line("ok")
			case f[0] == "pair" && len(f) == 3 && w != nil:
				q := base.with(f[1])
				first, second := base, q
				if f[2] == "qp" {
					first, second = q, base
				}
				res, sens := w.runPair(first, second)
				bump(f[1], len(sens) > 0)
				for _, t := range []string{"cds", "eds", "rds", "sds"} {
					hit := false
					for _, x := range sens {
						hit = hit || x == t
					}
					bump(f[1]+"/"+t, hit)
				}
				out.Line(res)
			case f[0] == "pairm" && len(f) == 3 && w != nil:
				q := base
				for _, a := range strings.Split(f[1], ",") {
					q = q.with(a)
				}
				first, second := base, q
				if f[2] == "qp" {
					first, second = q, base
				}
				res, _ := w.runPair(first, second)
				out.Line(res)
			case f[0] == "seq" && len(f) == 2 && w != nil:
				out.Line(w.runSeq(base, strings.Split(f[1], ",")))
			default:
				out.Line("bad-op")
			}
		}()
		out.Flush()
	}
	if w != nil {
		w.close()
	}
	// sensitivity statistics for the evidence (not compared)
	st := wire.Create(outPath + ".stats")
	defer st.Close()
	var names []string
	for k := range stats {
		names = append(names, k)
	}
	sort.Strings(names)
	for _, k := range names {
		st.Line(k, strconv.Itoa(stats[k][0]), strconv.Itoa(stats[k][1]))
	}
	for ns, v := range keysRDS {
		st.Line("rds-entries-of-second/"+ns, strconv.Itoa(v[0]), "0")
		st.Line("rds-served-from-entries-of-first/"+ns, strconv.Itoa(v[1]), "0")
	}
	st.Line("cache-entries-of-second", strconv.Itoa(keysEntries), "0")
	st.Line("served-from-entries-of-first", strconv.Itoa(keysShared), "0")
}

// oracleKeys: the property clause itself ("no proxy receives a cached resource built for a proxy
// whose relevant attributes differ") is what exec evaluates; the oracle re-evaluates every pair of a
// case in both directions and reports the first difference.
func oracleKeys(opsPath, outPath string) {
	all := wire.ReadLines(opsPath)
	out := wire.Create(outPath)
	defer out.Close()
	for _, c := range splitCases(all) {
		verdict := "OK"
		func() {
			defer func() {
				if r := recover(); r != nil {
					verdict = "FAIL crash " + strings.ReplaceAll(fmt.Sprint(r), " ", "_")
				}
			}()
			if len(c[0]) != 4 || c[0][0] != "case" {
				return
			}
			wv, _ := strconv.Atoi(c[0][2])
			bv, _ := strconv.Atoi(c[0][3])
			w := newKeysWorld(wv)
			defer w.close()
			base := basePattrs(bv)
			for _, f := range c[1:] {
				if f[0] == "pairm" && len(f) == 3 {
					q := base
					for _, a := range strings.Split(f[1], ",") {
						q = q.with(a)
					}
					for _, dir := range [][2]pattrs{{base, q}, {q, base}} {
						if res, _ := w.runPair(dir[0], dir[1]); res != "eq" {
							verdict = fmt.Sprintf("FAIL shared-entry attr=%s world=%d base=%d %s", strings.ReplaceAll(f[1], ",", "+"), wv, bv, res)
							return
						}
					}
					continue
				}
				if f[0] == "seq" && len(f) == 2 {
					if res := w.runSeq(base, strings.Split(f[1], ",")); res != "eq" {
						verdict = fmt.Sprintf("FAIL shared-entry seq=%s world=%d base=%d %s", f[1], wv, bv, res)
						return
					}
					continue
				}
				if f[0] != "pair" || len(f) != 3 {
					continue
				}
				q := base.with(f[1])
				for _, dir := range [][2]pattrs{{base, q}, {q, base}} {
					if res, _ := w.runPair(dir[0], dir[1]); res != "eq" {
						verdict = fmt.Sprintf("FAIL shared-entry attr=%s world=%d base=%d %s", f[1], wv, bv, res)
						return
					}
				}
			}
		}()
		out.Line(verdict)
		out.Flush()
	}
}
