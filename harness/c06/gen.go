package main

import (
	"fmt"
	"strconv"

	"verifharness/internal/wire"
)

var cfgUniverse = []string{"SE/ns/a", "SE/ns/b", "DR/ns/a", "DR/ns/b", "VS/ns/a", "PA/ns/a", "EF/ns/a", "SC/ns/a", "SE/other/a"}

// genCache writes n cases of random operation sequences (5-300 ops) for the stream `cache`.
func genCache(seed uint64, n int, path string) {
	out := wire.Create(path)
	defer out.Close()
	root := wire.NewRng(seed*0x9e3779b9 + 0xC06)
	for c := 0; c < n; c++ {
		r := root.Fork()
		genCacheCase(r, c, out)
	}
}

func genCacheCase(r *wire.Rng, c int, out *wire.Out) {
	maxsize := 1 + r.Intn(5)
	if r.Chance(1, 25) {
		maxsize = wire.Pick(r, []int{0, -1, 50})
	}
	cdsOn, rdsOn := !r.Chance(1, 12), !r.Chance(1, 12)
	out.Line("case", strconv.Itoa(c), strconv.Itoa(maxsize), wire.B(cdsOn), wire.B(rdsOn))
	// length: mostly short and medium, some long histories
	var nops int
	switch x := r.Intn(10); {
	case x < 4:
		nops = 5 + r.Intn(25)
	case x < 8:
		nops = 30 + r.Intn(70)
	default:
		nops = 100 + r.Intn(201)
	}
	// a focus type gets most of the traffic so that its small LRU overflows
	types := []string{"eds", "cds", "rds", "sds"}
	focus := wire.Pick(r, types)
	nkeys := 2 + r.Intn(6)
	// the configs this case talks about (small, so that Clear hits live entries)
	cfgs := wire.Subset(r, cfgUniverse, 1, 2)
	if len(cfgs) < 2 {
		cfgs = append(cfgs, "SE/ns/a", "DR/ns/a")
	}
	clk := uint64(10 + r.Intn(5))
	lastClear := uint64(0)
	addTimes := map[uint64]bool{}
	var usedTimes []uint64
	vcount := 0
	pickType := func() string {
		switch x := r.Intn(100); {
		case x < 70:
			return focus
		case x < 97:
			return wire.Pick(r, types)
		default:
			return wire.Pick(r, []string{"lds", "foo", "EDS"})
		}
	}
	pickKey := func(typ string) string {
		str := typ == "sds"
		if r.Chance(1, 40) {
			str = !str // dynamic type mismatch: the real code panics on the type assertion
		}
		if str {
			return "s" + wire.Pick(r, []string{"a", "b", "c", "d", "e", "f", "g"}[:nkeys])
		}
		return "u" + strconv.Itoa(1+r.Intn(nkeys))
	}
	pickDeps := func() string {
		k := wire.Pick(r, []int{0, 1, 1, 1, 2, 2, 3})
		var d []string
		for i := 0; i < k; i++ {
			d = append(d, wire.Pick(r, cfgs))
		}
		return tokList(d)
	}
	for i := 0; i < nops; i++ {
		switch x := r.Intn(100); {
		case x < 45: // add
			typ := pickType()
			var start string
			switch y := r.Intn(100); {
			case y < 45:
				start = strconv.FormatUint(clk, 10) // "now": equal to or newer than the last clear
			case y < 60:
				start = strconv.FormatUint(clk+uint64(1+r.Intn(3)), 10) // ahead of the clock
			case y < 80:
				d := uint64(1 + r.Intn(6))
				if d > clk {
					d = clk
				}
				start = strconv.FormatUint(clk-d, 10) // a writer that started earlier
			case y < 90 && len(usedTimes) > 0:
				start = strconv.FormatUint(wire.Pick(r, usedTimes), 10)
			case y < 93:
				start = "zero"
			case y < 96:
				start = "nilreq"
			default:
				start = strconv.FormatUint(uint64(r.Intn(3)), 10) // ancient (0,1,2)
			}
			if t, err := strconv.ParseUint(start, 10, 64); err == nil {
				addTimes[t] = true
				usedTimes = append(usedTimes, t)
			}
			val := "nil"
			if !r.Chance(1, 30) {
				vcount++
				val = fmt.Sprintf("v%d", vcount)
			}
			out.Line("add", typ, pickKey(typ), wire.B(!r.Chance(1, 25)), pickDeps(), val, start)
			if r.Chance(1, 4) {
				clk++ // time passes
			}
		case x < 70: // get
			typ := pickType()
			out.Line("get", typ, pickKey(typ), wire.B(!r.Chance(1, 25)))
		case x < 85 || x < 88: // clear / clearall
			// the wall clock is strictly monotone: a clear time is above the last one, and a clear time
			// that an earlier add already used as its Start cannot be anchored (see clock.go)
			t := clk
			if t <= lastClear {
				t = lastClear + 1
			}
			t += uint64(r.Intn(3))
			for addTimes[t] && !r.Chance(1, 3) {
				t++
			}
			for addTimes[t] {
				t++
			}
			lastClear = t
			if t > clk {
				clk = t
			}
			if x < 85 {
				var cs []string
				switch y := r.Intn(10); {
				case y < 6:
					cs = []string{wire.Pick(r, cfgs)}
				case y < 8:
					cs = []string{wire.Pick(r, cfgs), wire.Pick(r, cfgUniverse)}
				case y < 9:
					cs = cfgs
				default:
					cs = nil
				}
				out.Line("clear", strconv.FormatUint(t, 10), tokList(cs))
			} else {
				out.Line("clearall", strconv.FormatUint(t, 10))
			}
		case x < 95:
			out.Line("flush")
		case x < 96:
			if r.Chance(1, 2) {
				out.Line("snapshot")
			} else {
				out.Line("keys", pickType())
			}
		case x < 98:
			out.Line("maxsize", strconv.Itoa(wire.Pick(r, []int{1, 2, 3, 4, 5, 0, -3})))
		default: // malformed
			out.Line(wire.Pick(r, [][]string{{"add", "eds", "x1", "1", "-", "v", "5"}, {"get", "eds"}, {"clear", "x", "-"},
				{"clear", "0", "-"}, {"clearall", strconv.FormatUint(lastClear, 10)}, {"frob"}, {"add", "eds", "u1", "1", "-", "v", "soon"},
				{"maxsize", "big"}})...)
		}
	}
}
