package main

// Experiment (NOT part of the check): `c06 race f8 <seconds> <clients>`.
//
// Observation F8: DiscoveryServer.ProxyUpdate builds {Push: globalPushContext(), Start: time.Now()} while the
// push goroutine runs initPushContext (dropCacheForRequest, then SetPushContext). This stress run lets the REAL
// ProxyUpdate (several goroutines, one connected ADS client each) race with the REAL config-change pipeline
// (store update -> debounce -> Push) and counts the push requests that reach a generator with an incoherent
// pair: a push context that a Clear has already replaced, together with a Start later than the end of that
// Clear. Probes: s.Discovery.Cache is wrapped (only to timestamp Clear/ClearAll; generators keep using the
// inner cache) and the CDS generator is wrapped (only to record the request it is given).

import (
	"fmt"
	"os"
	"strconv"
	"sync"
	"sync/atomic"
	"time"

	clusterv3 "github.com/envoyproxy/go-control-plane/envoy/config/cluster/v3"
	discovery "github.com/envoyproxy/go-control-plane/envoy/service/discovery/v3"

	"google.golang.org/protobuf/proto"

	"istio.io/istio/pilot/pkg/model"
	"istio.io/istio/pilot/pkg/networking/core"
	pxds "istio.io/istio/pilot/pkg/xds"
	v3 "istio.io/istio/pilot/pkg/xds/v3"
	"istio.io/istio/pkg/config"
	"istio.io/istio/pkg/util/sets"
)

type clearRec struct {
	t0, t1    int64
	verBefore string
}

type probeCache struct {
	model.XdsCache
	w      *keysWorld
	mu     sync.Mutex
	clears []clearRec
}

func (p *probeCache) note(f func()) {
	ver := p.w.s.PushContext().PushVersion
	t0 := time.Now().UnixNano()
	f()
	t1 := time.Now().UnixNano()
	p.mu.Lock()
	p.clears = append(p.clears, clearRec{t0, t1, ver})
	p.mu.Unlock()
}

func (p *probeCache) Clear(s sets.Set[model.ConfigKey]) { p.note(func() { p.XdsCache.Clear(s) }) }
func (p *probeCache) ClearAll()                         { p.note(func() { p.XdsCache.ClearAll() }) }

type pairRec struct {
	ver       string
	start     int64
	proxyOnly bool
}

type probeGen struct {
	inner    model.XdsResourceGenerator
	pc       *probeCache
	mu       sync.Mutex
	pairs    []pairRec
	twin     model.XdsResourceGenerator // same generator over a DisabledCache
	served   int                        // calls whose (cached) answer differs from the uncached twin's for the same proxy and request
	servedEx []string
	newer    int      // cached answer derived from a NEWER change than the request context (allowed by the property)
	stored   int      // entries found in the real CDS cache carrying the token of an incoherent request
	names    []string // ... and their resource names (first few)
}

func (g *probeGen) Generate(proxy *model.Proxy, w *model.WatchedResource, req *model.PushRequest) (model.Resources, model.XdsLogDetails, error) {
	if req != nil && req.Push != nil {
		only := len(req.Reason) == 1
		if _, ok := req.Reason[model.ProxyUpdate]; !ok {
			only = false
		}
		g.mu.Lock()
		g.pairs = append(g.pairs, pairRec{req.Push.PushVersion, req.Start.UnixNano(), only})
		g.mu.Unlock()
	}
	res, d, err := g.inner.Generate(proxy, w, req)
	if req != nil && req.Push != nil && g.twin != nil {
		fresh, _, _ := g.twin.Generate(proxy, w, req)
		byName := map[string]*discovery.Resource{}
		for _, r := range fresh {
			byName[r.Name] = r
		}
		for _, r := range res {
			if f, ok := byName[r.Name]; ok && !proto.Equal(r.Resource, f.Resource) {
				// direction: the DestinationRule's max_connections is 100+n for the n-th change; the answer is
				// stale only if it was derived from an OLDER change than the request's own context holds
				nc, nf := maxConn(r), maxConn(f)
				if nc == 0 || nf == 0 || nc >= nf {
					g.mu.Lock()
					g.newer++
					g.mu.Unlock()
					continue
				}
				g.mu.Lock()
				g.served++
				if len(g.servedEx) < 4 {
					g.servedEx = append(g.servedEx, fmt.Sprintf("%s to %s with ctx %s: cached max_connections=%d, fresh=%d", r.Name, proxy.ID, req.Push.PushVersion, nc, nf))
				}
				g.mu.Unlock()
				break
			}
		}
	}
	if req != nil && req.Push != nil {
		// online: was the context of this request already replaced by a Clear that ended before its Start?
		incoherent := false
		g.pc.mu.Lock()
		for i := len(g.pc.clears) - 1; i >= 0 && i >= len(g.pc.clears)-64; i-- {
			c := g.pc.clears[i]
			if c.verBefore == req.Push.PushVersion && req.Start.UnixNano() > c.t1 {
				incoherent = true
			}
		}
		g.pc.mu.Unlock()
		if incoherent {
			st := model.VerifC06Snapshot(g.pc.w.rec.XdsCache, model.CDSType) // the real XdsCacheImpl under the wrappers
			g.mu.Lock()
			for _, e := range st.Store {
				if e.Token == uint64(req.Start.UnixNano()) {
					g.stored++
					if len(g.names) < 6 && e.Value != nil {
						g.names = append(g.names, e.Value.Name)
					}
				}
			}
			g.mu.Unlock()
		}
	}
	return res, d, err
}

func raceF8(seconds, clients int) {
	w := newKeysWorld(0)
	defer w.close()
	s := w.s
	pc := &probeCache{XdsCache: s.Discovery.Cache, w: w}
	s.Discovery.Cache = pc
	pg := &probeGen{inner: s.Discovery.Generators[v3.ClusterType], pc: pc,
		twin: &pxds.CdsGenerator{ConfigGenerator: core.NewConfigGenerator(&model.DisabledCache{})}}
	s.Discovery.Generators[v3.ClusterType] = pg

	var ips []string
	for i := 0; i < clients; i++ {
		ip := fmt.Sprintf("10.77.0.%d", i+1)
		ips = append(ips, ip)
		ads := s.ConnectADS().WithID(fmt.Sprintf("sidecar~%s~c%d.default~default.svc.cluster.local", ip, i)).WithType(v3.ClusterType).WithMetadata(model.NodeMetadata{ClusterID: "Kubernetes"}).WithTimeout(10 * time.Second)
		ads.RequestResponseAck(w.f, &discovery.DiscoveryRequest{})
		go func() {
			for {
				ads.DrainResponses()
				time.Sleep(200 * time.Microsecond)
			}
		}()
	}
	var stop atomic.Bool
	var calls atomic.Int64
	var wg sync.WaitGroup
	// invalidator: real config changes through the real debounce/push pipeline
	wg.Add(1)
	go func() {
		defer wg.Done()
		ww := &writersWorld{keysWorld: w, conns: map[string]*wconn{}, deleted: map[string]config.Config{}, savedEps: map[string]savedShard{}}
		for n := 1; !stop.Load(); n++ {
			ww.changeConfig("dr-a", n)
			time.Sleep(2500 * time.Microsecond)
		}
	}()
	for _, ip := range ips {
		wg.Add(1)
		go func(ip string) {
			defer wg.Done()
			r := uint64(len(ip)) * 2654435761
			for !stop.Load() {
				s.Discovery.ProxyUpdate("Kubernetes", ip)
				calls.Add(1)
				r = r*6364136223846793005 + 1442695040888963407
				time.Sleep(time.Duration(50+(r>>33)%250) * time.Microsecond)
			}
		}(ip)
	}
	// lock order of the endpoint index (index lock -> shard lock -> cache lock) against EDS generation (shard read lock,
	// cache lock): an endpoint churn goroutine (update / empty update / delete / prune of b.example.com through the real
	// EndpointIndex entry points) runs against a goroutine that generates EDS through the cached generator. A deadlock
	// makes the run hang (the check reports the timeout); the generated EDS must always be a well-formed answer.
	var epOps, edsGens atomic.Int64
	{
		idx := s.Discovery.Env.EndpointIndex
		var key model.ShardKey
		var eps []*model.IstioEndpoint
		if shards, ok := idx.ShardsForService("b.example.com", "ns-b"); ok {
			shards.RLock()
			for k, v := range shards.Shards {
				key = k
				for _, e := range v {
					eps = append(eps, e.DeepCopy())
				}
				break
			}
			shards.RUnlock()
		}
		if len(eps) > 0 {
			wg.Add(2)
			go func() {
				defer wg.Done()
				for n := 0; !stop.Load(); n++ {
					switch n % 5 {
					case 0:
						idx.UpdateServiceEndpoints(key, "b.example.com", "ns-b", nil, false)
					case 1:
						idx.DeleteServiceShard(key, "b.example.com", "ns-b", false)
					case 2:
						idx.PruneShard(model.ShardKey{Cluster: "no-such-cluster"}, map[string]sets.String{})
					default:
						cp := make([]*model.IstioEndpoint, len(eps))
						for i, e := range eps {
							cp[i] = e.DeepCopy()
						}
						cp[0].Addresses = []string{fmt.Sprintf("10.252.%d.%d", (n/200)%200, 1+n%200)}
						idx.UpdateServiceEndpoints(key, "b.example.com", "ns-b", cp, false)
					}
					epOps.Add(1)
					time.Sleep(30 * time.Microsecond)
				}
			}()
			go func() {
				defer wg.Done()
				p := w.proxy(basePattrs(1), "edsreader")
				names := sets.New("outbound|8080||b.example.com")
				for !stop.Load() {
					req := &model.PushRequest{Forced: true, Push: s.PushContext(), Start: time.Now()}
					if _, _, err := w.gens.eds.Generate(p, &model.WatchedResource{TypeUrl: v3.EndpointType, ResourceNames: names}, req); err != nil {
						panic(err)
					}
					edsGens.Add(1)
				}
			}()
		}
	}
	time.Sleep(time.Duration(seconds) * time.Second)
	stop.Store(true)
	wg.Wait()
	fmt.Printf("endpoint_index_ops=%d concurrent_eds_generations=%d\n", epOps.Load(), edsGens.Load())
	time.Sleep(200 * time.Millisecond)

	pc.mu.Lock()
	clears := append([]clearRec(nil), pc.clears...)
	pc.mu.Unlock()
	pg.mu.Lock()
	pairs := append([]pairRec(nil), pg.pairs...)
	pg.mu.Unlock()
	// first Clear that replaced each context version
	replacedAt := map[string]clearRec{}
	for _, c := range clears {
		if _, ok := replacedAt[c.verBefore]; !ok {
			replacedAt[c.verBefore] = c
		}
	}
	nProxyOnly, incoherent, incoherentAny := 0, 0, 0
	var examples []string
	for _, p := range pairs {
		if p.proxyOnly {
			nProxyOnly++
		}
		if c, ok := replacedAt[p.ver]; ok && p.start > c.t1 {
			incoherentAny++
			if p.proxyOnly {
				incoherent++
				if len(examples) < 5 {
					examples = append(examples, fmt.Sprintf("ctx=%s replaced by Clear in [%d,%d], Start=%d (+%dns after the Clear)", p.ver, c.t0, c.t1, p.start, p.start-c.t1))
				}
			}
		}
	}
	fmt.Printf("seconds=%d clients=%d proxyupdate_calls=%d clears=%d generator_calls=%d from_proxyupdate_only=%d incoherent_pairs=%d (from ProxyUpdate only: %d)\n",
		seconds, clients, calls.Load(), len(clears), len(pairs), nProxyOnly, incoherentAny, incoherent)
	for _, e := range examples {
		fmt.Println("  ", e)
	}
	pg.mu.Lock()
	fmt.Printf("CDS answers served from the cache that were derived from an OLDER DestinationRule than the request's own context holds: %d %v\n", pg.served, pg.servedEx)
	fmt.Printf("(answers derived from a newer change than the request's context, which the property allows: %d)\n", pg.newer)
	fmt.Printf("stale entries found in the real CDS cache right after such a request was generated (token == its Start): %d %v\n", pg.stored, pg.names)
	pg.mu.Unlock()
}

func raceMain(args []string) {
	if len(args) < 3 || args[0] != "f8" {
		fmt.Fprintln(os.Stderr, "usage: c06 race f8 <seconds> <clients>")
		os.Exit(2)
	}
	sec, _ := strconv.Atoi(args[1])
	cl, _ := strconv.Atoi(args[2])
	raceF8(sec, cl)
}

func maxConn(r *discovery.Resource) uint32 {
	c := &clusterv3.Cluster{}
	if err := r.Resource.UnmarshalTo(c); err != nil {
		return 0
	}
	th := c.GetCircuitBreakers().GetThresholds()
	if len(th) == 0 {
		return 0
	}
	v := th[0].GetMaxConnections().GetValue()
	if v == 4294967295 {
		return 1 // the DestinationRule before its first change (no connection pool): older than every 100+n
	}
	return v
}
