// Harness for C06: drives the REAL xDS cache of /repo (model.NewXdsCache -> XdsCacheImpl with its
// four lruCache instances on hashicorp simplelru) through the exported model.XdsCache API, one
// operation per line, and observes it through the verif hook pilot/pkg/model/zz_verif_c06.go.
//
//	c06 gen    <stream> <seed> <ncases> <ops-out>
//	c06 exec   <stream> <ops-in> <impl-out>        (cache: also writes <ops-in>.resolved)
//	c06 oracle <stream> <ops-in> <verdict-out>
//
// Streams: cache (this file, oracle.go), keys (keys.go).
//
// Grammar of stream `cache` (mirrors lean/IstioModel/C06/Driver.lean):
//
//	case <n> <maxsize> <cdsOn> <rdsOn>
//	add <type> <key> <cacheable> <deps> <val|nil> <start|zero|nilreq>
//	get <type> <key> <cacheable>
//	clear <time> <cfgs> [<ord-cds> <ord-eds> <ord-rds> <ord-sds>]
//	clearall <time>
//	flush
//	maxsize <int>
//
// Times are logical numbers. Clear/ClearAll read the wall clock inside the real code, so the harness
// maps logical times to real nanosecond values order-preservingly (see clock.go): a Clear at logical
// time L is issued only after the wall clock has passed every real value given to a smaller logical
// time, and its real token (read back through the hook) must be below every real value given to a
// larger logical time (otherwise the case is retried with a coarser unit).
package main

import (
	"fmt"
	"os"
	"runtime"
	"sort"
	"strconv"
	"strings"
	"time"

	discovery "github.com/envoyproxy/go-control-plane/envoy/service/discovery/v3"

	"istio.io/istio/pilot/pkg/features"
	"istio.io/istio/pilot/pkg/model"
	"istio.io/istio/pkg/config/schema/kind"
	"istio.io/istio/pkg/util/sets"
	_ "verifharness/internal/quiet"
	"verifharness/internal/wire"
)

func main() {
	if len(os.Args) < 5 {
		fmt.Fprintln(os.Stderr, "usage: c06 gen|exec|oracle <stream> ...")
		os.Exit(2)
	}
	stream := os.Args[2]
	if os.Args[1] == "race" {
		raceMain(os.Args[2:])
		return
	}
	if os.Args[1] == "probe" && os.Args[2] == "assert" {
		probeAssert(os.Args[3])
		return
	}
	switch os.Args[1] {
	case "gen":
		seed, _ := strconv.ParseUint(os.Args[3], 10, 64)
		n, _ := strconv.Atoi(os.Args[4])
		switch stream {
		case "cache":
			genCache(seed, n, os.Args[5])
		case "keys":
			genKeys(seed, n, os.Args[5])
		case "interleave":
			genInterleave(seed, n, os.Args[5])
		case "writers":
			genWriters(seed, n, os.Args[5])
		default:
			os.Exit(2)
		}
	case "exec":
		switch stream {
		case "cache":
			execCache(os.Args[3], os.Args[4])
		case "keys":
			execKeys(os.Args[3], os.Args[4])
		case "writers":
			execWriters(os.Args[3], os.Args[4])
		default:
			os.Exit(2)
		}
	case "oracle":
		switch stream {
		case "cache":
			oracleCache(os.Args[3], os.Args[4])
		case "interleave":
			oracleInterleave(os.Args[3], os.Args[4])
		case "keys":
			oracleKeys(os.Args[3], os.Args[4])
		case "writers":
			oracleWriters(os.Args[3], os.Args[4])
		default:
			os.Exit(2)
		}
	default:
		os.Exit(2)
	}
}

// probeAssert: `c06 probe assert same|changed - -`. lruCache.assertUnchanged (only with
// UNSAFE_PILOT_ENABLE_RUNTIME_ASSERTIONS, never in production; not modelled) panics in a goroutine of its own when an
// accepted Add replaces a live entry by a DIFFERENT value, so it can only be observed from outside the process: with an
// equal replacement the process prints "alive" and exits 0, with a changed one it must die with "assertion failed".
func probeAssert(mode string) {
	features.EnableUnsafeAssertions = true
	features.XDSCacheMaxSize = 4
	features.EnableCDSCaching, features.EnableRDSCaching = true, true
	c := model.NewXdsCache()
	e := entry{typ: model.EDSType, key: uint64(1), cacheable: true}
	t0 := time.Now()
	c.Add(e, &model.PushRequest{Start: t0}, &discovery.Resource{Name: "v1"})
	second := "v1"
	if mode == "changed" {
		second = "v2"
	}
	c.Add(e, &model.PushRequest{Start: t0.Add(time.Millisecond)}, &discovery.Resource{Name: second})
	time.Sleep(500 * time.Millisecond)
	r := c.Get(e)
	fmt.Println("alive", r.GetName())
}

// ---------------------------------------------------------------- tokens

var kindTok = map[string]kind.Kind{
	"SE": kind.ServiceEntry, "DR": kind.DestinationRule, "VS": kind.VirtualService,
	"PA": kind.PeerAuthentication, "EF": kind.EnvoyFilter, "SC": kind.Secret,
}

// cfgKey maps a config token to a ConfigKey (total: tokens that are not <KIND>/<ns>/<name> with a
// known kind become a WasmPlugin key named by the whole token).
func cfgKey(tok string) model.ConfigKey {
	p := strings.Split(tok, "/")
	if len(p) == 3 {
		if k, ok := kindTok[p[0]]; ok {
			return model.ConfigKey{Kind: k, Namespace: p[1], Name: p[2]}
		}
	}
	return model.ConfigKey{Kind: kind.WasmPlugin, Namespace: "verif", Name: tok}
}

func listTok(t string) []string {
	if t == "-" {
		return nil
	}
	return strings.Split(t, ",")
}

func tokList(l []string) string {
	if len(l) == 0 {
		return "-"
	}
	return strings.Join(l, ",")
}

func depsTok(l []string) string {
	if len(l) == 0 {
		return "-"
	}
	return strings.Join(l, "+")
}

// entry is the harness-defined model.XdsCacheEntry.
type entry struct {
	typ       string
	key       any
	deps      []model.ConfigHash
	cacheable bool
}

func (e entry) Type() string                         { return e.typ }
func (e entry) Key() any                             { return e.key }
func (e entry) DependentConfigs() []model.ConfigHash { return e.deps }
func (e entry) Cacheable() bool                      { return e.cacheable }

func parseKey(tok string) (any, bool) {
	if strings.HasPrefix(tok, "s") {
		return tok[1:], true
	}
	if strings.HasPrefix(tok, "u") {
		if !isNat(tok[1:]) {
			return nil, false
		}
		n, err := strconv.ParseUint(tok[1:], 10, 64)
		if err != nil {
			return nil, false
		}
		return n, true
	}
	return nil, false
}

// isNat mirrors Lean's String.toNat? (non-empty, digits only; `_` separators are not generated).
func isNat(s string) bool {
	if s == "" {
		return false
	}
	for i := 0; i < len(s); i++ {
		if s[i] < '0' || s[i] > '9' {
			return false
		}
	}
	return len(s) < 19
}

func keyTok(k any) string {
	switch v := k.(type) {
	case uint64:
		return "u" + strconv.FormatUint(v, 10)
	case string:
		return "s" + v
	}
	return "?"
}

func parseInt(t string) (int, bool) {
	neg := strings.HasPrefix(t, "-")
	if neg {
		t = t[1:]
	}
	if !isNat(t) {
		return 0, false
	}
	n, _ := strconv.Atoi(t)
	if neg {
		n = -n
	}
	return n, true
}

// ---------------------------------------------------------------- system under test

var typeOrder = []string{model.CDSType, model.EDSType, model.RDSType, model.SDSType}

type sut struct {
	cache     model.XdsCache
	clk       *clock
	lastClear uint64
	addTimes  map[uint64]bool
	hashTok   map[model.ConfigHash]string
	stats     map[string]int // what the ops of this case did to the real cache (observed through the hook; evidence only)
}

func newSUT(maxsize int, cdsOn, rdsOn bool, unit uint64) *sut {
	features.XDSCacheMaxSize = maxsize
	features.EnableCDSCaching = cdsOn
	features.EnableRDSCaching = rdsOn
	return &sut{cache: model.NewXdsCache(), clk: newClock(unit), addTimes: map[uint64]bool{}, hashTok: map[model.ConfigHash]string{}, stats: map[string]int{}}
}

func (s *sut) hashes(toks []string) []model.ConfigHash {
	out := make([]model.ConfigHash, 0, len(toks))
	for _, t := range toks {
		h := cfgKey(t).HashCode()
		if old, ok := s.hashTok[h]; ok && old != t {
			panic("harness: ConfigKey hash collision between " + old + " and " + t)
		}
		s.hashTok[h] = t
		out = append(out, h)
	}
	return out
}

func (s *sut) depToks(hs []model.ConfigHash) []string {
	out := make([]string, len(hs))
	for i, h := range hs {
		t, ok := s.hashTok[h]
		if !ok {
			t = fmt.Sprintf("unknownhash%d", uint64(h))
		}
		out[i] = t
	}
	return out
}

func (s *sut) logical(real uint64) string {
	l, ok := s.clk.inv[real]
	if !ok {
		return fmt.Sprintf("unmapped%d", real)
	}
	return strconv.FormatUint(l, 10)
}

func (s *sut) showCache(typ string) string {
	st := model.VerifC06Snapshot(s.cache, typ)
	if st.Disabled {
		return "off"
	}
	var es []string
	for _, e := range st.Store {
		v := "nil"
		if e.Value != nil {
			v = e.Value.Name
		}
		es = append(es, fmt.Sprintf("%s:%s:%s:%s", keyTok(e.Key), s.logical(e.Token), v, depsTok(s.depToks(e.Deps))))
	}
	var ix []string
	for h, ks := range st.Index {
		for _, k := range ks {
			ix = append(ix, s.depToks([]model.ConfigHash{h})[0]+">"+keyTok(k))
		}
	}
	sort.Strings(ix)
	var q []string
	for _, e := range st.EvictQueue {
		q = append(q, keyTok(e.Key)+":"+depsTok(s.depToks(e.Deps)))
	}
	return fmt.Sprintf("t=%s;s=%s;i=%s;q=%s", s.logical(st.Token), tokList(es), tokList(ix), tokList(q))
}

func (s *sut) show() string {
	parts := make([]string, len(typeOrder))
	for i, t := range typeOrder {
		parts[i] = t + "[" + s.showCache(t) + "]"
	}
	return strings.Join(parts, " ")
}

func (s *sut) queueLens() map[string]int {
	out := map[string]int{}
	for _, t := range typeOrder {
		out[t] = len(model.VerifC06Snapshot(s.cache, t).EvictQueue)
	}
	return out
}

// tokens of the enabled typed caches (real values)
func (s *sut) tokens() map[string]uint64 {
	out := map[string]uint64{}
	for _, t := range typeOrder {
		st := model.VerifC06Snapshot(s.cache, t)
		if !st.Disabled {
			out[t] = st.Token
		}
	}
	return out
}

func (s *sut) entryCounts() map[string]int {
	out := map[string]int{}
	for _, t := range typeOrder {
		out[t] = len(model.VerifC06Snapshot(s.cache, t).Store)
	}
	return out
}

// classifyAdd names what an Add did, from the state of the typed cache before and after it (observation only).
func (s *sut) classifyAdd(typ string, k any, req *model.PushRequest, before, after model.VerifC06State) {
	known := false
	for _, t := range typeOrder {
		known = known || t == typ
	}
	switch {
	case !known:
		s.stats["add-unknown-type"]++
		return
	case before.Disabled:
		s.stats["add-to-disabled-cache"]++
		return
	case req == nil || req.Start.IsZero():
		s.stats["add-without-start"]++
		return
	}
	tok := uint64(req.Start.UnixNano())
	find := func(st model.VerifC06State) (uint64, bool) {
		for _, e := range st.Store {
			if e.Key == k {
				return e.Token, true
			}
		}
		return 0, false
	}
	bt, had := find(before)
	at, has := find(after)
	accepted := has && at == tok && !(had && bt == tok)
	switch {
	case accepted && had:
		s.stats["add-accepted-replacing-entry"]++
	case accepted:
		s.stats["add-accepted-new-key"]++
		if len(after.Store) == len(before.Store) {
			s.stats["add-evicting-lru-entry"]++
		}
	case tok < before.Token:
		s.stats["add-rejected-by-cache-token"]++
	case had && tok <= bt:
		s.stats["add-rejected-by-entry-token"]++
	default:
		s.stats["add-not-stored-other"]++ // e.g. Cacheable() == false
	}
}

type timingError struct{ msg string }

func (e timingError) Error() string { return e.msg }

// pushReq builds the PushRequest of an add; typ selects the per-type real value of a Clear anchor.
func (s *sut) pushReq(start string, typ string) (*model.PushRequest, bool, error) {
	switch start {
	case "nilreq":
		return nil, true, nil
	case "zero":
		return &model.PushRequest{}, true, nil
	}
	if !isNat(start) {
		return nil, false, nil
	}
	t, _ := strconv.ParseUint(start, 10, 64)
	s.addTimes[t] = true
	r, err := s.clk.realFor(t, typ)
	if err != nil {
		return nil, true, err
	}
	return &model.PushRequest{Start: time.Unix(0, int64(r))}, true, nil
}

// invalidate runs Clear / ClearAll at logical time L with the wall-clock discipline of clock.go.
func (s *sut) invalidate(L uint64, f func()) error {
	s.clk.waitBefore(L)
	t0 := uint64(time.Now().UnixNano())
	f()
	t1 := uint64(time.Now().UnixNano())
	return s.clk.anchorClear(L, t0, t1, s.tokens())
}

// apply executes one op on the real cache. Returns the result token, the resolved op line, an error
// for timing failures (case must be retried).
func (s *sut) apply(f []string) (res string, resolved []string, err error) {
	resolved = f
	defer func() {
		if r := recover(); r != nil {
			if te, ok := r.(timingError); ok {
				err = te
				return
			}
			res = "crash"
			s.stats["crash(type-assertion-on-key)"]++
		}
	}()
	switch {
	case f[0] == "add" && len(f) == 7:
		k, ok := parseKey(f[2])
		if !ok {
			return "bad-op", f, nil
		}
		if !(f[6] == "zero" || f[6] == "nilreq" || isNat(f[6])) {
			return "bad-op", f, nil
		}
		req, _, terr := s.pushReq(f[6], f[1])
		if terr != nil {
			return "", f, terr
		}
		var v *discovery.Resource
		if f[5] != "nil" {
			v = &discovery.Resource{Name: f[5]}
		}
		e := entry{typ: f[1], key: k, deps: s.hashes(listTok(f[4])), cacheable: wire.B(true) == f[3] || f[3] == "true"}
		before := model.VerifC06Snapshot(s.cache, f[1])
		s.cache.Add(e, req, v)
		s.classifyAdd(f[1], k, req, before, model.VerifC06Snapshot(s.cache, f[1]))
		return "ok", f, nil
	case f[0] == "get" && len(f) == 4:
		k, ok := parseKey(f[2])
		if !ok {
			return "bad-op", f, nil
		}
		e := entry{typ: f[1], key: k, cacheable: f[3] == "1" || f[3] == "true"}
		r := s.cache.Get(e)
		if r == nil {
			s.stats["get-miss"]++
			return "miss", f, nil
		}
		s.stats["get-hit"]++
		return "hit:" + r.Name, f, nil
	case f[0] == "clear" && (len(f) == 3 || len(f) == 7):
		if !isNat(f[1]) {
			return "bad-op", f, nil
		}
		L, _ := strconv.ParseUint(f[1], 10, 64)
		if L <= s.lastClear || s.addTimes[L] {
			return "bad-op", f, nil
		}
		cs := sets.New[model.ConfigKey]()
		for _, t := range listTok(f[2]) {
			ck := cfgKey(t)
			s.hashes([]string{t})
			cs.Insert(ck)
		}
		before := s.queueLens()
		nBefore := s.entryCounts()
		if e := s.invalidate(L, func() { s.cache.Clear(cs) }); e != nil {
			return "", f, e
		}
		nAfter := s.entryCounts()
		removed := 0
		for t, n := range nBefore {
			removed += n - nAfter[t]
		}
		if removed > 0 {
			s.stats["clear-removing-entries"]++
		} else {
			s.stats["clear-removing-nothing"]++
		}
		if model.HasConfigsOfKind(cs, kind.PeerAuthentication) {
			s.stats["clear-with-peerauthentication"]++
			if nBefore[model.EDSType] > 0 && nAfter[model.EDSType] == 0 {
				s.stats["clear-with-peerauthentication-emptying-eds"]++
			}
		}
		s.lastClear = L
		// resolve the map-iteration nondeterminism of Clear: order in which removed entries were queued
		out := []string{"clear", f[1], f[2]}
		for _, t := range typeOrder {
			st := model.VerifC06Snapshot(s.cache, t)
			var ks []string
			if !st.Disabled && len(st.EvictQueue) >= before[t] {
				for _, e := range st.EvictQueue[before[t]:] {
					ks = append(ks, keyTok(e.Key))
				}
			}
			out = append(out, tokList(ks))
		}
		return "ok", out, nil
	case f[0] == "clearall" && len(f) == 2:
		if !isNat(f[1]) {
			return "bad-op", f, nil
		}
		L, _ := strconv.ParseUint(f[1], 10, 64)
		if L <= s.lastClear || s.addTimes[L] {
			return "bad-op", f, nil
		}
		if e := s.invalidate(L, func() { s.cache.ClearAll() }); e != nil {
			return "", f, e
		}
		s.stats["clearall"]++
		s.lastClear = L
		return "ok", f, nil
	case f[0] == "snapshot" && len(f) == 1:
		// debug accessor: reads every value through store.Get (recency promotion of every key, oldest first)
		return "n=" + strconv.Itoa(len(s.cache.Snapshot())), f, nil
	case f[0] == "keys" && len(f) == 2:
		return "n=" + strconv.Itoa(len(s.cache.Keys(f[1]))), f, nil
	case f[0] == "flush" && len(f) == 1:
		pending := 0
		for _, n := range s.queueLens() {
			pending += n
		}
		if pending > 0 {
			s.stats["flush-with-pending-index-cleanups"]++
		} else {
			s.stats["flush-with-empty-queue"]++
		}
		realFlush(s.cache)
		return "ok", f, nil
	case f[0] == "maxsize" && len(f) == 2:
		n, ok := parseInt(f[1])
		if !ok {
			return "bad-op", f, nil
		}
		features.XDSCacheMaxSize = n
		return "ok", f, nil
	}
	return "bad-op", f, nil
}

// realFlush lets the REAL XdsCacheImpl.Run goroutine (ticker -> Flush of the four typed caches) do the index
// cleanup: the clear interval is set to 40us, Run is started, and it is stopped again once every evict queue
// has been observed empty (through the read-only hook). A tick on empty queues changes nothing, so the state
// after the call is the state after exactly one Flush of each cache.
func realFlush(c model.XdsCache) {
	pending := func() bool {
		for _, t := range typeOrder {
			if len(model.VerifC06Snapshot(c, t).EvictQueue) > 0 {
				return true
			}
		}
		return false
	}
	if !pending() {
		return
	}
	features.XDSCacheIndexClearInterval = 40 * time.Microsecond
	stop := make(chan struct{})
	before := runtime.NumGoroutine()
	c.Run(stop)
	deadline := time.Now().Add(5 * time.Second)
	for pending() && time.Now().Before(deadline) {
		runtime.Gosched()
	}
	close(stop)
	// wait until the Run goroutine is gone (the harness itself starts no other goroutine here), so that no late
	// tick can flush what a following operation queues
	for t0 := time.Now(); runtime.NumGoroutine() > before && time.Since(t0) < 5*time.Second; {
		runtime.Gosched()
	}
}

func parseCase(f []string) (maxsize int, cdsOn, rdsOn bool, ok bool) {
	if len(f) != 5 {
		return 0, false, false, false
	}
	m, ok := parseInt(f[2])
	if !ok {
		return 0, false, false, false
	}
	tb := func(t string) bool { return t == "1" || t == "true" }
	return m, tb(f[3]), tb(f[4]), true
}

// runCase executes one case (header + ops) and returns the output lines and resolved op lines.
func runCase(lines [][]string, unit uint64) (outs []string, res [][]string, stats map[string]int, err error) {
	var s *sut
	stats = map[string]int{}
	merge := func() {
		if s != nil && stats != nil {
			for k, v := range s.stats {
				stats[k] += v
			}
		}
	}
	defer merge()
	for _, f := range lines {
		if f[0] == "case" {
			m, c, r, ok := parseCase(f)
			merge()
			if !ok {
				s = newSUT(0, true, true, unit) // malformed header: both sides fall back to the initial state
				outs = append(outs, "bad-op")
				res = append(res, f)
				continue
			}
			s = newSUT(m, c, r, unit)
			outs = append(outs, "ok "+s.show())
			res = append(res, f)
			continue
		}
		if s == nil {
			s = newSUT(0, true, true, unit) // ops before any header run on the initial state
		}
		r, rf, e := s.apply(f)
		if e != nil {
			return nil, nil, nil, e
		}
		res = append(res, rf)
		if r == "bad-op" {
			outs = append(outs, r)
		} else {
			outs = append(outs, r+" "+s.show())
		}
	}
	return outs, res, stats, nil
}

func splitCases(all [][]string) [][][]string {
	var cases [][][]string
	for _, f := range all {
		if f[0] == "case" || len(cases) == 0 {
			cases = append(cases, nil)
		}
		cases[len(cases)-1] = append(cases[len(cases)-1], f)
	}
	return cases
}

func execCache(opsPath, outPath string) {
	all := wire.ReadLines(opsPath)
	out := wire.Create(outPath)
	defer out.Close()
	rout := wire.Create(opsPath + ".resolved")
	defer rout.Close()
	retries, unresolved := 0, 0
	total := map[string]int{}
	defer func() {
		st := wire.Create(outPath + ".stats")
		st.Line("timing_unresolved", strconv.Itoa(unresolved))
		st.Line("timing_retries", strconv.Itoa(retries))
		var names []string
		for k := range total {
			names = append(names, k)
		}
		sort.Strings(names)
		for _, k := range names {
			st.Line(k, strconv.Itoa(total[k]))
		}
		st.Close()
	}()
	for _, c := range splitCases(all) {
		unit := uint64(20000)
		var outs []string
		var res [][]string
		var err error
		var stats map[string]int
		for try := 0; try < 12; try++ {
			outs, res, stats, err = runCase(c, unit)
			if err == nil {
				break
			}
			retries++
			if os.Getenv("C06_DEBUG") != "" {
				fmt.Fprintln(os.Stderr, "retry:", err, "unit", unit)
			}
			unit *= 2
		}
		if err != nil {
			// a loaded machine: the logical/real time order could not be established for this case. It is not
			// compared (both sides answer `timing-unresolved`), but it is counted and reported by the check.
			fmt.Fprintln(os.Stderr, "c06: could not establish the logical/real time order for a case:", err)
			unresolved++
			for range c {
				out.Line("timing-unresolved")
				rout.Line("unresolved")
			}
			out.Flush()
			continue
		}
		for i := range outs {
			out.Line(outs[i])
			rout.Line(res[i]...)
		}
		for k, v := range stats {
			total[k] += v
		}
		out.Flush()
	}
	if retries > 0 {
		fmt.Fprintf(os.Stderr, "c06: %d case retries because of wall-clock jitter\n", retries)
	}
}
