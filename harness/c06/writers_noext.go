//go:build !c06ext

package main

// Fallback when the tree's hook file lacks the newer entry points: delta connections become SotW connections and
// the typed config dump is skipped (the check reports the broken tie).

import (
	corev3 "github.com/envoyproxy/go-control-plane/envoy/config/core/v3"
	discovery "github.com/envoyproxy/go-control-plane/envoy/service/discovery/v3"

	"istio.io/istio/pilot/pkg/model"
	pxds "istio.io/istio/pilot/pkg/xds"
)

const extAvailable = false

func extNewDeltaConn(p *model.Proxy) *pxds.Connection { return nil }

func extProcessDelta(s *pxds.DiscoveryServer, req *discovery.DeltaDiscoveryRequest, con *pxds.Connection) error {
	return nil
}

func extPushDelta(s *pxds.DiscoveryServer, con *pxds.Connection, req *model.PushRequest) error {
	return nil
}

func extConnect(s *pxds.DiscoveryServer, node *corev3.Node, delta bool, dsink *sinkDeltaStream) (*pxds.Connection, *model.Proxy, error) {
	return nil, nil, nil
}

func extDumpTypes(s *pxds.DiscoveryServer, con *pxds.Connection, types []string) {}
