package main

import (
	"fmt"
	"sort"
	"time"
)

// clock maps the logical times of an ops file to real UnixNano values, order-preservingly.
//
// lruCache.Clear / ClearAll read time.Now() themselves, so a logical Clear time cannot be chosen; it
// is *anchored* to whatever the wall clock was (read back as the cache token through the hook; the
// four typed caches read the clock one after the other, hence an interval [lo,hi] and a per-type
// value). Add times are chosen by the harness: a logical time already anchored reuses its real value
// (for a Clear anchor: the token of the same typed cache, so that `token == l.token` is reachable),
// any other logical time is placed strictly between its logical neighbours.  Only the order of
// tokens is observable by the cache, so the real code behaves on the real values exactly as the
// model does on the logical ones.
type anchor struct {
	l      uint64
	lo, hi uint64
	per    map[string]uint64 // Clear anchors: real token per typed cache
}

type clock struct {
	unit    uint64 // ns per logical unit when extrapolating past the newest anchor
	anchors []anchor
	inv     map[uint64]uint64 // real -> logical, for printing
}

func newClock(unit uint64) *clock {
	c := &clock{unit: unit, inv: map[uint64]uint64{0: 0}}
	c.anchors = []anchor{{l: 0, lo: 0, hi: 0}}
	// logical 1 is "when the case started": everything later is placed relative to the wall clock
	now := uint64(time.Now().UnixNano())
	c.anchors = append(c.anchors, anchor{l: 1, lo: now, hi: now})
	c.inv[now] = 1
	return c
}

func (c *clock) find(l uint64) int {
	return sort.Search(len(c.anchors), func(i int) bool { return c.anchors[i].l >= l })
}

func (c *clock) insert(a anchor) {
	i := c.find(a.l)
	c.anchors = append(c.anchors, anchor{})
	copy(c.anchors[i+1:], c.anchors[i:])
	c.anchors[i] = a
}

// realFor returns the real value of logical time l for an Add into typed cache typ.
func (c *clock) realFor(l uint64, typ string) (uint64, error) {
	i := c.find(l)
	if i < len(c.anchors) && c.anchors[i].l == l {
		a := c.anchors[i]
		if a.per != nil {
			if r, ok := a.per[typ]; ok {
				return r, nil
			}
		}
		return a.lo, nil
	}
	lo := c.anchors[i-1] // anchor 0 always exists and l > 0 here
	var r uint64
	if i == len(c.anchors) {
		r = lo.hi + (l-lo.l)*c.unit
	} else {
		hi := c.anchors[i]
		if hi.lo <= lo.hi || hi.lo-lo.hi < 2*(hi.l-lo.l) {
			return 0, timingError{fmt.Sprintf("no room between logical %d and %d", lo.l, hi.l)}
		}
		r = lo.hi + (hi.lo-lo.hi)/(hi.l-lo.l)*(l-lo.l)
		if r <= lo.hi || r >= hi.lo {
			return 0, timingError{"interpolation failed"}
		}
	}
	c.insert(anchor{l: l, lo: r, hi: r})
	c.inv[r] = l
	return r, nil
}

// waitBefore spins until the wall clock is past every real value given to a logical time < l
// (with room for later interpolation between the neighbour and l).
func (c *clock) waitBefore(l uint64) {
	i := c.find(l)
	if i == 0 {
		return
	}
	lo := c.anchors[i-1]
	target := lo.hi + (l-lo.l)*64
	for uint64(time.Now().UnixNano()) <= target {
	}
}

// anchorClear records a Clear/ClearAll at logical time l that ran within the wall-clock interval
// [t0,t1] (measured by the harness around the call). The tokens the typed caches took (read back
// through the hook) are remembered per type when they lie in the interval - a cache that did not
// refresh its token keeps its old real value and is printed with its old logical time.
func (c *clock) anchorClear(l uint64, t0, t1 uint64, toks map[string]uint64) error {
	a := anchor{l: l, lo: t0, hi: t1, per: map[string]uint64{}}
	i := c.find(l)
	if t1 < t0 || (i > 0 && c.anchors[i-1].hi >= t0) {
		return timingError{"wall clock went backwards"}
	}
	if i < len(c.anchors) {
		hi := c.anchors[i]
		if hi.l == l {
			return timingError{"logical clear time already anchored"}
		}
		if t1+2*(hi.l-l) >= hi.lo {
			return timingError{fmt.Sprintf("clear at logical %d ran too late for logical %d", l, hi.l)}
		}
	}
	for typ, r := range toks {
		if r >= t0 && r <= t1 {
			a.per[typ] = r
			c.inv[r] = l
		}
	}
	c.insert(a)
	return nil
}
