package main

// Stream `writers`: validation (not proof) of the hypothesis "writers are coherent" of theorem
// never_stale for the REAL code paths that write to the cache on behalf of a connection, on
// sequential schedules (no goroutine races):
//
//	case <n> <world>
//	connect <id> <base>        a proxy + bare Connection; LastPushContext = global context (as initConnection does)
//	request <id> <cds|eds|rds> real DiscoveryServer.processRequest (first/re-request of the type):
//	                           generates with the pair (proxy.LastPushContext, proxy.LastPushTime)
//	change <cfg> <n>           a config is updated in the store; after the server's own pipeline has settled
//	                           the real DiscoveryServer.Push runs once more for exactly that config key
//	                           (initPushContext: new context, dropCacheForRequest, SetPushContext; StartPush stamps Start)
//	push <id>                  real DiscoveryServer.pushConnection with the request of the last `change`
//	                           (what a push-queue worker does for this connection, later)
//	dump <id>                  real DiscoveryServer.connectionConfigDump (body of /debug/config_dump?proxyID=)
//	check <id>                 the property: a reader with the attributes of <id>, the CURRENT global context and
//	                           Start = now generates CDS+EDS+RDS through the server's generators (shared cache)
//	                           and through uncached twins of the same generators; answer eq | diff:<resource>
//
// The Lean driver (spec side, theorem never_stale/cache_invisible) answers `eq` for every check.

import (
	"context"
	"errors"
	"fmt"
	"os"
	"strconv"
	"time"

	clusterv3 "github.com/envoyproxy/go-control-plane/envoy/config/cluster/v3"
	discovery "github.com/envoyproxy/go-control-plane/envoy/service/discovery/v3"
	"google.golang.org/grpc/metadata"
	"google.golang.org/protobuf/proto"

	networking "istio.io/api/networking/v1alpha3"
	"istio.io/istio/pilot/pkg/model"
	"istio.io/istio/pilot/pkg/networking/core"
	pxds "istio.io/istio/pilot/pkg/xds"
	v3 "istio.io/istio/pilot/pkg/xds/v3"
	"istio.io/istio/pilot/test/xdstest"
	"istio.io/istio/pkg/config"
	"istio.io/istio/pkg/config/schema/gvk"
	"istio.io/istio/pkg/config/schema/kind"
	"istio.io/istio/pkg/util/sets"
	"verifharness/internal/wire"
)

type sinkStream struct{}

func (s *sinkStream) SetHeader(metadata.MD) error                { return nil }
func (s *sinkStream) SendHeader(metadata.MD) error               { return nil }
func (s *sinkStream) SetTrailer(metadata.MD)                     {}
func (s *sinkStream) Context() context.Context                   { return context.Background() }
func (s *sinkStream) SendMsg(any) error                          { return nil }
func (s *sinkStream) RecvMsg(any) error                          { return nil }
func (s *sinkStream) Send(*discovery.DiscoveryResponse) error    { return nil }
func (s *sinkStream) Recv() (*discovery.DiscoveryRequest, error) { return nil, errors.New("eof") }

type wconn struct {
	attrs pattrs
	p     *model.Proxy
	con   *pxds.Connection
}

type writersWorld struct {
	*keysWorld
	conns   map[string]*wconn
	lastReq *model.PushRequest
	cdsU    model.XdsResourceGenerator
	edsU    model.XdsResourceGenerator
	rdsU    model.XdsResourceGenerator
	nreader int
}

func newWritersWorld(variant int) *writersWorld {
	kw := newKeysWorld(variant)
	cg := core.NewConfigGenerator(&model.DisabledCache{})
	return &writersWorld{
		keysWorld: kw, conns: map[string]*wconn{},
		cdsU: &pxds.CdsGenerator{ConfigGenerator: cg},
		edsU: &pxds.EdsGenerator{Cache: model.DisabledCache{}, EndpointIndex: kw.s.Discovery.Env.EndpointIndex},
		rdsU: &pxds.RdsGenerator{ConfigGenerator: cg},
	}
}

var shortType = map[string]string{"cds": v3.ClusterType, "eds": v3.EndpointType, "rds": v3.RouteType}

func (w *writersWorld) resourceNames(p *model.Proxy, typ string) []string {
	switch typ {
	case "eds":
		return xdstest.ExtractEdsClusterNames(w.s.Clusters(p)) // uncached helper generator, only to learn the names
	case "rds":
		return xdstest.ExtractRoutesFromListeners(w.s.Listeners(p))
	}
	return nil
}

// changeConfig rewrites one numeric knob of a config of the mesh.
func (w *writersWorld) changeConfig(which string, n int) (model.ConfigKey, bool) {
	store := w.s.Store()
	switch which {
	case "dr-a", "dr-b", "dr-a-nsb", "dr-sel":
		ns := "default"
		if which == "dr-b" || which == "dr-a-nsb" {
			ns = "ns-b"
		}
		cur := store.Get(gvk.DestinationRule, which, ns)
		if cur == nil {
			return model.ConfigKey{}, false
		}
		c := cur.DeepCopy()
		dr := c.Spec.(*networking.DestinationRule)
		if dr.TrafficPolicy == nil {
			dr.TrafficPolicy = &networking.TrafficPolicy{}
		}
		dr.TrafficPolicy.ConnectionPool = &networking.ConnectionPoolSettings{Tcp: &networking.ConnectionPoolSettings_TCPSettings{MaxConnections: int32(100 + n)}}
		if _, err := store.Update(c); err != nil {
			panic(err)
		}
		return model.ConfigKey{Kind: kind.DestinationRule, Name: which, Namespace: ns}, true
	case "vs-a", "vs-b":
		ns := "default"
		if which == "vs-b" {
			ns = "ns-b"
		}
		cur := store.Get(gvk.VirtualService, which, ns)
		if cur == nil {
			return model.ConfigKey{}, false
		}
		c := cur.DeepCopy()
		vs := c.Spec.(*networking.VirtualService)
		for _, h := range vs.Http {
			h.Retries = &networking.HTTPRetry{Attempts: int32(1 + n%7)}
		}
		if _, err := store.Update(c); err != nil {
			panic(err)
		}
		return model.ConfigKey{Kind: kind.VirtualService, Name: which, Namespace: ns}, true
	}
	return model.ConfigKey{}, false
}

func (w *writersWorld) generateWith(cds, eds, rds model.XdsResourceGenerator, p *model.Proxy) map[string]proto.Message {
	out := map[string]proto.Message{}
	req := &model.PushRequest{Forced: true, Push: w.s.PushContext(), Start: time.Now()}
	add := func(prefix string, rs model.Resources, err error) {
		if err != nil {
			panic(err)
		}
		for _, r := range rs {
			m, e := r.Resource.UnmarshalNew()
			if e != nil {
				panic(e)
			}
			out[prefix+"/"+r.Name] = m
		}
	}
	r1, _, err := cds.Generate(p, &model.WatchedResource{TypeUrl: v3.ClusterType}, req)
	add("cds", r1, err)
	r2, _, err := eds.Generate(p, &model.WatchedResource{TypeUrl: v3.EndpointType, ResourceNames: sets.New(w.resourceNames(p, "eds")...)}, req)
	add("eds", r2, err)
	r3, _, err := rds.Generate(p, &model.WatchedResource{TypeUrl: v3.RouteType, ResourceNames: sets.New(w.resourceNames(p, "rds")...)}, req)
	add("rds", r3, err)
	return out
}

func (w *writersWorld) apply(f []string) string {
	s := w.s
	switch {
	case f[0] == "connect" && len(f) == 3:
		bv, _ := strconv.Atoi(f[2])
		a := basePattrs(bv)
		p := w.proxy(a, f[1])
		p.LastPushContext = s.PushContext()
		p.WatchedResources = map[string]*model.WatchedResource{}
		w.conns[f[1]] = &wconn{attrs: a, p: p, con: pxds.VerifC06NewConnection(p, &sinkStream{})}
		return "ok"
	case f[0] == "request" && len(f) == 3:
		c, t := w.conns[f[1]], shortType[f[2]]
		if c == nil || t == "" {
			return "bad-op"
		}
		req := &discovery.DiscoveryRequest{TypeUrl: t, ResourceNames: w.resourceNames(c.p, f[2])}
		if err := pxds.VerifC06ProcessRequest(s.Discovery, req, c.con); err != nil {
			return "err"
		}
		return "ok"
	case f[0] == "change" && len(f) == 3:
		n, _ := strconv.Atoi(f[2])
		before := s.Discovery.InboundUpdates.Load()
		key, ok := w.changeConfig(f[1], n)
		if !ok {
			return "ok" // the world variant dropped this config
		}
		// wait until the server's own (asynchronous) handler/debounce/push pipeline has seen the store event
		// and has published it, and stays quiet - otherwise its push would race with the following ops
		deadline := time.Now().Add(5 * time.Second)
		for s.Discovery.InboundUpdates.Load() == before && time.Now().Before(deadline) {
			time.Sleep(200 * time.Microsecond)
		}
		deadline = time.Now().Add(20 * time.Second)
		for time.Now().Before(deadline) {
			seen := s.Discovery.InboundUpdates.Load()
			if s.Discovery.CommittedUpdates.Load() < seen {
				time.Sleep(500 * time.Microsecond)
				continue
			}
			time.Sleep(3 * time.Millisecond)
			if s.Discovery.InboundUpdates.Load() == seen && s.Discovery.CommittedUpdates.Load() >= seen {
				break
			}
		}
		req := &model.PushRequest{ConfigsUpdated: sets.New(key), Reason: model.NewReasonStats(model.ConfigUpdate)}
		s.Discovery.Push(req) // real initPushContext (new context, Clear, publish) + StartPush (stamps Start)
		w.lastReq = req
		return "ok"
	case f[0] == "push" && len(f) == 2:
		c := w.conns[f[1]]
		if c == nil {
			return "bad-op"
		}
		req := w.lastReq
		if req == nil {
			req = &model.PushRequest{Push: s.PushContext(), Start: time.Now(), Forced: true}
		}
		if err := pxds.VerifC06PushConnection(s.Discovery, c.con, req); err != nil {
			return "err"
		}
		return "ok"
	case f[0] == "dump" && len(f) == 2:
		c := w.conns[f[1]]
		if c == nil {
			return "bad-op"
		}
		if os.Getenv("C06_DEBUG") != "" {
			fmt.Fprintln(os.Stderr, "dump: proxy ctx", c.p.LastPushContext.PushVersion, "global", s.PushContext().PushVersion, "cds keys", len(s.Discovery.Cache.Keys(model.CDSType)))
		}
		if err := pxds.VerifC06ConfigDump(s.Discovery, c.con, true); err != nil {
			return "err"
		}
		return "ok"
	case f[0] == "check" && len(f) == 2:
		c := w.conns[f[1]]
		if c == nil {
			return "bad-op"
		}
		w.nreader++
		reader := w.proxy(c.attrs, fmt.Sprintf("reader%d", w.nreader))
		gens := s.Discovery.Generators
		warm := w.generateWith(gens[v3.ClusterType], gens[v3.EndpointType], gens[v3.RouteType], reader)
		cold := w.generateWith(w.cdsU, w.edsU, w.rdsU, reader)
		if os.Getenv("C06_DEBUG") != "" {
			n := "cds/outbound|80||a.example.com"
			fmt.Fprintln(os.Stderr, "check warm:", fmt.Sprint(warm[n])[:0], protoField(warm[n]), "cold:", protoField(cold[n]))
		}
		if d := diffOutputs(warm, cold); d != "" {
			return "diff:" + d
		}
		return "eq"
	}
	return "bad-op"
}

var changeable = []string{"dr-a", "dr-b", "dr-a-nsb", "dr-sel", "vs-a", "vs-b"}

func genWriters(seed uint64, n int, path string) {
	out := wire.Create(path)
	defer out.Close()
	r := wire.NewRng(seed*131 + 0x77726974)
	for c := 0; c < n; c++ {
		world := 0
		if c > 0 && r.Chance(1, 2) {
			world = r.Intn(256) & r.Intn(256)
		}
		out.Line("case", strconv.Itoa(c), strconv.Itoa(world))
		ids := []string{"x", "y", "z"}[:1+r.Intn(3)]
		for _, id := range ids {
			out.Line("connect", id, strconv.Itoa(r.Intn(4)))
		}
		nops := 6 + r.Intn(25)
		ver := 0
		for i := 0; i < nops; i++ {
			id := wire.Pick(r, ids)
			switch x := r.Intn(100); {
			case x < 25:
				out.Line("request", id, wire.Pick(r, []string{"cds", "eds", "rds"}))
			case x < 45:
				ver++
				out.Line("change", wire.Pick(r, changeable), strconv.Itoa(ver))
			case x < 60:
				out.Line("push", id)
			case x < 75:
				out.Line("dump", id)
			default:
				out.Line("check", id)
			}
		}
		for _, id := range ids {
			out.Line("check", id)
		}
	}
}

func execWriters(opsPath, outPath string) {
	all := wire.ReadLines(opsPath)
	out := wire.Create(outPath)
	defer out.Close()
	var w *writersWorld
	for _, f := range all {
		func() {
			defer func() {
				if r := recover(); r != nil {
					out.Line("crash")
					fmt.Fprintln(os.Stderr, "c06 writers: panic:", r)
				}
			}()
			if f[0] == "case" && len(f) == 3 {
				if w != nil {
					w.close()
				}
				wv, _ := strconv.Atoi(f[2])
				w = newWritersWorld(wv)
				out.Line("ok")
				return
			}
			if w == nil {
				out.Line("bad-op")
				return
			}
			out.Line(w.apply(f))
		}()
		out.Flush()
	}
	if w != nil {
		w.close()
	}
}

// oracleWriters: the property clause is what `check` evaluates; the oracle replays the case and adds a
// final check for every connection.
func oracleWriters(opsPath, outPath string) {
	all := wire.ReadLines(opsPath)
	out := wire.Create(outPath)
	defer out.Close()
	for _, c := range splitCases(all) {
		verdict := "OK"
		func() {
			defer func() {
				if r := recover(); r != nil {
					verdict = "FAIL crash"
				}
			}()
			if len(c[0]) != 3 || c[0][0] != "case" {
				return
			}
			wv, _ := strconv.Atoi(c[0][2])
			w := newWritersWorld(wv)
			defer w.close()
			var hist []string
			for i, f := range c[1:] {
				res := w.apply(f)
				hist = append(hist, f[0])
				if len(res) > 5 && res[:5] == "diff:" {
					verdict = fmt.Sprintf("FAIL stale-after-%s op=%d %s", lastWriter(hist), i+1, res)
					return
				}
			}
			for id := range w.conns {
				if res := w.apply([]string{"check", id}); res != "eq" && res != "bad-op" {
					verdict = fmt.Sprintf("FAIL stale-after-%s final %s", lastWriter(hist), res)
					return
				}
			}
		}()
		out.Line(verdict)
		out.Flush()
	}
}

// lastWriter names the most recent cache-writing code path other than the checks themselves.
func lastWriter(hist []string) string {
	for i := len(hist) - 1; i >= 0; i-- {
		switch hist[i] {
		case "dump", "request", "push":
			return hist[i]
		}
	}
	return "none"
}

var _ = config.Config{}

func protoField(m proto.Message) string {
	if m == nil {
		return "<nil>"
	}
	c, ok := m.(*clusterv3.Cluster)
	if !ok {
		return "?"
	}
	return fmt.Sprint(c.GetCircuitBreakers().GetThresholds())
}
