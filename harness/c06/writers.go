package main

// Stream `writers`: validation (not proof) of the two system hypotheses of theorems never_stale / cache_invisible
// on the REAL code, on sequential schedules (no goroutine races):
//
//   - "writers are coherent": the code paths that write to the cache on behalf of a connection pair a
//     snapshot with a Start that is not newer than an invalidation the snapshot does not reflect;
//   - "GenLocal + in-sync invalidation": every config (or endpoint set) generation reads is named by
//     DependentConfigs() of the entry, and every accepted change of it reaches Clear / ClearAll.
//
//	case <n> <world>
//	connect <id> <base> [delta]  a proxy + bare SotW (or delta) Connection; LastPushContext = global (as initConnection)
//	request <id> <cds|eds|rds|sds>  real processRequest / processDeltaRequest: pair (LastPushContext, LastPushTime)
//	change <cfg> <n>             a config is rewritten in the store (DestinationRule pool size, VirtualService
//	                             retries, ServiceEntry endpoint address / extra port, EnvoyFilter patch value,
//	                             PeerAuthentication mode) or a Kubernetes Secret is rotated; after the server's own
//	                             handler -> ConfigUpdate -> debounce -> Push pipeline has settled the real
//	                             DiscoveryServer.Push runs once more for that key (real StartPush pair for `push`)
//	toggle <cfg>                 the config is deleted from / re-created in the store (DR, VS, Sidecar, EnvoyFilter)
//	epupdate <svc> <n>           real DiscoveryServer.EDSUpdate with one address changed (index update, the real choice of
//	                             the config kind, the real ConfigUpdate -> debounce -> Push)
//	epcache <svc> <n>            real DiscoveryServer.EDSCacheUpdate (index only) and NO push yet: the window between an
//	                             endpoint event and the full push the registry requests afterwards
//	addrupdate <n>               an address of the ambient index becomes / stops being HBONE capable and the index
//	                             reports it: real DiscoveryServer.ConfigUpdate with a key of kind Address
//	push <id>                    real pushConnection / pushConnectionDelta with the request of the last `change`
//	dump <id>                    real connectionConfigDump (body of /debug/config_dump?proxyID=)
//	dumptypes <id>               real getConfigDumpByResourceType(con, nil, ...) (…&types=cds,rds,eds,sds)
//	warm <id>                    the connection requests cds, eds, rds, sds (real processRequest / processDeltaRequest)
//	check <id>                   the property: a PASSIVE reader (zero Start: its Adds are no-ops, only the real writers
//	                             fill the cache) with the attributes of <id> and the CURRENT global context generates CDS+EDS+RDS+SDS through the server's generators (shared
//	                             cache) and through uncached twins; answer eq | diff:<resource>
//
// The Lean driver (spec side, theorems never_stale / cache_invisible) answers `eq` for every check.

import (
	"context"
	"errors"
	"fmt"
	"os"
	"sort"
	"strconv"
	"strings"
	"sync"
	"time"

	clusterv3 "github.com/envoyproxy/go-control-plane/envoy/config/cluster/v3"
	discovery "github.com/envoyproxy/go-control-plane/envoy/service/discovery/v3"
	"google.golang.org/grpc/metadata"
	"google.golang.org/protobuf/proto"
	"google.golang.org/protobuf/types/known/durationpb"
	"google.golang.org/protobuf/types/known/structpb"
	metav1 "k8s.io/apimachinery/pkg/apis/meta/v1"

	meshconfig "istio.io/api/mesh/v1alpha1"
	networking "istio.io/api/networking/v1alpha3"
	securityv1 "istio.io/api/security/v1beta1"
	"istio.io/istio/pilot/pkg/config/kube/crd"
	"istio.io/istio/pilot/pkg/model"
	pxds "istio.io/istio/pilot/pkg/xds"
	v3 "istio.io/istio/pilot/pkg/xds/v3"
	"istio.io/istio/pilot/test/xdstest"
	"istio.io/istio/pkg/config"
	"istio.io/istio/pkg/config/mesh/meshwatcher"
	"istio.io/istio/pkg/config/schema/gvk"
	"istio.io/istio/pkg/config/schema/kind"
	"istio.io/istio/pkg/util/sets"
	"istio.io/istio/pkg/workloadapi"
	"verifharness/internal/wire"
)

// recCache is a transparent wrapper around the server's shared XdsCache (server, generators and SecretGen all go
// through it): it records the key sets the server's OWN pipeline hands to Clear (dropCacheForRequest: exactly the
// ConfigsUpdated of the request the real handlers and the real debounce produced), its ClearAll calls, and the hits
// and misses of Get per xDS type. Nothing is changed.
type recCache struct {
	model.XdsCache
	mu        sync.Mutex
	mute      bool // the harness's own follow-up Push is running
	inAddr    bool // the synchronous ClearAll of ConfigUpdate(kind Address) is running
	keys      sets.Set[model.ConfigKey]
	forced    bool
	addrClear int
	hits      map[string]int
	misses    map[string]int
}

func newRecCache(inner model.XdsCache) *recCache {
	return &recCache{XdsCache: inner, keys: sets.New[model.ConfigKey](), hits: map[string]int{}, misses: map[string]int{}}
}

func (r *recCache) Clear(s sets.Set[model.ConfigKey]) {
	r.XdsCache.Clear(s)
	r.mu.Lock()
	if !r.mute {
		r.keys.Merge(s)
	}
	r.mu.Unlock()
}

func (r *recCache) ClearAll() {
	r.XdsCache.ClearAll()
	r.mu.Lock()
	switch {
	case r.inAddr:
		r.addrClear++
	case !r.mute:
		r.forced = true
	}
	r.mu.Unlock()
}

func (r *recCache) Get(e model.XdsCacheEntry) *discovery.Resource {
	res := r.XdsCache.Get(e)
	r.mu.Lock()
	if res != nil {
		r.hits[e.Type()]++
	} else {
		r.misses[e.Type()]++
	}
	r.mu.Unlock()
	return res
}

// take returns what the server's pipeline has invalidated since the last call.
func (r *recCache) take() (keys sets.Set[model.ConfigKey], forced bool) {
	r.mu.Lock()
	defer r.mu.Unlock()
	keys, forced = r.keys, r.forced
	r.keys, r.forced = sets.New[model.ConfigKey](), false
	return keys, forced
}

func (r *recCache) counts() (hits, misses map[string]int) {
	r.mu.Lock()
	defer r.mu.Unlock()
	hits, misses = map[string]int{}, map[string]int{}
	for k, v := range r.hits {
		hits[k] = v
	}
	for k, v := range r.misses {
		misses[k] = v
	}
	return hits, misses
}

// ambientStub is the ambient index of the world: model.NoopAmbientIndexes (what a server without ambient has) except
// that the addresses in `hbone` are workloads that accept HBONE. Generation (endpoints.supportTunnel) asks it through
// PushContext.SupportsTunnel - dynamically, not through the push context snapshot.
type ambientStub struct {
	model.NoopAmbientIndexes
	mu    sync.Mutex
	hbone map[string]bool
}

func (a *ambientStub) AddressInformation(addrs sets.String) ([]model.AddressInfo, sets.String) {
	a.mu.Lock()
	defer a.mu.Unlock()
	var out []model.AddressInfo
	for addr := range addrs {
		if a.hbone[addr] {
			out = append(out, model.AddressInfo{Address: &workloadapi.Address{Type: &workloadapi.Address_Workload{
				Workload: &workloadapi.Workload{Uid: "verif/" + addr, TunnelProtocol: workloadapi.TunnelProtocol_HBONE},
			}}})
		}
	}
	return out, nil
}

// The service cl.default.svc.cluster.local has a waypoint (the HTTP port of a.example.com) and asks ingress gateways to
// use it: ROUTERS get the waypoint's endpoints for its EDS cluster, sidecars its own (EndpointBuilder.findServiceWaypoint:
// the proxy type decides).
func (a *ambientStub) ServicesWithWaypoint(key string) []model.ServiceWaypointInfo {
	if os.Getenv("C06_WAYPOINT") == "" || key != "default/cl.default.svc.cluster.local" { // off by default, see notes/C06.md round 5
		return nil
	}
	return []model.ServiceWaypointInfo{{
		Service: &workloadapi.Service{Name: "cl", Namespace: "default", Hostname: "cl.default.svc.cluster.local",
			Waypoint: &workloadapi.GatewayAddress{HboneMtlsPort: 80}},
		IngressUseWaypoint: true,
		WaypointHostname:   "a.example.com",
	}}
}

func (a *ambientStub) toggle(addr string) {
	a.mu.Lock()
	defer a.mu.Unlock()
	if a.hbone == nil {
		a.hbone = map[string]bool{}
	}
	a.hbone[addr] = !a.hbone[addr]
}

// statistics for the evidence (stream writers, exec only): what the generated ops actually did
var wstats = map[string]int{}

type sinkBase struct{}

func (s *sinkBase) SetHeader(metadata.MD) error  { return nil }
func (s *sinkBase) SendHeader(metadata.MD) error { return nil }
func (s *sinkBase) SetTrailer(metadata.MD)       {}
func (s *sinkBase) Context() context.Context     { return context.Background() }
func (s *sinkBase) SendMsg(any) error            { return nil }
func (s *sinkBase) RecvMsg(any) error            { return nil }

type sinkStream struct{ sinkBase }

func (s *sinkStream) Send(*discovery.DiscoveryResponse) error    { return nil }
func (s *sinkStream) Recv() (*discovery.DiscoveryRequest, error) { return nil, errors.New("eof") }

type sinkDeltaStream struct {
	sinkBase
	mu   sync.Mutex
	sent map[string]int // responses sent, per type URL
}

func (s *sinkDeltaStream) Send(r *discovery.DeltaDiscoveryResponse) error {
	s.mu.Lock()
	if s.sent == nil {
		s.sent = map[string]int{}
	}
	s.sent[r.TypeUrl]++
	s.mu.Unlock()
	return nil
}

func (s *sinkDeltaStream) count(typeURL string) int {
	s.mu.Lock()
	defer s.mu.Unlock()
	return s.sent[typeURL]
}
func (s *sinkDeltaStream) Recv() (*discovery.DeltaDiscoveryRequest, error) {
	return nil, errors.New("eof")
}

type savedShard struct {
	key model.ShardKey
	eps []*model.IstioEndpoint
}

type wconn struct {
	attrs pattrs
	p     *model.Proxy
	con   *pxds.Connection
	delta bool
	dsink *sinkDeltaStream
	subs  map[string]int // delta: how many names of a type are subscribed

	pending *model.PushRequest // what the push queue holds for this connection
}

type writersWorld struct {
	*keysWorld
	conns         map[string]*wconn
	deleted       map[string]config.Config // configs currently removed by `toggle`
	pendingForced bool
	pendingEp     []model.ConfigKey     // EDSCacheUpdate ops whose registry ConfigUpdate (a full push for the service) is still to come
	savedEps      map[string]savedShard // endpoint ops: the shard key and endpoints a service had when first touched
	meshN         int
	nreader       int
}

func newWritersWorld(variant int) *writersWorld {
	return &writersWorld{keysWorld: newKeysWorld(variant), conns: map[string]*wconn{}, deleted: map[string]config.Config{},
		savedEps: map[string]savedShard{}}
}

var shortType = map[string]string{"cds": v3.ClusterType, "eds": v3.EndpointType, "rds": v3.RouteType, "sds": v3.SecretType}

var sdsNames = []string{"kubernetes://tls-a", "kubernetes://tls-a-cacert", "kubernetes://ns-b/tls-a", "kubernetes://default/tls-a", "kubernetes://missing",
	"kubernetes://tls-b", "kubernetes://tls-b-cacert", "configmap://default/ca-cm-cacert", "kubernetes-gateway://default/tls-a"}

func (w *keysWorld) resourceNames(p *model.Proxy, typ string) []string {
	switch typ {
	case "eds":
		return xdstest.ExtractEdsClusterNames(w.s.Clusters(p)) // uncached helper generator, only to learn the names
	case "rds":
		return xdstest.ExtractRoutesFromListeners(w.s.Listeners(p))
	case "sds":
		return sdsNames
	}
	return nil
}

// where the named configs of the mesh live
var cfgHome = map[string]struct {
	gvk config.GroupVersionKind
	ns  string
}{
	"dr-a": {gvk.DestinationRule, "default"}, "dr-b": {gvk.DestinationRule, "ns-b"}, "dr-a-nsb": {gvk.DestinationRule, "ns-b"},
	"dr-sel": {gvk.DestinationRule, "default"}, "dr-dns": {gvk.DestinationRule, "default"},
	"dr-hash": {gvk.DestinationRule, "default"}, "dr-tls": {gvk.DestinationRule, "default"}, "dr-new": {gvk.DestinationRule, "default"},
	"dr-a-sel": {gvk.DestinationRule, "default"}, "dr-b2": {gvk.DestinationRule, "ns-b"},
	"vs-new": {gvk.VirtualService, "default"}, "ef-new": {gvk.EnvoyFilter, "default"}, "vs-new-b": {gvk.VirtualService, "default"},
	"se-new": {gvk.ServiceEntry, "default"}, "pa-new": {gvk.PeerAuthentication, "default"}, "sc-new": {gvk.Sidecar, "default"},
	"pa-sel": {gvk.PeerAuthentication, "default"}, "sc-paview": {gvk.Sidecar, "default"},
	"vs-a": {gvk.VirtualService, "default"}, "vs-b": {gvk.VirtualService, "ns-b"}, "vs-c-src": {gvk.VirtualService, "default"},
	"vs-hb-srcns": {gvk.VirtualService, "istio-system"},
	"sc-b":        {gvk.Sidecar, "ns-b"}, "sc-reg": {gvk.Sidecar, "default"}, "sc-labelled": {gvk.Sidecar, "default"},
	"sc-egress": {gvk.Sidecar, "default"}, "sc-any": {gvk.Sidecar, "default"},
	"ef-labels": {gvk.EnvoyFilter, "default"}, "ef-version": {gvk.EnvoyFilter, "istio-system"},
	"se-a": {gvk.ServiceEntry, "default"}, "se-b": {gvk.ServiceEntry, "ns-b"}, "se-c": {gvk.ServiceEntry, "default"},
	"se-dns":     {gvk.ServiceEntry, "default"},
	"pa-default": {gvk.PeerAuthentication, "istio-system"}, "pa-nsb": {gvk.PeerAuthentication, "ns-b"},
}

// configs that do not exist in the mesh: the first `toggle` CREATES them (a new name enters keys and dependency lists)
const cfgTemplates = `
apiVersion: networking.istio.io/v1
kind: VirtualService
metadata: {name: vs-new, namespace: default}
spec:
  hosts: [tls.example.com]
  http:
  - route: [{destination: {host: tls.example.com}}]
    timeout: 6s
---
apiVersion: networking.istio.io/v1
kind: DestinationRule
metadata: {name: dr-new, namespace: default}
spec:
  host: b.example.com
  exportTo: ["."]
  trafficPolicy:
    connectionPool: {tcp: {maxConnections: 17}}
---
apiVersion: networking.istio.io/v1alpha3
kind: EnvoyFilter
metadata: {name: ef-new, namespace: default}
spec:
  configPatches:
  - applyTo: CLUSTER
    match: {context: SIDECAR_OUTBOUND}
    patch:
      operation: MERGE
      value: {connect_timeout: 13s}
---
apiVersion: networking.istio.io/v1
kind: ServiceEntry
metadata: {name: se-new, namespace: default}
spec:
  hosts: [new.example.com]
  ports:
  - {number: 80, name: http, protocol: HTTP}
  resolution: STATIC
  location: MESH_INTERNAL
  endpoints:
  - {address: 10.7.0.1, locality: region1/zone1/sub1, network: net1}
  - {address: 10.7.1.1, locality: region2/zone1/sub1, network: net2}
---
apiVersion: security.istio.io/v1
kind: PeerAuthentication
metadata: {name: pa-new, namespace: default}
spec:
  mtls: {mode: DISABLE}
---
apiVersion: security.istio.io/v1
kind: PeerAuthentication
metadata: {name: pa-sel, namespace: default}
spec:
  selector: {matchLabels: {app: a, version: v1}}
  mtls: {mode: DISABLE}
---
apiVersion: networking.istio.io/v1
kind: Sidecar
metadata: {name: sc-new, namespace: default}
spec:
  egress:
  - hosts: ["./*", "ns-b/*"]
---
apiVersion: networking.istio.io/v1
kind: VirtualService
metadata: {name: vs-new-b, namespace: default}
spec:
  hosts: [b.example.com]
  http:
  - route: [{destination: {host: b.example.com}}]
    timeout: 8s
`

func templateFor(name string) (config.Config, bool) {
	cfgs, _, err := crd.ParseInputs(cfgTemplates)
	if err != nil {
		panic(err)
	}
	for _, c := range cfgs {
		if c.Name == name {
			return c, true
		}
	}
	return config.Config{}, false
}

var secretTargets = map[string][2]string{
	"secret": {"default", "tls-a"}, "secret-b": {"default", "tls-b"}, "secret-nsb": {"ns-b", "tls-a"}, "secret-cacert": {"default", "tls-a-cacert"},
}

func cfgName(which string) string {
	switch which {
	case "pa-default":
		return "default"
	case "pa-nsb":
		return "nsb"
	}
	return which
}

func kindOf(g config.GroupVersionKind) kind.Kind { return kind.FromString(g.Kind) }

// changeConfig rewrites one knob of a config of the mesh. ok=false: the world does not have it (any more).
func (w *writersWorld) changeConfig(which string, n int) (model.ConfigKey, bool) {
	store := w.s.Store()
	if which == "configmap" {
		cl := w.sdsClients["Kubernetes"]
		cm, err := cl.Kube().CoreV1().ConfigMaps("default").Get(context.Background(), "ca-cm", metav1.GetOptions{})
		if err != nil {
			panic(err)
		}
		cm = cm.DeepCopy()
		cm.Data["ca.crt"] = fmt.Sprintf("ca-from-configmap-%d", n)
		if _, err := cl.Kube().CoreV1().ConfigMaps("default").Update(context.Background(), cm, metav1.UpdateOptions{}); err != nil {
			panic(err)
		}
		return model.ConfigKey{Kind: kind.ConfigMap, Name: "ca-cm", Namespace: "default"}, true
	}
	if which == "secret-toggle" { // delete / re-create the Secret default/tls-b
		cl := w.sdsClients["Kubernetes"].Kube().CoreV1().Secrets("default")
		if _, err := cl.Get(context.Background(), "tls-b", metav1.GetOptions{}); err == nil {
			if err := cl.Delete(context.Background(), "tls-b", metav1.DeleteOptions{}); err != nil {
				panic(err)
			}
		} else {
			sec := mkSecret("default", "tls-b", map[string]string{"tls.crt": fmt.Sprintf("cert-b-%d", n), "tls.key": "key-b", "ca.crt": fmt.Sprintf("ca-b-%d", n)})
			if _, err := cl.Create(context.Background(), sec, metav1.CreateOptions{}); err != nil {
				panic(err)
			}
		}
		return model.ConfigKey{Kind: kind.Secret, Name: "tls-b", Namespace: "default"}, true
	}
	if sec, ok := secretTargets[which]; ok {
		cl := w.sdsClients["Kubernetes"]
		cur, err := cl.Kube().CoreV1().Secrets(sec[0]).Get(context.Background(), sec[1], metav1.GetOptions{})
		if err != nil {
			return model.ConfigKey{}, false // currently deleted by secret-toggle
		}
		cur = cur.DeepCopy()
		for k := range cur.Data { // every field, including ca.crt / cacert (the compound `-cacert` relation)
			cur.Data[k] = []byte(fmt.Sprintf("%s-%s-%s-%d", k, sec[0], sec[1], n))
		}
		if _, err := cl.Kube().CoreV1().Secrets(sec[0]).Update(context.Background(), cur, metav1.UpdateOptions{}); err != nil {
			panic(err)
		}
		return model.ConfigKey{Kind: kind.Secret, Name: sec[1], Namespace: sec[0]}, true
	}
	base := which
	switch which {
	case "se-a-ep", "se-a-port", "se-a-addr":
		base = "se-a"
	case "se-c-addr":
		base = "se-c"
	case "dr-a-subset":
		base = "dr-a"
	case "dr-b2-subset":
		base = "dr-b2"
	case "se-dns-ep", "se-dns-res", "se-dns-san":
		base = "se-dns"
	case "se-b-ep":
		base = "se-b"
	}
	home, known := cfgHome[base]
	if !known {
		return model.ConfigKey{}, false
	}
	cur := store.Get(home.gvk, cfgName(base), home.ns)
	if cur == nil {
		return model.ConfigKey{}, false
	}
	c := cur.DeepCopy()
	key := model.ConfigKey{Kind: kindOf(home.gvk), Name: cfgName(base), Namespace: home.ns}
	switch spec := c.Spec.(type) {
	case *networking.DestinationRule:
		if spec.TrafficPolicy == nil {
			spec.TrafficPolicy = &networking.TrafficPolicy{}
		}
		switch which {
		case "dr-hash": // the hash policy of the ROUTES of hb.example.com comes from this DestinationRule
			spec.TrafficPolicy.LoadBalancer = &networking.LoadBalancerSettings{LbPolicy: &networking.LoadBalancerSettings_ConsistentHash{
				ConsistentHash: &networking.LoadBalancerSettings_ConsistentHashLB{
					HashKey: &networking.LoadBalancerSettings_ConsistentHashLB_HttpHeaderName{HttpHeaderName: fmt.Sprintf("x-user-%d", n)},
				},
			}}
		case "dr-b2-subset": // the SECOND rule of a merged DestinationRule (dr-b + dr-b2): the pool of its subset cluster
			for _, ss := range spec.Subsets {
				ss.TrafficPolicy = &networking.TrafficPolicy{ConnectionPool: &networking.ConnectionPoolSettings{
					Tcp: &networking.ConnectionPoolSettings_TCPSettings{MaxConnections: int32(200 + n)}}}
			}
		case "dr-a-subset": // the ENDPOINTS of the subset clusters of a.example.com are selected by these labels
			for _, ss := range spec.Subsets {
				if ss.Name == "v1" {
					if ss.Labels["version"] == "v1" {
						ss.Labels = map[string]string{"version": "v2"}
					} else {
						ss.Labels = map[string]string{"version": "v1"}
					}
				}
			}
		default:
			spec.TrafficPolicy.ConnectionPool = &networking.ConnectionPoolSettings{Tcp: &networking.ConnectionPoolSettings_TCPSettings{MaxConnections: int32(100 + n)}}
		}
	case *networking.VirtualService:
		for _, h := range spec.Http {
			h.Retries = &networking.HTTPRetry{Attempts: int32(3 + n%5)} // (the default policy has 2 attempts)
		}
	case *networking.ServiceEntry:
		switch which {
		case "se-a-port":
			if len(spec.Ports) > 2 {
				spec.Ports = spec.Ports[:2]
			} else {
				spec.Ports = append(spec.Ports, &networking.ServicePort{Number: 9100, Name: "http-extra", Protocol: "HTTP"})
			}
		case "se-dns-ep": // the endpoints of a DNS service are part of its CDS cluster
			spec.Endpoints[0].Address = fmt.Sprintf("host%d.example.net", n)
		case "se-dns-res":
			if spec.Resolution == networking.ServiceEntry_DNS {
				spec.Resolution = networking.ServiceEntry_DNS_ROUND_ROBIN
			} else {
				spec.Resolution = networking.ServiceEntry_DNS
			}
		case "se-dns-san":
			spec.SubjectAltNames = []string{fmt.Sprintf("spiffe://cluster.local/ns/default/sa/dns%d", n)}
		case "se-a-addr", "se-c-addr":
			// the VIP of the service: it becomes a virtual host domain and a listener address, the host stays
			spec.Addresses = []string{fmt.Sprintf("10.60.%d.%d", (n/200)%200, 1+n%200)}
		default:
			spec.Endpoints[0].Address = fmt.Sprintf("10.250.%d.%d", (n/200)%200, 1+n%200)
		}
		key = model.ConfigKey{Kind: kind.ServiceEntry, Name: spec.Hosts[0], Namespace: home.ns}
	case *networking.EnvoyFilter:
		for _, p := range spec.ConfigPatches {
			if p.Patch != nil && p.Patch.Value != nil {
				if _, ok := p.Patch.Value.Fields["connect_timeout"]; ok { // CLUSTER patch
					p.Patch.Value.Fields["connect_timeout"] = structpb.NewStringValue(fmt.Sprintf("%ds", 20+n%30))
				}
				if r := p.Patch.Value.Fields["route"].GetStructValue(); r != nil { // HTTP_ROUTE patch
					if _, ok := r.Fields["timeout"]; ok {
						r.Fields["timeout"] = structpb.NewStringValue(fmt.Sprintf("%ds", 30+n%30))
					}
				}
			}
		}
	case *securityv1.PeerAuthentication:
		modes := []securityv1.PeerAuthentication_MutualTLS_Mode{securityv1.PeerAuthentication_MutualTLS_STRICT,
			securityv1.PeerAuthentication_MutualTLS_PERMISSIVE, securityv1.PeerAuthentication_MutualTLS_DISABLE}
		next := modes[n%3]
		if spec.Mtls != nil && spec.Mtls.Mode == next {
			next = modes[(n+1)%3]
		}
		spec.Mtls = &securityv1.PeerAuthentication_MutualTLS{Mode: next}
	default:
		return model.ConfigKey{}, false
	}
	if _, err := store.Update(c); err != nil {
		panic(err)
	}
	return key, true
}

// toggleConfig deletes the config from the store, or re-creates it when a previous toggle deleted it.
func (w *writersWorld) toggleConfig(which string) (model.ConfigKey, bool) {
	home, known := cfgHome[which]
	if !known {
		return model.ConfigKey{}, false
	}
	store := w.s.Store()
	key := model.ConfigKey{Kind: kindOf(home.gvk), Name: cfgName(which), Namespace: home.ns}
	if old, gone := w.deleted[which]; gone {
		old.ResourceVersion = ""
		if _, err := store.Create(old); err != nil {
			panic(err)
		}
		delete(w.deleted, which)
		return key, true
	}
	cur := store.Get(home.gvk, cfgName(which), home.ns)
	if cur == nil {
		if tmpl, ok := templateFor(which); ok {
			if _, err := store.Create(tmpl); err != nil {
				panic(err)
			}
			return key, true
		}
		return model.ConfigKey{}, false
	}
	w.deleted[which] = cur.DeepCopy()
	if err := store.Delete(home.gvk, cfgName(which), home.ns, nil); err != nil {
		panic(err)
	}
	return key, true
}

// settle waits until the server's own (asynchronous) handler/debounce/push pipeline has seen the event and has
// published it, and stays quiet - otherwise its push would race with the following ops.
func (w *writersWorld) settle(before int64) {
	w.waitQuiet(before)
	// The change has now been invalidated and published by the server's OWN pipeline only (ConfigsUpdated as computed by
	// the real handlers and merged by the real debounce): a `check` right after this op validates exactly that. What the
	// pipeline handed to Clear / ClearAll is remembered by the recording cache wrapper (flushPushes).
}

func (w *writersWorld) waitQuiet(before int64) {
	s := w.s
	deadline := time.Now().Add(5 * time.Second)
	for s.Discovery.InboundUpdates.Load() == before && time.Now().Before(deadline) {
		time.Sleep(200 * time.Microsecond)
	}
	deadline = time.Now().Add(20 * time.Second)
	for time.Now().Before(deadline) {
		seen := s.Discovery.InboundUpdates.Load()
		if s.Discovery.CommittedUpdates.Load() < seen {
			time.Sleep(500 * time.Microsecond)
			continue
		}
		time.Sleep(3 * time.Millisecond)
		if s.Discovery.InboundUpdates.Load() == seen && s.Discovery.CommittedUpdates.Load() >= seen {
			break
		}
	}
}

// flushEp issues the ConfigUpdate a registry sends after it has updated the endpoint index through EDSCacheUpdate /
// SvcUpdate (a full push for the service: a ServiceEntry-kind key, as the ServiceEntry and Kubernetes controllers do), or
// after a cluster was removed (kube multicluster: a Forced request), through the real ConfigUpdate -> debounce -> Push,
// and waits for it.
func (w *writersWorld) flushEp() {
	if len(w.pendingEp) == 0 && !w.pendingForced {
		return
	}
	keys := w.pendingEp
	w.pendingEp = nil
	before := w.s.Discovery.InboundUpdates.Load()
	if w.pendingForced {
		w.pendingForced = false
		w.s.Discovery.ConfigUpdate(&model.PushRequest{Reason: model.NewReasonStats(model.ClusterUpdate), Forced: true})
		w.waitQuiet(before)
		return
	}
	w.s.Discovery.ConfigUpdate(&model.PushRequest{ConfigsUpdated: sets.New(keys...), Reason: model.NewReasonStats(model.ServiceUpdate)})
	w.waitQuiet(before)
}

// flushPushes gives the connections the push requests for the changes accepted since the last call: the real Push runs
// once more for their keys (initPushContext + StartPush stamp the request; the server's own requests went to its empty
// client list and cannot be observed), and the request is merged into what is pending for every connection (real
// PushRequest.CopyMerge, as PushQueue.Enqueue does).
func (w *writersWorld) flushPushes() {
	keys, forced := w.rec.take() // ConfigsUpdated / Forced of the server's own requests, as dropCacheForRequest saw them
	if len(keys) == 0 && !forced {
		return
	}
	w.pushReq(&model.PushRequest{ConfigsUpdated: keys, Reason: model.NewReasonStats(model.ConfigUpdate), Forced: forced})
}

func (w *writersWorld) pushReq(req *model.PushRequest) {
	w.rec.mu.Lock()
	w.rec.mute = true
	w.rec.mu.Unlock()
	w.s.Discovery.Push(req) // real initPushContext (new context, dropCacheForRequest, publish) + StartPush (stamps Start)
	w.rec.mu.Lock()
	w.rec.mute = false
	w.rec.mu.Unlock()
	for _, c := range w.conns {
		c.pending = c.pending.CopyMerge(req)
	}
}

var epServices = map[string][2]string{
	"a": {"a.example.com", "default"}, "b": {"b.example.com", "ns-b"}, "hb": {"hb.example.com", "default"},
	"nl": {"nl.default.svc.cluster.local", "default"}, "dns": {"dns.example.com", "default"},
}

// shardOf finds (and remembers) the first shard of a service with its endpoints as the registries filled it.
func (w *writersWorld) shardOf(svc string) (hn [2]string, sh savedShard, ok bool) {
	hn, ok = epServices[svc]
	if !ok {
		return hn, sh, false
	}
	if sh, ok = w.savedEps[svc]; ok {
		return hn, sh, true
	}
	shards, found := w.s.Discovery.Env.EndpointIndex.ShardsForService(hn[0], hn[1])
	if !found {
		return hn, sh, false
	}
	shards.RLock()
	var keys []model.ShardKey
	for k := range shards.Shards {
		keys = append(keys, k)
	}
	sort.Slice(keys, func(i, j int) bool { return keys[i].String() < keys[j].String() })
	if len(keys) > 0 {
		sh.key = keys[0]
		for _, e := range shards.Shards[keys[0]] {
			sh.eps = append(sh.eps, e.DeepCopy())
		}
	}
	shards.RUnlock()
	if len(sh.eps) == 0 {
		return hn, sh, false
	}
	w.savedEps[svc] = sh
	return hn, sh, true
}

// epOp calls the real entry points of DiscoveryServer the registries use (model.XDSUpdater):
//
//	epupdate <svc> <n>  EDSUpdate with one address changed; n%4==0: with NO endpoints (-> DeleteServiceShard preserving
//	                    the keys -> deleteServiceInner). Index update, kind choice and ConfigUpdate are all the real code.
//	epnew <svc> <n>     EDSUpdate after a delete: GetOrCreateEndpointShard creates the shards again
//	epcache <svc> <n>   EDSCacheUpdate (index only); the registry's full push for the service follows LATER (flushEp), so a
//	                    `check` in between sees the window that only the index's own cache invalidation protects
//	epdelete <svc>      SvcUpdate(EventDelete) (service deleted: DeleteServiceShard(.., preserveKeys=false)); full push later
//	epprune <svc>       PruneShard (kube controller resync); Forced request later
//	epdelshard <svc>    RemoveShard (a whole registry/cluster goes away: DeleteShard -> ClearAll); Forced request later
func (w *writersWorld) epOp(op, svc string, n int) {
	hn, sh, ok := w.shardOf(svc)
	if !ok {
		return
	}
	ds := w.s.Discovery
	// the endpoints of a DNS-resolution service are inline in its CDS cluster: its registry never sends an
	// Endpoints-kind (incremental) update for it, only full pushes
	if svc == "dns" && (op == "epupdate" || op == "epnew") {
		op = "epcache"
	}
	later := func() {
		w.pendingEp = append(w.pendingEp, model.ConfigKey{Kind: kind.ServiceEntry, Name: hn[0], Namespace: hn[1]})
	}
	fresh := func() []*model.IstioEndpoint {
		var eps []*model.IstioEndpoint
		for _, e := range sh.eps {
			eps = append(eps, e.DeepCopy())
		}
		eps[0].Addresses = []string{fmt.Sprintf("10.251.%d.%d", (n/200)%200, 1+n%200)}
		return eps
	}
	wstats["ep/"+op+"/"+svc]++
	switch op {
	case "epupdate", "epnew":
		w.flushEp()
		before := ds.InboundUpdates.Load()
		if op == "epupdate" && n%4 == 0 {
			ds.EDSUpdate(sh.key, hn[0], hn[1], nil)
		} else {
			ds.EDSUpdate(sh.key, hn[0], hn[1], fresh())
		}
		if ds.InboundUpdates.Load() != before {
			w.settle(before)
		}
	case "epcache":
		ds.EDSCacheUpdate(sh.key, hn[0], hn[1], fresh())
		later()
	case "epdelete":
		ds.SvcUpdate(sh.key, hn[0], hn[1], model.EventDelete)
		later()
	case "epprune":
		ds.PruneShard(sh.key, map[string]sets.String{})
		w.pendingForced = true
	case "epdelshard":
		ds.RemoveShard(sh.key)
		w.pendingForced = true
	}
}

// addresses of the ambient index the `addrupdate` op toggles (endpoints of a.example.com, b.example.com, hb.example.com)
var addrTargets = []string{"net1/10.0.0.2", "net1/10.1.0.2", "net1/10.4.0.2", "net1/10.0.0.1", "net2/10.0.1.2"}

// addrUpdate: a workload of the ambient index becomes (or stops being) HBONE capable, and the index reports it the way
// ambient.Index does: XDSUpdater.ConfigUpdate with a key of kind Address. Address information is looked up dynamically
// during generation (not through the push context snapshot), no cache entry declares it, no key carries it: the real
// DiscoveryServer.ConfigUpdate must invalidate for it.
func (w *writersWorld) addrUpdate(n int) {
	addr := addrTargets[n%len(addrTargets)]
	w.ambient.toggle(addr)
	before := w.s.Discovery.InboundUpdates.Load()
	w.rec.mu.Lock()
	w.rec.inAddr = true
	w.rec.mu.Unlock()
	w.s.Discovery.ConfigUpdate(&model.PushRequest{
		ConfigsUpdated: sets.New(model.ConfigKey{Kind: kind.Address, Name: addr}),
		Reason:         model.NewReasonStats(model.AmbientUpdate),
	})
	w.rec.mu.Lock()
	w.rec.inAddr = false
	w.rec.mu.Unlock()
	w.settle(before)
}

// meshChange: the mesh config changes (connect timeout of every cluster) together with a DestinationRule, and the
// debounce hands ONE merged request to Push - Forced (from the mesh handler, bootstrap.initMeshHandlers) with a
// non-empty ConfigsUpdated (from the config handler). Built with the real CopyMerge from the two requests those
// handlers create. dropCacheForRequest must ClearAll.
func (w *writersWorld) meshChange(n int, alone bool) {
	w.meshN = n
	tw, ok := w.s.Env().Watcher.(meshwatcher.TestWatcher)
	if !ok {
		return
	}
	m := proto.Clone(w.s.Env().Mesh()).(*meshconfig.MeshConfig)
	m.ConnectTimeout = durationpb.New(time.Duration(11+n%40) * time.Second)
	tw.Set(m)
	for i := 0; i < 2000 && w.s.Env().Mesh().GetConnectTimeout().GetSeconds() != int64(11+n%40); i++ {
		time.Sleep(100 * time.Microsecond)
	}
	forced := &model.PushRequest{Reason: model.NewReasonStats(model.GlobalUpdate), Forced: true}
	if alone {
		w.pushReq(forced)
		return
	}
	before := w.s.Discovery.InboundUpdates.Load()
	key, ok := w.changeConfig("dr-b", n)
	if !ok {
		key, ok = w.changeConfig("dr-a", n)
	}
	if !ok {
		w.pushReq(forced)
		return
	}
	w.settle(before)
	keys, _ := w.rec.take()
	keys.Insert(key)
	w.pushReq(forced.CopyMerge(&model.PushRequest{ConfigsUpdated: keys, Reason: model.NewReasonStats(model.ConfigUpdate)}))
}

// reader builds a proxy that is about to be served for the first time, the way the server does (real initConnection
// when the hook has it), so that it computes the same keys as the connections' writers.
func (w *writersWorld) reader(a pattrs, id string) *model.Proxy {
	if extAvailable {
		if _, p, err := extConnect(w.s.Discovery, nodeOf(a, id), false, &sinkDeltaStream{}); err == nil {
			p.VerifiedIdentity = identityOf(a)
			return p
		}
	}
	return w.proxy(a, id)
}

func (w *writersWorld) apply(f []string) string {
	s := w.s
	switch {
	case f[0] == "connect" && (len(f) == 3 || len(f) == 4):
		bv, _ := strconv.Atoi(f[2])
		a := basePattrs(bv)
		c := &wconn{attrs: a, delta: len(f) == 4 && f[3] == "delta" && extAvailable, subs: map[string]int{}}
		if extAvailable {
			// the REAL initConnection: initProxyMetadata from the xDS Node, LastPushContext, addCon, initializeProxy
			c.dsink = &sinkDeltaStream{}
			con, p, err := extConnect(s.Discovery, nodeOf(a, f[1]), c.delta, c.dsink)
			if err != nil {
				return "err"
			}
			p.VerifiedIdentity = identityOf(a)
			c.con, c.p = con, p
		} else {
			p := w.proxy(a, f[1])
			p.LastPushContext = s.PushContext()
			p.WatchedResources = map[string]*model.WatchedResource{}
			c.p, c.con = p, pxds.VerifC06NewConnection(p, &sinkStream{})
		}
		w.conns[f[1]] = c
		return "ok"
	case f[0] == "request" && len(f) == 3:
		c, t := w.conns[f[1]], shortType[f[2]]
		if c == nil || t == "" {
			return "bad-op"
		}
		var err error
		if c.delta {
			// a delta server answers a repeated request only when the subscription changes: subscribe the names
			// in chunks (and start over once everything is subscribed)
			names := w.resourceNames(c.p, f[2])
			sort.Sort(sort.Reverse(sort.StringSlice(names))) // ("80", the busiest route, comes in the last chunk)
			req := &discovery.DeltaDiscoveryRequest{TypeUrl: t}
			if len(names) > 0 {
				k := c.subs[f[2]]
				if k >= len(names) {
					if err := extProcessDelta(s.Discovery, &discovery.DeltaDiscoveryRequest{TypeUrl: t, ResourceNamesUnsubscribe: names}, c.con); err != nil {
						return "err"
					}
					k = 0
				}
				n := (len(names) + 1) / 2
				if k+n > len(names) {
					n = len(names) - k
				}
				req.ResourceNamesSubscribe = names[k : k+n]
				c.subs[f[2]] = k + n
			}
			edsBefore := c.dsink.count(v3.EndpointType)
			err = extProcessDelta(s.Discovery, req, c.con)
			if f[2] == "cds" && c.dsink.count(v3.EndpointType) > edsBefore {
				wstats["delta-cds-request-with-forceEDSPush"]++ // an EDS response to a CDS request: DiscoveryServer.forceEDSPush ran
			}
			if os.Getenv("C06_DEBUG") != "" {
				var names []string
				for _, e := range model.VerifC06Snapshot(w.rec.XdsCache, model.RDSType).Store {
					if e.Value != nil {
						names = append(names, fmt.Sprintf("%s@%d", e.Value.Name, e.Token%1000000000))
					}
				}
				fmt.Fprintln(os.Stderr, "delta request", f[2], "subscribe", req.ResourceNamesSubscribe, "err", err, "rds entries", names, "rds keys", len(s.Discovery.Cache.Keys(model.RDSType)),
					"ctx", c.p.LastPushContext.PushVersion, "global", s.PushContext().PushVersion, "lastpushtime", c.p.LastPushTime)
			}
		} else {
			err = pxds.VerifC06ProcessRequest(s.Discovery, &discovery.DiscoveryRequest{TypeUrl: t, ResourceNames: w.resourceNames(c.p, f[2])}, c.con)
		}
		if err != nil {
			return "err"
		}
		return "ok"
	case f[0] == "warm" && len(f) == 2:
		// the connection asks for everything (real processRequest / processDeltaRequest): the REAL writers fill the cache
		c := w.conns[f[1]]
		if c == nil {
			return "bad-op"
		}
		n := 1
		if c.delta {
			n = 2 // a delta connection subscribes half of the names per request
		}
		for _, t := range []string{"cds", "eds", "rds", "sds"} {
			for i := 0; i < n; i++ {
				if r := w.apply([]string{"request", f[1], t}); r != "ok" {
					return r
				}
			}
		}
		return "ok"
	case f[0] == "change" && len(f) == 3:
		w.flushEp()
		n, _ := strconv.Atoi(f[2])
		before := s.Discovery.InboundUpdates.Load()
		_, ok := w.changeConfig(f[1], n)
		if !ok {
			wstats["change-absent/"+f[1]]++
			return "ok" // the world variant dropped this config
		}
		wstats["change/"+f[1]]++
		w.settle(before)
		return "ok"
	case f[0] == "toggle" && len(f) == 2:
		w.flushEp()
		before := s.Discovery.InboundUpdates.Load()
		_, gone := w.deleted[f[1]]
		present := gone
		if home, known := cfgHome[f[1]]; known && !gone {
			present = s.Store().Get(home.gvk, cfgName(f[1]), home.ns) != nil
		}
		_, ok := w.toggleConfig(f[1])
		if !ok {
			return "ok"
		}
		switch {
		case gone:
			wstats["toggle-recreate/"+f[1]]++
		case present:
			wstats["toggle-delete/"+f[1]]++
		default:
			wstats["toggle-create/"+f[1]]++
		}
		w.settle(before)
		return "ok"
	case f[0] == "addrupdate" && len(f) == 2:
		w.flushEp()
		n, _ := strconv.Atoi(f[1])
		w.addrUpdate(n)
		wstats["addrupdate"]++
		return "ok"
	case (f[0] == "epupdate" || f[0] == "epnew" || f[0] == "epcache") && len(f) == 3:
		n, _ := strconv.Atoi(f[2])
		w.epOp(f[0], f[1], n)
		return "ok"
	case (f[0] == "epdelete" || f[0] == "epdelshard" || f[0] == "epprune") && len(f) == 2:
		w.epOp(f[0], f[1], 0)
		return "ok"
	case f[0] == "meshchange" && len(f) == 2:
		w.flushEp()
		n, _ := strconv.Atoi(f[1])
		w.meshChange(n, false)
		return "ok"
	case f[0] == "forcepush" && len(f) == 2:
		w.flushEp()
		n, _ := strconv.Atoi(f[1])
		w.meshChange(n, true)
		return "ok"
	case f[0] == "push" && len(f) == 2:
		c := w.conns[f[1]]
		if c == nil {
			return "bad-op"
		}
		w.flushEp()
		w.flushPushes()
		req := c.pending
		c.pending = nil
		if req == nil {
			return "ok" // nothing queued for this connection
		}
		var err error
		if c.delta {
			err = extPushDelta(s.Discovery, c.con, req)
		} else {
			err = pxds.VerifC06PushConnection(s.Discovery, c.con, req)
		}
		if err != nil {
			return "err"
		}
		return "ok"
	case f[0] == "pushstale" && len(f) == 2:
		// a push-queue worker took this connection's request BEFORE the latest changes were published and delivers it
		// only now: a push overtaken by a newer publish (computeProxyState then records the OLD context and its Start)
		c := w.conns[f[1]]
		if c == nil {
			return "bad-op"
		}
		req := c.pending
		c.pending = nil
		if req == nil {
			return "ok"
		}
		var err error
		if c.delta {
			err = extPushDelta(s.Discovery, c.con, req)
		} else {
			err = pxds.VerifC06PushConnection(s.Discovery, c.con, req)
		}
		if err != nil {
			return "err"
		}
		return "ok"
	case f[0] == "queue" && len(f) == 1:
		// StartPush for everything accepted so far: the requests reach the push queue of every connection
		w.flushEp()
		w.flushPushes()
		return "ok"
	case f[0] == "dump" && len(f) == 2:
		c := w.conns[f[1]]
		if c == nil {
			return "bad-op"
		}
		if err := pxds.VerifC06ConfigDump(s.Discovery, c.con, true); err != nil {
			return "err"
		}
		return "ok"
	case f[0] == "dumptypes" && len(f) == 2:
		c := w.conns[f[1]]
		if c == nil {
			return "bad-op"
		}
		extDumpTypes(s.Discovery, c.con, []string{v3.ClusterType, v3.RouteType, v3.EndpointType, v3.SecretType})
		return "ok"
	case f[0] == "check" && len(f) == 2:
		c := w.conns[f[1]]
		if c == nil {
			return "bad-op"
		}
		w.nreader++
		var reader *model.Proxy
		// Both generations must see ONE snapshot: if the server's asynchronous pipeline publishes a new push context
		// (a late event of an earlier change) while they run, wait for it to settle and compare again.
		var warm, cold map[string]proto.Message
		var h0, h1, m1 map[string]int
		for try := 0; try < 6; try++ {
			ctx0, in0 := s.PushContext(), s.Discovery.InboundUpdates.Load()
			reader = w.reader(c.attrs, fmt.Sprintf("reader%d-%d", w.nreader, try))
			h0, _ = w.rec.counts()
			warm = w.readWith(w.gens, reader) // passive: reads the cache, never writes it
			h1, m1 = w.rec.counts()
			cold = w.readWith(w.twins, reader)
			if s.PushContext() == ctx0 && s.Discovery.InboundUpdates.Load() == in0 && s.Discovery.CommittedUpdates.Load() >= in0 {
				break
			}
			w.waitQuiet(in0 - 1)
		}
		// a check whose reads are all cache misses validates nothing about the cache: count what was SERVED from it
		_ = m1
		total := 0
		for _, t := range typeOrder {
			d := h1[t] - h0[t]
			wstats["check-answers-served-from-cache/"+t] += d
			total += d
		}
		wstats["check"]++
		if total > 0 {
			wstats["check-with-cache-hits"]++
		} else {
			wstats["check-all-misses"]++
		}
		if os.Getenv("C06_DEBUG") == "addr" {
			fmt.Fprintln(os.Stderr, "EDS a:", cold["eds/outbound|80||a.example.com"])
		}
		if os.Getenv("C06_DEBUG") != "" {
			n := "cds/outbound|80||a.example.com"
			fmt.Fprintln(os.Stderr, "check warm:", protoField(warm[n]), "cold:", protoField(cold[n]), "hits", total)
		}
		if d := diffOutputs(warm, cold); d != "" {
			if os.Getenv("C06_DEBUG") != "" {
				fmt.Fprintf(os.Stderr, "WARM %v\nCOLD %v\n", warm[d], cold[d])
			}
			return "diff:" + d + staleCause(warm[d], cold[d])
		}
		return "eq"
	}
	return "bad-op"
}

var changeable = []string{"dr-b2-subset", "dr-b2-subset", "dr-a", "dr-b", "dr-a-nsb", "dr-sel", "dr-a-sel", "vs-a", "vs-b", "vs-c-src", "se-a-ep", "se-b-ep", "se-a-port", "se-a-addr", "se-c-addr",
	"se-dns-ep", "se-dns-res", "se-dns-san", "secret-b", "secret-nsb", "secret-cacert", "dr-hash", "dr-hash", "dr-a-subset", "dr-a-subset", "dr-tls", "configmap", "secret-toggle",
	"ef-labels", "ef-labels", "ef-version", "pa-default", "pa-nsb", "secret"}
var toggleable = []string{"dr-a", "dr-b", "dr-sel", "dr-a-sel", "dr-a-nsb", "dr-dns", "vs-a", "vs-b", "vs-c-src", "vs-hb-srcns", "sc-b", "sc-reg", "sc-egress", "sc-any", "sc-labelled",
	"ef-labels", "ef-version", "pa-nsb", "vs-new", "dr-new", "ef-new", "vs-new", "dr-new", "dr-hash", "dr-tls", "se-new", "pa-new", "sc-new", "vs-new-b", "se-new", "pa-new",
	"pa-sel", "pa-sel", "pa-nsb"}

// DestinationRules of the mesh (delete; check; create; check per rule: an entry generated while the rule was away must
// not be served once it is back) and configs that do not exist at first (create; check; delete; check)
var toggleDRs = []string{"dr-b2", "dr-a", "dr-b", "dr-a-nsb", "dr-dns", "dr-hash", "dr-tls", "dr-sel", "dr-a-sel", "dr-new"}
var creatable = []string{"vs-new", "dr-new", "ef-new", "se-new", "pa-new", "pa-sel", "sc-new", "vs-new-b"}

// changes whose effect depends on the proxy: the base proxy variants (mod 4) that see it
var focusChanges = []struct {
	cfg   string
	bases []int
}{
	{"dr-b2-subset", []int{0, 1, 2, 3}}, {"ef-labels", []int{3}}, {"ef-version", []int{0, 1, 2}}, {"dr-a", []int{0, 2, 3}}, {"dr-a-subset", []int{0, 2, 3}}, {"dr-hash", []int{0, 2, 3}},
	{"dr-a-nsb", []int{1}}, {"dr-b", []int{0, 1, 2, 3}}, {"vs-a", []int{0, 1, 2, 3}}, {"vs-b", []int{1}}, {"dr-tls", []int{0, 2, 3}},
	{"se-a-ep", []int{0, 1, 2, 3}}, {"se-dns-ep", []int{0, 1, 2, 3}}, {"pa-nsb", []int{1}}, {"pa-default", []int{0, 1, 2, 3}},
}

func genWriters(seed uint64, n int, path string) {
	out := wire.Create(path)
	defer out.Close()
	r := wire.NewRng(seed*131 + 0x77726974)
	for c := 0; c < n; c++ {
		world := 0
		if c > 0 && r.Chance(1, 2) {
			world = (r.Intn(1<<keysWorldBits) & r.Intn(1<<keysWorldBits)) &^ (256 | 1<<9 | 1<<10 | 1<<13 | 1<<18)
			if r.Chance(1, 5) {
				world |= 1 << 9
			}
			if r.Chance(1, 8) {
				world |= 1 << 10
			}
			if r.Chance(1, 6) {
				world |= 1 << 13
			}
			if r.Chance(1, 10) {
				world |= 1 << 18
			}
		}
		out.Line("case", strconv.Itoa(c), strconv.Itoa(world))
		ids := []string{"x", "y", "z"}[:1+r.Intn(3)]
		bases := map[string]int{}
		delta := map[string]bool{}
		for _, id := range ids {
			bases[id] = r.Intn(8) // (bases 8..15 are members of a service: the real initConnection replaces their labels)
			if r.Chance(1, 3) {
				delta[id] = true
				out.Line("connect", id, strconv.Itoa(bases[id]), "delta")
			} else {
				out.Line("connect", id, strconv.Itoa(bases[id]))
			}
		}
		ver := 0
		// a connection that sees the change, if there is one
		idFor := func(want []int) string {
			for _, id := range ids {
				for _, b := range want {
					if bases[id]%4 == b {
						return id
					}
				}
			}
			return wire.Pick(r, ids)
		}
		// delta: EDS is subscribed, the world moves on, and the FIRST CDS request makes the server push EDS on its own
		// (DiscoveryServer.forceEDSPush: LastPushContext paired with LastPushTime)
		for _, id := range ids {
			if delta[id] && r.Chance(1, 2) {
				ver++
				out.Line("request", id, "eds")
				out.Line("change", wire.Pick(r, []string{"se-a-ep", "se-b-ep", "dr-a-subset", "dr-b", "pa-default"}), strconv.Itoa(ver))
				out.Line("request", id, "cds")
				out.Line("check", id)
			}
		}
		// the REAL writers fill the cache (the `check` reader is passive): most connections ask for everything first
		// (a connection has no LastPushTime before its first push: its requests store nothing until then)
		out.Line("forcepush", "0")
		for _, id := range ids {
			if r.Chance(2, 3) {
				out.Line("push", id)
				out.Line("warm", id)
			}
		}
		// pw: the connection gets what is queued for it (real pushConnection: new context, new LastPushTime) and asks again
		pw := func(id string) {
			out.Line("push", id)
			out.Line("warm", id)
		}
		epLine := func() {
			ver++
			svc := wire.Pick(r, []string{"a", "b", "hb", "nl", "dns"})
			switch y := r.Intn(12); {
			case y < 4:
				out.Line("epupdate", svc, strconv.Itoa(ver))
			case y < 6:
				out.Line("epcache", svc, strconv.Itoa(ver))
			case y < 8:
				out.Line("epdelete", svc)
			case y < 10:
				out.Line("epnew", svc, strconv.Itoa(ver))
			default:
				out.Line(wire.Pick(r, []string{"epdelshard", "epprune"}), svc)
			}
		}
		nops := 6 + r.Intn(22)
		for i := 0; i < nops; i++ {
			id := wire.Pick(r, ids)
			switch x := r.Intn(100); {
			case x < 16:
				out.Line("request", id, wire.Pick(r, []string{"cds", "eds", "rds", "sds"}))
			case x < 20:
				out.Line("warm", id)
			case x < 31:
				ver++
				out.Line("change", wire.Pick(r, changeable), strconv.Itoa(ver))
				if r.Chance(1, 3) { // the server's own invalidation, before any harness push
					out.Line("check", id)
				}
			case x < 38:
				// a change the chosen connection sees, with the cache filled for it by its own requests before; then the
				// push and the connection's next requests write again
				ver++
				fc := wire.Pick(r, focusChanges)
				fid := idFor(fc.bases)
				pw(fid)
				out.Line("change", fc.cfg, strconv.Itoa(ver))
				out.Line("check", fid)
				if r.Chance(1, 2) {
					pw(fid)
					out.Line("check", fid)
				}
			case x < 42:
				out.Line("toggle", wire.Pick(r, toggleable))
				if r.Chance(1, 3) {
					out.Line("check", id)
				}
			case x < 47:
				// delete; (real writers store while it is away); create; check - or create ...; delete; check
				t := wire.Pick(r, toggleDRs)
				if r.Chance(1, 3) {
					t = wire.Pick(r, creatable)
				}
				pw(id)
				out.Line("toggle", t)
				out.Line("check", id)
				pw(id)
				out.Line("toggle", t)
				out.Line("check", id)
				pw(id)
				out.Line("check", id)
			case x < 50:
				ver++
				out.Line(wire.Pick(r, []string{"meshchange", "meshchange", "forcepush"}), strconv.Itoa(ver))
			case x < 53:
				ver++
				pw(id)
				out.Line("addrupdate", strconv.Itoa(r.Intn(10)))
				out.Line("check", id)
				pw(id)
				out.Line("check", id)
			case x < 59:
				// an endpoint event and a config change are merged into ONE queued request; a real writer (push or
				// request) runs on it with NO read in between; another connection's reader judges what it stored
				ver++
				other := wire.Pick(r, ids)
				pw(id)
				epLine()
				out.Line("change", wire.Pick(r, []string{"dr-a", "dr-b", "dr-a-subset", "vs-a", "se-a-port", "pa-default", "dr-hash", "ef-version", "se-c-addr", "dr-a-nsb"}), strconv.Itoa(ver))
				if r.Chance(2, 3) {
					out.Line("push", id)
				}
				if r.Chance(1, 2) {
					out.Line("request", id, wire.Pick(r, []string{"cds", "eds", "rds"}))
				}
				out.Line("check", other)
				out.Line("check", id)
			case x < 65:
				epLine()
				if r.Chance(1, 2) {
					out.Line("check", id)
				}
			case x < 70:
				out.Line("push", id)
			case x < 74:
				// a push overtaken by a newer publish, then a request on the connection
				ver++
				out.Line("queue")
				out.Line("change", wire.Pick(r, changeable), strconv.Itoa(ver))
				out.Line("pushstale", id)
				out.Line("request", id, wire.Pick(r, []string{"cds", "rds", "eds"}))
				out.Line("check", id)
			case x < 79:
				out.Line("dump", id)
			case x < 83:
				out.Line("dumptypes", id)
			default:
				out.Line("check", id)
			}
		}
		for _, id := range ids {
			out.Line("check", id)
		}
	}
}

// runWritersCase executes one case. crashed reports a panic; infra says that every panic came from the test.Failer of
// the FakeDiscoveryServer (a wall-clock deadline of /repo's test helpers), not from the code under test.
func runWritersCase(c [][]string) (outs []string, crashed, infra bool) {
	infra = true
	var w *writersWorld
	defer func() {
		if w != nil {
			w.close()
		}
	}()
	for _, f := range c {
		func() {
			defer func() {
				if r := recover(); r != nil {
					outs = append(outs, "crash")
					crashed = true
					if _, ok := r.(fakeFail); !ok {
						infra = false
					}
					fmt.Fprintln(os.Stderr, "c06 writers: panic:", strings.ReplaceAll(fmt.Sprint(r), "\n", " "))
				}
			}()
			if f[0] == "case" && len(f) == 3 {
				wv, _ := strconv.Atoi(f[2])
				w = newWritersWorld(wv)
				outs = append(outs, "ok")
				return
			}
			if w == nil {
				outs = append(outs, "bad-op")
				return
			}
			outs = append(outs, w.apply(f))
		}()
	}
	return outs, crashed, infra
}

func execWriters(opsPath, outPath string) {
	all := wire.ReadLines(opsPath)
	out := wire.Create(outPath)
	defer out.Close()
	for _, c := range splitCases(all) {
		outs, crashed, infra := runWritersCase(c)
		// Only a failure reported by the fake server's OWN test helpers (wall-clock deadlines on a loaded machine) is
		// tried once more. A panic of the code under test is reported as it is (`crash` where the spec says ok/eq), even
		// if a second run would not reproduce it.
		if crashed && infra {
			wstats["cases-retried-after-fake-server-deadline"]++
			outs, _, _ = runWritersCase(c)
		} else if crashed {
			wstats["cases-with-panic-in-real-code"]++
		}
		for _, l := range outs {
			out.Line(l)
		}
		out.Flush()
	}
	st := wire.Create(outPath + ".stats")
	defer st.Close()
	var names []string
	for k := range wstats {
		names = append(names, k)
	}
	sort.Strings(names)
	for _, k := range names {
		st.Line(k, strconv.Itoa(wstats[k]))
	}
}

// oracleWriters: the property clause is what `check` evaluates; the oracle replays the case and adds a
// final check for every connection.
func oracleWriters(opsPath, outPath string) {
	all := wire.ReadLines(opsPath)
	out := wire.Create(outPath)
	defer out.Close()
	for _, c := range splitCases(all) {
		verdict := "OK"
		func() {
			defer func() {
				if r := recover(); r != nil {
					verdict = "FAIL crash " + strings.ReplaceAll(strings.ReplaceAll(fmt.Sprint(r), "\n", "_"), " ", "_")
				}
			}()
			if len(c[0]) != 3 || c[0][0] != "case" {
				return
			}
			wv, _ := strconv.Atoi(c[0][2])
			w := newWritersWorld(wv)
			defer w.close()
			var hist []string
			for i, f := range c[1:] {
				res := w.apply(f)
				hist = append(hist, f[0])
				if len(res) > 5 && res[:5] == "diff:" {
					verdict = fmt.Sprintf("FAIL stale-after-%s op=%d %s", lastWriter(hist), i+1, res)
					return
				}
			}
			for id := range w.conns {
				if res := w.apply([]string{"check", id}); res != "eq" && res != "bad-op" {
					verdict = fmt.Sprintf("FAIL stale-after-%s final %s", lastWriter(hist), res)
					return
				}
			}
		}()
		out.Line(verdict)
		out.Flush()
	}
}

// lastWriter names the most recent op that can make the cache differ from fresh generation.
func lastWriter(hist []string) string {
	for i := len(hist) - 1; i >= 0; i-- {
		switch hist[i] {
		case "dump", "dumptypes", "request", "push", "pushstale", "epupdate", "epcache", "addrupdate", "epdelete", "epnew", "epdelshard", "epprune", "change", "toggle", "meshchange", "forcepush":
			return hist[i]
		}
	}
	return "none"
}

// staleCause names the cause of a stale CDS answer when the differing field identifies it: "#stale-mx" = the two
// clusters differ ONLY in the istio metadata flags disable_mx / external, which cluster generation derives from the
// endpoint membership of the service (PushContext.AllInstancesSupportHBONE: instance index + live ambient index) while
// no CDS cache entry declares endpoints (the cause recorded as known for C01: ...:CDS:stale-mx).
func staleCause(a, b proto.Message) string {
	ca, ok1 := a.(*clusterv3.Cluster)
	cb, ok2 := b.(*clusterv3.Cluster)
	if !ok1 || !ok2 {
		return ""
	}
	strip := func(c *clusterv3.Cluster) *clusterv3.Cluster {
		c = proto.Clone(c).(*clusterv3.Cluster)
		if im := c.GetMetadata().GetFilterMetadata()["istio"]; im != nil {
			delete(im.Fields, "disable_mx")
			delete(im.Fields, "external")
			if len(im.Fields) == 0 {
				delete(c.Metadata.FilterMetadata, "istio")
			}
		}
		if c.Metadata != nil && len(c.Metadata.FilterMetadata) == 0 {
			c.Metadata = nil
		}
		return c
	}
	if proto.Equal(strip(ca), strip(cb)) {
		return "#stale-mx"
	}
	return ""
}

func protoField(m proto.Message) string {
	if m == nil {
		return "<nil>"
	}
	c, ok := m.(*clusterv3.Cluster)
	if !ok {
		return "?"
	}
	return fmt.Sprint(c.GetCircuitBreakers().GetThresholds())
}
