package main

// Stream `writers`: validation (not proof) of the two system hypotheses of theorems never_stale / cache_invisible
// on the REAL code, on sequential schedules (no goroutine races):
//
//   - "writers are coherent": the code paths that write to the cache on behalf of a connection pair a
//     snapshot with a Start that is not newer than an invalidation the snapshot does not reflect;
//   - "GenLocal + in-sync invalidation": every config (or endpoint set) generation reads is named by
//     DependentConfigs() of the entry, and every accepted change of it reaches Clear / ClearAll.
//
//	case <n> <world>
//	connect <id> <base> [delta]  a proxy + bare SotW (or delta) Connection; LastPushContext = global (as initConnection)
//	request <id> <cds|eds|rds|sds>  real processRequest / processDeltaRequest: pair (LastPushContext, LastPushTime)
//	change <cfg> <n>             a config is rewritten in the store (DestinationRule pool size, VirtualService
//	                             retries, ServiceEntry endpoint address / extra port, EnvoyFilter patch value,
//	                             PeerAuthentication mode) or a Kubernetes Secret is rotated; after the server's own
//	                             handler -> ConfigUpdate -> debounce -> Push pipeline has settled the real
//	                             DiscoveryServer.Push runs once more for that key (real StartPush pair for `push`)
//	toggle <cfg>                 the config is deleted from / re-created in the store (DR, VS, Sidecar, EnvoyFilter)
//	epupdate <svc> <n>           real EndpointIndex.UpdateServiceEndpoints with one address changed and NO push:
//	                             the window between an endpoint event and the push it triggers
//	push <id>                    real pushConnection / pushConnectionDelta with the request of the last `change`
//	dump <id>                    real connectionConfigDump (body of /debug/config_dump?proxyID=)
//	dumptypes <id>               real getConfigDumpByResourceType(con, nil, ...) (…&types=cds,rds,eds,sds)
//	check <id>                   the property: a reader with the attributes of <id>, the CURRENT global context and
//	                             Start = now generates CDS+EDS+RDS+SDS through the server's generators (shared
//	                             cache) and through uncached twins; answer eq | diff:<resource>
//
// The Lean driver (spec side, theorems never_stale / cache_invisible) answers `eq` for every check.

import (
	"context"
	"errors"
	"fmt"
	"os"
	"sort"
	"strconv"
	"time"

	clusterv3 "github.com/envoyproxy/go-control-plane/envoy/config/cluster/v3"
	discovery "github.com/envoyproxy/go-control-plane/envoy/service/discovery/v3"
	"google.golang.org/grpc/metadata"
	"google.golang.org/protobuf/proto"
	"google.golang.org/protobuf/types/known/durationpb"
	"google.golang.org/protobuf/types/known/structpb"
	metav1 "k8s.io/apimachinery/pkg/apis/meta/v1"

	meshconfig "istio.io/api/mesh/v1alpha1"
	networking "istio.io/api/networking/v1alpha3"
	securityv1 "istio.io/api/security/v1beta1"
	"istio.io/istio/pilot/pkg/config/kube/crd"
	"istio.io/istio/pilot/pkg/model"
	pxds "istio.io/istio/pilot/pkg/xds"
	v3 "istio.io/istio/pilot/pkg/xds/v3"
	"istio.io/istio/pilot/test/xdstest"
	"istio.io/istio/pkg/config"
	"istio.io/istio/pkg/config/mesh/meshwatcher"
	"istio.io/istio/pkg/config/schema/gvk"
	"istio.io/istio/pkg/config/schema/kind"
	"istio.io/istio/pkg/spiffe"
	"istio.io/istio/pkg/util/sets"
	"verifharness/internal/wire"
)

type sinkBase struct{}

func (s *sinkBase) SetHeader(metadata.MD) error  { return nil }
func (s *sinkBase) SendHeader(metadata.MD) error { return nil }
func (s *sinkBase) SetTrailer(metadata.MD)       {}
func (s *sinkBase) Context() context.Context     { return context.Background() }
func (s *sinkBase) SendMsg(any) error            { return nil }
func (s *sinkBase) RecvMsg(any) error            { return nil }

type sinkStream struct{ sinkBase }

func (s *sinkStream) Send(*discovery.DiscoveryResponse) error    { return nil }
func (s *sinkStream) Recv() (*discovery.DiscoveryRequest, error) { return nil, errors.New("eof") }

type sinkDeltaStream struct{ sinkBase }

func (s *sinkDeltaStream) Send(*discovery.DeltaDiscoveryResponse) error { return nil }
func (s *sinkDeltaStream) Recv() (*discovery.DeltaDiscoveryRequest, error) {
	return nil, errors.New("eof")
}

type savedShard struct {
	key model.ShardKey
	eps []*model.IstioEndpoint
}

type wconn struct {
	attrs pattrs
	p     *model.Proxy
	con   *pxds.Connection
	delta bool
	subs  map[string]int // delta: how many names of a type are subscribed

	pending *model.PushRequest // what the push queue holds for this connection
}

type writersWorld struct {
	*keysWorld
	conns          map[string]*wconn
	deleted        map[string]config.Config // configs currently removed by `toggle`
	pendingForced  bool
	forcedUnpushed bool
	pendingEp      []model.ConfigKey     // endpoint ops whose ConfigUpdate (DiscoveryServer.EDSUpdate's second half) is still to come
	unpushed       []model.ConfigKey     // changes accepted by the server whose push requests the connections have not got yet
	savedEps       map[string]savedShard // endpoint ops: the shard key and endpoints a service had when first touched
	meshN          int
	nreader        int
}

func newWritersWorld(variant int) *writersWorld {
	return &writersWorld{keysWorld: newKeysWorld(variant), conns: map[string]*wconn{}, deleted: map[string]config.Config{},
		savedEps: map[string]savedShard{}}
}

var shortType = map[string]string{"cds": v3.ClusterType, "eds": v3.EndpointType, "rds": v3.RouteType, "sds": v3.SecretType}

var sdsNames = []string{"kubernetes://tls-a", "kubernetes://tls-a-cacert", "kubernetes://ns-b/tls-a", "kubernetes://default/tls-a", "kubernetes://missing",
	"kubernetes://tls-b", "kubernetes://tls-b-cacert", "configmap://default/ca-cm-cacert", "kubernetes-gateway://default/tls-a"}

func (w *keysWorld) resourceNames(p *model.Proxy, typ string) []string {
	switch typ {
	case "eds":
		return xdstest.ExtractEdsClusterNames(w.s.Clusters(p)) // uncached helper generator, only to learn the names
	case "rds":
		return xdstest.ExtractRoutesFromListeners(w.s.Listeners(p))
	case "sds":
		return sdsNames
	}
	return nil
}

// where the named configs of the mesh live
var cfgHome = map[string]struct {
	gvk config.GroupVersionKind
	ns  string
}{
	"dr-a": {gvk.DestinationRule, "default"}, "dr-b": {gvk.DestinationRule, "ns-b"}, "dr-a-nsb": {gvk.DestinationRule, "ns-b"},
	"dr-sel": {gvk.DestinationRule, "default"}, "dr-dns": {gvk.DestinationRule, "default"},
	"dr-hash": {gvk.DestinationRule, "default"}, "dr-tls": {gvk.DestinationRule, "default"}, "dr-new": {gvk.DestinationRule, "default"},
	"vs-new": {gvk.VirtualService, "default"}, "ef-new": {gvk.EnvoyFilter, "default"},
	"vs-a": {gvk.VirtualService, "default"}, "vs-b": {gvk.VirtualService, "ns-b"}, "vs-c-src": {gvk.VirtualService, "default"},
	"sc-b": {gvk.Sidecar, "ns-b"}, "sc-reg": {gvk.Sidecar, "default"}, "sc-labelled": {gvk.Sidecar, "default"},
	"ef-labels": {gvk.EnvoyFilter, "default"}, "ef-version": {gvk.EnvoyFilter, "istio-system"},
	"se-a": {gvk.ServiceEntry, "default"}, "se-b": {gvk.ServiceEntry, "ns-b"}, "se-c": {gvk.ServiceEntry, "default"},
	"se-dns":     {gvk.ServiceEntry, "default"},
	"pa-default": {gvk.PeerAuthentication, "istio-system"}, "pa-nsb": {gvk.PeerAuthentication, "ns-b"},
}

// configs that do not exist in the mesh: the first `toggle` CREATES them (a new name enters keys and dependency lists)
const cfgTemplates = `
apiVersion: networking.istio.io/v1
kind: VirtualService
metadata: {name: vs-new, namespace: default}
spec:
  hosts: [tls.example.com]
  http:
  - route: [{destination: {host: tls.example.com}}]
    timeout: 6s
---
apiVersion: networking.istio.io/v1
kind: DestinationRule
metadata: {name: dr-new, namespace: default}
spec:
  host: b.example.com
  exportTo: ["."]
  trafficPolicy:
    connectionPool: {tcp: {maxConnections: 17}}
---
apiVersion: networking.istio.io/v1alpha3
kind: EnvoyFilter
metadata: {name: ef-new, namespace: default}
spec:
  configPatches:
  - applyTo: CLUSTER
    match: {context: SIDECAR_OUTBOUND}
    patch:
      operation: MERGE
      value: {connect_timeout: 13s}
`

func templateFor(name string) (config.Config, bool) {
	cfgs, _, err := crd.ParseInputs(cfgTemplates)
	if err != nil {
		panic(err)
	}
	for _, c := range cfgs {
		if c.Name == name {
			return c, true
		}
	}
	return config.Config{}, false
}

var secretTargets = map[string][2]string{
	"secret": {"default", "tls-a"}, "secret-b": {"default", "tls-b"}, "secret-nsb": {"ns-b", "tls-a"}, "secret-cacert": {"default", "tls-a-cacert"},
}

func cfgName(which string) string {
	switch which {
	case "pa-default":
		return "default"
	case "pa-nsb":
		return "nsb"
	}
	return which
}

func kindOf(g config.GroupVersionKind) kind.Kind { return kind.FromString(g.Kind) }

// changeConfig rewrites one knob of a config of the mesh. ok=false: the world does not have it (any more).
func (w *writersWorld) changeConfig(which string, n int) (model.ConfigKey, bool) {
	store := w.s.Store()
	if which == "configmap" {
		cl := w.sdsClients["Kubernetes"]
		cm, err := cl.Kube().CoreV1().ConfigMaps("default").Get(context.Background(), "ca-cm", metav1.GetOptions{})
		if err != nil {
			panic(err)
		}
		cm = cm.DeepCopy()
		cm.Data["ca.crt"] = fmt.Sprintf("ca-from-configmap-%d", n)
		if _, err := cl.Kube().CoreV1().ConfigMaps("default").Update(context.Background(), cm, metav1.UpdateOptions{}); err != nil {
			panic(err)
		}
		return model.ConfigKey{Kind: kind.ConfigMap, Name: "ca-cm", Namespace: "default"}, true
	}
	if which == "secret-toggle" { // delete / re-create the Secret default/tls-b
		cl := w.sdsClients["Kubernetes"].Kube().CoreV1().Secrets("default")
		if _, err := cl.Get(context.Background(), "tls-b", metav1.GetOptions{}); err == nil {
			if err := cl.Delete(context.Background(), "tls-b", metav1.DeleteOptions{}); err != nil {
				panic(err)
			}
		} else {
			sec := mkSecret("default", "tls-b", map[string]string{"tls.crt": fmt.Sprintf("cert-b-%d", n), "tls.key": "key-b", "ca.crt": fmt.Sprintf("ca-b-%d", n)})
			if _, err := cl.Create(context.Background(), sec, metav1.CreateOptions{}); err != nil {
				panic(err)
			}
		}
		return model.ConfigKey{Kind: kind.Secret, Name: "tls-b", Namespace: "default"}, true
	}
	if sec, ok := secretTargets[which]; ok {
		cl := w.sdsClients["Kubernetes"]
		cur, err := cl.Kube().CoreV1().Secrets(sec[0]).Get(context.Background(), sec[1], metav1.GetOptions{})
		if err != nil {
			return model.ConfigKey{}, false // currently deleted by secret-toggle
		}
		cur = cur.DeepCopy()
		for k := range cur.Data { // every field, including ca.crt / cacert (the compound `-cacert` relation)
			cur.Data[k] = []byte(fmt.Sprintf("%s-%s-%s-%d", k, sec[0], sec[1], n))
		}
		if _, err := cl.Kube().CoreV1().Secrets(sec[0]).Update(context.Background(), cur, metav1.UpdateOptions{}); err != nil {
			panic(err)
		}
		return model.ConfigKey{Kind: kind.Secret, Name: sec[1], Namespace: sec[0]}, true
	}
	base := which
	switch which {
	case "se-a-ep", "se-a-port", "se-a-addr":
		base = "se-a"
	case "se-c-addr":
		base = "se-c"
	case "dr-a-subset":
		base = "dr-a"
	case "se-dns-ep", "se-dns-res", "se-dns-san":
		base = "se-dns"
	case "se-b-ep":
		base = "se-b"
	}
	home, known := cfgHome[base]
	if !known {
		return model.ConfigKey{}, false
	}
	cur := store.Get(home.gvk, cfgName(base), home.ns)
	if cur == nil {
		return model.ConfigKey{}, false
	}
	c := cur.DeepCopy()
	key := model.ConfigKey{Kind: kindOf(home.gvk), Name: cfgName(base), Namespace: home.ns}
	switch spec := c.Spec.(type) {
	case *networking.DestinationRule:
		if spec.TrafficPolicy == nil {
			spec.TrafficPolicy = &networking.TrafficPolicy{}
		}
		switch which {
		case "dr-hash": // the hash policy of the ROUTES of hb.example.com comes from this DestinationRule
			spec.TrafficPolicy.LoadBalancer = &networking.LoadBalancerSettings{LbPolicy: &networking.LoadBalancerSettings_ConsistentHash{
				ConsistentHash: &networking.LoadBalancerSettings_ConsistentHashLB{
					HashKey: &networking.LoadBalancerSettings_ConsistentHashLB_HttpHeaderName{HttpHeaderName: fmt.Sprintf("x-user-%d", n)},
				},
			}}
		case "dr-a-subset": // the ENDPOINTS of the subset clusters of a.example.com are selected by these labels
			for _, ss := range spec.Subsets {
				if ss.Name == "v1" {
					if ss.Labels["version"] == "v1" {
						ss.Labels = map[string]string{"version": "v2"}
					} else {
						ss.Labels = map[string]string{"version": "v1"}
					}
				}
			}
		default:
			spec.TrafficPolicy.ConnectionPool = &networking.ConnectionPoolSettings{Tcp: &networking.ConnectionPoolSettings_TCPSettings{MaxConnections: int32(100 + n)}}
		}
	case *networking.VirtualService:
		for _, h := range spec.Http {
			h.Retries = &networking.HTTPRetry{Attempts: int32(3 + n%5)} // (the default policy has 2 attempts)
		}
	case *networking.ServiceEntry:
		switch which {
		case "se-a-port":
			if len(spec.Ports) > 2 {
				spec.Ports = spec.Ports[:2]
			} else {
				spec.Ports = append(spec.Ports, &networking.ServicePort{Number: 9100, Name: "http-extra", Protocol: "HTTP"})
			}
		case "se-dns-ep": // the endpoints of a DNS service are part of its CDS cluster
			spec.Endpoints[0].Address = fmt.Sprintf("host%d.example.net", n)
		case "se-dns-res":
			if spec.Resolution == networking.ServiceEntry_DNS {
				spec.Resolution = networking.ServiceEntry_DNS_ROUND_ROBIN
			} else {
				spec.Resolution = networking.ServiceEntry_DNS
			}
		case "se-dns-san":
			spec.SubjectAltNames = []string{fmt.Sprintf("spiffe://cluster.local/ns/default/sa/dns%d", n)}
		case "se-a-addr", "se-c-addr":
			// the VIP of the service: it becomes a virtual host domain and a listener address, the host stays
			spec.Addresses = []string{fmt.Sprintf("10.60.%d.%d", (n/200)%200, 1+n%200)}
		default:
			spec.Endpoints[0].Address = fmt.Sprintf("10.250.%d.%d", (n/200)%200, 1+n%200)
		}
		key = model.ConfigKey{Kind: kind.ServiceEntry, Name: spec.Hosts[0], Namespace: home.ns}
	case *networking.EnvoyFilter:
		for _, p := range spec.ConfigPatches {
			if p.Patch != nil && p.Patch.Value != nil {
				if _, ok := p.Patch.Value.Fields["connect_timeout"]; ok {
					p.Patch.Value.Fields["connect_timeout"] = structpb.NewStringValue(fmt.Sprintf("%ds", 20+n%30))
				}
			}
		}
	case *securityv1.PeerAuthentication:
		modes := []securityv1.PeerAuthentication_MutualTLS_Mode{securityv1.PeerAuthentication_MutualTLS_STRICT,
			securityv1.PeerAuthentication_MutualTLS_PERMISSIVE, securityv1.PeerAuthentication_MutualTLS_DISABLE}
		next := modes[n%3]
		if spec.Mtls != nil && spec.Mtls.Mode == next {
			next = modes[(n+1)%3]
		}
		spec.Mtls = &securityv1.PeerAuthentication_MutualTLS{Mode: next}
	default:
		return model.ConfigKey{}, false
	}
	if _, err := store.Update(c); err != nil {
		panic(err)
	}
	return key, true
}

// toggleConfig deletes the config from the store, or re-creates it when a previous toggle deleted it.
func (w *writersWorld) toggleConfig(which string) (model.ConfigKey, bool) {
	home, known := cfgHome[which]
	if !known {
		return model.ConfigKey{}, false
	}
	store := w.s.Store()
	key := model.ConfigKey{Kind: kindOf(home.gvk), Name: cfgName(which), Namespace: home.ns}
	if old, gone := w.deleted[which]; gone {
		old.ResourceVersion = ""
		if _, err := store.Create(old); err != nil {
			panic(err)
		}
		delete(w.deleted, which)
		return key, true
	}
	cur := store.Get(home.gvk, cfgName(which), home.ns)
	if cur == nil {
		if tmpl, ok := templateFor(which); ok {
			if _, err := store.Create(tmpl); err != nil {
				panic(err)
			}
			return key, true
		}
		return model.ConfigKey{}, false
	}
	w.deleted[which] = cur.DeepCopy()
	if err := store.Delete(home.gvk, cfgName(which), home.ns, nil); err != nil {
		panic(err)
	}
	return key, true
}

// settle waits until the server's own (asynchronous) handler/debounce/push pipeline has seen the event and has
// published it, and stays quiet - otherwise its push would race with the following ops.
func (w *writersWorld) settle(before int64, key model.ConfigKey) {
	w.waitQuiet(before)
	// The change has now been invalidated and published by the server's OWN pipeline only (ConfigsUpdated as computed by
	// the real handlers and merged by the real debounce): a `check` right after this op validates exactly that.
	w.unpushed = append(w.unpushed, key)
}

func (w *writersWorld) waitQuiet(before int64) {
	s := w.s
	deadline := time.Now().Add(5 * time.Second)
	for s.Discovery.InboundUpdates.Load() == before && time.Now().Before(deadline) {
		time.Sleep(200 * time.Microsecond)
	}
	deadline = time.Now().Add(20 * time.Second)
	for time.Now().Before(deadline) {
		seen := s.Discovery.InboundUpdates.Load()
		if s.Discovery.CommittedUpdates.Load() < seen {
			time.Sleep(500 * time.Microsecond)
			continue
		}
		time.Sleep(3 * time.Millisecond)
		if s.Discovery.InboundUpdates.Load() == seen && s.Discovery.CommittedUpdates.Load() >= seen {
			break
		}
	}
}

// flushEp issues the ConfigUpdate the registries send after an endpoint index update (as DiscoveryServer.EDSUpdate does)
// for every endpoint op since the last call, through the real ConfigUpdate -> debounce -> Push, and waits for it.
func (w *writersWorld) flushEp() {
	if len(w.pendingEp) == 0 && !w.pendingForced {
		return
	}
	keys := w.pendingEp
	w.pendingEp = nil
	before := w.s.Discovery.InboundUpdates.Load()
	if w.pendingForced {
		w.pendingForced = false
		w.s.Discovery.ConfigUpdate(&model.PushRequest{Reason: model.NewReasonStats(model.ClusterUpdate), Forced: true})
		w.waitQuiet(before)
		w.forcedUnpushed = true
		return
	}
	w.s.Discovery.ConfigUpdate(&model.PushRequest{ConfigsUpdated: sets.New(keys...), Reason: model.NewReasonStats(model.EndpointUpdate)})
	w.waitQuiet(before)
	w.unpushed = append(w.unpushed, keys...)
}

// flushPushes gives the connections the push requests for the changes accepted since the last call: the real Push runs
// once more for their keys (initPushContext + StartPush stamp the request; the server's own requests went to its empty
// client list and cannot be observed), and the request is merged into what is pending for every connection (real
// PushRequest.CopyMerge, as PushQueue.Enqueue does).
func (w *writersWorld) flushPushes() {
	if len(w.unpushed) == 0 && !w.forcedUnpushed {
		return
	}
	req := &model.PushRequest{ConfigsUpdated: sets.New(w.unpushed...), Reason: model.NewReasonStats(model.ConfigUpdate), Forced: w.forcedUnpushed}
	w.unpushed, w.forcedUnpushed = nil, false
	w.pushReq(req)
}

func (w *writersWorld) pushReq(req *model.PushRequest) {
	w.s.Discovery.Push(req) // real initPushContext (new context, dropCacheForRequest, publish) + StartPush (stamps Start)
	for _, c := range w.conns {
		c.pending = c.pending.CopyMerge(req)
	}
}

var epServices = map[string][2]string{
	"a": {"a.example.com", "default"}, "b": {"b.example.com", "ns-b"}, "hb": {"hb.example.com", "default"},
	"nl": {"nl.default.svc.cluster.local", "default"}, "dns": {"dns.example.com", "default"},
}

// shardOf finds (and remembers) the first shard of a service with its endpoints as the registries filled it.
func (w *writersWorld) shardOf(svc string) (hn [2]string, sh savedShard, ok bool) {
	hn, ok = epServices[svc]
	if !ok {
		return hn, sh, false
	}
	if sh, ok = w.savedEps[svc]; ok {
		return hn, sh, true
	}
	shards, found := w.s.Discovery.Env.EndpointIndex.ShardsForService(hn[0], hn[1])
	if !found {
		return hn, sh, false
	}
	shards.RLock()
	var keys []model.ShardKey
	for k := range shards.Shards {
		keys = append(keys, k)
	}
	sort.Slice(keys, func(i, j int) bool { return keys[i].String() < keys[j].String() })
	if len(keys) > 0 {
		sh.key = keys[0]
		for _, e := range shards.Shards[keys[0]] {
			sh.eps = append(sh.eps, e.DeepCopy())
		}
	}
	shards.RUnlock()
	if len(sh.eps) == 0 {
		return hn, sh, false
	}
	w.savedEps[svc] = sh
	return hn, sh, true
}

// epOp calls the real EndpointIndex entry points the registries use, with NO push afterwards (the window between an
// endpoint event and the push it triggers; only the index's own cache invalidation protects it):
//
//	epupdate <svc> <n>  UpdateServiceEndpoints with one address changed; n%4==0: with NO endpoints (-> DeleteServiceShard
//	                    preserving the keys -> deleteServiceInner)
//	epdelete <svc>      DeleteServiceShard(.., preserveKeys=false) (service deleted)
//	epnew <svc> <n>     UpdateServiceEndpoints after a delete: GetOrCreateEndpointShard creates the shards again
//	epdelshard <svc>    DeleteShard(shard key): a whole registry/cluster goes away (ClearAll)
func (w *writersWorld) epOp(op, svc string, n int) {
	hn, sh, ok := w.shardOf(svc)
	if !ok {
		return
	}
	idx := w.s.Discovery.Env.EndpointIndex
	// the registry's ConfigUpdate for this service follows the index update; the harness delays it to the next
	// config-changing or push op (flushEp), so that a `check` in between sees the window. As DiscoveryServer.EDSUpdate:
	// kind Endpoints for an incremental push, kind ServiceEntry for a full push; the ServiceEntry controller adds a
	// ServiceEntry-kind update for DNS-resolution services (their endpoints are inline in the CDS cluster).
	note := func(pt model.PushType) {
		switch {
		case pt == model.FullPush || svc == "dns":
			w.pendingEp = append(w.pendingEp, model.ConfigKey{Kind: kind.ServiceEntry, Name: hn[0], Namespace: hn[1]})
		case pt == model.IncrementalPush:
			w.pendingEp = append(w.pendingEp, model.ConfigKey{Kind: kind.Endpoints, Name: hn[0], Namespace: hn[1]})
		}
	}
	fresh := func() []*model.IstioEndpoint {
		var eps []*model.IstioEndpoint
		for _, e := range sh.eps {
			eps = append(eps, e.DeepCopy())
		}
		eps[0].Addresses = []string{fmt.Sprintf("10.251.%d.%d", (n/200)%200, 1+n%200)}
		return eps
	}
	switch op {
	case "epupdate":
		if n%4 == 0 {
			note(idx.UpdateServiceEndpoints(sh.key, hn[0], hn[1], nil, false))
		} else {
			note(idx.UpdateServiceEndpoints(sh.key, hn[0], hn[1], fresh(), false))
		}
	case "epdelete": // SvcUpdate(EventDelete): the service is gone, a full push follows
		idx.DeleteServiceShard(sh.key, hn[0], hn[1], false)
		note(model.FullPush)
	case "epnew":
		note(idx.UpdateServiceEndpoints(sh.key, hn[0], hn[1], fresh(), false))
	case "epprune": // kube controller resync: PruneShard keeps only the listed services of the shard
		idx.PruneShard(sh.key, map[string]sets.String{})
		w.pendingForced = true
		note(model.FullPush)
	case "epdelshard":
		// a registry (cluster) is removed: kube multicluster calls DeleteShard and then a FORCED ConfigUpdate
		idx.DeleteShard(sh.key)
		w.pendingForced = true
		note(model.FullPush)
	}
}

// meshChange: the mesh config changes (connect timeout of every cluster) together with a DestinationRule, and the
// debounce hands ONE merged request to Push - Forced (from the mesh handler, bootstrap.initMeshHandlers) with a
// non-empty ConfigsUpdated (from the config handler). Built with the real CopyMerge from the two requests those
// handlers create. dropCacheForRequest must ClearAll.
func (w *writersWorld) meshChange(n int, alone bool) {
	w.meshN = n
	tw, ok := w.s.Env().Watcher.(meshwatcher.TestWatcher)
	if !ok {
		return
	}
	m := proto.Clone(w.s.Env().Mesh()).(*meshconfig.MeshConfig)
	m.ConnectTimeout = durationpb.New(time.Duration(11+n%40) * time.Second)
	tw.Set(m)
	for i := 0; i < 2000 && w.s.Env().Mesh().GetConnectTimeout().GetSeconds() != int64(11+n%40); i++ {
		time.Sleep(100 * time.Microsecond)
	}
	forced := &model.PushRequest{Reason: model.NewReasonStats(model.GlobalUpdate), Forced: true}
	if alone {
		w.pushReq(forced)
		return
	}
	before := w.s.Discovery.InboundUpdates.Load()
	key, ok := w.changeConfig("dr-b", n)
	if !ok {
		key, ok = w.changeConfig("dr-a", n)
	}
	if !ok {
		w.pushReq(forced)
		return
	}
	w.settle(before, key)
	w.unpushed = w.unpushed[:len(w.unpushed)-1]
	w.pushReq(forced.CopyMerge(&model.PushRequest{ConfigsUpdated: sets.New(key), Reason: model.NewReasonStats(model.ConfigUpdate)}))
}

// reader builds a proxy that is about to be served for the first time, the way the server does (real initConnection
// when the hook has it), so that it computes the same keys as the connections' writers.
func (w *writersWorld) reader(a pattrs, id string) *model.Proxy {
	if extAvailable {
		if _, p, err := extConnect(w.s.Discovery, nodeOf(a, id), false); err == nil {
			p.VerifiedIdentity = &spiffe.Identity{TrustDomain: "cluster.local", Namespace: a.ns, ServiceAccount: "sa-client"}
			return p
		}
	}
	return w.proxy(a, id)
}

func (w *writersWorld) apply(f []string) string {
	s := w.s
	switch {
	case f[0] == "connect" && (len(f) == 3 || len(f) == 4):
		bv, _ := strconv.Atoi(f[2])
		a := basePattrs(bv)
		c := &wconn{attrs: a, delta: len(f) == 4 && f[3] == "delta" && extAvailable, subs: map[string]int{}}
		if extAvailable {
			// the REAL initConnection: initProxyMetadata from the xDS Node, LastPushContext, addCon, initializeProxy
			con, p, err := extConnect(s.Discovery, nodeOf(a, f[1]), c.delta)
			if err != nil {
				return "err"
			}
			p.VerifiedIdentity = &spiffe.Identity{TrustDomain: "cluster.local", Namespace: a.ns, ServiceAccount: "sa-client"}
			c.con, c.p = con, p
		} else {
			p := w.proxy(a, f[1])
			p.LastPushContext = s.PushContext()
			p.WatchedResources = map[string]*model.WatchedResource{}
			c.p, c.con = p, pxds.VerifC06NewConnection(p, &sinkStream{})
		}
		w.conns[f[1]] = c
		return "ok"
	case f[0] == "request" && len(f) == 3:
		c, t := w.conns[f[1]], shortType[f[2]]
		if c == nil || t == "" {
			return "bad-op"
		}
		var err error
		if c.delta {
			// a delta server answers a repeated request only when the subscription changes: subscribe the names
			// in chunks (and start over once everything is subscribed)
			names := w.resourceNames(c.p, f[2])
			sort.Sort(sort.Reverse(sort.StringSlice(names))) // ("80", the busiest route, comes in the last chunk)
			req := &discovery.DeltaDiscoveryRequest{TypeUrl: t}
			if len(names) > 0 {
				k := c.subs[f[2]]
				if k >= len(names) {
					if err := extProcessDelta(s.Discovery, &discovery.DeltaDiscoveryRequest{TypeUrl: t, ResourceNamesUnsubscribe: names}, c.con); err != nil {
						return "err"
					}
					k = 0
				}
				n := (len(names) + 1) / 2
				if k+n > len(names) {
					n = len(names) - k
				}
				req.ResourceNamesSubscribe = names[k : k+n]
				c.subs[f[2]] = k + n
			}
			err = extProcessDelta(s.Discovery, req, c.con)
			if os.Getenv("C06_DEBUG") != "" {
				var names []string
				for _, e := range model.VerifC06Snapshot(s.Discovery.Cache, model.RDSType).Store {
					if e.Value != nil {
						names = append(names, fmt.Sprintf("%s@%d", e.Value.Name, e.Token%1000000000))
					}
				}
				fmt.Fprintln(os.Stderr, "delta request", f[2], "subscribe", req.ResourceNamesSubscribe, "err", err, "rds entries", names, "rds keys", len(s.Discovery.Cache.Keys(model.RDSType)),
					"ctx", c.p.LastPushContext.PushVersion, "global", s.PushContext().PushVersion, "lastpushtime", c.p.LastPushTime)
			}
		} else {
			err = pxds.VerifC06ProcessRequest(s.Discovery, &discovery.DiscoveryRequest{TypeUrl: t, ResourceNames: w.resourceNames(c.p, f[2])}, c.con)
		}
		if err != nil {
			return "err"
		}
		return "ok"
	case f[0] == "change" && len(f) == 3:
		w.flushEp()
		n, _ := strconv.Atoi(f[2])
		before := s.Discovery.InboundUpdates.Load()
		key, ok := w.changeConfig(f[1], n)
		if !ok {
			return "ok" // the world variant dropped this config
		}
		w.settle(before, key)
		return "ok"
	case f[0] == "toggle" && len(f) == 2:
		w.flushEp()
		before := s.Discovery.InboundUpdates.Load()
		key, ok := w.toggleConfig(f[1])
		if !ok {
			return "ok"
		}
		w.settle(before, key)
		return "ok"
	case (f[0] == "epupdate" || f[0] == "epnew") && len(f) == 3:
		n, _ := strconv.Atoi(f[2])
		w.epOp(f[0], f[1], n)
		return "ok"
	case (f[0] == "epdelete" || f[0] == "epdelshard" || f[0] == "epprune") && len(f) == 2:
		w.epOp(f[0], f[1], 0)
		return "ok"
	case f[0] == "meshchange" && len(f) == 2:
		w.flushEp()
		n, _ := strconv.Atoi(f[1])
		w.meshChange(n, false)
		return "ok"
	case f[0] == "forcepush" && len(f) == 2:
		w.flushEp()
		n, _ := strconv.Atoi(f[1])
		w.meshChange(n, true)
		return "ok"
	case f[0] == "push" && len(f) == 2:
		c := w.conns[f[1]]
		if c == nil {
			return "bad-op"
		}
		w.flushEp()
		w.flushPushes()
		req := c.pending
		c.pending = nil
		if req == nil {
			return "ok" // nothing queued for this connection
		}
		var err error
		if c.delta {
			err = extPushDelta(s.Discovery, c.con, req)
		} else {
			err = pxds.VerifC06PushConnection(s.Discovery, c.con, req)
		}
		if err != nil {
			return "err"
		}
		return "ok"
	case f[0] == "pushstale" && len(f) == 2:
		// a push-queue worker took this connection's request BEFORE the latest changes were published and delivers it
		// only now: a push overtaken by a newer publish (computeProxyState then records the OLD context and its Start)
		c := w.conns[f[1]]
		if c == nil {
			return "bad-op"
		}
		req := c.pending
		c.pending = nil
		if req == nil {
			return "ok"
		}
		var err error
		if c.delta {
			err = extPushDelta(s.Discovery, c.con, req)
		} else {
			err = pxds.VerifC06PushConnection(s.Discovery, c.con, req)
		}
		if err != nil {
			return "err"
		}
		return "ok"
	case f[0] == "queue" && len(f) == 1:
		// StartPush for everything accepted so far: the requests reach the push queue of every connection
		w.flushEp()
		w.flushPushes()
		return "ok"
	case f[0] == "dump" && len(f) == 2:
		c := w.conns[f[1]]
		if c == nil {
			return "bad-op"
		}
		if err := pxds.VerifC06ConfigDump(s.Discovery, c.con, true); err != nil {
			return "err"
		}
		return "ok"
	case f[0] == "dumptypes" && len(f) == 2:
		c := w.conns[f[1]]
		if c == nil {
			return "bad-op"
		}
		extDumpTypes(s.Discovery, c.con, []string{v3.ClusterType, v3.RouteType, v3.EndpointType, v3.SecretType})
		return "ok"
	case f[0] == "check" && len(f) == 2:
		c := w.conns[f[1]]
		if c == nil {
			return "bad-op"
		}
		w.nreader++
		var reader *model.Proxy
		// Both generations must see ONE snapshot: if the server's asynchronous pipeline publishes a new push context
		// (a late event of an earlier change) while they run, wait for it to settle and compare again.
		var warm, cold map[string]proto.Message
		for try := 0; try < 6; try++ {
			ctx0, in0 := s.PushContext(), s.Discovery.InboundUpdates.Load()
			reader = w.reader(c.attrs, fmt.Sprintf("reader%d-%d", w.nreader, try))
			warm = w.generateWith(w.gens, reader)
			cold = w.generateWith(w.twins, reader)
			if s.PushContext() == ctx0 && s.Discovery.InboundUpdates.Load() == in0 && s.Discovery.CommittedUpdates.Load() >= in0 {
				break
			}
			w.waitQuiet(in0 - 1)
		}
		if os.Getenv("C06_DEBUG") != "" {
			n := "cds/outbound|80||a.example.com"
			fmt.Fprintln(os.Stderr, "check warm:", protoField(warm[n]), "cold:", protoField(cold[n]))
		}
		if d := diffOutputs(warm, cold); d != "" {
			if os.Getenv("C06_DEBUG") != "" {
				fmt.Fprintf(os.Stderr, "WARM %v\nCOLD %v\n", warm[d], cold[d])
			}
			return "diff:" + d
		}
		return "eq"
	}
	return "bad-op"
}

var changeable = []string{"dr-a", "dr-b", "dr-a-nsb", "dr-sel", "vs-a", "vs-b", "vs-c-src", "se-a-ep", "se-b-ep", "se-a-port", "se-a-addr", "se-c-addr",
	"se-dns-ep", "se-dns-res", "se-dns-san", "secret-b", "secret-nsb", "secret-cacert", "dr-hash", "dr-hash", "dr-a-subset", "dr-a-subset", "dr-tls", "configmap", "secret-toggle",
	"ef-labels", "ef-version", "pa-default", "pa-nsb", "secret"}
var toggleable = []string{"dr-a", "dr-b", "dr-sel", "vs-a", "vs-c-src", "sc-b", "sc-reg", "ef-labels", "ef-version", "pa-nsb",
	"vs-new", "dr-new", "ef-new", "vs-new", "dr-new", "dr-hash", "dr-tls"}

func genWriters(seed uint64, n int, path string) {
	out := wire.Create(path)
	defer out.Close()
	r := wire.NewRng(seed*131 + 0x77726974)
	for c := 0; c < n; c++ {
		world := 0
		if c > 0 && r.Chance(1, 2) {
			world = (r.Intn(1<<keysWorldBits) & r.Intn(1<<keysWorldBits)) &^ (256 | 1<<9 | 1<<10 | 1<<13)
			if r.Chance(1, 5) {
				world |= 1 << 9
			}
			if r.Chance(1, 8) {
				world |= 1 << 10
			}
			if r.Chance(1, 6) {
				world |= 1 << 13
			}
		}
		out.Line("case", strconv.Itoa(c), strconv.Itoa(world))
		ids := []string{"x", "y", "z"}[:1+r.Intn(3)]
		for _, id := range ids {
			if r.Chance(1, 3) {
				out.Line("connect", id, strconv.Itoa(r.Intn(4)), "delta")
			} else {
				out.Line("connect", id, strconv.Itoa(r.Intn(4)))
			}
		}
		nops := 6 + r.Intn(25)
		ver := 0
		for i := 0; i < nops; i++ {
			id := wire.Pick(r, ids)
			switch x := r.Intn(100); {
			case x < 22:
				out.Line("request", id, wire.Pick(r, []string{"cds", "eds", "rds", "sds"}))
			case x < 38:
				ver++
				out.Line("change", wire.Pick(r, changeable), strconv.Itoa(ver))
				if r.Chance(3, 5) { // the server's own invalidation, before any harness push
					out.Line("check", id)
				}
			case x < 43:
				out.Line("toggle", wire.Pick(r, toggleable))
				if r.Chance(3, 5) {
					out.Line("check", id)
				}
			case x < 46:
				ver++
				out.Line(wire.Pick(r, []string{"meshchange", "meshchange", "forcepush"}), strconv.Itoa(ver))
			case x < 54:
				ver++
				svc := wire.Pick(r, []string{"a", "b", "hb", "nl", "dns"})
				switch y := r.Intn(10); {
				case y < 5:
					out.Line("epupdate", svc, strconv.Itoa(ver))
				case y < 7:
					out.Line("epdelete", svc)
				case y < 9:
					out.Line("epnew", svc, strconv.Itoa(ver))
				default:
					out.Line(wire.Pick(r, []string{"epdelshard", "epprune"}), svc)
				}
				if r.Chance(1, 2) {
					out.Line("check", id)
				}
			case x < 58:
				out.Line("push", id)
			case x < 62:
				// a push overtaken by a newer publish, then a request on the connection
				ver++
				out.Line("queue")
				out.Line("change", wire.Pick(r, changeable), strconv.Itoa(ver))
				out.Line("pushstale", id)
				out.Line("request", id, wire.Pick(r, []string{"cds", "rds", "eds"}))
				out.Line("check", id)
			case x < 70:
				out.Line("dump", id)
			case x < 76:
				out.Line("dumptypes", id)
			default:
				out.Line("check", id)
			}
		}
		for _, id := range ids {
			out.Line("check", id)
		}
	}
}

// runWritersCase executes one case; crashed reports a panic (e.g. a wall-clock deadline of the fake server).
func runWritersCase(c [][]string) (outs []string, crashed bool) {
	var w *writersWorld
	defer func() {
		if w != nil {
			w.close()
		}
	}()
	for _, f := range c {
		func() {
			defer func() {
				if r := recover(); r != nil {
					outs = append(outs, "crash")
					crashed = true
					fmt.Fprintln(os.Stderr, "c06 writers: panic:", r)
				}
			}()
			if f[0] == "case" && len(f) == 3 {
				wv, _ := strconv.Atoi(f[2])
				w = newWritersWorld(wv)
				outs = append(outs, "ok")
				return
			}
			if w == nil {
				outs = append(outs, "bad-op")
				return
			}
			outs = append(outs, w.apply(f))
		}()
	}
	return outs, crashed
}

func execWriters(opsPath, outPath string) {
	all := wire.ReadLines(opsPath)
	out := wire.Create(outPath)
	defer out.Close()
	retried := 0
	for _, c := range splitCases(all) {
		outs, crashed := runWritersCase(c)
		if crashed { // wall-clock deadlines on a loaded machine: one more try before reporting a break
			retried++
			outs, _ = runWritersCase(c)
		}
		for _, l := range outs {
			out.Line(l)
		}
		out.Flush()
	}
	if retried > 0 {
		fmt.Fprintf(os.Stderr, "c06 writers: %d case(s) retried after a panic\n", retried)
	}
}

// oracleWriters: the property clause is what `check` evaluates; the oracle replays the case and adds a
// final check for every connection.
func oracleWriters(opsPath, outPath string) {
	all := wire.ReadLines(opsPath)
	out := wire.Create(outPath)
	defer out.Close()
	for _, c := range splitCases(all) {
		verdict := "OK"
		func() {
			defer func() {
				if r := recover(); r != nil {
					verdict = "FAIL crash"
				}
			}()
			if len(c[0]) != 3 || c[0][0] != "case" {
				return
			}
			wv, _ := strconv.Atoi(c[0][2])
			w := newWritersWorld(wv)
			defer w.close()
			var hist []string
			for i, f := range c[1:] {
				res := w.apply(f)
				hist = append(hist, f[0])
				if len(res) > 5 && res[:5] == "diff:" {
					verdict = fmt.Sprintf("FAIL stale-after-%s op=%d %s", lastWriter(hist), i+1, res)
					return
				}
			}
			for id := range w.conns {
				if res := w.apply([]string{"check", id}); res != "eq" && res != "bad-op" {
					verdict = fmt.Sprintf("FAIL stale-after-%s final %s", lastWriter(hist), res)
					return
				}
			}
		}()
		out.Line(verdict)
		out.Flush()
	}
}

// lastWriter names the most recent op that can make the cache differ from fresh generation.
func lastWriter(hist []string) string {
	for i := len(hist) - 1; i >= 0; i-- {
		switch hist[i] {
		case "dump", "dumptypes", "request", "push", "pushstale", "epupdate", "epdelete", "epnew", "epdelshard", "epprune", "change", "toggle", "meshchange", "forcepush":
			return hist[i]
		}
	}
	return "none"
}

func protoField(m proto.Message) string {
	if m == nil {
		return "<nil>"
	}
	c, ok := m.(*clusterv3.Cluster)
	if !ok {
		return "?"
	}
	return fmt.Sprint(c.GetCircuitBreakers().GetThresholds())
}
