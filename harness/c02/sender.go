package main

import (
	"fmt"
	"sort"
	"strconv"
	"strings"
	"sync/atomic"
	"time"

	"istio.io/istio/pilot/pkg/model"
	pxds "istio.io/istio/pilot/pkg/xds"
	"verifharness/internal/wire"
)

// sndSUT runs the `sender` stream: the REAL doSendPushes (through xds.VerifDoSendPushes) on a real
// PushQueue and a real semaphore channel, with real *xds.Connection objects whose stream context
// this harness can cancel.  The harness plays the clients' stream loops: `deliver c` receives the
// push event from c.PushCh(), `pushdone c` calls its done() (what Connection.Push / StreamDeltas do
// after pushConnection returns, ok or error).
//
// doSendPushes and its per-push goroutines run by themselves; the state is only reported when the
// system has come to rest: the loop is blocked on the semaphore or in Dequeue (or has returned), and
// no parked push event has an enabled exit.  That predicate is evaluated on the real state
// (len(semaphore), queue tables) and must hold unchanged over several consecutive samples.
type sndSUT struct {
	mergeSUT
	n         int
	capacity  int
	q         *pxds.PushQueue
	sem       chan struct{}
	stopCh    chan struct{}
	cons      []*pxds.Connection
	streams   []*fakeStream
	conIdx    map[*pxds.Connection]int
	closed    []bool
	closedAt  []int // op index at which the client's stream was closed (0 = not)
	stoppedAt int   // op index at which stopCh was closed (0 = not)
	stopped   bool
	started   bool
	exited    *atomic.Bool
	crashed   *atomic.Bool // doSendPushes panicked (it dereferences the dequeued request)
	nilEnq    bool         // the case enqueued a nil request (then a crash is the documented outcome)
	verdict   string       // first property clause this run violated ("" = none)
	opIdx     int
	delivered map[int]any
	unsettled bool
}

func newSndSUT(n, capacity int) *sndSUT {
	if capacity < 1 {
		capacity = 1
	}
	s := &sndSUT{mergeSUT: *newMergeSUT(), n: n, capacity: capacity, q: pxds.NewPushQueue(), sem: make(chan struct{}, capacity),
		stopCh: make(chan struct{}), closed: make([]bool, n), closedAt: make([]int, n), delivered: map[int]any{}, exited: &atomic.Bool{}, crashed: &atomic.Bool{}}
	s.cons, s.streams, s.conIdx = newConns(n)
	return s
}

type sndObs struct {
	tok, proc, queue int
	down             bool
	exited           bool
	exitPending      bool
	text             string
}

func (s *sndSUT) observeOnce() sndObs {
	snap := s.q.VerifSnapshot()
	for i := range s.cons {
		s.h.see(snap.Pending[s.cons[i]], snap.Processing[s.cons[i]])
	}
	o := sndObs{tok: len(s.sem), proc: len(snap.Processing), queue: len(snap.Queue), down: snap.ShuttingDown, exited: s.exited.Load()}
	for c := range snap.Processing {
		i := s.conIdx[c]
		if _, d := s.delivered[i]; !d && (s.closed[i] || s.stopped) {
			o.exitPending = true
		}
	}
	ids := make([]int, 0, len(snap.Queue))
	for _, c := range snap.Queue {
		ids = append(ids, s.conIdx[c])
	}
	sort.Ints(ids)
	q := "-"
	if len(ids) > 0 {
		parts := make([]string, len(ids))
		for i, id := range ids {
			parts[i] = strconv.Itoa(id)
		}
		q = strings.Join(parts, ",")
	}
	qs := queueSUT{mergeSUT: s.mergeSUT, cons: s.cons, conIdx: s.conIdx}
	pend := qs.showMap(snap.Pending)
	if s.stopped || snap.ShuttingDown {
		// once the server is stopping / the queue shutting down, which re-queued mail is still picked up
		// depends on the order in which parked pushes take their exits: not compared
		q, pend = "*", "*"
	}
	o.text = fmt.Sprintf("tok=%d exit=%s q=%s pend=%s proc=%s down=%s", o.tok, wire.B(o.exited), q, pend, qs.showMap(snap.Processing), wire.B(snap.ShuttingDown))
	return o
}

// atRest: nothing can happen without the harness or a producer doing something.
func (s *sndSUT) atRest(o sndObs) bool {
	if o.exitPending {
		return false
	}
	extra := o.tok - o.proc // the loop's own token
	if extra != 0 && extra != 1 {
		return false // a doneFunc is between MarkDone and the release
	}
	if !s.started || o.exited {
		return true
	}
	if extra == 0 {
		return o.tok == s.capacity // blocked on the semaphore
	}
	return o.queue == 0 && !o.down // blocked in Dequeue
}

// unsettledClass names the state that keeps the sender from coming to rest (for fingerprints: a class of
// states, not "something leaked").
func (s *sndSUT) unsettledClass() string {
	o := s.observeOnce()
	snap := s.q.VerifSnapshot()
	if o.exitPending {
		// a parked push event whose exit is enabled has not taken it
		for c := range snap.Processing {
			i := s.conIdx[c]
			if _, d := s.delivered[i]; d {
				continue
			}
			kind := "sotw"
			if i%2 == 1 {
				kind = "delta"
			}
			// the exit that became enabled first is the one the parked push should have taken
			if s.closed[i] && (!s.stopped || s.closedAt[i] < s.stoppedAt) {
				return "parked-push-not-released-on-closed-stream(" + kind + "-client)"
			}
		}
		return "parked-push-not-released-on-server-stop"
	}
	extra := o.tok - o.proc
	switch {
	case extra > 1:
		return "token-held-without-processing-entry"
	case extra < 0:
		return "processing-entry-held-without-token"
	case s.started && !o.exited && extra == 1 && o.tok >= s.capacity && (o.queue > 0 || o.down):
		// Every token is taken and there is one more than processing entries: that is what a loop inside Dequeue looks
		// like (it holds one), and also what a loop waiting in `semaphore <-` behind a token kept by a finished push
		// looks like.  The case has failed already, so probe: take one token out; a loop waiting for the semaphore
		// grabs it at once (the semaphore is full again), a loop inside Dequeue does not care.
		select {
		case <-s.sem:
			refilled := false
			for k := 0; k < 600 && !refilled; k++ {
				time.Sleep(time.Millisecond)
				// the loop took it if the semaphore is full again, or it went on and dequeued something, or it left
				now := s.q.VerifSnapshot()
				refilled = len(s.sem) >= s.capacity || s.exited.Load() || len(now.Processing) != o.proc || len(now.Queue) != o.queue
			}
			if refilled {
				return "token-kept-by-a-finished-push(loop-blocked-on-the-semaphore)"
			}
			s.sem <- struct{}{}
		default:
		}
		if o.down {
			return "loop-blocked-in-dequeue-after-shutdown"
		}
		return "queue-nonempty-loop-blocked-in-dequeue"
	case s.started && !o.exited && extra == 1 && o.queue > 0 && !o.down:
		return "queue-nonempty-loop-blocked-in-dequeue"
	case s.started && !o.exited && extra == 1 && o.down:
		return "loop-blocked-in-dequeue-after-shutdown"
	case s.started && !o.exited && extra == 0 && o.tok < s.capacity:
		return "loop-idle-with-free-token"
	}
	return "unstable"
}

func (s *sndSUT) settle() string {
	if s.crashed.Load() {
		return "crashed"
	}
	if s.unsettled {
		// this case already failed to come to rest once: report, do not wait again
		return s.observeOnce().text + " UNSETTLED"
	}
	deadline := time.Now().Add(patience())
	stable := 0
	last := ""
	for {
		if s.crashed.Load() {
			return "crashed"
		}
		o := s.observeOnce()
		if s.atRest(o) && (stable == 0 || o.text == last) {
			stable++
			last = o.text
			// after a nil request has been enqueued the documented outcome is a crash of the sender loop; the state
			// between its Dequeue and the panic looks like rest, so look for much longer before calling it rest
			need := 8
			if s.nilEnq {
				need = 150
			}
			if stable >= need {
				return o.text
			}
		} else {
			stable = 0
		}
		if time.Now().After(deadline) {
			degraded.Store(true)
			s.unsettled = true
			return o.text + " UNSETTLED"
		}
		time.Sleep(400 * time.Microsecond)
	}
}

func (s *sndSUT) conn(t string) int {
	i, err := strconv.Atoi(t)
	if err != nil || i < 0 || i >= s.n {
		return -1
	}
	return i
}

func (s *sndSUT) parkedHere(i int) bool {
	snap := s.q.VerifSnapshot()
	_, p := snap.Processing[s.cons[i]]
	_, d := s.delivered[i]
	return p && !d
}

func (s *sndSUT) pushdone(i int) {
	ev := s.delivered[i]
	delete(s.delivered, i)
	pxds.VerifEventDone(ev)
}

// apply = run the op on the real system, then evaluate the property clauses on what was observed
// (the same clauses as the `oracle` sub-command); the verdict of the whole case is part of the
// answer to `end`, so that a violation seen in this very run is reported even if it would not
// show again in another run.
func (s *sndSUT) apply(f []string) string {
	if f[0] != "case" && s.crashed != nil && s.crashed.Load() {
		if f[0] == "end" {
			s.judge(f, "crashed")
			return "crashed verdict=" + s.verdictTok()
		}
		return "crashed"
	}
	res := s.applyRaw(f)
	if f[0] == "case" {
		return res
	}
	s.judge(f, res)
	if f[0] == "end" {
		return res + " verdict=" + s.verdictTok()
	}
	return res
}

func (s *sndSUT) verdictTok() string {
	if s.verdict == "" {
		return "OK"
	}
	return "FAIL:" + s.verdict
}

func (s *sndSUT) fail(clause string) {
	if s.verdict == "" {
		s.verdict = fmt.Sprintf("%s@op%d", clause, s.opIdx)
	}
}

func (s *sndSUT) judge(f []string, res string) {
	s.opIdx++
	if s.n == 0 {
		return
	}
	if res == "crash" || strings.HasPrefix(res, "crashed") {
		if !s.nilEnq {
			s.fail("never-crashes")
		}
		return
	}
	if strings.HasPrefix(res, "push-event-never-offered") {
		s.fail("parked-push-event-not-offered-to-live-client")
	}
	switch f[0] {
	case "start", "enq", "deliver", "pushdone", "close", "stop", "shut", "end":
		if strings.HasSuffix(res, "UNSETTLED") {
			s.fail("does-not-come-to-rest:" + s.unsettledClass())
			return
		}
		if res == "bad-op" {
			return
		}
		o := s.observeOnce()
		if o.tok > s.capacity {
			s.fail("more-pushes-than-the-limit")
		}
		if e := o.tok - o.proc; e != 0 && e != 1 {
			s.fail("semaphore-not-balanced")
		}
		if f[0] == "end" {
			if o.proc != 0 {
				s.fail("connection-left-in-processing(wedged)")
			}
			if o.tok > 1 {
				s.fail("semaphore-token-leaked")
			}
			if s.started && !o.exited {
				s.fail("sender-loop-did-not-return")
			}
		}
	}
}

func (s *sndSUT) applyRaw(f []string) (out string) {
	defer func() {
		if r := recover(); r != nil {
			out = "crash"
		}
	}()
	switch f[0] {
	case "case":
		n, c := 1, 1
		if len(f) >= 5 {
			n, _ = strconv.Atoi(f[3])
			c, _ = strconv.Atoi(f[4])
		}
		*s = *newSndSUT(n, c)
		return "ok"
	case "start":
		if s.started || len(f) != 1 {
			return "bad-op"
		}
		s.started = true
		go func(ex, cr *atomic.Bool, stop chan struct{}, sem chan struct{}, q *pxds.PushQueue) {
			defer func() {
				if r := recover(); r != nil {
					cr.Store(true)
				}
				ex.Store(true)
			}()
			pxds.VerifDoSendPushes(stop, sem, q)
		}(s.exited, s.crashed, s.stopCh, s.sem, s.q)
		return s.settle()
	case "enq":
		if len(f) != 3 {
			return "bad-op"
		}
		c := s.conn(f[1])
		i, ok := parseRef(f[2], len(s.h.reqs), -2)
		if c < 0 || !ok || i == -2 {
			return "bad-op"
		}
		var r *model.PushRequest
		if i >= 0 {
			r = s.h.reqs[i]
		} else {
			s.nilEnq = true
		}
		s.q.Enqueue(s.cons[c], r)
		return s.settle()
	case "deliver":
		if len(f) != 2 {
			return "bad-op"
		}
		c := s.conn(f[1])
		if c < 0 || s.closed[c] || s.stopped || !s.parkedHere(c) {
			return "bad-op"
		}
		select {
		case ev := <-s.cons[c].PushCh():
			s.delivered[c] = ev
			r := pxds.VerifEventRequest(ev)
			s.h.see(r)
			return "ev=" + s.h.reqRef(r) + " " + s.settle()
		case <-time.After(patience()):
			degraded.Store(true)
			return "push-event-never-offered " + s.settle()
		}
	case "pushdone":
		if len(f) != 2 {
			return "bad-op"
		}
		c := s.conn(f[1])
		if c < 0 {
			return "bad-op"
		}
		if _, ok := s.delivered[c]; !ok {
			return "bad-op"
		}
		s.pushdone(c)
		return s.settle()
	case "close":
		if len(f) != 2 {
			return "bad-op"
		}
		c := s.conn(f[1])
		if c < 0 {
			return "bad-op"
		}
		if !s.closed[c] {
			s.closedAt[c] = s.opIdx + 1
		}
		s.closed[c] = true
		s.streams[c].cancel()
		return s.settle()
	case "stop":
		if !s.stopped {
			s.stopped = true
			s.stoppedAt = s.opIdx + 1
			close(s.stopCh)
		}
		return s.settle()
	case "shut":
		s.q.ShutDown()
		return s.settle()
	case "end":
		ids := make([]int, 0, len(s.delivered))
		for i := range s.delivered {
			ids = append(ids, i)
		}
		sort.Ints(ids)
		for _, i := range ids {
			s.pushdone(i)
		}
		s.settle()
		for i := range s.cons {
			if !s.closed[i] {
				s.closedAt[i] = s.opIdx + 1
			}
			s.closed[i] = true
			s.streams[i].cancel()
		}
		s.settle()
		if !s.stopped {
			s.stopped = true
			s.stoppedAt = s.opIdx + 2
			close(s.stopCh)
		}
		s.settle()
		s.q.ShutDown()
		return s.settle()
	}
	return s.mergeSUT.apply(f)
}

// ---------------------------------------------------------------- generator

func genSenderCase(r *wire.Rng, c int, out *wire.Out) {
	nconn := 1 + r.Intn(4)
	capacity := 1 + r.Intn(3)
	out.Line("case", strconv.Itoa(c), "sender", strconv.Itoa(nconn), strconv.Itoa(capacity))
	d := &declared{}
	genObjects(r, out, d, 2+r.Intn(2), 0, false)
	started := false
	if r.Chance(5, 6) {
		out.Line("start")
		started = true
	}
	stopped := false
	// rough bookkeeping so that most deliver / pushdone ops hit a connection where they apply
	mail := make([]bool, nconn)
	deliv := make([]bool, nconn)
	closed := make([]bool, nconn)
	pick := func(ok func(int) bool) int {
		var cand []int
		for k := 0; k < nconn; k++ {
			if ok(k) {
				cand = append(cand, k)
			}
		}
		if len(cand) == 0 {
			return -1
		}
		if r.Chance(1, 10) {
			return r.Intn(nconn)
		}
		return wire.Pick(r, cand)
	}
	canDeliver := func(k int) bool { return started && !stopped && mail[k] && !deliv[k] && !closed[k] }
	for i, n := 0, 5+r.Intn(16); i < n; i++ {
		x := r.Intn(20)
		if x >= 6 && x < 11 && pick(canDeliver) < 0 || x >= 11 && x < 15 && pick(func(k int) bool { return deliv[k] }) < 0 {
			x = 0 // nothing to deliver / finish: produce mail instead
		}
		switch {
		case x < 6:
			k := r.Intn(nconn)
			if r.Chance(1, 120) { // nobody does this; the sender then dereferences nil (modelled: `crashed`)
				out.Line("enq", strconv.Itoa(k), "nil")
			} else {
				out.Line("enq", strconv.Itoa(k), strconv.Itoa(r.Intn(d.q)))
			}
			mail[k] = true
		case x < 11:
			k := pick(canDeliver)
			out.Line("deliver", strconv.Itoa(k))
			if canDeliver(k) {
				deliv[k], mail[k] = true, false
			}
		case x < 15:
			k := pick(func(k int) bool { return deliv[k] })
			out.Line("pushdone", strconv.Itoa(k))
			deliv[k] = false
		case x < 17:
			k := r.Intn(nconn) // a client dies at any moment: before, while parked, while being pushed
			out.Line("close", strconv.Itoa(k))
			closed[k] = true
			if !deliv[k] {
				mail[k] = false
			}
		case x == 17:
			if !started {
				out.Line("start")
				started = true
			} else {
				k := r.Intn(nconn)
				out.Line("enq", strconv.Itoa(k), strconv.Itoa(r.Intn(d.q)))
				mail[k] = true
			}
		case x == 18:
			if r.Chance(1, 3) && !stopped {
				out.Line("stop")
				stopped = true
			} else {
				out.Line("deliver", strconv.Itoa(r.Intn(nconn)))
			}
		default:
			if r.Chance(1, 4) {
				out.Line("shut")
			} else {
				out.Line("pushdone", strconv.Itoa(r.Intn(nconn)))
			}
		}
	}
	if !started {
		out.Line("start")
	}
	out.Line("end")
}

// ---------------------------------------------------------------- oracle (sender stream)
//
// The property on the real system: whatever the schedule did, once every delivered push has
// called done(), every client has closed, the server has stopped and the queue has shut down,
// nothing is held: no connection is left in `processing`, the semaphore holds at most the loop's
// own token, the loop has returned; and at every rest point tokens = flights (+1), tokens <= cap.

func oracleSender(in, outp string) {
	out := wire.Create(outp)
	defer out.Close()
	s := newSndSUT(0, 1)
	open := false
	emit := func() {
		if !open {
			return
		}
		if s.verdict == "" {
			out.Line("OK")
		} else {
			out.Line("FAIL " + strings.Replace(s.verdict, "@", " ", 1))
		}
		open = false
	}
	for _, f := range wire.ReadLines(in) {
		if f[0] == "case" {
			emit()
			s = newSndSUT(0, 1)
			s.apply(f)
			open = true
			continue
		}
		s.apply(f)
	}
	emit()
}
