package main

import (
	"fmt"
	"os"
	"strconv"
	"strings"
	"sync"
	"time"

	"go.uber.org/atomic"

	"istio.io/istio/pilot/pkg/model"
	pxds "istio.io/istio/pilot/pkg/xds"
	"istio.io/istio/pkg/config/schema/kind"
	"istio.io/istio/pkg/util/sets"
	"verifharness/internal/wire"
)

// debSUT runs the `debounce` stream: the REAL (unexported) debounce loop, reached through
// xds.VerifDebounce, with millisecond options, fed from this goroutine through an unbuffered
// channel; pushFn records what it is given and can be held to simulate a long push.
//
// The real loop runs on physical timers, so the *batching* differs from run to run.  Nothing that
// depends on it is reported: the summary printed at `end` contains only what must be the same
// for every schedule (union of changed keys / forced handed to pushFn, events committed, at most
// one debounced pushFn at a time, every debounced push = merge of a contiguous run of sends, no
// request written to after hand-off).  All waits are "until the condition holds", with a long
// timeout that only a wedged loop can reach.
type debSUT struct {
	mergeSUT
	after, max time.Duration
	eds        bool
	ch         chan *model.PushRequest
	stop       chan struct{}
	exited     chan struct{}
	sent       *atomic.Int64

	mu       sync.Mutex
	hold     bool
	gate     chan struct{} // closed to release held pushFn calls
	inflight int
	maxIn    int
	pushes   []pushRec // debounced path, in call order
	bypass   []pushRec
	sends    []factSet // facts of every request sent on the debounced path, in order
	sendPush []*model.PushContext // ... and the snapshot each of them carried (nil = none)
	allSent  factSet
	nsend    int
	stuck    bool
	started  bool
	t0       time.Time // start of the case (monotonic); trace times are microseconds since then
	trace    []string  // observed events in the order they were logged (under mu)
	traceOut *wire.Out // where `end` writes the trace line (exec only)
	floodExtra int     // copies a `flood` sent beyond its count (not part of the compared numbers)
	noMaxPush  bool    // a flood whose copies all came closer together than the quiet period saw no push entered within 3*debounceMax
	floodLate  bool    // ... saw the push entered later than 2*debounceMax + DebounceAfter
	floodUnjudged bool // no flood of this case could be judged (the machine let the quiet period elapse every time)
	floodJudged   bool
	floodAttempts int
}

// viewCanon prints a request the way the Lean driver prints a model value (showViewCanon).
func (s *debSUT) viewCanon(r *model.PushRequest) string {
	set := func(isNil bool, l []string) string {
		if isNil {
			return "nil"
		}
		return wire.EncSet(l)
	}
	rsn := "nil"
	if r.Reason != nil {
		rsn = showRsn(r.Reason)
	}
	push := "nil"
	if r.Push != nil {
		if n, ok := s.h.pcIdx[r.Push]; ok {
			push = "p" + strconv.Itoa(n)
		} else {
			push = "p?"
		}
	}
	return fmt.Sprintf("c=%s;a=%s;w=%s;r=%s;p=%s;f=%s", set(r.ConfigsUpdated == nil, cfgList(r.ConfigsUpdated)),
		set(r.AddressesUpdated == nil, adrList(r.AddressesUpdated)), set(r.WaypointsUpdated == nil, wpList(r.WaypointsUpdated)),
		rsn, push, wire.B(r.Forced))
}

func (s *debSUT) micros() int64 { return time.Since(s.t0).Microseconds() }

type pushRec struct {
	req   *model.PushRequest
	facts factSet
	push  *model.PushContext // the snapshot the request carried when pushFn was entered
}

// patience: how long a wait-for-condition may take.  Generous (a healthy loop needs milliseconds)
// until the first time-out of this process; after that - the run has failed anyway - short, so
// that a wedged loop does not cost minutes per case.
var degraded atomic.Bool

func patience() time.Duration {
	if degraded.Load() {
		return time.Second
	}
	if v := os.Getenv("C02_PATIENCE_MS"); v != "" { // set by the check while shrinking an already failing case
		if n, err := strconv.Atoi(v); err == nil && n > 0 {
			return time.Duration(n) * time.Millisecond
		}
	}
	return 10 * time.Second
}

func newDebSUT(afterMs, maxMs int, eds bool) *debSUT {
	return &debSUT{
		mergeSUT: *newMergeSUT(), after: time.Duration(afterMs) * time.Millisecond, max: time.Duration(maxMs) * time.Millisecond, eds: eds,
		ch: make(chan *model.PushRequest), stop: make(chan struct{}), exited: make(chan struct{}), sent: atomic.NewInt64(0),
		gate: make(chan struct{}), allSent: sets.New[string](), t0: time.Now(),
	}
}

func (s *debSUT) isBypass(r *model.PushRequest) bool {
	return !s.eds && model.OnlyHasConfigsOfKind(r.ConfigsUpdated, kind.Endpoints)
}

func (s *debSUT) pushFn(req *model.PushRequest) {
	s.mu.Lock()
	rec := pushRec{req: req, facts: reqFacts(req), push: req.Push}
	if s.isBypass(req) {
		s.bypass = append(s.bypass, rec)
		s.trace = append(s.trace, "E|"+s.viewCanon(req))
		s.mu.Unlock()
		return
	}
	s.pushes = append(s.pushes, rec)
	// +1: rounded up, the time is only used as an upper bound of when the loop decided to push
	s.trace = append(s.trace, fmt.Sprintf("P|%s|%d", s.viewCanon(req), s.micros()+1))
	s.inflight++
	if s.inflight > s.maxIn {
		s.maxIn = s.inflight
	}
	hold, gate := s.hold, s.gate
	s.mu.Unlock()
	if hold {
		select {
		case <-gate:
		case <-time.After(30 * time.Second):
		}
	}
	s.mu.Lock()
	s.inflight--
	s.trace = append(s.trace, "X")
	s.mu.Unlock()
}

func (s *debSUT) start() {
	if s.started {
		return
	}
	s.started = true
	go func() {
		defer close(s.exited)
		defer func() { _ = recover() }()
		pxds.VerifDebounce(s.ch, s.stop, s.after, s.max, s.eds, s.pushFn, s.sent)
	}()
}

func waitUntil(cond func() bool) bool {
	deadline := time.Now().Add(patience())
	for !cond() {
		if time.Now().After(deadline) {
			degraded.Store(true)
			return false
		}
		time.Sleep(200 * time.Microsecond)
	}
	return true
}

type debResult struct {
	facts     factSet
	events    int
	sent      int64
	quiescent bool
	single    bool
	batches   bool
	newest    bool // every debounced push carries the newest snapshot of the updates merged into it
	unmutated bool
	detail    string
}

// segmentable: can the debounced pushes, in order, be read as merges of consecutive runs of the sends?
// With snaps != nil a run only counts if the pushed request also carries the newest snapshot of the
// run: the last non-nil Push among its members, in order (nil if none had one).
func segmentable(pushes []pushRec, sends []factSet, snaps []*model.PushContext) bool {
	// reach[j] = pushes[0..i) can cover sends[0..j)
	reach := make([]bool, len(sends)+1)
	reach[0] = true
	for _, p := range pushes {
		next := make([]bool, len(sends)+1)
		for j := 0; j <= len(sends); j++ {
			if !reach[j] {
				continue
			}
			u := sets.New[string]()
			var newest *model.PushContext
			for k := j; k < len(sends); k++ {
				u.Merge(sends[k])
				if snaps != nil && snaps[k] != nil {
					newest = snaps[k]
				}
				if u.Equals(p.facts) && (snaps == nil || p.push == newest) {
					next[k+1] = true
				}
			}
		}
		reach = next
	}
	return reach[len(sends)]
}

func (s *debSUT) finish() debResult {
	s.start()
	s.mu.Lock()
	s.hold = false
	close(s.gate)
	s.gate = make(chan struct{})
	s.mu.Unlock()
	res := debResult{events: s.nsend}
	// every event is committed once the loop has drained (updateSent counts events, not pushes)
	res.quiescent = waitUntil(func() bool { return s.sent.Load() >= int64(s.nsend) })
	if res.quiescent {
		res.quiescent = waitUntil(func() bool { s.mu.Lock(); defer s.mu.Unlock(); return s.inflight == 0 })
	}
	// a little longer than the longest possible wake-up: nothing more may be pushed after quiescence
	time.Sleep(s.after + 2*time.Millisecond)
	close(s.stop)
	select {
	case <-s.exited:
	case <-time.After(patience()):
		degraded.Store(true)
		res.quiescent = false
	}
	s.mu.Lock()
	defer s.mu.Unlock()
	res.sent = s.sent.Load()
	res.facts = sets.New[string]()
	res.unmutated = true
	for _, p := range append(append([]pushRec{}, s.pushes...), s.bypass...) {
		res.facts.Merge(p.facts)
		if !reqFacts(p.req).Equals(p.facts) {
			res.unmutated = false
			res.detail += " request-written-after-hand-off"
		}
	}
	res.single = s.maxIn <= 1
	res.batches = segmentable(s.pushes, s.sends, nil)
	res.newest = !res.batches || segmentable(s.pushes, s.sends, s.sendPush)
	if s.stuck {
		res.quiescent = false
	}
	return res
}

// offer hands one request to the loop (unbuffered channel: returns when the loop has taken it).
func (s *debSUT) offer(i int, r *model.PushRequest) {
	s.mu.Lock()
	s.nsend++
	// logged before the request is offered: a lower bound of the loop's lastConfigUpdateTime
	s.trace = append(s.trace, fmt.Sprintf("S|%d|%d", i, s.micros()))
	s.allSent.Merge(reqFacts(r))
	if !s.isBypass(r) {
		s.sends = append(s.sends, reqFacts(r))
		s.sendPush = append(s.sendPush, r.Push)
	}
	s.mu.Unlock()
	select {
	case s.ch <- r:
	case <-time.After(patience()):
		degraded.Store(true)
		s.stuck = true
	}
}

// cloneReq: a fresh request with fresh maps saying the same (every ConfigUpdate call builds its own).
func cloneReq(r *model.PushRequest) *model.PushRequest {
	c := &model.PushRequest{Push: r.Push, Start: r.Start, Forced: r.Forced, Delta: r.Delta}
	if r.ConfigsUpdated != nil {
		c.ConfigsUpdated = r.ConfigsUpdated.Copy()
	}
	if r.AddressesUpdated != nil {
		c.AddressesUpdated = r.AddressesUpdated.Copy()
	}
	if r.WaypointsUpdated != nil {
		c.WaypointsUpdated = r.WaypointsUpdated.Copy()
	}
	if r.Reason != nil {
		c.Reason = model.ReasonStats{}
		for k, v := range r.Reason {
			c.Reason[k] = v
		}
	}
	return c
}

func (s *debSUT) apply(f []string) (out string) {
	defer func() {
		if r := recover(); r != nil {
			out = "crash"
		}
	}()
	switch f[0] {
	case "case":
		a, m, e := 5, 20, true
		if len(f) >= 6 {
			a, _ = strconv.Atoi(f[3])
			m, _ = strconv.Atoi(f[4])
			e = f[5] == "1"
		}
		*s = *newDebSUT(a, m, e)
		return "ok"
	case "send":
		if len(f) != 2 {
			return "bad-op"
		}
		i, ok := parseRef(f[1], len(s.h.reqs), -2)
		if !ok || i < 0 {
			return "bad-op"
		}
		s.start()
		s.offer(i, s.h.reqs[i])
		return "ok"
	case "flood":
		// flood <req> <n> <gap-ms>: n copies of a request, one every gap ms (gap well below DebounceAfter) for about
		// 3*debounceMax: the quiet period never elapses, so a push has to be entered through debounceMax - by
		// 2*debounceMax, says the clause.  Whether the quiet period really never elapsed is read off the clock: a
		// flood is judged only if no two consecutive copies were further apart than DebounceAfter up to the moment
		// the push was seen (a sleep that overshoots under machine load lets the quiet period elapse, and then
		// nothing can be said).  An unjudged flood is repeated (its copies are not part of the compared numbers) up
		// to four times; if none could be judged the case says so (trace token N|flood-unjudged).
		if len(f) != 4 {
			return "bad-op"
		}
		i, ok := parseRef(f[1], len(s.h.reqs), -2)
		n, err1 := strconv.Atoi(f[2])
		gap, err2 := strconv.Atoi(f[3])
		if !ok || i < 0 || err1 != nil || err2 != nil || n < 1 {
			return "bad-op"
		}
		s.start()
		s.mu.Lock()
		held := s.hold // a held pushFn keeps the loop from entering another: nothing to expect from this flood
		bypass := s.isBypass(s.h.reqs[i])
		s.mu.Unlock()
		limit := s.after - time.Millisecond
		judged := held || bypass || limit <= time.Duration(gap)*time.Millisecond
		for attempt := 0; attempt < 5; attempt++ {
			if attempt > 0 {
				if judged {
					break
				}
				// start again from an idle loop
				waitUntil(func() bool { s.mu.Lock(); defer s.mu.Unlock(); return s.sent.Load() >= int64(s.nsend) && s.inflight == 0 })
				time.Sleep(s.after + 2*time.Millisecond)
			}
			s.floodAttempts++
			s.mu.Lock()
			before := len(s.pushes) + len(s.bypass)
			s.mu.Unlock()
			pushedSince := func() bool {
				s.mu.Lock()
				defer s.mu.Unlock()
				return len(s.pushes)+len(s.bypass) > before
			}
			clean, sawPush := true, false
			var first, prevStart, sawAt time.Time
			look := func() {
				if sawPush || !clean {
					return
				}
				if !prevStart.IsZero() && time.Since(prevStart) >= limit {
					clean = false // the quiet period may have elapsed here
					return
				}
				if pushedSince() {
					sawPush, sawAt = true, time.Now()
				}
			}
			for k := 0; ; k++ {
				if k >= n && (attempt > 0 || judged || sawPush || !clean || time.Since(first) >= 4*s.max) {
					break
				}
				if attempt > 0 && (sawPush || !clean) {
					break // (an extra flood has nothing more to say)
				}
				st := time.Now()
				if k == 0 {
					first = st
				}
				if attempt > 0 || k >= n {
					s.floodExtra++
				}
				s.offer(i, cloneReq(s.h.reqs[i]))
				look()
				prevStart = st
				time.Sleep(time.Duration(gap) * time.Millisecond)
				look()
			}
			if judged {
				continue
			}
			switch {
			case !clean:
				// nothing can be said; again
			case sawPush && sawAt.Sub(first) > 2*s.max+s.after:
				s.floodLate = true
				judged = true
			case sawPush:
				judged = true
			case time.Since(first) >= 3*s.max:
				s.noMaxPush = true
				judged = true
			}
		}
		if !judged {
			s.floodUnjudged = true
		} else if !held && !bypass {
			s.floodJudged = true
		}
		return "ok"
	case "sleep":
		if len(f) != 2 {
			return "bad-op"
		}
		d, _ := strconv.Atoi(f[1])
		time.Sleep(time.Duration(d) * time.Millisecond)
		return "ok"
	case "hold":
		s.mu.Lock()
		s.hold = true
		s.mu.Unlock()
		return "ok"
	case "release":
		s.mu.Lock()
		s.hold = false
		close(s.gate)
		s.gate = make(chan struct{})
		s.mu.Unlock()
		return "ok"
	case "waitpush":
		// wait until a debounced pushFn call is in progress (or everything sent so far is committed)
		waitUntil(func() bool {
			s.mu.Lock()
			defer s.mu.Unlock()
			return s.inflight > 0 || s.sent.Load() >= int64(s.nsend)
		})
		return "ok"
	case "end":
		r := s.finish()
		s.mu.Lock()
		tr := append(append([]string{"trace"}, s.trace...), fmt.Sprintf("U|%d", r.sent))
		// notes for the check (not events): how the floods of this case went
		if s.floodAttempts > 0 {
			tr = append(tr, fmt.Sprintf("N|flood-attempts=%d", s.floodAttempts))
		}
		if s.floodJudged {
			tr = append(tr, "N|flood-judged")
		}
		if s.floodUnjudged {
			tr = append(tr, "N|flood-unjudged")
		}
		s.mu.Unlock()
		if s.traceOut != nil {
			s.traceOut.Line(tr...)
			s.traceOut.Flush()
		}
		v := "OK"
		if c, _ := s.verdictOf(r); c != "" {
			v = "FAIL:" + c
		}
		return fmt.Sprintf("facts=%s events=%d sent=%d quiescent=%s single=%s batches=%s unmutated=%s verdict=%s",
			wire.EncSet(sets.SortedList(r.facts)), r.events-s.floodExtra, r.sent-int64(s.floodExtra), wire.B(r.quiescent), wire.B(r.single), wire.B(r.batches), wire.B(r.unmutated), v)
	}
	return s.mergeSUT.apply(f)
}

// ---------------------------------------------------------------- generator

func genDebounceCase(r *wire.Rng, c int, out *wire.Out) {
	after := 2 + r.Intn(6)
	max := after*2 + r.Intn(20)
	flood := r.Chance(1, 8)
	if flood {
		// a long quiet period and updates four to five times closer together than it: a sleep that overshoots
		// (machine load) does not let the quiet period elapse by accident
		after = 40 + r.Intn(20)
		max = after*2 + r.Intn(30)
	}
	eds := !r.Chance(1, 4)
	out.Line("case", strconv.Itoa(c), "debounce", strconv.Itoa(after), strconv.Itoa(max), wire.B(eds))
	n := 1 + r.Intn(7)
	nc, na, nw, nr := 0, 0, 0, 0
	// fresh maps for every request, as ConfigUpdate callers build them
	for i := 0; i < n; i++ {
		cfg, adr, wp, rsn := "nil", "nil", "nil", "nil"
		if !r.Chance(1, 5) {
			var keys []string
			switch r.Intn(4) {
			case 0:
				keys = wire.Subset(r, cfgUniverse[3:5], 2, 3) // endpoints only (bypass when EDS debounce is off)
			default:
				keys = genSubset(r, cfgUniverse)
			}
			out.Line("set", "c", wire.EncList(keys))
			cfg = strconv.Itoa(nc)
			nc++
		}
		if r.Chance(1, 3) {
			out.Line("set", "a", wire.EncList(genSubset(r, adrUniverse)))
			adr = strconv.Itoa(na)
			na++
		}
		if r.Chance(1, 4) {
			out.Line("set", "w", wire.EncList(genSubset(r, wpUniverse)))
			wp = strconv.Itoa(nw)
			nw++
		}
		if r.Chance(2, 3) {
			out.Line("rsn", wire.Enc(wire.Pick(r, rsnUniverse)), "1")
			rsn = strconv.Itoa(nr)
			nr++
		}
		push := "nil" // debounced requests normally carry no snapshot yet; some do, to exercise "newest"
		if r.Chance(1, 4) {
			push = strconv.Itoa(1 + r.Intn(3))
		}
		out.Line("req", cfg, adr, wp, rsn, push, "0", "0", wire.B(r.Chance(1, 4)))
	}
	if flood {
		// updates closer together than the quiet period for three times debounceMax: debounceMax has to push
		gap := after/5 + 1
		out.Line("flood", "0", strconv.Itoa(3*max/gap+1), strconv.Itoa(gap))
		for i := 1; i < n; i++ {
			out.Line("send", strconv.Itoa(i))
		}
		out.Line("end")
		return
	}
	if n >= 2 && r.Chance(2, 5) {
		// the overlap the property is about: updates arrive while a (held) push is running
		k := 1 + r.Intn(n-1)
		out.Line("hold")
		for i := 0; i < k; i++ {
			out.Line("send", strconv.Itoa(i))
		}
		out.Line("sleep", strconv.Itoa(after+1))
		out.Line("waitpush")
		for i := k; i < n; i++ {
			if r.Chance(1, 4) {
				out.Line("sleep", strconv.Itoa(r.Intn(2*after)))
			}
			out.Line("send", strconv.Itoa(i))
		}
		if r.Chance(1, 2) {
			out.Line("sleep", strconv.Itoa(after+1)) // the timer fires while the push is still running
		}
		if r.Chance(1, 2) {
			out.Line("release")
		}
		out.Line("end")
		return
	}
	held := false
	for i := 0; i < n; i++ {
		switch r.Intn(8) {
		case 0:
			out.Line("sleep", strconv.Itoa(after+1+r.Intn(after+1))) // longer than the quiet period: a push starts
		case 1:
			out.Line("sleep", strconv.Itoa(r.Intn(after)))
		case 2:
			if !held {
				out.Line("hold")
				held = true
			}
		case 3:
			if held { // the event-during-push overlap: wait until the push is running, then keep sending
				out.Line("sleep", strconv.Itoa(after+1))
				out.Line("waitpush")
			}
		case 4:
			if held {
				out.Line("release")
				held = false
			}
		}
		out.Line("send", strconv.Itoa(i))
	}
	out.Line("end")
}

// ---------------------------------------------------------------- oracle (debounce stream)

func oracleDebounce(in, outp string) {
	out := wire.Create(outp)
	defer out.Close()
	var s *debSUT
	open := false
	verdict := ""
	flush := func() {
		if open {
			if verdict == "" {
				verdict = "OK"
			}
			out.Line(verdict)
		}
	}
	for _, f := range wire.ReadLines(in) {
		if f[0] == "case" {
			flush()
			s = &debSUT{}
			s.apply(f)
			open, verdict = true, ""
			continue
		}
		if f[0] != "end" {
			if s.apply(f) == "crash" && verdict == "" {
				verdict = "FAIL never-crashes " + wire.Enc(strings.Join(f, " "))
			}
			continue
		}
		r := s.finish()
		if c, d := s.verdictOf(r); c != "" && verdict == "" {
			verdict = "FAIL " + c + " " + wire.Enc(d)
		}
	}
	flush()
}

// verdictOf evaluates the property clauses on what one real run was observed to do.
func (s *debSUT) verdictOf(r debResult) (clause, detail string) {
	switch {
	case s.noMaxPush:
		return "no-push-while-updates-keep-coming(debounceMax-not-honoured)", ""
	case s.floodLate:
		return "push-later-than-debounceMax-while-updates-keep-coming", ""
	case !r.quiescent:
		return "accepted-update-never-pushed", fmt.Sprintf("updateSent=%d of %d events", r.sent, r.events)
	case !r.facts.Equals(s.allSent):
		lost := s.allSent.Difference(r.facts)
		if len(lost) > 0 {
			return "update-lost-or-weakened", fmt.Sprintf("lost=%v", sets.SortedList(lost))
		}
		return "pushed-more-than-received", fmt.Sprintf("extra=%v", sets.SortedList(r.facts.Difference(s.allSent)))
	case r.sent != int64(r.events):
		return "committed-count", fmt.Sprintf("updateSent=%d events=%d", r.sent, r.events)
	case !r.single:
		return "two-debounced-pushes-in-flight", ""
	case !r.batches:
		return "push-is-not-a-merge-of-consecutive-updates", ""
	case !r.newest:
		return "debounced-push-does-not-carry-the-newest-snapshot-of-its-batch", ""
	case !r.unmutated:
		return "request-written-after-hand-off", r.detail
	}
	return "", ""
}
