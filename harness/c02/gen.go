package main

import (
	"strconv"
	"strings"

	"istio.io/istio/pilot/pkg/model"
	"istio.io/istio/pkg/config/schema/kind"
	"verifharness/internal/wire"
)

// Small universes make collisions (same key in both requests, shared map objects) likely.
var cfgUniverse = []string{
	kind.VirtualService.String() + "/ns1/a", kind.DestinationRule.String() + "/ns1/b", kind.ServiceEntry.String() + "/ns2/c",
	kind.Endpoints.String() + "/ns1/e1", kind.Endpoints.String() + "/ns2/e2", kind.Address.String() + "//x", kind.Gateway.String() + "/ns3/g",
}

var adrUniverse = []string{"net1/10.0.0.1", "net1/10.0.0.2", "ns1/svc.ns1.svc.cluster.local", "net2/10.1.0.1"}

var wpUniverse = []string{"ns1/wp.ns1.svc.cluster.local//", "//net1/10.0.9.9", "ns2/wp2.ns2.svc.cluster.local//"}

var rsnUniverse = []string{string(model.ConfigUpdate), string(model.EndpointUpdate), string(model.ProxyUpdate), string(model.UnknownTrigger), string(model.GlobalUpdate)}

// declared tracks how many objects of each store a generated case has declared so far.
type declared struct{ c, a, w, r, q int }

func pickRef(r *wire.Rng, n int, nilNum, nilDen int) string {
	if n == 0 || r.Chance(nilNum, nilDen) {
		return "nil"
	}
	return strconv.Itoa(r.Intn(n))
}

func genSubset(r *wire.Rng, univ []string) []string {
	switch r.Intn(6) {
	case 0:
		return nil // declared but empty (non-nil, len 0)
	case 1:
		return []string{wire.Pick(r, univ)}
	}
	l := wire.Subset(r, univ, 1, 2)
	if r.Chance(1, 10) && len(l) > 0 {
		l = append(l, l[0])
	}
	return l
}

// genObjects declares map objects and requests. pushNil: chance (of 12) that a request has no snapshot.
func genObjects(r *wire.Rng, out *wire.Out, d *declared, nreq int, pushNil int, withDelta bool) {
	for i, n := 0, r.Intn(4); i < n; i++ {
		out.Line("set", "c", wire.EncList(genSubset(r, cfgUniverse)))
		d.c++
	}
	for i, n := 0, r.Intn(3); i < n; i++ {
		out.Line("set", "a", wire.EncList(genSubset(r, adrUniverse)))
		d.a++
	}
	for i, n := 0, r.Intn(3); i < n; i++ {
		out.Line("set", "w", wire.EncList(genSubset(r, wpUniverse)))
		d.w++
	}
	for i, n := 0, r.Intn(4); i < n; i++ {
		ks := genSubset(r, rsnUniverse)
		cs := make([]string, len(ks))
		for j := range ks {
			cs[j] = strconv.Itoa(r.Intn(4)) // 0 is a legal count: key present, nothing counted
		}
		cst := "-"
		if len(cs) > 0 {
			cst = strings.Join(cs, ",")
		}
		out.Line("rsn", wire.EncList(ks), cst)
		d.r++
	}
	for i := 0; i < nreq; i++ {
		push := "nil"
		if !r.Chance(pushNil, 12) {
			push = strconv.Itoa(1 + r.Intn(3))
		}
		delta := "0"
		if withDelta && r.Chance(1, 5) {
			delta = strconv.Itoa(1 + r.Intn(2))
		}
		out.Line("req", pickRef(r, d.c, 1, 3), pickRef(r, d.a, 1, 2), pickRef(r, d.w, 1, 2), pickRef(r, d.r, 1, 3),
			push, strconv.Itoa(r.Intn(10)), delta, wire.B(r.Chance(1, 3)))
		d.q++
	}
}

func genMergeCase(r *wire.Rng, c int, out *wire.Out) {
	out.Line("case", strconv.Itoa(c), "merge")
	d := &declared{}
	genObjects(r, out, d, 2+r.Intn(3), 3, true)
	arg := func() string {
		switch r.Intn(12) {
		case 0:
			return "nil"
		case 1, 2:
			return "last"
		}
		return strconv.Itoa(r.Intn(d.q))
	}
	switch r.Intn(6) {
	case 0: // (a+b)+c
		op := wire.Pick(r, []string{"merge", "cmerge"})
		out.Line(op, "0", "1")
		out.Line(op, "last", strconv.Itoa(d.q-1))
	case 1: // a+(b+c)
		op := wire.Pick(r, []string{"merge", "cmerge"})
		out.Line(op, "1", strconv.Itoa(d.q-1))
		out.Line(op, "0", "last")
	default:
		for i, n := 0, 1+r.Intn(5); i < n; i++ {
			switch r.Intn(10) {
			case 0:
				out.Line("rcmerge", pickRef(r, d.r, 1, 6), pickRef(r, d.r, 1, 6))
			case 1, 2, 3, 4:
				out.Line("merge", arg(), arg())
			default:
				out.Line("cmerge", arg(), arg())
			}
		}
	}
	if r.Chance(1, 20) { // malformed
		out.Line(wire.Pick(r, []string{"merge 99 0", "cmerge x", "req 9 nil nil nil nil 0 0 0", "frob"}))
	}
	out.Line("dump")
}
