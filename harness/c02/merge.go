package main

import (
	"fmt"
	"strings"

	"istio.io/istio/pilot/pkg/model"
	"istio.io/istio/pkg/util/sets"
	"verifharness/internal/wire"
)

// mergeSUT runs the `merge` stream: the REAL PushRequest.Merge / CopyMerge / ReasonStats.CopyMerge on
// real objects; identities of results and of every map are reported through the registry.
type mergeSUT struct {
	h     *heap
	last  int // request id of the last merge/cmerge result, -1 = nil
	lastR int // reason-map id of the last rcmerge result, -1 = nil
}

func newMergeSUT() *mergeSUT { return &mergeSUT{h: newHeap(), last: -1, lastR: -1} }

func (s *mergeSUT) reqArg(t string) (*model.PushRequest, bool) {
	i, ok := parseRef(t, len(s.h.reqs), s.last)
	if !ok {
		return nil, false
	}
	if i < 0 {
		return nil, true
	}
	return s.h.reqs[i], true
}

func (s *mergeSUT) apply(f []string) (out string) {
	defer func() {
		if r := recover(); r != nil {
			out = "crash"
		}
	}()
	switch f[0] {
	case "case":
		*s = *newMergeSUT()
		return "ok"
	case "set", "rsn", "req":
		return s.h.declare(f)
	case "merge", "cmerge":
		if len(f) != 3 {
			return "bad-op"
		}
		a, ok1 := s.reqArg(f[1])
		b, ok2 := s.reqArg(f[2])
		if !ok1 || !ok2 {
			return "bad-op"
		}
		var res *model.PushRequest
		if f[0] == "merge" {
			res = a.Merge(b)
		} else {
			res = a.CopyMerge(b)
		}
		s.h.see(res)
		s.last = -1
		if res != nil {
			s.last = s.h.reqIdx[res]
		}
		return "res=" + s.h.reqRef(res) + " " + s.h.dump()
	case "rcmerge":
		if len(f) != 3 {
			return "bad-op"
		}
		i, ok1 := parseRef(f[1], len(s.h.rsns), s.lastR)
		j, ok2 := parseRef(f[2], len(s.h.rsns), s.lastR)
		if !ok1 || !ok2 {
			return "bad-op"
		}
		var a, b model.ReasonStats
		if i >= 0 {
			a = s.h.rsns[i]
		}
		if j >= 0 {
			b = s.h.rsns[j]
		}
		res := a.CopyMerge(b)
		s.h.seeRsn(res)
		s.lastR = -1
		if p := mapPtr(res); p != 0 {
			s.lastR = s.h.rsnIdx[p]
		}
		return "res=" + ref("r", s.h.rsnIdx, res) + " " + s.h.dump()
	case "dump":
		return s.h.dump()
	}
	return "bad-op"
}

// ---------------------------------------------------------------- oracle (merge stream)
//
// Evaluates the property's algebra clauses directly on the real objects with Go sets; no
// reference to the Lean model or to the canonical dump format.

type reqSnap struct {
	cfg    sets.Set[model.ConfigKey]
	adr    sets.Set[string]
	wp     sets.Set[model.WaypointReference]
	rsn    map[model.TriggerReason]int
	push   *model.PushContext
	forced bool
	start  int64
	zeroT  bool
	ptrs   [4]uintptr
}

func snapReq(r *model.PushRequest) reqSnap {
	s := reqSnap{cfg: r.ConfigsUpdated.Copy(), adr: r.AddressesUpdated.Copy(), wp: r.WaypointsUpdated.Copy(), rsn: map[model.TriggerReason]int{},
		push: r.Push, forced: r.Forced, start: r.Start.Unix(), zeroT: r.Start.IsZero(),
		ptrs: [4]uintptr{mapPtr(r.ConfigsUpdated), mapPtr(r.AddressesUpdated), mapPtr(r.WaypointsUpdated), mapPtr(r.Reason)}}
	for k, v := range r.Reason {
		s.rsn[k] = v
	}
	return s
}

func sameRsn(a, b map[model.TriggerReason]int) bool {
	if len(a) != len(b) {
		return false
	}
	for k, v := range a {
		if w, ok := b[k]; !ok || w != v {
			return false
		}
	}
	return true
}

func (a reqSnap) sameContent(r *model.PushRequest) bool {
	b := snapReq(r)
	return a.cfg.Equals(b.cfg) && a.adr.Equals(b.adr) && a.wp.Equals(b.wp) && sameRsn(a.rsn, b.rsn) &&
		a.push == b.push && a.forced == b.forced && a.start == b.start && a.zeroT == b.zeroT
}

// checkMerged: the clauses every merge result must satisfy w.r.t. the two inputs as they were before.
func checkMerged(kind string, res *model.PushRequest, a, b reqSnap) string {
	if !res.ConfigsUpdated.Equals(a.cfg.Copy().Merge(b.cfg)) {
		return "keys-union(configs)"
	}
	if !res.AddressesUpdated.Equals(a.adr.Copy().Merge(b.adr)) {
		return "keys-union(addresses)"
	}
	if !res.WaypointsUpdated.Equals(a.wp.Copy().Merge(b.wp)) {
		return "keys-union(waypoints)"
	}
	if res.Forced != (a.forced || b.forced) {
		return "forced-or"
	}
	if b.push != nil && res.Push != b.push {
		return "push-newest"
	}
	if b.push == nil && kind == "merge" && res.Push != a.push {
		return "push-newest(kept)"
	}
	if res.Start.IsZero() != a.zeroT || res.Start.Unix() != a.start {
		return "start-oldest"
	}
	want := map[model.TriggerReason]int{}
	for k, v := range a.rsn {
		want[k] += v
	}
	for k, v := range b.rsn {
		want[k] += v
	}
	if !sameRsn(want, res.Reason) {
		return "reason-counts-add"
	}
	return ""
}

func oracleMerge(in, outp string) {
	out := wire.Create(outp)
	defer out.Close()
	s := newMergeSUT()
	verdict, caseOpen, idx := "", false, 0
	flush := func() {
		if caseOpen {
			if verdict == "" {
				verdict = "OK"
			}
			out.Line(verdict)
		}
	}
	fail := func(clause, detail string) {
		if verdict == "" {
			verdict = fmt.Sprintf("FAIL %s op=%d %s", clause, idx, wire.Enc(detail))
		}
	}
	for _, f := range wire.ReadLines(in) {
		if f[0] == "case" {
			flush()
			s = newMergeSUT()
			verdict, caseOpen, idx = "", true, 0
			continue
		}
		idx++
		line := strings.Join(f, " ")
		if f[0] != "merge" && f[0] != "cmerge" {
			if s.apply(f) == "crash" {
				fail("never-crashes", line)
			}
			continue
		}
		if len(f) != 3 {
			continue
		}
		a, ok1 := s.reqArg(f[1])
		b, ok2 := s.reqArg(f[2])
		if !ok1 || !ok2 {
			continue
		}
		before := make([]reqSnap, len(s.h.reqs))
		for i, r := range s.h.reqs {
			before[i] = snapReq(r)
		}
		known := map[uintptr]bool{}
		for _, sn := range before {
			for _, p := range sn.ptrs {
				if p != 0 {
					known[p] = true
				}
			}
		}
		nreq := len(s.h.reqs)
		if s.apply(f) == "crash" {
			fail("never-crashes", line)
			continue
		}
		var res *model.PushRequest
		if s.last >= 0 {
			res = s.h.reqs[s.last]
		}
		switch {
		case a == nil:
			if res != b {
				fail("nil-receiver-returns-argument", line)
			}
		case b == nil:
			if res != a {
				fail("nil-argument-returns-receiver", line)
			}
		default:
			if res == nil {
				fail("result-nil", line)
				continue
			}
			if c := checkMerged(f[0], res, before[s.h.reqIdx[a]], before[s.h.reqIdx[b]]); c != "" {
				fail(c, line)
			}
			if f[0] == "merge" && res != a {
				fail("merge-returns-receiver", line)
			}
			if f[0] == "cmerge" {
				if s.last < nreq {
					fail("copymerge-result-not-fresh", line)
				}
				for _, p := range snapReq(res).ptrs {
					if p != 0 && known[p] {
						fail("copymerge-result-shares-map-with-existing-request", line)
					}
				}
			}
		}
		// what may have been written
		ai := -1
		if a != nil {
			ai = s.h.reqIdx[a]
		}
		for i := 0; i < nreq; i++ {
			r := s.h.reqs[i]
			if f[0] == "cmerge" || a == nil || b == nil {
				if !before[i].sameContent(r) || before[i].ptrs != snapReq(r).ptrs {
					fail(f[0]+"-mutates-existing-request", fmt.Sprintf("%s q%d", line, i))
				}
				continue
			}
			if i == ai {
				continue
			}
			// in-place Merge: another request may only change through a map object it shares with the receiver
			now := snapReq(r)
			if now.ptrs != before[i].ptrs || now.push != before[i].push || now.forced != before[i].forced || now.start != before[i].start {
				fail("merge-mutates-other-request-fields", fmt.Sprintf("%s q%d", line, i))
			}
			shared := func(k int) bool {
				p := before[i].ptrs[k]
				return p != 0 && p == before[ai].ptrs[k]
			}
			if !shared(0) && !now.cfg.Equals(before[i].cfg) || !shared(1) && !now.adr.Equals(before[i].adr) ||
				!shared(2) && !now.wp.Equals(before[i].wp) || !shared(3) && !sameRsn(now.rsn, before[i].rsn) {
				fail("merge-mutates-unshared-map-of-other-request", fmt.Sprintf("%s q%d", line, i))
			}
		}
	}
	flush()
}
