package main

import (
	"fmt"
	"strconv"
	"sync"
	"sync/atomic"
	"time"

	"istio.io/istio/pilot/pkg/model"
	pxds "istio.io/istio/pilot/pkg/xds"
	"istio.io/istio/pkg/config/schema/kind"
	"istio.io/istio/pkg/util/sets"
	"verifharness/internal/wire"
)

// stress: the sequential theorems assume that every PushQueue method is one atomic step (it holds the
// queue's mutex throughout).  This smoke test exercises exactly that assumption: P producers and W
// workers hammer one REAL queue concurrently; afterwards the no_loss / one-in-flight / isolation
// clauses are evaluated on what the workers were handed.  One line: OK ... | FAIL <clause> ...
func stress(seed uint64, producers, workers, perProducer int) string {
	const nconn = 6
	q := pxds.NewPushQueue()
	cons, _, idx := newConns(nconn)
	var mu sync.Mutex
	accepted := make([]factSet, nconn)
	handed := make([]factSet, nconn)
	for i := range accepted {
		accepted[i], handed[i] = sets.New[string](), sets.New[string]()
	}
	inflight := make([]atomic.Int32, nconn)
	var double, handouts atomic.Int64
	var shared []*model.PushRequest
	var sharedSnap []reqSnap

	var wg sync.WaitGroup
	for w := 0; w < workers; w++ {
		wg.Add(1)
		go func() {
			defer wg.Done()
			for {
				c, r, down := q.Dequeue()
				if down {
					return
				}
				i := idx[c]
				if inflight[i].Add(1) != 1 {
					double.Add(1)
				}
				handouts.Add(1)
				f := reqFacts(r)
				mu.Lock()
				handed[i].Merge(f)
				mu.Unlock()
				if handouts.Load()%7 == 0 {
					time.Sleep(20 * time.Microsecond)
				}
				inflight[i].Add(-1)
				q.MarkDone(c)
			}
		}()
	}
	root := wire.NewRng(seed ^ 0x57E55)
	var pg sync.WaitGroup
	for p := 0; p < producers; p++ {
		r := root.Fork()
		pg.Add(1)
		go func(p int) {
			defer pg.Done()
			for j := 0; j < perProducer; j++ {
				req := &model.PushRequest{
					ConfigsUpdated: sets.New(model.ConfigKey{Kind: kind.VirtualService, Namespace: "p" + strconv.Itoa(p), Name: "k" + strconv.Itoa(j)}),
					Forced:         r.Chance(1, 50),
					Push:           &model.PushContext{},
					Reason:         model.NewReasonStats(model.ConfigUpdate),
				}
				f := reqFacts(req)
				if r.Chance(1, 4) { // a push: the same request object to every connection
					mu.Lock()
					shared = append(shared, req)
					sharedSnap = append(sharedSnap, snapReq(req))
					for i := range cons {
						accepted[i].Merge(f)
					}
					mu.Unlock()
					for _, c := range cons {
						q.Enqueue(c, req)
					}
				} else {
					i := r.Intn(nconn)
					mu.Lock()
					accepted[i].Merge(f)
					mu.Unlock()
					q.Enqueue(cons[i], req)
				}
			}
		}(p)
	}
	pg.Wait()
	drained := waitUntil(func() bool {
		s := q.VerifSnapshot()
		return len(s.Queue) == 0 && len(s.Pending) == 0 && len(s.Processing) == 0
	})
	q.ShutDown()
	// the workers leave when Dequeue reports the shutdown; a queue that does not wake them must not hang the run
	gone := make(chan struct{})
	go func() { wg.Wait(); close(gone) }()
	select {
	case <-gone:
	case <-time.After(patience()):
		return "FAIL workers-do-not-exit-after-shutdown"
	}
	if !drained {
		return "FAIL queue-does-not-drain"
	}
	if double.Load() > 0 {
		return fmt.Sprintf("FAIL two-pushes-in-flight-for-one-connection count=%d", double.Load())
	}
	for i := range cons {
		if !handed[i].Equals(accepted[i]) {
			lost, extra := accepted[i].Difference(handed[i]), handed[i].Difference(accepted[i])
			if len(lost) > 0 {
				return fmt.Sprintf("FAIL update-lost-or-weakened conn=%d lost=%d", i, len(lost))
			}
			return fmt.Sprintf("FAIL cross-connection-contamination conn=%d extra=%d", i, len(extra))
		}
	}
	for k, r := range shared {
		if !sharedSnap[k].sameContent(r) {
			return "FAIL queue-mutates-existing-request"
		}
	}
	return fmt.Sprintf("OK enqueues=%d handouts=%d shared=%d", producers*perProducer, handouts.Load(), len(shared))
}
