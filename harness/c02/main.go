// Harness for C02: drives the REAL model.PushRequest.Merge / CopyMerge, xds.PushQueue, the
// unexported debounce loop and doSendPushes (through pilot/pkg/xds/zz_verif_c02.go), one operation
// per line.
//
//	c02 gen    <stream> <seed> <ncases> <ops-out>
//	c02 exec   <stream> <ops-in> <impl-out>
//	c02 oracle <stream> <ops-in> <verdict-out>
//
// Streams: merge, queue, debounce, sender.  The Lean driver (lean/IstioModel/C02/Driver.lean)
// consumes the same ops file; outputs are compared line by line.
package main

import (
	"fmt"
	"os"
	"strconv"

	_ "verifharness/internal/quiet"
	"verifharness/internal/wire"
)

type sut interface {
	apply(f []string) string
}

func main() {
	if len(os.Args) < 2 {
		fmt.Fprintln(os.Stderr, "usage: c02 gen|exec|oracle ...")
		os.Exit(2)
	}
	switch os.Args[1] {
	case "gen":
		seed, _ := strconv.ParseUint(os.Args[3], 10, 64)
		n, _ := strconv.Atoi(os.Args[4])
		gen(os.Args[2], seed, n, os.Args[5])
	case "stress": // stress <seed> <producers> <workers> <per-producer>
		seed, _ := strconv.ParseUint(os.Args[2], 10, 64)
		p, _ := strconv.Atoi(os.Args[3])
		w, _ := strconv.Atoi(os.Args[4])
		n, _ := strconv.Atoi(os.Args[5])
		fmt.Println(stress(seed, p, w, n))
	case "srcfacts":
		for _, l := range srcfacts(os.Args[2]) {
			fmt.Println(l)
		}
	case "exec":
		execOps(os.Args[2], os.Args[3], os.Args[4])
	case "oracle":
		switch os.Args[2] {
		case "merge":
			oracleMerge(os.Args[3], os.Args[4])
		case "queue":
			oracleQueue(os.Args[3], os.Args[4])
		case "debounce":
			oracleDebounce(os.Args[3], os.Args[4])
		case "sender":
			oracleSender(os.Args[3], os.Args[4])
		case "server":
			oracleServer(os.Args[3], os.Args[4])
		default:
			fmt.Fprintln(os.Stderr, "unknown stream", os.Args[2])
			os.Exit(2)
		}
	default:
		os.Exit(2)
	}
}

func execOps(stream, in, outp string) {
	out := wire.Create(outp)
	defer out.Close()
	var s sut
	switch stream {
	case "merge":
		s = newMergeSUT()
	case "queue":
		s = newQueueSUT(0)
	case "debounce":
		s = newDebSUT(5, 20, true)
	case "sender":
		s = newSndSUT(0, 1)
	case "server":
		// side file: class counters of the run (which way a both-ready select went, ...), for the evidence only
		st := wire.Create(outp + ".stats")
		b := &srvBox{statsOut: st}
		defer func() {
			if b.s != nil {
				b.s.close()
			}
			st.Close()
		}()
		s = b
	default:
		fmt.Fprintln(os.Stderr, "unknown stream", stream)
		os.Exit(2)
	}
	if d, ok := s.(*debSUT); ok {
		// side file: one `trace ...` line per `end`, the observed event trace of that case (input of
		// the Lean driver's trace acceptance)
		tr := wire.Create(outp + ".trace")
		defer tr.Close()
		d.traceOut = tr
		for _, f := range wire.ReadLines(in) {
			out.Line(d.apply(f))
			out.Flush()
			d.traceOut = tr // `case` replaces the SUT value
		}
		return
	}
	for _, f := range wire.ReadLines(in) {
		out.Line(s.apply(f))
		out.Flush()
	}
}

func gen(stream string, seed uint64, n int, outp string) {
	out := wire.Create(outp)
	defer out.Close()
	root := wire.NewRng(seed ^ 0xC02)
	for c := 0; c < n; c++ {
		r := root.Fork()
		switch stream {
		case "merge":
			genMergeCase(r, c, out)
		case "queue":
			genQueueCase(r, c, out)
		case "debounce":
			genDebounceCase(r, c, out)
		case "sender":
			genSenderCase(r, c, out)
		case "server":
			genServerCase(r, c, out)
		default:
			fmt.Fprintln(os.Stderr, "unknown stream", stream)
			os.Exit(2)
		}
	}
}
