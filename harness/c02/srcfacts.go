package main

import (
	"fmt"
	"go/ast"
	"go/parser"
	"go/printer"
	"go/token"
	"path/filepath"
	"strings"
)

// srcfacts: facts read off the source of the code under check (go/ast), one line each: `<name> ok` or
// `<name> FAIL <why>`.
//
// The guard of the model event PEv.proxyUpdate (`p.version <= ver`: a request enqueued later never carries an older
// push context) is not something the sequential differential run can see broken; in the real code it rests on one
// lock: initPushContext publishes the new context under pushContextMu.Lock, ProxyUpdate and the debug AdsPushAll read
// the context AND enqueue under pushContextMu.RLock.  The `puhammer` op goes after the race dynamically; these facts
// pin the lock pairing itself.
func srcfacts(repo string) []string {
	var out []string
	fset := token.NewFileSet()
	parse := func(rel string) *ast.File {
		f, err := parser.ParseFile(fset, filepath.Join(repo, rel), nil, 0)
		if err != nil {
			out = append(out, fmt.Sprintf("parse:%s FAIL %v", rel, err))
			return nil
		}
		return f
	}
	str := func(n ast.Node) string {
		var b strings.Builder
		_ = printer.Fprint(&b, fset, n)
		return b.String()
	}
	findFunc := func(f *ast.File, name string, method bool) *ast.FuncDecl {
		for _, d := range f.Decls {
			if fd, ok := d.(*ast.FuncDecl); ok && fd.Name.Name == name && (fd.Recv != nil) == method && fd.Body != nil {
				return fd
			}
		}
		return nil
	}
	// positions of the top-level statements `s.pushContextMu.<what>()` / `defer s.pushContextMu.<what>()` of a body
	stmtPos := func(fd *ast.FuncDecl, call string, deferred bool) token.Pos {
		for _, st := range fd.Body.List {
			switch x := st.(type) {
			case *ast.ExprStmt:
				if !deferred && str(x.X) == call {
					return x.Pos()
				}
			case *ast.DeferStmt:
				if deferred && str(x.Call) == call {
					return x.Pos()
				}
			}
		}
		return token.NoPos
	}
	callPos := func(fd *ast.FuncDecl, prefix string) []token.Pos {
		var ps []token.Pos
		ast.Inspect(fd.Body, func(n ast.Node) bool {
			if c, ok := n.(*ast.CallExpr); ok && strings.HasPrefix(str(c.Fun), prefix) && str(c.Fun) == prefix {
				ps = append(ps, c.Pos())
			}
			return true
		})
		return ps
	}
	// under: every call of `what` lies after the lock statement and before the unlock statement (a deferred unlock
	// right after the lock covers the rest of the body)
	under := func(name string, fd *ast.FuncDecl, lock, unlock string, whats ...string) {
		if fd == nil {
			out = append(out, name+" FAIL function-not-found")
			return
		}
		lp := stmtPos(fd, lock, false)
		if lp == token.NoPos {
			out = append(out, name+" FAIL no-"+lock)
			return
		}
		up := stmtPos(fd, unlock, false)
		dp := stmtPos(fd, unlock, true)
		if up == token.NoPos && (dp == token.NoPos || dp < lp) {
			out = append(out, name+" FAIL no-"+unlock+"-after-the-lock")
			return
		}
		for _, w := range whats {
			ps := callPos(fd, w)
			if len(ps) == 0 {
				out = append(out, name+" FAIL no-call-of-"+w)
				return
			}
			for _, p := range ps {
				if p < lp || (dp == token.NoPos && p > up) {
					out = append(out, fmt.Sprintf("%s FAIL %s-outside-the-lock(%s)", name, w, fset.Position(p)))
					return
				}
			}
		}
		out = append(out, name+" ok")
	}
	if f := parse("pilot/pkg/xds/ads.go"); f != nil {
		under("ProxyUpdate-reads-the-context-and-enqueues-under-pushContextMu.RLock", findFunc(f, "ProxyUpdate", true),
			"s.pushContextMu.RLock()", "s.pushContextMu.RUnlock()", "s.globalPushContext", "s.pushQueue.Enqueue")
		under("AdsPushAll(debug)-reads-the-context-and-enqueues-under-pushContextMu.RLock", findFunc(f, "AdsPushAll", false),
			"s.pushContextMu.RLock()", "s.pushContextMu.RUnlock()", "s.globalPushContext", "s.AdsPushAll")
	}
	if f := parse("pilot/pkg/xds/discovery.go"); f != nil {
		under("initPushContext-publishes-under-pushContextMu.Lock", findFunc(f, "initPushContext", true),
			"s.pushContextMu.Lock()", "s.pushContextMu.Unlock()", "s.Env.SetPushContext")
	}
	return out
}
