package main

import (
	"context"
	"errors"
	"fmt"
	"net"
	"os"
	"sort"
	"strconv"
	"strings"
	"sync"
	"sync/atomic"
	"time"

	core "github.com/envoyproxy/go-control-plane/envoy/config/core/v3"
	discovery "github.com/envoyproxy/go-control-plane/envoy/service/discovery/v3"
	"google.golang.org/grpc/metadata"
	"google.golang.org/grpc/peer"

	"istio.io/istio/pilot/pkg/model"
	pxds "istio.io/istio/pilot/pkg/xds"
	v3 "istio.io/istio/pilot/pkg/xds/v3"
	xdsfake "istio.io/istio/pilot/test/xds"
	"istio.io/istio/pkg/util/sets"
	"verifharness/internal/quiet"
	"verifharness/internal/wire"
)

// srvSUT runs the `server` stream: a REAL DiscoveryServer (pilot/test/xds.NewFakeDiscoveryServer) with
// its real ConfigUpdate -> pushChannel -> debounce -> Push -> AdsPushAll -> StartPush -> PushQueue ->
// doSendPushes pipeline, and real stream loops: every client is a hand-made gRPC server stream
// handed to DiscoveryServer.Stream (state of the world: pkg/xds.Stream -> Connection.Push) or
// DiscoveryServer.StreamDeltas (its own select loop), half of each.  The harness controls only what a
// client and the network could do: send the first request, make Send fail or block, end the stream
// context; it can park a connection in the middle of initialisation (registered, not yet
// initialised) through the gate of zz_verif_e2e.go.
//
// Observation point: DiscoveryServer.ProxyNeedsPush (a public func field) is wrapped; it is called by
// pushConnection / pushConnectionDelta with Event.pushRequest, so the wrapper sees, per proxy, every
// push request that reached that connection's stream loop.
type srvSUT struct {
	f     *srvFailer
	fs    *xdsfake.FakeDiscoveryServer
	d     *pxds.DiscoveryServer
	conns []*srvConn
	byID  map[string]*srvConn

	mu      sync.Mutex
	seen    map[int]factSet // connection -> "c:<key>" of every pushRequest its stream loop received, "f:<key>" if that request was forced
	vers    map[int][]uint64 // connection -> snapshot versions (PushContext.PushVersion counter) of those requests, in order (this window)
	lastVer map[int]uint64   // connection -> version of its last push before this window
	shared  map[*model.PushRequest]reqSnap // every request object seen by a stream loop, as it read at first sight
	nupd    int                            // updates issued so far: every update gets keys of its own (name~<n>)
	forcedK factSet                        // keys of forced updates
	gateArm atomic.Bool     // park the next connection reaching "init:after-addcon"
	gateHit chan struct{}
	gateGo  chan struct{}

	heldNow *srvConn // the connection currently parked between addCon and MarkInitialized

	verdict string
	opIdx   int
	ended   bool
}

// srvBox is the sut of the stream: one fresh server per case.
type srvBox struct{ s *srvSUT }

func (b *srvBox) apply(f []string) string {
	if f[0] == "case" {
		if b.s != nil {
			b.s.close()
		}
		b.s = newSrvSUT()
		return "ok"
	}
	if b.s == nil {
		return "bad-op"
	}
	return b.s.apply(f)
}

type srvFailer struct {
	mu       sync.Mutex
	cleanups []func()
}

func (f *srvFailer) Fail()                          { panic("Fail") }
func (f *srvFailer) FailNow()                       { panic("FailNow") }
func (f *srvFailer) Fatal(args ...any)              { panic(fmt.Sprint(args...)) }
func (f *srvFailer) Fatalf(format string, a ...any) { panic(fmt.Sprintf(format, a...)) }
func (f *srvFailer) Log(args ...any)                {}
func (f *srvFailer) Logf(format string, a ...any)   {}
func (f *srvFailer) TempDir() string                { d, _ := os.MkdirTemp("", "c02srv"); return d }
func (f *srvFailer) Helper()                        {}
func (f *srvFailer) Skip(args ...any)               {}
func (f *srvFailer) Cleanup(fn func()) {
	f.mu.Lock()
	defer f.mu.Unlock()
	f.cleanups = append(f.cleanups, fn)
}

func (f *srvFailer) done() {
	f.mu.Lock()
	cs := f.cleanups
	f.cleanups = nil
	f.mu.Unlock()
	for i := len(cs) - 1; i >= 0; i-- {
		func() {
			defer func() { _ = recover() }()
			cs[i]()
		}()
	}
}

// srvConn is one client.  Its stream object implements both the SotW and the delta server-stream
// interface (through the two wrapper types below); what a real network could do to it is scripted.
type srvConn struct {
	idx      int
	delta    bool
	nodeID   string
	ctx      context.Context
	cancel   context.CancelFunc
	reqs     chan *discovery.DiscoveryRequest
	dreqs    chan *discovery.DeltaDiscoveryRequest
	failSend atomic.Bool
	block    atomic.Bool
	unblock  chan struct{}
	sends    atomic.Int64
	returned chan struct{} // the server's stream handler returned
	held     bool
	// bookkeeping by the rule of the ops (not by observation)
	registered bool
	dead       bool
	expected   factSet
	failArmed  bool
}

func (c *srvConn) SetHeader(metadata.MD) error  { return nil }
func (c *srvConn) SendHeader(metadata.MD) error { return nil }
func (c *srvConn) SetTrailer(metadata.MD)       {}
func (c *srvConn) Context() context.Context     { return c.ctx }
func (c *srvConn) SendMsg(any) error            { return nil }
func (c *srvConn) RecvMsg(any) error            { return nil }

func (c *srvConn) send() error {
	c.sends.Add(1)
	if c.block.Load() {
		select {
		case <-c.unblock:
		case <-c.ctx.Done():
			return c.ctx.Err()
		}
	}
	if c.failSend.Load() {
		return errors.New("transport is closing")
	}
	if c.ctx.Err() != nil {
		return c.ctx.Err()
	}
	return nil
}

type sotwSide struct{ *srvConn }

func (s sotwSide) Send(*discovery.DiscoveryResponse) error { return s.send() }
func (s sotwSide) Recv() (*discovery.DiscoveryRequest, error) {
	select {
	case r := <-s.reqs:
		return r, nil
	case <-s.ctx.Done():
		return nil, s.ctx.Err()
	}
}

type deltaSide struct{ *srvConn }

func (s deltaSide) Send(*discovery.DeltaDiscoveryResponse) error { return s.send() }
func (s deltaSide) Recv() (*discovery.DeltaDiscoveryRequest, error) {
	select {
	case r := <-s.dreqs:
		return r, nil
	case <-s.ctx.Done():
		return nil, s.ctx.Err()
	}
}

func newSrvSUT() *srvSUT {
	s := &srvSUT{f: &srvFailer{}, byID: map[string]*srvConn{}, seen: map[int]factSet{}, vers: map[int][]uint64{}, lastVer: map[int]uint64{},
		shared: map[*model.PushRequest]reqSnap{}, forcedK: sets.New[string](), gateHit: make(chan struct{}, 1), gateGo: make(chan struct{})}
	s.fs = xdsfake.NewFakeDiscoveryServer(s.f, xdsfake.FakeOptions{DebounceTime: 3 * time.Millisecond})
	quiet.Silence()
	s.d = s.fs.Discovery
	inner := s.d.ProxyNeedsPush
	s.d.ProxyNeedsPush = func(proxy *model.Proxy, req *model.PushRequest) (*model.PushRequest, bool) {
		// called by pushConnection / pushConnectionDelta with Event.pushRequest, before anything is sent
		_, snap, _ := pxds.VerifC02ServerState(s.d)
		s.mu.Lock()
		if c := s.byID[proxy.ID]; c != nil {
			if s.seen[c.idx] == nil {
				s.seen[c.idx] = sets.New[string]()
			}
			for k := range req.ConfigsUpdated {
				s.seen[c.idx].Insert("c:" + showConfigKey(k))
				if req.Forced {
					s.seen[c.idx].Insert("f:" + showConfigKey(k))
				}
			}
			// "uses the newest snapshot": versions a connection is pushed with never go back
			v := pushVersionOf(req.Push)
			prev := s.lastVer[c.idx]
			if vs := s.vers[c.idx]; len(vs) > 0 {
				prev = vs[len(vs)-1]
			}
			if v < prev {
				s.fail("push-with-older-snapshot-than-the-previous-push-of-the-connection")
			}
			s.vers[c.idx] = append(s.vers[c.idx], v)
			// "at most one push in flight": the queue must still hold the connection as processing while
			// its push runs (done() is what ends the push)
			held := false
			for pc := range snap.Processing {
				if strings.HasPrefix(pc.ID(), proxy.ID+"-") {
					held = true
				}
			}
			if !held {
				s.fail("push-running-after-done(slot-released-before-the-push-finished)")
			}
		}
		// "one proxy's push never alters what another proxy is told": the request object is shared by all
		// connections of a push round; it must read the same whenever a stream loop gets to it
		if old, ok := s.shared[req]; ok {
			if !old.sameContent(req) {
				s.fail("shared-request-altered-between-proxies")
			}
		} else {
			s.shared[req] = snapReq(req)
		}
		s.mu.Unlock()
		return inner(proxy, req)
	}
	pxds.VerifE2ESetGate(func(point string) {
		if point == "init:after-addcon" && s.gateArm.CompareAndSwap(true, false) {
			gate := s.gateGo
			s.gateHit <- struct{}{}
			<-gate
		}
	})
	return s
}

func pushVersionOf(pc *model.PushContext) uint64 {
	if pc == nil {
		return 0
	}
	v := pc.PushVersion
	if i := strings.LastIndex(v, "/"); i >= 0 {
		v = v[i+1:]
	}
	n, _ := strconv.ParseUint(v, 10, 64)
	return n
}

func (s *srvSUT) close() {
	pxds.VerifE2ESetGate(nil)
	for _, c := range s.conns {
		c.cancel()
	}
	s.f.done()
}

func (s *srvSUT) fail(clause string) {
	if s.verdict == "" {
		s.verdict = fmt.Sprintf("%s@op%d", clause, s.opIdx)
	}
}

func (s *srvSUT) open(idx int, delta, held bool) string {
	if idx != len(s.conns) {
		return "bad-op"
	}
	// a plaintext peer, as a client on the insecure xDS port would be
	ctx, cancel := context.WithCancel(peer.NewContext(context.Background(),
		&peer.Peer{Addr: &net.TCPAddr{IP: net.IPv4(10, 0, byte(idx/200), byte(1+idx%200)), Port: 40000 + idx}}))
	c := &srvConn{idx: idx, delta: delta, nodeID: fmt.Sprintf("sidecar~10.0.%d.%d~app%d.default~default.svc.cluster.local", idx/200, 1+idx%200, idx),
		ctx: ctx, cancel: cancel, reqs: make(chan *discovery.DiscoveryRequest, 4), dreqs: make(chan *discovery.DeltaDiscoveryRequest, 4),
		unblock: make(chan struct{}), returned: make(chan struct{}), expected: sets.New[string](), held: held}
	s.conns = append(s.conns, c)
	s.mu.Lock()
	s.byID[fmt.Sprintf("app%d.default", idx)] = c // model.Proxy.ID = third field of the node id
	s.mu.Unlock()
	if held {
		s.gateArm.Store(true)
	}
	go func() {
		defer close(c.returned)
		defer c.cancel() // gRPC cancels the stream context when the handler returns
		defer func() { _ = recover() }()
		var err error
		if delta {
			err = s.d.StreamDeltas(deltaSide{c})
		} else {
			err = s.d.Stream(sotwSide{c})
		}
		if os.Getenv("C02_DEBUG") != "" {
			fmt.Fprintln(os.Stderr, "stream", c.idx, "returned:", err)
		}
	}()
	node := &core.Node{Id: c.nodeID}
	if delta {
		c.dreqs <- &discovery.DeltaDiscoveryRequest{Node: node, TypeUrl: v3.ClusterType}
	} else {
		c.reqs <- &discovery.DiscoveryRequest{Node: node, TypeUrl: v3.ClusterType}
	}
	if held {
		select {
		case <-s.gateHit:
		case <-time.After(patience()):
			degraded.Store(true)
			s.fail("harness:gate-not-reached")
		}
		c.registered = true // addCon has happened
		return "ok"
	}
	if !waitUntil(func() bool { return c.sends.Load() >= 1 }) {
		s.fail("first-request-not-answered")
	}
	c.registered = true
	return "ok"
}

type srvRest struct {
	tok, proc, queued, pushCh int
	in, committed             int64
}

func (s *srvSUT) rest() srvRest {
	tok, snap, pc := pxds.VerifC02ServerState(s.d)
	return srvRest{tok: tok, proc: len(snap.Processing), queued: len(snap.Queue) + len(snap.Pending), pushCh: pc,
		in: s.d.InboundUpdates.Load(), committed: s.d.CommittedUpdates.Load()}
}

// quiescent: every accepted update has gone all the way (debounced, pushed, enqueued, dequeued,
// delivered, done).  State based; the only token left in the semaphore is the sender loop's own.
func (r srvRest) quiescent() bool {
	return r.in == r.committed && r.pushCh == 0 && r.queued == 0 && r.proc == 0 && r.tok <= 1
}

// unsettledClass names what keeps the server from coming to rest (a state class, for fingerprints).
func (s *srvSUT) unsettledClass() string {
	r := s.rest()
	_, snap, _ := pxds.VerifC02ServerState(s.d)
	switch {
	case r.pushCh > 0:
		return "update-stuck-in-push-channel"
	case r.in != r.committed:
		return "update-not-committed-by-debounce"
	case r.proc > 0:
		kind := "unknown-client"
		for pc := range snap.Processing {
			for _, c := range s.conns {
				if strings.HasPrefix(pc.ID(), fmt.Sprintf("app%d.default-", c.idx)) {
					k := "sotw"
					if c.delta {
						k = "delta"
					}
					st := "live"
					if c.dead {
						st = "gone"
					}
					kind = st + "-" + k + "-client"
				}
			}
		}
		if r.tok < r.proc {
			return "processing-entry-held-without-token(" + kind + ")"
		}
		return "processing-entry-held(" + kind + ")"
	case r.queued > 0:
		return "queue-nonempty-loop-blocked"
	case r.tok > 1:
		return "token-held-without-processing-entry"
	}
	return "other"
}

func (s *srvSUT) sync() bool {
	ok := waitUntil(func() bool { return s.rest().quiescent() })
	if !ok {
		return false
	}
	// dead connections: their handler must have returned
	for _, c := range s.conns {
		if c.dead {
			select {
			case <-c.returned:
			case <-time.After(patience()):
				degraded.Store(true)
				return false
			}
		}
	}
	return waitUntil(func() bool { return s.rest().quiescent() })
}

func (s *srvSUT) summary() string {
	global := pushVersionOf(pxds.VerifE2EGlobalPushContext(s.d))
	s.mu.Lock()
	defer s.mu.Unlock()
	parts := make([]string, len(s.conns))
	for i, c := range s.conns {
		switch {
		case c.dead:
			parts[i] = fmt.Sprintf("%d=dead", i)
		default:
			seen := sets.New[string]()
			for f := range s.seen[i] {
				// "f:<key>" is reported for keys of forced updates only (a key of an unforced update may or may
				// not have been merged with a forced one: batching)
				if strings.HasPrefix(f, "c:") || s.forcedK.Contains(f[2:]) {
					seen.Insert(f)
				}
			}
			cur := "-"
			if vs := s.vers[i]; len(vs) > 0 {
				cur = wire.B(vs[len(vs)-1] == global)
			}
			parts[i] = fmt.Sprintf("%d=%s;cur=%s", i, wire.EncSet(sets.SortedList(seen)), cur)
		}
	}
	if len(parts) == 0 {
		return "-"
	}
	return strings.Join(parts, " ")
}

// judge: the property on the real server, from the rule of the ops: a connection that was
// registered when ConfigUpdate accepted an update, and is still alive, has received a push
// request covering it.
func (s *srvSUT) judge() {
	global := pushVersionOf(pxds.VerifE2EGlobalPushContext(s.d))
	s.mu.Lock()
	defer s.mu.Unlock()
	for r, old := range s.shared {
		if !old.sameContent(r) {
			s.fail("shared-request-altered-between-proxies")
		}
	}
	for i, c := range s.conns {
		if c.dead || !c.registered {
			continue
		}
		seen := s.seen[i]
		if seen == nil {
			seen = sets.New[string]()
		}
		if vs := s.vers[i]; len(vs) > 0 && vs[len(vs)-1] != global {
			s.fail("at-rest-last-push-of-a-connection-not-from-the-newest-snapshot")
		}
		if lost := c.expected.Difference(seen); len(lost) > 0 {
			clause := "accepted-update-never-reached-a-connected-proxy"
			if c.held {
				clause = "accepted-update-never-reached-a-proxy-registered-during-initialisation"
			}
			s.fail(clause)
		}
	}
}

// newWindow: the server is at rest and has been judged; from here on only what is accepted from now
// on is expected and only what arrives from now on counts as seen.
func (s *srvSUT) newWindow() {
	s.mu.Lock()
	defer s.mu.Unlock()
	s.forcedK = sets.New[string]()
	for i, c := range s.conns {
		c.expected = sets.New[string]()
		s.seen[i] = sets.New[string]()
		if vs := s.vers[i]; len(vs) > 0 {
			s.lastVer[i] = vs[len(vs)-1]
		}
		s.vers[i] = nil
	}
}

func (s *srvSUT) conn(t string) *srvConn {
	i, err := strconv.Atoi(t)
	if err != nil || i < 0 || i >= len(s.conns) {
		return nil
	}
	return s.conns[i]
}

func (s *srvSUT) anyStuck() bool {
	for _, c := range s.conns {
		if !c.dead && (c.block.Load() || (c.held && s.heldNow == c)) {
			return true
		}
	}
	return false
}

func (s *srvSUT) apply(f []string) (out string) {
	defer func() {
		if r := recover(); r != nil {
			out = "crash"
			s.fail("never-crashes")
		}
	}()
	s.opIdx++
	switch f[0] {
	case "conn", "connheld":
		if len(f) != 3 || (f[2] != "sotw" && f[2] != "delta") || s.ended {
			return "bad-op"
		}
		i, err := strconv.Atoi(f[1])
		if err != nil || (f[0] == "connheld" && s.heldNow != nil) {
			return "bad-op"
		}
		if i != len(s.conns) {
			return "bad-op"
		}
		r := s.open(i, f[2] == "delta", f[0] == "connheld")
		if f[0] == "connheld" && r == "ok" {
			s.heldNow = s.conns[i]
		}
		return r
	case "release":
		c := s.conn(f[1])
		if len(f) != 2 || c == nil || s.heldNow != c {
			return "bad-op"
		}
		s.heldNow = nil
		close(s.gateGo)
		s.gateGo = make(chan struct{})
		if !c.dead {
			if !waitUntil(func() bool { return c.sends.Load() >= 1 }) {
				s.fail("first-request-not-answered")
			}
		}
		return "ok"
	case "update":
		if len(f) != 3 || s.ended {
			return "bad-op"
		}
		forced := f[1] == "1"
		keys := sets.New[model.ConfigKey]()
		facts := sets.New[string]()
		for _, k := range wire.DecList(f[2]) {
			// occurrences, not accumulated key sets: what is expected and what was seen is counted per sync
			// window (both are emptied at every sync), and the generator gives most updates names of their own
			ck := parseConfigKey(k)
			keys.Insert(ck)
			facts.Insert("c:" + showConfigKey(ck))
			if forced {
				facts.Insert("f:" + showConfigKey(ck))
				s.forcedK.Insert(showConfigKey(ck))
			}
		}
		s.nupd++
		req := &model.PushRequest{ConfigsUpdated: keys, Forced: forced, Reason: model.NewReasonStats(model.ConfigUpdate)}
		for _, c := range s.conns {
			if c.registered && !c.dead {
				c.expected.Merge(facts)
				if forced && c.failArmed {
					c.dead = true // its next Send fails: the stream loop returns the error
				}
			}
		}
		s.d.ConfigUpdate(req)
		return "ok"
	case "pushed":
		// barrier: every update accepted so far has been through StartPush (pushFn has returned);
		// nothing is said about delivery, so this is reachable while a connection is held or blocked
		if len(f) != 1 {
			return "bad-op"
		}
		if !waitUntil(func() bool { r := s.rest(); return r.in == r.committed && r.pushCh == 0 }) {
			s.fail("accepted-update-never-pushed")
		}
		return "ok"
	case "failsend":
		c := s.conn(f[1])
		if len(f) != 2 || c == nil || s.heldNow == c {
			return "bad-op" // its first response has not been sent yet
		}
		c.failSend.Store(true)
		c.failArmed = true
		return "ok"
	case "blocksend":
		c := s.conn(f[1])
		if len(f) != 2 || c == nil || c.block.Load() {
			return "bad-op"
		}
		c.block.Store(true)
		return "ok"
	case "unblock":
		c := s.conn(f[1])
		if len(f) != 2 || c == nil || !c.block.Load() {
			return "bad-op"
		}
		c.block.Store(false)
		close(c.unblock)
		c.unblock = make(chan struct{})
		return "ok"
	case "closectx":
		c := s.conn(f[1])
		if len(f) != 2 || c == nil {
			return "bad-op"
		}
		c.dead = true
		c.cancel()
		if s.heldNow == c { // the initialisation goroutine runs on and finds the stream gone
			s.heldNow = nil
			close(s.gateGo)
			s.gateGo = make(chan struct{})
		}
		return "ok"
	case "sync":
		if len(f) != 1 || s.anyStuck() || s.ended {
			return "bad-op"
		}
		if !s.sync() {
			s.fail("does-not-come-to-rest:" + s.unsettledClass())
			return s.summary() + " UNSETTLED"
		}
		s.judge()
		sum := s.summary()
		s.newWindow()
		return sum
	case "end":
		if s.ended {
			return "bad-op"
		}
		// let everything go that the script still holds, then look at the server at rest
		if s.heldNow != nil {
			s.heldNow = nil
			close(s.gateGo)
			s.gateGo = make(chan struct{})
		}
		for _, c := range s.conns {
			if c.block.Load() {
				c.block.Store(false)
				close(c.unblock)
				c.unblock = make(chan struct{})
			}
		}
		settled := s.sync()
		s.ended = true
		if !settled {
			s.fail("does-not-come-to-rest:" + s.unsettledClass())
		} else {
			s.judge()
		}
		sum := s.summary()
		r := s.rest()
		if settled && (r.proc != 0 || r.tok > 1) {
			s.fail("token-or-processing-entry-leaked")
		}
		v := "OK"
		if s.verdict != "" {
			v = "FAIL:" + s.verdict
		}
		extra := ""
		if !settled {
			extra = " UNSETTLED"
		}
		return fmt.Sprintf("%s held=%d%s verdict=%s", sum, r.proc, extra, v)
	}
	return "bad-op"
}

// ---------------------------------------------------------------- generator

var srvKeys = []string{"VirtualService/ns1/a", "DestinationRule/ns1/b", "Gateway/ns3/g", "VirtualService/ns2/v", "DestinationRule/ns2/d", "ServiceEntry/ns2/c"}

func genServerCase(r *wire.Rng, c int, out *wire.Out) {
	out.Line("case", strconv.Itoa(c), "server")
	n := 0
	kind := func() string { return wire.Pick(r, []string{"sotw", "delta"}) }
	alive := []int{}
	nupd := 0
	var lastKeys []string
	upd := func(forced bool) {
		var ks []string
		if lastKeys != nil && r.Chance(1, 3) {
			// the same keys again (a config changed twice): this notification must arrive as well
			ks = lastKeys
			if r.Chance(1, 2) {
				forced = false
			}
		} else {
			for _, k := range wire.Subset(r, srvKeys, 1, 3) {
				ks = append(ks, k+strconv.Itoa(nupd)) // names of its own
			}
			if len(ks) == 0 {
				ks = []string{wire.Pick(r, srvKeys) + strconv.Itoa(nupd)}
			}
		}
		nupd++
		lastKeys = ks
		out.Line("update", wire.B(forced), wire.EncList(ks))
	}
	for i, k := 0, 1+r.Intn(3); i < k; i++ {
		out.Line("conn", strconv.Itoa(n), kind())
		alive = append(alive, n)
		n++
	}
	for step, steps := 0, 2+r.Intn(5); step < steps; step++ {
		switch r.Intn(7) {
		case 0, 1: // a burst of updates (merged by debounce and by the queue)
			for i, k := 0, 1+r.Intn(4); i < k; i++ {
				upd(r.Chance(1, 2))
			}
			out.Line("sync")
			if lastKeys != nil && r.Chance(1, 3) {
				// the very same notification again, in a window of its own
				out.Line("update", "0", wire.EncList(lastKeys))
				out.Line("sync")
			}
		case 2: // a connection registered in the middle of its initialisation must not miss the push
			out.Line("sync")
			out.Line("connheld", strconv.Itoa(n), kind())
			for i, k := 0, 1+r.Intn(2); i < k; i++ {
				upd(r.Chance(1, 2))
			}
			if !r.Chance(1, 5) {
				out.Line("pushed") // StartPush has run while the connection was registered but not initialised
			}
			if r.Chance(1, 3) {
				// the client gives up while its push event is parked (its stream loop never got to read it)
				out.Line("closectx", strconv.Itoa(n))
			} else {
				out.Line("release", strconv.Itoa(n))
				alive = append(alive, n)
			}
			n++
			out.Line("sync")
		case 3: // the client's transport fails on the next response
			if len(alive) > 0 {
				j := r.Intn(len(alive))
				out.Line("failsend", strconv.Itoa(alive[j]))
				upd(true)
				if r.Chance(1, 2) {
					upd(r.Chance(1, 2))
				}
				alive = append(alive[:j], alive[j+1:]...)
				out.Line("sync")
			}
		case 4: // the client stops reading (Send blocks), more pushes pile up for it, then it goes away
			if len(alive) > 0 {
				j := r.Intn(len(alive))
				out.Line("blocksend", strconv.Itoa(alive[j]))
				upd(true)
				upd(true)
				if r.Chance(2, 3) {
					out.Line("closectx", strconv.Itoa(alive[j]))
					alive = append(alive[:j], alive[j+1:]...)
				} else {
					out.Line("unblock", strconv.Itoa(alive[j]))
				}
				out.Line("sync")
			}
		case 5: // the client goes away while idle
			if len(alive) > 0 {
				j := r.Intn(len(alive))
				out.Line("closectx", strconv.Itoa(alive[j]))
				alive = append(alive[:j], alive[j+1:]...)
				upd(r.Chance(1, 2))
				out.Line("sync")
			}
		default:
			out.Line("sync")
			out.Line("conn", strconv.Itoa(n), kind())
			alive = append(alive, n)
			n++
		}
	}
	out.Line("end")
}

// keep sort imported for summary helpers of other files
var _ = sort.Ints

func oracleServer(in, outp string) {
	out := wire.Create(outp)
	defer out.Close()
	b := &srvBox{}
	open := false
	emit := func() {
		if !open {
			return
		}
		if b.s.verdict == "" {
			out.Line("OK")
		} else {
			out.Line("FAIL " + strings.Replace(b.s.verdict, "@", " ", 1))
		}
		open = false
	}
	for _, f := range wire.ReadLines(in) {
		if f[0] == "case" {
			emit()
			b.apply(f)
			open = true
			continue
		}
		b.apply(f)
	}
	emit()
	if b.s != nil {
		b.s.close()
	}
}
