package main

import (
	"context"
	"errors"
	"fmt"
	"net"
	"os"
	"sort"
	"strconv"
	"strings"
	"sync"
	"sync/atomic"
	"time"

	core "github.com/envoyproxy/go-control-plane/envoy/config/core/v3"
	discovery "github.com/envoyproxy/go-control-plane/envoy/service/discovery/v3"
	"google.golang.org/grpc/metadata"
	"google.golang.org/grpc/peer"

	"istio.io/istio/pilot/pkg/features"
	"istio.io/istio/pkg/cluster"
	"istio.io/istio/pkg/config/schema/kind"
	"istio.io/istio/pilot/pkg/model"
	pxds "istio.io/istio/pilot/pkg/xds"
	v3 "istio.io/istio/pilot/pkg/xds/v3"
	xdsfake "istio.io/istio/pilot/test/xds"
	"istio.io/istio/pkg/util/sets"
	"verifharness/internal/quiet"
	"verifharness/internal/wire"
)

// srvSUT runs the `server` stream: a REAL DiscoveryServer (pilot/test/xds.NewFakeDiscoveryServer) with
// its real ConfigUpdate -> pushChannel -> debounce -> Push -> AdsPushAll -> StartPush -> PushQueue ->
// doSendPushes pipeline, and real stream loops: every client is a hand-made gRPC server stream
// handed to DiscoveryServer.Stream (state of the world: pkg/xds.Stream -> Connection.Push) or
// DiscoveryServer.StreamDeltas (its own select loop), half of each.  The harness controls only what a
// client and the network could do: send the first request, make Send fail or block, end the stream
// context; it can park a connection in the middle of initialisation (registered, not yet
// initialised) through the gate of zz_verif_e2e.go.
//
// Observation point: DiscoveryServer.ProxyNeedsPush (a public func field) is wrapped; it is called by
// pushConnection / pushConnectionDelta with Event.pushRequest, so the wrapper sees, per proxy, every
// push request that reached that connection's stream loop.
type srvSUT struct {
	f     *srvFailer
	fs    *xdsfake.FakeDiscoveryServer
	d     *pxds.DiscoveryServer
	conns []*srvConn
	byID  map[string]*srvConn
	byPeer map[string]*srvConn

	mu      sync.Mutex
	seen    map[int]factSet // connection -> "c:<key>" of every pushRequest its stream loop received, "f:<key>" if that request was forced
	vers    map[int][]uint64 // connection -> snapshot versions (PushContext.PushVersion counter) of those requests, in order (this window)
	lastVer map[int]uint64   // connection -> version of its last push before this window
	shared  map[*model.PushRequest]reqSnap // every request object seen by a stream loop, as it read at first sight
	nupd    int                            // updates issued so far: every update gets keys of its own (name~<n>)
	forcedK factSet                        // keys of forced updates
	gateArm atomic.Pointer[chan struct{}] // park the next connection reaching "init:after-addcon" until this channel is closed
	gateHit chan struct{}

	eds        bool           // EDS debounce setting of this case
	winUpd     int            // producers' calls in this sync window
	winBypass  int            // ... of which endpoints-only with EDS debounce off (pushed outside the debounce loop)
	stoppedSrv bool           // the server's stop channel has been closed and DiscoveryServer.Shutdown() called
	stats      map[string]int // class counters for the evidence (side file <out>.stats)
	hammerStop chan struct{}  // closing it ends the goroutines of a `puhammer`
	hammerWG   sync.WaitGroup
	statsOut   *wire.Out
	nconfig int64    // ConfigUpdate calls made by the harness (InboundUpdates must agree)
	inBase  int64    // InboundUpdates when the case started (the server's own start-up notifications)
	down    bool     // DiscoveryServer.Shutdown() has been called (the push queue ignores new requests)

	verdict string
	opIdx   int
	ended   bool
	active  bool // something has been accepted since the last sync (a stream loop may be in a push)
}

// srvBox is the sut of the stream: one fresh server per case.
type srvBox struct {
	s        *srvSUT
	statsOut *wire.Out
}

func (b *srvBox) apply(f []string) string {
	if f[0] == "case" {
		if b.s != nil {
			b.s.close()
		}
		throttle, eds := 0, true
		if len(f) >= 5 {
			throttle, _ = strconv.Atoi(f[3])
			eds = f[4] != "0"
		}
		b.s = newSrvSUT(throttle, eds)
		b.s.statsOut = b.statsOut
		return "ok"
	}
	if b.s == nil {
		return "bad-op"
	}
	return b.s.apply(f)
}

type srvFailer struct {
	mu       sync.Mutex
	cleanups []func()
}

func (f *srvFailer) Fail()                          { panic("Fail") }
func (f *srvFailer) FailNow()                       { panic("FailNow") }
func (f *srvFailer) Fatal(args ...any)              { panic(fmt.Sprint(args...)) }
func (f *srvFailer) Fatalf(format string, a ...any) { panic(fmt.Sprintf(format, a...)) }
func (f *srvFailer) Log(args ...any)                {}
func (f *srvFailer) Logf(format string, a ...any)   {}
func (f *srvFailer) TempDir() string                { d, _ := os.MkdirTemp("", "c02srv"); return d }
func (f *srvFailer) Helper()                        {}
func (f *srvFailer) Skip(args ...any)               {}
func (f *srvFailer) Cleanup(fn func()) {
	f.mu.Lock()
	defer f.mu.Unlock()
	f.cleanups = append(f.cleanups, fn)
}

func (f *srvFailer) done() {
	f.mu.Lock()
	cs := f.cleanups
	f.cleanups = nil
	f.mu.Unlock()
	for i := len(cs) - 1; i >= 0; i-- {
		// a clean-up may block for good (DiscoveryServer.Shutdown called a second time, after a `shutdown`
		// op, waits on the JWKS resolver): give it a moment, then go on
		fin := make(chan struct{})
		go func(fn func()) {
			defer close(fin)
			defer func() { _ = recover() }()
			fn()
		}(cs[i])
		select {
		case <-fin:
		case <-time.After(1500 * time.Millisecond):
		}
	}
}

// srvConn is one client.  Its stream object implements both the SotW and the delta server-stream
// interface (through the two wrapper types below); what a real network could do to it is scripted.
type srvConn struct {
	idx      int
	node     int // identity presented (index of the first connection with this node id)
	delta    bool
	nodeID   string
	ctx      context.Context
	cancel   context.CancelFunc
	reqs     chan *discovery.DiscoveryRequest
	dreqs    chan *discovery.DeltaDiscoveryRequest
	failSend atomic.Bool
	// A failing transport fails the Sends of forced pushes and of answers to requests (the rule of the model); whether an
	// unforced push sends anything at all depends on the kinds of its keys and the proxy type, so those Sends go through.
	pushForced atomic.Bool // the push the stream loop is working on is forced (set by the ProxyNeedsPush wrapper)
	answering  atomic.Bool // the client has made a request that needs an answer since its transport began to fail
	block    atomic.Bool
	unblock  chan struct{}
	pulse    chan struct{} // lets exactly one blocked Send go on while the client keeps not reading
	sends    atomic.Int64
	nonce    atomic.Value // string: nonce of the last response sent to the client
	returned chan struct{} // the server's stream handler returned
	held     bool
	// bookkeeping by the rule of the ops (not by observation)
	registered bool
	dead       bool
	expected   factSet
	failArmed  bool
	parked     bool          // parked between addCon and MarkInitialized (its gate is still closed)
	gate       chan struct{} // closing it lets the parked initialisation go on
	puOwed     bool          // a ProxyUpdate for its address was made in this window
	router     bool          // presents itself as a router (gateway) proxy
	recvErr    chan error    // makes the client's Recv fail with an error that is not a cancellation
	stopping   bool          // Connection.Stop() has been called
	raced      bool          // ... while its loop was busy with a push event waiting: both channels ready at the select
	byFail     bool          // dead by the rule "its next Send fails" - not certain once the queue has been shut down (the
	// push that was to fail may never be delivered); certain again after a sync that saw its handler return
	stuck      bool          // by the rule of the ops: a forced push for it has run into its blocked Send
	busy       bool // its stream loop sits in Process (answering a request, Send blocked): it takes no push event
	reqd       bool // has made its one `busyreq`
}

func (c *srvConn) SetHeader(metadata.MD) error  { return nil }
func (c *srvConn) SendHeader(metadata.MD) error { return nil }
func (c *srvConn) SetTrailer(metadata.MD)       {}
func (c *srvConn) Context() context.Context     { return c.ctx }
func (c *srvConn) SendMsg(any) error            { return nil }
func (c *srvConn) RecvMsg(any) error            { return nil }

func (c *srvConn) send() error {
	c.sends.Add(1)
	if c.block.Load() {
		select {
		case <-c.unblock:
		case <-c.pulse:
		case <-c.ctx.Done():
			return c.ctx.Err()
		}
	}
	if c.failSend.Load() && (c.pushForced.Load() || c.answering.Load()) {
		return errors.New("transport is closing")
	}
	if c.ctx.Err() != nil {
		return c.ctx.Err()
	}
	return nil
}

type sotwSide struct{ *srvConn }

func (s sotwSide) Send(r *discovery.DiscoveryResponse) error {
	s.nonce.Store(r.GetNonce())
	return s.send()
}
func (s sotwSide) Recv() (*discovery.DiscoveryRequest, error) {
	select {
	case r := <-s.reqs:
		return r, nil
	case err := <-s.recvErr:
		return nil, err
	case <-s.ctx.Done():
		return nil, s.ctx.Err()
	}
}

type deltaSide struct{ *srvConn }

func (s deltaSide) Send(r *discovery.DeltaDiscoveryResponse) error {
	s.nonce.Store(r.GetNonce())
	return s.send()
}
func (s deltaSide) Recv() (*discovery.DeltaDiscoveryRequest, error) {
	select {
	case r := <-s.dreqs:
		return r, nil
	case err := <-s.recvErr:
		return nil, err
	case <-s.ctx.Done():
		return nil, s.ctx.Err()
	}
}

func newSrvSUT(throttle int, eds bool) *srvSUT {
	// per-case server settings (package-level features read by NewDiscoveryServer)
	if throttle > 0 {
		features.PushThrottle = throttle
	} else {
		features.PushThrottle = 100
	}
	features.EnableEDSDebounce = eds
	s := &srvSUT{f: &srvFailer{}, byID: map[string]*srvConn{}, byPeer: map[string]*srvConn{}, seen: map[int]factSet{}, vers: map[int][]uint64{}, lastVer: map[int]uint64{},
		shared: map[*model.PushRequest]reqSnap{}, forcedK: sets.New[string](), gateHit: make(chan struct{}, 1), eds: eds, stats: map[string]int{}}
	s.fs = xdsfake.NewFakeDiscoveryServer(s.f, xdsfake.FakeOptions{DebounceTime: 3 * time.Millisecond})
	quiet.Silence()
	s.d = s.fs.Discovery
	inner := s.d.ProxyNeedsPush
	s.d.ProxyNeedsPush = func(proxy *model.Proxy, req *model.PushRequest) (*model.PushRequest, bool) {
		// called by pushConnection / pushConnectionDelta with Event.pushRequest, before anything is sent
		_, snap, _ := pxds.VerifC02ServerState(s.d)
		// which of our clients: by the peer address of the connection that owns this proxy object (a node
		// id can be connected twice while an old stream is closing)
		peer := ""
		for _, con := range s.d.AllClients() {
			if con.Proxy() == proxy {
				peer = con.Peer()
			}
		}
		s.mu.Lock()
		c := s.byPeer[peer]
		if c == nil {
			c = s.byID[proxy.ID]
		}
		if c != nil {
			c.pushForced.Store(req.Forced)
			if s.seen[c.idx] == nil {
				s.seen[c.idx] = sets.New[string]()
			}
			for k := range req.ConfigsUpdated {
				s.seen[c.idx].Insert("c:" + showConfigKey(k))
				if req.Forced {
					s.seen[c.idx].Insert("f:" + showConfigKey(k))
				}
			}
			for k := range req.AddressesUpdated {
				s.seen[c.idx].Insert("a:" + k)
			}
			for k := range req.WaypointsUpdated {
				s.seen[c.idx].Insert("w:" + showWaypoint(k))
			}
			if req.Forced {
				s.seen[c.idx].Insert("forced")
			}
			// "uses the newest snapshot": versions a connection is pushed with never go back
			v := pushVersionOf(req.Push)
			prev := s.lastVer[c.idx]
			if vs := s.vers[c.idx]; len(vs) > 0 {
				prev = vs[len(vs)-1]
			}
			if v < prev && !s.overlap() {
				s.fail("push-with-older-snapshot-than-the-previous-push-of-the-connection")
			}
			s.vers[c.idx] = append(s.vers[c.idx], v)
			// "at most one push in flight": the queue must still hold the connection as processing while
			// its push runs (done() is what ends the push)
			held := false
			for pc := range snap.Processing {
				if strings.HasPrefix(pc.ID(), proxy.ID+"-") {
					held = true
				}
			}
			if !held {
				s.fail("push-running-after-done(slot-released-before-the-push-finished)")
			}
		}
		// "one proxy's push never alters what another proxy is told": the request object is shared by all
		// connections of a push round; it must read the same whenever a stream loop gets to it
		if old, ok := s.shared[req]; ok {
			if !old.sameContent(req) {
				s.fail("shared-request-altered-between-proxies")
			}
		} else {
			s.shared[req] = snapReq(req)
		}
		s.mu.Unlock()
		return inner(proxy, req)
	}
	s.inBase = s.d.InboundUpdates.Load()
	pxds.VerifE2ESetGate(func(point string) {
		if point == "init:after-addcon" {
			if g := s.gateArm.Swap(nil); g != nil {
				s.gateHit <- struct{}{}
				<-*g
			}
		}
	})
	return s
}

func pushVersionOf(pc *model.PushContext) uint64 {
	if pc == nil {
		return 0
	}
	v := pc.PushVersion
	if i := strings.LastIndex(v, "/"); i >= 0 {
		v = v[i+1:]
	}
	n, _ := strconv.ParseUint(v, 10, 64)
	return n
}

func (s *srvSUT) close() {
	pxds.VerifE2ESetGate(nil)
	for _, c := range s.conns {
		c.cancel()
		s.openGate(c)
	}
	s.f.done()
	if s.statsOut != nil {
		keys := make([]string, 0, len(s.stats))
		for k := range s.stats {
			keys = append(keys, k)
		}
		sort.Strings(keys)
		for _, k := range keys {
			s.statsOut.Line(k, strconv.Itoa(s.stats[k]))
		}
		s.stats = map[string]int{}
	}
}

func (s *srvSUT) stopHammer() {
	if s.hammerStop != nil {
		close(s.hammerStop)
		s.hammerWG.Wait()
		s.hammerStop = nil
	}
}

// selectStats: which way the select went for the loops that found both their push channel and their stop channel ready.
func (s *srvSUT) selectStats() {
	s.mu.Lock()
	defer s.mu.Unlock()
	for _, c := range s.conns {
		if c.raced {
			c.raced = false
			if len(s.seen[c.idx]) > 0 {
				s.stats["class.both-ready-select-took-the-push-event"]++
			} else {
				s.stats["class.both-ready-select-took-stop"]++
			}
		}
	}
}

func (s *srvSUT) openGate(c *srvConn) {
	if c.parked {
		c.parked = false
		close(c.gate)
	}
}

// overlap: with EDS debounce off an endpoints-only update is pushed outside the debounce loop, so two Push calls can
// run at the same time and enqueue in either order (eds_bypass_overlap_witness; a stated assumption of the
// newest-snapshot statements).  In a window where that can happen the version clauses are not judged (loss still is).
func (s *srvSUT) overlap() bool { return s.winBypass > 0 && s.winUpd > 1 }

// producer: one more producer call (ConfigUpdate / ProxyUpdate / AdsPushAll) in this window.
func (s *srvSUT) producer(bypass bool) {
	s.mu.Lock()
	s.winUpd++
	if bypass {
		s.winBypass++
	}
	s.mu.Unlock()
	s.active = true
}

func (s *srvSUT) fail(clause string) {
	if s.verdict == "" {
		s.verdict = fmt.Sprintf("%s@op%d", clause, s.opIdx)
	}
}

// open: `node` is the identity the client presents (its own index, or that of an earlier connection it
// re-connects as).
func (s *srvSUT) open(idx int, delta, held bool, node int, router bool) string {
	if idx != len(s.conns) {
		return "bad-op"
	}
	// a plaintext peer, as a client on the insecure xDS port would be
	addr := &net.TCPAddr{IP: net.IPv4(10, 0, byte(node/200), byte(1+node%200)), Port: 40000 + idx}
	ctx, cancel := context.WithCancel(peer.NewContext(context.Background(), &peer.Peer{Addr: addr}))
	c := &srvConn{idx: idx, delta: delta, node: node,
		nodeID: fmt.Sprintf("%s~10.0.%d.%d~app%d.default~default.svc.cluster.local", map[bool]string{false: "sidecar", true: "router"}[router], node/200, 1+node%200, node),
		router: router, recvErr: make(chan error, 1), gate: make(chan struct{}),
		ctx: ctx, cancel: cancel, reqs: make(chan *discovery.DiscoveryRequest, 4), dreqs: make(chan *discovery.DeltaDiscoveryRequest, 4),
		unblock: make(chan struct{}), pulse: make(chan struct{}), returned: make(chan struct{}), expected: sets.New[string](), held: held}
	s.conns = append(s.conns, c)
	s.mu.Lock()
	s.byID[fmt.Sprintf("app%d.default", node)] = c // model.Proxy.ID = third field of the node id
	s.byPeer[addr.String()] = c
	s.mu.Unlock()
	if held {
		s.gateArm.Store(&c.gate)
	}
	go func() {
		defer close(c.returned)
		defer c.cancel() // gRPC cancels the stream context when the handler returns
		defer func() { _ = recover() }()
		var err error
		if delta {
			err = s.d.StreamDeltas(deltaSide{c})
		} else {
			err = s.d.Stream(sotwSide{c})
		}
		if os.Getenv("C02_DEBUG") != "" {
			fmt.Fprintln(os.Stderr, "stream", c.idx, "returned:", err)
		}
	}()
	cnode := &core.Node{Id: c.nodeID}
	if delta {
		c.dreqs <- &discovery.DeltaDiscoveryRequest{Node: cnode, TypeUrl: v3.ClusterType}
	} else {
		c.reqs <- &discovery.DiscoveryRequest{Node: cnode, TypeUrl: v3.ClusterType}
	}
	if held {
		select {
		case <-s.gateHit:
		case <-time.After(patience()):
			degraded.Store(true)
			s.fail("harness:gate-not-reached")
		}
		c.registered = true // addCon has happened
		c.parked = true
		return "ok"
	}
	if !waitUntil(func() bool { return c.sends.Load() >= 1 }) {
		s.fail("first-request-not-answered")
	}
	c.registered = true
	return "ok"
}

type srvRest struct {
	tok, proc, queued, pushCh int
	in, committed             int64
}

func (s *srvSUT) rest() srvRest {
	tok, snap, pc := pxds.VerifC02ServerState(s.d)
	return srvRest{tok: tok, proc: len(snap.Processing), queued: len(snap.Queue) + len(snap.Pending), pushCh: pc,
		in: s.d.InboundUpdates.Load(), committed: s.d.CommittedUpdates.Load()}
}

// quiescent: every accepted update has gone all the way (debounced, pushed, enqueued, dequeued,
// delivered, done).  State based; the only token left in the semaphore is the sender loop's own.
func (r srvRest) quiescent() bool {
	return r.in == r.committed && r.pushCh == 0 && r.queued == 0 && r.proc == 0 && r.tok <= 1
}

// unsettledClass names what keeps the server from coming to rest (a state class, for fingerprints).
func (s *srvSUT) unsettledClass() string {
	r := s.rest()
	_, snap, _ := pxds.VerifC02ServerState(s.d)
	switch {
	case r.pushCh > 0 && !s.stoppedSrv:
		return "update-stuck-in-push-channel"
	case r.in != r.committed && !s.stoppedSrv:
		return "update-not-committed-by-debounce"
	case r.proc > 0:
		kind := "unknown-client"
		for pc := range snap.Processing {
			for _, c := range s.conns {
				if strings.HasSuffix(pc.Peer(), ":"+strconv.Itoa(40000+c.idx)) {
					k := "sotw"
					if c.delta {
						k = "delta"
					}
					st := "live"
					if c.dead {
						st = "gone"
					}
					kind = st + "-" + k + "-client"
				}
			}
		}
		if r.tok < r.proc {
			return "processing-entry-held-without-token(" + kind + ")"
		}
		return "processing-entry-held(" + kind + ")"
	case r.queued > 0:
		return "queue-nonempty-loop-blocked"
	case r.tok > 1:
		return "token-held-without-processing-entry"
	}
	return "other"
}

// atRest: what "nothing is on its way any more" means; once the server has been stopped the debounce loop and the
// sender loop are gone, so only the leak part is left (no processing entry, no token beyond the sender loop's own).
func (s *srvSUT) atRest() bool {
	r := s.rest()
	if s.stoppedSrv {
		return r.proc == 0 && r.tok <= 1
	}
	return r.quiescent()
}

// registered connections the server should hold: ours that are alive (parked ones included: addCon has happened).
func (s *srvSUT) liveRegistered() int {
	n := 0
	for _, c := range s.conns {
		if c.registered && !c.dead {
			n++
		}
	}
	return n
}

// registrations: "releases everything it held" for the adsClients table: once the handlers of the dead connections
// have returned, the server holds exactly the live connections (removeCon runs in the deferred Close of the receive
// goroutine, a moment after the handler).
func (s *srvSUT) registrations() {
	want, maybe := s.liveRegistered(), 0
	for _, c := range s.conns {
		if c.dead && c.byFail && s.down {
			maybe++ // (the push whose Send was to fail may never have been delivered: the queue was shut down)
		}
	}
	if !waitUntil(func() bool { n := len(s.d.AllClients()); return want <= n && n <= want+maybe }) {
		if got := len(s.d.AllClients()); got > want {
			s.fail("registration-not-released(ended-connection-still-in-adsClients)")
		} else {
			s.fail("live-connection-not-registered")
		}
	}
}

func (s *srvSUT) sync() bool {
	ok := waitUntil(s.atRest)
	if !ok {
		return false
	}
	// dead connections: their handler must have returned
	for _, c := range s.conns {
		if c.dead && !(s.down && c.byFail) {
			select {
			case <-c.returned:
				c.byFail = false
			case <-time.After(patience()):
				degraded.Store(true)
				return false
			}
		}
	}
	return waitUntil(s.atRest)
}

func (s *srvSUT) summary() string {
	global := pushVersionOf(pxds.VerifE2EGlobalPushContext(s.d))
	s.mu.Lock()
	defer s.mu.Unlock()
	parts := make([]string, len(s.conns))
	for i, c := range s.conns {
		switch {
		case s.down:
			parts[i] = fmt.Sprintf("%d=*", i) // what still got through when the queue shut down depends on the moment
		case c.dead:
			parts[i] = fmt.Sprintf("%d=dead", i)
		default:
			seen := sets.New[string]()
			for f := range s.seen[i] {
				// "f:<key>" is reported for keys of forced updates only (a key of an unforced update may or may
				// not have been merged with a forced one: batching)
				if !strings.HasPrefix(f, "f:") || s.forcedK.Contains(f[2:]) {
					seen.Insert(f)
				}
			}
			cur := "-"
			if vs := s.vers[i]; len(vs) > 0 {
				cur = wire.B(vs[len(vs)-1] == global)
			}
			if s.overlap() {
				cur = "*" // overlapping Push calls (EDS debounce off): which snapshot arrives last is a race
			}
			parts[i] = fmt.Sprintf("%d=%s;cur=%s", i, wire.EncSet(sets.SortedList(seen)), cur)
		}
	}
	if len(parts) == 0 {
		return "-"
	}
	return strings.Join(parts, " ")
}

// judge: the property on the real server, from the rule of the ops: a connection that was
// registered when ConfigUpdate accepted an update, and is still alive, has received a push
// request covering it.
func (s *srvSUT) judge() {
	global := pushVersionOf(pxds.VerifE2EGlobalPushContext(s.d))
	s.mu.Lock()
	defer s.mu.Unlock()
	for r, old := range s.shared {
		if !old.sameContent(r) {
			s.fail("shared-request-altered-between-proxies")
		}
	}
	// rest detection uses InboundUpdates == CommittedUpdates; the counter itself must agree with the
	// number of ConfigUpdate calls made here (a consistent miscount would only move the judging point)
	if in := s.d.InboundUpdates.Load() - s.inBase; in < s.nconfig {
		s.fail("inbound-update-counter-below-the-number-of-ConfigUpdate-calls")
	}
	if s.down {
		return
	}
	for i, c := range s.conns {
		if c.dead || !c.registered {
			continue
		}
		seen := s.seen[i]
		if seen == nil {
			seen = sets.New[string]()
		}
		if vs := s.vers[i]; len(vs) > 0 && vs[len(vs)-1] != global && !s.overlap() {
			s.fail("at-rest-last-push-of-a-connection-not-from-the-newest-snapshot")
		}
		if lost := c.expected.Difference(seen); len(lost) > 0 {
			clause := "accepted-update-never-reached-a-connected-proxy"
			if c.held {
				clause = "accepted-update-never-reached-a-proxy-registered-during-initialisation"
			}
			if c.puOwed && lost.Contains("forced") && len(lost) == 1 {
				clause = "proxy-update-did-not-reach-every-registered-connection-of-the-address"
			}
			s.fail(clause)
		}
	}
}

// newWindow: the server is at rest and has been judged; from here on only what is accepted from now
// on is expected and only what arrives from now on counts as seen.
func (s *srvSUT) newWindow() {
	s.mu.Lock()
	defer s.mu.Unlock()
	s.forcedK = sets.New[string]()
	s.winUpd, s.winBypass = 0, 0
	for i, c := range s.conns {
		c.puOwed = false
		c.expected = sets.New[string]()
		s.seen[i] = sets.New[string]()
		if vs := s.vers[i]; len(vs) > 0 {
			s.lastVer[i] = vs[len(vs)-1]
		}
		s.vers[i] = nil
	}
}

// expect: every connection registered now owes these facts (unless the queue has been shut down).
func (s *srvSUT) expect(facts factSet, forced bool) {
	if s.down {
		return
	}
	for _, c := range s.conns {
		if c.registered && !c.dead {
			c.expected.Merge(facts)
			s.forcedFor(c, forced)
		}
	}
}

// forcedFor: a forced request is on its way to c: it makes the stream loop Send.
func (s *srvSUT) forcedFor(c *srvConn, forced bool) {
	if !forced {
		return
	}
	if c.block.Load() && !c.busy {
		c.stuck = true
	}
	if c.failArmed {
		c.dead, c.byFail = true, true // its next Send fails: the stream loop returns the error
	}
}

// realConn finds the server's connection object of one of our clients (by peer address).
func (s *srvSUT) realConn(c *srvConn) *pxds.Connection {
	for _, con := range s.d.AllClients() {
		if strings.HasSuffix(con.Peer(), ":"+strconv.Itoa(40000+c.idx)) {
			return con
		}
	}
	return nil
}

// sameAddress: the connections ProxyUpdate has to reach for c's address: every initialised, live connection that
// presents the same node (cluster id and first IP address are the node's).
func (s *srvSUT) sameAddress(c *srvConn) []*srvConn {
	var out []*srvConn
	for _, o := range s.conns {
		if o.node == c.node && o.registered && !o.dead && !o.parked {
			out = append(out, o)
		}
	}
	return out
}

func (s *srvSUT) conn(t string) *srvConn {
	i, err := strconv.Atoi(t)
	if err != nil || i < 0 || i >= len(s.conns) {
		return nil
	}
	return s.conns[i]
}

func (s *srvSUT) anyStuck() bool {
	for _, c := range s.conns {
		if c.busy || c.block.Load() || c.parked {
			return true // (closectx / reconn clear all three; Stop() leaves them: the loop cannot return before it is let go)
		}
	}
	return false
}

func (s *srvSUT) apply(f []string) (out string) {
	defer func() {
		if r := recover(); r != nil {
			out = "crash"
			s.fail("never-crashes")
		}
	}()
	s.opIdx++
	switch f[0] {
	case "conn", "connheld":
		// conn <i> <sotw|delta> [router]; several connections may be parked in their initialisation at once
		if (len(f) != 3 && len(f) != 4) || (f[2] != "sotw" && f[2] != "delta") || (len(f) == 4 && f[3] != "router") || s.ended || s.stoppedSrv {
			return "bad-op"
		}
		i, err := strconv.Atoi(f[1])
		if err != nil || i != len(s.conns) {
			return "bad-op"
		}
		return s.open(i, f[2] == "delta", f[0] == "connheld", i, len(f) == 4)
	case "connas":
		// connas <i> <j> <kind>: connection j presents the node of connection i, which stays as it is (a proxy that
		// re-connected while this instance still holds its previous, half-open stream: two registrations, one address)
		c := s.conn(f[1])
		if len(f) != 4 || c == nil || s.ended || s.stoppedSrv || (f[3] != "sotw" && f[3] != "delta") {
			return "bad-op"
		}
		j, err := strconv.Atoi(f[2])
		if err != nil || j != len(s.conns) {
			return "bad-op"
		}
		return s.open(j, f[3] == "delta", false, c.node, c.router)
	case "release":
		c := s.conn(f[1])
		if len(f) != 2 || c == nil || !c.parked {
			return "bad-op"
		}
		s.active = true
		if c.failArmed && !c.dead {
			c.dead, c.byFail = true, true // the answer to its first request fails: Process returns the error
		}
		c.answering.Store(true)
		s.openGate(c)
		if !c.dead {
			if !waitUntil(func() bool { return c.sends.Load() >= 1 }) {
				s.fail("first-request-not-answered")
			}
			c.answering.Store(false)
		}
		return "ok"
	case "update":
		// update <forced> <config keys> [<addresses> <waypoints>]; all lists may be empty ("-"): a full push
		if (len(f) != 3 && len(f) != 5) || s.ended || s.stoppedSrv {
			return "bad-op"
		}
		forced := f[1] == "1"
		req := &model.PushRequest{Forced: forced, Reason: model.NewReasonStats(model.ConfigUpdate)}
		facts := sets.New[string]()
		keys := sets.New[model.ConfigKey]()
		for _, k := range wire.DecList(f[2]) {
			// occurrences, not accumulated key sets: what is expected and what was seen is counted per sync
			// window (both are emptied at every sync), and the generator gives most updates names of their own
			ck := parseConfigKey(k)
			keys.Insert(ck)
			facts.Insert("c:" + showConfigKey(ck))
			if forced {
				facts.Insert("f:" + showConfigKey(ck))
				s.forcedK.Insert(showConfigKey(ck))
			}
		}
		if len(keys) > 0 {
			req.ConfigsUpdated = keys
		}
		if len(f) == 5 {
			if a := wire.DecList(f[3]); len(a) > 0 {
				req.AddressesUpdated = sets.New(a...)
				for _, k := range a {
					facts.Insert("a:" + k)
				}
			}
			if w := wire.DecList(f[4]); len(w) > 0 {
				req.WaypointsUpdated = sets.New[model.WaypointReference]()
				for _, k := range w {
					req.WaypointsUpdated.Insert(parseWaypoint(k))
					facts.Insert("w:" + showWaypoint(parseWaypoint(k)))
				}
			}
		}
		if forced {
			facts.Insert("forced")
		}
		s.nupd++
		s.nconfig++
		onlyEP := len(keys) > 0
		for k := range keys {
			onlyEP = onlyEP && k.Kind == kind.Endpoints
		}
		s.producer(!s.eds && onlyEP)
		if _, _, pc := pxds.VerifC02ServerState(s.d); pc >= 10 {
			s.stats["class.configupdate-found-the-push-channel-full"]++
		}
		s.expect(facts, forced)
		s.d.ConfigUpdate(req)
		return "ok"
	case "proxyupdate":
		// the second caller of Enqueue: a forced request for one connection carrying the global push context
		c := s.conn(f[1])
		if len(f) != 2 || c == nil || c.dead || !c.registered || c.parked || s.ended || s.stoppedSrv {
			return "bad-op"
		}
		con := s.realConn(c)
		if con == nil {
			s.fail("harness:connection-not-registered")
			return "ok"
		}
		if !s.down {
			// every registered (initialised) connection of the address owes the update, not just one of them
			same := s.sameAddress(c)
			if len(same) > 1 {
				s.stats["class.proxyupdate-for-an-address-with-several-registrations"]++
			}
			for _, o := range same {
				o.expected.Insert("forced")
				o.puOwed = true
				s.forcedFor(o, true)
			}
		}
		s.producer(false)
		s.d.ProxyUpdate(con.Proxy().Metadata.ClusterID, con.Proxy().IPAddresses[0])
		return "ok"
	case "puhammer":
		// puhammer <n>: n goroutines keep calling ProxyUpdate for every live connection until the next sync / end; run
		// together with update bursts under the version clauses (a request enqueued later must not carry an older
		// push context: ProxyUpdate reads the context and enqueues under pushContextMu)
		n, err := strconv.Atoi(f[len(f)-1])
		if len(f) != 2 || err != nil || n < 1 || n > 64 || s.hammerStop != nil || s.ended || s.stoppedSrv || s.down {
			return "bad-op"
		}
		type target struct {
			id cluster.ID
			ip string
		}
		var ts []target
		for _, c := range s.conns {
			if c.registered && !c.dead && !c.parked {
				if con := s.realConn(c); con != nil {
					ts = append(ts, target{con.Proxy().Metadata.ClusterID, con.Proxy().IPAddresses[0]})
					c.expected.Insert("forced")
					s.forcedFor(c, true)
				}
			}
		}
		s.producer(false)
		for _, t := range ts {
			s.d.ProxyUpdate(t.id, t.ip) // (one call each for certain; the goroutines may be stopped before their first)
		}
		stop := make(chan struct{})
		s.hammerStop = stop
		for g := 0; g < n; g++ {
			s.hammerWG.Add(1)
			go func(g int) {
				defer s.hammerWG.Done()
				for k := g; len(ts) > 0; k++ {
					select {
					case <-stop:
						return
					default:
					}
					t := ts[k%len(ts)]
					s.d.ProxyUpdate(t.id, t.ip)
				}
			}(g)
		}
		return "ok"
	case "pushall":
		// the debug trigger: the third producer (a forced request with the global push context, handed to StartPush)
		if len(f) != 1 || s.ended || s.stoppedSrv {
			return "bad-op"
		}
		s.producer(false)
		s.expect(sets.New("forced"), true)
		pxds.AdsPushAll(s.d)
		return "ok"
	case "stopconn":
		// forced disconnect (debug endpoint): Connection.Stop() closes con.stop, the stream loop returns
		c := s.conn(f[1])
		// (also for a connection parked in its initialisation or stuck in Send: its loop returns once it is let go)
		if len(f) != 2 || c == nil || c.dead || !c.registered || s.ended {
			return "bad-op"
		}
		con := s.realConn(c)
		c.dead = true
		c.stopping = true
		if con == nil {
			s.fail("harness:connection-not-registered")
			return "ok"
		}
		c.raced = c.busy
		if c.busy {
			// the loop is in Process; give the sender a moment to take the connection's pending request and offer
			// the event, so that the loop finds both its push channel and its stop channel ready when it comes back
			for k := 0; k < 100; k++ {
				_, snap, _ := pxds.VerifC02ServerState(s.d)
				waiting := false
				for pc := range snap.Pending {
					waiting = waiting || pc == con
				}
				if !waiting {
					break
				}
				time.Sleep(time.Millisecond)
			}
			time.Sleep(2 * time.Millisecond)
		}
		con.Stop()
		return "ok"
	case "busyreq":
		// the client stops reading and asks for one more resource type: the stream loop sits in Process, blocked in
		// Send, and takes no push event until `unblock`.  Only right after a sync (the loop is idle in its select).
		c := s.conn(f[1])
		if len(f) != 2 || c == nil || c.dead || !c.registered || c.parked || c.block.Load() || c.failArmed || c.reqd ||
			s.active || s.down || s.ended || s.stoppedSrv {
			return "bad-op"
		}
		c.block.Store(true)
		c.busy, c.reqd = true, true
		before := c.sends.Load()
		if c.delta {
			c.dreqs <- &discovery.DeltaDiscoveryRequest{TypeUrl: v3.ListenerType}
		} else {
			c.reqs <- &discovery.DiscoveryRequest{TypeUrl: v3.ListenerType}
		}
		if !waitUntil(func() bool { return c.sends.Load() > before }) {
			s.fail("harness:request-not-answered")
			return "ok"
		}
		// The loop took that request in its blocking select.  A second request, waiting while the first is being
		// answered, is taken by the non-blocking select at the top of the loop - from there the loop goes on to the
		// blocking select without looking at its stop channel again.
		if c.delta {
			c.dreqs <- &discovery.DeltaDiscoveryRequest{TypeUrl: v3.RouteType, ResourceNamesSubscribe: []string{"80"}}
		} else {
			c.reqs <- &discovery.DiscoveryRequest{TypeUrl: v3.RouteType, ResourceNames: []string{"80"}}
		}
		time.Sleep(5 * time.Millisecond) // (the Receive goroutine hands it to the loop's request channel)
		select {
		case c.pulse <- struct{}{}:
		case <-time.After(patience()):
			degraded.Store(true)
			s.fail("harness:blocked-send-not-found")
			return "ok"
		}
		if !waitUntil(func() bool { return c.sends.Load() > before+1 }) {
			s.fail("harness:second-request-not-answered")
		}
		return "ok"
	case "req":
		// more client traffic on the stream (an ACK of the last response) while pushes come and go
		c := s.conn(f[1])
		if len(f) != 2 || c == nil || c.dead || s.ended {
			return "bad-op"
		}
		nonce, _ := c.nonce.Load().(string)
		if c.delta {
			select {
			case c.dreqs <- &discovery.DeltaDiscoveryRequest{TypeUrl: v3.ClusterType, ResponseNonce: nonce}:
			default:
			}
		} else {
			select {
			case c.reqs <- &discovery.DiscoveryRequest{TypeUrl: v3.ClusterType, ResponseNonce: nonce, VersionInfo: "verif"}:
			default:
			}
		}
		return "ok"
	case "reqnew":
		// the client asks for one more resource type (a request that needs an answer, processed by the stream loop
		// between pushes); with a failing transport Process returns the error and the stream ends
		c := s.conn(f[1])
		if len(f) != 2 || c == nil || c.dead || !c.registered || c.parked || c.block.Load() || c.busy || c.reqd || s.ended {
			return "bad-op"
		}
		c.reqd = true
		before := c.sends.Load()
		c.answering.Store(true)
		if c.failArmed {
			c.dead, c.byFail = true, true
			s.stats["class.process-fails(send-error-while-answering-a-request)"]++
		}
		if c.delta {
			c.dreqs <- &discovery.DeltaDiscoveryRequest{TypeUrl: v3.ListenerType}
		} else {
			c.reqs <- &discovery.DiscoveryRequest{TypeUrl: v3.ListenerType}
		}
		if !waitUntil(func() bool { return c.sends.Load() > before }) {
			s.fail("harness:request-not-answered")
		}
		if !c.dead {
			c.answering.Store(false)
		}
		return "ok"
	case "recverr":
		// the client's Recv fails with an error that is not a cancellation: Receive hands it to the loop through
		// errorChan and closes the request channel; the loop returns it
		c := s.conn(f[1])
		if len(f) != 2 || c == nil || c.dead || !c.registered || c.parked || c.block.Load() || c.busy || s.ended {
			return "bad-op"
		}
		c.dead = true
		c.recvErr <- errors.New("rpc error: code = Internal desc = transport: received the wrong frame")
		return "ok"
	case "stopserver":
		// the server's stop channel is closed (debounce loop, sender loop and every parked push goroutine see it) and
		// DiscoveryServer.Shutdown() runs, with the stream loops still there: all clean-ups of the fake server, now
		if len(f) != 1 || s.stoppedSrv || s.ended {
			return "bad-op"
		}
		s.stopHammer()
		s.stoppedSrv, s.down = true, true
		s.f.done()
		return "ok"
	case "reconn":
		// the same node connects again while its old stream is only just ending
		c := s.conn(f[1])
		if len(f) != 4 || c == nil || c.dead || s.ended || s.stoppedSrv || (f[3] != "sotw" && f[3] != "delta") {
			return "bad-op"
		}
		j, err := strconv.Atoi(f[2])
		if err != nil || j != len(s.conns) {
			return "bad-op"
		}
		c.dead = true
		c.busy = false
		c.block.Store(false)
		c.cancel()
		s.openGate(c)
		return s.open(j, f[3] == "delta", false, c.node, c.router)
	case "shutdown":
		// DiscoveryServer.Shutdown()'s effect on pushes: the push queue shuts down (drains what it has, ignores the rest)
		if len(f) != 1 || s.down || s.anyStuck() || s.ended {
			return "bad-op"
		}
		s.stopHammer()
		s.down = true
		pxds.VerifC02QueueShutDown(s.d) // what DiscoveryServer.Shutdown does to the queue (it can be called only once)
		return "ok"
	case "updatepar":
		// several producers call ConfigUpdate at the same moment, one key each
		if len(f) != 3 || s.ended || s.stoppedSrv {
			return "bad-op"
		}
		forced := f[1] == "1"
		var wg sync.WaitGroup
		for _, k := range wire.DecList(f[2]) {
			ck := parseConfigKey(k)
			facts := sets.New("c:" + showConfigKey(ck))
			if forced {
				facts.Insert("f:" + showConfigKey(ck))
				facts.Insert("forced")
				s.forcedK.Insert(showConfigKey(ck))
			}
			s.expect(facts, forced)
			s.nupd++
			s.nconfig++
			s.producer(!s.eds && ck.Kind == kind.Endpoints)
			wg.Add(1)
			go func() {
				defer wg.Done()
				s.d.ConfigUpdate(&model.PushRequest{ConfigsUpdated: sets.New(ck), Forced: forced, Reason: model.NewReasonStats(model.ConfigUpdate)})
			}()
		}
		wg.Wait()
		return "ok"
	case "pushed":
		// barrier: every update accepted so far has been through StartPush (pushFn has returned);
		// nothing is said about delivery, so this is reachable while a connection is held or blocked
		if len(f) != 1 {
			return "bad-op"
		}
		if !waitUntil(func() bool { r := s.rest(); return r.in == r.committed && r.pushCh == 0 }) {
			s.fail("accepted-update-never-pushed")
		}
		return "ok"
	case "failsend":
		c := s.conn(f[1])
		if len(f) != 2 || c == nil || c.busy {
			return "bad-op"
		}
		c.failSend.Store(true)
		c.failArmed = true
		return "ok"
	case "blocksend":
		c := s.conn(f[1])
		if len(f) != 2 || c == nil || c.block.Load() {
			return "bad-op"
		}
		c.block.Store(true)
		return "ok"
	case "unblock":
		c := s.conn(f[1])
		if len(f) != 2 || c == nil || !c.block.Load() {
			return "bad-op"
		}
		c.block.Store(false)
		c.busy = false
		if c.stuck && c.failArmed {
			c.dead, c.byFail = true, true // the Send it was stuck in fails
		}
		c.stuck = false
		close(c.unblock)
		c.unblock = make(chan struct{})
		return "ok"
	case "closectx":
		c := s.conn(f[1])
		if len(f) != 2 || c == nil {
			return "bad-op"
		}
		c.dead = true
		c.busy = false
		c.block.Store(false) // (a Send blocked on it returns on the cancelled context)
		c.cancel()
		s.openGate(c) // the initialisation goroutine runs on and finds the stream gone
		return "ok"
	case "sync":
		if len(f) != 1 || s.anyStuck() || s.ended || s.stoppedSrv {
			return "bad-op"
		}
		s.stopHammer()
		if !s.sync() {
			s.fail("does-not-come-to-rest:" + s.unsettledClass())
			return s.summary() + " UNSETTLED"
		}
		s.judge()
		s.registrations()
		sum := s.summary()
		s.selectStats()
		s.newWindow()
		s.active = false
		return sum
	case "end":
		if s.ended {
			return "bad-op"
		}
		// let everything go that the script still holds, then look at the server at rest
		s.stopHammer()
		for _, c := range s.conns {
			if c.parked {
				c.answering.Store(true)
			}
			if !c.dead && c.failArmed && (c.parked || c.stuck) {
				c.dead, c.byFail = true, true // the Send it is about to make / is stuck in fails
			}
			c.stuck = false
			s.openGate(c)
			c.busy = false
			if c.block.Load() {
				c.block.Store(false)
				close(c.unblock)
				c.unblock = make(chan struct{})
			}
		}
		settled := s.sync()
		s.ended = true
		if !settled {
			s.fail("does-not-come-to-rest:" + s.unsettledClass())
		} else {
			s.judge()
			s.registrations()
			s.selectStats()
		}
		sum := s.summary()
		r := s.rest()
		if settled && (r.proc != 0 || r.tok > 1) {
			s.fail("token-or-processing-entry-leaked")
		}
		v := "OK"
		if s.verdict != "" {
			v = "FAIL:" + s.verdict
		}
		extra := ""
		if !settled {
			extra = " UNSETTLED"
		}
		return fmt.Sprintf("%s held=%d%s verdict=%s", sum, r.proc, extra, v)
	}
	return "bad-op"
}

// ---------------------------------------------------------------- generator

var srvKeys = []string{"VirtualService/ns1/a", "DestinationRule/ns1/b", "Gateway/ns3/g", "VirtualService/ns2/v", "DestinationRule/ns2/d", "ServiceEntry/ns2/c"}

var srvAddrs = []string{"net1/10.9.0.1", "net1/10.9.0.2", "ns1/svc.ns1.svc.cluster.local"}
var srvWps = []string{"ns1/wp.ns1.svc.cluster.local//", "//net1/10.0.9.9"}

func genServerCase(r *wire.Rng, c int, out *wire.Out) {
	// per-case server settings: push throttle (0 = default 100; 1-2 = saturated), EDS debounce on/off
	throttle, eds := 0, true
	if r.Chance(1, 4) {
		throttle = 1 + r.Intn(2)
	}
	if r.Chance(1, 4) {
		eds = false
	}
	out.Line("case", strconv.Itoa(c), "server", strconv.Itoa(throttle), wire.B(eds))
	n := 0
	kind := func() string { return wire.Pick(r, []string{"sotw", "delta"}) }
	conn := func(op string) int {
		if r.Chance(1, 4) {
			out.Line(op, strconv.Itoa(n), kind(), "router") // a gateway proxy
		} else {
			out.Line(op, strconv.Itoa(n), kind())
		}
		n++
		return n - 1
	}
	alive := []int{}
	reqd := map[int]bool{} // connections that have made their one busyreq / reqnew
	nupd := 0
	var lastKeys []string
	drop := func(j int) { alive = append(alive[:j], alive[j+1:]...) }
	dropConn := func(a int) {
		for j := range alive {
			if alive[j] == a {
				drop(j)
				return
			}
		}
	}
	upd := func(forced bool) {
		var ks []string
		if lastKeys != nil && r.Chance(1, 3) {
			// the same keys again (a config changed twice): this notification must arrive as well
			ks = lastKeys
			if r.Chance(1, 2) {
				forced = false
			}
		} else if !eds && r.Chance(1, 3) {
			// endpoints only, in the middle of everything else: with EDS debounce off it is pushed outside the debounce
			// loop, so its Push call can run at the same time as another one
			ks = []string{"Endpoints/ns1/e" + strconv.Itoa(nupd)}
			forced = false
		} else {
			for _, k := range wire.Subset(r, srvKeys, 1, 3) {
				ks = append(ks, k+strconv.Itoa(nupd)) // names of its own
			}
			if len(ks) == 0 && r.Chance(1, 2) {
				ks = []string{wire.Pick(r, srvKeys) + strconv.Itoa(nupd)}
			}
		}
		nupd++
		if len(ks) > 0 {
			lastKeys = ks
		}
		switch {
		case len(ks) == 0:
			// a notification that names nothing: a full push (forced), or addresses / waypoints only
			if r.Chance(1, 2) {
				out.Line("update", "1", "-")
			} else {
				out.Line("update", wire.B(forced), "-", wire.EncList([]string{wire.Pick(r, srvAddrs) + strconv.Itoa(nupd)}),
					wire.EncList(wire.Subset(r, srvWps, 1, 2)))
			}
		case r.Chance(1, 5):
			out.Line("update", wire.B(forced), wire.EncList(ks), wire.EncList([]string{wire.Pick(r, srvAddrs) + strconv.Itoa(nupd)}), "-")
		default:
			out.Line("update", wire.B(forced), wire.EncList(ks))
		}
	}
	for i, k := 0, 1+r.Intn(3); i < k; i++ {
		alive = append(alive, conn("conn"))
	}
	for step, steps := 0, 2+r.Intn(6); step < steps; step++ {
		switch r.Intn(24) {
		case 0, 1: // a burst of updates (merged by debounce and by the queue); sometimes long enough to fill the push channel
			k := 1 + r.Intn(4)
			if r.Chance(1, 5) {
				k = 11 + r.Intn(8)
			}
			for i := 0; i < k; i++ {
				upd(r.Chance(1, 2))
				if len(alive) > 0 && r.Chance(1, 6) {
					out.Line("req", strconv.Itoa(wire.Pick(r, alive))) // client traffic in between
				}
			}
			out.Line("sync")
			if lastKeys != nil && r.Chance(1, 3) {
				// the very same notification again, in a window of its own
				out.Line("update", "0", wire.EncList(lastKeys))
				out.Line("sync")
			}
		case 2: // connections registered in the middle of their initialisation (one or two at once) must not miss the push
			out.Line("sync")
			held := []int{conn("connheld")}
			if r.Chance(1, 3) {
				held = append(held, conn("connheld"))
			}
			for i, k := 0, 1+r.Intn(2); i < k; i++ {
				upd(r.Chance(1, 2))
			}
			if !r.Chance(1, 5) {
				out.Line("pushed") // StartPush has run while the connection was registered but not initialised
			}
			for _, h := range held {
				switch r.Intn(6) {
				case 0, 1:
					// the client gives up while its push event is parked (its stream loop never got to read it)
					out.Line("closectx", strconv.Itoa(h))
				case 2:
					// forced disconnect of a connection that is not initialised yet
					out.Line("stopconn", strconv.Itoa(h))
					out.Line("release", strconv.Itoa(h))
				case 3:
					// its transport fails on the very first answer
					out.Line("failsend", strconv.Itoa(h))
					out.Line("release", strconv.Itoa(h))
				default:
					out.Line("release", strconv.Itoa(h))
					alive = append(alive, h)
				}
			}
			out.Line("sync")
		case 3: // the client's transport fails on the next response (to a push, or to a request of its own: Process fails)
			if len(alive) > 0 {
				j := r.Intn(len(alive))
				a := alive[j]
				out.Line("failsend", strconv.Itoa(a))
				switch {
				case r.Chance(1, 3):
					out.Line("proxyupdate", strconv.Itoa(a))
				case r.Chance(1, 3) && !reqd[a]:
					out.Line("reqnew", strconv.Itoa(a))
					reqd[a] = true
				default:
					upd(true)
				}
				if r.Chance(1, 2) {
					upd(r.Chance(1, 2))
				}
				drop(j)
				out.Line("sync")
			}
		case 4: // the client stops reading (Send blocks), more pushes pile up for it, then it goes away one way or another
			if len(alive) > 0 {
				j := r.Intn(len(alive))
				a := strconv.Itoa(alive[j])
				out.Line("blocksend", a)
				upd(true)
				upd(true)
				switch r.Intn(6) {
				case 0, 1, 2:
					out.Line("closectx", a)
					drop(j)
				case 3:
					// forced disconnect while its loop is stuck in Send
					out.Line("stopconn", a)
					out.Line("unblock", a)
					drop(j)
				case 4:
					// the Send it is stuck in fails
					out.Line("failsend", a)
					out.Line("unblock", a)
					drop(j)
				default:
					out.Line("unblock", a)
				}
				out.Line("sync")
			}
		case 5: // the client goes away while idle: context cancelled, or Recv fails with an unexpected error
			if len(alive) > 0 {
				j := r.Intn(len(alive))
				if r.Chance(1, 2) {
					out.Line("closectx", strconv.Itoa(alive[j]))
				} else {
					out.Line("recverr", strconv.Itoa(alive[j]))
				}
				drop(j)
				upd(r.Chance(1, 2))
				out.Line("sync")
			}
		case 6, 7: // ProxyUpdate / AdsPushAll: the other producers of the push queue, at any point of a push round
			if len(alive) > 0 {
				if r.Chance(1, 2) {
					upd(r.Chance(1, 2))
				}
				for i, k := 0, 1+r.Intn(2); i < k; i++ {
					a := wire.Pick(r, alive)
					if r.Chance(1, 4) {
						out.Line("pushall")
					} else {
						out.Line("proxyupdate", strconv.Itoa(a))
					}
					if r.Chance(1, 2) {
						upd(r.Chance(1, 2))
					}
				}
				out.Line("sync")
			}
		case 8: // forced disconnect (Connection.Stop) while pushes are on their way
			if len(alive) > 0 {
				j := r.Intn(len(alive))
				upd(true)
				if r.Chance(1, 2) {
					upd(r.Chance(1, 2))
				}
				out.Line("stopconn", strconv.Itoa(alive[j]))
				drop(j)
				upd(r.Chance(1, 2))
				out.Line("sync")
			}
		case 9: // several producers at once
			var ks []string
			for i, k := 0, 2+r.Intn(5); i < k; i++ {
				ks = append(ks, wire.Pick(r, srvKeys)+strconv.Itoa(nupd)+"p"+strconv.Itoa(i))
			}
			nupd++
			out.Line("updatepar", wire.B(r.Chance(1, 2)), wire.EncList(ks))
			out.Line("sync")
		case 10: // the same node connects again while its old stream is only just ending
			if len(alive) > 0 {
				j := r.Intn(len(alive))
				upd(r.Chance(1, 2))
				out.Line("sync") // (what a connection that registers in the middle of a window still gets of it is a race)
				out.Line("reconn", strconv.Itoa(alive[j]), strconv.Itoa(n), kind())
				drop(j)
				alive = append(alive, n)
				n++
				upd(r.Chance(1, 2))
				out.Line("sync")
			}
		case 11: // endpoints only (pushed at once, outside the debounce loop, when EDS debounce is off) - in a window of its own
			out.Line("sync")
			out.Line("update", "0", wire.EncList([]string{"Endpoints/ns1/e" + strconv.Itoa(nupd)}))
			nupd++
			out.Line("sync")
		case 12: // ProxyUpdate for a connection whose push is stuck in Send while a newer snapshot is already waiting for it
			if len(alive) > 0 {
				j := r.Intn(len(alive))
				out.Line("sync")
				out.Line("blocksend", strconv.Itoa(alive[j]))
				upd(true)
				out.Line("pushed")
				upd(r.Chance(1, 2))
				out.Line("pushed")
				out.Line("proxyupdate", strconv.Itoa(alive[j]))
				if r.Chance(1, 2) {
					upd(r.Chance(1, 2))
				}
				out.Line("unblock", strconv.Itoa(alive[j]))
				out.Line("sync")
			}
		case 13, 14: // forced disconnect while the stream loop is busy with a client request and a push event is waiting for it
			out.Line("sync")
			var busy []int
			for _, a := range alive {
				if !reqd[a] && r.Chance(3, 4) {
					out.Line("busyreq", strconv.Itoa(a))
					reqd[a] = true
					busy = append(busy, a)
				}
			}
			upd(r.Chance(1, 2))
			if r.Chance(1, 3) {
				upd(r.Chance(1, 2))
			}
			out.Line("pushed")
			for _, a := range busy {
				if r.Chance(4, 5) {
					out.Line("stopconn", strconv.Itoa(a))
					dropConn(a)
				}
			}
			for _, a := range busy {
				out.Line("unblock", strconv.Itoa(a))
			}
			out.Line("sync")
		case 15, 16: // one address, two registrations (the proxy re-connected, its old stream is half-open): ProxyUpdate must reach both
			if len(alive) > 0 {
				a := wire.Pick(r, alive)
				out.Line("sync")
				out.Line("connas", strconv.Itoa(a), strconv.Itoa(n), kind())
				b := n
				alive = append(alive, b)
				n++
				for i, k := 0, 1+r.Intn(3); i < k; i++ {
					out.Line("proxyupdate", strconv.Itoa(wire.Pick(r, []int{a, b})))
					if r.Chance(1, 3) {
						upd(r.Chance(1, 2))
					}
					out.Line("sync")
				}
			}
		case 17, 18: // ProxyUpdate from many goroutines while push rounds publish new contexts and enqueue them
			if len(alive) > 0 {
				out.Line("sync")
				out.Line("puhammer", strconv.Itoa(4+r.Intn(13)))
				for i, k := 0, 3+r.Intn(6); i < k; i++ {
					upd(r.Chance(1, 2))
					if r.Chance(1, 2) {
						out.Line("pushed")
					}
				}
				out.Line("sync")
			}
		case 19: // more client requests between pushes (a new resource type: answered by the stream loop itself)
			if len(alive) > 0 {
				a := wire.Pick(r, alive)
				upd(r.Chance(1, 2))
				if !reqd[a] {
					out.Line("reqnew", strconv.Itoa(a))
					reqd[a] = true
				}
				upd(r.Chance(1, 2))
				out.Line("sync")
			}
		case 20: // a key-less forced update / addresses and waypoints only, in a window of its own
			if r.Chance(1, 2) {
				out.Line("update", "1", "-")
			} else {
				out.Line("update", wire.B(r.Chance(1, 2)), "-", wire.EncList([]string{wire.Pick(r, srvAddrs) + strconv.Itoa(nupd)}),
					wire.EncList(wire.Subset(r, srvWps, 1, 2)))
			}
			nupd++
			out.Line("sync")
		default:
			out.Line("sync")
			alive = append(alive, conn("conn"))
		}
	}
	switch r.Intn(8) {
	case 0:
		// the push queue shut down with live stream loops and updates still coming
		upd(true)
		out.Line("shutdown")
		upd(r.Chance(1, 2))
		out.Line("sync")
	case 1, 2:
		// the server stops (stop channel closed, DiscoveryServer.Shutdown) while push events are parked for connections
		// that are not reading: one in its initialisation, one stuck in Send, one busy with a request
		out.Line("sync")
		h := conn("connheld")
		if len(alive) > 0 {
			a := wire.Pick(r, alive)
			if r.Chance(1, 2) {
				out.Line("blocksend", strconv.Itoa(a))
			} else if !reqd[a] {
				out.Line("busyreq", strconv.Itoa(a))
			}
		}
		upd(true)
		if r.Chance(1, 2) {
			upd(r.Chance(1, 2))
		}
		out.Line("pushed")
		out.Line("stopserver")
		if r.Chance(1, 2) {
			out.Line("release", strconv.Itoa(h))
		}
	}
	out.Line("end")
}

// keep sort imported for summary helpers of other files
var _ = sort.Ints

func oracleServer(in, outp string) {
	out := wire.Create(outp)
	defer out.Close()
	b := &srvBox{}
	open := false
	emit := func() {
		if !open {
			return
		}
		if b.s.verdict == "" {
			out.Line("OK")
		} else {
			out.Line("FAIL " + strings.Replace(b.s.verdict, "@", " ", 1))
		}
		open = false
	}
	for _, f := range wire.ReadLines(in) {
		if f[0] == "case" {
			emit()
			b.apply(f)
			open = true
			continue
		}
		b.apply(f)
	}
	emit()
	if b.s != nil {
		b.s.close()
	}
}
