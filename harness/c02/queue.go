package main

import (
	"context"
	"errors"
	"fmt"
	"sort"
	"strconv"
	"strings"

	discovery "github.com/envoyproxy/go-control-plane/envoy/service/discovery/v3"
	"google.golang.org/grpc/metadata"

	"istio.io/istio/pilot/pkg/model"
	pxds "istio.io/istio/pilot/pkg/xds"
	"istio.io/istio/pkg/util/sets"
	"verifharness/internal/wire"
)

// fakeStream is a DiscoveryStream whose context can be cancelled (= the gRPC stream was closed).
type fakeStream struct {
	ctx    context.Context
	cancel context.CancelFunc
}

func newFakeStream() *fakeStream {
	ctx, cancel := context.WithCancel(context.Background())
	return &fakeStream{ctx: ctx, cancel: cancel}
}

func (b *fakeStream) SetHeader(metadata.MD) error                { return nil }
func (b *fakeStream) SendHeader(metadata.MD) error               { return nil }
func (b *fakeStream) SetTrailer(metadata.MD)                     {}
func (b *fakeStream) Context() context.Context                   { return b.ctx }
func (b *fakeStream) SendMsg(any) error                          { return nil }
func (b *fakeStream) RecvMsg(any) error                          { return nil }
func (b *fakeStream) Send(*discovery.DiscoveryResponse) error    { return nil }
func (b *fakeStream) Recv() (*discovery.DiscoveryRequest, error) { return nil, errors.New("eof") }

// fakeDeltaStream is the delta twin (DeltaDiscoveryStream) over the same cancellable context.
type fakeDeltaStream struct{ *fakeStream }

func (b fakeDeltaStream) Send(*discovery.DeltaDiscoveryResponse) error { return nil }
func (b fakeDeltaStream) Recv() (*discovery.DeltaDiscoveryRequest, error) {
	return nil, errors.New("eof")
}

// newConns builds real *xds.Connection objects: even ids state-of-the-world, odd ids delta
// (doSendPushes picks the "client closed" channel differently for the two kinds).
func newConns(n int) ([]*pxds.Connection, []*fakeStream, map[*pxds.Connection]int) {
	cons := make([]*pxds.Connection, n)
	streams := make([]*fakeStream, n)
	idx := map[*pxds.Connection]int{}
	for i := 0; i < n; i++ {
		streams[i] = newFakeStream()
		p := &model.Proxy{ID: "verif-proxy-" + strconv.Itoa(i), WatchedResources: map[string]*model.WatchedResource{}}
		if i%2 == 1 {
			cons[i] = pxds.VerifNewDeltaConnection(p, fakeDeltaStream{streams[i]})
		} else {
			cons[i] = pxds.VerifNewConnection(p, streams[i])
		}
		idx[cons[i]] = i
	}
	return cons, streams, idx
}

// queueSUT runs the `queue` stream on a REAL xds.PushQueue from a single goroutine.  Dequeue blocks
// on an empty queue that is not shutting down; that situation is reported as "blocked" after
// asking the real queue (Pending / snapshot), without calling it.
type queueSUT struct {
	mergeSUT
	q      *pxds.PushQueue
	cons   []*pxds.Connection
	conIdx map[*pxds.Connection]int
}

func newQueueSUT(nconn int) *queueSUT {
	s := &queueSUT{mergeSUT: *newMergeSUT(), q: pxds.NewPushQueue()}
	s.cons, _, s.conIdx = newConns(nconn)
	return s
}

func (s *queueSUT) conn(t string) *pxds.Connection {
	i, err := strconv.Atoi(t)
	if err != nil || i < 0 || i >= len(s.cons) {
		return nil
	}
	return s.cons[i]
}

func (s *queueSUT) showMap(m map[*pxds.Connection]*model.PushRequest) string {
	ids := make([]int, 0, len(m))
	for c := range m {
		ids = append(ids, s.conIdx[c])
	}
	sort.Ints(ids)
	if len(ids) == 0 {
		return "-"
	}
	parts := make([]string, len(ids))
	for i, id := range ids {
		parts[i] = strconv.Itoa(id) + ":" + s.h.reqRef(m[s.cons[id]])
	}
	return strings.Join(parts, ";")
}

// observe registers every request the queue holds (new CopyMerge results) and prints the tables.
func (s *queueSUT) observe() string {
	snap := s.q.VerifSnapshot()
	ids := make([]int, 0, len(s.cons))
	for i := range s.cons {
		ids = append(ids, i)
	}
	for _, i := range ids {
		s.h.see(snap.Pending[s.cons[i]], snap.Processing[s.cons[i]])
	}
	q := "-"
	if len(snap.Queue) > 0 {
		parts := make([]string, len(snap.Queue))
		for i, c := range snap.Queue {
			parts[i] = strconv.Itoa(s.conIdx[c])
		}
		q = strings.Join(parts, ",")
	}
	return fmt.Sprintf("q=%s pend=%s proc=%s down=%s", q, s.showMap(snap.Pending), s.showMap(snap.Processing), wire.B(snap.ShuttingDown))
}

func (s *queueSUT) apply(f []string) (out string) {
	defer func() {
		if r := recover(); r != nil {
			out = "crash"
		}
	}()
	switch f[0] {
	case "case":
		n := 0
		if len(f) >= 4 {
			n, _ = strconv.Atoi(f[3])
		}
		*s = *newQueueSUT(n)
		return "ok"
	case "enq":
		if len(f) != 3 {
			return "bad-op"
		}
		c := s.conn(f[1])
		i, ok := parseRef(f[2], len(s.h.reqs), -2)
		if c == nil || !ok || i == -2 {
			return "bad-op"
		}
		var r *model.PushRequest
		if i >= 0 {
			r = s.h.reqs[i]
		}
		w := s.h.mark()
		s.q.Enqueue(c, r)
		st := s.observe()
		return st + " new " + s.h.dumpFrom(w)
	case "deq":
		if len(f) != 1 {
			return "bad-op"
		}
		snap := s.q.VerifSnapshot()
		if s.q.Pending() == 0 && !snap.ShuttingDown {
			return "blocked " + s.observe()
		}
		c, r, down := s.q.Dequeue()
		if down {
			return "shutdown " + s.observe()
		}
		s.h.see(r)
		return fmt.Sprintf("got %d %s %s", s.conIdx[c], s.h.reqRef(r), s.observe())
	case "done":
		if len(f) != 2 {
			return "bad-op"
		}
		c := s.conn(f[1])
		if c == nil {
			return "bad-op"
		}
		s.q.MarkDone(c)
		return s.observe()
	case "shut":
		if len(f) != 1 {
			return "bad-op"
		}
		s.q.ShutDown()
		return s.observe()
	case "pending":
		if len(f) != 1 {
			return "bad-op"
		}
		return strconv.Itoa(s.q.Pending())
	}
	return s.mergeSUT.apply(f)
}

// ---------------------------------------------------------------- generator

func genQueueCase(r *wire.Rng, c int, out *wire.Out) {
	nconn := 1 + r.Intn(4)
	out.Line("case", strconv.Itoa(c), "queue", strconv.Itoa(nconn))
	d := &declared{}
	// requests entering the queue carry a snapshot except rarely (exercises the nil-Push corner)
	genObjects(r, out, d, 2+r.Intn(4), 1, false)
	inflight := map[int]bool{}
	length := 3 + r.Intn(38)
	if r.Chance(1, 10) {
		length += 40
	}
	for i := 0; i < length; i++ {
		con := r.Intn(nconn)
		switch x := r.Intn(20); {
		case x < 9:
			req := strconv.Itoa(r.Intn(d.q))
			if r.Chance(1, 40) {
				req = "nil"
			}
			if r.Chance(1, 3) { // a push: the same shared request object for every connection
				for k := 0; k < nconn; k++ {
					out.Line("enq", strconv.Itoa(k), req)
				}
			} else {
				out.Line("enq", strconv.Itoa(con), req)
			}
		case x < 14:
			out.Line("deq")
		case x < 18:
			// mostly finish a connection that is plausibly in flight, sometimes a spurious MarkDone
			out.Line("done", strconv.Itoa(con))
			_ = inflight
		case x == 18:
			if r.Chance(1, 4) {
				out.Line("shut")
			} else {
				out.Line("pending")
			}
		default:
			if r.Chance(1, 3) {
				out.Line("dump")
			} else if r.Chance(1, 8) {
				out.Line(wire.Pick(r, []string{"enq 9 0", "enq 0 77", "done x", "deq 1", "enq 0 last"}))
			} else {
				out.Line("deq")
			}
		}
	}
	// drain: everything accepted must come out
	for k := 0; k < nconn; k++ {
		out.Line("done", strconv.Itoa(k))
	}
	for k := 0; k < nconn+1; k++ {
		out.Line("deq")
	}
	out.Line("dump")
}

// ---------------------------------------------------------------- oracle (queue stream)
//
// Evaluates the property on the real queue, with Go sets, no reference to the Lean model:
//   loss / weakening   accepted(c) == handedOut(c) ∪ waiting(c) after every operation (keys of the three sets + forced)
//   contamination      (same equation: nothing that was not accepted for c may appear)
//   double hand-out    Dequeue never returns a connection that has an unfinished hand-out
//   shared object      no request object that existed before an operation is changed by it
//   redelivery         an accepted Enqueue during a push leaves the connection queued after MarkDone
//   final drain        after MarkDone of everything and Dequeue until empty, handedOut(c) == accepted(c)

type factSet = sets.Set[string]

func reqFacts(r *model.PushRequest) factSet {
	f := sets.New[string]()
	if r == nil {
		return f
	}
	for k := range r.ConfigsUpdated {
		f.Insert("c:" + showConfigKey(k))
	}
	for k := range r.AddressesUpdated {
		f.Insert("a:" + k)
	}
	for k := range r.WaypointsUpdated {
		f.Insert("w:" + showWaypoint(k))
	}
	if r.Forced {
		f.Insert("forced")
	}
	return f
}

func oracleQueue(in, outp string) {
	out := wire.Create(outp)
	defer out.Close()
	var s *queueSUT
	var accepted, handed []factSet
	var lastPush []*model.PushContext // snapshot of the latest accepted request per connection
	var inflight []int
	verdict, caseOpen, idx := "", false, 0
	fail := func(clause, detail string) {
		if verdict == "" {
			verdict = fmt.Sprintf("FAIL %s op=%d %s", clause, idx, wire.Enc(detail))
		}
	}
	check := func(line string) {
		snap := s.q.VerifSnapshot()
		for i, c := range s.cons {
			have := handed[i].Copy()
			have.Merge(reqFacts(snap.Pending[c]))
			have.Merge(reqFacts(snap.Processing[c]))
			if !have.Equals(accepted[i]) {
				lost := accepted[i].Difference(have)
				extra := have.Difference(accepted[i])
				if len(lost) > 0 {
					fail("update-lost-or-weakened", fmt.Sprintf("%s conn=%d lost=%v", line, i, sets.SortedList(lost)))
				} else {
					fail("cross-connection-contamination", fmt.Sprintf("%s conn=%d extra=%v", line, i, sets.SortedList(extra)))
				}
			}
			if w := snap.Pending[c]; w != nil && lastPush[i] != nil && w.Push != lastPush[i] {
				fail("push-newest", fmt.Sprintf("%s conn=%d", line, i))
			}
			if w := snap.Processing[c]; w != nil && lastPush[i] != nil && w.Push != lastPush[i] {
				fail("push-newest", fmt.Sprintf("%s conn=%d", line, i))
			}
		}
		seen := map[*pxds.Connection]bool{}
		for _, c := range snap.Queue {
			if seen[c] {
				fail("connection-twice-in-queue", line)
			}
			seen[c] = true
			if _, p := snap.Processing[c]; p {
				fail("queued-while-in-flight", line)
			}
		}
	}
	finish := func() {
		if !caseOpen {
			return
		}
		if s != nil && verdict == "" {
			// final drain through the public API only
			for _, c := range s.cons {
				s.q.MarkDone(c)
			}
			for guard := 0; s.q.Pending() > 0 && guard < 1000; guard++ {
				c, r, down := s.q.Dequeue()
				if down {
					break
				}
				handed[s.conIdx[c]].Merge(reqFacts(r))
				s.q.MarkDone(c)
			}
			for i := range s.cons {
				if !handed[i].Equals(accepted[i]) {
					fail("drain-does-not-deliver-everything-accepted", fmt.Sprintf("conn=%d lost=%v extra=%v", i,
						sets.SortedList(accepted[i].Difference(handed[i])), sets.SortedList(handed[i].Difference(accepted[i]))))
				}
			}
		}
		if verdict == "" {
			verdict = "OK"
		}
		out.Line(verdict)
	}
	for _, f := range wire.ReadLines(in) {
		if f[0] == "case" {
			finish()
			n := 0
			if len(f) >= 4 {
				n, _ = strconv.Atoi(f[3])
			}
			s = newQueueSUT(n)
			accepted, handed, inflight, lastPush = make([]factSet, n), make([]factSet, n), make([]int, n), make([]*model.PushContext, n)
			for i := 0; i < n; i++ {
				accepted[i], handed[i] = sets.New[string](), sets.New[string]()
			}
			verdict, caseOpen, idx = "", true, 0
			continue
		}
		idx++
		line := strings.Join(f, " ")
		// deep snapshot of every known request object
		before := make([]reqSnap, len(s.h.reqs))
		for i, r := range s.h.reqs {
			before[i] = snapReq(r)
		}
		nreq := len(s.h.reqs)
		switch f[0] {
		case "enq":
			if len(f) != 3 {
				continue
			}
			c := s.conn(f[1])
			i, ok := parseRef(f[2], len(s.h.reqs), -2)
			if c == nil || !ok || i == -2 {
				continue
			}
			var r *model.PushRequest
			if i >= 0 {
				r = s.h.reqs[i]
			}
			ci := s.conIdx[c]
			snap := s.q.VerifSnapshot()
			if !snap.ShuttingDown {
				accepted[ci].Merge(reqFacts(r))
				if r != nil {
					lastPush[ci] = r.Push
				}
			}
			if s.apply(f) == "crash" {
				fail("never-crashes", line)
				continue
			}
		case "deq":
			res := s.apply(f)
			if res == "crash" {
				fail("never-crashes", line)
				continue
			}
			if strings.HasPrefix(res, "got ") {
				p := strings.Fields(res)
				ci, _ := strconv.Atoi(p[1])
				if inflight[ci] > 0 {
					fail("two-pushes-in-flight-for-one-connection", line)
				}
				inflight[ci]++
				if p[2] != "nil" {
					ri, _ := strconv.Atoi(p[2][1:])
					handed[ci].Merge(reqFacts(s.h.reqs[ri]))
				}
				lastPush[ci] = nil
			}
		case "done":
			c := s.conn(f[1])
			if c == nil || len(f) != 2 {
				continue
			}
			ci := s.conIdx[c]
			snap := s.q.VerifSnapshot()
			parked := snap.Processing[c]
			if s.apply(f) == "crash" {
				fail("never-crashes", line)
				continue
			}
			if _, was := snap.Processing[c]; was {
				inflight[ci] = 0
			}
			if parked != nil {
				after := s.q.VerifSnapshot()
				queued := false
				for _, x := range after.Queue {
					queued = queued || x == c
				}
				if !queued || !reqFacts(after.Pending[c]).SupersetOf(reqFacts(parked)) {
					fail("enqueue-during-push-not-redelivered", line)
				}
			}
		default:
			if s.apply(f) == "crash" {
				fail("never-crashes", line)
				continue
			}
		}
		for i := 0; i < nreq; i++ {
			r := s.h.reqs[i]
			if !before[i].sameContent(r) || before[i].ptrs != snapReq(r).ptrs {
				fail("queue-mutates-existing-request", fmt.Sprintf("%s q%d", line, i))
			}
		}
		if f[0] == "enq" || f[0] == "deq" || f[0] == "done" || f[0] == "shut" {
			check(line)
		}
	}
	finish()
}
