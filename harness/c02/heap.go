package main

import (
	"fmt"
	"reflect"
	"sort"
	"strconv"
	"strings"
	"time"

	"istio.io/istio/pilot/pkg/model"
	"istio.io/istio/pkg/config/schema/kind"
	"istio.io/istio/pkg/util/sets"
	"verifharness/internal/wire"
)

// heap is the registry of the real Go objects of one case: every *model.PushRequest and every
// map object reachable from one gets a stable small id (position in its per-type list, in order
// of declaration / first sighting), exactly like the stores of the Lean model.  Objects are kept
// alive here, so an address is never reused within a case.
type heap struct {
	cfgs   []sets.Set[model.ConfigKey]
	adrs   []sets.Set[string]
	wps    []sets.Set[model.WaypointReference]
	rsns   []model.ReasonStats
	reqs   []*model.PushRequest
	cfgIdx map[uintptr]int
	adrIdx map[uintptr]int
	wpIdx  map[uintptr]int
	rsnIdx map[uintptr]int
	reqIdx map[*model.PushRequest]int
	pcs    map[int]*model.PushContext
	pcIdx  map[*model.PushContext]int
}

func newHeap() *heap {
	return &heap{
		cfgIdx: map[uintptr]int{}, adrIdx: map[uintptr]int{}, wpIdx: map[uintptr]int{}, rsnIdx: map[uintptr]int{},
		reqIdx: map[*model.PushRequest]int{}, pcs: map[int]*model.PushContext{}, pcIdx: map[*model.PushContext]int{},
	}
}

func mapPtr(m any) uintptr {
	v := reflect.ValueOf(m)
	if v.IsNil() {
		return 0
	}
	return v.Pointer()
}

// ---------------------------------------------------------------- key encodings

func parseConfigKey(s string) model.ConfigKey {
	p := strings.SplitN(s, "/", 3)
	for len(p) < 3 {
		p = append(p, "")
	}
	return model.ConfigKey{Kind: kind.FromString(p[0]), Namespace: p[1], Name: p[2]}
}

func showConfigKey(k model.ConfigKey) string {
	return k.Kind.String() + "/" + k.Namespace + "/" + k.Name
}

func parseWaypoint(s string) model.WaypointReference {
	p := strings.SplitN(s, "/", 4)
	for len(p) < 4 {
		p = append(p, "")
	}
	return model.WaypointReference{Namespace: p[0], Hostname: p[1], Network: p[2], Address: p[3]}
}

func showWaypoint(w model.WaypointReference) string {
	return w.Namespace + "/" + w.Hostname + "/" + w.Network + "/" + w.Address
}

func cfgList(s sets.Set[model.ConfigKey]) []string {
	out := make([]string, 0, len(s))
	for k := range s {
		out = append(out, showConfigKey(k))
	}
	return out
}

func wpList(s sets.Set[model.WaypointReference]) []string {
	out := make([]string, 0, len(s))
	for k := range s {
		out = append(out, showWaypoint(k))
	}
	return out
}

func adrList(s sets.Set[string]) []string {
	out := make([]string, 0, len(s))
	for k := range s {
		out = append(out, k)
	}
	return out
}

func showRsn(m model.ReasonStats) string {
	if len(m) == 0 {
		return "-"
	}
	ks := make([]string, 0, len(m))
	for k := range m {
		ks = append(ks, string(k))
	}
	sort.Strings(ks)
	parts := make([]string, len(ks))
	for i, k := range ks {
		parts[i] = wire.Enc(k) + "=" + strconv.Itoa(m[model.TriggerReason(k)])
	}
	return strings.Join(parts, ",")
}

// ---------------------------------------------------------------- declarations

func (h *heap) pushCtx(n int) *model.PushContext {
	if pc, ok := h.pcs[n]; ok {
		return pc
	}
	pc := &model.PushContext{PushVersion: "v" + strconv.Itoa(n)}
	h.pcs[n] = pc
	h.pcIdx[pc] = n
	return pc
}

func startTime(n int) time.Time {
	if n == 0 {
		return time.Time{}
	}
	return time.Unix(int64(n), 0)
}

func showStart(t time.Time) string {
	if t.IsZero() {
		return "0"
	}
	return strconv.FormatInt(t.Unix(), 10)
}

func deltaOf(n int) model.ResourceDelta {
	if n == 0 {
		return model.ResourceDelta{}
	}
	return model.ResourceDelta{Subscribed: sets.New("d" + strconv.Itoa(n))}
}

func showDelta(d model.ResourceDelta) string {
	for k := range d.Subscribed {
		if strings.HasPrefix(k, "d") {
			return k[1:]
		}
	}
	if len(d.Subscribed)+len(d.Unsubscribed)+len(d.InitialResourceVersions) > 0 {
		return "other"
	}
	return "0"
}

// parseRef: "nil", "last" or an index below n; ok=false for anything else.
func parseRef(t string, n int, last int) (int, bool) {
	if t == "nil" {
		return -1, true
	}
	if t == "last" {
		return last, true
	}
	i, err := strconv.Atoi(t)
	if err != nil || i < 0 || i >= n {
		return 0, false
	}
	return i, true
}

// declare handles `set`, `rsn`, `req` lines; returns the answer token, or "" if f is not a declaration.
func (h *heap) declare(f []string) string {
	switch f[0] {
	case "set":
		if len(f) != 3 {
			return "bad-op"
		}
		elems := wire.DecList(f[2])
		switch f[1] {
		case "c":
			s := sets.New[model.ConfigKey]()
			for _, e := range elems {
				s.Insert(parseConfigKey(e))
			}
			h.cfgIdx[mapPtr(s)] = len(h.cfgs)
			h.cfgs = append(h.cfgs, s)
			return "c" + strconv.Itoa(len(h.cfgs)-1)
		case "a":
			s := sets.New[string](elems...)
			h.adrIdx[mapPtr(s)] = len(h.adrs)
			h.adrs = append(h.adrs, s)
			return "a" + strconv.Itoa(len(h.adrs)-1)
		case "w":
			s := sets.New[model.WaypointReference]()
			for _, e := range elems {
				s.Insert(parseWaypoint(e))
			}
			h.wpIdx[mapPtr(s)] = len(h.wps)
			h.wps = append(h.wps, s)
			return "w" + strconv.Itoa(len(h.wps)-1)
		}
		return "bad-op"
	case "rsn":
		if len(f) != 3 {
			return "bad-op"
		}
		ks := wire.DecList(f[1])
		var cs []string
		if f[2] != "-" {
			cs = strings.Split(f[2], ",")
		}
		m := model.ReasonStats{}
		for i, k := range ks {
			if i >= len(cs) {
				break
			}
			n, _ := strconv.Atoi(cs[i])
			m[model.TriggerReason(k)] += n
		}
		h.rsnIdx[mapPtr(m)] = len(h.rsns)
		h.rsns = append(h.rsns, m)
		return "r" + strconv.Itoa(len(h.rsns)-1)
	case "req":
		if len(f) != 9 {
			return "bad-op"
		}
		c, ok1 := parseRef(f[1], len(h.cfgs), -2)
		a, ok2 := parseRef(f[2], len(h.adrs), -2)
		w, ok3 := parseRef(f[3], len(h.wps), -2)
		r, ok4 := parseRef(f[4], len(h.rsns), -2)
		if !(ok1 && ok2 && ok3 && ok4) || c == -2 || a == -2 || w == -2 || r == -2 {
			return "bad-op"
		}
		req := &model.PushRequest{}
		if c >= 0 {
			req.ConfigsUpdated = h.cfgs[c]
		}
		if a >= 0 {
			req.AddressesUpdated = h.adrs[a]
		}
		if w >= 0 {
			req.WaypointsUpdated = h.wps[w]
		}
		if r >= 0 {
			req.Reason = h.rsns[r]
		}
		if f[5] != "nil" {
			n, err := strconv.Atoi(f[5])
			if err != nil || n < 0 {
				return "bad-op"
			}
			req.Push = h.pushCtx(n)
		}
		st, err1 := strconv.Atoi(f[6])
		d, err2 := strconv.Atoi(f[7])
		if err1 != nil || err2 != nil || st < 0 || d < 0 {
			return "bad-op"
		}
		req.Start = startTime(st)
		req.Delta = deltaOf(d)
		req.Forced = f[8] == "1" || f[8] == "true"
		h.reqIdx[req] = len(h.reqs)
		h.reqs = append(h.reqs, req)
		return "q" + strconv.Itoa(len(h.reqs)-1)
	}
	return ""
}

// ---------------------------------------------------------------- discovery of new objects

func (h *heap) seeMaps(r *model.PushRequest) {
	if p := mapPtr(r.ConfigsUpdated); p != 0 {
		if _, ok := h.cfgIdx[p]; !ok {
			h.cfgIdx[p] = len(h.cfgs)
			h.cfgs = append(h.cfgs, r.ConfigsUpdated)
		}
	}
	if p := mapPtr(r.AddressesUpdated); p != 0 {
		if _, ok := h.adrIdx[p]; !ok {
			h.adrIdx[p] = len(h.adrs)
			h.adrs = append(h.adrs, r.AddressesUpdated)
		}
	}
	if p := mapPtr(r.WaypointsUpdated); p != 0 {
		if _, ok := h.wpIdx[p]; !ok {
			h.wpIdx[p] = len(h.wps)
			h.wps = append(h.wps, r.WaypointsUpdated)
		}
	}
	if p := mapPtr(r.Reason); p != 0 {
		if _, ok := h.rsnIdx[p]; !ok {
			h.rsnIdx[p] = len(h.rsns)
			h.rsns = append(h.rsns, r.Reason)
		}
	}
}

// see registers a request pointer (and then every map reachable from any registered request)
// that the code under test has produced.
func (h *heap) see(rs ...*model.PushRequest) {
	for _, r := range rs {
		if r == nil {
			continue
		}
		if _, ok := h.reqIdx[r]; !ok {
			h.reqIdx[r] = len(h.reqs)
			h.reqs = append(h.reqs, r)
		}
	}
	for _, r := range h.reqs {
		h.seeMaps(r)
	}
}

func (h *heap) seeRsn(m model.ReasonStats) {
	if p := mapPtr(m); p != 0 {
		if _, ok := h.rsnIdx[p]; !ok {
			h.rsnIdx[p] = len(h.rsns)
			h.rsns = append(h.rsns, m)
		}
	}
}

// ---------------------------------------------------------------- canonical printing

func ref(pfx string, idx map[uintptr]int, m any) string {
	p := mapPtr(m)
	if p == 0 {
		return "nil"
	}
	if i, ok := idx[p]; ok {
		return pfx + strconv.Itoa(i)
	}
	return pfx + "?"
}

func (h *heap) reqRef(r *model.PushRequest) string {
	if r == nil {
		return "nil"
	}
	if i, ok := h.reqIdx[r]; ok {
		return "q" + strconv.Itoa(i)
	}
	return "q?"
}

func (h *heap) showReq(r *model.PushRequest) string {
	push := "nil"
	if r.Push != nil {
		if n, ok := h.pcIdx[r.Push]; ok {
			push = "p" + strconv.Itoa(n)
		} else {
			push = "p?"
		}
	}
	return fmt.Sprintf("%s/%s/%s/%s/%s/%s/%s/%s", ref("c", h.cfgIdx, r.ConfigsUpdated), ref("a", h.adrIdx, r.AddressesUpdated),
		ref("w", h.wpIdx, r.WaypointsUpdated), ref("r", h.rsnIdx, r.Reason), push, showStart(r.Start), showDelta(r.Delta), wire.B(r.Forced))
}

func store(name string, parts []string) string {
	if len(parts) == 0 {
		return name + "=-"
	}
	return name + "=" + strings.Join(parts, "|")
}

// dumpFrom prints every object with an id >= the given watermark of its store.
func (h *heap) dumpFrom(w [5]int) string {
	var c, a, wp, r, q []string
	for _, s := range h.cfgs[w[0]:] {
		c = append(c, wire.EncSet(cfgList(s)))
	}
	for _, s := range h.adrs[w[1]:] {
		a = append(a, wire.EncSet(adrList(s)))
	}
	for _, s := range h.wps[w[2]:] {
		wp = append(wp, wire.EncSet(wpList(s)))
	}
	for _, m := range h.rsns[w[3]:] {
		r = append(r, showRsn(m))
	}
	for _, x := range h.reqs[w[4]:] {
		q = append(q, h.showReq(x))
	}
	return strings.Join([]string{store("cfgs", c), store("adrs", a), store("wps", wp), store("rsns", r), store("reqs", q)}, " ")
}

func (h *heap) dump() string { return h.dumpFrom([5]int{}) }

func (h *heap) mark() [5]int {
	return [5]int{len(h.cfgs), len(h.adrs), len(h.wps), len(h.rsns), len(h.reqs)}
}
