// Harness for C04: drives the real xds.ShouldRespond / Send and (through the verif hooks)
// shouldRespondDelta / sendDelta on a real model.Proxy, one operation per line.
//
//	c04 gen    <stream> <seed> <ncases> <ops-out>
//	c04 exec   <stream> <ops-in> <impl-out>
//	c04 oracle <stream> <ops-in> <verdict-out>
//
// Streams: sotw, delta, loop (closed loop with a conformant client, see Protocol.lean).  The Lean driver (lean/IstioModel/C04/Driver.lean) consumes the same
// ops file; outputs are compared line by line.
package main

import (
	"context"
	"errors"
	"fmt"
	"os"
	"sort"
	"strconv"
	"strings"

	discovery "github.com/envoyproxy/go-control-plane/envoy/service/discovery/v3"
	"google.golang.org/genproto/googleapis/rpc/status"
	"google.golang.org/grpc/metadata"

	"istio.io/istio/pilot/pkg/model"
	pxds "istio.io/istio/pilot/pkg/xds"
	v3 "istio.io/istio/pilot/pkg/xds/v3"
	"istio.io/istio/pkg/util/sets"
	"istio.io/istio/pkg/xds"
	_ "verifharness/internal/quiet"
	"verifharness/internal/wire"
)

var typeOrder = []string{"CDS", "EDS", "LDS", "RDS", "SDS", "ECDS", "NDS", "WDS", "WL", "WAUTH"}

var typeURL = map[string]string{
	"CDS": v3.ClusterType, "EDS": v3.EndpointType, "LDS": v3.ListenerType, "RDS": v3.RouteType,
	"SDS": v3.SecretType, "ECDS": v3.ExtensionConfigurationType, "NDS": v3.NameTableType,
	"WDS": v3.AddressType, "WL": v3.WorkloadType, "WAUTH": v3.WorkloadAuthorizationType,
}

func main() {
	if len(os.Args) < 2 {
		fmt.Fprintln(os.Stderr, "usage: c04 gen|exec|oracle ...")
		os.Exit(2)
	}
	switch os.Args[1] {
	case "table":
		writeTypeTable(os.Args[2], os.Args[3])
	case "gen":
		seed, _ := strconv.ParseUint(os.Args[3], 10, 64)
		n, _ := strconv.Atoi(os.Args[4])
		switch os.Args[2] {
		case "loop":
			genLoop(seed, n, os.Args[5])
		case "proc", "dproc":
			genProc(os.Args[2], seed, n, os.Args[5])
		case "recv":
			genRecv(seed, n, os.Args[5])
		case "dloop":
			genDloop(seed, n, os.Args[5])
		case "enum", "denum":
			genEnum(os.Args[2], n, os.Args[5])
		case "enum2":
			genEnum2(n, os.Args[5])
		case "types":
			genTypes(os.Args[5])
		case "tproc":
			genTproc(seed, n, os.Args[5])
		case "sloop":
			genSloop(os.Args[5])
		default:
			gen(os.Args[2], seed, n, os.Args[5])
		}
	case "exec":
		execOps(os.Args[2], os.Args[3], os.Args[4])
	case "oracle":
		switch os.Args[2] {
		case "loop":
			oracleLoop(os.Args[3], os.Args[4])
		case "proc", "dproc", "tproc":
			oracleProc(os.Args[2], os.Args[3], os.Args[4])
		case "recv":
			oracleRecv(os.Args[3], os.Args[4])
		case "dloop":
			oracleDloop(os.Args[3], os.Args[4])
		case "types":
			oracleTypes(os.Args[3], os.Args[4])
		case "sloop":
			oracleSloop(os.Args[3], os.Args[4])
		default:
			oracle(os.Args[2], os.Args[3], os.Args[4])
		}
	default:
		os.Exit(2)
	}
}

// ---------------------------------------------------------------- fake streams

type baseStream struct{ fail bool }

func (b *baseStream) SetHeader(metadata.MD) error  { return nil }
func (b *baseStream) SendHeader(metadata.MD) error { return nil }
func (b *baseStream) SetTrailer(metadata.MD)       {}
func (b *baseStream) Context() context.Context     { return context.Background() }
func (b *baseStream) SendMsg(any) error            { return nil }
func (b *baseStream) RecvMsg(any) error            { return nil }

type sotwStream struct{ baseStream }

func (s *sotwStream) Send(*discovery.DiscoveryResponse) error {
	if s.fail {
		return errors.New("send failed")
	}
	return nil
}
func (s *sotwStream) Recv() (*discovery.DiscoveryRequest, error) { return nil, errors.New("eof") }

type deltaStream struct{ baseStream }

func (s *deltaStream) Send(*discovery.DeltaDiscoveryResponse) error {
	if s.fail {
		return errors.New("send failed")
	}
	return nil
}
func (s *deltaStream) Recv() (*discovery.DeltaDiscoveryRequest, error) {
	return nil, errors.New("eof")
}

// ---------------------------------------------------------------- real system under test

type sut struct {
	proxy *model.Proxy
	ss    *sotwStream
	ds    *deltaStream
	con   *pxds.Connection
	dcon  *pxds.Connection
}

func newSUT() *sut {
	p := &model.Proxy{ID: "verif-proxy", WatchedResources: map[string]*model.WatchedResource{}}
	s := &sut{proxy: p, ss: &sotwStream{}, ds: &deltaStream{}}
	s.con = pxds.VerifNewConnection(p, s.ss)
	s.dcon = pxds.VerifNewDeltaConnection(p, s.ds)
	return s
}

func errDetail(tok string) *status.Status {
	if tok == "-" {
		return nil
	}
	// error_detail.code: INTERNAL, or INVALID_ARGUMENT / UNAVAILABLE for some messages (the code is only reported)
	msg := wire.Dec(tok[2:])
	code := int32(13)
	switch msg {
	case "bad config":
		code = 3
	case "rejected":
		code = 14
	}
	return &status.Status{Code: code, Message: msg}
}

func (s *sut) showState() string {
	var parts []string
	for _, t := range typeOrder {
		w := s.proxy.WatchedResources[typeURL[t]]
		if w == nil {
			continue
		}
		parts = append(parts, fmt.Sprintf("%s[names=%s;w=%s;sent=%s;acked=%s;always=%s;err=%s]", t,
			wire.EncSet(w.ResourceNames.UnsortedList()), wire.B(w.Wildcard), wire.Enc(w.NonceSent),
			wire.Enc(w.NonceAcked), wire.B(w.AlwaysRespond), wire.Enc(w.LastError)))
	}
	if len(parts) == 0 {
		return "empty"
	}
	return strings.Join(parts, " ")
}

// apply runs one op against the real code; panics are reported as "crash".
func (s *sut) apply(f []string) (out string) {
	defer func() {
		if r := recover(); r != nil {
			out = "crash"
		}
	}()
	switch f[0] {
	case "case":
		*s = *newSUT()
		return "ok"
	case "req":
		req := &discovery.DiscoveryRequest{
			TypeUrl: typeURL[f[1]], ResourceNames: wire.DecList(f[2]), ResponseNonce: wire.Dec(f[3]),
			ErrorDetail: errDetail(f[4]),
		}
		r, d := xds.ShouldRespond(s.proxy, "verif", req)
		return fmt.Sprintf("%s %s %s", wire.B(r), wire.EncSet(d.Subscribed.UnsortedList()), s.showState())
	case "send":
		s.ss.fail = f[3] != "1"
		_ = xds.Send(s.con, &discovery.DiscoveryResponse{TypeUrl: typeURL[f[1]], Nonce: wire.Dec(f[2])})
		return s.showState()
	case "dreq":
		req := &discovery.DeltaDiscoveryRequest{
			TypeUrl: typeURL[f[1]], ResourceNamesSubscribe: wire.DecList(f[2]),
			ResourceNamesUnsubscribe: wire.DecList(f[3]), ResponseNonce: wire.Dec(f[5]),
			ErrorDetail: errDetail(f[6]),
		}
		if init := wire.DecList(f[4]); len(init) > 0 {
			req.InitialResourceVersions = map[string]string{}
			for _, n := range init {
				req.InitialResourceVersions[n] = "v"
			}
		}
		r := pxds.VerifShouldRespondDelta(s.dcon, req)
		return fmt.Sprintf("%s %s", wire.B(r), s.showState())
	case "always":
		// another type's new watch marked this one AlwaysRespond (warming): set it on the real record
		if w := s.proxy.WatchedResources[typeURL[f[1]]]; w != nil {
			w.AlwaysRespond = true
		}
		return s.showState()
	case "dsend":
		s.ds.fail = f[4] != "1"
		var names sets.String
		if f[3] != "nil" {
			names = sets.New(wire.DecList(f[3])...)
		}
		_ = pxds.VerifSendDelta(s.dcon, &discovery.DeltaDiscoveryResponse{TypeUrl: typeURL[f[1]], Nonce: wire.Dec(f[2])}, names)
		return s.showState()
	}
	return "bad-op"
}

func execOps(stream, in, outp string) {
	out := wire.Create(outp)
	defer out.Close()
	s := newSUT()
	l := &loopSys{sut: s}
	pr := &procRunner{}
	dl := newDloop("EDS")
	for _, f := range wire.ReadLines(in) {
		switch stream {
		case "dloop":
			out.Line(dl.apply(f))
		case "loop":
			out.Line(l.apply(f))
		case "proc", "dproc", "tproc":
			out.Line(pr.apply(f))
		case "recv":
			out.Line(applyRecv(f))
		case "types":
			out.Line("ok")
		case "sloop":
			out.Line(applySloop(f))
		default:
			out.Line(s.apply(f))
		}
		out.Flush()
	}
}

// ---------------------------------------------------------------- closed loop (stream loop)
//
// The real ShouldRespond / Send composed with a conformant client over two FIFO channels, as in
// lean/IstioModel/C04/Protocol.lean: the client logic and the channels live here, every server
// decision is taken by the real code.

type loopReq struct {
	names []string
	nonce string
	err   string // "-" or e:<msg>
}

type loopSys struct {
	sut      *sut
	ty       string
	cnames   []string
	cnonce   string
	c2s      []loopReq
	s2c      []string
	sentAny  bool
	lastNack bool
}

func (l *loopSys) show() string {
	c := "-"
	if len(l.c2s) > 0 {
		var parts []string
		for _, r := range l.c2s {
			parts = append(parts, fmt.Sprintf("%s/%s/%s", wire.Enc(r.nonce), wire.EncSet(r.names), r.err))
		}
		c = strings.Join(parts, ";")
	}
	return fmt.Sprintf("%s | c2s=%s s2c=%s cnonce=%s cnames=%s sent=%s nack=%s", l.sut.showState(), c,
		wire.EncList(l.s2c), wire.Enc(l.cnonce), wire.EncSet(l.cnames), wire.B(l.sentAny), wire.B(l.lastNack))
}

func (l *loopSys) apply(f []string) (out string) {
	defer func() {
		if r := recover(); r != nil {
			out = "crash"
		}
	}()
	url := typeURL[l.ty]
	switch f[0] {
	case "case":
		*l.sut = *newSUT()
		*l = loopSys{sut: l.sut, ty: f[3], cnonce: wire.Dec(f[4])}
		return "ok"
	case "cchange":
		l.cnames = wire.DecList(f[1])
		l.c2s = append(l.c2s, loopReq{l.cnames, l.cnonce, "-"})
		l.sentAny, l.lastNack = true, false
	case "crecv":
		if len(l.s2c) == 0 {
			break
		}
		l.cnonce, l.s2c = l.s2c[0], l.s2c[1:]
		l.c2s = append(l.c2s, loopReq{l.cnames, l.cnonce, f[1]})
		l.sentAny, l.lastNack = true, f[1] != "-"
	case "srecv":
		n := wire.Dec(f[1])
		if len(l.c2s) == 0 || n == "" {
			break
		}
		m := l.c2s[0]
		l.c2s = l.c2s[1:]
		respond, _ := xds.ShouldRespond(l.sut.proxy, "verif", &discovery.DiscoveryRequest{
			TypeUrl: url, ResourceNames: m.names, ResponseNonce: m.nonce, ErrorDetail: errDetail(m.err),
		})
		// f[2] == "0": the server decides to answer but nothing goes out (the generator has nothing to send)
		if respond && !(len(f) > 2 && f[2] == "0") {
			l.sut.ss.fail = false
			_ = xds.Send(l.sut.con, &discovery.DiscoveryResponse{TypeUrl: url, Nonce: n})
			l.s2c = append(l.s2c, n)
		}
	case "spush":
		n := wire.Dec(f[1])
		if n == "" || l.sut.proxy.WatchedResources[url] == nil {
			break
		}
		l.sut.ss.fail = false
		_ = xds.Send(l.sut.con, &discovery.DiscoveryResponse{TypeUrl: url, Nonce: n})
		l.s2c = append(l.s2c, n)
	case "always":
		if w := l.sut.proxy.WatchedResources[url]; w != nil {
			w.AlwaysRespond = true
		}
	case "other":
		// a request of ANOTHER type on the same stream, handled by the real ShouldRespond (a new CDS watch marks EDS
		// through the real NewWatchedResource)
		_, _ = xds.ShouldRespond(l.sut.proxy, "verif", &discovery.DiscoveryRequest{
			TypeUrl: typeURL[f[1]], ResourceNames: wire.DecList(f[2]), ResponseNonce: wire.Dec(f[3]),
		})
	default:
		return "bad-op"
	}
	return l.show()
}

func genLoop(seed uint64, n int, outp string) {
	out := wire.Create(outp)
	defer out.Close()
	root := wire.NewRng(seed ^ 0x100C04)
	for c := 0; c < n; c++ {
		r := root.Fork()
		ty := wire.Pick(r, typeOrder)
		out.Line("case", strconv.Itoa(c), "loop", ty, wire.Enc(wire.Pick(r, []string{"", "old", "n1"})))
		length := 2 + r.Intn(40)
		ctr := 0
		nonce := func() string {
			// nonces need not be unique: sometimes reuse
			if r.Chance(1, 8) {
				return wire.Pick(r, []string{"n1", "n2", "old", ""})
			}
			ctr++
			return "n" + strconv.Itoa(ctr)
		}
		for i := 0; i < length; i++ {
			switch r.Intn(10) {
			case 0, 1:
				out.Line("cchange", wire.EncList(genNames(r, true)))
			case 2, 3, 4:
				if r.Chance(1, 6) {
					out.Line("crecv", "e:"+wire.Enc("rejected"))
				} else {
					out.Line("crecv", "-")
				}
			case 5, 6, 7:
				// one answer in six has nothing to send (or its send fails)
				out.Line("srecv", wire.Enc(nonce()), wire.B(!r.Chance(1, 6)))
			case 8:
				out.Line("spush", wire.Enc(nonce()))
			default:
				if r.Chance(1, 2) {
					out.Line("always")
				} else {
					// several types on the stream: another type's request (for EDS mostly the CDS request that marks it)
					t2 := wire.Pick(r, []string{"CDS", "CDS", "LDS", "RDS", "EDS", "SDS"})
					if t2 != ty {
						out.Line("other", t2, wire.EncList(genNames(r, true)), wire.Enc(wire.Pick(r, []string{"", "old", "n1"})))
					}
				}
			}
		}
		// drain to quiescence so that the quiescent clause is exercised
		if r.Chance(3, 4) {
			for k := 0; k < 12; k++ {
				out.Line("srecv", wire.Enc(nonce()), wire.B(!r.Chance(1, 10)))
				out.Line("crecv", "-")
			}
		}
	}
}

// oracleLoop checks the last sentence of the property on the real code: at every quiescent point
// (both channels empty) after the client has spoken and not rejected, record == client's names.
func oracleLoop(in, outp string) {
	out := wire.Create(outp)
	defer out.Close()
	defer dumpStats(outp)
	s := newSUT()
	l := &loopSys{sut: s}
	verdict, open, idx := "", false, 0
	flush := func() {
		if open {
			if verdict == "" {
				verdict = "OK"
			}
			out.Line(verdict)
		}
	}
	for _, f := range wire.ReadLines(in) {
		if f[0] == "case" {
			flush()
			l.apply(f)
			verdict, open, idx = "", true, 0
			continue
		}
		idx++
		if l.apply(f) == "crash" && verdict == "" {
			verdict = fmt.Sprintf("FAIL never-crashes op=%d", idx)
		}
		if f[0] == "srecv" && len(f) > 2 && f[2] == "0" {
			stat("op.undelivered-answer")
		}
		if f[0] == "other" {
			stat("op.other-type-request")
		}
		if len(l.c2s) == 0 && len(l.s2c) == 0 && l.sentAny && !l.lastNack && verdict == "" {
			stat("clause.quiescent-record-matches", "type."+l.ty)
			url := typeURL[l.ty]
			w := l.sut.proxy.WatchedResources[url]
			ok := false
			if len(l.cnames) == 0 && !xds.IsWildcardTypeURL(url) {
				ok = w == nil
			} else {
				ok = w != nil && sameSet(w.ResourceNames, l.cnames)
			}
			if !ok {
				verdict = fmt.Sprintf("FAIL quiescent-record-matches op=%d %s", idx, wire.Enc(l.show()))
			}
		}
	}
	flush()
}

// ---------------------------------------------------------------- generator

var nameUniverse = []string{"a", "b", "c"}

func genNames(r *wire.Rng, allowEmpty bool) []string {
	for {
		l := wire.Subset(r, nameUniverse, 1, 2)
		if r.Chance(1, 10) {
			l = append(l, "*") // in SotW `*` is a name like any other
		}
		if r.Chance(1, 12) && len(l) > 0 {
			l = append(l, l[0]) // duplicate in the request
		}
		if len(l) > 0 || allowEmpty || r.Chance(1, 4) {
			if r.Chance(1, 2) {
				sort.Sort(sort.Reverse(sort.StringSlice(l)))
			}
			return l
		}
	}
}

// genWarm scripts the reconnect order "EDS before CDS" (property C05, envoyproxy/envoy#13009): the proxy re-sends
// its EDS subscription, is answered, then sends CDS; the clusters it gets may differ from the ones it retained
// (deleted / added while it was away), and the EDS subscription it re-sends for its warming clusters carries the
// current nonce and a name list that is equal to, a subset of, a superset of or overlapping with the recorded one.
func genWarm(r *wire.Rng, out *wire.Out) {
	oldNonce := func() string { return wire.Pick(r, []string{"", "", "old7", "n1"}) }
	names0 := wire.Subset(r, nameUniverse, 1, 2)
	if len(names0) == 0 {
		names0 = []string{"a"}
	}
	out.Line("req", "EDS", wire.EncList(names0), wire.Enc(oldNonce()), "-")
	// the EDS answer may still be on its way (nothing generated yet, or its send failed) when the CDS request arrives
	late := r.Chance(1, 4)
	if late && r.Chance(1, 2) {
		out.Line("send", "EDS", wire.Enc("n0"), "0")
	}
	if !late {
		out.Line("send", "EDS", wire.Enc("n1"), "1")
		if r.Chance(1, 2) {
			out.Line("req", "EDS", wire.EncList(names0), wire.Enc("n1"), "-") // ACK
		}
	}
	cdsNames := []string{}
	if r.Chance(1, 3) {
		cdsNames = []string{"*"}
	}
	out.Line("req", "CDS", wire.EncList(cdsNames), wire.Enc(oldNonce()), "-")
	out.Line("send", "CDS", wire.Enc("n2"), "1")
	if late {
		out.Line("send", "EDS", wire.Enc("n1"), "1")
	}
	if r.Chance(1, 2) {
		out.Line("req", "CDS", wire.EncList(cdsNames), wire.Enc("n2"), "-") // ACK
	}
	var names1 []string
	switch r.Intn(4) {
	case 0:
		names1 = append([]string(nil), names0...)
	default:
		names1 = wire.Subset(r, nameUniverse, 1, 2)
		if len(names1) == 0 {
			names1 = []string{wire.Pick(r, nameUniverse)}
		}
	}
	if r.Chance(1, 2) {
		sort.Sort(sort.Reverse(sort.StringSlice(names1)))
	}
	out.Line("req", "EDS", wire.EncList(names1), wire.Enc("n1"), "-") // the re-sent subscription for the warming clusters
	out.Line("send", "EDS", wire.Enc("n3"), "1")
	out.Line("req", "EDS", wire.EncList(names1), wire.Enc("n3"), "-") // ACK of it: silent again
	if r.Chance(1, 3) {
		out.Line("req", "EDS", wire.EncList(wire.Subset(r, nameUniverse, 1, 2)), wire.Enc("n3"), "-")
	}
}

func gen(stream string, seed uint64, n int, outp string) {
	out := wire.Create(outp)
	defer out.Close()
	root := wire.NewRng(seed ^ 0xC04)
	for c := 0; c < n; c++ {
		r := root.Fork()
		out.Line("case", strconv.Itoa(c), stream)
		if stream == "warm" {
			genWarm(r, out)
			continue
		}
		// small universes make collisions (same type, same nonce) likely
		types := typeOrder
		if r.Chance(2, 3) {
			types = wire.Subset(r, typeOrder, 1, 3)
			if len(types) == 0 {
				types = []string{"CDS", "EDS"}
			}
		}
		if r.Chance(1, 2) {
			types = append(types, "CDS", "EDS") // warming dependency pair is over-weighted
		}
		length := 1 + r.Intn(40)
		lastSent := map[string]string{}
		lastNames := map[string][]string{}
		nonceCtr := 0
		var staleNonces, failedNonces []string
		for i := 0; i < length; i++ {
			t := wire.Pick(r, types)
			wild := xds.IsWildcardTypeURL(typeURL[t])
			pickNonce := func() string {
				switch r.Intn(10) {
				case 0, 1:
					return ""
				case 2:
					if len(staleNonces) > 0 {
						return wire.Pick(r, staleNonces)
					}
					return "zz"
				case 3:
					// the nonce of a response whose send failed: the client never saw it
					if len(failedNonces) > 0 {
						return wire.Pick(r, failedNonces)
					}
					return "zz"
				default:
					return lastSent[t]
				}
			}
			pickErr := func() string {
				if r.Chance(1, 8) {
					return "e:" + wire.Enc(wire.Pick(r, []string{"boom", "bad config", ""}))
				}
				return "-"
			}
			if stream == "sotw" {
				switch {
				case r.Chance(1, 3):
					nonceCtr++
					nn := "n" + strconv.Itoa(nonceCtr)
					if r.Chance(1, 10) {
						nn = ""
					}
					ok := r.Chance(5, 6)
					if ok && nn != "" {
						if lastSent[t] != "" {
							staleNonces = append(staleNonces, lastSent[t])
						}
						lastSent[t] = nn
					}
					out.Line("send", t, wire.Enc(nn), wire.B(ok))
					if !ok && nn != "" {
						failedNonces = append(failedNonces, nn)
						if r.Chance(1, 2) {
							// the client echoes it all the same, with more names than it had
							out.Line("req", t, wire.EncList(append(append([]string{}, lastNames[t]...), wire.Pick(r, nameUniverse))), wire.Enc(nn), "-")
						}
					}
				case r.Chance(1, 3) && lastSent[t] != "":
					// conformant ACK: current nonce, names as last requested
					out.Line("req", t, wire.EncList(lastNames[t]), wire.Enc(lastSent[t]), "-")
				default:
					names := genNames(r, wild)
					lastNames[t] = names
					out.Line("req", t, wire.EncList(names), wire.Enc(pickNonce()), pickErr())
				}
			} else {
				switch {
				case r.Chance(1, 3):
					nonceCtr++
					nn := "n" + strconv.Itoa(nonceCtr)
					if r.Chance(1, 12) {
						nn = "" // sendDelta records an empty nonce as well
					}
					ok := r.Chance(5, 6)
					if ok {
						if lastSent[t] != "" {
							staleNonces = append(staleNonces, lastSent[t])
						}
						lastSent[t] = nn
					} else if nn != "" {
						failedNonces = append(failedNonces, nn)
					}
					names := "nil"
					if r.Chance(1, 2) {
						names = wire.EncList(genNames(r, true))
					}
					out.Line("dsend", t, wire.Enc(nn), names, wire.B(ok))
				case r.Chance(1, 4) && lastSent[t] != "":
					out.Line("dreq", t, "-", "-", "-", wire.Enc(lastSent[t]), "-")
				case r.Chance(1, 8):
					out.Line("always", t)
				default:
					univ := append([]string{"*"}, nameUniverse...)
					sub := wire.Subset(r, univ, 1, 3)
					unsub := wire.Subset(r, univ, 1, 5)
					if r.Chance(1, 8) && len(sub) > 0 {
						sub = append(sub, sub[r.Intn(len(sub))]) // a duplicate in resource_names_subscribe
					}
					if r.Chance(1, 12) && len(unsub) > 0 {
						unsub = append(unsub, unsub[0])
					}
					var init []string
					if r.Chance(1, 6) {
						init = wire.Subset(r, nameUniverse, 1, 2)
					}
					out.Line("dreq", t, wire.EncList(sub), wire.EncList(unsub), wire.EncList(init), wire.Enc(pickNonce()), pickErr())
				}
			}
		}
	}
}

// ---------------------------------------------------------------- property oracle
//
// Evaluates the clauses of the property statement directly on the real functions, with no
// reference to the Lean model: used to search for a failing input when the correspondence
// or a proof breaks.  One verdict line per case: "OK" or "FAIL <clause> op=<i> <detail>".

func snapshot(p *model.Proxy, url string) *model.WatchedResource {
	w := p.WatchedResources[url]
	if w == nil {
		return nil
	}
	c := *w
	c.ResourceNames = w.ResourceNames.Copy()
	return &c
}

func sameSet(a sets.String, b []string) bool {
	return a.Equals(sets.New(b...))
}

func oracle(stream, in, outp string) {
	out := wire.Create(outp)
	defer out.Close()
	s := newSUT()
	o := &histOracle{}
	o.reset()
	caseOpen := false
	flush := func() {
		if caseOpen {
			if o.verdict == "" {
				o.verdict = "OK"
			}
			out.Line(o.verdict)
		}
	}
	// asked: per type, what the client has asked for so far on this stream (delta); nonconf: the script sent
	// initial_resource_versions on a later request of the type (not a conformant client) or a send rewrote the names
	asked := map[string]sets.Set[string]{}
	nonconf := map[string]bool{}
	for _, f := range wire.ReadLines(in) {
		line := strings.Join(f, " ")
		if f[0] == "case" {
			flush()
			s = newSUT()
			o.reset()
			caseOpen = true
			asked = map[string]sets.Set[string]{}
			nonconf = map[string]bool{}
			continue
		}
		o.idx++
		switch f[0] {
		case "req":
			t := f[1]
			url := typeURL[t]
			names := wire.DecList(f[2])
			nonce := wire.Dec(f[3])
			e := o.expectSotw(t, names, nonce, errMsgOf(f[4]))
			res := s.apply(f)
			if res == "crash" {
				o.fail("never-crashes", line)
				continue
			}
			parts := strings.SplitN(res, " ", 3)
			responded := parts[0] == "1"
			subscribed := wire.DecList(parts[1])
			switch {
			case responded != e.respond:
				o.fail(e.clause, res)
			case e.respond && e.full && len(subscribed) != 0:
				o.fail(e.clause, "narrowed to "+parts[1]+": "+res)
			case e.respond && !e.full && !sameNames(subscribed, sets.New(e.asked...)):
				o.fail(e.clause, "Subscribed="+parts[1]+" want "+strings.Join(e.asked, ",")+": "+res)
			}
			o.checkTable(s.proxy, false, false, nil, line)
			// closed loop: a conformant client now ACKs the response (same names, the response's nonce): silent
			if responded && o.verdict == "" {
				cur := snapshot(s.proxy, url)
				s.ss.fail = false
				_ = xds.Send(s.con, &discovery.DiscoveryResponse{TypeUrl: url, Nonce: "oracle-nonce"})
				r2, _ := xds.ShouldRespond(s.proxy, "verif", &discovery.DiscoveryRequest{TypeUrl: url, ResourceNames: names, ResponseNonce: "oracle-nonce"})
				if r2 {
					o.fail("no-loop(ack-of-response-answered)", res)
				}
				// restore the record so that the rest of the scripted case is unaffected
				s.proxy.WatchedResources[url].NonceSent = cur.NonceSent
				s.proxy.WatchedResources[url].NonceAcked = cur.NonceAcked
			}
		case "send":
			if s.apply(f) == "crash" {
				o.fail("never-crashes", line)
			}
			if f[3] == "1" {
				o.sendSotw(f[1], wire.Dec(f[2]))
			}
			o.checkTable(s.proxy, false, false, nil, line)
		case "dreq":
			t := f[1]
			url := typeURL[t]
			sub, unsubL, initL := wire.DecList(f[2]), wire.DecList(f[3]), wire.DecList(f[4])
			isErr := f[6] != "-"
			existed := o.get(t).exists
			e := o.expectDelta(t, sub, unsubL, initL, wire.Dec(f[5]), errMsgOf(f[6]))
			res := s.apply(f)
			if res == "crash" {
				o.fail("never-crashes", line)
				continue
			}
			if !e.either && strings.HasPrefix(res, "1 ") != e.respond {
				o.fail(e.clause, res)
			}
			o.checkTable(s.proxy, true, false, nil, line)
			// the last sentence of the property over the whole exchange, with its own fold of the history: after a
			// processed message that is not a rejection the record equals everything a conformant client has asked for
			if existed && len(initL) > 0 {
				nonconf[url] = true
			}
			if !existed {
				asked[url] = sets.New[string]()
				asked[url].InsertAll(sub...)
				asked[url].InsertAll(initL...)
				asked[url].DeleteAll(unsubL...)
				asked[url].Delete("*")
			} else if asked[url] != nil {
				asked[url].InsertAll(sub...)
				asked[url].DeleteAll(unsubL...)
				asked[url].Delete("*")
			}
			cur := s.proxy.WatchedResources[url]
			if !isErr && asked[url] != nil && !nonconf[url] && cur != nil && !cur.Wildcard && namedType(t) {
				if !cur.ResourceNames.Equals(asked[url]) {
					o.fail("record-equals-what-the-client-asked-for", res+" asked="+strings.Join(sets.SortedList(asked[url]), ","))
				}
			}
		case "dsend":
			if f[3] != "nil" {
				// the send rewrites the recorded names (wildcard types): the fold above does not apply any more
				nonconf[typeURL[f[1]]] = true
			}
			if s.apply(f) == "crash" {
				o.fail("never-crashes", line)
			}
			if f[4] == "1" {
				o.sendDelta(f[1], wire.Dec(f[2]), wire.DecList(f[3]), f[3] != "nil")
			}
			o.checkTable(s.proxy, true, false, nil, line)
		case "always":
			// the environment marks the watch (another type's new watch): part of the history
			if h := o.get(f[1]); h.exists {
				h.warm = true
			}
			if s.apply(f) == "crash" {
				o.fail("never-crashes", line)
			}
			o.checkTable(s.proxy, true, false, nil, line)
		default:
			if s.apply(f) == "crash" {
				o.fail("never-crashes", line)
			}
		}
	}
	flush()
	dumpStats(outp)
}
