// Streams enum (SotW) and denum (delta): the exhaustive single-step enumeration - every state class of the
// watch of one type x every request class over a tiny name universe, each as its own case (state set up by
// ops, then the one request).  Deterministic: the seed is not used.  The quick tier enumerates SotW completely
// and a reduced delta domain; the thorough tier the full delta domain.
package main

import (
	"os"
	"strconv"

	"verifharness/internal/wire"
)

func subsets(u []string) [][]string {
	out := [][]string{}
	for m := 0; m < 1<<len(u); m++ {
		var s []string
		for i, x := range u {
			if m&(1<<i) != 0 {
				s = append(s, x)
			}
		}
		out = append(out, s)
	}
	return out
}

func genEnum(stream string, limit int, outp string) {
	out := wire.Create(outp)
	defer out.Close()
	thorough := os.Getenv("VERIF_TIER") == "thorough"
	c := 0
	open := func() bool {
		if limit > 0 && c >= limit {
			return false
		}
		out.Line("case", strconv.Itoa(c), stream)
		c++
		return true
	}
	bools := []bool{false, true}
	if stream == "enum" {
		univ := []string{"a", "b"}
		for _, t := range typeOrder {
			edsVariants := []bool{false}
			if t == "CDS" {
				edsVariants = bools // a new CDS watch marks an existing EDS watch
			}
			// state classes: no watch | watch created by a request (names) or by a bare send (no names)
			type st struct {
				exists, bySend, sent, always, errd bool
				names                              []string
			}
			states := []st{{}}
			for _, names := range subsets(univ) {
				for _, sent := range bools {
					for _, always := range bools {
						for _, errd := range bools {
							if len(names) == 0 && namedType(t) {
								if !sent {
									continue // a named type has no watch without names unless a send created it
								}
								states = append(states, st{exists: true, bySend: true, sent: true, always: always, errd: errd})
								continue
							}
							states = append(states, st{exists: true, sent: sent, always: always, errd: errd, names: names})
						}
					}
				}
			}
			for _, eds := range edsVariants {
				for _, s := range states {
					for _, names := range append(subsets(univ), []string{"a", "a"}, []string{"*"}, []string{"a", "*"}) {
						for _, nonce := range []string{"", "n1", "zz"} {
							for _, e := range []string{"-", "e:boom"} {
								if !open() {
									return
								}
								if eds {
									out.Line("req", "EDS", "a", "~", "-")
									out.Line("send", "EDS", "n1", "1")
								}
								if s.exists {
									if !s.bySend {
										out.Line("req", t, wire.EncList(s.names), "~", "-")
									}
									if s.sent {
										out.Line("send", t, "n1", "1")
									}
									if s.errd {
										out.Line("req", t, wire.EncList(s.names), "zz", "e:old")
									}
									if s.always {
										out.Line("always", t)
									}
								}
								out.Line("req", t, wire.EncList(names), wire.Enc(nonce), e)
							}
						}
					}
				}
			}
		}
		return
	}
	// delta
	types := []string{"EDS", "CDS", "WDS"}
	subU, unsubU, stateU := []string{"a", "*"}, []string{"a", "*"}, []string{"a"}
	inits := [][]string{nil}
	if thorough {
		types = []string{"EDS", "CDS", "WDS", "WL", "ECDS"}
		subU, unsubU, stateU = []string{"a", "b", "*"}, []string{"a", "b", "*"}, []string{"a", "b"}
		inits = [][]string{nil, {"a"}}
	}
	type dst struct {
		exists, wild, sent, always bool
		names                      []string
	}
	states := []dst{{}}
	for _, names := range subsets(stateU) {
		for _, wild := range bools {
			for _, sent := range bools {
				for _, always := range bools {
					states = append(states, dst{true, wild, sent, always, names})
				}
			}
		}
	}
	for _, t := range types {
		for _, s := range states {
			for _, sub := range append(subsets(subU), []string{"a", "a"}) {
				for _, unsub := range subsets(unsubU) {
					for _, init := range inits {
						for _, nonce := range []string{"", "n1", "zz"} {
							for _, e := range []string{"-", "e:boom"} {
								if !open() {
									return
								}
								if s.exists {
									if s.wild {
										out.Line("dreq", t, "-", "-", "-", "~", "-")
										if len(s.names) > 0 {
											out.Line("dreq", t, wire.EncList(s.names), "-", "-", "~", "-")
										}
									} else if len(s.names) > 0 {
										out.Line("dreq", t, wire.EncList(s.names), "-", "-", "~", "-")
									} else {
										out.Line("dreq", t, "a", "a", "-", "~", "-") // subscribed to nothing
									}
									if s.sent {
										out.Line("dsend", t, "n1", "nil", "1")
									}
									if s.always {
										out.Line("always", t)
									}
								}
								out.Line("dreq", t, wire.EncList(sub), wire.EncList(unsub), wire.EncList(init), wire.Enc(nonce), e)
							}
						}
					}
				}
			}
		}
	}
}

// genEnum2: the bounded-exhaustive MULTI-step enumeration: every sequence of k operations over a tiny alphabet
// (requests x nonce {empty, n1, n2} x with/without error_detail, sends ok / failed, the warming mark) from two start
// states.  Quick: all 2-step SotW sequences (EDS, CDS) and all 2-step delta sequences for EDS; thorough: all 3-step SotW
// sequences and all 2-step delta sequences for EDS, CDS and WDS.
func genEnum2(limit int, outp string) {
	out := wire.Create(outp)
	defer out.Close()
	thorough := os.Getenv("VERIF_TIER") == "thorough"
	c := 0
	emit := func(t string, start [][]string, seq [][]string) bool {
		if limit > 0 && c >= limit {
			return false
		}
		out.Line("case", strconv.Itoa(c), "enum2")
		c++
		for _, l := range start {
			out.Line(l...)
		}
		for _, l := range seq {
			out.Line(l...)
		}
		return true
	}
	var rec func(t string, start [][]string, alpha [][]string, k int, seq [][]string) bool
	rec = func(t string, start [][]string, alpha [][]string, k int, seq [][]string) bool {
		if k == 0 {
			return emit(t, start, seq)
		}
		for _, op := range alpha {
			if !rec(t, start, alpha, k-1, append(seq[:len(seq):len(seq)], op)) {
				return false
			}
		}
		return true
	}
	depth := 2
	if thorough {
		depth = 3
	}
	for _, t := range []string{"EDS", "CDS"} {
		var alpha [][]string
		for _, names := range []string{"-", "a", "a,b"} {
			for _, nonce := range []string{"~", "n1", "n2"} {
				for _, e := range []string{"-", "e:boom"} {
					alpha = append(alpha, []string{"req", t, names, nonce, e})
				}
			}
		}
		alpha = append(alpha, []string{"send", t, "n1", "1"}, []string{"send", t, "n2", "1"}, []string{"send", t, "n1", "0"}, []string{"always", t})
		for _, start := range [][][]string{nil, {{"req", t, "a", "~", "-"}, {"send", t, "n1", "1"}}} {
			if !rec(t, start, alpha, depth, nil) {
				return
			}
		}
	}
	dtypes := []string{"EDS"}
	if thorough {
		dtypes = []string{"EDS", "CDS", "WDS"}
	}
	for _, t := range dtypes {
		var alpha [][]string
		for _, sub := range []string{"-", "a", "*"} {
			for _, unsub := range []string{"-", "a"} {
				for _, nonce := range []string{"~", "n1", "n2"} {
					for _, e := range []string{"-", "e:boom"} {
						alpha = append(alpha, []string{"dreq", t, sub, unsub, "-", nonce, e})
					}
				}
			}
		}
		alpha = append(alpha, []string{"dsend", t, "n1", "nil", "1"}, []string{"dsend", t, "n2", "nil", "1"}, []string{"dsend", t, "n1", "a", "1"},
			[]string{"dsend", t, "n1", "nil", "0"}, []string{"always", t})
		for _, start := range [][][]string{nil, {{"dreq", t, "a", "-", "-", "~", "-"}, {"dsend", t, "n1", "nil", "1"}}} {
			if !rec(t, start, alpha, 2, nil) {
				return
			}
		}
	}
}
