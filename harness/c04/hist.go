// The history-keyed part of the property oracle, shared by all streams.
//
// Which clause of the property applies to a request is decided from the HISTORY of the exchange as a client
// sees it - which requests it has sent, which responses reached it (a response whose Send failed did not) -
// and never from the server's own bookkeeping.  The server's watch table is then compared with what that
// history implies (names, nonce sent / acked, AlwaysRespond, LastError).
package main

import (
	"fmt"
	"os"
	"sort"
	"strings"

	"istio.io/istio/pilot/pkg/model"
	v3 "istio.io/istio/pilot/pkg/xds/v3"
	"istio.io/istio/pkg/util/sets"
	"istio.io/istio/pkg/xds"
	"verifharness/internal/wire"
)

type hist struct {
	exists    bool
	wild      bool        // delta: the subscription is a wildcard one (fixed by the first request)
	names     sets.String // what the client has asked for
	delivered string      // nonce of the last response that reached the client since the watch was created
	acked     string      // nonce of the last response the client acknowledged
	lastErr   string      // message of the last rejection, until the next acknowledgement
	warm      bool        // a CDS watch was created while this (EDS) watch existed, and no request has consumed it
}

// stats: how often each clause / type / class was exercised by an oracle run (written next to the verdicts, read by
// the check into the evidence counters).
var stats = map[string]int{}

// tprocRow: the type-URL constant of the current tproc case (for the per-row counters).
var tprocRow string

func stat(keys ...string) {
	for _, k := range keys {
		stats[k]++
	}
}

func dumpStats(verdictPath string) {
	keys := make([]string, 0, len(stats))
	for k := range stats {
		keys = append(keys, k)
	}
	sort.Strings(keys)
	var b strings.Builder
	for _, k := range keys {
		fmt.Fprintf(&b, "%s %d\n", k, stats[k])
	}
	_ = os.WriteFile(verdictPath+".stats", []byte(b.String()), 0o644)
}

// note records one classified request in the stats and hands the expectation on.
func note(proto, t string, e expect) expect {
	answered := "silent"
	if e.respond {
		answered = "answered"
	} else if e.either {
		answered = "observation"
	}
	if t == "T" && tprocRow != "" {
		t = "row." + tprocRow // stream tproc: the type-URL constant of the case
	}
	stat("clause."+e.clause, "class."+proto+"."+answered, "type."+t)
	return e
}

type histOracle struct {
	h       map[string]*hist
	verdict string
	idx     int
}

func (o *histOracle) reset() { o.h, o.verdict, o.idx = map[string]*hist{}, "", 0 }

func (o *histOracle) fail(clause, detail string) {
	if o.verdict == "" {
		o.verdict = fmt.Sprintf("FAIL %s op=%d %s", clause, o.idx, wire.Enc(detail))
	}
}

func (o *histOracle) get(t string) *hist {
	if o.h[t] == nil {
		o.h[t] = &hist{names: sets.New[string]()}
	}
	return o.h[t]
}

func namedType(t string) bool { return !xds.IsWildcardTypeURL(typeURL[t]) }
func managedType(t string) bool {
	u := typeURL[t]
	return u == v3.AddressType || u == v3.WorkloadType
}

// expect is what the property demands for one request, given the history.
type expect struct {
	respond bool
	// either: the property does not decide (observation only): the code may stay silent or answer with `asked`
	either bool
	clause string
	full   bool     // answered for the whole subscription
	asked  []string // otherwise: exactly these names (SotW: the added names; delta: the names the request subscribes to)
	// delta: what the generator must be told (req.Delta): the request's subscribe set, its unsubscribes without `*`,
	// the retained versions (generator-managed types only)
	dsub, dunsub, dinit []string
}

// expectSotw classifies a state-of-the-world request and advances the history.
func (o *histOracle) expectSotw(t string, names []string, nonce string, errMsg *string) expect {
	return note("sotw", t, o.expectSotw0(t, names, nonce, errMsg))
}

func (o *histOracle) expectSotw0(t string, names []string, nonce string, errMsg *string) expect {
	h := o.get(t)
	switch {
	case errMsg != nil && h.exists:
		h.lastErr = *errMsg
		return expect{clause: "nack-silent"}
	// a request with error_detail for a type that is NOT watched on this stream rejects a response of a previous
	// stream (Envoy keeps a NACK it could not send): on this stream it is the first request of the type
	case len(names) == 0 && namedType(t):
		*h = hist{names: sets.New[string]()}
		return expect{clause: "unsubscribe-silent"}
	case !h.exists || nonce == "":
		*h = hist{exists: true, names: sets.New(names...)}
		if t == "CDS" && o.get("EDS").exists {
			// the anchor mechanism "warming": Envoy re-sends EDS for the clusters of the CDS response it is about to get
			o.get("EDS").warm = true
		}
		return expect{respond: true, full: true, clause: "first-request-or-reconnect-answered-in-full"}
	case h.delivered == "":
		// no response has reached the client since the watch was created (the answer had nothing to send, or the send
		// failed): the nonce refers to a response that preceded the watch - the client retains it across an
		// unsubscribe or a reconnect - and cannot be stale with respect to it: a new request
		*h = hist{exists: true, names: sets.New(names...)}
		if t == "CDS" && o.get("EDS").exists {
			o.get("EDS").warm = true
		}
		return expect{respond: true, full: true, clause: "request-on-a-watch-nothing-was-sent-on-answered-in-full"}
	case nonce != h.delivered:
		// a nonce older than the last response that reached the client: stale
		return expect{clause: "stale-nonce-silent"}
	}
	added := sets.New(names...).Difference(h.names)
	removed := h.names.Difference(sets.New(names...))
	warm := h.warm
	h.names, h.warm, h.acked, h.lastErr = sets.New(names...), false, nonce, ""
	switch {
	case warm:
		return expect{respond: true, full: true, clause: "warming-request-answered-in-full"}
	case len(added) == 0 && len(removed) == 0:
		return expect{clause: "ack-silent"}
	case len(added) == 0 && namedType(t):
		return expect{clause: "removed-only-silent"}
	case len(added) > 0:
		return expect{respond: true, asked: sets.SortedList(added), clause: "added-names-generated-exactly"}
	}
	return expect{respond: true, full: true, clause: "wildcard-removal-answered-in-full"}
}

// expectDelta classifies a delta request and advances the history.
func (o *histOracle) expectDelta(t string, sub, unsub, init []string, nonce string, errMsg *string) expect {
	return note("delta", t, o.expectDelta0(t, sub, unsub, init, nonce, errMsg))
}

func (o *histOracle) expectDelta0(t string, sub, unsub, init []string, nonce string, errMsg *string) expect {
	h := o.get(t)
	carries := len(sub) > 0 || len(unsub) > 0
	isErr := errMsg != nil
	// the request's own subscription, as a set (what a fresh server would record)
	subs := sets.New(sub...).InsertAll(init...).DeleteAll(unsub...)
	star := subs.Contains("*")
	subs.Delete("*")
	unsubNamed := sets.New(unsub...).Delete("*")
	narrowed := (len(subs) > 0 || len(unsubNamed) > 0) && !managedType(t)
	var dinit []string
	if managedType(t) {
		dinit = init
	}
	answered := func(clause string) expect {
		e := expect{respond: true, full: true, clause: clause}
		if narrowed {
			e = expect{respond: true, asked: sets.SortedList(subs), clause: "subscription-change-generates-the-subscribed-names"}
		}
		e.dsub, e.dunsub, e.dinit = sets.SortedList(subs), sets.SortedList(unsubNamed), dinit
		return e
	}
	if isErr && h.exists {
		h.lastErr = *errMsg
	}
	switch {
	case !h.exists:
		// also with error_detail (a NACK queued when the previous stream broke): the first request of the type
		*h = hist{exists: true, names: subs.Copy(), wild: star || len(sub) == 0}
		if managedType(t) && h.wild {
			h.names = sets.New[string]()
		}
		return answered("first-request-or-reconnect-answered-in-full")
	case isErr && !carries:
		return expect{clause: "nack-silent"}
	case nonce != "" && nonce != h.delivered && !carries:
		return expect{clause: "stale-nonce-silent"}
	}
	detached := isErr || (nonce != "" && nonce != h.delivered)
	if detached && carries {
		// the class of finding F-C04-2: a subscription change attached to a NACK / to a stale ACK
		if isErr {
			stat("class.delta.nack-carrying-a-change")
		} else {
			stat("class.delta.stale-ack-carrying-a-change")
		}
	}
	changed := false
	if managedType(t) && h.wild {
		changed = carries
	} else {
		cur := h.names.Copy()
		for _, x := range append(append([]string{}, sub...), init...) {
			if !cur.Contains(x) {
				changed = true
				cur.Insert(x)
			}
		}
		for _, x := range unsub {
			if cur.Contains(x) {
				changed = true
				cur.Delete(x)
			}
		}
		cur.Delete("*")
		h.names = cur
	}
	if nonce != "" && !detached {
		h.acked, h.lastErr = nonce, ""
	}
	warm := h.warm
	h.warm = false
	switch {
	case changed:
		return answered("subscription-change-answered")
	case warm:
		return answered("warming-request-answered-in-full")
	case carries:
		// a re-subscription of names already on record changes nothing.  /repo stays silent; the xDS delta protocol
		// lets (asks) a server re-send a resource the client subscribes to again, so answering with exactly the
		// re-subscribed names is accepted as well: an OBSERVATION of the code as it is, not a clause of the property
		return expect{either: true, asked: sets.SortedList(subs), clause: "re-subscription-of-known-names(observation)",
			dsub: sets.SortedList(subs), dunsub: sets.SortedList(unsubNamed), dinit: dinit}
	}
	return expect{clause: "ack-silent"}
}

// sendSotw / sendDelta: a response with this nonce reached the client (xds.Send / sendDelta succeeded).
func (o *histOracle) sendSotw(t, nonce string) {
	if nonce == "" {
		return
	}
	h := o.get(t)
	h.exists, h.delivered = true, nonce
}

func (o *histOracle) sendDelta(t, nonce string, newNames []string, setNames bool) {
	h := o.get(t)
	h.exists, h.delivered = true, nonce
	if setNames {
		h.names = sets.New(newNames...)
	}
}

// checkTable compares the server's watch table with what the history implies.  adoptWildcard: the names of
// delta wildcard types follow the generated resources (bookkeeping of property C03); they are taken over from
// the server after checking that nothing the client was told to remove stays on record.
func (o *histOracle) checkTable(proxy *model.Proxy, delta, adoptWildcard bool, got []presp, line string) {
	order := typeOrder
	if _, ok := typeURL["T"]; ok {
		order = []string{"T"} // stream tproc: the one type of the case
	}
	for _, t := range order {
		w := proxy.WatchedResources[typeURL[t]]
		h := o.get(t)
		if (w != nil) != h.exists {
			o.fail("watch-exists-iff-subscribed", fmt.Sprintf("%s watch=%v history=%v :: %s", t, w != nil, h.exists, line))
			continue
		}
		if w == nil {
			continue
		}
		if w.NonceSent != h.delivered {
			o.fail("nonce-recorded-only-after-successful-send",
				fmt.Sprintf("%s NonceSent=%q but the last response that reached the client is %q :: %s", t, w.NonceSent, h.delivered, line))
		}
		if w.NonceAcked != h.acked {
			o.fail("ack-recorded-iff-current-nonce-acknowledged",
				fmt.Sprintf("%s NonceAcked=%q, the client last acknowledged %q :: %s", t, w.NonceAcked, h.acked, line))
		}
		if w.LastError != h.lastErr {
			o.fail("last-error-is-last-unacknowledged-rejection",
				fmt.Sprintf("%s LastError=%q history=%q :: %s", t, w.LastError, h.lastErr, line))
		}
		if w.AlwaysRespond != h.warm {
			o.fail("warming-mark-iff-cds-watch-created-while-eds-watched",
				fmt.Sprintf("%s AlwaysRespond=%v history=%v :: %s", t, w.AlwaysRespond, h.warm, line))
		}
		if delta && w.Wildcard != h.wild {
			o.fail("wildcard-flag", fmt.Sprintf("%s Wildcard=%v history=%v :: %s", t, w.Wildcard, h.wild, line))
		}
		if delta && managedType(t) && h.wild {
			continue
		}
		if delta && adoptWildcard && !namedType(t) && !managedType(t) {
			for _, r := range got {
				if r.short != t {
					continue
				}
				regenerated := sets.New[string]()
				for _, x := range r.res {
					regenerated.Insert(x.name)
				}
				for _, n := range r.removed {
					if w.ResourceNames.Contains(n) && !regenerated.Contains(n) {
						o.fail("removed-resource-stays-on-record", fmt.Sprintf("%s %s :: %s", t, n, line))
					}
				}
			}
			h.names = w.ResourceNames.Copy()
			if h.names == nil {
				h.names = sets.New[string]()
			}
			continue
		}
		if !w.ResourceNames.Equals(h.names) && !(len(w.ResourceNames) == 0 && len(h.names) == 0) {
			o.fail("record-equals-what-the-client-asked-for",
				fmt.Sprintf("%s record=%v asked=%v :: %s", t, sets.SortedList(w.ResourceNames), sets.SortedList(h.names), line))
		}
	}
}
