// Stream sloop: the REAL event loops - xds.Stream (through DiscoveryServer.StreamAggregatedResources) and
// DiscoveryServer.StreamDeltas - on a real DiscoveryServer with the production generators, driven through fake gRPC
// stream objects: requests are fed one at a time, responses are counted, the harness waits for the stream function
// to return.  A handful of scripted scenarios, run on every run:
//
//	process-error  a request whose handling fails (an unauthenticated debug request) must END the stream with the error
//	pushes         two config pushes after the subscription: each reaches the connection (Connection.Push calls
//	               pushEv.done(): without it the push queue never dispatches this connection again)
//	ctx-done       the stream's context is cancelled while the receive side is blocked handing a request over: it
//	               takes the Context().Done() branch, the loop drains and returns
//	eof            the client closes the stream: the loop returns without an error
//
// Output: responses=<n> ended=<0|1> error=<0|1>; the Lean model (StreamLoop.lean) computes the same from the event list.
package main

import (
	"context"
	"errors"
	"fmt"
	"io"
	"net"
	"os"
	"sync"
	"time"

	discovery "github.com/envoyproxy/go-control-plane/envoy/service/discovery/v3"
	rpcstatus "google.golang.org/genproto/googleapis/rpc/status"
	"google.golang.org/grpc/codes"
	"google.golang.org/grpc/metadata"
	"google.golang.org/grpc/peer"
	"google.golang.org/grpc/status"
	"strings"

	"istio.io/istio/pilot/pkg/model"
	pxds "istio.io/istio/pilot/pkg/xds"
	v3 "istio.io/istio/pilot/pkg/xds/v3"
	"verifharness/internal/wire"
)

type liveStream struct {
	ctx      context.Context
	cancel   context.CancelFunc
	mu       sync.Mutex
	sent     int
	nonces   []string
	gate     chan struct{} // non-nil: Send blocks until it is closed
	inSend   chan struct{} // signalled when a Send is entered
	dead     chan struct{}
	failSend bool // Send returns an error
}

func newLive() *liveStream {
	// a plaintext peer, as the gRPC server would put it into the stream's context
	ctx, cancel := context.WithCancel(peer.NewContext(context.Background(),
		&peer.Peer{Addr: &net.TCPAddr{IP: net.IPv4(127, 0, 0, 1), Port: 15010}}))
	return &liveStream{ctx: ctx, cancel: cancel, inSend: make(chan struct{}, 16)}
}

func (l *liveStream) SetHeader(metadata.MD) error  { return nil }
func (l *liveStream) SendHeader(metadata.MD) error { return nil }
func (l *liveStream) SetTrailer(metadata.MD)       {}
func (l *liveStream) Context() context.Context     { return l.ctx }
func (l *liveStream) SendMsg(any) error            { return nil }
func (l *liveStream) RecvMsg(any) error            { return nil }

func (l *liveStream) noteSend(nonce string) error {
	select {
	case l.inSend <- struct{}{}:
	default:
	}
	if l.gate != nil {
		<-l.gate
	}
	if l.failSend {
		return errors.New("send failed")
	}
	l.mu.Lock()
	l.sent++
	l.nonces = append(l.nonces, nonce)
	l.mu.Unlock()
	return nil
}

func (l *liveStream) count() int {
	l.mu.Lock()
	defer l.mu.Unlock()
	return l.sent
}

func (l *liveStream) lastNonce() string {
	l.mu.Lock()
	defer l.mu.Unlock()
	if len(l.nonces) == 0 {
		return ""
	}
	return l.nonces[len(l.nonces)-1]
}

func (l *liveStream) waitCount(n int) bool {
	deadline := time.Now().Add(20 * time.Second)
	for time.Now().Before(deadline) {
		if l.count() >= n {
			return true
		}
		select {
		case <-l.dead:
			return l.count() >= n
		default:
		}
		time.Sleep(5 * time.Millisecond)
	}
	return false
}

type liveSotw struct {
	*liveStream
	reqs    chan *discovery.DiscoveryRequest
	recvErr chan error // a value makes Recv return it (a transport error)
}

func (s *liveSotw) Send(r *discovery.DiscoveryResponse) error { return s.noteSend(r.Nonce) }
func (s *liveSotw) Recv() (*discovery.DiscoveryRequest, error) {
	select {
	case r, ok := <-s.reqs:
		if !ok {
			return nil, io.EOF
		}
		return r, nil
	case err := <-s.recvErr:
		return nil, err
	}
}

type liveDelta struct {
	*liveStream
	reqs    chan *discovery.DeltaDiscoveryRequest
	recvErr chan error
}

func (s *liveDelta) Send(r *discovery.DeltaDiscoveryResponse) error { return s.noteSend(r.Nonce) }
func (s *liveDelta) Recv() (*discovery.DeltaDiscoveryRequest, error) {
	select {
	case r, ok := <-s.reqs:
		if !ok {
			return nil, io.EOF
		}
		return r, nil
	case err := <-s.recvErr:
		return nil, err
	}
}

// live is one running stream of either protocol.
type live struct {
	delta bool
	ls    *liveStream
	s     *liveSotw
	d     *liveDelta
	done  chan error
	dead  chan struct{} // closed when the stream function has returned
	err   error
	first bool
}

func startLive(delta bool) *live {
	srv := realServer()
	l := &live{delta: delta, ls: newLive(), done: make(chan error, 1), dead: make(chan struct{}), first: true}
	l.ls.dead = l.dead
	finish := func(err error) {
		l.err = err
		if os.Getenv("C04_SLOOP_DEBUG") != "" && err != nil {
			fmt.Fprintln(os.Stderr, "stream returned:", err)
		}
		close(l.dead)
		l.done <- err
	}
	if delta {
		l.d = &liveDelta{l.ls, make(chan *discovery.DeltaDiscoveryRequest), make(chan error, 1)}
		go func() { finish(srv.StreamDeltas(l.d)) }()
	} else {
		l.s = &liveSotw{l.ls, make(chan *discovery.DiscoveryRequest), make(chan error, 1)}
		go func() { finish(srv.StreamAggregatedResources(l.s)) }()
	}
	return l
}

// send hands one request to the receive side (blocks until Recv takes it, or 20 s).
func (l *live) send(url, nonce string) (ok bool) { return l.sendFull(url, nonce, nil, "", "") }

// sendFull: with resource names, an error_detail message (a NACK) and an explicit node class for the first request.
func (l *live) sendFull(url, nonce string, names []string, nack, nodeClass string) (ok bool) {
	defer func() {
		if recover() != nil {
			ok = false // the client side was closed meanwhile
		}
	}()
	node := recvNode("nil")
	if l.first {
		node = recvNode("ok")
		if nodeClass != "" {
			node = recvNode(nodeClass)
		}
		l.first = false
	}
	var ed *rpcstatus.Status
	if nack != "" {
		ed = &rpcstatus.Status{Code: 13, Message: nack}
	}
	t := time.After(20 * time.Second)
	if l.delta {
		select {
		case l.d.reqs <- &discovery.DeltaDiscoveryRequest{TypeUrl: url, Node: node, ResponseNonce: nonce, ResourceNamesSubscribe: names, ErrorDetail: ed}:
			return true
		case <-l.dead:
			return false
		case <-t:
			return false
		}
	}
	select {
	case l.s.reqs <- &discovery.DiscoveryRequest{TypeUrl: url, Node: node, ResponseNonce: nonce, ResourceNames: names, ErrorDetail: ed}:
		return true
	case <-l.dead:
		return false
	case <-t:
		return false
	}
}

func (l *live) closeClient() {
	defer func() { _ = recover() }()
	if l.delta {
		close(l.d.reqs)
	} else {
		close(l.s.reqs)
	}
}

// wait for the stream function to return.
func (l *live) ended(d time.Duration) (bool, error) {
	select {
	case err := <-l.done:
		return true, err
	case <-time.After(d):
		return false, nil
	}
}

func runSloop(mode, scenario string) (out string) {
	defer func() {
		if r := recover(); r != nil {
			out = "crash"
		}
	}()
	l := startLive(mode == "delta")
	result := func(ended bool, err error) string {
		return fmt.Sprintf("responses=%d ended=%s error=%s", l.ls.count(), wireB(ended), wireB(err != nil))
	}
	idle := func() { time.Sleep(150 * time.Millisecond) } // the loop has gone back to its blocking select
	finish := func() string {
		ended, err := l.ended(20 * time.Second)
		l.ls.cancel()
		go l.closeClient()
		return result(ended, err)
	}
	switch scenario {
	case "process-error-idle":
		// the failing request arrives while the loop WAITS: the second (blocking) select arm takes it
		l.send(v3.ClusterType, "")
		l.ls.waitCount(1)
		l.send(v3.ClusterType, l.ls.lastNonce())
		idle()
		l.send(pxds.TypeDebugSyncronization, "")
		return finish()
	case "process-error-busy":
		// the failing request arrives while the loop is BUSY (inside Send): the first (polling) select arm takes it
		l.ls.gate = make(chan struct{})
		l.send(v3.ClusterType, "")
		select {
		case <-l.ls.inSend:
		case <-time.After(20 * time.Second):
		}
		l.send(pxds.TypeDebugSyncronization, "") // waits in the hand-over buffer
		time.Sleep(50 * time.Millisecond)
		close(l.ls.gate)
		return finish()
	case "no-node":
		// the first request carries no node: the stream is refused - the stream function RETURNS with the error
		l.sendFull(v3.ClusterType, "", nil, "", "nil")
		return finish()
	case "transport-error":
		l.send(v3.ClusterType, "")
		l.ls.waitCount(1)
		idle()
		if l.delta {
			l.d.recvErr <- status.Error(codes.Internal, "transport broke")
		} else {
			l.s.recvErr <- status.Error(codes.Internal, "transport broke")
		}
		return finish()
	case "send-fails":
		// the response cannot be sent: handling the request fails, the stream ends with the error, nothing went out
		l.ls.failSend = true
		l.send(v3.ClusterType, "")
		return finish()
	case "stop":
		// the connection is stopped from outside (debug endpoint): the loop returns without an error
		l.send(v3.ClusterType, "")
		l.ls.waitCount(1)
		idle()
		for _, c := range realServer().Clients() {
			c.Stop()
		}
		return finish()
	case "exchange":
		// what a real client sends besides ACKs: a NACK, a stale nonce, a request with names, a push overtaking the ACK
		l.send(v3.ClusterType, "")
		l.ls.waitCount(1)
		n1 := l.ls.lastNonce()
		l.sendFull(v3.ClusterType, n1, nil, "rejected", "")                               // NACK: silent
		l.send(v3.ClusterType, "stale-nonce")                                             // stale: silent
		l.sendFull(v3.EndpointType, "", []string{"outbound|80||nowhere.example"}, "", "") // names: answered
		l.ls.waitCount(2)
		idle()
		realServer().ConfigUpdate(&model.PushRequest{Forced: true, Reason: model.NewReasonStats(model.ConfigUpdate)})
		l.ls.waitCount(4)          // CDS and EDS are pushed
		l.send(v3.ClusterType, n1) // the ACK of the FIRST response, overtaken by the push: stale, silent
		idle()
		n := l.ls.count()
		l.closeClient()
		ended, err := l.ended(20 * time.Second)
		return fmt.Sprintf("responses=%d ended=%s error=%s", n, wireB(ended), wireB(err != nil))
	case "process-error":
		l.send(v3.ClusterType, "")
		l.ls.waitCount(1)
		l.send(v3.ClusterType, l.ls.lastNonce()) // ACK: silent
		l.send(pxds.TypeDebugSyncronization, "") // plaintext client: the debug generator refuses, Process fails
		ended, err := l.ended(20 * time.Second)
		if !ended {
			// the loop went on: a later request is still answered
			l.send(v3.ListenerType, "")
			l.ls.waitCount(2)
			l.closeClient()
			l.ended(20 * time.Second)
			return result(false, nil)
		}
		l.ls.cancel()
		go l.closeClient()
		return result(ended, err)
	case "pushes":
		l.send(v3.ClusterType, "")
		l.ls.waitCount(1)
		l.send(v3.ClusterType, l.ls.lastNonce())
		for i := 2; i <= 3; i++ {
			realServer().ConfigUpdate(&model.PushRequest{Forced: true, Reason: model.NewReasonStats(model.ConfigUpdate)})
			if !l.ls.waitCount(i) {
				break
			}
			l.send(v3.ClusterType, l.ls.lastNonce())
		}
		if ended, err := l.ended(200 * time.Millisecond); ended {
			return result(true, err)
		}
		n := l.ls.count()
		l.closeClient()
		l.ended(20 * time.Second)
		return fmt.Sprintf("responses=%d ended=0 error=0", n)
	case "ctx-done":
		l.ls.gate = make(chan struct{})
		l.send(v3.ClusterType, "")
		select { // the loop is inside Send (processing the first request)
		case <-l.ls.inSend:
		case <-time.After(20 * time.Second):
		}
		l.send(v3.EndpointType, "") // fills the hand-over buffer
		go l.send(v3.RouteType, "") // the receive side blocks handing this one over ...
		time.Sleep(150 * time.Millisecond)
		l.ls.cancel() // ... and is released by the stream's context
		time.Sleep(50 * time.Millisecond)
		close(l.ls.gate)
		ended, err := l.ended(20 * time.Second)
		go func() {
			defer func() { _ = recover() }()
			l.closeClient()
		}()
		return result(ended, err)
	case "eof":
		l.send(v3.ClusterType, "")
		l.ls.waitCount(1)
		l.send(v3.ClusterType, l.ls.lastNonce())
		l.closeClient()
		ended, err := l.ended(20 * time.Second)
		return result(ended, err)
	}
	return "bad-op"
}

func wireB(b bool) string {
	if b {
		return "1"
	}
	return "0"
}

func applySloop(f []string) string {
	switch f[0] {
	case "case":
		return "ok"
	case "sloop":
		return runSloop(f[1], f[2])
	}
	return "bad-op"
}

var sloopScenarios = []string{"process-error-idle", "process-error-busy", "no-node", "transport-error", "send-fails", "stop",
	"exchange", "pushes", "ctx-done", "eof"}

func genSloop(outp string) {
	out := wire.Create(outp)
	defer out.Close()
	c := 0
	for _, mode := range []string{"sotw", "delta"} {
		for _, sc := range sloopScenarios {
			out.Line("case", fmt.Sprint(c), "sloop")
			out.Line("sloop", mode, sc)
			c++
		}
	}
}

// oracleSloop: what the event loop owes, stated without the model.
func oracleSloop(in, outp string) {
	out := wire.Create(outp)
	defer out.Close()
	want := map[string]string{
		"process-error-idle": "responses=1 ended=1 error=1", // second select arm
		"process-error-busy": "responses=1 ended=1 error=1", // first select arm
		"no-node":            "responses=0 ended=1 error=1", // refused: the stream function returns the error
		"transport-error":    "responses=1 ended=1 error=1",
		"send-fails":         "responses=0 ended=1 error=1",
		"stop":               "responses=1 ended=1 error=0",
		"exchange":           "responses=4 ended=1 error=0",
		"process-error":      "responses=1 ended=1 error=1", // the failing request ends the stream with its error; nothing after it
		"pushes":             "responses=3 ended=0 error=0", // the subscription and BOTH pushes are answered
		"ctx-done":           "responses=1 ended=1 error=0", // released by the context, the loop drains and returns
		"eof":                "responses=1 ended=1 error=0",
	}
	clause := map[string]string{
		"process-error-idle": "failing-request-ends-the-stream(second-arm)", "process-error-busy": "failing-request-ends-the-stream(first-arm)",
		"no-node": "refused-stream-returns-its-error", "transport-error": "transport-error-ends-the-stream-with-the-error",
		"send-fails": "failed-send-ends-the-stream", "stop": "stopped-connection-returns", "exchange": "nack-stale-overtaken-ack-silent-in-the-real-loop",
		"process-error": "failing-request-ends-the-stream", "pushes": "every-push-reaches-the-connection",
		"ctx-done": "cancelled-stream-returns", "eof": "closed-stream-returns-without-error",
	}
	defer dumpStats(outp)
	for _, f := range wire.ReadLines(in) {
		if f[0] != "sloop" {
			continue
		}
		got := runSloop(f[1], f[2])
		stat("scenario." + f[1] + "." + f[2])
		switch {
		case got == want[f[2]]:
			out.Line("OK")
		case strings.Contains(got, "ended=0") && strings.Contains(want[f[2]], "ended=1"):
			out.Line("FAIL", "stream-does-not-end", f[1], f[2], got)
		default:
			out.Line("FAIL", clause[f[2]], f[1], got)
		}
	}
}
