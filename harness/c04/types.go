// The type universe: "for every xDS type".
//
// `c04 table C04Types <out.lean>` enumerates EVERY type-URL constant of the tree under test - every constant whose
// name ends in `Type` in pkg/model/xds.go and pilot/pkg/xds/v3/model.go and every `TypeDebug*` constant of
// pilot/pkg/xds/statusgen.go, found by parsing the sources (a constant added later is picked up without touching
// the harness) - evaluates the REAL per-type predicates on each (xds.IsWildcardTypeURL,
// requiresResourceNamesModification, shouldSetWatchedResources, neverRemoveDelta, model.WarmingDependencies, the
// debug / health tests of the request handlers) and writes the table as a Lean file; IstioModel/C04/GenTie.lean
// proves by `decide` that the model's predicates over type URLs give the same answers on every row.
// `c04 oracle types` judges the rows against the xDS protocol without the model.
package main

import (
	"fmt"
	"go/ast"
	"go/parser"
	"go/token"
	"os"
	"path/filepath"
	"strconv"
	"strings"

	discovery "github.com/envoyproxy/go-control-plane/envoy/service/discovery/v3"

	pmodel "istio.io/istio/pilot/pkg/model"
	pxds "istio.io/istio/pilot/pkg/xds"
	v3 "istio.io/istio/pilot/pkg/xds/v3"
	"istio.io/istio/pkg/xds"
	"verifharness/internal/wire"
)

type typeConst struct {
	name string // <package>.<constant>
	url  string
}

// evalConsts evaluates the string constants of one file: literals, references to constants of the same file (or of
// `imported`, through a selector) and `+`.
func evalConsts(path string, imported map[string]string) (map[string]string, []string, error) {
	fset := token.NewFileSet()
	f, err := parser.ParseFile(fset, path, nil, 0)
	if err != nil {
		return nil, nil, err
	}
	vals := map[string]string{}
	var order []string
	var eval func(e ast.Expr) (string, bool)
	eval = func(e ast.Expr) (string, bool) {
		switch x := e.(type) {
		case *ast.BasicLit:
			if x.Kind == token.STRING {
				s, err := strconv.Unquote(x.Value)
				return s, err == nil
			}
		case *ast.Ident:
			v, ok := vals[x.Name]
			return v, ok
		case *ast.SelectorExpr:
			v, ok := imported[x.Sel.Name]
			return v, ok
		case *ast.BinaryExpr:
			if x.Op == token.ADD {
				a, ok1 := eval(x.X)
				b, ok2 := eval(x.Y)
				return a + b, ok1 && ok2
			}
		case *ast.ParenExpr:
			return eval(x.X)
		}
		return "", false
	}
	for _, d := range f.Decls {
		g, ok := d.(*ast.GenDecl)
		if !ok || g.Tok != token.CONST {
			continue
		}
		for _, sp := range g.Specs {
			vs := sp.(*ast.ValueSpec)
			for i, n := range vs.Names {
				if i >= len(vs.Values) {
					continue
				}
				if v, ok := eval(vs.Values[i]); ok {
					vals[n.Name] = v
					order = append(order, n.Name)
				}
			}
		}
	}
	return vals, order, nil
}

func repoRoot() string {
	if r := os.Getenv("VERIF_REPO"); r != "" {
		return r
	}
	return "/repo"
}

// allTypeConstants lists every type-URL constant of the tree, de-duplicated by URL (the first name wins).
func allTypeConstants() ([]typeConst, error) {
	root := repoRoot()
	base, order1, err := evalConsts(filepath.Join(root, "pkg/model/xds.go"), nil)
	if err != nil {
		return nil, err
	}
	v3c, order2, err := evalConsts(filepath.Join(root, "pilot/pkg/xds/v3/model.go"), base)
	if err != nil {
		return nil, err
	}
	// statusgen.go refers to v3.DebugType
	dbg, order3, err := evalConsts(filepath.Join(root, "pilot/pkg/xds/statusgen.go"), v3c)
	if err != nil {
		return nil, err
	}
	var out []typeConst
	seen := map[string]bool{}
	add := func(pkg, n, u string) {
		if !seen[u] {
			seen[u] = true
			out = append(out, typeConst{pkg + "." + n, u})
		}
	}
	for _, n := range order1 {
		if strings.HasSuffix(n, "Type") {
			add("model", n, base[n])
		}
	}
	for _, n := range order2 {
		if strings.HasSuffix(n, "Type") {
			add("v3", n, v3c[n])
		}
	}
	for _, n := range order3 {
		if strings.HasPrefix(n, "TypeDebug") && !strings.HasSuffix(n, "Prefix") {
			add("xds", n, dbg[n])
		}
	}
	// a type URL no constant names: the default branch of every predicate
	add("none", "Unknown", "type.googleapis.com/verif.Unknown")
	add("none", "Empty", "")
	if len(out) < 12 {
		return nil, fmt.Errorf("only %d type constants found under %s", len(out), root)
	}
	return out, nil
}

type typeRow struct {
	typeConst
	wildcard, managed, setsWatched, neverRemove, debug, health bool
	warming                                                    []string
}

func evalTypeRows() ([]typeRow, error) {
	cs, err := allTypeConstants()
	if err != nil {
		return nil, err
	}
	var rows []typeRow
	for _, c := range cs {
		m, sw, nr := pxds.VerifC04TypePredicates(c.url)
		rows = append(rows, typeRow{
			typeConst: c, wildcard: xds.IsWildcardTypeURL(c.url), managed: m, setsWatched: sw, neverRemove: nr,
			debug: strings.HasPrefix(c.url, v3.DebugType), health: c.url == v3.HealthInfoType,
			warming: pmodel.WarmingDependencies(c.url),
		})
	}
	return rows, nil
}

func leanStr(s string) string { return strconv.Quote(s) }

func leanBool(b bool) string {
	if b {
		return "true"
	}
	return "false"
}

func writeTypeTable(name, outp string) {
	rows, err := evalTypeRows()
	if err != nil {
		fmt.Fprintln(os.Stderr, "table:", err)
		os.Exit(1)
	}
	var b strings.Builder
	b.WriteString("/- GENERATED by `harness/c04 table` from the tree under test - do not edit, not under version control.\n")
	b.WriteString("   One row per type-URL constant: (constant, url, IsWildcardTypeURL, requiresResourceNamesModification,\n")
	b.WriteString("   shouldSetWatchedResources, neverRemoveDelta, HasPrefix DebugType, == HealthInfoType, WarmingDependencies). -/\n")
	b.WriteString("namespace IstioModel.Generated." + name + "\n\n")
	b.WriteString("structure Row where\n  const : String\n  url : String\n  wildcard : Bool\n  managed : Bool\n  setsWatched : Bool\n  neverRemove : Bool\n  debug : Bool\n  health : Bool\n  warming : List String\n\n")
	b.WriteString("def rows : List Row := [\n")
	for i, r := range rows {
		ws := make([]string, len(r.warming))
		for k, w := range r.warming {
			ws[k] = leanStr(w)
		}
		sep := ","
		if i == len(rows)-1 {
			sep = ""
		}
		fmt.Fprintf(&b, "  ⟨%s, %s, %s, %s, %s, %s, %s, %s, [%s]⟩%s\n", leanStr(r.name), leanStr(r.url), leanBool(r.wildcard),
			leanBool(r.managed), leanBool(r.setsWatched), leanBool(r.neverRemove), leanBool(r.debug), leanBool(r.health),
			strings.Join(ws, ", "), sep)
	}
	b.WriteString("]\n\nend IstioModel.Generated." + name + "\n")
	if err := os.WriteFile(outp, []byte(b.String()), 0o644); err != nil {
		fmt.Fprintln(os.Stderr, "table:", err)
		os.Exit(1)
	}
	fmt.Printf("table: rows=%d evaluations=%d\n", len(rows), 7*len(rows))
}

// genTypes writes one case per type constant (stream types: no model side, oracle only).
func genTypes(outp string) {
	out := wire.Create(outp)
	defer out.Close()
	cs, err := allTypeConstants()
	if err != nil {
		fmt.Fprintln(os.Stderr, "gen types:", err)
		os.Exit(1)
	}
	for i, c := range cs {
		out.Line("case", strconv.Itoa(i), "types", wire.Enc(c.name), wire.Enc(c.url))
	}
}

// oracleTypes: the xDS protocol on the real predicates, without the model.  By the xDS specification Listener and
// Cluster have a wildcard mode, RouteConfiguration / ClusterLoadAssignment / Secret / TypedExtensionConfig do not;
// every other type the control plane serves (Istio's own, debug, agentgateway, unknown) uses wildcard semantics: a
// request without names subscribes to everything and is answered, it is never an unsubscribe.
func oracleTypes(in, outp string) {
	out := wire.Create(outp)
	defer out.Close()
	defer dumpStats(outp)
	rows, err := evalTypeRows()
	byURL := map[string]typeRow{}
	for _, r := range rows {
		byURL[r.url] = r
	}
	named := map[string]bool{v3.RouteType: true, v3.EndpointType: true, v3.SecretType: true, v3.ExtensionConfigurationType: true}
	for _, f := range wire.ReadLines(in) {
		if f[0] != "case" {
			continue
		}
		url := wire.Dec(f[4])
		r, ok := byURL[url]
		stat("row."+wire.Dec(f[3]), "clause.wildcard-semantics-of-the-type", "clause.first-request-without-names")
		verdict := "OK"
		switch {
		case err != nil || !ok:
			verdict = "FAIL type-constant-not-evaluated " + f[3]
		case r.wildcard == named[url]:
			verdict = "FAIL wildcard-semantics-of-the-type " + f[3] + " IsWildcardTypeURL=" + wire.B(r.wildcard)
		case r.managed && !r.wildcard:
			verdict = "FAIL generator-managed-type-must-be-wildcard " + f[3]
		case r.setsWatched != (r.wildcard && !r.managed):
			verdict = "FAIL record-rewritten-exactly-for-unmanaged-wildcard-types " + f[3]
		default:
			// a first request without names for the type: answered for every wildcard type, an unsubscribe otherwise
			p := &pmodel.Proxy{ID: "t", WatchedResources: map[string]*pmodel.WatchedResource{}}
			respond, _ := xds.ShouldRespond(p, "t", discoveryRequest(url))
			if respond != !named[url] {
				verdict = "FAIL first-request-without-names " + f[3] + " respond=" + wire.B(respond)
			}
		}
		out.Line(verdict)
	}
}

func discoveryRequest(url string) *discovery.DiscoveryRequest {
	return &discovery.DiscoveryRequest{TypeUrl: url}
}

// genTproc: EVERY row of the type table through the REAL request / push handlers, SotW and delta: a scripted exchange
// (first request, ACK, NACK, stale nonce, added names, removal, unsubscribe / wildcard request, push, a failing
// stream) and a few random ones per row.  The health type is left to stream recv (its handler needs the workload
// entry controller of a full server).
func genTproc(seed uint64, n int, outp string) {
	out := wire.Create(outp)
	defer out.Close()
	cs, err := allTypeConstants()
	if err != nil {
		fmt.Fprintln(os.Stderr, "gen tproc:", err)
		os.Exit(1)
	}
	root := wire.NewRng(seed ^ 0x7C04)
	c := 0
	open := func(mode string, tc typeConst) {
		out.Line("case", strconv.Itoa(c), "tproc", mode, wire.Enc(tc.name), wire.Enc(tc.url))
		c++
	}
	perRow := 1 + n/(2*len(cs))
	for _, tc := range cs {
		if tc.url == v3.HealthInfoType {
			continue
		}
		// state of the world
		open("sotw", tc)
		for _, l := range [][]string{
			{"req", "T", "a,b", "empty", "-"}, {"req", "T", "a,b", "cur", "-"}, {"req", "T", "a,b", "cur", "e:boom"},
			{"req", "T", "a,b,c", "stale", "-"}, {"req", "T", "a,b,c", "cur", "-"}, {"req", "T", "a,b,c", "cur", "-"},
			{"req", "T", "a", "cur", "-"}, {"push"}, {"req", "T", "a", "cur", "-"}, {"req", "T", "-", "cur", "-"},
			{"req", "T", "b", "prev", "e:boom"}, {"fail", "1"}, {"req", "T", "b,c", "cur", "-"}, {"fail", "0"},
			{"req", "T", "b,c", "cur", "-"}, {"fpush"}, {"req", "T", "*", "cur", "-"},
		} {
			out.Line(l...)
		}
		// delta
		open("delta", tc)
		for _, l := range [][]string{
			{"dreq", "T", "a,b", "-", "-", "empty", "-"}, {"dreq", "T", "-", "-", "-", "cur", "-"},
			{"dreq", "T", "-", "-", "-", "cur", "e:boom"}, {"dreq", "T", "c", "-", "-", "stale", "-"},
			{"dreq", "T", "-", "-", "-", "cur", "-"}, {"dreq", "T", "-", "a", "-", "cur", "-"}, {"dpush"},
			{"dreq", "T", "b", "-", "-", "empty", "-"}, {"dreq", "T", "*", "-", "-", "empty", "-"},
			{"fail", "1"}, {"dreq", "T", "x", "-", "-", "empty", "-"}, {"fail", "0"}, {"dfpush"},
			{"dreq", "T", "-", "*,x", "-", "cur", "e:rejected"},
		} {
			out.Line(l...)
		}
		open("delta", tc)
		out.Line("dreq", "T", "-", "-", "a", "stale", "e:boom") // a NACK queued on the previous stream, legacy wildcard
		out.Line("dreq", "T", "-", "-", "-", "cur", "-")
		// random exchanges
		for k := 0; k < perRow; k++ {
			r := root.Fork()
			delta := r.Chance(1, 2)
			if delta {
				open("delta", tc)
			} else {
				open("sotw", tc)
			}
			nonce := func() string {
				return wire.Pick(r, []string{"cur", "cur", "cur", "cur", "empty", "stale", "prev", "failed"})
			}
			errTok := func() string {
				if r.Chance(1, 8) {
					return "e:boom"
				}
				return "-"
			}
			isDebug := strings.HasPrefix(tc.url, v3.DebugType)
			for i := 2 + r.Intn(14); i > 0; i-- {
				// the generator of the row answers with nothing / fails / is delta-aware, as for the ten modelled types
				if !isDebug && r.Chance(1, 5) {
					genScriptLine(r, out, "T", delta, true)
				}
				switch k := r.Intn(10); {
				case k < 7 && !delta:
					out.Line("req", "T", wire.EncList(genNames(r, true)), nonce(), errTok())
				case k < 7:
					univ := append([]string{"*"}, nameUniverse...)
					init := "-"
					if r.Chance(1, 6) {
						init = wire.EncList(wire.Subset(r, nameUniverse, 1, 2)) // initial_resource_versions
					}
					out.Line("dreq", "T", wire.EncList(wire.Subset(r, univ, 1, 3)), wire.EncList(wire.Subset(r, univ, 1, 6)), init, nonce(), errTok())
				case k < 9 && !delta:
					out.Line(wire.Pick(r, []string{"push", "fpush", "apush"}))
				case k < 9:
					out.Line(wire.Pick(r, []string{"dpush", "dfpush", "dapush"}))
				default:
					out.Line("fail", wire.B(r.Chance(1, 2)))
				}
			}
		}
	}
}
