// Stream dloop: the delta closed loop of lean/IstioModel/C04/DeltaProtocol.lean.  The conformant delta
// client (pending subscription changes attached to whatever request goes out next: a spontaneous request,
// an ACK, a NACK) and the two FIFO channels live here; every server decision is taken by the real
// shouldRespondDelta / sendDelta.  Pushes may overtake ACKs in flight (their nonce is stale on arrival).
package main

import (
	"fmt"
	"strconv"
	"strings"

	discovery "github.com/envoyproxy/go-control-plane/envoy/service/discovery/v3"

	pxds "istio.io/istio/pilot/pkg/xds"
	"istio.io/istio/pkg/util/sets"
	"verifharness/internal/wire"
)

type dmsg struct {
	sub, unsub []string
	nonce      string
	err        string // "-" or e:<msg>
}

type dloopSys struct {
	sut       *sut
	ty        string
	want      sets.String
	pendSub   sets.String
	pendUnsub sets.String
	c2s       []dmsg
	s2c       []string
	// oracle only: the fold of every change the client has sent; the names the last response that went out carried
	sentFold   sets.String
	lastGen    []string
	sentThisOp bool
}

// newNames is the `newResourceNames` argument the real pushDeltaXds hands to sendDelta for a response carrying the
// names `tok`: decided by the REAL shouldSetWatchedResources (non-nil for wildcard types whose generator does not
// manage the names: the record is replaced by what the response carries).
func (l *dloopSys) newNames(url, tok string) sets.String {
	if _, setsWatched, _ := pxds.VerifC04TypePredicates(url); setsWatched {
		return sets.New(wire.DecList(tok)...)
	}
	return nil
}

func newDloop(ty string) *dloopSys {
	return &dloopSys{sut: newSUT(), ty: ty, want: sets.New[string](), pendSub: sets.New[string](),
		pendUnsub: sets.New[string](), sentFold: sets.New[string]()}
}

func (l *dloopSys) show() string {
	c := "-"
	if len(l.c2s) > 0 {
		var parts []string
		for _, m := range l.c2s {
			parts = append(parts, fmt.Sprintf("%s/+%s/-%s/%s", wire.Enc(m.nonce), wire.EncSet(m.sub), wire.EncSet(m.unsub), m.err))
		}
		c = strings.Join(parts, ";")
	}
	return fmt.Sprintf("%s | c2s=%s s2c=%s want=%s pend=+%s/-%s", l.sut.showState(), c, wire.EncList(l.s2c),
		wire.EncSet(l.want.UnsortedList()), wire.EncSet(l.pendSub.UnsortedList()), wire.EncSet(l.pendUnsub.UnsortedList()))
}

func (l *dloopSys) out(nonce, err string) {
	m := dmsg{sub: sets.SortedList(l.pendSub), unsub: sets.SortedList(l.pendUnsub), nonce: nonce, err: err}
	l.c2s = append(l.c2s, m)
	l.sentFold.InsertAll(m.sub...)
	l.sentFold.DeleteAll(m.unsub...)
	l.sentFold.Delete("*")
	l.pendSub, l.pendUnsub = sets.New[string](), sets.New[string]()
}

func (l *dloopSys) apply(f []string) (out string) {
	defer func() {
		if r := recover(); r != nil {
			out = "crash"
		}
	}()
	url := typeURL[l.ty]
	before := len(l.s2c)
	defer func() { l.sentThisOp = len(l.s2c) > before }()
	switch f[0] {
	case "case":
		*l = *newDloop(f[3])
		return "ok"
	case "cwant":
		add, remove := wire.DecList(f[1]), wire.DecList(f[2])
		l.want.InsertAll(add...)
		l.want.DeleteAll(remove...)
		l.want.Delete("*")
		l.pendSub.InsertAll(add...)
		l.pendSub.DeleteAll(remove...)
		l.pendUnsub.DeleteAll(add...)
		l.pendUnsub.InsertAll(remove...)
	case "cflush":
		l.out("", "-")
	case "crecv":
		if len(l.s2c) == 0 {
			break
		}
		n := l.s2c[0]
		l.s2c = l.s2c[1:]
		l.out(n, f[1])
	case "srecv":
		if len(l.c2s) == 0 {
			break
		}
		m := l.c2s[0]
		l.c2s = l.c2s[1:]
		respond := pxds.VerifShouldRespondDelta(l.sut.dcon, &discovery.DeltaDiscoveryRequest{
			TypeUrl: url, ResourceNamesSubscribe: m.sub, ResourceNamesUnsubscribe: m.unsub,
			ResponseNonce: m.nonce, ErrorDetail: errDetail(m.err),
		})
		// f[3] == "0": the server decides to answer but nothing goes out
		if respond && !(len(f) > 3 && f[3] == "0") {
			n := wire.Dec(f[1])
			l.sut.ds.fail = false
			_ = pxds.VerifSendDelta(l.sut.dcon, &discovery.DeltaDiscoveryResponse{TypeUrl: url, Nonce: n}, l.newNames(url, f[2]))
			l.s2c = append(l.s2c, n)
			l.lastGen = wire.DecList(f[2])
		}
	case "spush":
		if l.sut.proxy.WatchedResources[url] == nil {
			break
		}
		n := wire.Dec(f[1])
		l.sut.ds.fail = f[2] != "1"
		_ = pxds.VerifSendDelta(l.sut.dcon, &discovery.DeltaDiscoveryResponse{TypeUrl: url, Nonce: n}, l.newNames(url, f[3]))
		if f[2] == "1" {
			l.s2c = append(l.s2c, n)
			l.lastGen = wire.DecList(f[3])
		}
	default:
		return "bad-op"
	}
	return l.show()
}

// what the generators may answer with (the names a response carries)
var genUniverse = []string{"a", "b", "c", "x"}

var dloopTypes = []string{"EDS", "RDS", "SDS", "ECDS", "EDS", "RDS", "CDS", "LDS", "NDS", "WAUTH"}

func genDloop(seed uint64, n int, outp string) {
	out := wire.Create(outp)
	defer out.Close()
	root := wire.NewRng(seed ^ 0xD100C04)
	for c := 0; c < n; c++ {
		r := root.Fork()
		out.Line("case", strconv.Itoa(c), "dloop", wire.Pick(r, dloopTypes))
		ctr := 0
		nonce := func() string {
			if r.Chance(1, 10) {
				return wire.Pick(r, []string{"n1", "n2", ""}) // nonces need not be unique
			}
			ctr++
			return "n" + strconv.Itoa(ctr)
		}
		want := func() {
			add := wire.Subset(r, nameUniverse, 1, 2)
			remove := wire.Subset(r, nameUniverse, 1, 4)
			if r.Chance(1, 20) {
				add = append(add, "*")
			}
			out.Line("cwant", wire.EncList(add), wire.EncList(remove))
		}
		want()
		out.Line("cflush")
		length := 2 + r.Intn(40)
		for i := 0; i < length; i++ {
			switch r.Intn(12) {
			case 0, 1:
				want()
			case 2:
				out.Line("cflush")
			case 3, 4, 5:
				if r.Chance(1, 6) {
					out.Line("crecv", "e:"+wire.Enc("rejected"))
				} else {
					out.Line("crecv", "-")
				}
			case 6, 7, 8:
				out.Line("srecv", wire.Enc(nonce()), wire.EncList(wire.Subset(r, genUniverse, 1, 2)), wire.B(!r.Chance(1, 6)))
			default:
				// a push: often right after a response went out, so that it overtakes the ACK of that response
				out.Line("spush", wire.Enc(nonce()), wire.B(r.Chance(7, 8)), wire.EncList(wire.Subset(r, genUniverse, 1, 2)))
			}
		}
		if r.Chance(3, 4) {
			if r.Chance(1, 2) {
				out.Line("cflush")
			}
			for k := 0; k < 10; k++ {
				out.Line("srecv", wire.Enc(nonce()), wire.EncList(wire.Subset(r, genUniverse, 1, 2)))
				out.Line("crecv", "-")
			}
		}
	}
}

// oracleDloop: the statement of delta_trace_record / dloop_quiescent_record_matches on the real code.  Whenever
// the server has handled every request the client has sent, its record is the fold of every subscription change
// the client has sent - whatever carried them (spontaneous request, ACK, stale ACK, NACK); when in addition nothing
// is pending at the client, the record is what the client wants.
func oracleDloop(in, outp string) {
	out := wire.Create(outp)
	defer out.Close()
	defer dumpStats(outp)
	l := newDloop("EDS")
	verdict, open, idx := "", false, 0
	flush := func() {
		if open {
			if verdict == "" {
				verdict = "OK"
			}
			out.Line(verdict)
		}
	}
	for _, f := range wire.ReadLines(in) {
		if f[0] == "case" {
			flush()
			l.apply(f)
			verdict, open, idx = "", true, 0
			continue
		}
		idx++
		if l.apply(f) == "crash" && verdict == "" {
			verdict = fmt.Sprintf("FAIL never-crashes op=%d", idx)
		}
		w := l.sut.proxy.WatchedResources[typeURL[l.ty]]
		if !namedType(l.ty) && verdict == "" {
			// wildcard types: the record is what the client holds, i.e. the names of the last response that went out,
			// changed by nothing but the client's own later subscription changes (bookkeeping: property C03); here only:
			// right after a response went out the record is what it carried
			if (f[0] == "srecv" || f[0] == "spush") && l.sentThisOp && (w == nil || !sameNames(l.lastGen, w.ResourceNames)) {
				verdict = fmt.Sprintf("FAIL wildcard-record-is-what-the-last-response-carried op=%d %s", idx, wire.Enc(l.show()))
			}
			continue
		}
		if f[0] == "srecv" && len(f) > 3 && f[3] == "0" {
			stat("op.undelivered-answer")
		}
		if len(l.c2s) == 0 && verdict == "" {
			stat("clause.record-is-the-fold-of-every-change-sent", "type."+l.ty)
			if len(l.pendSub) == 0 && len(l.pendUnsub) == 0 {
				stat("clause.quiescent-record-matches")
			}
			var rec sets.String
			if w != nil {
				rec = w.ResourceNames
			}
			if !(len(rec) == 0 && len(l.sentFold) == 0) && !rec.Equals(l.sentFold) {
				verdict = fmt.Sprintf("FAIL record-is-the-fold-of-every-change-sent op=%d %s", idx, wire.Enc(l.show()))
			} else if len(l.pendSub) == 0 && len(l.pendUnsub) == 0 && !(len(rec) == 0 && len(l.want) == 0) && !rec.Equals(l.want) {
				verdict = fmt.Sprintf("FAIL quiescent-record-matches op=%d %s", idx, wire.Enc(l.show()))
			}
		}
	}
	flush()
}
