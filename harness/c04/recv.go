// Stream recv: crash freedom and first-request validation of the receive side.
//
// Scripted request sequences (malformed first requests: nil Node, empty / malformed node id, HealthInfo probe,
// debug types, unknown type URLs, empty TypeUrl) are fed through the REAL xds.Receive (SotW) and
// (*DiscoveryServer).receiveDelta on a real DiscoveryServer (pilot/test/xds fake server, real generators)
// with a scripted stream; every request the receive side forwards is then handled by the real
// processRequest / processDeltaRequest on the same connection.  A panic anywhere is reported as `crash`.
//
//	recv <sotw|delta> <type-class>/<node-class>[;...]
//	-> fwd=<indices> err=<class> init=<0|1> proc=<type-class>:<responses>:<type watched afterwards>:<error>[;...]
package main

import (
	"fmt"
	"io"
	"os"
	"sort"
	"strconv"
	"strings"
	"sync"

	core "github.com/envoyproxy/go-control-plane/envoy/config/core/v3"
	discovery "github.com/envoyproxy/go-control-plane/envoy/service/discovery/v3"
	rpcstatus "google.golang.org/genproto/googleapis/rpc/status"
	"google.golang.org/grpc/codes"
	"google.golang.org/grpc/status"

	pxds "istio.io/istio/pilot/pkg/xds"
	v3 "istio.io/istio/pilot/pkg/xds/v3"
	txds "istio.io/istio/pilot/test/xds"
	"verifharness/internal/quiet"
	"verifharness/internal/wire"
)

type rfailer struct{ cleanups []func() }

func (f *rfailer) Fail()                          { panic("harness: Fail") }
func (f *rfailer) FailNow()                       { panic("harness: FailNow") }
func (f *rfailer) Fatal(args ...any)              { panic(fmt.Sprint(args...)) }
func (f *rfailer) Fatalf(format string, a ...any) { panic(fmt.Sprintf(format, a...)) }
func (f *rfailer) Log(args ...any)                {}
func (f *rfailer) Logf(format string, a ...any)   {}
func (f *rfailer) TempDir() string                { d, _ := os.MkdirTemp("", "c04"); return d }
func (f *rfailer) Helper()                        {}
func (f *rfailer) Cleanup(fn func())              { f.cleanups = append(f.cleanups, fn) }
func (f *rfailer) Skip(args ...any)               {}
func (f *rfailer) Name() string                   { return "c04-recv" }

var (
	recvOnce sync.Once
	recvSrv  *txds.FakeDiscoveryServer
)

func realServer() *pxds.DiscoveryServer {
	recvOnce.Do(func() {
		recvSrv = txds.NewFakeDiscoveryServer(&rfailer{}, txds.FakeOptions{})
		quiet.Silence()
	})
	return recvSrv.Discovery
}

// the type-URL classes of the stream
var recvTypeURL = map[string]string{
	"health":   v3.HealthInfoType,
	"debug":    pxds.TypeDebugSyncronization,
	"debugx":   v3.DebugType + "/nonexistent",
	"unknown3": "verif.istio.io/v1/Nothing", // group/version/kind shaped: the api generator looks it up in the config store
	"unknown":  "type.googleapis.com/verif.Unknown",
	"empty":    "",
	"cds":      v3.ClusterType,
	"eds":      v3.EndpointType,
}

// the node classes
func recvNode(k string) *core.Node {
	switch k {
	case "nil":
		return nil
	case "noid":
		return &core.Node{}
	case "few":
		return &core.Node{Id: "sidecar~10.0.0.1"}
	case "badtype":
		return &core.Node{Id: "gadget~10.0.0.1~app.ns~ns.svc.cluster.local"}
	case "noip":
		return &core.Node{Id: "sidecar~not-an-ip~app.ns~ns.svc.cluster.local"}
	}
	return &core.Node{Id: "sidecar~10.0.0.1~app.ns~ns.svc.cluster.local"}
}

type scriptedSotw struct {
	baseStream
	reqs   []*discovery.DiscoveryRequest
	i      int
	sent   int
	endErr bool
}

func (s *scriptedSotw) Recv() (*discovery.DiscoveryRequest, error) {
	if s.i >= len(s.reqs) {
		if s.endErr {
			return nil, status.Error(codes.Internal, "transport broke")
		}
		return nil, io.EOF
	}
	s.i++
	return s.reqs[s.i-1], nil
}
func (s *scriptedSotw) Send(*discovery.DiscoveryResponse) error { s.sent++; return nil }

type scriptedDelta struct {
	baseStream
	reqs   []*discovery.DeltaDiscoveryRequest
	i      int
	sent   int
	endErr bool
}

func (s *scriptedDelta) Recv() (*discovery.DeltaDiscoveryRequest, error) {
	if s.i >= len(s.reqs) {
		if s.endErr {
			return nil, status.Error(codes.Internal, "transport broke")
		}
		return nil, io.EOF
	}
	s.i++
	return s.reqs[s.i-1], nil
}
func (s *scriptedDelta) Send(*discovery.DeltaDiscoveryResponse) error { s.sent++; return nil }

func errClass(err error) string {
	if err == nil {
		return "none"
	}
	st, _ := status.FromError(err)
	msg := err.Error()
	switch {
	case st != nil && st.Code() == codes.InvalidArgument && strings.Contains(msg, "missing node information"):
		return "missing-node"
	case st != nil && st.Code() == codes.InvalidArgument:
		return "bad-node"
	case st != nil && st.Code() == codes.Internal && strings.Contains(msg, "transport broke"):
		return "stream-error"
	}
	return "other"
}

type recvResult struct {
	crash    bool
	released bool // the receive side closed the `initialized` channel: the waiting event loop is released
	fwd      []int
	err      string
	init     bool
	proc     []string
}

func (r recvResult) String() string {
	if r.crash {
		return "crash"
	}
	idx := make([]string, len(r.fwd))
	for i, x := range r.fwd {
		idx[i] = strconv.Itoa(x)
	}
	f, p := "-", "-"
	if len(idx) > 0 {
		f = strings.Join(idx, ",")
	}
	if len(r.proc) > 0 {
		p = strings.Join(r.proc, ";")
	}
	return fmt.Sprintf("fwd=%s err=%s init=%s released=%s proc=%s", f, r.err, wire.B(r.init), wire.B(r.released), p)
}

func watches(con *pxds.Connection, url string) bool {
	for _, u := range pxds.VerifC04WatchedTypes(con) {
		if u == url {
			return true
		}
	}
	return false
}

// runRecv executes one scripted stream on the real code.
func runRecv(mode string, items []string) (res recvResult) {
	defer func() {
		if r := recover(); r != nil {
			res = recvResult{crash: true}
		}
	}()
	srv := realServer()
	// a trailing ERR: the stream breaks with an unexpected transport error instead of a clean EOF
	endErr := len(items) > 0 && items[len(items)-1] == "ERR"
	if endErr {
		items = items[:len(items)-1]
	}
	classes := make([]string, len(items))
	// mode sotwA / deltaA: the client is authenticated (mTLS identity of the proxy's namespace)
	var ids []string
	if strings.HasSuffix(mode, "A") {
		ids = []string{"spiffe://cluster.local/ns/ns/sa/default"}
		mode = strings.TrimSuffix(mode, "A")
	}
	if mode == "delta" {
		st := &scriptedDelta{endErr: endErr}
		for i, it := range items {
			p := strings.Split(it, "/")
			classes[i] = p[0]
			r := &discovery.DeltaDiscoveryRequest{TypeUrl: recvTypeURL[p[0]], Node: recvNode(p[1])}
			if len(p) > 2 && p[2] == "e" {
				// error_detail with a code other than the usual INTERNAL
				r.ErrorDetail = &rpcstatus.Status{Code: int32(codes.InvalidArgument), Message: "rejected"}
			}
			st.reqs = append(st.reqs, r)
		}
		con := pxds.VerifC04NewDeltaStreamConnection(srv, st, ids)
		r := pxds.VerifC04ReceiveDelta(srv, con)
		if r.Panic != nil {
			return recvResult{crash: true}
		}
		res.err, res.init, res.released = errClass(r.Err), pxds.VerifC04ProxyInitialized(con), r.InitializedClosed
		for _, fr := range r.Forwarded {
			for i, q := range st.reqs {
				if q == fr {
					res.fwd = append(res.fwd, i)
				}
			}
		}
		for _, i := range res.fwd {
			before := st.sent
			err := pxds.VerifC03ProcessDeltaRequest(srv, st.reqs[i], con)
			res.proc = append(res.proc, fmt.Sprintf("%s:%d:%s:%s", classes[i], st.sent-before, wire.B(watches(con, st.reqs[i].TypeUrl)), wire.B(err != nil)))
		}
		return res
	}
	st := &scriptedSotw{endErr: endErr}
	for i, it := range items {
		p := strings.Split(it, "/")
		classes[i] = p[0]
		r := &discovery.DiscoveryRequest{TypeUrl: recvTypeURL[p[0]], Node: recvNode(p[1])}
		if len(p) > 2 && p[2] == "e" {
			r.ErrorDetail = &rpcstatus.Status{Code: int32(codes.InvalidArgument), Message: "rejected"}
		}
		st.reqs = append(st.reqs, r)
	}
	con := pxds.VerifC04NewStreamConnection(srv, st, ids)
	r := pxds.VerifC04Receive(con)
	if r.Panic != nil {
		return recvResult{crash: true}
	}
	res.err, res.init, res.released = errClass(r.Err), pxds.VerifC04ProxyInitialized(con), r.InitializedClosed
	for _, fr := range r.Forwarded {
		for i, q := range st.reqs {
			if q == fr {
				res.fwd = append(res.fwd, i)
			}
		}
	}
	for _, i := range res.fwd {
		before := st.sent
		err := pxds.VerifC03ProcessRequest(srv, st.reqs[i], con)
		res.proc = append(res.proc, fmt.Sprintf("%s:%d:%s:%s", classes[i], st.sent-before, wire.B(watches(con, st.reqs[i].TypeUrl)), wire.B(err != nil)))
	}
	return res
}

func applyRecv(f []string) string {
	switch f[0] {
	case "case":
		return "ok"
	case "recv":
		var items []string
		if f[2] != "-" {
			items = strings.Split(f[2], ";")
		}
		return runRecv(f[1], items).String()
	}
	return "bad-op"
}

var recvTypeClasses = []string{"health", "debug", "debugx", "unknown3", "unknown", "empty", "cds", "eds"}
var recvNodeClasses = []string{"nil", "noid", "few", "badtype", "noip", "ok"}

func genRecv(seed uint64, n int, outp string) {
	out := wire.Create(outp)
	defer out.Close()
	root := wire.NewRng(seed ^ 0xC04EC)
	c := 0
	emit := func(mode string, items []string) {
		out.Line("case", strconv.Itoa(c), "recv")
		tok := "-"
		if len(items) > 0 {
			tok = strings.Join(items, ";")
		}
		out.Line("recv", mode, tok)
		c++
	}
	// every single first request, both protocols (exhaustive over the classes)
	for _, mode := range []string{"sotw", "delta", "sotwA", "deltaA"} {
		for _, t := range recvTypeClasses {
			for _, nd := range recvNodeClasses {
				if c < n {
					emit(mode, []string{t + "/" + nd})
				}
			}
		}
	}
	for c < n {
		r := root.Fork()
		mode := wire.Pick(r, []string{"sotw", "delta", "sotwA", "deltaA"})
		opt := func() string {
			if r.Chance(1, 5) {
				return "/e"
			}
			return ""
		}
		var items []string
		// leading health probes, then a first request (mostly valid), then anything
		for r.Chance(1, 3) {
			items = append(items, "health/"+wire.Pick(r, recvNodeClasses))
		}
		first := wire.Pick(r, recvTypeClasses) + "/ok" + opt()
		if r.Chance(1, 3) {
			first = wire.Pick(r, recvTypeClasses) + "/" + wire.Pick(r, recvNodeClasses) + opt()
		}
		items = append(items, first)
		for k := r.Intn(5); k > 0; k-- {
			items = append(items, wire.Pick(r, recvTypeClasses)+"/"+wire.Pick(r, recvNodeClasses)+opt())
		}
		if r.Chance(1, 6) {
			items = append(items, "ERR")
		}
		emit(mode, items)
	}
}

// oracleRecv: the property clauses of the receive side, judged on the real code without the model:
// nothing crashes; a stream whose first real request carries no usable node is refused (an error, nothing
// forwarded); after a valid first request every request is forwarded in order.
func oracleRecv(in, outp string) {
	out := wire.Create(outp)
	defer out.Close()
	defer dumpStats(outp)
	for _, f := range wire.ReadLines(in) {
		if f[0] != "recv" {
			continue
		}
		var items []string
		if f[2] != "-" {
			items = strings.Split(f[2], ";")
		}
		res := runRecv(f[1], items)
		endErr := len(items) > 0 && items[len(items)-1] == "ERR"
		if endErr {
			items = items[:len(items)-1]
			if res.err == "stream-error" {
				res.err = "none" // reported as it should be; the clauses below are about the rest
			} else if res.err == "none" && !res.crash {
				out.Line("FAIL transport-error-reported " + wire.Enc(res.String()))
				continue
			}
		}
		verdict := "OK"
		// index of the first request that is not a health probe
		first := -1
		for i, it := range items {
			if !strings.HasPrefix(it, "health/") {
				first = i
				break
			}
		}
		nodeClass := "probes-only"
		if first >= 0 {
			nodeClass = strings.Split(items[first], "/")[1]
		}
		stat("mode."+f[1], "first-node."+nodeClass, "clause.never-crashes")
		switch {
		case res.crash:
			verdict = "FAIL never-crashes " + wire.Enc(strings.Join(f, " "))
		case !res.released:
			// the event loop waits for the receive side before it starts: it must be released whatever happened
			verdict = "FAIL refused-or-ended-stream-releases-the-waiting-loop " + wire.Enc(res.String())
		case first >= 0 && strings.Split(items[first], "/")[1] != "ok":
			if res.err == "none" || len(res.fwd) > 0 || res.init {
				verdict = "FAIL first-request-without-valid-node-refused " + wire.Enc(res.String())
			}
		case first >= 0:
			var want []int
			for i := first; i < len(items); i++ {
				want = append(want, i)
			}
			got := append([]int(nil), res.fwd...)
			sort.Ints(got)
			if res.err != "none" || !res.init || fmt.Sprint(got) != fmt.Sprint(want) || fmt.Sprint(got) != fmt.Sprint(res.fwd) {
				verdict = "FAIL valid-stream-forwards-every-request-in-order " + wire.Enc(res.String())
			}
			firstOfClass := map[string]bool{}
			for _, p := range res.proc {
				// a health probe or a debug request never creates a watch
				q := strings.Split(p, ":")
				// a first CDS request on the stream is answered (with or without error_detail: a NACK queued on the
				// previous stream) and the type is watched afterwards
				if q[0] == "cds" && !firstOfClass["cds"] && (q[1] != "1" || q[2] != "1" || q[3] != "0") {
					verdict = "FAIL first-cds-request-answered " + wire.Enc(res.String())
				}
				firstOfClass[q[0]] = true
				// an authenticated debug request is answered
				if strings.HasSuffix(f[1], "A") && strings.HasPrefix(q[0], "debug") && q[1] != "1" {
					verdict = "FAIL authenticated-debug-request-answered " + wire.Enc(res.String())
				}
				if (q[0] == "health" || strings.HasPrefix(q[0], "debug")) && q[2] != "0" {
					verdict = "FAIL health-or-debug-request-created-a-watch " + wire.Enc(res.String())
				}
				if q[0] == "health" && q[1] != "0" {
					verdict = "FAIL health-probe-answered " + wire.Enc(res.String())
				}
			}
		default:
			if res.err != "none" || len(res.fwd) > 0 {
				verdict = "FAIL probes-only-stream " + wire.Enc(res.String())
			}
		}
		out.Line(verdict)
	}
}
