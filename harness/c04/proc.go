// Streams proc (SotW) and dproc (delta): the code that actually ANSWERS a request.
//
// The real processRequest / pushXds / pushConnection and processDeltaRequest / pushDeltaXds /
// forceEDSPush / pushConnectionDelta run (through the verif hooks of pilot/pkg/xds) on a bare
// DiscoveryServer whose generators are supplied here, on a connection with a recording stream.
// Per op the harness prints
//
//	sent=<responses put on the stream>  calls=<generator calls: type and the name set of the
//	WatchedResource the generator was handed>  | <the watch table>
//
// which the Lean model (lean/IstioModel/C04/Process.lean) must reproduce byte for byte, and which the
// oracle judges against the property statement without the model.
package main

import (
	"errors"
	"fmt"
	"sort"
	"strconv"
	"strings"

	discovery "github.com/envoyproxy/go-control-plane/envoy/service/discovery/v3"
	"google.golang.org/protobuf/types/known/anypb"

	"istio.io/istio/pilot/pkg/model"
	pxds "istio.io/istio/pilot/pkg/xds"
	"istio.io/istio/pkg/config/schema/kind"
	"istio.io/istio/pkg/util/sets"
	"verifharness/internal/wire"
)

var shortOf = func() map[string]string {
	m := map[string]string{}
	for k, v := range typeURL {
		m[v] = k
	}
	return m
}()

// PushOrder, then the types whose order is Go map order (responses and calls are printed in this order)
var wireRank = map[string]int{"T": 0, "CDS": 0, "EDS": 1, "LDS": 2, "RDS": 3, "SDS": 4, "WDS": 5, "WL": 6, "WAUTH": 7, "ECDS": 8, "NDS": 9}

type pres struct {
	name string
	ver  int
}

func decPRes(tok string) []pres {
	if tok == "-" || tok == "nil" || tok == "echo" || tok == "err" {
		return nil
	}
	var out []pres
	for _, e := range strings.Split(tok, ",") {
		p := strings.SplitN(e, "@", 2)
		v := 0
		if len(p) == 2 {
			v, _ = strconv.Atoi(p[1])
		}
		out = append(out, pres{wire.Dec(p[0]), v})
	}
	return out
}

func encPRes(l []pres) string {
	if len(l) == 0 {
		return "-"
	}
	c := append([]pres(nil), l...)
	sort.SliceStable(c, func(i, j int) bool { return c[i].name < c[j].name })
	var parts []string
	for i, r := range c {
		if i > 0 && c[i-1].name == r.name {
			continue
		}
		parts = append(parts, wire.Enc(r.name)+"@"+strconv.Itoa(r.ver))
	}
	return strings.Join(parts, ",")
}

// script is the answer of the generator of one type.  echo: one resource (version 1) per name of the
// watched resource the generator is handed, so that the response shows what was asked for.
type script struct {
	delta          bool // the generator also implements XdsDeltaResourceGenerator
	fails          bool // the generator returns an error
	echo           bool
	resNil, delNil bool
	res            []pres
	deleted        []string
	used, inc      bool
}

var defaultScript = script{echo: true, delNil: true}

type pcall struct {
	short string
	names []string // sorted
	// what the generator was told besides the watched resource: req.Delta and req.Forced
	sub, unsub, init []string
	forced           bool
}

func (c pcall) info() string {
	return "{+" + wire.EncSet(c.sub) + ";-" + wire.EncSet(c.unsub) + ";i=" + wire.EncSet(c.init) + ";f=" + wire.B(c.forced) + "}"
}

type presp struct {
	short   string
	res     []pres
	removed []string
	nonce   string
}

type procSys struct {
	delta   bool
	srv     *pxds.DiscoveryServer
	gens    map[string]model.XdsResourceGenerator
	proxy   *model.Proxy
	con     *pxds.Connection
	push    *model.PushContext
	scripts map[string]script
	fail    bool
	calls   []pcall
	got     []presp
	// the client's view: nonces of the responses that reached it, per type, oldest first; nonce of the last
	// response whose send failed
	delivered map[string][]string
	failed    map[string]string
	lastErr   error // what the handler of the last op returned
	// every nonce the server has put into a response on this stream, in order (delivered or not)
	nonces    []string
	needsPush bool
	grpc      bool
	// stream tproc: the one type URL of the case, printed as `T` (any type-URL constant of the tree)
	only  string
	tproc bool
}

type recGen struct {
	short string
	sys   *procSys
}

func toRes(l []pres, isNil bool) model.Resources {
	if isNil {
		return nil
	}
	out := make(model.Resources, 0, len(l))
	for _, r := range l {
		out = append(out, &discovery.Resource{
			Name: r.name, Version: strconv.Itoa(r.ver),
			Resource: &anypb.Any{TypeUrl: "verif/res", Value: []byte(r.name + "@" + strconv.Itoa(r.ver))},
		})
	}
	return out
}

func (g recGen) answer(w *model.WatchedResource, req *model.PushRequest) script {
	names := sets.SortedList(w.ResourceNames)
	c := pcall{short: g.short, names: names, forced: req.Forced}
	c.sub, c.unsub = sets.SortedList(req.Delta.Subscribed), sets.SortedList(req.Delta.Unsubscribed)
	for k := range req.Delta.InitialResourceVersions {
		c.init = append(c.init, k)
	}
	sort.Strings(c.init)
	g.sys.calls = append(g.sys.calls, c)
	sc, ok := g.sys.scripts[g.short]
	if !ok {
		sc = defaultScript
	}
	if sc.echo {
		sc.resNil = false
		sc.res = nil
		for _, n := range names {
			sc.res = append(sc.res, pres{n, 1})
		}
	}
	return sc
}

func (g recGen) Generate(_ *model.Proxy, w *model.WatchedResource, req *model.PushRequest) (model.Resources, model.XdsLogDetails, error) {
	sc := g.answer(w, req)
	if sc.fails {
		return nil, model.DefaultXdsLogDetails, errors.New("generator failed")
	}
	return toRes(sc.res, sc.resNil), model.XdsLogDetails{Incremental: sc.inc}, nil
}

type recDeltaGen struct{ recGen }

func (g recDeltaGen) GenerateDeltas(_ *model.Proxy, req *model.PushRequest, w *model.WatchedResource) (
	model.Resources, model.DeletedResources, model.XdsLogDetails, bool, error,
) {
	sc := g.answer(w, req)
	if sc.fails {
		return nil, nil, model.DefaultXdsLogDetails, false, errors.New("generator failed")
	}
	var del model.DeletedResources
	if !sc.delNil {
		del = append(model.DeletedResources{}, sc.deleted...)
	}
	return toRes(sc.res, sc.resNil), del, model.XdsLogDetails{Incremental: sc.inc}, sc.used, nil
}

type recSotwStream struct {
	baseStream
	sys *procSys
}

func (s *recSotwStream) Send(r *discovery.DiscoveryResponse) error {
	short := shortOf[r.TypeUrl]
	s.sys.nonces = append(s.sys.nonces, r.Nonce)
	if s.sys.fail {
		s.sys.failed[short] = r.Nonce
		return errors.New("send failed")
	}
	w := presp{short: short, nonce: r.Nonce}
	for _, a := range r.Resources {
		p := strings.SplitN(string(a.Value), "@", 2)
		v := 0
		if len(p) == 2 {
			v, _ = strconv.Atoi(p[1])
		}
		w.res = append(w.res, pres{p[0], v})
	}
	s.sys.got = append(s.sys.got, w)
	s.sys.delivered[short] = append(s.sys.delivered[short], r.Nonce)
	return nil
}
func (s *recSotwStream) Recv() (*discovery.DiscoveryRequest, error) { return nil, errors.New("eof") }

type recDeltaStream struct {
	baseStream
	sys *procSys
}

func (s *recDeltaStream) Send(r *discovery.DeltaDiscoveryResponse) error {
	short := shortOf[r.TypeUrl]
	s.sys.nonces = append(s.sys.nonces, r.Nonce)
	if s.sys.fail {
		s.sys.failed[short] = r.Nonce
		return errors.New("send failed")
	}
	w := presp{short: short, nonce: r.Nonce, removed: append([]string(nil), r.RemovedResources...)}
	for _, rr := range r.Resources {
		v, _ := strconv.Atoi(rr.Version)
		w.res = append(w.res, pres{rr.Name, v})
	}
	s.sys.got = append(s.sys.got, w)
	s.sys.delivered[short] = append(s.sys.delivered[short], r.Nonce)
	return nil
}
func (s *recDeltaStream) Recv() (*discovery.DeltaDiscoveryRequest, error) {
	return nil, errors.New("eof")
}

func newProcSys(delta, grpc bool) *procSys {
	p := &procSys{
		delta: delta, grpc: grpc, needsPush: true, gens: map[string]model.XdsResourceGenerator{}, scripts: map[string]script{},
		delivered: map[string][]string{}, failed: map[string]string{},
	}
	p.push = model.NewPushContext()
	p.push.PushVersion = "v1/"
	for _, t := range typeOrder {
		p.gens[typeURL[t]] = recGen{t, p}
	}
	p.srv = pxds.VerifC03NewServer(p.gens)
	// what ProxyNeedsPush answers is an input of the case (op `needs`)
	p.srv.ProxyNeedsPush = func(_ *model.Proxy, req *model.PushRequest) (*model.PushRequest, bool) { return req, p.needsPush }
	meta := &model.NodeMetadata{}
	if grpc {
		meta.Generator = "grpc" // a proxyless gRPC client: Proxy.IsProxylessGrpc()
	}
	p.proxy = &model.Proxy{
		ID: "verif-proxy", Type: model.SidecarProxy, Metadata: meta,
		WatchedResources: map[string]*model.WatchedResource{}, LastPushContext: p.push,
	}
	if delta {
		p.con = pxds.VerifNewDeltaConnection(p.proxy, &recDeltaStream{sys: p})
	} else {
		p.con = pxds.VerifNewConnection(p.proxy, &recSotwStream{sys: p})
	}
	return p
}

func (p *procSys) setScript(f []string) {
	// out <T> <plain|delta> <echo|nil|res list> <nil|deleted list> <usedDelta> <incremental>
	sc := script{delta: f[2] != "plain", echo: f[3] == "echo", resNil: f[3] == "nil" || f[3] == "err", fails: f[3] == "err",
		res: decPRes(f[3]), delNil: true, inc: f[6] == "1"}
	if sc.delta {
		sc.delNil = f[4] == "nil"
		if !sc.delNil {
			sc.deleted = wire.DecList(f[4])
		}
		sc.used = f[5] == "1"
	}
	p.scripts[f[1]] = sc
	if sc.delta {
		p.gens[typeURL[f[1]]] = recDeltaGen{recGen{f[1], p}}
	} else {
		p.gens[typeURL[f[1]]] = recGen{f[1], p}
	}
}

// resolve maps a nonce kind to the nonce the client puts in its request: the client knows the nonces of the
// responses that reached it and (for the scenario "echo of a response that was never delivered") the nonce of
// the last response the server tried to send.
func (p *procSys) resolve(short, k string) string {
	d := p.delivered[short]
	switch k {
	case "cur":
		if len(d) > 0 {
			return d[len(d)-1]
		}
		return ""
	case "prev":
		if len(d) > 1 {
			return d[len(d)-2]
		}
		return "stale-nonce"
	case "failed":
		if n := p.failed[short]; n != "" {
			return n
		}
		return "stale-nonce"
	case "stale":
		return "stale-nonce"
	}
	return ""
}

// pushRequest: push / dpush = an Endpoints-only event (computeProxyState skipped), fpush = the same Forced, apush = an
// AuthorizationPolicy event: not Endpoints-only, so pushConnection[Delta] runs the real computeProxyState first (on
// this bare server it refreshes LastPushContext / LastPushTime only: no service or sidecar-scope recomputation).
func (p *procSys) pushRequest(op string) *model.PushRequest {
	op = strings.TrimPrefix(op, "d")
	k := kind.Endpoints
	if op == "apush" {
		k = kind.AuthorizationPolicy
	}
	return &model.PushRequest{
		Push:           p.push,
		ConfigsUpdated: sets.New(model.ConfigKey{Kind: k, Name: "x", Namespace: "y"}),
		Reason:         model.NewReasonStats(model.EndpointUpdate),
		Forced:         op == "fpush",
	}
}

func showCalls(cs []pcall) string {
	if len(cs) == 0 {
		return "-"
	}
	c := append([]pcall(nil), cs...)
	sort.SliceStable(c, func(i, j int) bool { return wireRank[c[i].short] < wireRank[c[j].short] })
	parts := make([]string, len(c))
	for i, x := range c {
		parts[i] = x.short + ":" + wire.EncSet(x.names) + x.info()
	}
	return strings.Join(parts, ";")
}

func showResps(ws []presp) string {
	if len(ws) == 0 {
		return "-"
	}
	c := append([]presp(nil), ws...)
	sort.SliceStable(c, func(i, j int) bool { return wireRank[c[i].short] < wireRank[c[j].short] })
	parts := make([]string, len(c))
	for i, w := range c {
		parts[i] = fmt.Sprintf("%s:res=%s:rem=%s", w.short, encPRes(w.res), wire.EncSet(w.removed))
	}
	return strings.Join(parts, ";")
}

func (p *procSys) showState() string {
	var parts []string
	order := typeOrder
	if p.tproc {
		order = []string{"T"}
	}
	for _, t := range order {
		w := p.proxy.WatchedResources[typeURL[t]]
		if w == nil {
			continue
		}
		acked := "old"
		if w.NonceAcked == "" {
			acked = "empty"
		} else if w.NonceAcked == w.NonceSent {
			acked = "cur"
		}
		parts = append(parts, fmt.Sprintf("%s[names=%s;w=%s;sent=%s;acked=%s;always=%s;err=%s]", t,
			wire.EncSet(w.ResourceNames.UnsortedList()), wire.B(w.Wildcard), wire.B(w.NonceSent != ""),
			acked, wire.B(w.AlwaysRespond), wire.Enc(w.LastError)))
	}
	if len(parts) == 0 {
		return "empty"
	}
	return strings.Join(parts, " ")
}

func (p *procSys) show() string {
	return fmt.Sprintf("sent=%s calls=%s err=%s | %s", showResps(p.got), showCalls(p.calls), wire.B(p.lastErr != nil), p.showState())
}

// procRunner holds the system of the current case.
type procRunner struct{ p *procSys }

func (pr *procRunner) apply(f []string) (out string) {
	defer func() {
		if r := recover(); r != nil {
			out = "crash"
		}
	}()
	if f[0] == "case" {
		// the alias T of a previous tproc case is dropped
		delete(shortOf, typeURL["T"])
		delete(typeURL, "T")
		for k, v := range typeURL {
			shortOf[v] = k
		}
		tprocRow = ""
		if f[2] == "tproc" {
			tprocRow = wire.Dec(f[4])
			// case <n> tproc <sotw|delta> <constant> <url>: the type of the case is ANY type-URL constant, called T
			url := wire.Dec(f[5])
			typeURL["T"], shortOf[url] = url, "T"
			pr.p = newProcSys(f[3] == "delta", false)
			pr.p.only, pr.p.tproc = url, true
			pr.p.gens[url] = recGen{"T", pr.p}
			return "ok"
		}
		pr.p = newProcSys(f[2] == "dproc", len(f) > 3 && f[3] == "grpc")
		return "ok"
	}
	if pr.p == nil {
		pr.p = newProcSys(false, false)
	}
	p := pr.p
	p.calls, p.got = nil, nil
	switch f[0] {
	case "out":
		p.setScript(f)
		stat("script." + f[2] + "." + map[bool]string{true: "fixed", false: f[3]}[f[3] != "echo" && f[3] != "nil" && f[3] != "err"])
		return "ok"
	case "fail":
		p.fail = f[1] == "1"
		return "ok"
	case "req":
		req := &discovery.DiscoveryRequest{
			TypeUrl: typeURL[f[1]], ResourceNames: wire.DecList(f[2]), ResponseNonce: p.resolve(f[1], f[3]),
			ErrorDetail: errDetail(f[4]),
		}
		p.lastErr = pxds.VerifC03ProcessRequest(p.srv, req, p.con)
		return p.show()
	case "needs":
		p.needsPush = f[1] == "1"
		return "ok"
	case "version":
		// a new push context version: the prefix of the nonces that follow
		p.push.PushVersion = wire.Dec(f[1])
		return "ok"
	case "push", "fpush", "apush":
		p.lastErr = pxds.VerifC03PushConnection(p.srv, p.con, p.pushRequest(f[0]))
		return p.show()
	case "dreq":
		req := &discovery.DeltaDiscoveryRequest{
			TypeUrl: typeURL[f[1]], ResourceNamesSubscribe: wire.DecList(f[2]),
			ResourceNamesUnsubscribe: wire.DecList(f[3]), ResponseNonce: p.resolve(f[1], f[5]),
			ErrorDetail: errDetail(f[6]),
		}
		if init := wire.DecList(f[4]); len(init) > 0 {
			req.InitialResourceVersions = map[string]string{}
			for _, n := range init {
				req.InitialResourceVersions[n] = "retained"
			}
		}
		p.lastErr = pxds.VerifC03ProcessDeltaRequest(p.srv, req, p.con)
		return p.show()
	case "dpush", "dfpush", "dapush":
		p.lastErr = pxds.VerifC03PushConnectionDelta(p.srv, p.con, p.pushRequest(f[0]))
		return p.show()
	}
	return "bad-op"
}

// ---------------------------------------------------------------- generator

func genScriptLine(r *wire.Rng, out *wire.Out, t string, delta, allowErr bool) {
	k := "plain"
	if delta && r.Chance(1, 2) {
		k = "delta"
	}
	resTok := "echo"
	switch r.Intn(7) {
	case 6:
		if allowErr && r.Chance(1, 2) {
			resTok = "err" // the generator fails
		}
	case 0:
		resTok = "nil"
	case 1, 2:
		l := wire.Subset(r, []string{"a", "b", "c", "d"}, 1, 2)
		if len(l) == 0 {
			resTok = "-"
		} else {
			parts := make([]string, len(l))
			for i, n := range l {
				parts[i] = n + "@" + strconv.Itoa(1+r.Intn(3))
			}
			resTok = strings.Join(parts, ",")
		}
	}
	del := "nil"
	if k == "delta" && r.Chance(1, 2) {
		del = wire.EncList(wire.Subset(r, []string{"a", "b", "c", "d"}, 1, 3))
	}
	out.Line("out", t, k, resTok, del, wire.B(k == "delta" && r.Chance(1, 2)), wire.B(r.Chance(1, 4)))
}

func genProc(stream string, seed uint64, n int, outp string) {
	out := wire.Create(outp)
	defer out.Close()
	delta := stream == "dproc"
	root := wire.NewRng(seed ^ 0xC04A11)
	if delta {
		root = wire.NewRng(seed ^ 0xC04A12)
	}
	for c := 0; c < n; c++ {
		r := root.Fork()
		if r.Chance(1, 8) {
			out.Line("case", strconv.Itoa(c), stream, "grpc") // a proxyless gRPC client
		} else {
			out.Line("case", strconv.Itoa(c), stream)
		}
		// the push order of ECDS and NDS is Go map order: with both watched and a failing stream the set of generator
		// calls would depend on it, so a case has both only when its stream never fails
		pool := []string{"CDS", "EDS", "LDS", "RDS", "SDS", "WDS", "WL", "WAUTH", wire.Pick(r, []string{"ECDS", "NDS"})}
		neverFails := r.Chance(1, 4)
		if neverFails {
			pool = append(pool[:8:8], "ECDS", "NDS", "ECDS", "NDS")
		}
		types := wire.Subset(r, pool, 1, 4)
		if len(types) == 0 || r.Chance(1, 2) {
			types = append(types, "CDS", "EDS")
		}
		for _, t := range types {
			if r.Chance(1, 3) {
				genScriptLine(r, out, t, delta, !neverFails)
			}
		}
		pickNonce := func() string {
			switch r.Intn(16) {
			case 0, 1:
				return "empty"
			case 2:
				return "stale"
			case 3:
				return "prev"
			case 4:
				return "failed"
			}
			return "cur"
		}
		pickErr := func() string {
			if r.Chance(1, 9) {
				return "e:" + wire.Enc(wire.Pick(r, []string{"boom", "bad config"}))
			}
			return "-"
		}
		length := 2 + r.Intn(28)
		last := map[string][]string{}
		for i := 0; i < length; i++ {
			t := wire.Pick(r, types)
			wild := !namedType(t)
			switch k := r.Intn(20); {
			case k < 11 && !delta:
				if r.Chance(1, 4) && last[t] != nil {
					out.Line("req", t, wire.EncList(last[t]), "cur", "-") // conformant ACK
					break
				}
				names := genNames(r, wild)
				last[t] = names
				out.Line("req", t, wire.EncList(names), pickNonce(), pickErr())
			case k < 11:
				if r.Chance(1, 4) {
					out.Line("dreq", t, "-", "-", "-", "cur", "-") // conformant ACK
					break
				}
				univ := append([]string{"*"}, nameUniverse...)
				sub := wire.Subset(r, univ, 1, 3)
				if r.Chance(1, 10) && len(sub) > 0 {
					sub = append(sub, sub[0]) // duplicate
				}
				unsub := wire.Subset(r, univ, 1, 6)
				var init []string
				if r.Chance(1, 8) {
					init = wire.Subset(r, nameUniverse, 1, 2)
				}
				nk := pickNonce()
				if r.Chance(1, 3) {
					nk = "empty" // spontaneous subscription change
				}
				out.Line("dreq", t, wire.EncList(sub), wire.EncList(unsub), wire.EncList(init), nk, pickErr())
			case k < 14:
				op := "push"
				if r.Chance(1, 3) {
					op = "fpush" // Forced
				} else if r.Chance(1, 4) {
					op = "apush" // not Endpoints-only: computeProxyState runs
				}
				if delta {
					op = "d" + op
				}
				if r.Chance(1, 6) {
					out.Line("version", "v"+strconv.Itoa(2+r.Intn(3))+"/")
				}
				out.Line(op)
			case k < 16:
				if neverFails || r.Chance(1, 3) {
					out.Line("needs", wire.B(r.Chance(1, 2)))
				} else {
					out.Line("fail", wire.B(r.Chance(1, 2)))
				}
			default:
				genScriptLine(r, out, t, delta, !neverFails)
			}
		}
	}
}

// ---------------------------------------------------------------- property oracle (proc, dproc)
//
// Judges the property statement on the real code without the Lean model: the clause that applies to a
// request comes from the history (hist.go); here it is compared with what the real code SENT and what it
// asked the generators for.

type procOracle struct {
	histOracle
	pr *procRunner
}

// scriptOf is the generator answer the harness itself configured (an input of the case).
func (o *procOracle) scriptOf(t string) script {
	if sc, ok := o.pr.p.scripts[t]; ok {
		return sc
	}
	return defaultScript
}

func (o *procOracle) genAnswers(t string, delta bool) bool {
	sc := o.scriptOf(t)
	if sc.echo {
		return true
	}
	if delta && sc.delta {
		return !(sc.resNil && sc.delNil)
	}
	return !sc.resNil
}

func sameNames(a []string, b sets.String) bool { return sets.New(a...).Equals(b) }

// checkAnswer: `cands` are the generator calls the handler has to make, in order, if nothing goes wrong.  A failing
// generator or a failed send ends the handler there: the calls after it are not made and the handler returns the
// error.  A response goes out exactly for the calls whose generator had something.  Each kind of deviation has its
// own clause (the fingerprint names the defect, not the class of the request).
func (o *procOracle) checkAnswer(clause string, cands []pcall, line string) {
	p := o.pr.p
	var want []pcall
	var wantSent []string
	wantErr := false
	for _, c := range cands {
		want = append(want, c)
		if o.scriptOf(c.short).fails {
			wantErr = true
			break
		}
		if !o.genAnswers(c.short, p.delta) {
			continue
		}
		if p.fail {
			wantErr = true
			break
		}
		wantSent = append(wantSent, c.short)
	}
	// ECDS and NDS are pushed in Go map order: compare in the canonical order
	calls := append([]pcall(nil), p.calls...)
	sort.SliceStable(calls, func(i, j int) bool { return wireRank[calls[i].short] < wireRank[calls[j].short] })
	detail := fmt.Sprintf("generator calls %s, want %s :: %s", showCalls(calls), showCalls(want), line)
	if len(calls) > 0 && len(want) > 0 && (calls[0].short != want[0].short || !sameNames(calls[0].names, sets.New(want[0].names...))) {
		o.fail(clause, detail)
		return
	}
	if len(calls) != len(want) {
		if len(want) > 0 && want[0].short == "CDS" && p.delta && clause != "push-generates-the-whole-subscription" {
			o.fail("cds-answer-followed-by-the-forced-eds-push", detail)
		} else if len(calls) == 0 {
			o.fail(clause, detail)
		} else {
			o.fail("exactly-the-due-generator-calls", detail)
		}
		return
	}
	for i := range want {
		if calls[i].short != want[i].short || !sameNames(calls[i].names, sets.New(want[i].names...)) {
			o.fail("exactly-the-due-generator-calls", detail)
			return
		}
		if !sameNames(calls[i].sub, sets.New(want[i].sub...)) || !sameNames(calls[i].unsub, sets.New(want[i].unsub...)) ||
			!sameNames(calls[i].init, sets.New(want[i].init...)) || calls[i].forced != want[i].forced {
			o.fail("generator-is-told-the-subscription-change(req.Delta,Forced)", detail)
			return
		}
	}
	var got []string
	for _, w := range p.got {
		got = append(got, w.short)
		if w.nonce == "" {
			o.fail("response-without-nonce", line)
		}
	}
	sort.SliceStable(got, func(i, j int) bool { return wireRank[got[i]] < wireRank[got[j]] })
	if strings.Join(got, ",") != strings.Join(wantSent, ",") {
		o.fail("response-sent-iff-the-generator-answered-and-the-stream-is-up", fmt.Sprintf("responses %v, want %v :: %s", got, wantSent, line))
	}
	if (p.lastErr != nil) != wantErr {
		o.fail("handler-returns-the-error-of-a-failed-generator-or-send", fmt.Sprintf("returned error=%v, want %v :: %s", p.lastErr != nil, wantErr, line))
	}
	// echo generators: the response carries exactly the names the generator was asked for
	for _, w := range p.got {
		if !o.scriptOf(w.short).echo {
			continue
		}
		for _, c := range want {
			if c.short == w.short {
				var rn []string
				for _, r := range w.res {
					rn = append(rn, r.name)
				}
				if !sameNames(rn, sets.New(c.names...)) {
					o.fail("response-carries-what-was-generated", fmt.Sprintf("response of %s carries %v, generator asked for %v :: %s", w.short, rn, c.names, line))
				}
			}
		}
	}
}

func (o *procOracle) checkSilent(clause, line string) {
	p := o.pr.p
	if len(p.got) > 0 {
		o.fail(clause, "a response was sent: "+line)
	} else if len(p.calls) > 0 {
		o.fail(clause, "a generator was called: "+line)
	} else if p.lastErr != nil {
		o.fail(clause, "the handler returned an error: "+line)
	}
}

// after records the responses that reached the client and compares the watch table with the history.
func (o *procOracle) after(line string) {
	p := o.pr.p
	// every response carries a nonce that has not been used on this stream before: a client echoes a nonce to say
	// which response it answers
	seen := map[string]bool{}
	for _, n := range p.nonces {
		if seen[n] {
			o.fail("response-nonce-is-fresh-on-the-stream", fmt.Sprintf("nonce %q used twice :: %s", n, line))
		}
		seen[n] = true
	}
	for _, w := range p.got {
		if p.delta {
			o.sendDelta(w.short, w.nonce, nil, false)
		} else {
			o.sendSotw(w.short, w.nonce)
		}
	}
	o.checkTable(p.proxy, p.delta, true, p.got, line)
}

func errMsgOf(tok string) *string {
	if tok == "-" {
		return nil
	}
	m := wire.Dec(tok[2:])
	return &m
}

// debugT: the type of the request is a debug type (strings.HasPrefix(url, DebugType)): never classified, never
// watched; the generator is handed the request's names and its answer is sent without recording a nonce.
func debugT(t string) bool { return strings.HasPrefix(typeURL[t], "istio.io/debug") }

func (o *procOracle) debugReq(f []string, names []string, line string) {
	if o.pr.apply(f) == "crash" {
		o.fail("never-crashes", line)
		return
	}
	o.checkAnswer("debug-request-answered-without-a-watch", []pcall{{short: f[1], names: names, forced: true}}, line)
	if w := o.pr.p.proxy.WatchedResources[typeURL[f[1]]]; w != nil {
		o.fail("debug-request-created-a-watch", line)
	}
}

func (o *procOracle) sotwReq(f []string, line string) {
	t := f[1]
	names := wire.DecList(f[2])
	if debugT(t) {
		o.debugReq(f, names, line)
		return
	}
	nonce := o.pr.p.resolve(t, f[3]) // what the client sends: resolved from the client's own view, before the op
	stat("nonce-kind." + f[3])
	if o.pr.p.grpc {
		stat("class.grpc-request")
	}
	e := o.expectSotw(t, names, nonce, errMsgOf(f[4]))
	if o.pr.apply(f) == "crash" {
		o.fail("never-crashes", line)
		return
	}
	switch {
	case !e.respond:
		o.checkSilent(e.clause, line)
	case e.full:
		o.checkAnswer(e.clause, []pcall{{short: t, names: names, forced: true}}, line)
	case o.pr.p.grpc:
		// a proxyless gRPC client is never narrowed: it expects its whole subscription in every response (the
		// generator is still told what was added)
		o.checkAnswer(e.clause, []pcall{{short: t, names: names, sub: e.asked, forced: true}}, line)
	default:
		o.checkAnswer(e.clause, []pcall{{short: t, names: e.asked, sub: e.asked, forced: true}}, line)
	}
	// the last sentence of the property, keyed on the history only: the request echoes the nonce of the last response
	// of this type that reached the client (kind `cur`: what a conformant client sends; empty when none did), so it is
	// the client's current word; it has been processed and is not a rejection: the record must be what it asks for
	if f[3] == "cur" && f[4] == "-" {
		w := o.pr.p.proxy.WatchedResources[typeURL[t]]
		ok := false
		if len(names) == 0 && namedType(t) {
			ok = w == nil
		} else {
			ok = w != nil && sameNames(names, w.ResourceNames)
		}
		if !ok {
			o.fail("record-equals-the-last-request-of-a-conformant-client", line)
		}
	}
	o.after(line)
}

func (o *procOracle) pushAll(f []string, line string) {
	if o.pr.apply(f) == "crash" {
		o.fail("never-crashes", line)
		return
	}
	p := o.pr.p
	order := []string{"CDS", "EDS", "LDS", "RDS", "SDS", "WDS", "WL", "WAUTH", "ECDS", "NDS"}
	if p.tproc {
		order = []string{"T"}
	}
	var want []pcall
	if !p.needsPush {
		// the proxy does not need the push: nothing is generated, nothing is sent
		o.checkAnswer("push-not-needed-sends-nothing", nil, line)
		o.after(line)
		return
	}
	for _, t := range order {
		h := o.get(t)
		if !h.exists {
			continue
		}
		want = append(want, pcall{short: t, names: sets.SortedList(h.names), forced: strings.HasSuffix(f[0], "fpush")})
	}
	o.checkAnswer("push-generates-the-whole-subscription", want, line)
	o.after(line)
}

func (o *procOracle) deltaReq(f []string, line string) {
	t := f[1]
	stat("nonce-kind." + f[5])
	if o.pr.p.grpc {
		stat("class.grpc-request")
	}
	if f[4] != "-" {
		stat("class.delta.request-with-initial-resource-versions")
	}
	if debugT(t) {
		o.debugReq(f, wire.DecList(f[2]), line)
		return
	}
	nonce := o.pr.p.resolve(t, f[5])
	e := o.expectDelta(t, wire.DecList(f[2]), wire.DecList(f[3]), wire.DecList(f[4]), nonce, errMsgOf(f[6]))
	if o.pr.apply(f) == "crash" {
		o.fail("never-crashes", line)
		return
	}
	p := o.pr.p
	if e.either && len(p.got) == 0 && len(p.calls) == 0 {
		// silent: fine
	} else if !e.respond && !e.either {
		o.checkSilent(e.clause, line)
	} else {
		asked := e.asked
		if e.full {
			asked = sets.SortedList(o.get(t).names)
		}
		want := []pcall{{short: t, names: asked, sub: e.dsub, unsub: e.dunsub, init: e.dinit, forced: true}}
		if t == "CDS" && o.get("EDS").exists {
			// the server owes EDS after CDS (forceEDSPush): the whole EDS subscription
			want = append(want, pcall{short: "EDS", names: sets.SortedList(o.get("EDS").names), forced: true})
		}
		o.checkAnswer(e.clause, want, line)
	}
	o.after(line)
}

func oracleProc(stream, in, outp string) {
	out := wire.Create(outp)
	defer out.Close()
	o := &procOracle{pr: &procRunner{}}
	open := false
	flush := func() {
		if open {
			if o.verdict == "" {
				o.verdict = "OK"
			}
			out.Line(o.verdict)
		}
	}
	for _, f := range wire.ReadLines(in) {
		line := strings.Join(f, " ")
		if f[0] == "case" {
			flush()
			o.pr.apply(f)
			o.reset()
			open = true
			continue
		}
		o.idx++
		switch f[0] {
		case "req":
			o.sotwReq(f, line)
		case "dreq":
			o.deltaReq(f, line)
		case "push", "dpush", "fpush", "dfpush", "apush", "dapush":
			o.pushAll(f, line)
		default:
			if o.pr.apply(f) == "crash" {
				o.fail("never-crashes", line)
			}
		}
	}
	flush()
	dumpStats(outp)
}
