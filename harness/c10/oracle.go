package main

// Property oracle: evaluates the property statement directly on the real code, independently of
// the Lean model.  One verdict line per case: "OK" or "FAIL <clause> <fingerprint-class> <detail>".
//
// Clauses:
//   precedence            every sidecar-side resolver returns effectiveMode (spec.go) for every port
//   namespace-mode        GetNamespaceMutualTLSMode / BestEffortInferServiceMTLSMode = effectiveMode
//                         of a workload no selector policy selects
//   client-agrees         checkMtlsEnabled (no DestinationRule override, sidecar endpoint) is true
//                         exactly when effectiveMode != DISABLE
//   inbound-enforces      for every destination port, the filter chains of the real virtualInbound listener
//                         that Envoy selects for it admit plaintext iff effectiveMode != STRICT, terminate
//                         mutual TLS iff effectiveMode != DISABLE, never terminate TLS without client cert
//   ambient-strict-exact  the ztunnel policies attached to the workload reject an unauthenticated
//                         peer on port p exactly when effectiveMode p = STRICT

import (
	"fmt"
	"os"
	"sort"
	"strconv"
	"strings"

	"verifharness/internal/wire"
)

func field(line, key string) string {
	for _, t := range strings.Fields(line) {
		if strings.HasPrefix(t, key+"=") {
			return t[len(key)+1:]
		}
	}
	return ""
}

// knownClasses: failure classes recorded as known findings (see notes/C10.md, F13).
var knownClasses = map[string]bool{"client-composed:ns-disable-under-narrower-non-disable": true}

func orPermissive(m string) string {
	if m == "UNKNOWN" {
		return "PERMISSIVE"
	}
	return m
}

// oracleStats: how often the oracle judged what (input classes), written next to the verdicts as <out>.stats.
var oracleStats = map[string]int{}

func stat(key string) { oracleStats[key]++ }

func writeStats(outp string) {
	if outp == "-" || outp == os.DevNull {
		return
	}
	keys := make([]string, 0, len(oracleStats))
	for k := range oracleStats {
		keys = append(keys, k)
	}
	sort.Strings(keys)
	var b strings.Builder
	for _, k := range keys {
		fmt.Fprintf(&b, "%s %d\n", k, oracleStats[k])
	}
	_ = os.WriteFile(outp+".stats", []byte(b.String()), 0o644)
}

func oracle(stream, in, outp string) {
	if stream == "chains" {
		chainsOracle(outp)
		return
	}
	out := wire.Create(outp)
	defer out.Close()
	defer writeStats(outp)
	s := newSUT("istio-system")
	defer s.closeLive()
	verdict := ""
	caseOpen := false
	idx := 0
	flush := func() {
		if caseOpen {
			if verdict == "" {
				verdict = "OK"
			}
			out.Line(verdict)
		}
	}
	verdictKnownClass := false
	fail := func(clause, class, detail string) {
		// first failure of the case wins, except that a failure of a recorded known-finding class never
		// hides a different failure later in the same case
		known := knownClasses[clause+":"+class]
		if known {
			stat("known-class-hit." + clause + ":" + class)
		}
		if verdict == "" || (verdictKnownClass && !known) {
			verdict = fmt.Sprintf("FAIL %s %s op=%d %s", clause, class, idx, wire.Enc(detail))
			verdictKnownClass = known
		}
	}
	// version-tracks-spec: per view, a version string must never stand for two different policy contents
	versionSpec := map[string]string{}
	checkVersion := func(view, version string, keep func(paIn) bool) {
		var specs []string
		for _, p := range s.pas {
			if keep(p) {
				q := p
				q.rv = 0
				specs = append(specs, strings.Join(q.line(), " "))
			}
		}
		sort.Strings(specs)
		desc := strings.Join(specs, ";")
		if old, ok := versionSpec[view+"|"+version]; ok && old != desc {
			fail("version-tracks-spec", "same-version-for-different-policies", fmt.Sprintf("view %s: %s vs %s", view, old, desc))
		}
		versionSpec[view+"|"+version] = desc
	}
	for _, f := range wire.ReadLines(in) {
		if f[0] == "case" {
			versionSpec = map[string]string{}
			flush()
			s.apply(f)
			verdict, caseOpen, idx, verdictKnownClass = "", true, 0, false
			continue
		}
		idx++
		switch f[0] {
		case "q":
			res := s.apply(f)
			if res == "crash" || res == "bad-op" {
				fail("never-crashes", "crash", strings.Join(f, " "))
				continue
			}
			checkVersion("full", s.policies().GetVersion(), func(paIn) bool { return true })
			ns, labels, svcNs := wire.Dec(f[1]), parseLabels(f[2]), wire.DecList(f[3])
			if len(svcNs) > 0 && svcNs[0] != ns && svcNs[0] != s.root {
				continue // waypoint lookup in a service namespace: outside the property's statement
			}
			for _, e := range strings.Split(field(res, "Q"), ",") {
				ps, got, _ := strings.Cut(e, ":")
				p, _ := strconv.ParseUint(ps, 10, 32)
				want := effectiveMode(s.pas, s.root, ns, labels, uint32(p))
				stat("judged.precedence.mode." + want)
				if ns == s.root {
					stat("judged.precedence.root-namespace-workload")
				}
				if l := specLevels(s.pas, s.root, ns, labels); tiedSelected(s.pas, l) {
					stat("judged.precedence.tie-decides")
				}
				if got != want {
					fail("precedence", "resolver-vs-spec", fmt.Sprintf("port %d real %s spec %s", p, got, want))
				}
			}
			wantNs := effectiveMode(s.pas, s.root, ns, nil, 0)
			if got := orPermissive(field(res, "NS")); got != wantNs {
				fail("namespace-mode", "GetNamespaceMutualTLSMode", fmt.Sprintf("real %s spec %s", got, wantNs))
			}
			{
				// GetGlobalMutualTLSMode: the mesh policy's mode (UNSET = PERMISSIVE), UNKNOWN without mesh policy
				lv := specLevels(s.pas, s.root, s.root, nil)
				wantG := "UNKNOWN"
				if lv.mesh != nil {
					wantG = lv.meshMode
				}
				if got := field(res, "G"); got != wantG {
					fail("namespace-mode", "GetGlobalMutualTLSMode", fmt.Sprintf("real %s spec %s", got, wantG))
				}
			}
			if got := field(res, "BE"); got != wantNs {
				fail("namespace-mode", "BestEffortInferServiceMTLSMode", fmt.Sprintf("real %s spec %s", got, wantNs))
			}
		case "chk":
			res := s.apply(f)
			if res == "crash" || res == "bad-op" {
				fail("never-crashes", "crash", strings.Join(f, " "))
				continue
			}
			p, _ := strconv.ParseUint(f[3], 10, 32)
			ns := wire.Dec(f[1])
			{
				keptNs := map[string]bool{wire.Dec(f[6]): true, s.root: true}
				for _, n := range wire.DecList(f[7]) {
					keptNs[n] = true
				}
				var names []string
				for n := range keptNs {
					names = append(names, n)
				}
				sort.Strings(names)
				checkVersion("view:"+strings.Join(names, ","), s.scopedVersion(wire.Dec(f[6]), wire.DecList(f[7])),
					// the filtered view only holds the configs of the per-namespace map: a selector-less policy
					// that is not the oldest of its namespace was dropped by the singleton check and has no effect
					func(p paIn) bool { return keptNs[p.ns] && !s.shadowed(p) })
			}
			{
				// push propagation: every policy of a kept namespace that a resolver can read (not dropped by the
				// singleton check) is a config dependency of the client proxy (SidecarScope.DependsOnConfig)
				keptNs := map[string]bool{wire.Dec(f[6]): true, s.root: true}
				for _, n := range wire.DecList(f[7]) {
					keptNs[n] = true
				}
				deps := map[string]bool{}
				for _, d := range strings.Split(field(res, "DP"), ",") {
					deps[d] = true
				}
				for _, pa := range s.pas {
					if keptNs[pa.ns] && !s.shadowed(pa) && !deps[pa.ns+"/"+pa.name] {
						fail("client-push-dependency", "policy-of-kept-namespace-not-a-config-dependency", fmt.Sprintf("%s/%s DP=%s", pa.ns, pa.name, field(res, "DP")))
					}
				}
			}
			// the statement covers endpoints whose namespace the client's sidecar scope keeps
			kept := ns == wire.Dec(f[6]) || ns == s.root
			for _, n := range wire.DecList(f[7]) {
				kept = kept || n == ns
			}
			if !kept {
				continue
			}
			chkOn := strings.Fields(res)[0] == "1"
			eff := effectiveMode(s.pas, s.root, ns, parseLabels(f[2]), uint32(p))
			nsLevel := effectiveMode(s.pas, s.root, ns, nil, 0)
			stat("judged.client.effective." + eff + ".namespace-level." + nsLevel)
			if f[5] == "nil" && f[4] == "1" {
				if chkOn != (eff != "DISABLE") {
					fail("client-agrees", "checkMtlsEnabled", fmt.Sprintf("real %s spec-not-disable %v", res, eff != "DISABLE"))
				}
			}
			be := field(res, "BE")
			if be != nsLevel {
				fail("namespace-mode", "BestEffortInferServiceMTLSMode-on-sidecar-scope-view", fmt.Sprintf("real %s spec %s", be, nsLevel))
			}
			if f[5] == "nil" && f[4] == "1" {
				// the COMPOSED client decision: the cluster has the TLS transport-socket match (service mode
				// neither UNKNOWN nor DISABLE) and the endpoint keeps its tlsMode label
				composed := chkOn && be != "DISABLE" && be != "UNKNOWN"
				if composed != (eff != "DISABLE") {
					fail("client-composed", composedClass(composed, chkOn, eff, nsLevel),
						fmt.Sprintf("port %d client-sends-mtls %v effective %s namespace-level %s", p, composed, eff, nsLevel))
				}
			}
		case "cl", "hc":
			res := s.apply(f)
			if res == "crash" || res == "bad-op" {
				fail("never-crashes", "crash", strings.Join(f, " "))
				continue
			}
			s.clientE2EOracle(f, res, fail)
		case "il", "ils", "ilh", "ilp", "ilt", "ilr":
			res := s.apply(f)
			if res == "crash" || res == "bad-op" || res == "no-virtual-inbound" {
				fail("never-crashes", "crash", strings.Join(f, " ")+" -> "+res)
				continue
			}
			s.inboundOracle(f, res, fail)
		case "aq":
			res := s.apply(f)
			if res == "crash" || res == "bad-op" {
				fail("never-crashes", "crash", strings.Join(f, " "))
				continue
			}
			s.ambientOracle(f, res, fail)
		case "aw":
			res := s.apply(f)
			if res == "crash" || res == "bad-op" || strings.HasPrefix(res, "timeout") {
				fail("never-crashes", "crash", strings.Join(f, " ")+" -> "+res)
				continue
			}
			s.ambientWorkloadOracle(f, res, fail)
		default:
			if s.apply(f) == "crash" {
				fail("never-crashes", "crash", strings.Join(f, " "))
			}
		}
	}
	flush()
}

// composedClass names the cause of a composed-client failure: F13 = the cluster-side decision sees the
// namespace/mesh level only, so a namespace-level DISABLE hides a narrower non-DISABLE policy.
func composedClass(composed, endpointLabelKept bool, eff, nsLevel string) string {
	if !composed && endpointLabelKept && eff != "DISABLE" && nsLevel == "DISABLE" {
		return "ns-disable-under-narrower-non-disable"
	}
	return "other"
}

// shadowed: a namespace/mesh-level policy that is not the oldest one of its namespace (ignored by every resolver).
func (s *sut) shadowed(p paIn) bool {
	if p.hasSelector() {
		return false
	}
	for _, q := range s.pas {
		if !q.hasSelector() && q.ns == p.ns && older(q, p) {
			return true
		}
	}
	return false
}
