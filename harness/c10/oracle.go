package main

// Property oracle: evaluates the property statement directly on the real code, independently of
// the Lean model.  One verdict line per case: "OK" or "FAIL <clause> <fingerprint-class> <detail>".
//
// Clauses:
//   precedence            every sidecar-side resolver returns effectiveMode (spec.go) for every port
//   namespace-mode        GetNamespaceMutualTLSMode / BestEffortInferServiceMTLSMode = effectiveMode
//                         of a workload no selector policy selects
//   client-agrees         checkMtlsEnabled (no DestinationRule override, sidecar endpoint) is true
//                         exactly when effectiveMode != DISABLE
//   inbound-enforces      for every destination port, the filter chains of the real virtualInbound listener
//                         that Envoy selects for it admit plaintext iff effectiveMode != STRICT, terminate
//                         mutual TLS iff effectiveMode != DISABLE, never terminate TLS without client cert
//   ambient-strict-exact  the ztunnel policies attached to the workload reject an unauthenticated
//                         peer on port p exactly when effectiveMode p = STRICT

import (
	"fmt"
	"strconv"
	"strings"

	"verifharness/internal/wire"
)

func field(line, key string) string {
	for _, t := range strings.Fields(line) {
		if strings.HasPrefix(t, key+"=") {
			return t[len(key)+1:]
		}
	}
	return ""
}

func orPermissive(m string) string {
	if m == "UNKNOWN" {
		return "PERMISSIVE"
	}
	return m
}

func oracle(stream, in, outp string) {
	if stream == "chains" {
		chainsOracle(outp)
		return
	}
	out := wire.Create(outp)
	defer out.Close()
	s := newSUT("istio-system")
	verdict := ""
	caseOpen := false
	idx := 0
	flush := func() {
		if caseOpen {
			if verdict == "" {
				verdict = "OK"
			}
			out.Line(verdict)
		}
	}
	fail := func(clause, class, detail string) {
		if verdict == "" {
			verdict = fmt.Sprintf("FAIL %s %s op=%d %s", clause, class, idx, wire.Enc(detail))
		}
	}
	for _, f := range wire.ReadLines(in) {
		if f[0] == "case" {
			flush()
			s.apply(f)
			verdict, caseOpen, idx = "", true, 0
			continue
		}
		idx++
		switch f[0] {
		case "q":
			res := s.apply(f)
			if res == "crash" || res == "bad-op" {
				fail("never-crashes", "crash", strings.Join(f, " "))
				continue
			}
			ns, labels, svcNs := wire.Dec(f[1]), parseLabels(f[2]), wire.DecList(f[3])
			if len(svcNs) > 0 && svcNs[0] != ns && svcNs[0] != s.root {
				continue // waypoint lookup in a service namespace: outside the property's statement
			}
			for _, e := range strings.Split(field(res, "Q"), ",") {
				ps, got, _ := strings.Cut(e, ":")
				p, _ := strconv.ParseUint(ps, 10, 32)
				want := effectiveMode(s.pas, s.root, ns, labels, uint32(p))
				if got != want {
					fail("precedence", "resolver-vs-spec", fmt.Sprintf("port %d real %s spec %s", p, got, want))
				}
			}
			wantNs := effectiveMode(s.pas, s.root, ns, nil, 0)
			if got := orPermissive(field(res, "NS")); got != wantNs {
				fail("namespace-mode", "GetNamespaceMutualTLSMode", fmt.Sprintf("real %s spec %s", got, wantNs))
			}
			if got := field(res, "BE"); got != wantNs {
				fail("namespace-mode", "BestEffortInferServiceMTLSMode", fmt.Sprintf("real %s spec %s", got, wantNs))
			}
		case "chk":
			res := s.apply(f)
			if res == "crash" || res == "bad-op" {
				fail("never-crashes", "crash", strings.Join(f, " "))
				continue
			}
			p, _ := strconv.ParseUint(f[3], 10, 32)
			ns := wire.Dec(f[1])
			// the statement covers endpoints whose namespace the client's sidecar scope keeps
			kept := ns == wire.Dec(f[6]) || ns == s.root
			for _, n := range wire.DecList(f[7]) {
				kept = kept || n == ns
			}
			if !kept {
				continue
			}
			if f[5] == "nil" && f[4] == "1" {
				want := effectiveMode(s.pas, s.root, ns, parseLabels(f[2]), uint32(p)) != "DISABLE"
				if (strings.Fields(res)[0] == "1") != want {
					fail("client-agrees", "checkMtlsEnabled", fmt.Sprintf("real %s spec-not-disable %v", res, want))
				}
			}
			if got, want := field(res, "BE"), effectiveMode(s.pas, s.root, ns, nil, 0); got != want {
				fail("namespace-mode", "BestEffortInferServiceMTLSMode-on-sidecar-scope-view", fmt.Sprintf("real %s spec %s", got, want))
			}
		case "il", "ils":
			res := s.apply(f)
			if res == "crash" || res == "bad-op" || res == "no-virtual-inbound" {
				fail("never-crashes", "crash", strings.Join(f, " ")+" -> "+res)
				continue
			}
			s.inboundOracle(f, res, fail)
		case "aq":
			res := s.apply(f)
			if res == "crash" || res == "bad-op" {
				fail("never-crashes", "crash", strings.Join(f, " "))
				continue
			}
			s.ambientOracle(f, res, fail)
		default:
			if s.apply(f) == "crash" {
				fail("never-crashes", "crash", strings.Join(f, " "))
			}
		}
	}
	flush()
}
