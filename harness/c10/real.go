package main

// The system under test: the REAL functions of /repo, called in-process.

import (
	"fmt"
	"sort"
	"strconv"
	"strings"
	"time"

	meshconfig "istio.io/api/mesh/v1alpha1"
	networkingapi "istio.io/api/networking/v1alpha3"
	securityapi "istio.io/api/security/v1beta1"
	typeapi "istio.io/api/type/v1beta1"
	"istio.io/istio/pilot/pkg/model"
	"istio.io/istio/pilot/pkg/security/authn"
	"istio.io/istio/pilot/pkg/xds/endpoints"
	"istio.io/istio/pkg/config"
	"istio.io/istio/pkg/config/mesh/meshwatcher"
	"istio.io/istio/pkg/config/schema/collection"
	"istio.io/istio/pkg/config/schema/collections"
	"istio.io/istio/pkg/config/schema/gvk"
	"istio.io/istio/pkg/config/schema/kind"
	"verifharness/internal/wire"
)

// sliceStore is a read-only model.ConfigStore over a slice, in the order the ops file gave
// (the code under test must sort it itself).
type sliceStore struct{ cfgs []config.Config }

func (s *sliceStore) Schemas() collection.Schemas { return collections.Pilot }
func (s *sliceStore) Get(typ config.GroupVersionKind, name, namespace string) *config.Config {
	for i := range s.cfgs {
		if s.cfgs[i].GroupVersionKind == typ && s.cfgs[i].Name == name && s.cfgs[i].Namespace == namespace {
			return &s.cfgs[i]
		}
	}
	return nil
}

func (s *sliceStore) List(typ config.GroupVersionKind, namespace string) []config.Config {
	var out []config.Config
	for _, c := range s.cfgs {
		if c.GroupVersionKind == typ && (namespace == "" || c.Namespace == namespace) {
			out = append(out, c)
		}
	}
	return out
}
func (s *sliceStore) Create(config.Config) (string, error)       { return "", nil }
func (s *sliceStore) Update(config.Config) (string, error)       { return "", nil }
func (s *sliceStore) UpdateStatus(config.Config) (string, error) { return "", nil }
func (s *sliceStore) Delete(config.GroupVersionKind, string, string, *string) error {
	return nil
}

type sut struct {
	root    string
	pas     []paIn
	ap      *model.AuthenticationPolicies // built lazily from pas
	push    *model.PushContext
	watch   *meshwatcher.TestWatcher
	av      *ambientView
	vers    map[string]int // real GetVersion() strings seen in this case -> index of first appearance
	live    *e2eWorld      // op hc: the FakeDiscoveryServer kept for the rest of the case
	liveAmb *ambWorld      // op aw: the ambient index kept for the rest of the case
}

// versionIndex: the hash itself cannot be predicted by the model; both sides print the index of the
// version among the distinct versions seen so far in the case (equal versions <-> equal index).
func (s *sut) versionIndex(v string) int {
	if s.vers == nil {
		s.vers = map[string]int{}
	}
	if i, ok := s.vers[v]; ok {
		return i
	}
	s.vers[v] = len(s.vers)
	return s.vers[v]
}

func newSUT(root string) *sut {
	return &sut{root: root}
}

func (s *sut) add(p paIn) {
	s.pas = append(s.pas, p)
	s.ap = nil
	s.av = nil
}

var modeEnum = map[string]securityapi.PeerAuthentication_MutualTLS_Mode{
	"UNSET":      securityapi.PeerAuthentication_MutualTLS_UNSET,
	"DISABLE":    securityapi.PeerAuthentication_MutualTLS_DISABLE,
	"PERMISSIVE": securityapi.PeerAuthentication_MutualTLS_PERMISSIVE,
	"STRICT":     securityapi.PeerAuthentication_MutualTLS_STRICT,
}

func mtlsOf(tok string) *securityapi.PeerAuthentication_MutualTLS {
	if tok == "nil" {
		return nil
	}
	return &securityapi.PeerAuthentication_MutualTLS{Mode: modeEnum[tok]}
}

func specOf(p paIn) *securityapi.PeerAuthentication {
	spec := &securityapi.PeerAuthentication{Mtls: mtlsOf(p.mtls)}
	if !p.selNil {
		spec.Selector = &typeapi.WorkloadSelector{MatchLabels: labelsMap(p.sel)}
		if spec.Selector.MatchLabels == nil {
			spec.Selector.MatchLabels = map[string]string{}
		}
	}
	if len(p.ports) > 0 {
		spec.PortLevelMtls = map[uint32]*securityapi.PeerAuthentication_MutualTLS{}
		for _, e := range p.ports {
			spec.PortLevelMtls[e.port] = mtlsOf(e.mode)
		}
	}
	return spec
}

func configOf(p paIn) config.Config {
	return config.Config{
		Meta: config.Meta{
			GroupVersionKind:  gvk.PeerAuthentication,
			Name:              p.name,
			Namespace:         p.ns,
			CreationTimestamp: time.Unix(p.time, 0).UTC(),
			UID:               p.ns + "/" + p.name,
			ResourceVersion:   strconv.Itoa(p.rv),
		},
		Spec: specOf(p),
	}
}

// policies builds model.AuthenticationPolicies through the real initAuthenticationPolicies.
func (s *sut) policies() *model.AuthenticationPolicies {
	if s.ap != nil {
		return s.ap
	}
	store := &sliceStore{}
	for _, p := range s.pas {
		store.cfgs = append(store.cfgs, configOf(p))
	}
	if s.watch == nil {
		w := meshwatcher.NewTestWatcher(&meshconfig.MeshConfig{RootNamespace: s.root})
		s.watch = &w
	}
	env := &model.Environment{ConfigStore: store, Watcher: *s.watch}
	s.ap = model.VerifInitAuthenticationPolicies(env)
	s.push = model.NewPushContext()
	s.push.AuthnPolicies = s.ap
	s.push.Mesh = env.Mesh()
	return s.ap
}

func modeTok(m model.MutualTLSMode) string { return m.String() }

// query: every resolver of the sidecar/xDS side for one workload.
func (s *sut) query(ns string, labels [][2]string, svcNs []string, ports []uint32) string {
	ap := s.policies()
	lm := labelsMap(labels)
	matcher := model.PolicyMatcherFor(ns, lm, false)
	var svc *model.Service
	if len(svcNs) > 0 {
		svc = &model.Service{Attributes: model.ServiceAttributes{Name: "svc", Namespace: svcNs[0]}}
		matcher = matcher.WithService(svc)
	}
	cfgs := ap.GetPeerAuthenticationsForWorkload(matcher)
	names := make([]string, len(cfgs))
	for i, c := range cfgs {
		names[i] = c.Namespace + "/" + c.Name
	}
	merged := authn.ComposePeerAuthentication(ap.GetRootNamespace(), cfgs)
	pp := map[uint32]string{}
	for p, m := range merged.PerPort {
		pp[p] = modeTok(m)
	}
	// the resolver used for inbound listeners
	proxy := &model.Proxy{Type: model.SidecarProxy, ConfigNamespace: ns, Labels: lm, Metadata: &model.NodeMetadata{Namespace: ns, Labels: lm}}
	applier := authn.NewPolicyApplier(s.push, proxy, svc)
	// the resolver used by the EDS mTLS checker (no service namespaces)
	var mp authn.MtlsPolicy
	if svc == nil {
		mp = authn.NewMtlsPolicy(s.push, ap, ns, lm, false)
	}
	qs := make([]string, len(ports))
	for i, p := range ports {
		m := applier.GetMutualTLSModeForPort(p)
		if mp != nil {
			if m2 := mp.GetMutualTLSModeForPort(p); m2 != m {
				qs[i] = fmt.Sprintf("%d:%s!%s", p, modeTok(m), modeTok(m2))
				continue
			}
		}
		qs[i] = fmt.Sprintf("%d:%s", p, modeTok(m))
	}
	q := "-"
	if len(qs) > 0 {
		q = strings.Join(qs, ",")
	}
	be := s.push.BestEffortInferServiceMTLSMode(ap, nil, &model.Service{Attributes: model.ServiceAttributes{Namespace: ns}}, &model.Port{Port: 80})
	cfg := "-"
	if len(names) > 0 {
		cfg = strings.Join(names, ",")
	}
	return fmt.Sprintf("M=%s PP=%s Q=%s NS=%s G=%s BE=%s CFG=%s V=%d", modeTok(merged.Mode), sortedPortModes(pp), q,
		modeTok(ap.GetNamespaceMutualTLSMode(ns)), modeTok(ap.GetGlobalMutualTLSMode()), modeTok(be), cfg, s.versionIndex(ap.GetVersion()))
}

var drEnum = map[string]networkingapi.ClientTLSSettings_TLSmode{
	"DISABLE":      networkingapi.ClientTLSSettings_DISABLE,
	"SIMPLE":       networkingapi.ClientTLSSettings_SIMPLE,
	"MUTUAL":       networkingapi.ClientTLSSettings_MUTUAL,
	"ISTIO_MUTUAL": networkingapi.ClientTLSSettings_ISTIO_MUTUAL,
}

// check: the client-side auto-mTLS decision of the EDS generator for one endpoint, evaluated as production
// does: on the client proxy's SidecarScope.AuthnPolicies, i.e. the real selectAuthnPolicies /
// FilterPeerAuthenticationNamespaces for a sidecar scope in clientNs importing services of importedNs.
func (s *sut) check(ns string, labels [][2]string, port uint32, epTLS bool, dr string, clientNs string, importedNs []string, waypoint bool) string {
	s.policies()
	var imported []*model.Service
	for _, n := range importedNs {
		imported = append(imported, &model.Service{Attributes: model.ServiceAttributes{Name: "svc", Namespace: n}})
	}
	// the scope itself: selectAuthnPolicies also registers the kept configs as config dependencies of the proxy
	scope := model.VerifSelectAuthnPoliciesScope(s.push, clientNs, imported)
	view := scope.AuthnPolicies
	var deps []string
	for _, p := range s.pas {
		if scope.DependsOnConfig(model.ConfigKey{Kind: kind.PeerAuthentication, Name: p.name, Namespace: p.ns}, s.root) {
			deps = append(deps, p.ns+"/"+p.name)
		}
	}
	sort.Strings(deps)
	dp := "-"
	if len(deps) > 0 {
		dp = strings.Join(deps, ",")
	}
	drc, subset := buildDR(dr, ns)
	ep := &model.IstioEndpoint{Namespace: ns, Labels: labelsMap(labels), EndpointPort: port}
	if epTLS {
		ep.TLSMode = model.IstioMutualTLSModeLabel
	} else {
		ep.TLSMode = model.DisabledTLSModeLabel
	}
	r := endpoints.VerifCheckMtlsEnabled(s.push, view, 80, drc, subset, ep, waypoint)
	be := s.push.BestEffortInferServiceMTLSMode(view, nil, &model.Service{Attributes: model.ServiceAttributes{Namespace: ns}}, &model.Port{Port: 80})
	return fmt.Sprintf("%s BE=%s NS=%s V=%d DP=%s", wire.B(r), modeTok(be), modeTok(view.GetNamespaceMutualTLSMode(ns)), s.versionIndex(view.GetVersion()), dp)
}

// scopedVersion: GetVersion() of the client's filtered view.
func (s *sut) scopedVersion(clientNs string, importedNs []string) string {
	s.policies()
	var imported []*model.Service
	for _, n := range importedNs {
		imported = append(imported, &model.Service{Attributes: model.ServiceAttributes{Name: "svc", Namespace: n}})
	}
	return model.VerifSelectAuthnPolicies(s.push, clientNs, imported).GetVersion()
}

func optTLS(tok string) *networkingapi.ClientTLSSettings {
	if tok == "-" || tok == "nil" || tok == "" {
		return nil
	}
	return &networkingapi.ClientTLSSettings{Mode: drEnum[tok]}
}

// tpolicy: <tls|-> and <p=M;p=nil|-> -> TrafficPolicy (nil when both are "-").
func tpolicy(tls, ports string) *networkingapi.TrafficPolicy {
	if tls == "-" && ports == "-" {
		return nil
	}
	tp := &networkingapi.TrafficPolicy{Tls: optTLS(tls)}
	if ports != "-" && ports != "" {
		for _, e := range strings.Split(ports, ";") {
			p, m, _ := strings.Cut(e, "=")
			n, _ := strconv.ParseUint(p, 10, 32)
			tp.PortLevelSettings = append(tp.PortLevelSettings, &networkingapi.TrafficPolicy_PortTrafficPolicy{
				Port: &networkingapi.PortSelector{Number: uint32(n)}, Tls: optTLS(m),
			})
		}
	}
	return tp
}

// buildDR: the DestinationRule token of chk (see Driver.lean parseDR) -> config and selected subset.
func buildDR(tok, ns string) (*config.Config, string) {
	if tok == "nil" {
		return nil, ""
	}
	dr := &networkingapi.DestinationRule{Host: "svc"}
	subset := ""
	if f := strings.Split(tok, "/"); len(f) == 4 {
		dr.TrafficPolicy = tpolicy(f[0], f[1])
		if f[2] != "-" {
			for _, e := range strings.Split(f[2], "+") {
				g := strings.Split(e, "~")
				ss := &networkingapi.Subset{Name: g[0]}
				if len(g) == 3 {
					ss.TrafficPolicy = tpolicy(g[1], g[2])
				}
				dr.Subsets = append(dr.Subsets, ss)
			}
		}
		if f[3] != "-" {
			subset = f[3]
		}
	} else {
		dr.TrafficPolicy = &networkingapi.TrafficPolicy{Tls: &networkingapi.ClientTLSSettings{Mode: drEnum[tok]}}
	}
	return &config.Config{
		Meta: config.Meta{GroupVersionKind: gvk.DestinationRule, Name: "dr", Namespace: ns},
		Spec: dr,
	}, subset
}
