package main

// Independent implementation of the property's precedence rule (used by the oracle only).
// Written from the property statement, not from the code under test:
//   port-level of the oldest matching workload-selector policy > its workload mode >
//   oldest namespace policy > oldest mesh policy > PERMISSIVE; UNSET inherits.
// "Oldest" = least (creation time, name, namespace).

func (p paIn) hasSelector() bool { return !p.selNil && len(p.sel) > 0 }

func (p paIn) selectsLabels(labels [][2]string) bool {
	lm := labelsMap(labels)
	for _, kv := range p.sel {
		v, ok := lm[kv[0]]
		if !ok || v != kv[1] {
			return false
		}
	}
	return true
}

func older(a, b paIn) bool {
	if a.time != b.time {
		return a.time < b.time
	}
	if a.name != b.name {
		return a.name < b.name
	}
	return a.ns < b.ns
}

func oldestOf(ps []paIn, keep func(paIn) bool) *paIn {
	var best *paIn
	for i := range ps {
		if !keep(ps[i]) {
			continue
		}
		if best == nil || older(ps[i], *best) {
			best = &ps[i]
		}
	}
	return best
}

func inheritTok(mode, parent string) string {
	if mode == "nil" || mode == "UNSET" {
		return parent
	}
	return mode
}

type levels struct {
	mesh, ns, wl             *paIn
	meshMode, nsMode, wlMode string
}

func specLevels(ps []paIn, root, ns string, labels [][2]string) levels {
	var l levels
	l.mesh = oldestOf(ps, func(p paIn) bool { return !p.hasSelector() && p.ns == root })
	if ns != root {
		l.ns = oldestOf(ps, func(p paIn) bool { return !p.hasSelector() && p.ns == ns })
		l.wl = oldestOf(ps, func(p paIn) bool { return p.hasSelector() && p.ns == ns && p.selectsLabels(labels) })
	}
	l.meshMode = "PERMISSIVE"
	if l.mesh != nil {
		l.meshMode = inheritTok(l.mesh.mtls, "PERMISSIVE")
	}
	l.nsMode = l.meshMode
	if l.ns != nil {
		l.nsMode = inheritTok(l.ns.mtls, l.meshMode)
	}
	l.wlMode = l.nsMode
	if l.wl != nil {
		l.wlMode = inheritTok(l.wl.mtls, l.nsMode)
	}
	return l
}

// effectiveMode is the property's mode of one workload port.
func effectiveMode(ps []paIn, root, ns string, labels [][2]string, port uint32) string {
	l := specLevels(ps, root, ns, labels)
	if l.wl != nil {
		for _, e := range l.wl.ports {
			if e.port == port {
				return inheritTok(e.mode, l.wlMode)
			}
		}
	}
	return l.wlMode
}
