package main

// Stream `inbound`: the REAL virtualInbound listener of a sidecar, built by the real LDS generator
// (core.NewConfigGenTest -> ConfigGen.BuildListeners), reduced to what the property observes:
// per destination port, filter_chain_match.transport_protocol / application_protocols, HTTP or TCP
// proxy, and whether the chain has a DownstreamTlsContext requiring a client certificate.
//
//	il  <ns> <labels>            -> <dst>:<tp>.<alpn>.<http>.<sock>,...   (sorted; dst "*" = no destination port)
//	ils <ns> <labels> <ingress>  -> same, for a proxy whose namespace has a Sidecar with ingress listeners
//	                                ingress: <port>:<http|tcp>:<userTLS 0|1>,...
//
// The proxy has four services: 80 HTTP, 8080 TCP, 9090 unnamed/auto (port = target port) and service
// port 81 with TARGET port 8081 (HTTP).  Ports 81, 9000 and 7777 are not target ports: 81 and 9000 are
// reached through a per-port passthrough chain when the selected workload policy has a port-level entry
// for them, 7777 always through the catch-all passthrough chains.
// sock: 0 no transport socket, 1 DownstreamTlsContext without require_client_certificate, 2 with
// require_client_certificate AND a validation context, X require_client_certificate without validation context.

import (
	"fmt"
	"os"
	"sort"
	"strconv"
	"strings"
	"sync"
	"time"

	corev3 "github.com/envoyproxy/go-control-plane/envoy/config/core/v3"
	listener "github.com/envoyproxy/go-control-plane/envoy/config/listener/v3"
	tlsv3 "github.com/envoyproxy/go-control-plane/envoy/extensions/transport_sockets/tls/v3"
	"google.golang.org/protobuf/proto"
	"istio.io/istio/pkg/wellknown"

	meshconfig "istio.io/api/mesh/v1alpha1"
	networkingapi "istio.io/api/networking/v1alpha3"
	"istio.io/istio/pilot/pkg/features"
	"istio.io/istio/pilot/pkg/model"
	"istio.io/istio/pilot/pkg/networking/core"
	authnplugin "istio.io/istio/pilot/pkg/networking/plugin/authn"
	"istio.io/istio/pkg/config"
	"istio.io/istio/pkg/config/host"
	"istio.io/istio/pkg/config/mesh"
	"istio.io/istio/pkg/config/protocol"
	"istio.io/istio/pkg/config/schema/gvk"
	"verifharness/internal/wire"
)

type failer struct {
	mu       sync.Mutex
	cleanups []func()
}

func (f *failer) Fail()                          { panic("harness: Fail") }
func (f *failer) FailNow()                       { panic("harness: FailNow") }
func (f *failer) Fatal(args ...any)              { panic(fmt.Sprint(args...)) }
func (f *failer) Fatalf(format string, a ...any) { panic(fmt.Sprintf(format, a...)) }
func (f *failer) Log(args ...any)                {}
func (f *failer) Logf(format string, a ...any)   {}
func (f *failer) TempDir() string {
	d, _ := os.MkdirTemp("", "c10")
	f.Cleanup(func() { os.RemoveAll(d) })
	return d
}
func (f *failer) Helper()          {}
func (f *failer) Skip(args ...any) {}
func (f *failer) Cleanup(fn func()) {
	f.mu.Lock()
	defer f.mu.Unlock()
	f.cleanups = append(f.cleanups, fn)
}

func (f *failer) done() {
	f.mu.Lock()
	cs := f.cleanups
	f.cleanups = nil
	f.mu.Unlock()
	for i := len(cs) - 1; i >= 0; i-- {
		cs[i]()
	}
}

type svcPort struct {
	port   int
	target int
	proto  protocol.Instance
}

var inboundSvcPorts = []svcPort{
	{80, 80, protocol.HTTP}, {8080, 8080, protocol.TCP}, {9090, 9090, protocol.Unsupported}, {81, 8081, protocol.HTTP},
	// a second, younger service on target port 8080 with another protocol: the conflict branch of chainsByPort
	{8082, 8080, protocol.HTTP},
}

// inboundDests are the destination ports the harness and the oracle look at.
var (
	inboundDestsAll = []uint32{80, 8080, 9090, 8081, 81, 9000, 7777}
	inboundDests    = inboundDestsAll
)

func inboundDestsOnly(keep map[uint32]bool) []uint32 {
	var out []uint32
	for _, d := range inboundDestsAll {
		if keep[d] {
			out = append(out, d)
		}
	}
	return out
}

type ingressIn struct {
	port    uint32
	proto   string // http | tcp | auto
	userTLS bool
	bind    bool // captureMode NONE: a listener of its own
}

func parseIngress(tok string) []ingressIn {
	var out []ingressIn
	for _, e := range wire.DecList(tok) {
		p := strings.Split(e, ":")
		if len(p) != 4 {
			continue
		}
		n, _ := strconv.ParseUint(p[0], 10, 32)
		out = append(out, ingressIn{uint32(n), p[1], p[2] == "1", p[3] == "1"})
	}
	return out
}

func sidecarConfig(ns string, ingress []ingressIn) config.Config {
	sc := &networkingapi.Sidecar{}
	for _, i := range ingress {
		proto := "TCP"
		switch {
		case i.proto == "http" && i.userTLS:
			proto = "HTTPS"
		case i.proto == "http":
			proto = "HTTP"
		case i.proto == "tcp" && i.userTLS:
			proto = "TLS"
		case i.proto == "auto":
			proto = "" // unset / unsupported protocol: sniffed
		}
		l := &networkingapi.IstioIngressListener{
			Port:            &networkingapi.SidecarPort{Number: i.port, Protocol: proto, Name: fmt.Sprintf("p%d", i.port)},
			DefaultEndpoint: fmt.Sprintf("127.0.0.1:%d", i.port),
		}
		if i.bind {
			l.CaptureMode = networkingapi.CaptureMode_NONE
		}
		if i.userTLS {
			l.Tls = &networkingapi.ServerTLSSettings{
				Mode: networkingapi.ServerTLSSettings_SIMPLE, ServerCertificate: "/etc/certs/cert.pem", PrivateKey: "/etc/certs/key.pem",
			}
		}
		sc.Ingress = append(sc.Ingress, l)
	}
	return config.Config{
		Meta: config.Meta{GroupVersionKind: gvk.Sidecar, Name: "sc", Namespace: ns},
		Spec: sc,
	}
}

func interception(none, tproxy bool) model.TrafficInterceptionMode {
	if none {
		return model.InterceptionNone
	}
	if tproxy {
		return model.InterceptionTproxy
	}
	return model.InterceptionRedirect
}

// parseSvcs: <port>:<target>:<PROTOCOL>,... (op ilr).
func parseSvcs(tok string) []svcPort {
	out := []svcPort{}
	for _, e := range wire.DecList(tok) {
		p := strings.Split(e, ":")
		if len(p) != 3 || p[2] == "none" {
			continue
		}
		a, _ := strconv.Atoi(p[0])
		b, _ := strconv.Atoi(p[1])
		out = append(out, svcPort{a, b, protocol.Parse(p[2])})
	}
	return out
}

// inboundOpts: variations of the fixture.
type inboundOpts struct {
	hbone, merge  bool
	interceptNone bool      // proxy with interception mode NONE
	protos        []string  // protocols of the services on 80, 8080, 9090, 81->8081 ("none": no such service); nil = default fixture
	tproxy        bool      // interception mode TPROXY
	unprivileged  bool      // UnprivilegedPod: cannot bind to ports below 1024
	svcs          []svcPort // op ilr: the services (non-nil), the proxy's metadata names the static listener ports
}

func (s *sut) inboundListener(ns string, labels [][2]string, ingress []ingressIn, o inboundOpts) string {
	hbone, merge := o.hbone, o.merge
	f := &failer{}
	defer f.done()
	var cfgs []config.Config
	for _, p := range s.pas {
		cfgs = append(cfgs, configOf(p))
	}
	if len(ingress) > 0 {
		// user TLS on Sidecar ingress listeners is behind a feature flag that is off by default
		features.EnableTLSOnSidecarIngress = true
		cfgs = append(cfgs, sidecarConfig(ns, ingress))
	}
	features.EnableSidecarServiceInboundListenerMerge = merge
	const ip = "10.1.1.1"
	var services []*model.Service
	var instances []*model.ServiceInstance
	fixture := inboundSvcPorts
	if o.protos != nil {
		fixture = nil
		for k, name := range o.protos {
			if name != "none" && k < 4 {
				fixture = append(fixture, svcPort{inboundSvcPorts[k].port, inboundSvcPorts[k].target, protocol.Parse(name)})
			}
		}
	}
	if o.svcs != nil {
		fixture = o.svcs
	}
	for k, sp := range fixture {
		svc := &model.Service{
			CreationTime:   time.Unix(int64(1000+k), 0),
			Hostname:       host.Name(fmt.Sprintf("svc%d%s.%s.svc.cluster.local", sp.port, map[bool]string{true: fmt.Sprintf("-%d", k)}[o.svcs != nil], ns)),
			DefaultAddress: "0.0.0.0",
			Ports:          model.PortList{{Name: "default", Port: sp.port, Protocol: sp.proto}},
			Resolution:     model.ClientSideLB,
			Attributes:     model.ServiceAttributes{Name: fmt.Sprintf("svc%d", sp.port), Namespace: ns},
		}
		services = append(services, svc)
		instances = append(instances, &model.ServiceInstance{
			Service:     svc,
			ServicePort: svc.Ports[0],
			Endpoint: &model.IstioEndpoint{
				Addresses: []string{ip}, EndpointPort: uint32(sp.target), ServicePortName: "default",
				Namespace: ns, Labels: labelsMap(labels),
			},
		})
	}
	mc := mesh.DefaultMeshConfig()
	mc.RootNamespace = s.root
	cg := core.NewConfigGenTest(f, core.TestOptions{
		Configs: cfgs, Services: services, Instances: instances, MeshConfig: mc,
	})
	lm := labelsMap(labels)
	if hbone {
		// a sidecar that also accepts HBONE (off by default)
		features.EnableSidecarHBONEListening = true
	}
	proxy := cg.SetupProxy(&model.Proxy{
		Type: model.SidecarProxy, ConfigNamespace: ns, IPAddresses: []string{ip}, Labels: lm,
		Metadata: func() *model.NodeMetadata {
			md := &model.NodeMetadata{Namespace: ns, Labels: lm, EnableHBONE: model.StringBool(hbone), InterceptionMode: interception(o.interceptNone, o.tproxy)}
			if o.unprivileged {
				md.UnprivilegedPod = "true"
			}
			if o.svcs != nil {
				// as the injected sidecar reports them: the static listeners conflictWithReservedListener protects
				md.EnvoyStatusPort, md.EnvoyPrometheusPort = 15021, 15090
			}
			return md
		}(),
	})
	var vi, terminate, inner *listener.Listener
	var custom []*listener.Listener
	for _, l := range cg.Listeners(proxy) {
		if l.TrafficDirection == corev3.TrafficDirection_INBOUND && l.Name != model.VirtualInboundListenerName &&
			l.Name != core.ConnectTerminate && l.Name != core.MainInternalName {
			custom = append(custom, l)
		}
		switch l.Name {
		case model.VirtualInboundListenerName:
			vi = l
		case core.ConnectTerminate:
			terminate = l
		case core.MainInternalName:
			inner = l
		}
	}
	if vi == nil && !o.interceptNone {
		return "no-virtual-inbound"
	}
	if vi == nil {
		vi = &listener.Listener{} // interception NONE: only listeners bound to their ports
	}
	var out []string
	for _, fc := range vi.FilterChains {
		if fc.Name == model.VirtualInboundBlackholeFilterChainName {
			// the chain that swallows traffic addressed to the listener's own port (no transport socket, no
			// transport-protocol match): reported as such, not as an application chain
			out = append(out, fmt.Sprintf("bh:%d.%s", fc.GetFilterChainMatch().GetDestinationPort().GetValue(), chainSock(fc)))
			continue
		}
		out = append(out, chainToken(fc))
	}
	// listener filters: on which of the ports we look at is the TLS inspector enabled (in the listener serving the port)
	for _, d := range inboundDests {
		l := vi
		for _, cl := range custom {
			if cl.GetAddress().GetSocketAddress().GetPortValue() == d {
				l = cl
			}
		}
		if tlsInspectorEnabled(l, d) {
			out = append(out, fmt.Sprintf("ti:%d", d))
		}
	}
	// Envoy rejects a listener in which two filter chains have the same match
	dups := dupMatches(vi)
	for _, l := range custom {
		dups += dupMatches(l)
	}
	if dups > 0 {
		out = append(out, fmt.Sprintf("dupmatch:%d", dups))
	}
	// listeners that bind to their port (Sidecar ingress captureMode NONE)
	for _, l := range custom {
		port := l.GetAddress().GetSocketAddress().GetPortValue()
		for _, fc := range l.FilterChains {
			out = append(out, fmt.Sprintf("L%d/%s", port, chainToken(fc)))
		}
	}
	sort.Strings(out)
	res := "-"
	if len(out) > 0 {
		res = strings.Join(out, ",")
	}
	if !hbone {
		return res
	}
	return res + " " + hboneView(cg, proxy, terminate, inner)
}

// hboneView: the connect_terminate listener's socket class, the real Builder.ForHBONE() (mode and socket
// class of its TCP / HTTP contexts) and the chains of the internal listener behind the tunnel.
func hboneView(cg *core.ConfigGenTest, proxy *model.Proxy, terminate, inner *listener.Listener) string {
	h := "none"
	if terminate != nil && len(terminate.FilterChains) == 1 {
		h = chainSock(terminate.FilterChains[0])
	} else if terminate != nil {
		h = "chains!"
	}
	fh := authnplugin.NewBuilder(cg.PushContext(), proxy).ForHBONE()
	f := fmt.Sprintf("%s.%s.%s", fh.Mode, sockClass(fh.TCP), sockClass(fh.HTTP))
	var out []string
	if inner != nil {
		for _, fc := range inner.FilterChains {
			m := fc.FilterChainMatch
			dst := "*"
			if m.GetDestinationPort() != nil {
				dst = fmt.Sprint(m.GetDestinationPort().GetValue())
			}
			http := "0"
			for _, fl := range fc.Filters {
				if fl.Name == wellknown.HTTPConnectionManager {
					http = "1"
				}
			}
			e := fmt.Sprintf("%s:%s.%s.%s", dst, alpnCode(m.GetApplicationProtocols()), http, chainSock(fc))
			if m.GetTransportProtocol() != "" {
				e += "!tp"
			}
			out = append(out, e)
		}
	}
	sort.Strings(out)
	i := "-"
	if len(out) > 0 {
		i = strings.Join(out, ",")
	}
	return fmt.Sprintf("H=%s F=%s I=%s", h, f, i)
}

func chainSock(fc *listener.FilterChain) string {
	ts := fc.TransportSocket
	if ts == nil {
		return "0"
	}
	ctx := &tlsv3.DownstreamTlsContext{}
	if err := ts.GetTypedConfig().UnmarshalTo(ctx); err != nil {
		return "?"
	}
	return sockClass(ctx)
}

var _ = meshconfig.MeshConfig{}

// tlsInspectorEnabled evaluates the tls_inspector listener filter and its filter_disabled predicate for a destination port.
func tlsInspectorEnabled(l *listener.Listener, port uint32) bool {
	for _, lf := range l.GetListenerFilters() {
		if lf.Name != wellknown.TLSInspector {
			continue
		}
		if lf.FilterDisabled == nil {
			return true
		}
		return !evalPredicate(lf.FilterDisabled, port)
	}
	return false
}

func evalPredicate(p *listener.ListenerFilterChainMatchPredicate, port uint32) bool {
	switch r := p.GetRule().(type) {
	case *listener.ListenerFilterChainMatchPredicate_DestinationPortRange:
		return int32(port) >= r.DestinationPortRange.Start && int32(port) < r.DestinationPortRange.End
	case *listener.ListenerFilterChainMatchPredicate_OrMatch:
		for _, q := range r.OrMatch.Rules {
			if evalPredicate(q, port) {
				return true
			}
		}
		return false
	case *listener.ListenerFilterChainMatchPredicate_AndMatch:
		for _, q := range r.AndMatch.Rules {
			if !evalPredicate(q, port) {
				return false
			}
		}
		return true
	case *listener.ListenerFilterChainMatchPredicate_NotMatch:
		return !evalPredicate(r.NotMatch, port)
	case *listener.ListenerFilterChainMatchPredicate_AnyMatch:
		return r.AnyMatch
	}
	return false
}

// dupMatches: number of filter chains of a listener whose FilterChainMatch repeats that of an earlier chain.
func dupMatches(l *listener.Listener) int {
	seen := map[string]bool{}
	n := 0
	for _, fc := range l.FilterChains {
		b, err := proto.MarshalOptions{Deterministic: true}.Marshal(fc.GetFilterChainMatch())
		if err != nil {
			continue
		}
		if seen[string(b)] {
			n++
		}
		seen[string(b)] = true
	}
	return n
}

// sockClass: what a DownstreamTlsContext demands from the peer.
func sockClass(ctx *tlsv3.DownstreamTlsContext) string {
	if ctx == nil {
		return "0"
	}
	c := ctx.GetCommonTlsContext()
	validates := c.GetCombinedValidationContext() != nil || c.GetValidationContext() != nil || c.GetValidationContextSdsSecretConfig() != nil
	switch {
	case ctx.RequireClientCertificate.GetValue() && validates:
		return "2"
	case ctx.RequireClientCertificate.GetValue():
		return "X"
	default:
		return "1"
	}
}

// inboundOracle: the property's inbound clause on the real listener, per destination port.
func (s *sut) inboundOracle(f []string, res string, fail func(clause, class, detail string)) {
	ns, labels := wire.Dec(f[1]), parseLabels(f[2])
	if f[0] == "ilh" {
		// HBONE: the tunnel listener always demands mutual TLS, ForHBONE is STRICT, nothing behind the tunnel has a socket
		if h := field(res, "H"); h != "2" {
			fail("hbone-terminate-mtls", "connect-terminate-socket-class", "H="+h)
		}
		if fh := field(res, "F"); fh != "STRICT.2.2" {
			fail("hbone-terminate-mtls", "ForHBONE-not-strict", "F="+fh)
		}
		for _, e := range strings.Split(field(res, "I"), ",") {
			if e != "-" && !strings.HasSuffix(e, ".0") {
				fail("hbone-terminate-mtls", "inner-chain-with-socket", e)
			}
		}
		res = strings.Fields(res)[0]
	}
	userTLS := map[uint32]bool{}
	targets := map[uint32]bool{}
	if f[0] == "ils" {
		for _, i := range parseIngress(f[3]) {
			if !targets[i.port] {
				userTLS[i.port] = i.userTLS
			}
			targets[i.port] = true
		}
	} else if f[0] == "ilr" {
		for _, sp := range parseSvcs(f[3]) {
			targets[uint32(sp.target)] = true
		}
	} else if f[0] == "ilp" {
		for k, name := range strings.Split(f[3], ":") {
			if name != "none" && k < 4 {
				targets[uint32(inboundSvcPorts[k].target)] = true
			}
		}
	} else {
		for _, sp := range inboundSvcPorts {
			targets[uint32(sp.target)] = true
		}
	}
	if f[0] == "ils" && len(f) >= 6 && f[5] == "1" {
		// interception NONE: only the ingress ports have a listener; the other ports are not proxied at all
		// (an unprivileged proxy cannot listen on ports below 1024 either: nothing to judge there)
		if len(f) == 7 && f[6] == "1" {
			for p := range targets {
				if p < 1024 {
					delete(targets, p)
				}
			}
		}
		keep := inboundDestsOnly(targets)
		defer func() { inboundDests = inboundDestsAll }()
		inboundDests = keep
	}
	type ch struct{ tp, sock, alpn, http string }
	byDst := map[string][]ch{}
	ownListener := map[string][]ch{}
	tlsInspector := map[string]bool{}
	if res != "-" {
		for _, e := range strings.Split(res, ",") {
			if strings.HasPrefix(e, "bh:") {
				continue
			}
			if strings.HasPrefix(e, "ti:") {
				tlsInspector[e[3:]] = true
				continue
			}
			if strings.HasPrefix(e, "dupmatch:") {
				class := "other"
				if f[0] == "ils" && f[4] == "1" {
					class = "merge-per-port-passthrough-repeats-service-port-chains"
				}
				fail("inbound-chain-match-unique", class, res)
				return
			}
			if strings.HasPrefix(e, "L") {
				// a listener of its own on that port: connections to the port arrive there, not at virtualInbound
				lp, rest, _ := strings.Cut(e[1:], "/")
				d2, r2, _ := strings.Cut(rest, ":")
				p := strings.Split(r2, ".")
				if d2 != lp || len(p) != 4 {
					fail("inbound-enforces", "custom-listener-chain-shape", e)
					return
				}
				ownListener[lp] = append(ownListener[lp], ch{p[0], p[3], p[1], p[2]})
				continue
			}
			dst, rest, _ := strings.Cut(e, ":")
			p := strings.Split(rest, ".")
			if len(p) != 4 {
				fail("inbound-enforces", "unparsable-chain", e)
				return
			}
			byDst[dst] = append(byDst[dst], ch{p[0], p[3], p[1], p[2]})
		}
	}
	for _, d := range inboundDests {
		cs := ownListener[fmt.Sprint(d)]
		if len(cs) == 0 {
			cs = byDst[fmt.Sprint(d)]
		}
		if len(cs) == 0 {
			cs = byDst["*"]
		}
		plaintext, mtls, oneWay, passTLS := false, false, false, false
		for _, c := range cs {
			switch {
			case c.tp == "0":
				plaintext = true
			case c.tp == "1" && c.sock == "2":
				mtls = true
			case c.tp == "1" && c.sock == "0":
				passTLS = true
			}
			if c.sock == "1" || c.sock == "?" || c.sock == "X" || c.tp == "?" {
				oneWay = true
			}
		}
		want := effectiveMode(s.pas, s.root, ns, labels, d)
		kind := "non-target-port"
		if targets[d] {
			kind = "target-port"
		}
		stat("judged.inbound." + f[0] + "." + want + "." + kind)
		if len(ownListener[fmt.Sprint(d)]) > 0 {
			stat("judged.inbound.custom-listener." + want)
		}
		if userTLS[d] && want == "DISABLE" {
			// Sidecar ingress listener with its own TLS settings under DISABLE: the user's TLS is terminated
			// (exactly one tls chain, no client certificate required, nothing else)
			if len(cs) != 1 || cs[0].tp != "1" || cs[0].sock != "1" {
				fail("inbound-enforces", "user-tls-chain-shape", fmt.Sprintf("port %d chains %s", d, res))
			}
			continue
		}
		// without the TLS inspector every connection is "raw_buffer": it must be on exactly where some chain matches tls
		needTI := false
		for _, c := range cs {
			needTI = needTI || c.tp == "1"
		}
		if tlsInspector[fmt.Sprint(d)] != needTI {
			fail("inbound-enforces", "tls-inspector-enablement:"+kind, fmt.Sprintf("port %d mode %s inspector %v chains-match-tls %v %s", d, want, tlsInspector[fmt.Sprint(d)], needTI, res))
		}
		// per client kind: which chains Envoy selects (transport protocol, then application protocols)
		var sel []selChain
		bad := false
		for _, c := range cs {
			alpn, known := alpnOfCode[c.alpn]
			if !known {
				fail("inbound-enforces", "unknown-application-protocol-list", fmt.Sprintf("port %d %s", d, c.alpn))
				bad = true
			}
			sel = append(sel, selChain{tls: c.tp == "1", alpn: alpn, sock: c.sock, http: c.http == "1", label: c.tp + "." + c.alpn + "." + c.sock})
		}
		if !bad {
			stat("judged.inbound.clients." + want + "." + kind) // all client kinds of table.go, per destination port
		}
		if j := judgeClients(sel, want); !bad && j != "" {
			g := strings.SplitN(j, " ", 2)
			fail("inbound-enforces", g[0]+":"+kind, fmt.Sprintf("port %d mode %s %s chains %s", d, want, g[1], res))
		}
		switch {
		case oneWay:
			fail("inbound-enforces", "tls-terminated-without-client-certificate", fmt.Sprintf("port %d %s", d, res))
		case want == "STRICT" && (plaintext || passTLS || !mtls):
			fail("inbound-enforces", "strict-admits-non-mtls:"+kind, fmt.Sprintf("port %d mode %s chains %s", d, want, res))
		case want == "DISABLE" && (mtls || !plaintext):
			fail("inbound-enforces", "disable-terminates-tls:"+kind, fmt.Sprintf("port %d mode %s chains %s", d, want, res))
		case want == "PERMISSIVE" && !(plaintext && mtls):
			fail("inbound-enforces", "permissive-not-both:"+kind, fmt.Sprintf("port %d mode %s chains %s", d, want, res))
		}
	}
}
