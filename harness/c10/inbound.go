package main

// Stream `inbound`: the REAL virtualInbound listener of a sidecar, built by the real LDS generator
// (core.NewConfigGenTest -> ConfigGen.BuildListeners), reduced to what the property observes:
// per destination port, filter_chain_match.transport_protocol / application_protocols, HTTP or TCP
// proxy, and whether the chain has a DownstreamTlsContext requiring a client certificate.
//
//	il <ns> <labels>     -> <dst>:<tp>.<term>.<http>.<alpn>.<sock>,...   (sorted; dst "*" = no destination port)
//
// The proxy has three services: port 80 HTTP, 8080 TCP, 9090 unnamed/auto.  Ports 9000 and 7777 are
// not service ports: 9000 is reached through a per-port passthrough chain when the selected workload
// policy has a port-level entry for it, 7777 always through the catch-all passthrough chains.

import (
	"fmt"
	"os"
	"sort"
	"strings"
	"sync"

	listener "github.com/envoyproxy/go-control-plane/envoy/config/listener/v3"
	tlsv3 "github.com/envoyproxy/go-control-plane/envoy/extensions/transport_sockets/tls/v3"
	"istio.io/istio/pkg/wellknown"

	meshconfig "istio.io/api/mesh/v1alpha1"
	"istio.io/istio/pilot/pkg/model"
	"istio.io/istio/pilot/pkg/networking/core"
	xdsfilters "istio.io/istio/pilot/pkg/xds/filters"
	"istio.io/istio/pkg/config"
	"istio.io/istio/pkg/config/host"
	"istio.io/istio/pkg/config/mesh"
	"istio.io/istio/pkg/config/protocol"
	"verifharness/internal/wire"
)

type failer struct {
	mu       sync.Mutex
	cleanups []func()
}

func (f *failer) Fail()                          { panic("harness: Fail") }
func (f *failer) FailNow()                       { panic("harness: FailNow") }
func (f *failer) Fatal(args ...any)              { panic(fmt.Sprint(args...)) }
func (f *failer) Fatalf(format string, a ...any) { panic(fmt.Sprintf(format, a...)) }
func (f *failer) Log(args ...any)                {}
func (f *failer) Logf(format string, a ...any)   {}
func (f *failer) TempDir() string                { d, _ := os.MkdirTemp("", "c10"); return d }
func (f *failer) Helper()                        {}
func (f *failer) Skip(args ...any)               {}
func (f *failer) Cleanup(fn func()) {
	f.mu.Lock()
	defer f.mu.Unlock()
	f.cleanups = append(f.cleanups, fn)
}

func (f *failer) done() {
	f.mu.Lock()
	cs := f.cleanups
	f.cleanups = nil
	f.mu.Unlock()
	for i := len(cs) - 1; i >= 0; i-- {
		cs[i]()
	}
}

type svcPort struct {
	port  int
	proto protocol.Instance
}

var inboundSvcPorts = []svcPort{{80, protocol.HTTP}, {8080, protocol.TCP}, {9090, protocol.Unsupported}}

func (s *sut) inboundListener(ns string, labels [][2]string) string {
	f := &failer{}
	defer f.done()
	var cfgs []config.Config
	for _, p := range s.pas {
		cfgs = append(cfgs, configOf(p))
	}
	const ip = "10.1.1.1"
	var services []*model.Service
	var instances []*model.ServiceInstance
	for _, sp := range inboundSvcPorts {
		svc := &model.Service{
			Hostname:       host.Name(fmt.Sprintf("svc%d.%s.svc.cluster.local", sp.port, ns)),
			DefaultAddress: "0.0.0.0",
			Ports:          model.PortList{{Name: "default", Port: sp.port, Protocol: sp.proto}},
			Resolution:     model.ClientSideLB,
			Attributes:     model.ServiceAttributes{Name: fmt.Sprintf("svc%d", sp.port), Namespace: ns},
		}
		services = append(services, svc)
		instances = append(instances, &model.ServiceInstance{
			Service:     svc,
			ServicePort: svc.Ports[0],
			Endpoint: &model.IstioEndpoint{
				Addresses: []string{ip}, EndpointPort: uint32(sp.port), ServicePortName: "default",
				Namespace: ns, Labels: labelsMap(labels),
			},
		})
	}
	mc := mesh.DefaultMeshConfig()
	mc.RootNamespace = s.root
	cg := core.NewConfigGenTest(f, core.TestOptions{
		Configs: cfgs, Services: services, Instances: instances, MeshConfig: mc,
	})
	lm := labelsMap(labels)
	proxy := cg.SetupProxy(&model.Proxy{
		Type: model.SidecarProxy, ConfigNamespace: ns, IPAddresses: []string{ip}, Labels: lm,
		Metadata: &model.NodeMetadata{Namespace: ns, Labels: lm},
	})
	var vi *listener.Listener
	for _, l := range cg.Listeners(proxy) {
		if l.Name == model.VirtualInboundListenerName {
			vi = l
		}
	}
	if vi == nil {
		return "no-virtual-inbound"
	}
	var out []string
	for _, fc := range vi.FilterChains {
		if fc.Name == model.VirtualInboundBlackholeFilterChainName {
			continue
		}
		m := fc.FilterChainMatch
		dst := "*"
		if m.GetDestinationPort() != nil {
			dst = fmt.Sprint(m.GetDestinationPort().GetValue())
		}
		tp := "?"
		switch m.GetTransportProtocol() {
		case xdsfilters.TLSTransportProtocol:
			tp = "1"
		case xdsfilters.RawBufferTransportProtocol:
			tp = "0"
		}
		http := "0"
		for _, fl := range fc.Filters {
			if fl.Name == wellknown.HTTPConnectionManager {
				http = "1"
			}
		}
		sock := "0"
		if ts := fc.TransportSocket; ts != nil {
			sock = "1"
			ctx := &tlsv3.DownstreamTlsContext{}
			if err := ts.GetTypedConfig().UnmarshalTo(ctx); err != nil {
				sock = "?"
			} else if ctx.RequireClientCertificate.GetValue() {
				sock = "2"
			}
		}
		out = append(out, fmt.Sprintf("%s:%s.%d.%s", dst, tp, alpnClass(m.GetApplicationProtocols()), http+"."+sock))
	}
	sort.Strings(out)
	if len(out) == 0 {
		return "-"
	}
	return strings.Join(out, ",")
}

var _ = meshconfig.MeshConfig{}

// inboundOracle: the property's inbound clause on the real listener, per destination port.
func (s *sut) inboundOracle(f []string, res string, fail func(clause, class, detail string)) {
	ns, labels := wire.Dec(f[1]), parseLabels(f[2])
	type ch struct{ tp, sock string }
	byDst := map[string][]ch{}
	if res != "-" {
		for _, e := range strings.Split(res, ",") {
			dst, rest, _ := strings.Cut(e, ":")
			p := strings.Split(rest, ".")
			if len(p) != 4 {
				fail("inbound-enforces", "unparsable-chain", e)
				return
			}
			byDst[dst] = append(byDst[dst], ch{p[0], p[3]})
		}
	}
	for _, d := range []uint32{80, 8080, 9090, 9000, 7777} {
		cs := byDst[fmt.Sprint(d)]
		if len(cs) == 0 {
			cs = byDst["*"]
		}
		plaintext, mtls, oneWay, passTLS := false, false, false, false
		for _, c := range cs {
			switch {
			case c.tp == "0":
				plaintext = true
			case c.tp == "1" && c.sock == "2":
				mtls = true
			case c.tp == "1" && c.sock == "0":
				passTLS = true
			}
			if c.sock == "1" || c.sock == "?" || c.tp == "?" {
				oneWay = true
			}
		}
		want := effectiveMode(s.pas, s.root, ns, labels, d)
		kind := "service-port"
		if d == 9000 || d == 7777 {
			kind = "non-service-port"
		}
		switch {
		case oneWay:
			fail("inbound-enforces", "tls-terminated-without-client-certificate", fmt.Sprintf("port %d %s", d, res))
		case want == "STRICT" && (plaintext || passTLS || !mtls):
			fail("inbound-enforces", "strict-admits-non-mtls:"+kind, fmt.Sprintf("port %d mode %s chains %s", d, want, res))
		case want == "DISABLE" && (mtls || !plaintext):
			fail("inbound-enforces", "disable-terminates-tls:"+kind, fmt.Sprintf("port %d mode %s chains %s", d, want, res))
		case want == "PERMISSIVE" && !(plaintext && mtls):
			fail("inbound-enforces", "permissive-not-both:"+kind, fmt.Sprintf("port %d mode %s chains %s", d, want, res))
		}
	}
}
