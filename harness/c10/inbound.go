package main

// Stream `inbound`: the REAL virtualInbound listener of a sidecar, built by the real LDS generator
// (core.NewConfigGenTest -> ConfigGen.BuildListeners), reduced to what the property observes:
// per destination port, filter_chain_match.transport_protocol / application_protocols, HTTP or TCP
// proxy, and whether the chain has a DownstreamTlsContext requiring a client certificate.
//
//	il  <ns> <labels>            -> <dst>:<tp>.<alpn>.<http>.<sock>,...   (sorted; dst "*" = no destination port)
//	ils <ns> <labels> <ingress>  -> same, for a proxy whose namespace has a Sidecar with ingress listeners
//	                                ingress: <port>:<http|tcp>:<userTLS 0|1>,...
//
// The proxy has four services: 80 HTTP, 8080 TCP, 9090 unnamed/auto (port = target port) and service
// port 81 with TARGET port 8081 (HTTP).  Ports 81, 9000 and 7777 are not target ports: 81 and 9000 are
// reached through a per-port passthrough chain when the selected workload policy has a port-level entry
// for them, 7777 always through the catch-all passthrough chains.
// sock: 0 no transport socket, 1 DownstreamTlsContext without require_client_certificate, 2 with
// require_client_certificate AND a validation context, X require_client_certificate without validation context.

import (
	"fmt"
	"os"
	"sort"
	"strconv"
	"strings"
	"sync"

	listener "github.com/envoyproxy/go-control-plane/envoy/config/listener/v3"
	tlsv3 "github.com/envoyproxy/go-control-plane/envoy/extensions/transport_sockets/tls/v3"
	"istio.io/istio/pkg/wellknown"

	meshconfig "istio.io/api/mesh/v1alpha1"
	networkingapi "istio.io/api/networking/v1alpha3"
	"istio.io/istio/pilot/pkg/features"
	"istio.io/istio/pilot/pkg/model"
	"istio.io/istio/pilot/pkg/networking/core"
	xdsfilters "istio.io/istio/pilot/pkg/xds/filters"
	"istio.io/istio/pkg/config"
	"istio.io/istio/pkg/config/host"
	"istio.io/istio/pkg/config/mesh"
	"istio.io/istio/pkg/config/protocol"
	"istio.io/istio/pkg/config/schema/gvk"
	"verifharness/internal/wire"
)

type failer struct {
	mu       sync.Mutex
	cleanups []func()
}

func (f *failer) Fail()                          { panic("harness: Fail") }
func (f *failer) FailNow()                       { panic("harness: FailNow") }
func (f *failer) Fatal(args ...any)              { panic(fmt.Sprint(args...)) }
func (f *failer) Fatalf(format string, a ...any) { panic(fmt.Sprintf(format, a...)) }
func (f *failer) Log(args ...any)                {}
func (f *failer) Logf(format string, a ...any)   {}
func (f *failer) TempDir() string {
	d, _ := os.MkdirTemp("", "c10")
	f.Cleanup(func() { os.RemoveAll(d) })
	return d
}
func (f *failer) Helper()          {}
func (f *failer) Skip(args ...any) {}
func (f *failer) Cleanup(fn func()) {
	f.mu.Lock()
	defer f.mu.Unlock()
	f.cleanups = append(f.cleanups, fn)
}

func (f *failer) done() {
	f.mu.Lock()
	cs := f.cleanups
	f.cleanups = nil
	f.mu.Unlock()
	for i := len(cs) - 1; i >= 0; i-- {
		cs[i]()
	}
}

type svcPort struct {
	port   int
	target int
	proto  protocol.Instance
}

var inboundSvcPorts = []svcPort{{80, 80, protocol.HTTP}, {8080, 8080, protocol.TCP}, {9090, 9090, protocol.Unsupported}, {81, 8081, protocol.HTTP}}

// inboundDests are the destination ports the oracle looks at.
var inboundDests = []uint32{80, 8080, 9090, 8081, 81, 9000, 7777}

type ingressIn struct {
	port    uint32
	http    bool
	userTLS bool
}

func parseIngress(tok string) []ingressIn {
	var out []ingressIn
	for _, e := range wire.DecList(tok) {
		p := strings.Split(e, ":")
		if len(p) != 3 {
			continue
		}
		n, _ := strconv.ParseUint(p[0], 10, 32)
		out = append(out, ingressIn{uint32(n), p[1] == "http", p[2] == "1"})
	}
	return out
}

func sidecarConfig(ns string, ingress []ingressIn) config.Config {
	sc := &networkingapi.Sidecar{}
	for _, i := range ingress {
		proto := "TCP"
		switch {
		case i.http && i.userTLS:
			proto = "HTTPS"
		case i.http:
			proto = "HTTP"
		case i.userTLS:
			proto = "TLS"
		}
		l := &networkingapi.IstioIngressListener{
			Port:            &networkingapi.SidecarPort{Number: i.port, Protocol: proto, Name: fmt.Sprintf("p%d", i.port)},
			DefaultEndpoint: fmt.Sprintf("127.0.0.1:%d", i.port),
		}
		if i.userTLS {
			l.Tls = &networkingapi.ServerTLSSettings{
				Mode: networkingapi.ServerTLSSettings_SIMPLE, ServerCertificate: "/etc/certs/cert.pem", PrivateKey: "/etc/certs/key.pem",
			}
		}
		sc.Ingress = append(sc.Ingress, l)
	}
	return config.Config{
		Meta: config.Meta{GroupVersionKind: gvk.Sidecar, Name: "sc", Namespace: ns},
		Spec: sc,
	}
}

func (s *sut) inboundListener(ns string, labels [][2]string, ingress []ingressIn) string {
	f := &failer{}
	defer f.done()
	var cfgs []config.Config
	for _, p := range s.pas {
		cfgs = append(cfgs, configOf(p))
	}
	if len(ingress) > 0 {
		// user TLS on Sidecar ingress listeners is behind a feature flag that is off by default
		features.EnableTLSOnSidecarIngress = true
		cfgs = append(cfgs, sidecarConfig(ns, ingress))
	}
	const ip = "10.1.1.1"
	var services []*model.Service
	var instances []*model.ServiceInstance
	for _, sp := range inboundSvcPorts {
		svc := &model.Service{
			Hostname:       host.Name(fmt.Sprintf("svc%d.%s.svc.cluster.local", sp.port, ns)),
			DefaultAddress: "0.0.0.0",
			Ports:          model.PortList{{Name: "default", Port: sp.port, Protocol: sp.proto}},
			Resolution:     model.ClientSideLB,
			Attributes:     model.ServiceAttributes{Name: fmt.Sprintf("svc%d", sp.port), Namespace: ns},
		}
		services = append(services, svc)
		instances = append(instances, &model.ServiceInstance{
			Service:     svc,
			ServicePort: svc.Ports[0],
			Endpoint: &model.IstioEndpoint{
				Addresses: []string{ip}, EndpointPort: uint32(sp.target), ServicePortName: "default",
				Namespace: ns, Labels: labelsMap(labels),
			},
		})
	}
	mc := mesh.DefaultMeshConfig()
	mc.RootNamespace = s.root
	cg := core.NewConfigGenTest(f, core.TestOptions{
		Configs: cfgs, Services: services, Instances: instances, MeshConfig: mc,
	})
	lm := labelsMap(labels)
	proxy := cg.SetupProxy(&model.Proxy{
		Type: model.SidecarProxy, ConfigNamespace: ns, IPAddresses: []string{ip}, Labels: lm,
		Metadata: &model.NodeMetadata{Namespace: ns, Labels: lm},
	})
	var vi *listener.Listener
	for _, l := range cg.Listeners(proxy) {
		if l.Name == model.VirtualInboundListenerName {
			vi = l
		}
	}
	if vi == nil {
		return "no-virtual-inbound"
	}
	var out []string
	for _, fc := range vi.FilterChains {
		if fc.Name == model.VirtualInboundBlackholeFilterChainName {
			continue
		}
		m := fc.FilterChainMatch
		dst := "*"
		if m.GetDestinationPort() != nil {
			dst = fmt.Sprint(m.GetDestinationPort().GetValue())
		}
		tp := "?"
		switch m.GetTransportProtocol() {
		case xdsfilters.TLSTransportProtocol:
			tp = "1"
		case xdsfilters.RawBufferTransportProtocol:
			tp = "0"
		}
		http := "0"
		for _, fl := range fc.Filters {
			if fl.Name == wellknown.HTTPConnectionManager {
				http = "1"
			}
		}
		sock := "0"
		if ts := fc.TransportSocket; ts != nil {
			ctx := &tlsv3.DownstreamTlsContext{}
			if err := ts.GetTypedConfig().UnmarshalTo(ctx); err != nil {
				sock = "?"
			} else {
				sock = sockClass(ctx)
			}
		}
		out = append(out, fmt.Sprintf("%s:%s.%d.%s", dst, tp, alpnClass(m.GetApplicationProtocols()), http+"."+sock))
	}
	sort.Strings(out)
	if len(out) == 0 {
		return "-"
	}
	return strings.Join(out, ",")
}

var _ = meshconfig.MeshConfig{}

// sockClass: what a DownstreamTlsContext demands from the peer.
func sockClass(ctx *tlsv3.DownstreamTlsContext) string {
	if ctx == nil {
		return "0"
	}
	c := ctx.GetCommonTlsContext()
	validates := c.GetCombinedValidationContext() != nil || c.GetValidationContext() != nil || c.GetValidationContextSdsSecretConfig() != nil
	switch {
	case ctx.RequireClientCertificate.GetValue() && validates:
		return "2"
	case ctx.RequireClientCertificate.GetValue():
		return "X"
	default:
		return "1"
	}
}

// inboundOracle: the property's inbound clause on the real listener, per destination port.
func (s *sut) inboundOracle(f []string, res string, fail func(clause, class, detail string)) {
	ns, labels := wire.Dec(f[1]), parseLabels(f[2])
	userTLS := map[uint32]bool{}
	targets := map[uint32]bool{}
	if f[0] == "ils" {
		for _, i := range parseIngress(f[3]) {
			userTLS[i.port] = i.userTLS
			targets[i.port] = true
		}
	} else {
		for _, sp := range inboundSvcPorts {
			targets[uint32(sp.target)] = true
		}
	}
	type ch struct{ tp, sock string }
	byDst := map[string][]ch{}
	if res != "-" {
		for _, e := range strings.Split(res, ",") {
			dst, rest, _ := strings.Cut(e, ":")
			p := strings.Split(rest, ".")
			if len(p) != 4 {
				fail("inbound-enforces", "unparsable-chain", e)
				return
			}
			byDst[dst] = append(byDst[dst], ch{p[0], p[3]})
		}
	}
	for _, d := range inboundDests {
		cs := byDst[fmt.Sprint(d)]
		if len(cs) == 0 {
			cs = byDst["*"]
		}
		plaintext, mtls, oneWay, passTLS := false, false, false, false
		for _, c := range cs {
			switch {
			case c.tp == "0":
				plaintext = true
			case c.tp == "1" && c.sock == "2":
				mtls = true
			case c.tp == "1" && c.sock == "0":
				passTLS = true
			}
			if c.sock == "1" || c.sock == "?" || c.sock == "X" || c.tp == "?" {
				oneWay = true
			}
		}
		want := effectiveMode(s.pas, s.root, ns, labels, d)
		kind := "non-target-port"
		if targets[d] {
			kind = "target-port"
		}
		if userTLS[d] && want == "DISABLE" {
			// Sidecar ingress listener with its own TLS settings under DISABLE: the user's TLS is terminated
			// (exactly one tls chain, no client certificate required, nothing else)
			if len(cs) != 1 || cs[0].tp != "1" || cs[0].sock != "1" {
				fail("inbound-enforces", "user-tls-chain-shape", fmt.Sprintf("port %d chains %s", d, res))
			}
			continue
		}
		switch {
		case oneWay:
			fail("inbound-enforces", "tls-terminated-without-client-certificate", fmt.Sprintf("port %d %s", d, res))
		case want == "STRICT" && (plaintext || passTLS || !mtls):
			fail("inbound-enforces", "strict-admits-non-mtls:"+kind, fmt.Sprintf("port %d mode %s chains %s", d, want, res))
		case want == "DISABLE" && (mtls || !plaintext):
			fail("inbound-enforces", "disable-terminates-tls:"+kind, fmt.Sprintf("port %d mode %s chains %s", d, want, res))
		case want == "PERMISSIVE" && !(plaintext && mtls):
			fail("inbound-enforces", "permissive-not-both:"+kind, fmt.Sprintf("port %d mode %s chains %s", d, want, res))
		}
	}
}
