// Harness for C10: drives the real PeerAuthentication precedence code of /repo.
//
//	c10 gen    <stream> <seed> <ncases> <ops-out>
//	c10 exec   <stream> <ops-in> <impl-out>
//	c10 oracle <stream> <ops-in> <verdict-out>
//	c10 table  chains <out.lean>
//
// Streams: compose (sidecar/xDS resolvers + client side), ambient (ztunnel policy conversion),
// inbound (the real virtualInbound listener).
// The Lean driver (lean/IstioModel/C10/Driver.lean) consumes the same ops file; outputs are
// compared line by line.
//
// Line protocol (tokens are wire-encoded):
//
//	case <n> <stream> <rootNs>
//	pa <name> <ns> <time> <selector> <mtls> <ports>      -> ok
//	     selector: nil | - (present, no labels) | k=v,k=v     mtls: nil|UNSET|DISABLE|PERMISSIVE|STRICT
//	     ports: - | 80:STRICT,8080:nil,...
//	pu <i> <mtls> <ports>                                -> ok   (spec edit of pas[i]; bumps its ResourceVersion)
//	q <ns> <labels> <svcNs> <ports>                      -> M=.. PP=.. Q=.. NS=.. G=.. BE=.. CFG=..
//	chk <ns> <labels> <port> <epTLS 0|1> <dr> <clientNs> <importedNs> <waypoint 0|1>
//	                                                     -> 0|1 BE=.. NS=..   (on the client's filtered view) dr: nil|DISABLE|SIMPLE|MUTUAL|ISTIO_MUTUAL
//	cv <i> <j|-> <k|->                                   -> convertPeerAuthentication(pas[i], pas[j], pas[k]) (direct)
//	ks <i,j,...>                                         -> convertedSelectorPeerAuthentications([pas[i],...]) (direct)
//	go <i,j,...>                                         -> getOldestPeerAuthn([pas[i],...]) (direct)
//	il <ns> <labels>                                     -> chains of the real virtualInbound listener (inbound.go)
//	aw <pod|we|se> <ns> <labels> <metaLabels>            -> K=..   (real ambient index on a fake kube client, ambient_index.go)
//	aq <ns> <labels> <ports>                             -> K=.. P=.. D=..   (ambient, see ambient.go)
package main

import (
	"fmt"
	"os"
	"sort"
	"strconv"
	"strings"

	_ "verifharness/internal/quiet"
	"verifharness/internal/wire"
)

func main() {
	if len(os.Args) < 2 {
		fmt.Fprintln(os.Stderr, "usage: c10 gen|exec|oracle|table ...")
		os.Exit(2)
	}
	switch os.Args[1] {
	case "gen":
		seed, _ := strconv.ParseUint(os.Args[3], 10, 64)
		n, _ := strconv.Atoi(os.Args[4])
		gen(os.Args[2], seed, n, os.Args[5])
	case "exec":
		execOps(os.Args[2], os.Args[3], os.Args[4])
	case "oracle":
		oracle(os.Args[2], os.Args[3], os.Args[4])
	case "table":
		table(os.Args[2], os.Args[3])
	default:
		os.Exit(2)
	}
}

// ---------------------------------------------------------------- parsed inputs (plain data)

// mode tokens; "nil" is a nil *PeerAuthentication_MutualTLS.
var modeToks = []string{"nil", "UNSET", "DISABLE", "PERMISSIVE", "STRICT"}

type portMode struct {
	port uint32
	mode string
}

// paIn is one PeerAuthentication as written in the ops file.
type paIn struct {
	name, ns string
	time     int64
	selNil   bool
	sel      [][2]string
	mtls     string
	ports    []portMode
	rv       int // ResourceVersion (bumped by the pu op)
}

func parseLabels(tok string) [][2]string {
	var out [][2]string
	for _, kv := range wire.DecList(tok) {
		k, v, _ := strings.Cut(kv, "=")
		out = append(out, [2]string{k, v})
	}
	return out
}

func labelsMap(l [][2]string) map[string]string {
	if l == nil {
		return nil
	}
	m := map[string]string{}
	for _, kv := range l {
		m[kv[0]] = kv[1]
	}
	return m
}

func parsePorts(tok string) []portMode {
	var out []portMode
	for _, e := range wire.DecList(tok) {
		p, m, _ := strings.Cut(e, ":")
		n, _ := strconv.ParseUint(p, 10, 32)
		out = append(out, portMode{uint32(n), m})
	}
	return out
}

func parsePA(f []string) paIn {
	t, _ := strconv.ParseInt(f[3], 10, 64)
	p := paIn{name: wire.Dec(f[1]), ns: wire.Dec(f[2]), time: t, mtls: f[5], ports: parsePorts(f[6]), rv: 1}
	if f[4] == "nil" {
		p.selNil = true
	} else {
		p.sel = parseLabels(f[4])
	}
	return p
}

func parsePortList(tok string) []uint32 {
	var out []uint32
	for _, e := range wire.DecList(tok) {
		n, _ := strconv.ParseUint(e, 10, 32)
		out = append(out, uint32(n))
	}
	return out
}

func encLabels(l [][2]string) string {
	if len(l) == 0 {
		return "-"
	}
	parts := make([]string, len(l))
	for i, kv := range l {
		parts[i] = kv[0] + "=" + kv[1]
	}
	return wire.EncList(parts)
}

func encPorts(l []portMode) string {
	if len(l) == 0 {
		return "-"
	}
	parts := make([]string, len(l))
	for i, e := range l {
		parts[i] = fmt.Sprintf("%d:%s", e.port, e.mode)
	}
	return wire.EncList(parts)
}

func encPortList(l []uint32) string {
	if len(l) == 0 {
		return "-"
	}
	parts := make([]string, len(l))
	for i, e := range l {
		parts[i] = strconv.FormatUint(uint64(e), 10)
	}
	return wire.EncList(parts)
}

func (p paIn) line() []string {
	sel := "nil"
	if !p.selNil {
		sel = encLabels(p.sel)
	}
	return []string{"pa", wire.Enc(p.name), wire.Enc(p.ns), strconv.FormatInt(p.time, 10), sel, p.mtls, encPorts(p.ports)}
}

// ---------------------------------------------------------------- exec

func execOps(stream, in, outp string) {
	out := wire.Create(outp)
	defer out.Close()
	s := newSUT("istio-system")
	defer s.closeLive()
	for _, f := range wire.ReadLines(in) {
		out.Line(s.apply(f))
		out.Flush()
	}
}

func (s *sut) closeLive() {
	if s.live != nil {
		s.live.close()
		s.live = nil
	}
	if s.liveAmb != nil {
		s.liveAmb.close()
		s.liveAmb = nil
	}
}

// apply runs one op against the real code; panics are reported as "crash".
func (s *sut) apply(f []string) (out string) {
	defer func() {
		if r := recover(); r != nil {
			if os.Getenv("VERIF_DEBUG") != "" {
				fmt.Fprintln(os.Stderr, "panic:", r)
			}
			out = "crash"
		}
	}()
	switch f[0] {
	case "case":
		root := "istio-system"
		if len(f) > 3 {
			root = wire.Dec(f[3])
		}
		s.closeLive()
		*s = *newSUT(root)
		return "ok"
	case "pa":
		if len(f) != 7 {
			return "bad-op"
		}
		s.add(parsePA(f))
		if s.live != nil {
			s.live.edit("create", s.pas[len(s.pas)-1])
		}
		if s.liveAmb != nil {
			s.liveAmb.edit("create", s.pas[len(s.pas)-1])
		}
		return "ok"
	case "pd":
		// delete the i-th policy of the case (the later ones move up)
		if len(f) != 2 {
			return "bad-op"
		}
		i, _ := strconv.Atoi(f[1])
		if i >= 0 && i < len(s.pas) {
			p := s.pas[i]
			s.pas = append(append([]paIn(nil), s.pas[:i]...), s.pas[i+1:]...)
			s.ap, s.av = nil, nil
			if s.live != nil {
				s.live.edit("delete", p)
			}
			if s.liveAmb != nil {
				s.liveAmb.edit("delete", p)
			}
		}
		return "ok"
	case "hc":
		if len(f) != 6 {
			return "bad-op"
		}
		p, _ := strconv.ParseUint(f[5], 10, 32)
		return s.historyE2E(wire.Dec(f[1]), parseLabels(f[2]), wire.Dec(f[3]), f[4], uint32(p))
	case "pu":
		if len(f) != 4 {
			return "bad-op"
		}
		i, _ := strconv.Atoi(f[1])
		if i >= 0 && i < len(s.pas) {
			s.pas[i].mtls, s.pas[i].ports = f[2], parsePorts(f[3])
			s.pas[i].rv++
			s.ap, s.av = nil, nil
			if s.live != nil {
				s.live.edit("update", s.pas[i])
			}
			if s.liveAmb != nil {
				s.liveAmb.edit("update", s.pas[i])
			}
		}
		return "ok"
	case "q":
		if len(f) != 5 {
			return "bad-op"
		}
		return s.query(wire.Dec(f[1]), parseLabels(f[2]), wire.DecList(f[3]), parsePortList(f[4]))
	case "chk":
		if len(f) != 9 {
			return "bad-op"
		}
		p, _ := strconv.ParseUint(f[3], 10, 32)
		return s.check(wire.Dec(f[1]), parseLabels(f[2]), uint32(p), f[4] == "1", f[5], wire.Dec(f[6]), wire.DecList(f[7]), f[8] == "1")
	case "cv":
		if len(f) != 4 {
			return "bad-op"
		}
		return s.directConvert(f[1], f[2], f[3])
	case "ks":
		if len(f) != 2 {
			return "bad-op"
		}
		return s.directKeys(wire.DecList(f[1]))
	case "go":
		if len(f) != 2 {
			return "bad-op"
		}
		return s.directOldest(wire.DecList(f[1]))
	case "il":
		if len(f) != 3 {
			return "bad-op"
		}
		return s.inboundListener(wire.Dec(f[1]), parseLabels(f[2]), nil, inboundOpts{})
	case "cl":
		if len(f) != 6 {
			return "bad-op"
		}
		p, _ := strconv.ParseUint(f[5], 10, 32)
		return s.clientE2E(wire.Dec(f[1]), parseLabels(f[2]), wire.Dec(f[3]), f[4], uint32(p))
	case "ilh":
		if len(f) != 3 {
			return "bad-op"
		}
		return s.inboundListener(wire.Dec(f[1]), parseLabels(f[2]), nil, inboundOpts{hbone: true})
	case "ils":
		if len(f) != 5 && len(f) != 6 && len(f) != 7 {
			return "bad-op"
		}
		return s.inboundListener(wire.Dec(f[1]), parseLabels(f[2]), parseIngress(f[3]),
			inboundOpts{merge: f[4] == "1", interceptNone: len(f) >= 6 && f[5] == "1", unprivileged: len(f) == 7 && f[6] == "1"})
	case "ilt":
		if len(f) != 3 {
			return "bad-op"
		}
		return s.inboundListener(wire.Dec(f[1]), parseLabels(f[2]), nil, inboundOpts{tproxy: true})
	case "ilr":
		if len(f) != 4 {
			return "bad-op"
		}
		return s.inboundListener(wire.Dec(f[1]), parseLabels(f[2]), nil, inboundOpts{svcs: parseSvcs(f[3])})
	case "ilp":
		if len(f) != 4 {
			return "bad-op"
		}
		return s.inboundListener(wire.Dec(f[1]), parseLabels(f[2]), nil, inboundOpts{protos: strings.Split(f[3], ":")})
	case "aw":
		if len(f) != 5 {
			return "bad-op"
		}
		return s.ambientWorkload(f[1], wire.Dec(f[2]), parseLabels(f[3]), parseLabels(f[4]))
	case "aq":
		if len(f) != 4 {
			return "bad-op"
		}
		return s.ambientQuery(wire.Dec(f[1]), parseLabels(f[2]), "", parsePortList(f[3]))
	}
	return "bad-op"
}

func sortedPortModes(m map[uint32]string) string {
	keys := make([]uint32, 0, len(m))
	for k := range m {
		keys = append(keys, k)
	}
	sort.Slice(keys, func(i, j int) bool { return keys[i] < keys[j] })
	if len(keys) == 0 {
		return "-"
	}
	parts := make([]string, len(keys))
	for i, k := range keys {
		parts[i] = fmt.Sprintf("%d:%s", k, m[k])
	}
	return strings.Join(parts, ",")
}
