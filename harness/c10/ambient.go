package main

// Ambient side: the real fetchPeerAuthentications, convertedSelectorPeerAuthentications,
// getOldestPeerAuthn and convertPeerAuthentication (through the verif hook), plus an evaluator of
// the ztunnel DENY-policy semantics over the real security.Authorization protos.

import (
	"fmt"
	"sort"
	"strconv"
	"strings"
	"time"

	metav1 "k8s.io/apimachinery/pkg/apis/meta/v1"

	meshconfig "istio.io/api/mesh/v1alpha1"
	securityclient "istio.io/client-go/pkg/apis/security/v1"
	"istio.io/istio/pilot/pkg/model"
	"istio.io/istio/pilot/pkg/serviceregistry/ambient"
	"istio.io/istio/pkg/config/schema/kind"
	"istio.io/istio/pkg/kube/krt"
	"istio.io/istio/pkg/util/sets"
	"istio.io/istio/pkg/workloadapi/security"
	"verifharness/internal/wire"
)

func crOf(p paIn) *securityclient.PeerAuthentication {
	cr := &securityclient.PeerAuthentication{
		ObjectMeta: metav1.ObjectMeta{
			Name:              p.name,
			Namespace:         p.ns,
			CreationTimestamp: metav1.NewTime(time.Unix(p.time, 0).UTC()),
		},
	}
	spec := specOf(p)
	cr.Spec.Selector = spec.Selector
	cr.Spec.Mtls = spec.Mtls
	cr.Spec.PortLevelMtls = spec.PortLevelMtls
	return cr
}

type ambientView struct {
	crs  []*securityclient.PeerAuthentication // ops-file order
	pos  map[*securityclient.PeerAuthentication]int
	idx  krt.Index[string, *securityclient.PeerAuthentication]
	mesh *ambient.MeshConfig

	authz krt.Collection[model.WorkloadAuthorization] // empty: no AuthorizationPolicy in these cases

	sentCache   map[string]*security.Authorization
	servedByKey map[string]bool
}

func (s *sut) ambientView() *ambientView {
	if s.av != nil {
		return s.av
	}
	v := &ambientView{pos: map[*securityclient.PeerAuthentication]int{}}
	for i, p := range s.pas {
		cr := crOf(p)
		v.crs = append(v.crs, cr)
		v.pos[cr] = i
	}
	col := krt.NewStaticCollection[*securityclient.PeerAuthentication](nil, v.crs)
	v.idx = krt.NewNamespaceIndex(col)
	v.authz = krt.NewStaticCollection[model.WorkloadAuthorization](nil, nil)
	v.mesh = &ambient.MeshConfig{MeshConfig: &meshconfig.MeshConfig{RootNamespace: s.root}}
	s.av = v
	return v
}

// inOrder puts a list returned by krt (no particular order) into the ops-file order: the
// enumeration order is an explicit input of the model.
func (v *ambientView) inOrder(l []*securityclient.PeerAuthentication) []*securityclient.PeerAuthentication {
	out := append([]*securityclient.PeerAuthentication(nil), l...)
	sort.SliceStable(out, func(i, j int) bool { return v.pos[out[i]] < v.pos[out[j]] })
	return out
}

// sent runs the REAL ambient.PolicyCollections (PeerAuthDerivedPolicies + DefaultPolicy, policies.go) over
// static krt collections holding the case's PeerAuthentications and returns everything istiod would
// send to ztunnel, by resource name ("<namespace>/<name>").
func (v *ambientView) sent(root string) map[string]*security.Authorization {
	if v.sentCache != nil {
		return v.sentCache
	}
	stop := make(chan struct{})
	defer close(stop)
	opts := krt.NewOptionsBuilder(stop, "c10", nil)
	authz := krt.NewStaticCollection[*securityclient.AuthorizationPolicy](nil, nil, opts.WithName("authz")...)
	pas := krt.NewStaticCollection[*securityclient.PeerAuthentication](nil, v.crs, opts.WithName("peerauths")...)
	mesh := krt.NewStatic(v.mesh, true, opts.WithName("mesh")...)
	wps := krt.NewStaticCollection[ambient.Waypoint](nil, nil, opts.WithName("waypoints")...)
	_, policies := ambient.PolicyCollections(authz, pas, mesh, wps, opts, ambient.FeatureFlags{})
	policies.WaitUntilSynced(stop)
	// what ztunnel is served: the REAL index.Policies - everything on a full push (nil) ...
	out := map[string]*security.Authorization{}
	for _, wa := range ambient.VerifIndexPolicies(policies, nil) {
		if wa.Authorization != nil {
			out[wa.ResourceName()] = wa.Authorization
		}
	}
	// ... and, on an incremental push, exactly the policy asked for: the workload-authorization generator
	// requests converted PeerAuthentication policies by (kind AuthorizationPolicy, namespace, name)
	v.servedByKey = map[string]bool{}
	for name, a := range out {
		key := model.ConfigKey{Kind: kind.AuthorizationPolicy, Name: a.Name, Namespace: a.Namespace}
		got := ambient.VerifIndexPolicies(policies, sets.New(key))
		v.servedByKey[name] = len(got) == 1 && got[0].Authorization != nil && got[0].ResourceName() == name
	}
	v.sentCache = out
	return out
}

// ---------------------------------------------------------------- ztunnel semantics on the protos

func presenceOnly(l []*security.StringMatch) bool {
	if len(l) == 0 {
		return false
	}
	for _, m := range l {
		if _, ok := m.MatchType.(*security.StringMatch_Presence); !ok {
			return false
		}
	}
	return true
}

func containsPort(l []uint32, p uint32) bool {
	for _, x := range l {
		if x == p {
			return true
		}
	}
	return false
}

// matchConn: fields AND-ed, values OR-ed, empty field = no constraint, not_ field = no value matches.
func matchConn(m *security.Match, authenticated bool, port uint32) (bool, bool) {
	// only the fields the PeerAuthentication conversion may set are understood
	if len(m.Namespaces)+len(m.NotNamespaces)+len(m.ServiceAccounts)+len(m.NotServiceAccounts)+len(m.Principals)+
		len(m.SourceIps)+len(m.NotSourceIps)+len(m.DestinationIps)+len(m.NotDestinationIps) > 0 {
		return false, false
	}
	ok := true
	if len(m.NotPrincipals) > 0 {
		if !presenceOnly(m.NotPrincipals) {
			return false, false
		}
		ok = ok && !authenticated
	}
	if len(m.DestinationPorts) > 0 {
		ok = ok && containsPort(m.DestinationPorts, port)
	}
	if len(m.NotDestinationPorts) > 0 {
		ok = ok && !containsPort(m.NotDestinationPorts, port)
	}
	return ok, true
}

// policyMatches: groups OR-ed, rules AND-ed, matches OR-ed.
func policyMatches(a *security.Authorization, authenticated bool, port uint32) (bool, bool) {
	for _, g := range a.Groups {
		all := true
		for _, r := range g.Rules {
			anyM := false
			for _, m := range r.Matches {
				hit, understood := matchConn(m, authenticated, port)
				if !understood {
					return false, false
				}
				anyM = anyM || hit
			}
			all = all && anyM
		}
		if all {
			return true, true
		}
	}
	return false, true
}

func showAuthz(a *security.Authorization) string {
	if a == nil {
		return "nil"
	}
	if a.Action != security.Action_DENY || a.Scope != security.Scope_WORKLOAD_SELECTOR || a.DryRun {
		return "unexpected-policy-header"
	}
	var gs []string
	for _, g := range a.Groups {
		var rs []string
		for _, r := range g.Rules {
			var ms []string
			for _, m := range r.Matches {
				var fs []string
				if len(m.NotPrincipals) > 0 {
					if presenceOnly(m.NotPrincipals) && len(m.NotPrincipals) == 1 {
						fs = append(fs, "np")
					} else {
						fs = append(fs, "np?")
					}
				}
				for _, p := range m.DestinationPorts {
					fs = append(fs, "dp"+strconv.FormatUint(uint64(p), 10))
				}
				for _, p := range m.NotDestinationPorts {
					fs = append(fs, "ndp"+strconv.FormatUint(uint64(p), 10))
				}
				if _, understood := matchConn(m, false, 0); !understood {
					fs = append(fs, "other-fields")
				}
				ms = append(ms, strings.Join(fs, "."))
			}
			rs = append(rs, strings.Join(ms, "+"))
		}
		gs = append(gs, strings.Join(rs, "&"))
	}
	return strings.Join(gs, "|")
}

// ---------------------------------------------------------------- the aq op

type ambientResult struct {
	served   bool // every attached policy is also returned when requested by its key
	fetched  []string
	keys     []string
	pol      string
	attached []*security.Authorization
	dangling bool // a referenced key for which nothing is sent
}

func (s *sut) ambientEval(ns string, labels [][2]string) ambientResult {
	v := s.ambientView()
	var res ambientResult
	fetched := v.inOrder(ambient.VerifFetchPeerAuthentications(krt.TestingDummyContext{}, v.idx, v.mesh, ns, labelsMap(labels)))
	for _, cr := range fetched {
		res.fetched = append(res.fetched, cr.Namespace+"/"+cr.Name)
	}
	sort.Strings(res.fetched)
	// the keys as production computes them: the REAL buildWorkloadPolicies (fetchPeerAuthentications +
	// convertedSelectorPeerAuthentications composed by the code under test, no AuthorizationPolicy present)
	res.keys = ambient.VerifBuildWorkloadPolicies(krt.TestingDummyContext{}, v.authz, v.idx, v.mesh, labelsMap(labels), ns)
	s.evalKeys(v, &res)
	return res
}

// evalKeys: what istiod sends for the policy keys of a workload (res.keys), as ztunnel would attach it.
func (s *sut) evalKeys(v *ambientView, resp *ambientResult) {
	res := *resp
	defer func() { *resp = res }()
	sort.Strings(res.keys)
	res.pol = "-"
	sent := v.sent(s.root)
	res.served = true
	for _, k := range res.keys {
		a := sent[k]
		if a == nil || !v.servedByKey[k] {
			res.served = false
		}
		if strings.HasSuffix(k, "/"+ambient.VerifStaticStrictPolicyName) {
			if a == nil {
				res.pol = "static-strict-not-sent"
				res.dangling = true
			} else {
				res.attached = append(res.attached, a)
				if sh := showAuthz(a); sh != "np" {
					res.pol = "static-strict-is-" + sh
				}
			}
			continue
		}
		res.pol = showAuthz(a)
		if a == nil {
			res.dangling = true // referenced by the workload, never sent
		} else {
			res.attached = append(res.attached, a)
		}
	}
}

func (r ambientResult) denied(authenticated bool, port uint32) (bool, bool) {
	for _, a := range r.attached {
		hit, understood := policyMatches(a, authenticated, port)
		if !understood {
			return false, false
		}
		if hit {
			return true, true
		}
	}
	return false, true
}

func (s *sut) ambientQuery(ns string, labels [][2]string, _ string, ports []uint32) string {
	r := s.ambientEval(ns, labels)
	ds := make([]string, len(ports))
	for i, p := range ports {
		du, ok1 := r.denied(false, p)
		da, ok2 := r.denied(true, p)
		if !ok1 || !ok2 {
			ds[i] = fmt.Sprintf("%d:??", p)
			continue
		}
		ds[i] = fmt.Sprintf("%d:%s%s", p, wire.B(du), wire.B(da))
	}
	d := "-"
	if len(ds) > 0 {
		d = strings.Join(ds, ",")
	}
	return fmt.Sprintf("F=%s K=%s P=%s D=%s S=%s", wire.EncList(res(r.fetched)), wire.EncList(res(r.keys)), r.pol, d, wire.B(r.served))
}

func res(l []string) []string { return l }

// hasEmptySelector: a policy with a present-but-empty selector is in play (nil / empty selectors are
// told apart by the ambient code only).
func hasEmptySelector(ps []paIn) bool {
	for _, p := range ps {
		if !p.selNil && len(p.sel) == 0 {
			return true
		}
	}
	return false
}

// emptySelectorSelected: the selected mesh- or namespace-level policy is written with a present-but-empty selector.
func emptySelectorSelected(l levels) bool {
	for _, p := range []*paIn{l.mesh, l.ns} {
		if p != nil && !p.selNil && len(p.sel) == 0 {
			return true
		}
	}
	return false
}

// tiedSelected: a policy selected at some level shares its creation time with another candidate of the same
// level (same namespace, both with / both without selector).
func tiedSelected(ps []paIn, l levels) bool {
	for _, sel := range []*paIn{l.mesh, l.ns, l.wl} {
		if sel == nil {
			continue
		}
		for i := range ps {
			q := &ps[i]
			if (q.ns != sel.ns || q.name != sel.name) && q.ns == sel.ns && q.time == sel.time && q.hasSelector() == sel.hasSelector() {
				return true
			}
		}
	}
	return false
}

// tied: two policies of one namespace share a creation time (the ambient code has no tie-break:
// its choice depends on krt's enumeration order).
func tied(ps []paIn) bool {
	for i := range ps {
		for j := i + 1; j < len(ps); j++ {
			if ps[i].ns == ps[j].ns && ps[i].time == ps[j].time {
				return true
			}
		}
	}
	return false
}

// ambientOracle: the converted policies attached to the workload reject an unauthenticated peer on
// port p iff effectiveMode p = STRICT, and never reject an authenticated one.
func (s *sut) ambientOracle(f []string, _ string, fail func(clause, class, detail string)) {
	ns, labels, ports := wire.Dec(f[1]), parseLabels(f[2]), parsePortList(f[3])
	r := s.ambientEval(ns, labels)
	l := specLevels(s.pas, s.root, ns, labels)
	// the workload must not reference a policy that istiod does not send (judged first: what ztunnel then does
	// with the unknown key - and so every mode mismatch below - is a consequence)
	if r.dangling {
		fail("ambient-no-dangling-reference", "referenced-policy-not-sent", fmt.Sprintf("keys %s policy %s", strings.Join(r.keys, ","), r.pol))
		return
	}
	if ns == s.root {
		stat("judged.ambient.root-namespace-workload")
	}
	if tiedSelected(s.pas, l) {
		stat("judged.ambient.tie-decides")
	}
	for _, p := range ports {
		want := effectiveMode(s.pas, s.root, ns, labels, p) == "STRICT"
		stat("judged.ambient.mode." + effectiveMode(s.pas, s.root, ns, labels, p))
		got, understood := r.denied(false, p)
		if !understood {
			fail("ambient-strict-exact", "policy-shape-not-understood", r.pol)
			return
		}
		if da, _ := r.denied(true, p); da {
			fail("ambient-authenticated-accepted", "authenticated-peer-rejected", fmt.Sprintf("port %d policy %s", p, r.pol))
		}
		if got == want {
			continue
		}
		// classify the minimal failing input class (stable fingerprints)
		class := "other"
		wlMode, portMode := "-", "-"
		if l.wl != nil {
			wlMode = inheritTok(l.wl.mtls, "UNSET")
			for _, e := range l.wl.ports {
				if e.port == p {
					portMode = inheritTok(e.mode, "UNSET")
				}
			}
		}
		nsRaw := "-"
		if l.ns != nil {
			nsRaw = inheritTok(l.ns.mtls, "UNSET")
		}
		switch {
		case emptySelectorSelected(l):
			class = "F12:empty-selector"
		case tiedSelected(s.pas, l):
			class = "F11:creation-time-tie"
		case want && !got && l.wl != nil && (wlMode == "PERMISSIVE" || wlMode == "DISABLE") && portMode == "STRICT" && l.meshMode == "STRICT":
			class = "F2:strict-port-under-nonstrict-workload-and-strict-mesh"
		case !want && got && l.wl != nil && wlMode == "UNSET" && portMode == "DISABLE" && l.nsMode == "STRICT":
			class = "F3:disable-port-under-inherited-strict"
		case want && !got && l.wl != nil && wlMode == "UNSET" && nsRaw == "UNSET" && l.meshMode == "STRICT":
			class = "F10:exemption-under-unset-namespace-policy-and-strict-mesh"
		}
		fail("ambient-strict-exact", class, fmt.Sprintf("port %d spec-strict %v rejected %v keys %s policy %s wl %s/%s ns %s mesh %s",
			p, want, got, strings.Join(r.keys, ","), r.pol, wlMode, portMode, l.nsMode, l.meshMode))
		return
	}
	if !r.served {
		fail("ambient-policy-served", "attached-policy-not-returned-for-its-key", strings.Join(r.keys, ","))
		return
	}
}

// mergedLabels: spec.labels and metadata labels of a WorkloadEntry, metadata wins (serviceentry/conversion.go).
func mergedLabels(spec, meta [][2]string) [][2]string {
	out := append([][2]string(nil), meta...)
	for _, kv := range spec {
		dup := false
		for _, m := range meta {
			dup = dup || m[0] == kv[0]
		}
		if !dup {
			out = append(out, kv)
		}
	}
	return out
}

// ambientWorkloadOracle (op aw): the policies the REAL ambient index attached to a pod / WorkloadEntry / inline
// ServiceEntry endpoint reject an unauthenticated peer on port p iff effectiveMode for the workload's own labels
// is STRICT - the labels the sidecar registry and EDS use for the same workload.
func (s *sut) ambientWorkloadOracle(f []string, out string, fail func(clause, class, detail string)) {
	kind, ns, labels, meta := f[1], wire.Dec(f[2]), parseLabels(f[3]), parseLabels(f[4])
	k := field(out, "K")
	if k == "" {
		fail("ambient-workload-policies", kind+":workload-not-in-index", out)
		return
	}
	own := labels
	if kind == "we" {
		own = mergedLabels(labels, meta)
	}
	v := s.ambientView()
	var r ambientResult
	if k != "-" {
		r.keys = strings.Split(k, ",")
	}
	s.evalKeys(v, &r)
	if r.dangling {
		fail("ambient-no-dangling-reference", kind+":referenced-policy-not-sent", fmt.Sprintf("keys %s policy %s", k, r.pol))
		return
	}
	for _, p := range queryPort {
		want := effectiveMode(s.pas, s.root, ns, own, p) == "STRICT"
		stat("judged.aw." + kind + "." + effectiveMode(s.pas, s.root, ns, own, p))
		got, understood := r.denied(false, p)
		if !understood {
			fail("ambient-workload-policies", kind+":policy-shape-not-understood", r.pol)
			return
		}
		if da, _ := r.denied(true, p); da {
			fail("ambient-authenticated-accepted", kind+":authenticated-peer-rejected", fmt.Sprintf("port %d policy %s", p, r.pol))
			return
		}
		if got != want {
			class := kind + ":policies-of-other-labels"
			if kind == "se" && (effectiveMode(s.pas, s.root, ns, meta, p) == "STRICT") == got {
				class = "F15:serviceentry-endpoint-matched-with-resource-labels"
			}
			fail("ambient-workload-policies", class, fmt.Sprintf("port %d spec-strict %v rejected %v keys %s own-labels %s", p, want, got, k, encLabels(own)))
			return
		}
	}
}

// ---------------------------------------------------------------- direct calls (hooked functions, arbitrary arguments)

func (v *ambientView) at(tok string) *securityclient.PeerAuthentication {
	if tok == "-" {
		return nil
	}
	i, err := strconv.Atoi(tok)
	if err != nil || i < 0 || i >= len(v.crs) {
		return nil
	}
	return v.crs[i]
}

func (v *ambientView) list(toks []string) []*securityclient.PeerAuthentication {
	var out []*securityclient.PeerAuthentication
	for _, t := range toks {
		if cr := v.at(t); cr != nil {
			out = append(out, cr)
		}
	}
	return out
}

func (s *sut) directConvert(i, j, k string) string {
	v := s.ambientView()
	cfg := v.at(i)
	if cfg == nil {
		return "bad-op"
	}
	return showAuthz(ambient.VerifConvertPeerAuthentication(s.root, cfg, v.at(j), v.at(k)))
}

func (s *sut) directKeys(idx []string) string {
	v := s.ambientView()
	return wire.EncSet(ambient.VerifConvertedSelectorPeerAuthentications(s.root, v.list(idx)))
}

func (s *sut) directOldest(idx []string) string {
	v := s.ambientView()
	l := v.list(idx)
	if len(l) == 0 {
		return "nil" // the callers never pass an empty list (switch on len in policies.go)
	}
	o := ambient.VerifGetOldestPeerAuthn(l)
	if o == nil {
		return "nil"
	}
	return o.Namespace + "/" + o.Name
}
