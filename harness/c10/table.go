package main

func table(name, outp string) {}
