package main

// T-gen: the REAL inbound filter-chain table getFilterChainMatchOptions (mode x listener protocol),
// together with the transport socket each option gets from the real InboundMTLSSettings /
// ToTransportSocket, written as a Lean table (lean/IstioModel/Generated/C10Chains.lean) that
// IstioModel/C10/GenTie.lean proves equal to the model.

import (
	"fmt"
	"os"
	"strconv"
	"strings"

	meshconfig "istio.io/api/mesh/v1alpha1"
	"istio.io/istio/pilot/pkg/model"
	"istio.io/istio/pilot/pkg/networking"
	"istio.io/istio/pilot/pkg/networking/core"
	"istio.io/istio/pilot/pkg/security/authn"
	xdsfilters "istio.io/istio/pilot/pkg/xds/filters"
	"verifharness/internal/wire"
)

func wireCreate(p string) *wire.Out { return wire.Create(p) }

// alpnCode: one letter per application-protocol list the code uses (exact, ordered comparison); any other
// list shows as "?" followed by its content, so that a changed list can never hide behind a class.
func alpnCode(l []string) string {
	known := map[string]string{
		"":                                       "0",
		"istio-http/1.0,istio-http/1.1,istio-h2": "H",
		"istio,istio-peer-exchange,istio-http/1.0,istio-http/1.1,istio-h2": "A",
		"istio-peer-exchange,istio":                                        "T",
		"http/1.1,h2c":                                                     "P",
	}
	k := strings.Join(l, ",")
	if c, ok := known[k]; ok {
		return c
	}
	return "?" + strings.NewReplacer(",", "+", ".", "_", ":", "_").Replace(k)
}

var alpnOfCode = map[string][]string{
	"0": nil,
	"H": {"istio-http/1.0", "istio-http/1.1", "istio-h2"},
	"A": {"istio", "istio-peer-exchange", "istio-http/1.0", "istio-http/1.1", "istio-h2"},
	"T": {"istio-peer-exchange", "istio"},
	"P": {"http/1.1", "h2c"},
}

// ---------------------------------------------------------------- Envoy's chain selection, for the oracles

// selChain: what the oracles need to know about a filter chain of one destination port.
type selChain struct {
	tls   bool // transport_protocol tls (else raw_buffer)
	alpn  []string
	sock  string // 0 none, 1 TLS without client cert, 2 mutual TLS, X/? malformed
	http  bool
	label string
}

type clientKind struct {
	name  string
	tls   bool
	alpns []string
	mtls  bool // an Istio sidecar originating mutual TLS
	plain bool
}

// the clients the property speaks about (ALPNs: util.ALPNInMeshWithMxc, ALPNInMesh, the ALPN override filter
// of xds/filters, what the HTTP inspector infers for plaintext)
var clientKinds = []clientKind{
	{"mtls-tcp", true, []string{"istio-peer-exchange", "istio"}, true, false},
	{"mtls-tcp-nomx", true, []string{"istio"}, true, false},
	{"mtls-http10", true, []string{"istio-http/1.0", "istio", "http/1.0"}, true, false},
	{"mtls-http11", true, []string{"istio-http/1.1", "istio", "http/1.1"}, true, false},
	{"mtls-h2", true, []string{"istio-h2", "istio", "h2"}, true, false},
	{"plain-tcp", false, nil, false, true},
	{"plain-http11", false, []string{"http/1.1"}, false, true},
	{"plain-h2c", false, []string{"h2c"}, false, true},
	{"foreign-tls", true, []string{"h2", "http/1.1"}, false, false},
	{"foreign-tls-noalpn", true, nil, false, false},
}

func contains(l []string, a string) bool {
	for _, x := range l {
		if x == a {
			return true
		}
	}
	return false
}

// selectChains: transport-protocol stage, then the application-protocol stage (first offered ALPN that some
// chain lists; fallback: chains without application protocols).
func selectChains(cs []selChain, k clientKind) []selChain {
	var byTP []selChain
	for _, c := range cs {
		if c.tls == k.tls {
			byTP = append(byTP, c)
		}
	}
	for _, a := range k.alpns {
		var hit []selChain
		for _, c := range byTP {
			if contains(c.alpn, a) {
				hit = append(hit, c)
			}
		}
		if len(hit) > 0 {
			return hit
		}
	}
	var out []selChain
	for _, c := range byTP {
		if len(c.alpn) == 0 {
			out = append(out, c)
		}
	}
	return out
}

// judgeClients: the property per client kind for the chains of one destination port under a mode:
// STRICT: an Istio mTLS client reaches chains that all terminate mutual TLS, a plaintext client reaches nothing,
// no chain selected for anybody lacks mutual TLS; PERMISSIVE: mTLS clients are terminated with mutual TLS,
// plaintext clients reach plaintext chains, foreign TLS is never terminated; DISABLE: plaintext clients reach
// plaintext chains and nothing terminates TLS.  Returns "" or "<class> <detail>".
func judgeClients(cs []selChain, mode string) string {
	for _, k := range clientKinds {
		sel := selectChains(cs, k)
		allMTLS, anySock := len(sel) > 0, false
		for _, c := range sel {
			if c.sock != "2" || !c.tls {
				allMTLS = false
			}
			if c.sock != "0" {
				anySock = true
			}
		}
		var labels []string
		for _, c := range sel {
			labels = append(labels, c.label)
		}
		d := fmt.Sprintf("client %s selects [%s]", k.name, strings.Join(labels, " "))
		switch {
		case mode != "DISABLE" && k.mtls && !allMTLS:
			return "mtls-client-not-terminated-with-mtls:" + k.name + " " + d
		case mode == "STRICT" && len(sel) > 0 && !allMTLS:
			return "strict-selects-non-mtls-chain:" + k.name + " " + d
		case mode != "STRICT" && k.plain && (len(sel) == 0 || anySock):
			return "plaintext-client-not-admitted:" + k.name + " " + d
		case mode == "PERMISSIVE" && !k.mtls && !k.plain && anySock:
			return "foreign-tls-terminated:" + k.name + " " + d
		case mode == "DISABLE" && anySock:
			return "disable-terminates-tls:" + k.name + " " + d
		}
	}
	return ""
}

func chainRows(mode model.MutualTLSMode, proto networking.ListenerProtocol) string {
	push := model.NewPushContext()
	push.Mesh = &meshconfig.MeshConfig{RootNamespace: "istio-system"}
	push.AuthnPolicies = (&sut{root: "istio-system"}).policies()
	node := &model.Proxy{
		Type: model.SidecarProxy, ConfigNamespace: "ns1", Metadata: &model.NodeMetadata{Namespace: "ns1"},
		IstioVersion: model.MaxIstioVersion,
	}
	settings := authn.NewPolicyApplier(push, node, nil).InboundMTLSSettings(8080, node, nil, mode)
	var rows []string
	for _, o := range core.VerifFilterChainMatchOptions(mode, proto) {
		tp := -1
		switch o.TransportProtocol {
		case xdsfilters.TLSTransportProtocol:
			tp = 1
		case xdsfilters.RawBufferTransportProtocol:
			tp = 0
		}
		http := 0
		switch o.Protocol {
		case networking.ListenerProtocolHTTP:
			http = 1
		case networking.ListenerProtocolTCP:
			http = 0
		default:
			http = 9
		}
		ctx := 0
		switch sockClass(o.ToTransportSocket(settings)) {
		case "1":
			ctx = 1
		case "2":
			ctx = 2
		case "X":
			ctx = 3
		}
		tls := 0
		if o.TLS {
			tls = 1
		}
		var q []string
		for _, a := range o.ApplicationProtocols {
			q = append(q, strconv.Quote(a))
		}
		rows = append(rows, fmt.Sprintf("([%d, %d, %d, %d], [%s])", tp, tls, http, ctx, strings.Join(q, ", ")))
	}
	return "[" + strings.Join(rows, ", ") + "]"
}

func table(name, outp string) {
	if name != "chains" {
		os.Exit(2)
	}
	var b strings.Builder
	b.WriteString("/- GENERATED by `harness/c10 table chains` from /repo on every check run. Do not edit.\n")
	b.WriteString("   Row: (MutualTLSMode as int, ListenerProtocol as int, chains), chain = ([transport tls?, terminates TLS?,\n")
	b.WriteString("   HTTP?, transport socket], application_protocols as they are); transport socket (0 none,\n")
	b.WriteString("   1 TLS without client cert, 2 TLS requiring a client certificate with a validation context,\n   3 requiring one without validation context)]. -/\n")
	b.WriteString("namespace IstioModel.Generated.C10Chains\n\n")
	b.WriteString("def impl : List (Nat × Nat × List (List Int × List String)) := [\n")
	modes := []model.MutualTLSMode{model.MTLSUnknown, model.MTLSDisable, model.MTLSPermissive, model.MTLSStrict}
	protos := []networking.ListenerProtocol{
		networking.ListenerProtocolUnknown, networking.ListenerProtocolTCP, networking.ListenerProtocolHTTP, networking.ListenerProtocolAuto,
	}
	first := true
	for _, m := range modes {
		for _, p := range protos {
			if !first {
				b.WriteString(",\n")
			}
			first = false
			fmt.Fprintf(&b, "  (%d, %d, %s)", int(m), int(p), chainRows(m, p))
		}
	}
	b.WriteString("\n]\n\nend IstioModel.Generated.C10Chains\n")
	if err := os.WriteFile(outp, []byte(b.String()), 0o644); err != nil {
		fmt.Fprintln(os.Stderr, err)
		os.Exit(2)
	}
}

// chainsOracle evaluates the inbound_enforces clauses directly on the real table (no Lean model):
// one verdict line per (mode, protocol) row.
func chainsOracle(outp string) {
	out := wireCreate(outp)
	defer out.Close()
	modes := []model.MutualTLSMode{model.MTLSDisable, model.MTLSPermissive, model.MTLSStrict}
	protos := []networking.ListenerProtocol{
		networking.ListenerProtocolUnknown, networking.ListenerProtocolTCP, networking.ListenerProtocolHTTP, networking.ListenerProtocolAuto,
	}
	for _, m := range modes {
		for _, p := range protos {
			push := model.NewPushContext()
			push.Mesh = &meshconfig.MeshConfig{RootNamespace: "istio-system"}
			push.AuthnPolicies = (&sut{root: "istio-system"}).policies()
			node := &model.Proxy{
				Type: model.SidecarProxy, ConfigNamespace: "ns1", Metadata: &model.NodeMetadata{Namespace: "ns1"},
				IstioVersion: model.MaxIstioVersion,
			}
			settings := authn.NewPolicyApplier(push, node, nil).InboundMTLSSettings(8080, node, nil, m)
			plaintext, mtls, oneWay, passthroughTLS := false, false, false, false
			for _, o := range core.VerifFilterChainMatchOptions(m, p) {
				c := o.ToTransportSocket(settings)
				if o.TransportProtocol != xdsfilters.TLSTransportProtocol {
					plaintext = true
				}
				if sockClass(c) == "2" && o.TransportProtocol == xdsfilters.TLSTransportProtocol {
					mtls = true
				}
				if c != nil && sockClass(c) != "2" {
					oneWay = true
				}
				if c == nil && o.TransportProtocol == xdsfilters.TLSTransportProtocol {
					passthroughTLS = true
				}
			}
			var sel []selChain
			for _, o := range core.VerifFilterChainMatchOptions(m, p) {
				sel = append(sel, selChain{
					tls: o.TransportProtocol == xdsfilters.TLSTransportProtocol, alpn: o.ApplicationProtocols,
					sock: sockClass(o.ToTransportSocket(settings)), http: o.Protocol == networking.ListenerProtocolHTTP,
					label: fmt.Sprintf("%s.%s.%s", o.TransportProtocol, alpnCode(o.ApplicationProtocols), sockClass(o.ToTransportSocket(settings))),
				})
			}
			verdict := "OK"
			row := fmt.Sprintf("mode=%s proto=%d", m, int(p))
			if j := judgeClients(sel, m.String()); j != "" {
				f := strings.SplitN(j, " ", 2)
				verdict = "FAIL inbound-enforces " + f[0] + " " + row + " " + strings.ReplaceAll(f[1], " ", "_")
			}
			switch {
			case verdict != "OK":
			case oneWay:
				verdict = "FAIL inbound-enforces tls-terminated-without-client-certificate " + row
			case m == model.MTLSStrict && (plaintext || passthroughTLS || !mtls):
				verdict = "FAIL inbound-enforces strict-admits-non-mtls " + row
			case m == model.MTLSDisable && mtls:
				verdict = "FAIL inbound-enforces disable-terminates-tls " + row
			case m == model.MTLSPermissive && !(plaintext && mtls):
				verdict = "FAIL inbound-enforces permissive-not-both " + row
			}
			out.Line(verdict)
		}
	}
}
