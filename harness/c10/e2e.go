package main

// Op `cl` (stream inbound): the composed client decision on REAL generated xDS, end to end.
// One ServiceEntry-defined service svc.<ns> (port 80 HTTP) with one endpoint = the server workload
// (labels, tlsMode label), a client sidecar in <clientNs>, a server sidecar on the endpoint's address:
//
//	cl <ns> <labels> <clientNs> <kind> <port>
//	  kind: normal | router (the client is a gateway) | noauto (MeshConfig.enableAutoMtls=false) | noistio |
//	        external | passthrough | ptdisabled | ptnoistio | drpassthrough | drptdisabled | drdisable | dristio |
//	        drsubsetdisable | drsubsetfallback (the cluster of subset v1 is looked at)
//	  port: the service port; service port 81 has TARGET port 8081 (the endpoint / server port)
//	  -> C=<0|1>   the client's outbound cluster for the service carries a TLS transport socket (CDS)
//	     E=<0|1|-> the endpoint keeps tlsMode=istio in the client's EDS ("-": the cluster has no EDS endpoints)
//	     BE=<mode> real BestEffortInferServiceMTLSMode on the client's SidecarScope.AuthnPolicies, real Service
//	     S=<chains of the server's virtualInbound listener for destination port 80>
//
// kind drives the other branches of BestEffortInferServiceMTLSMode: MESH_EXTERNAL, resolution NONE
// (passthrough: looks at the endpoints' tlsMode), endpoint without sidecar.

import (
	"fmt"
	"sort"
	"strconv"
	"strings"
	"time"

	cluster "github.com/envoyproxy/go-control-plane/envoy/config/cluster/v3"
	corev3 "github.com/envoyproxy/go-control-plane/envoy/config/core/v3"
	listener "github.com/envoyproxy/go-control-plane/envoy/config/listener/v3"
	tlsv3 "github.com/envoyproxy/go-control-plane/envoy/extensions/transport_sockets/tls/v3"

	"google.golang.org/protobuf/types/known/structpb"
	"google.golang.org/protobuf/types/known/wrapperspb"
	corev1 "k8s.io/api/core/v1"
	discoveryv1 "k8s.io/api/discovery/v1"
	metav1 "k8s.io/apimachinery/pkg/apis/meta/v1"
	"k8s.io/apimachinery/pkg/runtime"
	"k8s.io/apimachinery/pkg/util/intstr"

	networkingapi "istio.io/api/networking/v1alpha3"
	"istio.io/istio/pilot/pkg/features"
	"istio.io/istio/pilot/pkg/model"
	"istio.io/istio/pilot/pkg/xds"
	"istio.io/istio/pilot/pkg/xds/endpoints"
	xdsfake "istio.io/istio/pilot/test/xds"
	"istio.io/istio/pkg/config"
	"istio.io/istio/pkg/config/host"
	"istio.io/istio/pkg/config/mesh"
	"istio.io/istio/pkg/config/schema/gvk"
	"istio.io/istio/pkg/config/schema/kind"
	"istio.io/istio/pkg/ptr"
	"istio.io/istio/pkg/util/sets"
	"istio.io/istio/pkg/wellknown"
	"verifharness/internal/quiet"
	"verifharness/internal/wire"
)

// e2eWorld: one FakeDiscoveryServer with a client and a server proxy. Op cl builds one per op; op hc keeps it for the
// rest of the case, and every later pa / pu / pd of the case is applied to its config store (the real update path:
// config handler -> ConfigUpdate -> debounce -> updateContext, then per proxy computeProxyState + ProxyNeedsPush).
type e2eWorld struct {
	f              *failer
	fs             *xdsfake.FakeDiscoveryServer
	client, server *model.Proxy
	key            string
	hostname       string
	subsetName     string
	port, target   uint32
	tp             *networkingapi.TrafficPolicy
	twoEndpoints   bool
	restore        func()
	// since the last edit: does production push it to the proxy (ProxyNeedsPush), "-" before the first edit
	needClient, needServer string
	lastEff, lastNs        string // oracle: the decision at the previous read
}

func (w *e2eWorld) close() {
	if w.restore != nil {
		w.restore()
	}
	w.f.done()
}

func (s *sut) clientE2E(ns string, labels [][2]string, clientNs, kind string, port uint32) string {
	w := s.buildE2E(ns, labels, clientNs, kind, port)
	defer w.close()
	return w.read()
}

// historyE2E (op hc): the same reading as cl, on the world kept since the first hc of the case.
func (s *sut) historyE2E(ns string, labels [][2]string, clientNs, kind string, port uint32) string {
	key := strings.Join([]string{ns, encLabels(labels), clientNs, kind, fmt.Sprint(port)}, " ")
	if s.live != nil && s.live.key != key {
		s.live.close()
		s.live = nil
	}
	if s.live == nil {
		s.live = s.buildE2E(ns, labels, clientNs, kind, port)
		s.live.key = key
	}
	return s.live.read()
}

// edit applies one PeerAuthentication change to the live world, waits for the new push context and refreshes both
// proxies the way a push does.
func (w *e2eWorld) edit(op string, p paIn) {
	old := w.fs.PushContext()
	store := w.fs.Store()
	var err error
	switch op {
	case "create":
		_, err = store.Create(configOf(p))
	case "update":
		c := configOf(p)
		c.ResourceVersion = ""
		_, err = store.Update(c)
	case "delete":
		err = store.Delete(gvk.PeerAuthentication, p.name, p.ns, nil)
	}
	if err != nil {
		panic("edit " + op + ": " + err.Error())
	}
	deadline := time.Now().Add(10 * time.Second)
	for w.fs.PushContext() == old && time.Now().Before(deadline) {
		time.Sleep(time.Millisecond)
	}
	push := w.fs.PushContext()
	req := &model.PushRequest{
		Push: push, Start: time.Now(), Reason: model.NewReasonStats(model.ConfigUpdate),
		ConfigsUpdated: sets.New(model.ConfigKey{Kind: kind.PeerAuthentication, Name: p.name, Namespace: p.ns}),
	}
	need := func(px *model.Proxy) string {
		xds.VerifC10ComputeProxyState(w.fs.Discovery, px, req)
		_, n := xds.DefaultProxyNeedsPush(px, req)
		return wire.B(n)
	}
	w.needClient, w.needServer = need(w.client), need(w.server)
}

func (s *sut) buildE2E(ns string, labels [][2]string, clientNs, kind string, port uint32) *e2eWorld {
	f := &failer{}
	w := &e2eWorld{f: f, needClient: "-", needServer: "-"}
	var labels2 [][2]string
	if strings.HasPrefix(kind, "two:") {
		// a second endpoint with labels of its own (another workload policy may select it)
		labels2 = parseLabels(kind[4:])
		w.twoEndpoints = true
		kind = "two"
	}
	if kind == "hbone" {
		// as in every ambient-enabled mesh: sidecars may send HBONE, clusters go through applyHBONETransportSocketMatches
		oldSend := features.EnableHBONESend
		features.EnableHBONESend = true
		w.restore = func() { features.EnableHBONESend = oldSend }
	}
	var cfgs []config.Config
	for _, p := range s.pas {
		cfgs = append(cfgs, configOf(p))
	}
	const serverIP, server2IP, clientIP = "10.2.2.2", "10.2.2.3", "10.3.3.3"
	hostname := "svc." + ns + ".example.com"
	epLabels := labelsMap(labels)
	if epLabels == nil {
		epLabels = map[string]string{}
	}
	target := port
	if port == 81 {
		target = 8081
	}
	switch kind {
	case "noistio", "ptnoistio", "k8snoistio":
		// no sidecar on the endpoint: no tlsMode label
	case "ptdisabled", "drptdisabled":
		epLabels["security.istio.io/tlsMode"] = "disabled"
	default:
		epLabels["security.istio.io/tlsMode"] = "istio"
	}
	se := &networkingapi.ServiceEntry{
		Hosts:      []string{hostname},
		Ports:      []*networkingapi.ServicePort{{Number: port, TargetPort: target, Name: "http", Protocol: "HTTP"}},
		Location:   networkingapi.ServiceEntry_MESH_INTERNAL,
		Resolution: networkingapi.ServiceEntry_STATIC,
		Endpoints:  []*networkingapi.WorkloadEntry{{Address: serverIP, Labels: epLabels}},
	}
	if w.twoEndpoints {
		l2 := labelsMap(labels2)
		if l2 == nil {
			l2 = map[string]string{}
		}
		l2["security.istio.io/tlsMode"] = "istio"
		se.Endpoints = append(se.Endpoints, &networkingapi.WorkloadEntry{Address: server2IP, Labels: l2})
	}
	switch kind {
	case "external":
		se.Location = networkingapi.ServiceEntry_MESH_EXTERNAL
	case "passthrough", "ptdisabled", "ptnoistio":
		se.Resolution = networkingapi.ServiceEntry_NONE
		se.Addresses = []string{"240.1.1.1"}
	}
	var kubeObjs []runtime.Object
	if kind == "k8s" || kind == "k8snoistio" {
		// a Kubernetes Service with a pod behind it (kube registry: tlsMode from the pod's label, targetPort)
		hostname = "svc." + ns + ".svc.cluster.local"
		podLabels := map[string]string{}
		for k, v := range epLabels {
			podLabels[k] = v
		}
		if kind == "k8snoistio" {
			delete(podLabels, "security.istio.io/tlsMode")
		}
		if len(labels) == 0 {
			podLabels["verif-selector"] = "x" // a Service needs a selector
		}
		sel := map[string]string{}
		for k, v := range podLabels {
			if k != "security.istio.io/tlsMode" {
				sel[k] = v
			}
		}
		seen := map[string]bool{}
		for _, n := range []string{s.root, ns, clientNs} {
			if !seen[n] {
				kubeObjs = append(kubeObjs, &corev1.Namespace{ObjectMeta: metav1.ObjectMeta{Name: n}})
			}
			seen[n] = true
		}
		kubeObjs = append(kubeObjs,
			&corev1.Pod{
				ObjectMeta: metav1.ObjectMeta{Name: "pod", Namespace: ns, Labels: podLabels},
				Spec:       corev1.PodSpec{ServiceAccountName: "sa", NodeName: "node1"},
				Status: corev1.PodStatus{PodIP: serverIP, PodIPs: []corev1.PodIP{{IP: serverIP}}, Phase: corev1.PodRunning,
					Conditions: []corev1.PodCondition{{Type: corev1.PodReady, Status: corev1.ConditionTrue}}},
			},
			&corev1.Service{
				ObjectMeta: metav1.ObjectMeta{Name: "svc", Namespace: ns},
				Spec: corev1.ServiceSpec{
					Ports:    []corev1.ServicePort{{Name: "http", Port: int32(port), TargetPort: intstr.FromInt32(int32(target))}},
					Selector: sel, ClusterIP: "10.96.0.9",
				},
			},
			&discoveryv1.EndpointSlice{
				ObjectMeta:  metav1.ObjectMeta{Name: "svc", Namespace: ns, Labels: map[string]string{discoveryv1.LabelServiceName: "svc"}},
				AddressType: discoveryv1.AddressTypeIPv4,
				Endpoints: []discoveryv1.Endpoint{{
					Addresses: []string{serverIP},
					TargetRef: &corev1.ObjectReference{Kind: "Pod", Namespace: ns, Name: "pod"},
				}},
				Ports: []discoveryv1.EndpointPort{{Name: ptr.Of("http"), Port: ptr.Of(int32(target))}},
			})
	} else {
		cfgs = append(cfgs, config.Config{
			Meta: config.Meta{GroupVersionKind: gvk.ServiceEntry, Name: "svc", Namespace: ns},
			Spec: se,
		})
	}
	// DestinationRule kinds: a PASSTHROUGH load balancer (the other passthrough branch of
	// BestEffortInferServiceMTLSMode) or an explicit client TLS mode
	var tp *networkingapi.TrafficPolicy
	switch kind {
	case "drpassthrough", "drptdisabled":
		tp = &networkingapi.TrafficPolicy{LoadBalancer: &networkingapi.LoadBalancerSettings{
			LbPolicy: &networkingapi.LoadBalancerSettings_Simple{Simple: networkingapi.LoadBalancerSettings_PASSTHROUGH},
		}}
	case "drdisable":
		tp = &networkingapi.TrafficPolicy{Tls: &networkingapi.ClientTLSSettings{Mode: networkingapi.ClientTLSSettings_DISABLE}}
	case "dristio":
		tp = &networkingapi.TrafficPolicy{Tls: &networkingapi.ClientTLSSettings{Mode: networkingapi.ClientTLSSettings_ISTIO_MUTUAL}}
	}
	// subsets: the subset's own TLS mode / the rule-level mode a subset without TLS settings falls back to
	var subsets []*networkingapi.Subset
	subsetName := ""
	switch kind {
	case "drsubsetdisable":
		subsetName = "v1"
		subsets = []*networkingapi.Subset{{Name: "v1", TrafficPolicy: &networkingapi.TrafficPolicy{
			Tls: &networkingapi.ClientTLSSettings{Mode: networkingapi.ClientTLSSettings_DISABLE},
		}}}
	case "drsubsetfallback":
		subsetName = "v1"
		tp = &networkingapi.TrafficPolicy{Tls: &networkingapi.ClientTLSSettings{Mode: networkingapi.ClientTLSSettings_ISTIO_MUTUAL}}
		subsets = []*networkingapi.Subset{{Name: "v1"}}
	}
	if tp != nil || subsets != nil {
		cfgs = append(cfgs, config.Config{
			Meta: config.Meta{GroupVersionKind: gvk.DestinationRule, Name: "dr", Namespace: ns},
			Spec: &networkingapi.DestinationRule{Host: hostname, TrafficPolicy: tp, Subsets: subsets},
		})
	}
	mc := mesh.DefaultMeshConfig()
	mc.RootNamespace = s.root
	if kind == "noauto" {
		mc.EnableAutoMtls = wrapperspb.Bool(false)
	}
	fs := xdsfake.NewFakeDiscoveryServer(f, xdsfake.FakeOptions{Configs: cfgs, MeshConfig: mc, KubernetesObjects: kubeObjs})
	quiet.Silence()
	clientType := model.SidecarProxy
	if kind == "router" {
		clientType = model.Router
	}
	client := fs.SetupProxy(&model.Proxy{
		Type: clientType, ID: "client." + clientNs, ConfigNamespace: clientNs, IPAddresses: []string{clientIP},
		Metadata: &model.NodeMetadata{Namespace: clientNs},
	})
	lm := labelsMap(labels)
	if kubeObjs != nil && len(labels) == 0 {
		lm = map[string]string{"verif-selector": "x"} // the pod's labels (no policy selects on this one)
	}
	server := fs.SetupProxy(&model.Proxy{
		Type: model.SidecarProxy, ID: "server." + ns, ConfigNamespace: ns, IPAddresses: []string{serverIP}, Labels: lm,
		Metadata: &model.NodeMetadata{Namespace: ns, Labels: lm},
	})
	w.fs, w.client, w.server = fs, client, server
	w.hostname, w.subsetName, w.port, w.target, w.tp = hostname, subsetName, port, target, tp
	return w
}

// read: CDS / EDS of the client, LDS of the server, on the world's CURRENT push context and proxy state.
func (w *e2eWorld) read() string {
	fs, client, server := w.fs, w.client, w.server
	hostname, subsetName, port, target, tp := w.hostname, w.subsetName, w.port, w.target, w.tp
	push := fs.PushContext()

	// CDS: the client's outbound cluster
	clusterName := model.BuildSubsetKey(model.TrafficDirectionOutbound, subsetName, host.Name(hostname), int(port))
	c := "-"
	var theCluster *cluster.Cluster
	for _, cl := range fs.Clusters(client) {
		if cl.Name == clusterName {
			theCluster = cl
			c = "0"
			if clusterHasTLS(cl) {
				c = "1"
			}
		}
	}
	// EDS: the endpoint's tlsMode label as sent to the client
	e, x := "-", "-"
	byAddr := map[string][2]string{}
	for _, cla := range fs.Endpoints(client) {
		if cla.ClusterName != clusterName {
			continue
		}
		for _, l := range cla.Endpoints {
			for _, lbe := range l.LbEndpoints {
				// the real reader of the label (isMtlsEnabled) and the field read directly must agree
				e = wire.B(endpoints.VerifIsMtlsEnabled(lbe))
				if direct := lbe.GetMetadata().GetFilterMetadata()["envoy.transport_socket_match"].GetFields()["tlsMode"].GetStringValue() == "istio"; wire.B(direct) != e {
					e = "isMtlsEnabled-disagrees-with-metadata"
				}
				// what Envoy does with this endpoint: the FIRST transport socket match of the cluster whose match is
				// contained in the endpoint's envoy.transport_socket_match metadata, else the cluster's own socket
				x = selectedSocket(theCluster, lbe.GetMetadata().GetFilterMetadata()["envoy.transport_socket_match"].GetFields())
				byAddr[lbe.GetEndpoint().GetAddress().GetSocketAddress().GetAddress()] = [2]string{e, x}
			}
		}
	}
	if w.twoEndpoints {
		// one decision per endpoint, in the order of the ServiceEntry
		a, b := byAddr["10.2.2.2"], byAddr["10.2.2.3"]
		if a[0] == "" || b[0] == "" || len(a[0]) != 1 || len(b[0]) != 1 {
			e, x = "endpoints-missing", "-"
		} else {
			e, x = a[0]+b[0], a[1]+b[1]
		}
	}
	// the real inference on the real service and the client's real sidecar-scope view
	be := "no-service"
	if svc := push.ServiceForHostname(client, host.Name(hostname)); svc != nil {
		// with the traffic policy of the DestinationRule, as the cluster builder passes it
		be = modeTok(push.BestEffortInferServiceMTLSMode(client.SidecarScope.AuthnPolicies, tp, svc, svc.Ports[0]))
	}
	// LDS: what the server accepts on port 80
	var chains []string
	for _, l := range fs.Listeners(server) {
		if l.Name != model.VirtualInboundListenerName {
			continue
		}
		for _, fc := range l.FilterChains {
			if fc.GetFilterChainMatch().GetDestinationPort().GetValue() == target {
				chains = append(chains, chainToken(fc))
			}
		}
	}
	sort.Strings(chains)
	sv := "-"
	if len(chains) > 0 {
		sv = strings.Join(chains, ",")
	}
	return fmt.Sprintf("C=%s E=%s X=%s BE=%s S=%s", c, e, x, be, sv)
}

// selectedSocket: "1" if the transport socket Envoy selects for an endpoint with the given
// envoy.transport_socket_match metadata is TLS, "0" if it is plaintext.
func selectedSocket(cl *cluster.Cluster, epMeta map[string]*structpb.Value) string {
	if cl == nil {
		return "-"
	}
	isTLS := func(ts *corev3.TransportSocket) string {
		if ts != nil && ts.Name == wellknown.TransportSocketTLS {
			return "1"
		}
		return "0"
	}
	for _, m := range cl.GetTransportSocketMatches() {
		ok := true
		for k, v := range m.GetMatch().GetFields() {
			if ev, found := epMeta[k]; !found || ev.GetStringValue() != v.GetStringValue() {
				ok = false
			}
		}
		if ok {
			return isTLS(m.GetTransportSocket())
		}
	}
	return isTLS(cl.GetTransportSocket())
}

// clusterHasTLS: a TLS transport socket on the cluster or in one of its transport-socket matches.
func clusterHasTLS(cl *cluster.Cluster) bool {
	if ts := cl.GetTransportSocket(); ts != nil && ts.Name == wellknown.TransportSocketTLS {
		return true
	}
	for _, m := range cl.GetTransportSocketMatches() {
		if m.GetTransportSocket().GetName() == wellknown.TransportSocketTLS {
			return true
		}
	}
	return false
}

// chainToken: <dst>:<tp>.<alpn>.<http>.<sock> as in inbound.go.
func chainToken(fc *listener.FilterChain) string {
	m := fc.FilterChainMatch
	dst := "*"
	if m.GetDestinationPort() != nil {
		dst = fmt.Sprint(m.GetDestinationPort().GetValue())
	}
	tp := "?"
	switch m.GetTransportProtocol() {
	case "tls":
		tp = "1"
	case "raw_buffer":
		tp = "0"
	}
	http := "0"
	for _, fl := range fc.Filters {
		if fl.Name == wellknown.HTTPConnectionManager {
			http = "1"
		}
	}
	return fmt.Sprintf("%s:%s.%s.%s.%s", dst, tp, alpnCode(m.GetApplicationProtocols()), http, chainSock(fc))
}

var _ = tlsv3.DownstreamTlsContext{}

// clientE2EOracle: the composed decision against the spec and against what the server accepts.
func (s *sut) clientE2EOracle(f []string, res string, fail func(clause, class, detail string)) {
	ns, labels, kind := wire.Dec(f[1]), parseLabels(f[2]), f[4]
	p64, _ := strconv.ParseUint(f[5], 10, 32)
	port := uint32(p64)
	if port == 81 {
		port = 8081 // the endpoint port: what the server enforces and what the client must follow
	}
	eff := effectiveMode(s.pas, s.root, ns, labels, port)
	nsLevel := effectiveMode(s.pas, s.root, ns, nil, 0)
	c, e := field(res, "C"), field(res, "E")
	// op hc after an edit: the same clauses on a world with a history; a failure there is a stale component
	afterEdit := f[0] == "hc" && s.live != nil && s.live.needClient != "-"
	fail0 := fail
	fail = func(clause, class, detail string) {
		if afterEdit && !knownClasses[clause+":"+class] {
			class = "after-edit:" + class
		}
		fail0(clause, class, detail)
	}
	if f[0] == "hc" && s.live != nil {
		w := s.live
		stat("judged.hc.reads")
		if afterEdit {
			stat("judged.hc.reads-after-edit")
			// push propagation, judged by effect: an edit that changes the decision must be pushed to both proxies
			if w.lastEff != "" && (w.lastEff != eff || w.lastNs != nsLevel) {
				stat("judged.hc.edit-changes-decision")
				if w.needClient != "1" {
					fail0("client-push-dependency", "edit-changing-the-decision-not-pushed-to-client", fmt.Sprintf("effective %s -> %s namespace-level %s -> %s", w.lastEff, eff, w.lastNs, nsLevel))
				}
				if w.lastEff != eff && w.needServer != "1" {
					fail0("client-push-dependency", "edit-changing-the-mode-not-pushed-to-server", fmt.Sprintf("effective %s -> %s", w.lastEff, eff))
				}
			}
		}
		w.lastEff, w.lastNs = eff, nsLevel
	}
	if strings.HasPrefix(kind, "two:") {
		// two endpoints in one cluster, one decision each
		labels2 := parseLabels(kind[4:])
		eff2 := effectiveMode(s.pas, s.root, ns, labels2, port)
		x := field(res, "X")
		stat("judged.cl.kind.two")
		if eff != eff2 {
			stat("judged.cl.two.endpoints-with-different-modes")
		}
		if len(x) != 2 {
			fail("client-composed", "endpoints-missing", res)
			return
		}
		for k, m := range []string{eff, eff2} {
			if (x[k] == '1') != (m != "DISABLE") {
				class := "per-endpoint-decision"
				if nsLevel == "DISABLE" && m != "DISABLE" && e[k] == '1' && x[k] == '0' {
					class = "ns-disable-under-narrower-non-disable" // F13
				}
				fail("client-composed", class, fmt.Sprintf("endpoint %d effective %s selected-socket-tls %c label %c cluster-tls %s namespace-level %s", k+1, m, x[k], e[k], c, nsLevel))
				return
			}
		}
		return
	}
	if kind == "hbone" {
		kind = "normal" // a client that may send HBONE decides as any other for an endpoint without tunnel support
		stat("judged.cl.kind.hbone")
	}
	// the client originates mutual TLS iff the transport socket Envoy SELECTS for the endpoint is TLS
	composed := field(res, "X") == "1"
	detail := fmt.Sprintf("kind %s selected-socket-tls %v cluster-tls %s endpoint-label %s effective %s namespace-level %s chains %s", kind, composed, c, e, eff, nsLevel, field(res, "S"))
	stat("judged.cl.kind." + kind)
	stat("judged.cl.effective." + eff + ".namespace-level." + nsLevel)
	if e != "0" && e != "1" && e != "-" {
		fail("client-composed", "endpoint-label-readers-disagree", detail)
		return
	}
	// the server side of the same world: what virtualInbound admits on the endpoint port
	if sv := field(res, "S"); sv != "-" && sv != "" && (kind == "normal" || kind == "router" || kind == "k8s") {
		plain, mtls := false, false
		for _, t := range strings.Split(sv, ",") {
			_, rest, _ := strings.Cut(t, ":")
			q := strings.Split(rest, ".")
			if len(q) == 4 {
				plain = plain || q[0] == "0"
				mtls = mtls || (q[0] == "1" && q[3] == "2")
			}
		}
		if plain != (eff != "STRICT") || mtls != (eff != "DISABLE") {
			fail("inbound-enforces", "server-chains-disagree-with-effective-mode", detail)
		}
	}
	switch kind {
	case "normal", "router", "k8s":
		if composed != (eff != "DISABLE") {
			class := composedClass(composed, e == "1", eff, nsLevel)
			if class == "other" && !composed && c == "1" && e == "1" {
				class = "tls-socket-not-selected-for-labelled-endpoint"
			}
			if class == "other" && !composed && c == "0" && e == "1" && nsLevel != "DISABLE" {
				class = "no-tls-socket-although-namespace-level-not-disable"
			}
			fail("client-composed", class, detail)
		}
	case "noauto":
		// automatic mTLS switched off mesh-wide and no DestinationRule: the client never originates mutual TLS
		if composed || c != "0" {
			fail("client-composed", "auto-mtls-although-disabled-in-meshconfig", detail)
		}
	case "drsubsetdisable":
		if composed || c != "0" || e != "0" {
			fail("client-composed", "destination-rule-subset-disable-not-honoured", detail)
		}
	case "drsubsetfallback":
		if !composed || c != "1" || e != "1" {
			fail("client-composed", "destination-rule-subset-fallback-not-honoured", detail)
		}
	case "noistio", "k8snoistio":
		// an endpoint without sidecar must never be sent mutual TLS
		if composed || e != "0" {
			fail("client-composed", "mtls-to-endpoint-without-sidecar", detail)
		}
	case "drdisable":
		// an explicit DestinationRule TLS mode wins over the PeerAuthentication-derived decision
		if composed || c != "0" || e != "0" {
			fail("client-composed", "destination-rule-disable-not-honoured", detail)
		}
	case "dristio":
		if !composed || c != "1" || e != "1" {
			fail("client-composed", "destination-rule-istio-mutual-not-honoured", detail)
		}
	case "external":
		// a mesh-external service never gets auto-mTLS
		if c != "0" {
			fail("client-composed", "auto-mtls-to-mesh-external-service", detail)
		}
	case "ptdisabled", "drptdisabled", "ptnoistio":
		// passthrough to an endpoint that says tlsMode=disabled (or has no sidecar): no TLS on the cluster
		if c != "0" {
			fail("client-composed", "passthrough-tls-to-disabled-endpoint", detail)
		}
	case "passthrough", "drpassthrough":
		// passthrough to sidecar endpoints follows the namespace level
		if (c == "1") != (nsLevel != "DISABLE") {
			fail("client-composed", "passthrough-ignores-namespace-level", detail)
		}
	}
}
